(* Link between the executable instance Model/DKGZ.v (Z modulo p) and the algebraic model
   Model/DKG.v: in every field F of characteristic p, the map phi : Z -> F (image of the natural
   number) sends the results of the Z functions on canonical inputs (0 <= z < p) to the results
   of the MathComp definitions, with G1 = G2 = GT = F (regular module), g2 = 1, H(m) = 1 and
   e = multiplication.  This file necessarily mixes stdlib Z and MathComp. *)
From Coq Require Import ZArith List Lia.
From mathcomp Require Import all_ssreflect ssralg poly.
From ZC Require Import Model.DKG Model.DKGZ Proof.DKG.
Set Implicit Arguments.
Unset Strict Implicit.
Unset Printing Implicit Defensive.
Import GRing.Theory.
Local Open Scope ring_scope.

Section Link.
Variable F : fieldType.
Variable p : Z.
Hypothesis p_gt1 : (1 < p)%Z.
Hypothesis charF : Z.to_nat p \in [char F].

Definition dzl_phi (z : Z) : F := (Z.to_nat z)%:R.
Local Notation phi := dzl_phi.

Definition dzl_can (z : Z) : Prop := (0 <= z < p)%Z.

Lemma dzl_phi_add a b : (0 <= a)%Z -> (0 <= b)%Z -> phi (a + b) = phi a + phi b.
Proof. by move=> ha hb; rewrite /phi Z2Nat.inj_add // plusE natrD. Qed.

Lemma dzl_phi_mul a b : (0 <= a)%Z -> (0 <= b)%Z -> phi (a * b) = phi a * phi b.
Proof. by move=> ha hb; rewrite /phi Z2Nat.inj_mul // multE natrM. Qed.

Lemma dzl_phi_p : phi p = 0.
Proof. by rewrite /phi (charf0 charF). Qed.

Lemma dzl_phi0 : phi 0 = 0. Proof. by []. Qed.
Lemma dzl_phi1 : phi 1 = 1. Proof. by []. Qed.

Lemma dzl_mod_can a : dzl_can (a mod p).
Proof. by apply: Z.mod_pos_bound; lia. Qed.

Lemma dzl_phi_mod a : (0 <= a)%Z -> phi (a mod p) = phi a.
Proof.
move=> ha; have hp : (0 < p)%Z by lia.
have hq : (0 <= a / p)%Z by apply: Z.div_pos.
have hr := dzl_mod_can a.
rewrite [in RHS](Z.div_mod a p); last lia.
rewrite dzl_phi_add; [|by apply: Z.mul_nonneg_nonneg; lia|by case: hr].
by rewrite dzl_phi_mul ?dzl_phi_p ?mul0r ?add0r //; lia.
Qed.

Lemma dzl_phi_sub_mod a b : dzl_can a -> dzl_can b -> phi ((a - b) mod p) = phi a - phi b.
Proof.
move=> [ha0 hap] [hb0 hbp].
have -> : ((a - b) mod p = (a + (p - b)) mod p)%Z.
  have -> : (a + (p - b) = (a - b) + 1 * p)%Z by lia.
  by rewrite Z.mod_add //; lia.
rewrite dzl_phi_mod; last lia.
rewrite dzl_phi_add //; last lia.
congr (_ + _); apply/eqP; rewrite -subr_eq0 opprK; apply/eqP.
by rewrite -dzl_phi_add ?Z.sub_add ?dzl_phi_p //; lia.
Qed.

Lemma dzl_phi_inj a b : dzl_can a -> dzl_can b -> phi a = phi b -> a = b.
Proof.
have wlog_le a' b' : dzl_can a' -> dzl_can b' -> (a' <= b')%Z -> phi a' = phi b' -> a' = b'.
  move=> [ha0 hap] [hb0 hbp] hab heq.
  have: phi (b' - a') = 0.
    apply/eqP; rewrite -(subrr (phi a')) {1}heq eq_sym subr_eq; apply/eqP.
    by rewrite -dzl_phi_add ?Z.sub_add //; lia.
  rewrite /phi => /eqP; rewrite -(dvdn_charf charF) => /dvdnP[k hk].
  case: k hk => [|k] hk.
    have: Z.to_nat (b' - a') = 0%N by rewrite hk mul0n.
    by move=> h0; lia.
  have : (Z.to_nat p <= Z.to_nat (b' - a'))%coq_nat.
    by rewrite hk mulSn; apply/leP; apply: leq_addr.
  by move=> hle; lia.
move=> ca cb heq; case: (Z.le_ge_cases a b) => hab; first exact: wlog_le.
by apply/esym; apply: wlog_le.
Qed.

Lemma dzl_phi_eqb a b : dzl_can a -> dzl_can b -> Z.eqb a b = (phi a == phi b).
Proof.
move=> ca cb; case: (Z.eqb_spec a b) => [->|ne]; first by rewrite eqxx.
by apply/esym/negbTE/eqP => /(dzl_phi_inj ca cb).
Qed.


(* ---- lists ---- *)
Fixpoint dzl_cans (l : list Z) : Prop :=
  match l with nil => True | x :: tl => dzl_can x /\ dzl_cans tl end.

Lemma dzl_mapE (A B : Type) (f : A -> B) (l : list A) : List.map f l = map f l.
Proof. by elim: l => //= x l ->. Qed.

Lemma dzl_can0 : dzl_can 0. Proof. by rewrite /dzl_can; lia. Qed.
Lemma dzl_can_nonneg z : dzl_can z -> (0 <= z)%Z. Proof. by case. Qed.
Local Hint Resolve dzl_can0 dzl_mod_can dzl_can_nonneg : core.

(* ---- polynomial evaluation: ComputeDKGKeyShare ---- *)
Lemma dzl_eval_can cs x : dzl_can (dz_eval p cs x).
Proof. by case: cs => [|c cs] /=. Qed.

Lemma dzl_eval_correct cs x :
  dzl_cans cs -> dzl_can x -> phi (dz_eval p cs x) = (Poly (map phi cs)).[phi x].
Proof.
move=> hcs hx; elim: cs hcs => [|c cs IH] /= [].
  by rewrite horner0.
move=> hc hcs; have he := dzl_eval_can cs x.
rewrite horner_cons dzl_phi_mod; last first.
  by apply: Z.add_nonneg_nonneg; [|apply: Z.mul_nonneg_nonneg]; auto.
rewrite dzl_phi_add; [|by auto|by apply: Z.mul_nonneg_nonneg; auto].
by rewrite dzl_phi_mul ?IH 1?addrC 1?[phi x * _]mulrC; auto.
Qed.

Lemma dzl_share_correct cs i :
  dzl_cans cs -> dzl_can i -> phi (dz_share p cs i) = dkg_share (map phi cs) (phi i).
Proof. exact: dzl_eval_correct. Qed.

(* ---- sums: AggregateSecretKeyShares ---- *)
Lemma dzl_sum_can l : dzl_can (dz_sum p l).
Proof. by case: l => [|a l] /=. Qed.

Lemma dzl_sum_correct l : dzl_cans l -> phi (dz_sum p l) = \sum_(x <- map phi l) x.
Proof.
elim: l => [|a l IH] /=; first by rewrite big_nil.
move=> [ha hl]; have hs := dzl_sum_can l.
rewrite big_cons dzl_phi_mod; last by apply: Z.add_nonneg_nonneg; auto.
by rewrite dzl_phi_add ?IH; auto.
Qed.

Lemma dzl_sk_can css i : dzl_can (dz_sk p css i).
Proof. exact: dzl_sum_can. Qed.

Lemma dzl_sk_correct css i :
  (forall cs, List.In cs css -> dzl_cans cs) -> dzl_can i ->
  phi (dz_sk p css i) = dkg_sk (map (map phi) css) (phi i).
Proof.
move=> hcss hi; rewrite /dz_sk /dkg_sk.
elim: css hcss => [|cs css IH] hcss /=; first by rewrite big_nil.
have hs := dzl_sum_can (List.map (fun cs0 => dz_eval p cs0 i) css).
have he := dzl_eval_can cs i.
rewrite big_cons dzl_phi_mod; last by apply: Z.add_nonneg_nonneg; auto.
rewrite dzl_phi_add; auto.
rewrite IH; last by move=> cs' hin; apply: hcss; right.
by rewrite dzl_eval_correct //; apply: hcss; left.
Qed.

Lemma dzl_shares_sound (css : list (list Z)) (cs : list Z) (i : Z) :
  (forall cs', List.In cs' css -> dzl_cans cs') -> dzl_cans cs -> dzl_can i ->
  phi (dz_share p cs i) = dkg_share (map phi cs) (phi i) /\
  phi (dz_sk p css i) = dkg_sk (map (map phi) css) (phi i).
Proof.
move=> hcss hcs hi; split; first exact: dzl_share_correct.
exact: dzl_sk_correct.
Qed.

(* ---- GenerateSplitKeys: the scalars read from the split keys' bytes are the model's keys ---- *)
Lemma dzl_split_correct sk ks :
  dzl_can sk -> dzl_cans ks -> map phi (dz_split p sk ks) = dkg_split (phi sk) (map phi ks).
Proof.
move=> hsk hks; rewrite /dz_split /dkg_split -cats1 -dzl_mapE List.map_app !dzl_mapE /=.
by rewrite dzl_phi_sub_mod ?dzl_sum_correct //; apply: dzl_sum_can.
Qed.

(* ---- ValidateShare, with G2 = F, g2 = 1 ---- *)
Let V := [lmodType F of F^o].

Lemma dzl_validate_correct cs i s :
  dzl_cans cs -> dzl_can i -> dzl_can s ->
  dz_validate p cs i s = @dkg_validate F V 1 (dkg_mpk (1 : V) (map phi cs)) (phi i) (phi s).
Proof.
move=> hcs hi hs; rewrite (@dkg_validate_iff F V) ?oner_neq0 //.
by rewrite /dz_validate (dzl_phi_eqb hs (dzl_eval_can cs i)) dzl_eval_correct.
Qed.

(* ---- Sign / VerifySignature on the same message, with H(m) = 1 and e = multiplication ---- *)
Lemma dzl_verify_correct (M : Type) (m : M) k s :
  dzl_can k -> dzl_can s ->
  dz_verify k s =
  @dkg_verify F V V V 1 M (fun _ => 1) (fun x y => x * y) (dkg_pub (1 : V) (phi k)) m
              (dkg_sign (fun _ : M => (1 : V)) (phi s) m).
Proof.
move=> hk hs; rewrite /dz_verify /dkg_verify /dkg_sign /dkg_pub /=.
by rewrite (dzl_phi_eqb hs hk) /GRing.scale /= !mulr1 mul1r.
Qed.

(* ---- products and Lagrange coefficients ---- *)
Lemma dzl_prod_can l : dzl_can (dz_prod p l).
Proof. by case: l => [|a l] /=. Qed.

Lemma dzl_prod_correct l : dzl_cans l -> phi (dz_prod p l) = \prod_(x <- map phi l) x.
Proof.
elim: l => [|a l IH] /=.
  by rewrite big_nil dzl_phi_mod // ; lia.
move=> [ha hl]; have hs := dzl_prod_can l.
rewrite big_cons dzl_phi_mod; last by apply: Z.mul_nonneg_nonneg; auto.
by rewrite dzl_phi_mul ?IH; auto.
Qed.

Lemma dzl_den_correct ids i :
  dzl_cans ids -> dzl_can i ->
  phi (dz_den p ids i) = \prod_(j <- map phi ids | j != phi i) (j - phi i).
Proof.
move=> hids hi; rewrite /dz_den /dz_others.
elim: ids hids => [|j ids IH] /=.
  by rewrite big_nil dzl_phi_mod //; lia.
move=> [hj hids]; rewrite big_cons (dzl_phi_eqb hj hi).
case: (phi j == phi i) => /=; first exact: IH.
set r := dz_prod p _ in IH *.
have hr : dzl_can r by apply: dzl_prod_can.
rewrite dzl_phi_mod; last by apply: Z.mul_nonneg_nonneg; auto.
by rewrite dzl_phi_mul ?dzl_phi_sub_mod ?IH; auto.
Qed.

Lemma dzl_num_correct ids i :
  dzl_cans ids -> dzl_can i ->
  phi (dz_num p ids i) = \prod_(j <- map phi ids | j != phi i) j.
Proof.
move=> hids hi; rewrite /dz_num /dz_others.
elim: ids hids => [|j ids IH] /=.
  by rewrite big_nil dzl_phi_mod //; lia.
move=> [hj hids]; rewrite big_cons (dzl_phi_eqb hj hi).
case: (phi j == phi i) => /=; first exact: IH.
set r := dz_prod p _ in IH *.
have hr : dzl_can r by apply: dzl_prod_can.
rewrite dzl_phi_mod; last by apply: Z.mul_nonneg_nonneg; auto.
by rewrite dzl_phi_mul ?IH; auto.
Qed.

Lemma dzl_lag0_quot (ids : seq F) (i : F) :
  dkg_lag0 ids i = (\prod_(j <- ids | j != i) j) / (\prod_(j <- ids | j != i) (j - i)).
Proof. by rewrite /dkg_lag0 big_split /= prodfV. Qed.

Lemma dzl_den_neq0 (ids : seq F) (i : F) : \prod_(j <- ids | j != i) (j - i) != 0.
Proof. by rewrite prodf_seq_neq0; apply/allP => j _; apply/implyP; rewrite subr_eq0. Qed.

Lemma dzl_hint_correct ids i l :
  dzl_cans ids -> dzl_can i -> dzl_can l ->
  Z.eqb ((l * dz_den p ids i) mod p) (dz_num p ids i) = true ->
  phi l = dkg_lag0 (map phi ids) (phi i).
Proof.
move=> hids hi hl /Z.eqb_eq heq.
have hd := dzl_prod_can (List.map (fun j => ((j - i) mod p)%Z) (dz_others ids i)).
have: phi ((l * dz_den p ids i) mod p) = phi (dz_num p ids i) by rewrite heq.
rewrite dzl_phi_mod; last by apply: Z.mul_nonneg_nonneg; auto.
rewrite dzl_phi_mul; auto.
rewrite dzl_den_correct // dzl_num_correct // dzl_lag0_quot => <-.
by rewrite mulfK // dzl_den_neq0.
Qed.


(* ---- Sign.Recover ---- *)
Definition dzl_phi2 (pr : Z * Z) : F * V := (phi pr.1, phi pr.2 : V).

Lemma dzl_canon_can z : dz_canon p z = true -> dzl_can z.
Proof. by rewrite /dz_canon /dzl_can => /andb_prop [] /Z.leb_le ? /Z.ltb_lt ?. Qed.

Lemma dzl_comb_can hints vals : dzl_can (dz_comb p hints vals).
Proof. by case: hints => [|l hints] //=; case: vals => [|v vals] /=. Qed.

Lemma dzl_comb_correct ids prs hints :
  dzl_cans ids -> dzl_cans (List.map fst prs) -> dzl_cans (List.map snd prs) ->
  dz_hints_ok p ids (List.map fst prs) hints = true ->
  phi (dz_comb p hints (List.map snd prs)) =
  \sum_(pr <- map dzl_phi2 prs) dkg_lag0 (map phi ids) pr.1 *: pr.2.
Proof.
move=> hids; elim: prs hints => [|[i v] prs IH] [|l hints] //=.
  by rewrite big_nil.
move=> [hi his] [hv hvs] /andb_prop [] /andb_prop [] /dzl_canon_can hl heq hrest.
have hc := dzl_comb_can hints (List.map snd prs).
rewrite big_cons /= dzl_phi_mod; last by apply: Z.add_nonneg_nonneg; auto.
rewrite dzl_phi_add; auto.
rewrite dzl_phi_mod; last by apply: Z.mul_nonneg_nonneg; auto.
rewrite dzl_phi_mul; auto.
by rewrite (IH hints) // (dzl_hint_correct hids hi hl heq).
Qed.

Lemma dzl_mem_correct x l :
  dzl_can x -> dzl_cans l -> List.existsb (Z.eqb x) l = (phi x \in map phi l).
Proof.
move=> hx; elim: l => [|y l IH] //= [hy hl].
by rewrite in_cons (dzl_phi_eqb hx hy) IH.
Qed.

Lemma dzl_uniq_correct l : dzl_cans l -> dz_uniq l = uniq (map phi l).
Proof. by elim: l => [|x l IH] //= [hx hl]; rewrite dzl_mem_correct // IH. Qed.

Lemma dzl_ids_ok_correct ids :
  dzl_cans ids -> dz_ids_ok ids = uniq (map phi ids) && (0 \notin map phi ids).
Proof.
by move=> hids; rewrite /dz_ids_ok dzl_uniq_correct // dzl_mem_correct.
Qed.

(* the accepted outcome of a recovery is the outcome of the algebraic model *)
Lemma dzl_recover_ok_correct prs hints oc :
  dzl_cans (List.map fst prs) -> dzl_cans (List.map snd prs) ->
  dz_recover_ok p prs hints oc = true ->
  @dkg_recover F V (map dzl_phi2 prs) = omap (fun c => phi c : V) oc.
Proof.
case: prs => [|pr1 [|pr2 prs]] hids hvals.
- by case: oc.
- by case: oc => //= c /Z.eqb_eq ->.
set prs' := pr1 :: pr2 :: prs in hids hvals *.
have unz : unzip1 (map dzl_phi2 prs') = map phi (List.map fst prs').
  by rewrite dzl_mapE /unzip1 -!map_comp.
rewrite dkg_recoverE // /dkg_recover_gen unz -dzl_ids_ok_correct //.
rewrite /dz_recover_ok -/prs'.
case: oc => [c|]; last by move/negbTE => ->.
move=> /andb_prop [] /andb_prop [] -> hh /Z.eqb_eq ->.
by rewrite /= (dzl_comb_correct hids hids hvals hh).
Qed.

End Link.
