(* Correspondence for C06. The engine (harness/cmd/determinism) executes each scenario several times in fresh
   processes and hands over what it saw:
     DcRuns      the digests of the executions of a scenario in which no listed finding is triggered
                 (the model, C06_exec_oracle_independent, says: all equal);
     DcFirstErr  a governance request given as the error code of each entry in sorted key order (None = acceptable)
                 and the error code observed in each execution (the model: the loops visit the keys in sorted
                 order, so every execution reports the first failing entry of that order);
     DcFanIn     a request whose items fail in a fan-in (GetItemsByIDs) with an error other than not-present: the
                 digest of the output each failing item gives on its own, and the digests of the outputs observed
                 in the repeated executions of the request on one state (the model: the error of the item whose
                 goroutine finishes first, for some finishing order - the scheduler oracle). *)
From ZC Require Import Base.Corr Model.Determinism.
Open Scope Z_scope.

Inductive det_case :=
  | DcRuns (digests : list Z)
  | DcFirstErr (errs : list (option Z)) (observed : list (option Z))
  | DcFanIn (items : list Z) (observed : list Z).

Definition opt_z_eqb (a b : option Z) : bool :=
  match a, b with Some x, Some y => Z.eqb x y | None, None => true | _, _ => false end.

Definition det_check (c : det_case) : bool :=
  match c with
  | DcRuns [] => true
  | DcRuns (d :: tl) => forallb (Z.eqb d) tl
  | DcFirstErr errs obs =>
      (* errs is given in sorted key order, the order the repaired loops use: every execution reports the first one *)
      let expected := nd_first_error (option Z) (fun e => e) errs in
      forallb (opt_z_eqb expected) obs
  | DcFanIn items obs =>
      (* every observed output is what the model returns when some failing item finishes first *)
      forallb (fun o => existsb (fun i => opt_z_eqb (nd_fanin_first Z (fun x => Some x) (i :: items)) (Some o)) items) obs
  end.
