(* C25: remaining calls (Remove, Exist, Size, ForEach, GetRandomItems, Save, commit, reload), then
   the refinement of the finite-map specification by every step and by every history. *)
From ZC Require Import Model.Partitions Model.PartitionsSpec Proof.PartitionsUtil Proof.PartitionsInv
     Proof.PartitionsSem Proof.PartitionsPrim Proof.PartitionsOps Proof.PartitionsRemove
     Proof.PartitionsRandom.
From Coq Require Import Sorting.Permutation.
Open Scope Z_scope.

(* ---------- Remove ---------- *)
Lemma pt_remove_notfound size ws id :
  pt_inv size ws -> ~ In id (pt_ids (pt_abs ws)) -> pt_remove ws id = (ws, PErrNotFound).
Proof.
  intros Hinv Hni. destruct (pt_not_member size ws id (pt_inv_core _ _ Hinv) Hni) as [Hf Hl].
  unfold pt_remove. fold (pt_L ws). rewrite Hf, Hl. reflexivity.
Qed.

Lemma pt_remove_ok size ws id d :
  pt_inv size ws -> In (id, d) (pt_abs ws) ->
  exists ws', pt_remove ws id = (ws', POk) /\ pt_inv size ws' /\
    Permutation (pt_abs ws) ((id, d) :: pt_abs ws').
Proof.
  intros Hinv Hin. pose proof (pt_inv_core _ _ Hinv) as Hc.
  unfold pt_remove. fold (pt_L ws).
  destruct (pt_locate size ws id d Hc Hin) as [(idx & Hf)|(Hf & l & idx & HT & Hl & Hfl)].
  - rewrite Hf. destruct (pt_remove_from_last_ok size ws id idx d Hinv Hf) as (ws' & Hr & Hinv' & Hp).
    rewrite Hr. exists ws'. auto.
  - rewrite Hf, (pt_get_loc_T _ _ _ id Hc), HT.
    destruct (pt_remove_part_ok size ws id d l idx Hinv HT Hl Hfl) as (ws' & Hr & Hinv' & Hp).
    rewrite Hr. exists ws'. auto.
Qed.

(* ---------- Exist / Size ---------- *)
Lemma pt_exist_spec size ws id : pt_inv size ws -> (pt_exist ws id = true <-> In id (pt_ids (pt_abs ws))).
Proof.
  intros Hinv. pose proof (pt_inv_core _ _ Hinv) as Hc. unfold pt_exist. fold (pt_L ws).
  rewrite (pt_member size ws id Hc), (pt_get_loc_T _ _ _ id Hc).
  destruct (pt_has id (pt_L ws)) eqn:Hh.
  - apply pt_has_true in Hh. tauto.
  - apply pt_has_false in Hh. destruct (pt_T ws id) as [l|].
    + split; [eauto|reflexivity].
    + split; [discriminate|]. intros [H|(l & H)]; [contradiction|discriminate].
Qed.

Lemma pt_size_spec size ws : pt_inv size ws -> pt_size size ws = length (pt_abs ws).
Proof.
  intros [Hc Hne]. rewrite pt_abs_flat, (io_total_len Hc). unfold pt_size. fold (pt_L ws).
  destruct (pt_L ws) as [|x L'] eqn:EL; [|reflexivity].
  destruct (pt_loc ws) as [|n]; [reflexivity|]. exfalso. apply Hne; [lia|reflexivity].
Qed.

(* ---------- ForEach ---------- *)
Lemma pt_foreach_from_ok size k : forall ws i acc,
  pt_core_ws None size ws -> (i + k = S (pt_loc ws))%nat -> (0 < k)%nat ->
  exists ws', pt_foreach_from ws i k acc =
                Some (ws', acc ++ flat_map (pt_eff ws) (seq i (k - 1)) ++ pt_L ws) /\
    pt_same_but_cache ws ws' /\ pt_core_ws None size ws'.
Proof.
  induction k as [|k IH]; intros ws i acc Hc Hik Hk; [lia|].
  cbn [pt_foreach_from]. destruct (Nat.eq_dec i (pt_loc ws)) as [->|Hne].
  - assert (k = 0)%nat by lia. subst k. unfold pt_getpart. rewrite Nat.ltb_irrefl, Nat.eqb_refl.
    cbn [pt_foreach_from Nat.sub seq flat_map app]. exists ws.
    split; [reflexivity|]. split; [apply pt_same_but_cache_refl|exact Hc].
  - destruct (pt_getpart_lt None size ws i Hc) as (ws1 & p & Hg & _ & _ & Hit & Hs & Hc1); [lia|].
    rewrite Hg. pose proof Hs as (Ht1 & Hn1 & Hl1 & _ & HE1).
    destruct (IH ws1 (S i) (acc ++ pp_items p) Hc1) as (ws' & Hr & Hs' & Hc'); [lia|lia|].
    exists ws'. split; [|split; [eapply pt_same_but_cache_trans; eassumption|exact Hc']].
    rewrite Hr. f_equal. f_equal. rewrite <- app_assoc. f_equal.
    replace (S k - 1)%nat with (S (k - 1)) by lia. cbn [seq flat_map]. rewrite Hit, <- app_assoc.
    f_equal. f_equal.
    + apply flat_map_seq_ext. intros j _. apply HE1.
    + unfold pt_L. rewrite Hl1. reflexivity.
Qed.

Lemma pt_foreach_ok size ws :
  pt_inv size ws ->
  exists ws', pt_foreach ws = (ws', PItems (pt_abs ws)) /\ pt_inv size ws' /\ pt_abs ws' = pt_abs ws.
Proof.
  intros [Hc Hne]. unfold pt_foreach.
  destruct (pt_foreach_from_ok size (S (pt_loc ws)) ws O [] Hc) as (ws' & Hr & Hs & Hc'); [lia|lia|].
  rewrite Hr. exists ws'. cbn [app]. replace (S (pt_loc ws) - 1)%nat with (pt_loc ws) by lia.
  split; [reflexivity|]. split; [|apply pt_same_but_cache_abs; exact Hs].
  split; [exact Hc'|]. destruct Hs as (_ & Hn & Hl & _). unfold pt_L. rewrite Hn, Hl. exact Hne.
Qed.

(* ---------- GetRandomItems ---------- *)
Lemma pt_random_empty size ws idx : pt_inv size ws -> pt_abs ws = [] -> pt_random size ws idx = (ws, PErrEmpty).
Proof.
  intros _ Habs. unfold pt_random. fold (pt_L ws).
  destruct (pt_L ws) as [|x L'] eqn:EL; [reflexivity|]. exfalso.
  assert (Hin : In x (pt_abs ws)) by (apply pt_in_abs_last; rewrite EL; left; reflexivity).
  rewrite Habs in Hin. exact Hin.
Qed.

Lemma pt_random_ok size ws idx :
  pt_inv size ws -> pt_abs ws <> [] -> (idx < length (pt_abs ws))%nat ->
  exists ws' l, pt_random size ws idx = (ws', PItems l) /\ pt_inv size ws' /\ pt_abs ws' = pt_abs ws /\
    NoDup (pt_ids l) /\ (forall it, In it l -> In it (pt_abs ws)) /\
    length l = Nat.min size (length (pt_abs ws)).
Proof.
  intros [Hc Hne] Hnonempty Hidx. unfold pt_random. fold (pt_L ws).
  pose proof (io_size _ _ _ _ _ _ _ _ _ Hc) as Hsz.
  pose proof (io_full _ _ _ _ _ _ _ _ _ Hc) as Hfull.
  pose proof (io_last_len _ _ _ _ _ _ _ _ _ Hc) as HLlen.
  assert (Hlen : length (pt_abs ws) = (pt_loc ws * size + length (pt_L ws))%nat)
    by (rewrite pt_abs_flat; apply (io_total_len Hc)).
  assert (HLne : pt_L ws <> []).
  { destruct (pt_loc ws) as [|n] eqn:En; [|apply Hne; lia].
    intros HL. apply Hnonempty. rewrite pt_abs_flat, En, HL. reflexivity. }
  destruct (pt_L ws) as [|x L'] eqn:EL; [contradiction|]. rewrite <- EL in *.
  set (rc := Nat.min size (pt_loc ws * size + length (pt_L ws))).
  assert (Hdm : idx = (idx / size * size + idx mod size)%nat).
  { rewrite Nat.mul_comm. apply Nat.div_mod. lia. }
  assert (Hmod : (idx mod size < size)%nat) by (apply Nat.mod_upper_bound; lia).
  assert (Hpi : (idx / size <= pt_loc ws)%nat).
  { destruct (Nat.le_gt_cases (idx / size) (pt_loc ws)) as [H|H]; [exact H|]. exfalso.
    assert (S (pt_loc ws) * size <= idx / size * size)%nat by (apply Nat.mul_le_mono_r; lia). lia. }
  destruct (pt_rand_loop_ok size (S (S rc)) ws (idx / size) (idx mod size) rc [] Hc) as (ws' & Hr & Hs & Hc');
    [rewrite EL; discriminate|exact Hpi| |lia|].
  { unfold pt_part_at. destruct (Nat.eqb_spec (idx / size) (pt_loc ws)) as [He|Hn'].
    - rewrite He in Hdm. lia.
    - rewrite Hfull by lia. exact Hmod. }
  rewrite Hr. cbn [app]. rewrite <- Hdm.
  exists ws', (pt_rot (pt_abs ws) idx rc). split; [reflexivity|].
  assert (Hnd : NoDup (pt_ids (pt_abs ws))) by (rewrite pt_abs_flat; apply (io_nodup _ _ _ _ _ _ _ _ _ Hc)).
  split; [|split; [apply pt_same_but_cache_abs; exact Hs|split; [|split]]].
  - split; [exact Hc'|]. destruct Hs as (_ & Hn & Hl & _). unfold pt_L in *. rewrite Hn, Hl. exact Hne.
  - apply pt_rot_nodup; [exact Hnd|]. subst rc. rewrite Hlen. apply Nat.le_min_r.
  - intros it. apply pt_rot_incl. exact Hnonempty.
  - rewrite pt_rot_length, Hlen. reflexivity.
Qed.

(* ---------- Save ---------- *)
Lemma pt_save_parts_get c0 keys : forall ps i,
  pt_al_get Nat.eqb i (pt_save_parts c0 keys ps) =
  if existsb (Nat.eqb i) keys then
    match pt_al_get Nat.eqb i c0 with
    | Some p => if pp_changed p then Some (pp_items p) else pt_al_get Nat.eqb i ps
    | None => pt_al_get Nat.eqb i ps
    end
  else pt_al_get Nat.eqb i ps.
Proof.
  induction keys as [|k tl IH]; intros ps i; cbn [pt_save_parts existsb]; [reflexivity|].
  rewrite IH. unfold pt_cache_get.
  destruct (Nat.eqb_spec i k) as [->|Hne]; cbn [orb].
  - destruct (pt_al_get Nat.eqb k c0) as [p|] eqn:Ec.
    + destruct (pp_changed p) eqn:Ech.
      * rewrite nat_get_set_eq. destruct (existsb (Nat.eqb k) tl); reflexivity.
      * destruct (existsb (Nat.eqb k) tl); reflexivity.
    + destruct (existsb (Nat.eqb k) tl); reflexivity.
  - assert (Hx : pt_al_get Nat.eqb i
                   match pt_al_get Nat.eqb k c0 with
                   | Some p => if pp_changed p then pt_al_set Nat.eqb k (pp_items p) ps else ps
                   | None => ps
                   end = pt_al_get Nat.eqb i ps).
    { destruct (pt_al_get Nat.eqb k c0) as [p|]; [|reflexivity].
      destruct (pp_changed p); [|reflexivity]. apply nat_get_set_ne. exact Hne. }
    rewrite Hx. reflexivity.
Qed.

Lemma al_get_in_keys {V} (c : list (nat * V)) i p :
  pt_al_get Nat.eqb i c = Some p -> existsb (Nat.eqb i) (map fst c) = true.
Proof.
  induction c as [|[k v] tl IH]; cbn; [discriminate|].
  destruct (Nat.eqb_spec i k) as [->|Hne]; [reflexivity|]. exact IH.
Qed.

Lemma pt_saved_get c ps i :
  pt_al_get Nat.eqb i (pt_save_parts c (map fst c) ps) =
  match pt_al_get Nat.eqb i c with
  | Some p => if pp_changed p then Some (pp_items p) else pt_al_get Nat.eqb i ps
  | None => pt_al_get Nat.eqb i ps
  end.
Proof.
  rewrite pt_save_parts_get. destruct (pt_al_get Nat.eqb i c) as [p|] eqn:Ec.
  - rewrite (al_get_in_keys c i p Ec). reflexivity.
  - destruct (existsb (Nat.eqb i) (map fst c)); reflexivity.
Qed.

Lemma pt_saved_eff size n L c ps T C i :
  pt_core None size n L (pt_eff_of c ps) T C (fun j => pt_al_get Nat.eqb j ps) (fun j => pt_al_get Nat.eqb j c) ->
  pt_eff_of c (pt_save_parts c (map fst c) ps) i = pt_eff_of c ps i /\
  pt_eff_of [] (pt_save_parts c (map fst c) ps) i = pt_eff_of c ps i.
Proof.
  intros Hc. unfold pt_eff_of, pt_cache_get, pt_parts_get. cbn [pt_al_get]. rewrite pt_saved_get.
  destruct (pt_al_get Nat.eqb i c) as [p|] eqn:Ec; [|split; reflexivity].
  split; [reflexivity|]. destruct (pp_changed p) eqn:Ech; [reflexivity|].
  destruct (io_cache _ _ _ _ _ _ _ _ _ Hc i p Ec) as [_ Hx]. rewrite (Hx Ech). reflexivity.
Qed.

Lemma core_forget_caches stale size n L E E' T C Pt Ch :
  pt_core stale size n L E T C Pt Ch -> (forall i, (i < n)%nat -> E i = E' i) ->
  pt_core stale size n L E' T (fun _ => None) Pt (fun _ => None).
Proof.
  intros Hc HE.
  assert (Hc' : pt_core stale size n L E' T C Pt Ch) by (eapply pt_core_ext; try eassumption; reflexivity).
  destruct Hc' as [H1 H2 H4 H5 H6 Hs H7 H8 H9]. constructor; auto; intros; discriminate.
Qed.

(* after Save, the working state is still fine and a fresh reader of its trie sees the same set *)
Lemma pt_save_ok size ws :
  pt_inv size ws ->
  pt_inv size (pt_save ws) /\ pt_abs (pt_save ws) = pt_abs ws /\
  pt_inv size {| ws_trie := ws_trie (pt_save ws); ws_mem := pt_load (ws_trie (pt_save ws)) |} /\
  pt_abs {| ws_trie := ws_trie (pt_save ws); ws_mem := pt_load (ws_trie (pt_save ws)) |} = pt_abs ws.
Proof.
  intros [Hc Hne]. destruct ws as [[h ps ls] [n lp c lc]]. unfold pt_save, pt_load. pt_red.
  set (ps' := pt_save_parts c (map fst c) ps).
  assert (HE : forall i, pt_eff_of c ps' i = pt_eff_of c ps i /\ pt_eff_of [] ps' i = pt_eff_of c ps i)
    by (intros i; eapply pt_saved_eff; exact Hc).
  assert (Hc1 : pt_core None size n (pp_items lp) (pt_eff_of c ps) (fun id => pt_al_get Z.eqb id ls)
                  (fun id => pt_al_get Z.eqb id lc) (fun i => pt_al_get Nat.eqb i ps')
                  (fun i => pt_al_get Nat.eqb i c)).
  { eapply core_cache_trie; [exact Hc| |].
    - intros i p Hp. destruct (io_cache _ _ _ _ _ _ _ _ _ Hc i p Hp) as [Hi Hx]. split; [exact Hi|].
      intros Hch. subst ps'. rewrite pt_saved_get, Hp, Hch. apply Hx. exact Hch.
    - intros i Hi. subst ps'. rewrite pt_saved_get.
      pose proof (io_trie _ _ _ _ _ _ _ _ _ Hc i Hi) as Hx.
      destruct (pt_al_get Nat.eqb i c) as [p|]; [|exact Hx]. destruct (pp_changed p); [discriminate|exact Hx]. }
  split; [split|split; [|split; [split|]]].
  - eapply pt_core_ext; [| | | | |exact Hc1]; try reflexivity. intros i _. symmetry. apply HE.
  - exact Hne.
  - rewrite !pt_abs_flat. pt_red. apply pt_flat_ext. intros i _. apply HE.
  - unfold pt_core_ws. pt_red. cbn [fst snd].
    eapply core_forget_caches; [exact Hc1|]. intros i _. symmetry. apply HE.
  - cbn [fst snd]. exact Hne.
  - rewrite !pt_abs_flat. pt_red. cbn [fst snd]. apply pt_flat_ext. intros i _. apply HE.
Qed.

(* ---------- the initial state ---------- *)
Lemma pt_init_inv size : (1 <= size)%nat -> pt_inv size (ps_ws (pt_init size)).
Proof.
  intros Hsz. unfold pt_init, pt_load, pt_empty_trie. cbn [ps_ws]. split; [|cbn; lia].
  unfold pt_core_ws. pt_red. cbn [fst snd]. constructor; cbn; auto; try constructor; try discriminate.
  - lia.
  - intros i Hi. lia.
  - intros [[Hl _]|Hx]; [lia|discriminate].
  - intros i Hi. lia.
Qed.

(* ---------- refinement ---------- *)
Definition pt_loaded (t : pt_trie) : pt_ws := {| ws_trie := t; ws_mem := pt_load t |}.

Definition pt_R (size : nat) (st : pt_state) (s : sp_state) : Prop :=
  ps_size st = size /\ pt_inv size (ps_ws st) /\ pt_inv size (pt_loaded (ps_commit st)) /\
  Permutation (pt_abs (ps_ws st)) (fst s) /\ Permutation (pt_abs_commit st) (snd s).

(* GetRandomItems draws r.Intn(total): the recorded index is below the size of the set *)
Definition pt_op_ok (m : sp_map) (o : pt_op) : Prop :=
  match o with PRandom idx => m = [] \/ (idx < length m)%nat | _ => True end.

Lemma perm_nodup_ids l m : Permutation l m -> NoDup (pt_ids l) -> NoDup (pt_ids m).
Proof. apply nodup_ids_perm. Qed.

Lemma perm_in_ids l m id : Permutation l m -> (In id (pt_ids l) <-> In id (pt_ids m)).
Proof. intros H. split; apply in_ids_perm; [exact H|symmetry; exact H]. Qed.

Lemma pt_step_refines size st s o :
  pt_R size st s -> pt_op_ok (fst s) o ->
  pt_R size (fst (pt_step st o)) (fst (sp_step s o)) /\
  pt_out_match size (snd (sp_step s o)) (snd (pt_step st o)).
Proof.
  intros (Hsize & Hinv & Hcinv & Hp & Hpc) Hok. destruct s as [m c]. cbn [fst snd] in *.
  destruct st as [sz commit ws]. cbn [ps_size ps_ws ps_commit] in *. subst sz.
  pose proof (pt_inv_nodup _ _ Hinv) as Hnd.
  assert (Hndm : NoDup (pt_ids m)) by (eapply perm_nodup_ids; eassumption).
  assert (Hget : forall k d, sp_get k m = Some d <-> In (k, d) (pt_abs ws)).
  { intros k d. rewrite (sp_get_in m k d Hndm). split; apply Permutation_in; [symmetry|]; exact Hp. }
  assert (Hnone : forall k, sp_get k m = None <-> ~ In k (pt_ids (pt_abs ws))).
  { intros k. rewrite sp_get_none, (perm_in_ids _ _ k Hp). tauto. }
  unfold pt_R, pt_abs_commit. cbn [ps_size ps_ws ps_commit].
  destruct o as [k d|k|k d|k delta ferr|k|k| | |idx| | |]; cbn [pt_step sp_step pt_lift fst snd ps_ws ps_size ps_commit].
  - (* Add *)
    destruct (sp_get k m) as [d0|] eqn:Eg.
    + apply Hget in Eg. apply (in_map fst) in Eg. rewrite (pt_add_exists size ws k d Hinv Eg).
      cbn [fst snd]. auto 10.
    + apply Hnone in Eg. destruct (pt_add_ok size ws k d Hinv Eg) as (ws' & Hr & Hinv' & Habs').
      rewrite Hr. cbn [fst snd]. split; [|exact I]. conj_split; auto.
      rewrite Habs'. apply Permutation_app_tail. exact Hp.
  - (* Get *)
    destruct (sp_get k m) as [d0|] eqn:Eg.
    + apply Hget in Eg. destruct (pt_get_ok size ws k d0 Hinv Eg) as (ws' & Hr & Hinv' & Habs').
      rewrite Hr. cbn [fst snd]. split; [|reflexivity]. conj_split; auto. rewrite Habs'. exact Hp.
    + apply Hnone in Eg. rewrite (pt_get_notfound size ws k Hinv Eg). cbn [fst snd]. auto 10.
  - (* UpdateItem *)
    destruct (sp_get k m) as [d0|] eqn:Eg.
    + pose proof Eg as Eg'. apply Hget in Eg.
      destruct (pt_update_ok size ws k d0 d (fun _ => Some d) true Hinv Eg eq_refl)
        as (ws' & A & B & Hr & Hinv' & Ha & Ha').
      rewrite Hr. cbn [fst snd]. split; [|exact I]. conj_split; auto.
      destruct (sp_put_perm m k d0 d Hndm Eg') as (rest & Hm & Hm').
      rewrite Ha', Hm'. rewrite <- Permutation_middle. apply perm_skip.
      apply Permutation_cons_inv with (a := (k, d0)). rewrite <- Hm, <- Hp, Ha. apply Permutation_middle.
    + apply Hnone in Eg. rewrite (pt_update_notfound size ws k _ true Hinv Eg). cbn [fst snd]. auto 10.
  - (* Update *)
    destruct (sp_get k m) as [d0|] eqn:Eg.
    + pose proof Eg as Eg'. apply Hget in Eg. destruct ferr.
      * destruct (pt_update_fn size ws k d0 (fun old => if true then None else Some (old + delta)) false Hinv Eg eq_refl)
          as (ws' & Hr & Hinv' & Habs').
        rewrite Hr. cbn [fst snd]. split; [|exact I]. conj_split; auto. rewrite Habs'. exact Hp.
      * destruct (pt_update_ok size ws k d0 (d0 + delta) (fun old => if false then None else Some (old + delta)) false Hinv Eg eq_refl)
          as (ws' & A & B & Hr & Hinv' & Ha & Ha').
        rewrite Hr. cbn [fst snd]. split; [|exact I]. conj_split; auto.
        destruct (sp_put_perm m k d0 (d0 + delta) Hndm Eg') as (rest & Hm & Hm').
        rewrite Ha', Hm'. rewrite <- Permutation_middle. apply perm_skip.
        apply Permutation_cons_inv with (a := (k, d0)). rewrite <- Hm, <- Hp, Ha. apply Permutation_middle.
    + apply Hnone in Eg. rewrite (pt_update_notfound size ws k _ false Hinv Eg). cbn [fst snd]. auto 10.
  - (* Remove *)
    destruct (sp_get k m) as [d0|] eqn:Eg.
    + pose proof Eg as Eg'. apply Hget in Eg.
      destruct (pt_remove_ok size ws k d0 Hinv Eg) as (ws' & Hr & Hinv' & Hperm).
      rewrite Hr. cbn [fst snd]. split; [|exact I]. conj_split; auto.
      apply Permutation_cons_inv with (a := (k, d0)).
      rewrite <- Hperm, Hp. apply sp_del_perm; assumption.
    + apply Hnone in Eg. rewrite (pt_remove_notfound size ws k Hinv Eg). cbn [fst snd]. auto 10.
  - (* Exist *)
    split; [auto 10|]. cbn [pt_out_match].
    destruct (sp_get k m) as [d0|] eqn:Eg.
    + apply Hget in Eg. apply (in_map fst) in Eg. symmetry. apply (pt_exist_spec size ws k Hinv). exact Eg.
    + apply Hnone in Eg. destruct (pt_exist ws k) eqn:Ex; [|reflexivity].
      apply (pt_exist_spec size ws k Hinv) in Ex. contradiction.
  - (* Size *)
    split; [auto 10|]. cbn [pt_out_match]. rewrite (pt_size_spec size ws Hinv).
    symmetry. apply Permutation_length. exact Hp.
  - (* ForEach *)
    destruct (pt_foreach_ok size ws Hinv) as (ws' & Hr & Hinv' & Habs').
    rewrite Hr. cbn [fst snd]. split; [|split; [exact Hp|exact Hnd]]. conj_split; auto. rewrite Habs'. exact Hp.
  - (* GetRandomItems *)
    destruct m as [|x m'].
    + assert (Habs : pt_abs ws = []) by (apply Permutation_nil; symmetry; exact Hp).
      rewrite (pt_random_empty size ws idx Hinv Habs). cbn [fst snd]. split; [conj_split; auto|exact I].
    + destruct Hok as [Hx|Hidx]; [discriminate|].
      assert (Hne : pt_abs ws <> []).
      { intros Habs. rewrite Habs in Hp. apply Permutation_nil in Hp. discriminate. }
      pose proof (Permutation_length Hp) as Hlen.
      destruct (pt_random_ok size ws idx Hinv Hne) as (ws' & l & Hr & Hinv' & Habs' & Hndl & Hincl & Hll);
        [rewrite Hlen; exact Hidx|].
      rewrite Hr. cbn [fst snd]. split; [conj_split; auto; rewrite Habs'; exact Hp|].
      cbn [pt_out_match]. split; [exact Hndl|]. split.
      * intros it Hin. eapply Permutation_in; [exact Hp|]. apply Hincl. exact Hin.
      * rewrite Hll, Hlen. reflexivity.
  - (* Save *)
    destruct (pt_save_ok size ws Hinv) as (Hinv' & Habs' & _ & _).
    split; [|exact I]. conj_split; auto. rewrite Habs'. exact Hp.
  - (* commit *)
    destruct (pt_save_ok size ws Hinv) as (Hinv' & Habs' & Hcinv' & Hcabs').
    split; [|exact I]. conj_split; auto.
    + rewrite Habs'. exact Hp.
    + unfold pt_loaded in Hcabs'. rewrite Hcabs'. exact Hp.
  - (* reload *)
    split; [|exact I]. conj_split; auto.
Qed.

(* ---------- histories ---------- *)
Fixpoint sp_ops_ok (s : sp_state) (ops : list pt_op) : Prop :=
  match ops with
  | [] => True
  | o :: tl => pt_op_ok (fst s) o /\ sp_ops_ok (fst (sp_step s o)) tl
  end.

Lemma pt_run_refines size ops : forall st s,
  pt_R size st s -> sp_ops_ok s ops ->
  pt_R size (fst (pt_run st ops)) (fst (sp_run s ops)) /\
  Forall2 (pt_out_match size) (snd (sp_run s ops)) (snd (pt_run st ops)).
Proof.
  induction ops as [|o tl IH]; intros st s HR Hok; cbn [pt_run sp_run].
  - split; [exact HR|constructor].
  - destruct Hok as [Hok1 Hok2]. destruct (pt_step_refines size st s o HR Hok1) as [HR1 Hout].
    destruct (pt_step st o) as [st1 out] eqn:E1. destruct (sp_step s o) as [s1 sout] eqn:E2.
    cbn [fst snd] in *. destruct (IH st1 s1 HR1 Hok2) as [HR2 Houts].
    destruct (pt_run st1 tl) as [st2 outs]. destruct (sp_run s1 tl) as [s2 souts]. cbn [fst snd] in *.
    split; [exact HR2|constructor; assumption].
Qed.

Lemma pt_init_R size : (1 <= size)%nat -> pt_R size (pt_init size) ([], []).
Proof.
  intros Hsz. unfold pt_R. split; [reflexivity|]. split; [apply pt_init_inv; exact Hsz|].
  split; [apply (pt_init_inv size Hsz)|]. split; reflexivity.
Qed.
