(* Model of smartcontract/zcnsc/mint.go (property C18) with authorizer registration
   (AddAuthorizer / DeleteAuthorizer: node, counter, stake pool) as far as mint reads it.
   Definitions only; proofs are in Proof/ZcnMint.v.
   Clients and authorizers are integer tokens (0 = the empty id string); what the real BLS library
   says about each signature entry (Verify of that entry against the key registered for its id
   over MintPayload.GetStringToSign(): true / false / error) is an input recorded from the real
   run; the minted-nonce
   partition is a set; the authorizer that receives the fee share is an input recorded from the
   real run (math/rand draw). Coins are uint64. *)
From Coq Require Export List ZArith Bool Lia.
From ZC Require Export Model.F64.
Export ListNotations.
Open Scope Z_scope.

Definition zm_wallet : Z := -1.

(* math.RoundToEven followed by int(): nearest integer, ties to even (finite, small values) *)
Definition zm_round_even (x : f64) : Z :=
  match x with
  | SpecFloat.S754_finite s m e =>
      let a :=
        if 0 <=? e then Z.shiftl (Zpos m) e
        else
          let d := 2 ^ (- e) in
          let q := Zpos m / d in
          let r := Zpos m mod d in
          if (d <? 2 * r) || ((d =? 2 * r) && Z.odd q) then q + 1 else q in
      if s then - a else a
  | _ => 0
  end.

(* threshold := int(math.RoundToEven(gn.PercentAuthorizers * float64(numAuth))) *)
Definition zm_threshold (pbits n : Z) : Z :=
  zm_round_even (f64_mul (f64_of_bits pbits) (f64_of_Z n)).

(* result of signatureScheme.Verify(signature, toSign): (true, nil), (false, nil) for a well-formed
   signature that does not verify, (_, err) for one that cannot be deserialized *)
Inductive zm_verdict := ZsValid | ZsInvalid | ZsError.

Record zm_sig := { zs_id : Z; zs_res : zm_verdict }.

Record zm_payload := { zp_receiver : Z; zp_amount : Z; zp_nonce : Z; zp_sigs : list zm_sig }.

(* stake pool of an authorizer as far as DistributeRewards looks at it: total stake and the sum
   of all rewards credited to the provider and its delegates *)
Record zm_pool := { zl_stake : Z; zl_credited : Z }.

Record zm_state := {
  zm_pbits : Z; zm_min_mint : Z; zm_max_fee : Z; zm_min_stake : Z;
  zm_count : Z;                      (* AUTHORIZERS_COUNT_KEY *)
  zm_reg : list Z;                   (* authorizer nodes *)
  zm_pools : list (Z * zm_pool);
  zm_minted : list Z }.

Fixpoint zm_mem (x : Z) (l : list Z) : bool :=
  match l with [] => false | y :: tl => (y =? x) || zm_mem x tl end.

Fixpoint zm_remove (x : Z) (l : list Z) : list Z :=
  match l with [] => [] | y :: tl => if y =? x then zm_remove x tl else y :: zm_remove x tl end.

Fixpoint zm_pool_get (id : Z) (l : list (Z * zm_pool)) : option zm_pool :=
  match l with [] => None | (k, p) :: tl => if k =? id then Some p else zm_pool_get id tl end.

Fixpoint zm_pool_set (id : Z) (p : zm_pool) (l : list (Z * zm_pool)) : list (Z * zm_pool) :=
  match l with
  | [] => [(id, p)]
  | (k, x) :: tl => if k =? id then (k, p) :: tl else (k, x) :: zm_pool_set id p tl
  end.

(* getUniqueSignatures: one entry per id, the last one given for it *)
Definition zm_last_res (id : Z) (sigs : list zm_sig) : zm_verdict :=
  fold_left (fun acc s => if zs_id s =? id then zs_res s else acc) sigs ZsError.


Fixpoint zm_ids (sigs : list zm_sig) : list Z :=
  match sigs with
  | [] => []
  | s :: tl => if zm_mem (zs_id s) (zm_ids tl) then zm_ids tl else zs_id s :: zm_ids tl
  end.

(* sortedmap.GetValues: the unique entries in ascending id order (tokens are handed out in the order
   of the real id strings, the empty id first) *)
Fixpoint zm_insert (x : Z) (l : list Z) : list Z :=
  match l with
  | [] => [x]
  | y :: tl => if x <=? y then x :: y :: tl else y :: zm_insert x tl
  end.

Fixpoint zm_sort (l : list Z) : list Z :=
  match l with [] => [] | x :: tl => zm_insert x (zm_sort tl) end.

(* verifySignatures, entry by entry in that order: an empty id, an unknown authorizer, a Verify error
   or a signature that does not verify stop the mint; (true, nil) goes on to the next entry *)
Fixpoint zm_verify_loop (reg : list Z) (sigs : list zm_sig) (ids : list Z) : bool :=
  match ids with
  | [] => true
  | id :: tl =>
      if (id =? 0) || negb (zm_mem id reg) then false else
      match zm_last_res id sigs with
      | ZsError => false
      | ZsInvalid => false
      | ZsValid => zm_verify_loop reg sigs tl
      end
  end.

Definition zm_verify (reg : list Z) (sigs : list zm_sig) : bool :=
  zm_verify_loop reg sigs (zm_sort (zm_ids sigs)).

Inductive zm_op :=
| ZmRegister (owner : bool) (id : Z)
| ZmDelete (allowed : bool) (id : Z)           (* sender is the sc owner or the delegate wallet *)
| ZmStake (id amount : Z)                      (* test set-up: a delegate pool appears *)
| ZmMint (client : Z) (payload : option zm_payload) (pick : Z).

Inductive zm_out :=
| ZmOk
| ZmMinted (tr : list (Z * Z * Z)) (paid_to credited : Z)
| ZmFail
| ZmBadPick.    (* the recorded fee receiver is not one of the signers: never produced by the code *)

Definition zm_set_pools (st : zm_state) (pools : list (Z * zm_pool)) : zm_state :=
  {| zm_pbits := zm_pbits st; zm_min_mint := zm_min_mint st; zm_max_fee := zm_max_fee st; zm_min_stake := zm_min_stake st;
     zm_count := zm_count st; zm_reg := zm_reg st; zm_pools := pools; zm_minted := zm_minted st |}.

Definition zm_mint (st : zm_state) (client : Z) (p : zm_payload) (pick : Z) : zm_state * zm_out :=
  let sigs := zp_sigs p in
  if Z.of_nat (length sigs) =? 0 then (st, ZmFail) else
  let n := zm_count st in
  if n =? 0 then (st, ZmFail) else
  let th := zm_threshold (zm_pbits st) n in
  if Z.of_nat (length sigs) <? th then (st, ZmFail) else
  let sigs := if n <? Z.of_nat (length sigs) then firstn (Z.to_nat n) sigs else sigs in
  if negb (zp_receiver p =? client) then (st, ZmFail) else
  if (zp_amount p <? zm_min_mint st) || (zp_amount p <? zm_max_fee st) then (st, ZmFail) else
  if zm_mem (zp_nonce p) (zm_minted st) then (st, ZmFail) else
  if negb (zm_verify (zm_reg st) sigs) then (st, ZmFail) else
  if Z.of_nat (length (zm_ids sigs)) <? th then (st, ZmFail) else
  let share := zm_max_fee st / Z.of_nat (length sigs) in
  if zp_amount p <? share then (st, ZmFail) else
  if negb (zm_mem pick (map zs_id sigs)) then (st, ZmBadPick) else
  match zm_pool_get pick (zm_pools st) with
  | None => (st, ZmFail)
  | Some pool =>
      let credited := if (share =? 0) || (zl_stake pool <? zm_min_stake st) then 0 else share in
      ({| zm_pbits := zm_pbits st; zm_min_mint := zm_min_mint st; zm_max_fee := zm_max_fee st; zm_min_stake := zm_min_stake st;
          zm_count := zm_count st; zm_reg := zm_reg st;
          zm_pools := zm_pool_set pick {| zl_stake := zl_stake pool; zl_credited := zl_credited pool + credited |} (zm_pools st);
          zm_minted := zp_nonce p :: zm_minted st |},
       ZmMinted [(zm_wallet, client, zp_amount p - share)] pick credited)
  end.

Definition zm_step (st : zm_state) (o : zm_op) : zm_state * zm_out :=
  match o with
  | ZmRegister owner id =>
      (* owner only; the authorizer node and its stake pool must both be new (a stake pool left by
         a deleted authorizer makes getOrUpdateStakePool report "no changes") *)
      if negb owner || zm_mem id (zm_reg st) then (st, ZmFail) else
      match zm_pool_get id (zm_pools st) with
      | Some _ => (st, ZmFail)
      | None =>
          ({| zm_pbits := zm_pbits st; zm_min_mint := zm_min_mint st; zm_max_fee := zm_max_fee st; zm_min_stake := zm_min_stake st;
              zm_count := zm_count st + 1; zm_reg := id :: zm_reg st;
              zm_pools := zm_pool_set id {| zl_stake := 0; zl_credited := 0 |} (zm_pools st);
              zm_minted := zm_minted st |}, ZmOk)
      end
  | ZmDelete allowed id =>
      if negb (zm_mem id (zm_reg st)) || negb allowed || (zm_count st <? 1) then (st, ZmFail) else
      ({| zm_pbits := zm_pbits st; zm_min_mint := zm_min_mint st; zm_max_fee := zm_max_fee st; zm_min_stake := zm_min_stake st;
          zm_count := zm_count st - 1; zm_reg := zm_remove id (zm_reg st);
          zm_pools := zm_pools st; zm_minted := zm_minted st |}, ZmOk)
  | ZmStake id amount =>
      match zm_pool_get id (zm_pools st) with
      | None => (st, ZmFail)
      | Some pool => (zm_set_pools st (zm_pool_set id {| zl_stake := zl_stake pool + amount; zl_credited := zl_credited pool |} (zm_pools st)), ZmOk)
      end
  | ZmMint client None _ => (st, ZmFail)
  | ZmMint client (Some p) pick => zm_mint st client p pick
  end.

Fixpoint zm_run (st : zm_state) (ops : list zm_op) : zm_state * list zm_out :=
  match ops with
  | [] => (st, [])
  | o :: tl => let '(st1, out) := zm_step st o in
               let '(st2, outs) := zm_run st1 tl in (st2, out :: outs)
  end.

Definition zm_init (pbits min_mint max_fee min_stake : Z) : zm_state :=
  {| zm_pbits := pbits; zm_min_mint := min_mint; zm_max_fee := max_fee; zm_min_stake := min_stake;
     zm_count := 0; zm_reg := []; zm_pools := []; zm_minted := [] |}.
