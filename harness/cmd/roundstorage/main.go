// Engine for C40: runs op histories on the real round.roundStartingStorage held by a real
// chain.Chain (SetMagicBlock, GetMagicBlock, GetMagicBlockNoOffset, GetPrevMagicBlock,
// PruneRoundStorage), checks the property statement on the observed behaviour against a plain
// reference map (oracle), and emits the histories as cases for the Coq model.
package main

import (
	"fmt"
	"math"
	"sort"
	"strings"

	"0chain.net/chaincore/block"
	"0chain.net/chaincore/chain"
	"0chain.net/chaincore/round"
	"verifharness/sc"
	"verifharness/vh"
)

type op struct {
	K string `json:"k"` // put|prune|prunestorage|get|latest|findidx|getmb|getmbnooff|getprev|count|rounds
	R int64  `json:"r,omitempty"`
	E int64  `json:"e,omitempty"`
	T int    `json:"t,omitempty"`
}

type hist struct {
	Ops []op `json:"ops"`
}

const prevToken = int64(-77) // token of Chain.PreviousMagicBlock

// ---------- reference: the stored set as a plain map ----------

type ref struct {
	m        map[int64]int64
	inDomain bool
}

func (r *ref) keys() []int64 {
	ks := make([]int64, 0, len(r.m))
	for k := range r.m {
		ks = append(ks, k)
	}
	sort.Slice(ks, func(i, j int) bool { return ks[i] < ks[j] })
	return ks
}

func offset(q int64) int64 {
	if q <= 4 {
		return q
	}
	return q - 4
}

// floorIdx: index in ks of the greatest key <= q, -1 if none
func floorIdx(ks []int64, q int64) int {
	idx := -1
	for i, k := range ks {
		if k <= q {
			idx = i
		}
	}
	return idx
}

// inForce: entity that must be used for lookup round q (already offset); ok=false when nothing is stored
func (r *ref) inForce(q int64) (ent int64, ok bool, how string) {
	ks := r.keys()
	if len(ks) == 0 {
		return 0, false, "empty"
	}
	if i := floorIdx(ks, q); i >= 0 {
		return r.m[ks[i]], true, "floor"
	}
	return r.m[ks[len(ks)-1]], true, "latest"
}

// ---------- the real thing ----------

type sys struct {
	c   *chain.Chain
	st  round.RoundStorage
	mbs map[int64]*block.MagicBlock
}

func newSys() *sys {
	sc.Init()
	c := &chain.Chain{}
	c.MagicBlockStorage = round.NewRoundStartingStorage()
	p := block.NewMagicBlock()
	p.MagicBlockNumber = prevToken
	c.PreviousMagicBlock = p
	return &sys{c: c, st: c.MagicBlockStorage}
}

// after a panic inside GetMagicBlock the chain's mbMutex stays read-locked (no defer there):
// continue with a fresh Chain over the same storage
func (s *sys) rechain() {
	c := &chain.Chain{}
	c.MagicBlockStorage = s.st
	c.PreviousMagicBlock = s.c.PreviousMagicBlock
	s.c = c
}

func (s *sys) mbCall(f func() *block.MagicBlock) (tok int64, ok bool) {
	defer func() {
		if e := recover(); e != nil {
			tok, ok = 0, false
			s.rechain()
		}
	}()
	mb := f()
	if mb == nil {
		return 0, false
	}
	return mb.MagicBlockNumber, true
}

func entTok(e round.RoundStorageEntity) (int64, bool) {
	if e == nil {
		return 0, false
	}
	return e.(*block.MagicBlock).MagicBlockNumber, true
}

func coqEnt(tok int64, ok bool) string {
	if !ok {
		return "(RsEnt None)"
	}
	return "(RsEnt (Some " + vh.Z(tok) + "))"
}

// probes: query rounds worth asking for a key set
func probes(ks []int64) []int64 {
	qs := []int64{math.MinInt64, -1, 0, 4, 5, 6, math.MaxInt64}
	for _, k := range ks {
		for _, d := range []int64{-1, 0, 1, 3, 4, 5} {
			if (d > 0 && k > math.MaxInt64-d) || (d < 0 && k < math.MinInt64-d) {
				continue
			}
			qs = append(qs, k+d)
		}
	}
	return qs
}

type result struct {
	outs   []string
	rounds []int64
	ents   []string
	count  int
	fail   string
	kinds  map[string]int
}

func sortedStrict(a []int64) bool {
	for i := 1; i < len(a); i++ {
		if a[i-1] >= a[i] {
			return false
		}
	}
	return true
}

// checkAll evaluates the property on the implementation for a probe set (in-domain states only)
func checkAll(s *sys, r *ref, kinds map[string]int) string {
	ks := r.keys()
	got := s.st.GetRounds()
	if !sortedStrict(got) {
		return "rounds-not-strictly-sorted"
	}
	if len(got) != len(ks) {
		return "rounds-differ-from-stored-set"
	}
	for i := range ks {
		if got[i] != ks[i] {
			return "rounds-differ-from-stored-set"
		}
	}
	if s.st.Count() != len(ks) {
		return "count-differs-from-stored-set"
	}
	for _, q := range probes(ks) {
		if f := checkGetMB(s, r, q, true, kinds); f != "" {
			return f
		}
	}
	return ""
}

func checkGetMB(s *sys, r *ref, q int64, withOffset bool, kinds map[string]int) string {
	var tok int64
	var ok bool
	lq := q
	if withOffset {
		tok, ok = s.mbCall(func() *block.MagicBlock { return s.c.GetMagicBlock(q) })
		lq = offset(q)
	} else {
		tok, ok = s.mbCall(func() *block.MagicBlock { return s.c.GetMagicBlockNoOffset(q) })
	}
	want, wok, how := r.inForce(lq)
	kinds["oracle-getmb-"+how]++
	if !wok {
		if ok {
			return "getmb-entity-from-empty-store"
		}
		return ""
	}
	if !ok {
		return "getmb-fails-on-nonempty-store"
	}
	if tok != want {
		if how == "floor" {
			return "getmb-not-greatest-start-not-after-round"
		}
		return "getmb-not-latest-when-none-earlier"
	}
	return ""
}

func run(h hist) result {
	res := result{kinds: map[string]int{}}
	s := newSys()
	r := &ref{m: map[int64]int64{}, inDomain: true}
	setFail := func(f string) {
		if f != "" && res.fail == "" && r.inDomain {
			res.fail = f
		}
	}
	for _, o := range h.Ops {
		switch o.K {
		case "put":
			mb := block.NewMagicBlock()
			mb.MagicBlockNumber = o.E
			mb.StartingRound = o.R
			s.c.SetMagicBlock(mb)
			res.outs = append(res.outs, "RsOk")
			if o.R < 0 {
				r.inDomain = false
				res.kinds["outside-negative-round"]++
			}
			if _, had := r.m[o.R]; had {
				res.kinds["put-overwrite"]++
			} else if ks := r.keys(); len(ks) > 0 && o.R < ks[len(ks)-1] {
				res.kinds["put-out-of-order"]++
			} else {
				res.kinds["put-append"]++
			}
			r.m[o.R] = o.E
			if r.inDomain {
				setFail(checkAll(s, r, res.kinds))
			}
		case "prune":
			ks := r.keys()
			_, present := r.m[o.R]
			if present && ks[len(ks)-1] == o.R {
				r.inDomain = false
				res.kinds["outside-prune-latest"]++
			}
			// answers before, for the second sentence of the property
			type ans struct {
				q   int64
				tok int64
				ok  bool
			}
			var before []ans
			if r.inDomain && present {
				for _, q := range probes(ks) {
					tok, ok := s.mbCall(func() *block.MagicBlock { return s.c.GetMagicBlock(q) })
					before = append(before, ans{q, tok, ok})
				}
			}
			err := s.st.Prune(o.R)
			if err == nil {
				res.outs = append(res.outs, "RsOk")
			} else {
				res.outs = append(res.outs, "RsErr")
			}
			if present {
				res.kinds["prune-ok"]++
				if err != nil {
					setFail("prune-of-stored-round-fails")
				}
				for k := range r.m {
					if k <= o.R {
						delete(r.m, k)
					}
				}
			} else {
				res.kinds["prune-absent"]++
				if err == nil {
					setFail("prune-of-absent-round-succeeds")
				}
			}
			if r.inDomain {
				if present {
					first := r.keys()[0]
					for _, b := range before {
						if offset(b.q) >= first {
							tok, ok := s.mbCall(func() *block.MagicBlock { return s.c.GetMagicBlock(b.q) })
							res.kinds["oracle-prune-unchanged"]++
							if tok != b.tok || ok != b.ok {
								setFail("prune-changed-answer-at-or-after-first-retained")
							}
						}
					}
				}
				setFail(checkAll(s, r, res.kinds))
			}
		case "prunestorage":
			s.c.PruneRoundStorage(func(round.RoundStorage) int { return o.T }, s.st)
			res.outs = append(res.outs, "RsOk")
			ks := r.keys()
			if o.T > 0 && len(ks) > o.T {
				for _, k := range ks[:len(ks)-o.T] {
					delete(r.m, k)
				}
				res.kinds["prunestorage-pruned"]++
			} else {
				res.kinds["prunestorage-noop"]++
			}
			if r.inDomain {
				if o.T > 0 && len(ks) > 0 && len(r.m) == 0 {
					setFail("prunestorage-removed-latest")
				}
				setFail(checkAll(s, r, res.kinds))
			}
		case "get":
			tok, ok := entTok(s.st.Get(o.R))
			res.outs = append(res.outs, coqEnt(tok, ok))
			ks := r.keys()
			i := floorIdx(ks, o.R)
			res.kinds["get"]++
			if r.inDomain {
				if i < 0 && ok {
					setFail("get-entity-when-none-earlier")
				} else if i >= 0 && (!ok || tok != r.m[ks[i]]) {
					setFail("get-not-greatest-start-not-after-round")
				}
			}
		case "latest":
			tok, ok := entTok(s.st.GetLatest())
			res.outs = append(res.outs, coqEnt(tok, ok))
			ks := r.keys()
			res.kinds["latest"]++
			if r.inDomain {
				if len(ks) == 0 && ok {
					setFail("latest-from-empty-store")
				} else if len(ks) > 0 && (!ok || tok != r.m[ks[len(ks)-1]]) {
					setFail("latest-not-greatest-start")
				}
			}
		case "findidx":
			idx := s.st.FindRoundIndex(o.R)
			res.outs = append(res.outs, "(RsInt "+vh.Z(int64(idx))+")")
			res.kinds["findidx"]++
			if r.inDomain && idx != floorIdx(r.keys(), o.R) {
				setFail("findidx-not-position-of-floor")
			}
		case "getmb":
			tok, ok := s.mbCall(func() *block.MagicBlock { return s.c.GetMagicBlock(o.R) })
			res.outs = append(res.outs, coqEnt(tok, ok))
			res.kinds["getmb"]++
			if r.inDomain {
				setFail(checkGetMB(s, r, o.R, true, res.kinds))
			}
		case "getmbnooff":
			tok, ok := s.mbCall(func() *block.MagicBlock { return s.c.GetMagicBlockNoOffset(o.R) })
			res.outs = append(res.outs, coqEnt(tok, ok))
			res.kinds["getmbnooff"]++
			if r.inDomain {
				setFail(checkGetMB(s, r, o.R, false, res.kinds))
			}
		case "getprev":
			tok, ok := s.mbCall(func() *block.MagicBlock { return s.c.GetPrevMagicBlock(o.R) })
			res.kinds["getprev"]++
			if ok && tok == prevToken {
				res.outs = append(res.outs, "(RsEnt None)")
			} else {
				res.outs = append(res.outs, coqEnt(tok, ok))
			}
			if r.inDomain {
				ks := r.keys()
				i := floorIdx(ks, offset(o.R))
				if i <= 0 {
					if !ok || tok != prevToken {
						setFail("getprev-not-previous-magic-block-at-first")
					}
				} else if !ok || tok != r.m[ks[i-1]] {
					setFail("getprev-not-predecessor")
				}
			}
		case "count":
			n := s.st.Count()
			res.outs = append(res.outs, "(RsInt "+vh.Z(int64(n))+")")
			if r.inDomain && n != len(r.m) {
				setFail("count-differs-from-stored-set")
			}
		case "rounds":
			rs := s.st.GetRounds()
			res.outs = append(res.outs, "(RsList "+vh.ZList(rs)+")")
			if r.inDomain && !sortedStrict(rs) {
				setFail("rounds-not-strictly-sorted")
			}
		default:
			panic("unknown op " + o.K)
		}
	}
	res.rounds = s.st.GetRounds()
	for _, x := range res.rounds {
		tok, ok := entTok(s.st.Get(x))
		if ok {
			res.ents = append(res.ents, "Some "+vh.Z(tok))
		} else {
			res.ents = append(res.ents, "None")
		}
	}
	res.count = s.st.Count()
	if !r.inDomain {
		res.kinds["history-outside-domain"]++
	} else {
		res.kinds["history-in-domain"]++
	}
	return res
}

func coqCase(h hist, res result) string {
	ops := make([]string, len(h.Ops))
	for i, o := range h.Ops {
		switch o.K {
		case "put":
			ops[i] = fmt.Sprintf("RsPut %s %s", vh.Z(o.E), vh.Z(o.R))
		case "prune":
			ops[i] = "RsPrune " + vh.Z(o.R)
		case "prunestorage":
			ops[i] = "RsPruneStorage " + vh.Nat(o.T)
		case "get":
			ops[i] = "RsGet " + vh.Z(o.R)
		case "latest":
			ops[i] = "RsLatest"
		case "findidx":
			ops[i] = "RsFindIdx " + vh.Z(o.R)
		case "getmb":
			ops[i] = "RsGetMB " + vh.Z(o.R)
		case "getmbnooff":
			ops[i] = "RsGetMBNoOff " + vh.Z(o.R)
		case "getprev":
			ops[i] = "RsGetPrev " + vh.Z(o.R)
		case "count":
			ops[i] = "RsCount"
		case "rounds":
			ops[i] = "RsRounds"
		}
	}
	return fmt.Sprintf("{| rsc_ops := %s; rsc_outs := %s; rsc_rounds := %s; rsc_ents := %s; rsc_count := %d |}",
		vh.List(ops), vh.List(res.outs), vh.ZList(res.rounds), vh.List(res.ents), res.count)
}

// ---------- generators ----------

var queryKinds = []string{"get", "latest", "findidx", "getmb", "getmb", "getmb", "getmbnooff", "getprev", "getprev", "count", "rounds"}

func genQuery(r *vh.Rand, pool []int64) op {
	k := queryKinds[r.Intn(len(queryKinds))]
	q := r.Pick64(pool)
	switch r.Intn(8) {
	case 0:
		q += 4
	case 1:
		q += 5
	case 2:
		q -= 1
	case 3:
		q += 1
	case 4:
		q += int64(r.Intn(12)) - 2
	}
	return op{K: k, R: q}
}

// structured, mostly valid: a magic-block progression stored in a shuffled order, overwrites,
// queries around the starting rounds, prunes of older entries, PruneRoundStorage
func genValid(r *vh.Rand) hist {
	var pool []int64
	switch r.Intn(4) {
	case 0: // view-change progression
		step := int64(r.Range(1, 6)) * 50
		for i := 0; i < r.Range(2, 7); i++ {
			pool = append(pool, int64(i)*step)
		}
	case 1: // dense small rounds around the offset boundary
		pool = []int64{0, 1, 2, 3, 4, 5, 6, 7, 8, 9, 10, 11, 12}
	case 2: // large values
		pool = []int64{0, 1 << 53, 1<<53 + 1, 1<<53 - 1, 1<<62 + 3, math.MaxInt64 - 5, math.MaxInt64 - 4, math.MaxInt64 - 1, math.MaxInt64}
	default:
		for i := 0; i < r.Range(2, 8); i++ {
			pool = append(pool, int64(r.Intn(40)))
		}
	}
	var h hist
	ent := int64(1)
	stored := map[int64]bool{}
	maxStored := func() (int64, bool) {
		found, m := false, int64(0)
		for k := range stored {
			if !found || k > m {
				found, m = true, k
			}
		}
		return m, found
	}
	n := r.Range(3, 30)
	for i := 0; i < n; i++ {
		switch x := r.Intn(20); {
		case x < 8:
			rr := r.Pick64(pool)
			h.Ops = append(h.Ops, op{K: "put", R: rr, E: ent})
			ent++
			stored[rr] = true
		case x < 10:
			// prune an older entry (never the greatest), sometimes an absent round
			m, ok := maxStored()
			var cands []int64
			for k := range stored {
				if ok && k < m {
					cands = append(cands, k)
				}
			}
			sort.Slice(cands, func(i, j int) bool { return cands[i] < cands[j] })
			if len(cands) > 0 && !r.Chance(1, 5) {
				p := r.Pick64(cands)
				h.Ops = append(h.Ops, op{K: "prune", R: p})
				for k := range stored {
					if k <= p {
						delete(stored, k)
					}
				}
			} else {
				p := r.Pick64(pool)
				if p > 0 && !stored[p-1] {
					h.Ops = append(h.Ops, op{K: "prune", R: p - 1})
				}
			}
		case x < 11:
			t := r.Intn(5)
			h.Ops = append(h.Ops, op{K: "prunestorage", T: t})
			if t > 0 {
				var ks []int64
				for k := range stored {
					ks = append(ks, k)
				}
				sort.Slice(ks, func(i, j int) bool { return ks[i] < ks[j] })
				if len(ks) > t {
					for _, k := range ks[:len(ks)-t] {
						delete(stored, k)
					}
				}
			}
		default:
			h.Ops = append(h.Ops, genQuery(r, pool))
		}
	}
	return h
}

// malformed stream: negative rounds (the -1 sentinel), prune of the greatest round followed by
// smaller puts (stale max), extreme queries
func genMalformed(r *vh.Rand) hist {
	pool := []int64{-5, -1, 0, 1, 3, 4, 5, 9, 10, 20, math.MaxInt64, math.MinInt64}
	var h hist
	ent := int64(1)
	n := r.Range(2, 20)
	for i := 0; i < n; i++ {
		switch x := r.Intn(10); {
		case x < 4:
			h.Ops = append(h.Ops, op{K: "put", R: r.Pick64(pool), E: ent})
			ent++
		case x < 6:
			h.Ops = append(h.Ops, op{K: "prune", R: r.Pick64(pool)})
		default:
			h.Ops = append(h.Ops, genQuery(r, pool))
		}
	}
	return h
}

// compress maps the rounds of a failing history to small values keeping their order and every
// gap below 10 (so the 4/5 offset relations survive); used only to make the replay readable
func compress(h hist) hist {
	var vals []int64
	seen := map[int64]bool{}
	for _, o := range h.Ops {
		if o.K != "prunestorage" && o.K != "latest" && o.K != "count" && o.K != "rounds" && !seen[o.R] {
			seen[o.R] = true
			vals = append(vals, o.R)
		}
	}
	sort.Slice(vals, func(i, j int) bool { return vals[i] < vals[j] })
	m := map[int64]int64{}
	cur := int64(0)
	for i, v := range vals {
		if i > 0 {
			gap := uint64(v) - uint64(vals[i-1])
			if gap > 10 {
				gap = 10
			}
			cur += int64(gap)
		} else if v < 0 {
			cur = -1
		}
		m[v] = cur
	}
	var out hist
	for _, o := range h.Ops {
		if _, ok := m[o.R]; ok && seen[o.R] && o.K != "prunestorage" && o.K != "latest" && o.K != "count" && o.K != "rounds" {
			o.R = m[o.R]
		}
		out.Ops = append(out.Ops, o)
	}
	return out
}

// addSweeps makes the probe queries part of the history itself (so that the model comparison,
// not only the oracle, sees GetMagicBlock around every starting round): after every prune and at
// the end, GetMagicBlock at r-1, r, r+1, r+3, r+4, r+5 for (up to 8 of) the rounds put so far,
// plus the offset boundary 0,4,5 and GetPrevMagicBlock at r+4.
func addSweeps(h hist) hist {
	var out hist
	var puts []int64
	seen := map[int64]bool{}
	sweep := func() {
		rs := puts
		if len(rs) > 8 {
			rs = rs[len(rs)-8:]
		}
		for _, q := range []int64{0, 4, 5} {
			out.Ops = append(out.Ops, op{K: "getmb", R: q})
		}
		for _, r := range rs {
			for _, d := range []int64{-1, 0, 1, 3, 4, 5} {
				if (d > 0 && r > math.MaxInt64-d) || (d < 0 && r < math.MinInt64-d) {
					continue
				}
				out.Ops = append(out.Ops, op{K: "getmb", R: r + d})
			}
			if r <= math.MaxInt64-4 {
				out.Ops = append(out.Ops, op{K: "getprev", R: r + 4})
			}
		}
	}
	for _, o := range h.Ops {
		out.Ops = append(out.Ops, o)
		if o.K == "put" && !seen[o.R] {
			seen[o.R] = true
			puts = append(puts, o.R)
		}
		if o.K == "prune" || o.K == "prunestorage" {
			sweep()
		}
	}
	sweep()
	return out
}

func key(h hist) string {
	var b strings.Builder
	for _, o := range h.Ops {
		fmt.Fprintf(&b, "|%s,%d,%d,%d", o.K, o.R, o.E, o.T)
	}
	return b.String()
}

func main() {
	o := vh.ParseFlags()
	sc.Init()
	rep := vh.NewReport("roundstorage", "C40", o)
	rep.Rule = "histories of SetMagicBlock/Prune/PruneRoundStorage and lookups on a real chain.Chain + roundStartingStorage: " +
		"valid stream (shuffled view-change progressions, dense rounds around the offset boundary 4/5, values near 2^53, 2^62, MaxInt64; overwrites; " +
		"prunes of older entries) + malformed stream (negative rounds, prune of the greatest round, extreme queries; model correspondence only) + " +
		"exhaustive insertion orders x prune points x query rounds over a 5-round universe; every history carries GetMagicBlock/GetPrevMagicBlock sweeps around every " +
		"starting round (r-1..r+5) after each prune and at the end (compared with the model too); after every mutation the oracle also asks GetMagicBlock for " +
		"every stored round +-1,+3,+4,+5 and the int64 extremes; non-trivial = in-domain history with an out-of-order or overwriting put, a successful " +
		"prune and both floor and latest-fallback answers checked; distinct by full op list"
	cf := &vh.CasesFile{Imports: []string{"Base.Corr", "Model.RoundStorage", "Corr.RoundStorage"}, CaseType: "rs_case", CheckFn: "rs_check", Shard: 120}

	handle := func(h hist, toCoq bool) {
		res := run(h)
		for k, n := range res.kinds {
			rep.CountN(k, n)
		}
		kk := res.kinds
		nontriv := kk["history-in-domain"] > 0 && (kk["put-out-of-order"]+kk["put-overwrite"] > 0) &&
			(kk["prune-ok"]+kk["prunestorage-pruned"] > 0) && kk["oracle-getmb-floor"] > 0 && kk["oracle-getmb-latest"] > 0
		rep.Case(key(h), nontriv, h)
		if toCoq {
			cf.Add(coqCase(h, res))
			rep.CaseInputs = append(rep.CaseInputs, h)
		}
		if res.fail != "" {
			keep := vh.ShrinkIdx(len(h.Ops), func(keep []int) bool {
				var h2 hist
				for _, i := range keep {
					h2.Ops = append(h2.Ops, h.Ops[i])
				}
				return run(h2).fail == res.fail
			})
			var h2 hist
			for _, i := range keep {
				h2.Ops = append(h2.Ops, h.Ops[i])
			}
			if h3 := compress(h2); run(h3).fail == res.fail {
				h2 = h3
			}
			rep.Violate("C40:"+res.fail, "magic-block lookup: "+res.fail, h2)
		}
	}
	finish := func() {
		files, err := cf.Write(o.Out, "C40")
		if err != nil {
			panic(err)
		}
		rep.CaseFiles = files
		rep.ShardSize = 120
		rep.Write(o.Out)
	}

	var rh hist
	if o.LoadReplay(&rh) {
		rep.Note("replay of one history")
		handle(rh, true)
		finish()
		return
	}
	rnd := vh.NewRand(o.Seed)
	for i := 0; i < o.N(300, 3000); i++ {
		handle(addSweeps(genValid(rnd)), true)
	}
	for i := 0; i < o.N(100, 1000); i++ {
		handle(addSweeps(genMalformed(rnd)), true)
	}
	// fixed edge histories
	handle(hist{Ops: []op{{K: "getmb", R: 7}, {K: "latest"}, {K: "getprev", R: 3}, {K: "findidx", R: 1}, {K: "prune", R: 0}, {K: "prunestorage", T: 1}}}, true)
	handle(hist{Ops: []op{{K: "put", R: 0, E: 1}, {K: "getmb", R: math.MaxInt64}, {K: "getmb", R: math.MinInt64}, {K: "findidx", R: 5}, {K: "latest"}}}, true)
	handle(hist{Ops: []op{{K: "put", R: 10, E: 1}, {K: "prune", R: 10}, {K: "put", R: 5, E: 2}, {K: "getmb", R: 20}, {K: "latest"}, {K: "get", R: 7}}}, true)

	// exhaustive: every insertion order of every subset (size <= 4) of a 5-round universe, every
	// prune point that is not the greatest (or none), GetMagicBlock on every round -1..max+6
	univ := []int64{0, 3, 5, 6, 11}
	nExh := 0
	var perms func(rest []int64, cur []int64, f func([]int64))
	perms = func(rest []int64, cur []int64, f func([]int64)) {
		if len(rest) == 0 {
			f(cur)
			return
		}
		for i := range rest {
			nr := append(append([]int64{}, rest[:i]...), rest[i+1:]...)
			perms(nr, append(cur, rest[i]), f)
		}
	}
	for mask := 1; mask < 1<<len(univ); mask++ {
		var sub []int64
		for i, u := range univ {
			if mask&(1<<i) != 0 {
				sub = append(sub, u)
			}
		}
		if len(sub) > o.N(4, 5) {
			continue
		}
		perms(sub, nil, func(order []int64) {
			for pi := -1; pi < len(sub)-1; pi++ {
				var h hist
				for i, x := range order {
					h.Ops = append(h.Ops, op{K: "put", R: x, E: int64(i + 1)})
				}
				if pi >= 0 {
					h.Ops = append(h.Ops, op{K: "prune", R: sub[pi]})
				}
				for q := int64(-1); q <= sub[len(sub)-1]+6; q++ {
					h.Ops = append(h.Ops, op{K: "getmb", R: q})
				}
				h.Ops = append(h.Ops, op{K: "getprev", R: sub[len(sub)-1] + 4})
				nExh++
				handle(h, nExh%o.N(25, 10) == 0)
			}
		})
	}
	rep.Note("exhaustive: %d histories = all insertion orders of all subsets (size<=%d) of rounds %v x every non-greatest prune point x GetMagicBlock on every round -1..max+6, checked by the oracle; every %d-th also compared with the model",
		nExh, o.N(4, 5), univ, o.N(25, 10))
	finish()
}
