(* Proofs for C35 over Model/Round.v. *)
From ZC Require Import Model.Round.
From Coq Require Import Sorting.Permutation Sorting.Sorted.
Open Scope Z_scope.

(* ------------------------------------------------------------------------------------------ *)
(* Generic facts about the stable insertion sort by key *)
Section ISort.
  Context {A : Type} (key : A -> Z).

  Definition rk_ksorted (l : list A) : Prop := StronglySorted (fun a b => key a <= key b) l.
  Definition rk_kssorted (l : list A) : Prop := StronglySorted (fun a b => key a < key b) l.

  Lemma rk_insert_perm : forall x l, Permutation (rk_insert key x l) (x :: l).
  Proof.
    induction l as [|y t IH]; cbn; [reflexivity|].
    destruct (Z.ltb (key x) (key y)); [reflexivity|].
    rewrite IH. apply perm_swap.
  Qed.

  Lemma rk_fold_insert_perm : forall l acc,
    Permutation (fold_left (fun acc x => rk_insert key x acc) l acc) (acc ++ l).
  Proof.
    induction l as [|x t IH]; intros acc; cbn.
    - rewrite app_nil_r. reflexivity.
    - rewrite IH. rewrite rk_insert_perm. cbn. apply Permutation_middle.
  Qed.

  Lemma rk_isort_perm : forall l, Permutation (rk_isort key l) l.
  Proof. intros l. unfold rk_isort. apply (rk_fold_insert_perm l []). Qed.

  Lemma rk_insert_ksorted : forall x l, rk_ksorted l -> rk_ksorted (rk_insert key x l).
  Proof.
    unfold rk_ksorted. induction l as [|y t IH]; intros Hs; cbn.
    - constructor; constructor.
    - destruct (Z.ltb_spec (key x) (key y)).
      + constructor; [assumption|]. inversion Hs; subst.
        constructor; [lia|]. eapply Forall_impl; [|eassumption]. cbn; intros; lia.
      + inversion Hs; subst. constructor; [auto|].
        eapply Permutation_Forall; [symmetry; apply rk_insert_perm|].
        constructor; [lia|assumption].
  Qed.

  Lemma rk_isort_ksorted : forall l, rk_ksorted (rk_isort key l).
  Proof.
    intros l. unfold rk_isort.
    assert (forall acc, rk_ksorted acc -> rk_ksorted (fold_left (fun acc x => rk_insert key x acc) l acc)) as H.
    { induction l as [|x t IH]; intros acc Ha; cbn; [assumption|].
      apply IH. apply rk_insert_ksorted. assumption. }
    apply H. constructor.
  Qed.

  Lemma rk_insert_last : forall x l, Forall (fun y => key y <= key x) l -> rk_insert key x l = l ++ [x].
  Proof.
    induction l as [|y t IH]; intros Hf; cbn; [reflexivity|].
    inversion Hf; subst. destruct (Z.ltb_spec (key x) (key y)); [lia|].
    rewrite IH by assumption. reflexivity.
  Qed.

  Lemma rk_ksorted_app_inv : forall l1 l2, rk_ksorted (l1 ++ l2) ->
    rk_ksorted l1 /\ rk_ksorted l2 /\ forall a b, In a l1 -> In b l2 -> key a <= key b.
  Proof.
    unfold rk_ksorted. induction l1 as [|x t IH]; intros l2 Hs; cbn in *.
    - split; [constructor|]. split; [assumption|]. intros a b [].
    - inversion Hs; subst. destruct (IH _ H1) as (H3 & H4 & H5).
      split; [|split; [assumption|]].
      + constructor; [assumption|]. rewrite Forall_app in H2. tauto.
      + intros a b [->|Ha] Hb.
        * rewrite Forall_forall in H2. apply H2. apply in_or_app. now right.
        * auto.
  Qed.

  (* sorting a sorted slice changes nothing (stability included) *)
  Lemma rk_fold_insert_sorted : forall l acc, rk_ksorted (acc ++ l) ->
    fold_left (fun acc x => rk_insert key x acc) l acc = acc ++ l.
  Proof.
    induction l as [|x t IH]; intros acc Hs; cbn.
    - now rewrite app_nil_r.
    - assert (rk_insert key x acc = acc ++ [x]) as E.
      { apply rk_insert_last. apply Forall_forall. intros y Hy.
        destruct (rk_ksorted_app_inv _ _ Hs) as (_ & _ & H). apply H; [assumption|now left]. }
      rewrite E. rewrite IH; rewrite <- app_assoc; cbn; [reflexivity|assumption].
  Qed.

  Lemma rk_isort_sorted_id : forall l, rk_ksorted l -> rk_isort key l = l.
  Proof. intros l H. unfold rk_isort. now rewrite rk_fold_insert_sorted. Qed.

  Lemma rk_isort_snoc : forall l x, rk_isort key (l ++ [x]) = rk_insert key x (rk_isort key l).
  Proof. intros. unfold rk_isort. now rewrite fold_left_app. Qed.

  Lemma rk_ksorted_nodup_strict : forall l, rk_ksorted l -> NoDup (map key l) -> rk_kssorted l.
  Proof.
    unfold rk_ksorted, rk_kssorted. induction l as [|x t IH]; intros Hs Hn; [constructor|].
    inversion Hs; subst. cbn in Hn. inversion Hn; subst.
    constructor; [auto|]. rewrite Forall_forall in *. intros y Hy.
    specialize (H2 y Hy). assert (key y <> key x); [|lia].
    intros E. apply H3. rewrite <- E. now apply in_map.
  Qed.

  Lemma rk_kssorted_weaken : forall l, rk_kssorted l -> rk_ksorted l.
  Proof.
    unfold rk_ksorted, rk_kssorted. induction 1; constructor; [assumption|].
    eapply Forall_impl; [|eassumption]. cbn; intros; lia.
  Qed.

  (* only one strictly sorted arrangement of a given set of elements *)
  Lemma rk_kssorted_unique : forall l1 l2, rk_kssorted l1 -> rk_kssorted l2 ->
    (forall x, In x l1 <-> In x l2) -> l1 = l2.
  Proof.
    unfold rk_kssorted. induction l1 as [|a t1 IH]; intros l2 H1 H2 Hin.
    - destruct l2 as [|b t2]; [reflexivity|]. exfalso. apply (proj2 (Hin b)). now left.
    - destruct l2 as [|b t2]; [exfalso; apply (proj1 (Hin a)); now left|].
      inversion H1; subst. inversion H2; subst.
      rewrite Forall_forall in H4, H6.
      assert (a = b) as ->.
      { destruct (proj1 (Hin a) (or_introl eq_refl)) as [E|Ha]; [now symmetry|].
        destruct (proj2 (Hin b) (or_introl eq_refl)) as [E|Hb]; [assumption|].
        specialize (H4 _ Hb). specialize (H6 _ Ha). lia. }
      f_equal. apply IH; [assumption|assumption|].
      intros x. split; intros Hx.
      + destruct (proj1 (Hin x) (or_intror Hx)) as [E|]; [|assumption].
        subst x. specialize (H4 _ Hx). lia.
      + destruct (proj2 (Hin x) (or_intror Hx)) as [E|]; [|assumption].
        subst x. specialize (H6 _ Hx). lia.
  Qed.

  Lemma rk_kssorted_nodup : forall l, rk_kssorted l -> NoDup (map key l).
  Proof.
    unfold rk_kssorted. induction 1; cbn; constructor; [|assumption].
    rewrite in_map_iff. intros (y & E & Hy). rewrite Forall_forall in H0. specialize (H0 _ Hy). lia.
  Qed.

  (* the result of sorting does not depend on the order of the input when keys are distinct *)
  Lemma rk_isort_order_independent : forall l1 l2, Permutation l1 l2 -> NoDup (map key l1) ->
    rk_isort key l1 = rk_isort key l2.
  Proof.
    intros l1 l2 Hp Hn. apply rk_kssorted_unique.
    - apply rk_ksorted_nodup_strict; [apply rk_isort_ksorted|].
      eapply Permutation_NoDup; [|exact Hn]. apply Permutation_map. symmetry. apply rk_isort_perm.
    - apply rk_ksorted_nodup_strict; [apply rk_isort_ksorted|].
      eapply Permutation_NoDup; [|exact Hn]. apply Permutation_map.
      rewrite rk_isort_perm. assumption.
    - intros x. split; intros Hx.
      + eapply Permutation_in; [symmetry; apply rk_isort_perm|].
        eapply Permutation_in; [exact Hp|]. eapply Permutation_in; [apply rk_isort_perm|exact Hx].
      + eapply Permutation_in; [symmetry; apply rk_isort_perm|].
        eapply Permutation_in; [symmetry; exact Hp|]. eapply Permutation_in; [apply rk_isort_perm|exact Hx].
  Qed.
End ISort.

(* ------------------------------------------------------------------------------------------ *)
(* 1. Node positions *)

Definition rk_pool_ok (pool : list Z) : Prop := rk_kssorted (fun x => x) pool.

Lemma rk_existsb_in : forall id pool, existsb (Z.eqb id) pool = true <-> In id pool.
Proof.
  intros. rewrite existsb_exists. split.
  - intros (x & Hx & E). apply Z.eqb_eq in E. now subst.
  - intros H. exists id. split; [assumption|apply Z.eqb_refl].
Qed.

Lemma rk_add_node_spec : forall pool id, rk_pool_ok pool ->
  rk_pool_ok (rk_add_node pool id) /\ forall x, In x (rk_add_node pool id) <-> In x pool \/ x = id.
Proof.
  intros pool id Hp. unfold rk_add_node, rk_sort.
  destruct (existsb (Z.eqb id) pool) eqn:E.
  - rewrite rk_isort_sorted_id by (now apply rk_kssorted_weaken).
    split; [assumption|]. apply rk_existsb_in in E. intros x; split; [tauto|]. intros [H| ->]; assumption.
  - assert (~ In id pool) as Hn by (rewrite <- rk_existsb_in; congruence).
    rewrite rk_isort_snoc. rewrite rk_isort_sorted_id by (now apply rk_kssorted_weaken).
    split.
    + apply rk_ksorted_nodup_strict.
      * apply rk_insert_ksorted. now apply rk_kssorted_weaken.
      * rewrite map_id. eapply Permutation_NoDup; [symmetry; apply rk_insert_perm|].
        constructor; [assumption|]. apply rk_kssorted_nodup in Hp. now rewrite map_id in Hp.
    + intros x. split; intros H.
      * apply (Permutation_in _ (rk_insert_perm _ _ _)) in H. destruct H; [right; congruence|now left].
      * eapply Permutation_in; [symmetry; apply rk_insert_perm|]. destruct H; [now right|left; congruence].
Qed.

Lemma rk_fold_add_spec : forall ids pool, rk_pool_ok pool ->
  rk_pool_ok (fold_left rk_add_node ids pool) /\
  forall x, In x (fold_left rk_add_node ids pool) <-> In x pool \/ In x ids.
Proof.
  induction ids as [|id t IH]; intros pool Hp; cbn.
  - split; [assumption|]. intros; tauto.
  - destruct (rk_add_node_spec pool id Hp) as [H1 H2].
    destruct (IH _ H1) as [H3 H4]. split; [assumption|].
    intros x. rewrite H4, H2. intuition.
Qed.

Lemma rk_build_spec : forall ids, rk_pool_ok (rk_build ids) /\ forall x, In x (rk_build ids) <-> In x ids.
Proof.
  intros ids. unfold rk_build.
  destruct (rk_fold_add_spec ids [] (SSorted_nil _)) as [H1 H2].
  split; [assumption|]. intros x. rewrite H2. cbn. tauto.
Qed.

(* positions do not depend on the order (or repetition) of AddNode calls *)
Lemma rk_positions_order_independent : forall ids1 ids2,
  (forall x, In x ids1 <-> In x ids2) -> rk_build ids1 = rk_build ids2.
Proof.
  intros ids1 ids2 H.
  destruct (rk_build_spec ids1) as [H1 H2]. destruct (rk_build_spec ids2) as [H3 H4].
  apply (rk_kssorted_unique (fun x => x)); try assumption.
  intros x. rewrite H2, H4. apply H.
Qed.

Lemma rk_index_some : forall id pool k, rk_index id pool = Some k ->
  (k < length pool)%nat /\ nth k pool 0 = id.
Proof.
  induction pool as [|y t IH]; intros k H; cbn in *; [discriminate|].
  destruct (Z.eqb_spec id y).
  - inversion H; subst. split; [lia|reflexivity].
  - destruct (rk_index id t) eqn:E; [|discriminate]. inversion H; subst.
    destruct (IH _ eq_refl). split; [lia|assumption].
Qed.

Lemma rk_index_in : forall id pool, In id pool <-> exists k, rk_index id pool = Some k.
Proof.
  induction pool as [|y t IH]; cbn.
  - split; [tauto|]. intros [k H]; discriminate.
  - destruct (Z.eqb_spec id y).
    + split; [eauto|]. intros _. now left.
    + rewrite IH. split.
      * intros [E|[k Hk]]; [congruence|]. rewrite Hk. eauto.
      * intros [k Hk]. right. destruct (rk_index id t); [eauto|discriminate].
Qed.

Lemma rk_index_nth : forall pool k, NoDup pool -> (k < length pool)%nat ->
  rk_index (nth k pool 0) pool = Some k.
Proof.
  induction pool as [|y t IH]; intros k Hn Hk; cbn in *; [lia|].
  inversion Hn; subst. destruct k as [|k].
  - now rewrite Z.eqb_refl.
  - destruct (Z.eqb_spec (nth k t 0) y) as [E|E].
    + exfalso. apply H1. rewrite <- E. apply nth_In. lia.
    + rewrite IH; [reflexivity|assumption|lia].
Qed.

(* SetIndex of a node = number of pool members with a smaller id *)
Lemma rk_index_counts_smaller : forall id pool k, rk_pool_ok pool -> rk_index id pool = Some k ->
  k = length (filter (fun y => Z.ltb y id) pool).
Proof.
  unfold rk_pool_ok, rk_kssorted. induction pool as [|y t IH]; intros k Hp H; cbn in *; [discriminate|].
  inversion Hp; subst. rewrite Forall_forall in H3.
  destruct (Z.eqb_spec id y).
  - inversion H; subst. destruct (Z.ltb_spec y y); [lia|].
    assert (filter (fun y0 => y0 <? y) t = []) as ->; [|reflexivity].
    clear -H3. induction t as [|z t IH]; cbn; [reflexivity|].
    destruct (Z.ltb_spec z y).
    + specialize (H3 z (or_introl eq_refl)). lia.
    + apply IH. intros; apply H3; now right.
  - destruct (rk_index id t) eqn:E; [|discriminate]. inversion H; subst.
    assert (In id t) by (apply rk_index_in; eauto).
    specialize (H3 _ H0). destruct (Z.ltb_spec y id); [|lia].
    cbn. f_equal. now apply IH.
Qed.

Lemma rk_build_index_counts_smaller : forall ids id k, rk_index id (rk_build ids) = Some k ->
  k = length (filter (fun y => Z.ltb y id) (rk_build ids)).
Proof. intros ids id k. apply rk_index_counts_smaller. apply rk_build_spec. Qed.

(* ------------------------------------------------------------------------------------------ *)
(* 2. The permutation *)

Lemma rk_set_nth_length : forall l j v, length (rk_set_nth j v l) = length l.
Proof. induction l; intros [|j] v; cbn; auto. Qed.

Lemma rk_set_nth_app : forall m1 x r v, rk_set_nth (length m1) v (m1 ++ x :: r) = m1 ++ v :: r.
Proof. induction m1; intros; cbn; [reflexivity|]. now rewrite IHm1. Qed.

Lemma rk_perm_step_length : forall m j, length (rk_perm_step m j) = S (length m).
Proof. intros. unfold rk_perm_step. rewrite rk_set_nth_length, app_length. cbn. lia. Qed.

Lemma rk_perm_step_perm : forall m j, (j <= length m)%nat ->
  Permutation m (seq 0 (length m)) -> Permutation (rk_perm_step m j) (seq 0 (S (length m))).
Proof.
  intros m j Hj Hp. unfold rk_perm_step. rewrite seq_S. cbn [plus].
  destruct (Nat.eq_dec j (length m)) as [->|Hne].
  - rewrite (rk_set_nth_app m _ [] (length m)). apply Permutation_app; [assumption|reflexivity].
  - assert (j < length m)%nat as Hlt by lia.
    destruct (nth_split m 0%nat Hlt) as (m1 & m2 & Em & El).
    remember (nth j m 0%nat) as x. remember (length m) as i.
    rewrite <- Hp. clear Hp Heqx Heqi Hj Hne Hlt. subst m j.
    rewrite <- !app_assoc. cbn [app]. rewrite rk_set_nth_app.
    apply Permutation_app_head.
    rewrite (Permutation_app_comm m2 [x]), (Permutation_app_comm m2 [i]). cbn. apply perm_swap.
Qed.

Lemma rk_perm_snoc : forall d j, rk_perm (d ++ [j]) = rk_perm_step (rk_perm d) j.
Proof. intros. unfold rk_perm. now rewrite fold_left_app. Qed.

Lemma rk_perm_length : forall d, length (rk_perm d) = length d.
Proof.
  induction d as [|j d IH] using rev_ind; [reflexivity|].
  rewrite rk_perm_snoc, rk_perm_step_length, app_length, IH. cbn. lia.
Qed.

Lemma rk_draws_ok_from_app : forall d i j,
  rk_draws_ok_from i (d ++ [j]) = rk_draws_ok_from i d && Nat.leb j (i + length d).
Proof.
  induction d as [|x d IH]; intros i j; cbn.
  - rewrite Nat.add_0_r. now rewrite andb_true_r.
  - rewrite IH. rewrite <- andb_assoc. do 2 f_equal. f_equal. lia.
Qed.

(* Perm(n) is a permutation of 0..n-1 whatever the generator draws *)
Lemma rk_perm_is_permutation : forall draws, rk_draws_ok draws = true ->
  Permutation (rk_perm draws) (seq 0 (length draws)).
Proof.
  unfold rk_draws_ok.
  induction draws as [|j d IH] using rev_ind; intros H; [reflexivity|].
  rewrite rk_draws_ok_from_app in H. apply andb_true_iff in H. destruct H as [H1 H2].
  apply Nat.leb_le in H2. cbn in H2.
  rewrite rk_perm_snoc. rewrite app_length. cbn [length]. rewrite Nat.add_1_r.
  rewrite <- (rk_perm_length d). apply rk_perm_step_perm.
  - now rewrite rk_perm_length.
  - rewrite rk_perm_length. now apply IH.
Qed.

Lemma rk_perm_nodup : forall draws, rk_draws_ok draws = true -> NoDup (rk_perm draws).
Proof.
  intros d H. eapply Permutation_NoDup; [symmetry; now apply rk_perm_is_permutation|apply seq_NoDup].
Qed.

(* same seed (same draws) and same miner set: same rank for every miner *)
Lemma rk_same_seed_same_ranks : forall ids1 ids2 draws id,
  (forall x, In x ids1 <-> In x ids2) ->
  rk_rank (rk_build ids1) (rk_perm draws) id = rk_rank (rk_build ids2) (rk_perm draws) id.
Proof. intros. now rewrite (rk_positions_order_independent ids1 ids2). Qed.

(* with a permutation of the pool's size every miner gets a rank in [0,n) and every rank is
   taken by exactly one miner *)
Lemma rk_ranks_bijective : forall ids draws,
  let pool := rk_build ids in
  rk_draws_ok draws = true -> length draws = length pool ->
  (forall id, In id ids -> exists r, rk_rank pool (rk_perm draws) id = Some (Z.of_nat r) /\ (r < length pool)%nat) /\
  (forall id1 id2, In id1 ids -> In id2 ids ->
     rk_rank pool (rk_perm draws) id1 = rk_rank pool (rk_perm draws) id2 -> id1 = id2) /\
  (forall r, (r < length pool)%nat -> exists id, In id ids /\ rk_rank pool (rk_perm draws) id = Some (Z.of_nat r)).
Proof.
  intros ids draws pool Hd Hl.
  destruct (rk_build_spec ids) as [Hp Hin]. fold pool in Hp, Hin.
  pose proof (rk_perm_is_permutation _ Hd) as Hperm.
  pose proof (rk_perm_nodup _ Hd) as Hnd.
  pose proof (rk_perm_length draws) as Hlen.
  assert (NoDup pool) as Hnp by (apply rk_kssorted_nodup in Hp; now rewrite map_id in Hp).
  split; [|split].
  - intros id Hid. apply Hin in Hid. apply rk_index_in in Hid. destruct Hid as [k Hk].
    unfold rk_rank. rewrite Hk. destruct (rk_index_some _ _ _ Hk) as [Hk1 _].
    destruct (Nat.ltb_spec k (length (rk_perm draws))); [|lia].
    exists (nth k (rk_perm draws) 0%nat). split; [reflexivity|].
    assert (In (nth k (rk_perm draws) 0%nat) (seq 0 (length draws))) as Hs.
    { eapply Permutation_in; [exact Hperm|]. apply nth_In. lia. }
    apply in_seq in Hs. lia.
  - intros id1 id2 H1 H2. apply Hin in H1, H2. apply rk_index_in in H1, H2.
    destruct H1 as [k1 Hk1], H2 as [k2 Hk2]. unfold rk_rank. rewrite Hk1, Hk2.
    destruct (rk_index_some _ _ _ Hk1) as [Hb1 Hn1]. destruct (rk_index_some _ _ _ Hk2) as [Hb2 Hn2].
    destruct (Nat.ltb_spec k1 (length (rk_perm draws))); [|lia].
    destruct (Nat.ltb_spec k2 (length (rk_perm draws))); [|lia].
    intros E. inversion E as [E']. apply Nat2Z.inj in E'.
    rewrite NoDup_nth in Hnd. specialize (Hnd k1 k2 H H0 E'). subst k2. congruence.
  - intros r Hr.
    assert (In r (rk_perm draws)) as Hr'.
    { eapply Permutation_in; [symmetry; exact Hperm|]. apply in_seq. lia. }
    destruct (In_nth _ _ 0%nat Hr') as (k & Hk & Ek).
    exists (nth k pool 0). split.
    + apply Hin. apply nth_In. lia.
    + unfold rk_rank. rewrite rk_index_nth; [|assumption|lia].
      destruct (Nat.ltb_spec k (length (rk_perm draws))); [|lia]. now rewrite Ek.
Qed.

(* GetMinersByRank: the result does not depend on the order of the slice handed in *)
Lemma rk_sortkey_injective : forall ids draws,
  let pool := rk_build ids in
  rk_draws_ok draws = true -> length draws = length pool ->
  NoDup (map (fun id => - rk_sortkey pool (rk_perm draws) id) pool).
Proof.
  intros ids draws pool Hd Hl.
  destruct (rk_ranks_bijective ids draws Hd Hl) as (H1 & H2 & _). fold pool in H1, H2.
  destruct (rk_build_spec ids) as [Hp Hin]. fold pool in Hp, Hin.
  assert (NoDup pool) as Hnp by (apply rk_kssorted_nodup in Hp; now rewrite map_id in Hp).
  assert (forall id, In id pool -> rk_rank pool (rk_perm draws) id = Some (rk_sortkey pool (rk_perm draws) id)) as Hk.
  { intros id Hid. apply Hin in Hid. destruct (H1 _ Hid) as (r & Hr & Hlt).
    unfold rk_rank, rk_sortkey in *. destruct (rk_index id pool); [|discriminate].
    destruct (Nat.ltb_spec n (length (rk_perm draws))); [reflexivity|].
    inversion Hr. lia. }
  clear H1. revert Hnp Hk H2 Hin. generalize (rk_perm draws) as perm. intros perm.
  intros Hnp Hk H2 Hin.
  assert (forall l, NoDup l -> (forall x, In x l -> In x pool) ->
           NoDup (map (fun id => - rk_sortkey pool perm id) l)) as G.
  { induction l as [|x t IH]; intros Hn Hsub; cbn; constructor.
    - inversion Hn; subst. rewrite in_map_iff. intros (y & Ey & Hy).
      assert (x = y); [|congruence].
      apply H2; [apply Hin, Hsub; now left|apply Hin, Hsub; now right|].
      rewrite !Hk by (apply Hsub; cbn; auto). f_equal. lia.
    - inversion Hn; subst. apply IH; [assumption|]. intros; apply Hsub; now right. }
  apply G; auto.
Qed.

Lemma rk_by_rank_order_independent : forall ids draws nodes1 nodes2,
  let pool := rk_build ids in
  rk_draws_ok draws = true -> length draws = length pool ->
  Permutation nodes1 pool -> Permutation nodes2 pool ->
  rk_by_rank pool (rk_perm draws) nodes1 = rk_by_rank pool (rk_perm draws) nodes2 /\
  Permutation (rk_by_rank pool (rk_perm draws) nodes1) pool /\
  StronglySorted (fun a b => rk_sortkey pool (rk_perm draws) a > rk_sortkey pool (rk_perm draws) b)
                 (rk_by_rank pool (rk_perm draws) nodes1).
Proof.
  intros ids draws nodes1 nodes2 pool Hd Hl Hp1 Hp2. unfold rk_by_rank.
  pose proof (rk_sortkey_injective ids draws Hd Hl) as Hinj. fold pool in Hinj.
  assert (NoDup (map (fun id => - rk_sortkey pool (rk_perm draws) id) nodes1)) as Hn1.
  { eapply Permutation_NoDup; [|exact Hinj]. apply Permutation_map. now symmetry. }
  split; [|split].
  - apply rk_isort_order_independent; [|assumption]. rewrite Hp1. now symmetry.
  - rewrite rk_isort_perm. assumption.
  - assert (rk_kssorted (fun id => - rk_sortkey pool (rk_perm draws) id)
              (rk_isort (fun id => - rk_sortkey pool (rk_perm draws) id) nodes1)) as Hs.
    { apply rk_ksorted_nodup_strict; [apply rk_isort_ksorted|].
      eapply Permutation_NoDup; [|exact Hn1]. apply Permutation_map. symmetry. apply rk_isort_perm. }
    unfold rk_kssorted in Hs. revert Hs. generalize (rk_isort (fun id => - rk_sortkey pool (rk_perm draws) id) nodes1).
    induction 1; constructor; [assumption|]. eapply Forall_impl; [|eassumption]. cbn; intros; lia.
Qed.

(* ------------------------------------------------------------------------------------------ *)
(* 3. The stored permutation belongs to the stored seed and to the miner count of the last
      call that was not ignored *)
Definition rs_inv (s : rs_state) : Prop :=
  match rs_permkey s with
  | None => rs_seed s = 0
  | Some (p, _) => p = rs_seed s
  end.

Lemma rs_step_inv : forall s o, rs_inv s -> rs_inv (rs_step s o).
Proof.
  intros s [seed n|seed n] H; cbn; [|reflexivity].
  destruct (Z.eqb (rs_seed s) 0); [reflexivity|assumption].
Qed.

Lemma rs_reachable_inv : forall ops, rs_inv (rs_run ops).
Proof.
  intros ops. unfold rs_run.
  assert (forall s, rs_inv s -> rs_inv (fold_left rs_step ops s)) as H.
  { induction ops as [|o t IH]; intros s Hs; cbn; [assumption|]. apply IH. now apply rs_step_inv. }
  apply H. reflexivity.
Qed.

Lemma rs_perm_matches_seed : forall ops, rs_seed (rs_run ops) <> 0 ->
  exists n, rs_permkey (rs_run ops) = Some (rs_seed (rs_run ops), n).
Proof.
  intros ops Hs. pose proof (rs_reachable_inv ops) as H. unfold rs_inv in H.
  destruct (rs_permkey (rs_run ops)) as [[p n]|]; [subst; eauto|contradiction].
Qed.

Lemma rs_run_snoc : forall ops o, rs_run (ops ++ [o]) = rs_step (rs_run ops) o.
Proof. intros. unfold rs_run. now rewrite fold_left_app. Qed.

(* after SetRandomSeedForNotarizedBlock(seed, n) the permutation is the one of (seed, n), whatever
   was stored before - also when only the miner count differs *)
Lemma rs_notarized_call_recomputes : forall ops seed n,
  rs_permkey (rs_run (ops ++ [RsSetNotarized seed n])) = Some (seed, n) /\
  rs_seed (rs_run (ops ++ [RsSetNotarized seed n])) = seed.
Proof. intros. rewrite rs_run_snoc. cbn. auto. Qed.

(* SetRandomSeed(seed, n) does the same on a round without a seed and nothing otherwise *)
Lemma rs_plain_call : forall ops seed n,
  (rs_seed (rs_run ops) = 0 -> rs_permkey (rs_run (ops ++ [RsSet seed n])) = Some (seed, n) /\
                              rs_seed (rs_run (ops ++ [RsSet seed n])) = seed) /\
  (rs_seed (rs_run ops) <> 0 -> rs_run (ops ++ [RsSet seed n]) = rs_run ops).
Proof.
  intros. rewrite rs_run_snoc. cbn. split; intros H.
  - rewrite H. cbn. auto.
  - destruct (Z.eqb_spec (rs_seed (rs_run ops)) 0); [contradiction|reflexivity].
Qed.

(* ------------------------------------------------------------------------------------------ *)
(* 4. Notarized blocks *)

Definition nb_wk (b : nb_block) : Z := nb_wkey (nb_rank b).

(* heaviest first: weights never increase along the list *)
Definition nb_heaviest_first (l : list nb_block) : Prop := rk_ksorted nb_wk l.

Definition nb_inv (l : list nb_block) : Prop :=
  NoDup (map nb_hash l) /\ NoDup (map nb_rank l) /\ nb_heaviest_first l.

Lemma nb_wkey_mono : forall a b, a <= b -> nb_wkey a <= nb_wkey b.
Proof. intros. unfold nb_wkey. lia. Qed.

Lemma nb_rank_sorted_heaviest_first : forall l, rk_ksorted nb_rank l -> nb_heaviest_first l.
Proof.
  unfold nb_heaviest_first, rk_ksorted. induction 1; constructor; [assumption|].
  eapply Forall_impl; [|eassumption]. cbn. intros. unfold nb_wk. now apply nb_wkey_mono.
Qed.

Lemma nb_scan_none : forall l b i found, nb_scan l b i found = None <-> In (nb_hash b) (map nb_hash l).
Proof.
  induction l as [|x t IH]; intros b i found; cbn.
  - split; [discriminate|tauto].
  - destruct (Z.eqb_spec (nb_hash x) (nb_hash b)).
    + split; [now left|reflexivity].
    + rewrite IH. split; [now right|]. intros [E|H]; [congruence|assumption].
Qed.

Lemma nb_scan_found : forall l b i found k, nb_scan l b i found = Some (Some k) ->
  (found = Some k /\ ~ In (nb_rank b) (map nb_rank l)) \/
  (exists j, k = (i + j)%nat /\ (j < length l)%nat /\ nb_rank (nth j l b) = nb_rank b /\
             ~ In (nb_rank b) (map nb_rank (skipn (S j) l))).
Proof.
  induction l as [|x t IH]; intros b i found k H; cbn in *.
  - inversion H; subst. left. split; [reflexivity|tauto].
  - destruct (Z.eqb_spec (nb_hash x) (nb_hash b)); [discriminate|].
    destruct (IH _ _ _ _ H) as [[E Hn]|(j & Ej & Hj & Hr & Hs)].
    + destruct (Z.eqb_spec (nb_rank x) (nb_rank b)).
      * inversion E; subst. right. exists 0%nat. split; [lia|]. split; [lia|]. split; assumption.
      * left. split; [assumption|]. intros [E'|H']; [congruence|contradiction].
    + right. exists (S j). split; [lia|]. split; [lia|]. split; assumption.
Qed.

Lemma nb_scan_notfound : forall l b i found, nb_scan l b i found = Some None ->
  found = None /\ ~ In (nb_rank b) (map nb_rank l).
Proof.
  induction l as [|x t IH]; intros b i found H; cbn in *.
  - inversion H. split; [reflexivity|tauto].
  - destruct (Z.eqb_spec (nb_hash x) (nb_hash b)); [discriminate|].
    destruct (IH _ _ _ H) as [E Hn].
    destruct (Z.eqb_spec (nb_rank x) (nb_rank b)); [discriminate|].
    split; [assumption|]. intros [E'|H']; [congruence|contradiction].
Qed.

Lemma nb_remove_at_perm : forall k l d, (k < length l)%nat ->
  Permutation l (nth k l d :: nb_remove_at k l).
Proof.
  intros k l d Hk. unfold nb_remove_at.
  destruct (nth_split l d Hk) as (l1 & l2 & E & El).
  remember (nth k l d) as x. clear Heqx Hk. subst l k.
  rewrite firstn_app, Nat.sub_diag, firstn_all. cbn [firstn]. rewrite app_nil_r.
  rewrite skipn_app. rewrite skipn_all2 by lia.
  replace (S (length l1) - length l1)%nat with 1%nat by lia. cbn.
  symmetry. apply Permutation_middle.
Qed.

(* the state after removing the entry found by the scan has no block of b's rank *)
Lemma nb_scan_removed_rank_free : forall l b k, NoDup (map nb_rank l) ->
  nb_scan l b 0 None = Some (Some k) ->
  (k < length l)%nat /\ nb_rank (nth k l b) = nb_rank b /\ ~ In (nb_rank b) (map nb_rank (nb_remove_at k l)).
Proof.
  intros l b k Hn H. destruct (nb_scan_found _ _ _ _ _ H) as [[E _]|(j & Ej & Hj & Hr & _)]; [discriminate|].
  cbn in Ej. subst j. split; [assumption|]. split; [assumption|].
  pose proof (nb_remove_at_perm k l b Hj) as Hp.
  apply (Permutation_map nb_rank) in Hp. cbn in Hp.
  eapply Permutation_NoDup in Hn; [|exact Hp]. inversion Hn; subst. now rewrite <- Hr.
Qed.

Lemma nb_in_firstn : forall {B} n (l : list B) x, In x (firstn n l) -> In x l.
Proof. induction n; intros [|y t] x H; cbn in *; try tauto. destruct H; [now left|right; eauto]. Qed.

Lemma nb_in_skipn : forall {B} n (l : list B) x, In x (skipn n l) -> In x l.
Proof. induction n; intros [|y t] x H; cbn in *; try tauto. right; eauto. Qed.

Lemma nb_nodup_app_l : forall {B} (l1 l2 : list B), NoDup (l1 ++ l2) -> NoDup l1.
Proof.
  induction l1; intros l2 H; cbn in *; [constructor|]. inversion H; subst.
  constructor; [|eauto]. intros Hc. apply H2. apply in_or_app. now left.
Qed.

Lemma nb_remove_at_incl : forall k l x, In x (nb_remove_at k l) -> In x l.
Proof.
  intros k l x H. unfold nb_remove_at in H. apply in_app_or in H.
  destruct H as [H|H]; [eapply nb_in_firstn|eapply nb_in_skipn]; eassumption.
Qed.

Lemma nb_nodup_map_sub : forall {B} (f : nb_block -> B) l l' x, Permutation l (x :: l') ->
  NoDup (map f l) -> NoDup (map f l').
Proof.
  intros B f l l' x Hp Hn. apply (Permutation_map f) in Hp. eapply Permutation_NoDup in Hn; [|exact Hp].
  cbn in Hn. now inversion Hn.
Qed.

(* what AddNotarizedBlock does to the notarized list *)
Lemma nb_add_notarized_list : forall r b, NoDup (map nb_rank (nb_notarized r)) ->
  (In (nb_hash b) (map nb_hash (nb_notarized r)) /\ nb_notarized (nb_add_notarized r b) = nb_notarized r) \/
  (~ In (nb_hash b) (map nb_hash (nb_notarized r)) /\
   exists kept, nb_notarized (nb_add_notarized r b) = nb_by_weight (kept ++ [b]) /\
     (forall x, In x kept <-> In x (nb_notarized r) /\ nb_rank x <> nb_rank b) /\
     (exists dropped, Permutation (nb_notarized r) (dropped ++ kept) /\ (length dropped <= 1)%nat)).
Proof.
  intros r b Hn. unfold nb_add_notarized.
  destruct (nb_scan (nb_notarized r) b 0 None) as [[k|]|] eqn:E.
  - right. split.
    { intros Hc. apply (nb_scan_none _ _ 0%nat None) in Hc. congruence. }
    destruct (nb_scan_removed_rank_free _ _ _ Hn E) as (Hk & Hr & Hfree).
    exists (nb_remove_at k (nb_notarized r)). cbn. split; [reflexivity|].
    pose proof (nb_remove_at_perm k _ b Hk) as Hp. split.
    + intros x. split.
      * intros Hx. split; [eapply nb_remove_at_incl; eassumption|].
        intros Ex. apply Hfree. rewrite <- Ex. now apply in_map.
      * intros [Hx Hne]. eapply Permutation_in in Hx; [|exact Hp].
        destruct Hx as [Ex|Hx]; [|assumption]. subst x. congruence.
    + exists [nth k (nb_notarized r) b]. split; [assumption|cbn; lia].
  - right. split.
    { intros Hc. apply (nb_scan_none _ _ 0%nat None) in Hc. congruence. }
    destruct (nb_scan_notfound _ _ _ _ E) as [_ Hfree].
    exists (nb_notarized r). cbn. split; [reflexivity|]. split.
    + intros x. split; [|tauto]. intros Hx. split; [assumption|].
      intros Ex. apply Hfree. rewrite <- Ex. now apply in_map.
    + exists []. split; [reflexivity|cbn; lia].
  - left. apply nb_scan_none in E. split; [assumption|reflexivity].
Qed.

Lemma nb_add_notarized_inv : forall r b, nb_inv (nb_notarized r) -> nb_inv (nb_notarized (nb_add_notarized r b)).
Proof.
  intros r b (Hh & Hr & Hs).
  destruct (nb_add_notarized_list r b Hr) as [[_ ->]|(Hnew & kept & -> & Hk & dropped & Hp & _)].
  - repeat split; assumption.
  - unfold nb_by_weight.
    assert (Permutation (rk_isort (fun b0 => nb_wkey (nb_rank b0)) (kept ++ [b])) (b :: kept)) as Hperm.
    { rewrite rk_isort_perm. rewrite Permutation_app_comm. reflexivity. }
    assert (Permutation (nb_notarized r) (kept ++ dropped)) as Hp' by (rewrite Hp; apply Permutation_app_comm).
    split; [|split].
    + eapply Permutation_NoDup; [symmetry; apply Permutation_map; exact Hperm|].
      cbn. constructor.
      * intros Hc. apply Hnew. rewrite in_map_iff in *. destruct Hc as (x & Ex & Hx).
        exists x. split; [assumption|]. now apply Hk.
      * apply (Permutation_map nb_hash) in Hp'. eapply Permutation_NoDup in Hh; [|exact Hp'].
        rewrite map_app in Hh. now apply nb_nodup_app_l in Hh.
    + eapply Permutation_NoDup; [symmetry; apply Permutation_map; exact Hperm|].
      cbn. constructor.
      * rewrite in_map_iff. intros (x & Ex & Hx). apply Hk in Hx. destruct Hx. congruence.
      * apply (Permutation_map nb_rank) in Hp'. eapply Permutation_NoDup in Hr; [|exact Hp'].
        rewrite map_app in Hr. now apply nb_nodup_app_l in Hr.
    + apply rk_isort_ksorted.
Qed.

Lemma nb_map_if_same : forall (c : nb_block -> bool) l, map (fun nb => if c nb then nb else nb) l = l.
Proof. induction l; cbn; [reflexivity|]. destruct (c a); now rewrite IHl. Qed.

Lemma nb_update_unfixed_notarized : forall r b, nb_notarized (nb_update false r b) = nb_notarized r.
Proof. intros. cbn. apply nb_map_if_same. Qed.

(* blocks with the same hash carry the same rank (needed only for the repaired update) *)
Definition nb_wf (rankof : Z -> Z) (b : nb_block) : Prop := nb_rank b = rankof (nb_hash b).
Definition nb_op_wf (rankof : Z -> Z) (o : nb_op) : Prop :=
  match o with NbAdd b | NbPropose b | NbUpdate b => nb_wf rankof b | _ => True end.

Lemma nb_replace_all_wf_maps : forall rankof b l, nb_wf rankof b -> Forall (nb_wf rankof) l ->
  map nb_hash (nb_replace_all b l) = map nb_hash l /\ map nb_rank (nb_replace_all b l) = map nb_rank l /\
  Forall (nb_wf rankof) (nb_replace_all b l).
Proof.
  intros rankof b l Hb. unfold nb_replace_all. induction 1 as [|x t Hx Ht IH]; cbn [map]; [repeat split; constructor|].
  destruct IH as (I1 & I2 & I3).
  destruct (Z.eqb_spec (nb_hash x) (nb_hash b)) as [E|E].
  - rewrite I1, I2. split; [f_equal; congruence|]. split.
    + f_equal. unfold nb_wf in *. congruence.
    + constructor; assumption.
  - rewrite I1, I2. split; [reflexivity|]. split; [reflexivity|]. constructor; assumption.
Qed.

Lemma nb_ksorted_same_keys : forall (l1 l2 : list nb_block), map nb_rank l1 = map nb_rank l2 ->
  nb_heaviest_first l1 -> nb_heaviest_first l2.
Proof.
  unfold nb_heaviest_first, rk_ksorted. induction l1 as [|a t IH]; intros [|b t2] E H; try discriminate; [constructor|].
  cbn in E. inversion E. inversion H; subst. constructor; [eapply IH; eassumption|].
  unfold nb_wk in *. rewrite <- H1.
  clear -H5 H2. revert t2 H2. induction t as [|x t IH]; intros [|y t2] E; try discriminate; constructor.
  - cbn in E. inversion E. inversion H5; subst. congruence.
  - cbn in E. inversion E. inversion H5; subst. eapply IH; eassumption.
Qed.

Definition nb_inv' (rankof : Z -> Z) (fixed : bool) (r : nb_round) : Prop :=
  nb_inv (nb_notarized r) /\ (fixed = true -> Forall (nb_wf rankof) (nb_notarized r)).

Lemma nb_forall_perm_sub : forall (P : nb_block -> Prop) l l', (forall x, In x l' -> In x l) -> Forall P l -> Forall P l'.
Proof. intros P l l' H Hf. rewrite Forall_forall in *. auto. Qed.

Lemma nb_step_inv : forall rankof fixed r o, (fixed = true -> nb_op_wf rankof o) ->
  nb_inv' rankof fixed r -> nb_inv' rankof fixed (fst (nb_step fixed r o)).
Proof.
  intros rankof fixed r o Hwf [Hi Hw]. destruct o as [b|b|b| |]; cbn [nb_step fst].
  - split; [now apply nb_add_notarized_inv|].
    intros Hf. specialize (Hw Hf). specialize (Hwf Hf). cbn in Hwf.
    destruct Hi as (_ & Hr & _).
    destruct (nb_add_notarized_list r b Hr) as [[_ ->]|(_ & kept & -> & Hk & _)]; [assumption|].
    unfold nb_by_weight. rewrite Forall_forall in *. intros x Hx.
    eapply Permutation_in in Hx; [|apply rk_isort_perm]. apply in_app_or in Hx.
    destruct Hx as [Hx|[<-|[]]]; [|assumption]. apply Hw. now apply Hk.
  - split; assumption.
  - destruct fixed.
    + specialize (Hw eq_refl). specialize (Hwf eq_refl). cbn in Hwf.
      destruct (nb_replace_all_wf_maps rankof b _ Hwf Hw) as (E1 & E2 & E3).
      destruct Hi as (Hh & Hr & Hs).
      unfold nb_inv'.
      change (nb_notarized (nb_update true r b)) with (nb_replace_all b (nb_notarized r)).
      split; [|intros _; assumption].
      split; [now rewrite E1|]. split; [now rewrite E2|].
      eapply nb_ksorted_same_keys; [symmetry; exact E2|assumption].
    + split; [|discriminate]. now rewrite nb_update_unfixed_notarized.
  - unfold nb_best_ranked. destruct (nb_notarized r) as [|x [|y t]] eqn:E; cbn [fst nb_notarized].
    + split; [now rewrite E|now rewrite E].
    + split; [now rewrite E|now rewrite E].
    + destruct Hi as (Hh & Hr & Hs).
      assert (Permutation (nb_by_rank (x :: y :: t)) (x :: y :: t)) as Hp by apply rk_isort_perm.
      split.
      * split; [|split].
        -- eapply Permutation_NoDup; [symmetry; apply Permutation_map; exact Hp|assumption].
        -- eapply Permutation_NoDup; [symmetry; apply Permutation_map; exact Hp|assumption].
        -- apply nb_rank_sorted_heaviest_first. apply rk_isort_ksorted.
      * intros Hf. specialize (Hw Hf). eapply nb_forall_perm_sub; [|exact Hw].
        intros z Hz. eapply Permutation_in; [exact Hp|exact Hz].
  - split; assumption.
Qed.

Lemma nb_run_inv : forall rankof fixed ops r, (fixed = true -> Forall (nb_op_wf rankof) ops) ->
  nb_inv' rankof fixed r -> nb_inv' rankof fixed (fst (nb_run fixed r ops)).
Proof.
  induction ops as [|o t IH]; intros r Hwf Hi; cbn; [assumption|].
  destruct (nb_step fixed r o) as [r1 out] eqn:E1.
  destruct (nb_run fixed r1 t) as [r2 outs] eqn:E2. cbn.
  replace r2 with (fst (nb_run fixed r1 t)) by now rewrite E2.
  apply IH.
  - intros Hf. specialize (Hwf Hf). now inversion Hwf.
  - replace r1 with (fst (nb_step fixed r o)) by now rewrite E1.
    apply nb_step_inv; [|assumption]. intros Hf. specialize (Hwf Hf). now inversion Hwf.
Qed.

Lemma nb_init_inv : forall rankof fixed, nb_inv' rankof fixed nb_init.
Proof. intros. split; [repeat split; constructor|intros; constructor]. Qed.

(* at most one notarized block per rank (and per hash), heaviest first, after any history of
   the code as written; also for the repaired update when same-hash blocks carry the same rank *)
Lemma nb_reachable_one_per_rank_heaviest_first : forall ops,
  let l := nb_notarized (fst (nb_run false nb_init ops)) in
  NoDup (map nb_rank l) /\ NoDup (map nb_hash l) /\ nb_heaviest_first l.
Proof.
  intros ops l. destruct (nb_run_inv (fun _ => 0) false ops nb_init) as [(H1 & H2 & H3) _];
    [discriminate|apply nb_init_inv|]. auto.
Qed.

Lemma nb_reachable_repaired : forall rankof ops, Forall (nb_op_wf rankof) ops ->
  let l := nb_notarized (fst (nb_run true nb_init ops)) in
  NoDup (map nb_rank l) /\ NoDup (map nb_hash l) /\ nb_heaviest_first l.
Proof.
  intros rankof ops Hwf l. destruct (nb_run_inv rankof true ops nb_init) as [(H1 & H2 & H3) _];
    [auto|apply nb_init_inv|]. auto.
Qed.

(* AddNotarizedBlock of a block with a new hash stores that very object, evicts only the block
   of the same rank, keeps everything else *)
Lemma nb_add_stores_given_block : forall r b, nb_inv (nb_notarized r) ->
  ~ In (nb_hash b) (map nb_hash (nb_notarized r)) ->
  forall x, In x (nb_notarized (nb_add_notarized r b)) <->
            x = b \/ (In x (nb_notarized r) /\ nb_rank x <> nb_rank b).
Proof.
  intros r b (_ & Hr & _) Hnew x.
  destruct (nb_add_notarized_list r b Hr) as [[Hc _]|(_ & kept & -> & Hk & _)]; [contradiction|].
  unfold nb_by_weight. split; intros H.
  - eapply Permutation_in in H; [|apply rk_isort_perm]. apply in_app_or in H.
    destruct H as [H|[<-|[]]]; [right; now apply Hk|now left].
  - eapply Permutation_in; [symmetry; apply rk_isort_perm|]. apply in_or_app.
    destruct H as [->|H]; [right; now left|left; now apply Hk].
Qed.

Lemma nb_add_known_hash_ignored : forall r b, nb_inv (nb_notarized r) ->
  In (nb_hash b) (map nb_hash (nb_notarized r)) ->
  nb_notarized (nb_add_notarized r b) = nb_notarized r.
Proof.
  intros r b (_ & Hr & _) Hin.
  destruct (nb_add_notarized_list r b Hr) as [[_ E]|[Hc _]]; [assumption|contradiction].
Qed.

(* UpdateNotarizedBlock *)
Definition nb_update_replaces (fixed : bool) : Prop :=
  forall r b x, In x (nb_notarized (nb_update fixed r b)) -> nb_hash x = nb_hash b -> x = b.

Lemma nb_update_replaces_refuted : ~ nb_update_replaces false.
Proof.
  intros H.
  specialize (H {| nb_proposed := []; nb_notarized := [ {| nb_hash := 7; nb_rank := 0; nb_tok := 1 |} ] |}
                {| nb_hash := 7; nb_rank := 0; nb_tok := 2 |}
                {| nb_hash := 7; nb_rank := 0; nb_tok := 1 |}).
  cbn in H. specialize (H (or_introl eq_refl) eq_refl). discriminate.
Qed.

Lemma nb_replace_all_spec : forall b l x, In x (nb_replace_all b l) -> nb_hash x = nb_hash b -> x = b.
Proof.
  intros b l x H E. unfold nb_replace_all in H. rewrite in_map_iff in H.
  destruct H as (y & Ey & _). destruct (Z.eqb_spec (nb_hash y) (nb_hash b)); congruence.
Qed.

Lemma nb_update_replaces_repaired : nb_update_replaces true.
Proof. intros r b x H E. cbn in H. eapply nb_replace_all_spec; eassumption. Qed.

(* as written: the notarized list is never changed by an update, so the statement holds exactly
   when no other object with that hash is stored; the proposed list is replaced correctly *)
Lemma nb_update_partial : forall r b,
  nb_notarized (nb_update false r b) = nb_notarized r /\
  ((forall x, In x (nb_notarized r) -> nb_hash x = nb_hash b -> x = b) ->
   forall x, In x (nb_notarized (nb_update false r b)) -> nb_hash x = nb_hash b -> x = b) /\
  (forall x, In x (nb_proposed (nb_update false r b)) -> nb_hash x = nb_hash b -> x = b) /\
  map nb_hash (nb_proposed (nb_update false r b)) = map nb_hash (nb_proposed r).
Proof.
  intros r b. rewrite nb_update_unfixed_notarized. split; [reflexivity|]. split; [auto|]. split.
  - intros x H E. cbn in H. eapply nb_replace_all_spec; eassumption.
  - cbn. unfold nb_replace_all. rewrite map_map. apply map_ext_in. intros y _.
    destruct (Z.eqb_spec (nb_hash y) (nb_hash b)); congruence.
Qed.
