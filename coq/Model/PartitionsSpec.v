(* The specification side of C25: a finite map id -> payload (association list with unique keys)
   and what every call of the partitions API must answer with respect to it.
   Definitions only. *)
From ZC Require Import Model.Partitions.
From Coq Require Import Sorting.Permutation.
Open Scope Z_scope.

Definition sp_map : Type := list pt_item.
Definition sp_get (k : Z) (m : sp_map) : option Z := pt_al_get Z.eqb k m.
Definition sp_del (k : Z) (m : sp_map) : sp_map := pt_al_del Z.eqb k m.
Fixpoint sp_put (k d : Z) (m : sp_map) : sp_map :=
  match m with
  | [] => []
  | (k', d') :: tl => if Z.eqb k k' then (k', d) :: tl else (k', d') :: sp_put k d tl
  end.

(* specification outputs; SAll / SSample carry the whole set: the implementation may answer
   with any enumeration / any admissible sample of it *)
Inductive sp_out :=
| SOk | SErrExists | SErrNotFound | SErrFn | SErrEmpty
| SGot (d : Z) | SBool (b : bool) | SNat (n : nat)
| SAll (m : sp_map) | SSample (m : sp_map).

(* abstract state: the current set and the set as of the last committed transaction *)
Definition sp_state : Type := (sp_map * sp_map)%type.

Definition sp_step (s : sp_state) (o : pt_op) : sp_state * sp_out :=
  let '(m, c) := s in
  match o with
  | PAdd k d => match sp_get k m with Some _ => (s, SErrExists) | None => ((m ++ [(k, d)], c), SOk) end
  | PGet k => match sp_get k m with Some d => (s, SGot d) | None => (s, SErrNotFound) end
  | PUpdateItem k d => match sp_get k m with Some _ => ((sp_put k d m, c), SOk) | None => (s, SErrNotFound) end
  | PUpdate k delta ferr =>
      match sp_get k m with
      | None => (s, SErrNotFound)
      | Some old => if ferr then (s, SErrFn) else ((sp_put k (old + delta) m, c), SOk)
      end
  | PRemove k => match sp_get k m with Some _ => ((sp_del k m, c), SOk) | None => (s, SErrNotFound) end
  | PExist k => (s, SBool (match sp_get k m with Some _ => true | None => false end))
  | PSize => (s, SNat (length m))
  | PForEach => (s, SAll m)
  | PRandom _ => match m with [] => (s, SErrEmpty) | _ => (s, SSample m) end
  | PSave => (s, SOk)
  | PCommit => ((m, m), SOk)
  | PReload => ((c, c), SOk)
  end.

Fixpoint sp_run (s : sp_state) (ops : list pt_op) : sp_state * list sp_out :=
  match ops with
  | [] => (s, [])
  | o :: tl => let '(s1, out) := sp_step s o in
               let '(s2, outs) := sp_run s1 tl in (s2, out :: outs)
  end.

(* when does an implementation output satisfy a specification output *)
Definition pt_out_match (size : nat) (so : sp_out) (o : pt_out) : Prop :=
  match so, o with
  | SOk, POk | SErrExists, PErrExists | SErrNotFound, PErrNotFound | SErrFn, PErrFn
  | SErrEmpty, PErrEmpty => True
  | SGot a, PGot b => a = b
  | SBool a, PBool b => a = b
  | SNat a, PNat b => a = b
  | SAll m, PItems l => Permutation l m /\ NoDup (map fst l)
  | SSample m, PItems l =>
      NoDup (map fst l) /\ (forall it, In it l -> In it m) /\ length l = Nat.min size (length m)
  | _, _ => False
  end.
