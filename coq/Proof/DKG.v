(* Lemmas about Model/DKG.v: share validation, aggregated keys, Lagrange recovery. *)
From mathcomp Require Import all_ssreflect ssralg poly.
From ZC Require Import Model.DKG.
Set Implicit Arguments.
Unset Strict Implicit.
Unset Printing Implicit Defensive.
Import GRing.Theory.
Local Open Scope ring_scope.

Section Interp.
Variable F : fieldType.
Implicit Types (p : {poly F}) (ids : seq F).

(* Lagrange basis polynomial for node i among ids *)
Definition dkg_basis ids (i : F) : {poly F} :=
  let others := [seq j <- ids | j != i] in
  (\prod_(j <- others) (i - j))^-1 *: \prod_(j <- others) ('X - j%:P).

Lemma dkg_size_basis ids i : i \in ids -> (size (dkg_basis ids i) <= size ids)%N.
Proof.
move=> iin; rewrite /dkg_basis.
apply: leq_trans (size_scale_leq _ _) _.
rewrite size_prod_XsubC size_filter.
rewrite -(count_predC (pred1 i) ids) -[X in (X < _)%N]add0n.
by rewrite ltn_add2r -has_count has_pred1.
Qed.

Lemma dkg_basis_self ids i : uniq ids -> (dkg_basis ids i).[i] = 1.
Proof.
move=> _; rewrite /dkg_basis hornerZ horner_prod.
under [X in _ * X]eq_bigr do rewrite hornerXsubC.
rewrite mulVf // prodf_seq_neq0; apply/allP => j.
by rewrite mem_filter => /andP[ji _]; apply/implyP => _; rewrite subr_eq0 eq_sym.
Qed.

Lemma dkg_basis_other ids i k : k \in ids -> k != i -> (dkg_basis ids i).[k] = 0.
Proof.
move=> kin ki; rewrite /dkg_basis hornerZ.
have: root (\prod_(j <- [seq j <- ids | j != i]) ('X - j%:P)) k.
  by rewrite root_prod_XsubC mem_filter ki kin.
by move/rootP => ->; rewrite mulr0.
Qed.

Lemma dkg_basis_at0 ids i : 0 \notin ids -> (dkg_basis ids i).[0] = dkg_lag0 ids i.
Proof.
move=> nz; rewrite /dkg_basis /dkg_lag0 hornerZ horner_prod -[RHS]big_filter.
under [X in _ * X]eq_bigr do rewrite hornerXsubC sub0r.
rewrite -prodfV mulrC -big_split /=.
apply: eq_bigr => j _.
by rewrite -[i - j]opprB invrN mulrNN.
Qed.

(* interpolation at the nodes ids of a polynomial of size <= #ids, evaluated at 0 *)
Lemma dkg_lagrange_at0 p ids :
  uniq ids -> 0 \notin ids -> (size p <= size ids)%N ->
  \sum_(i <- ids) dkg_lag0 ids i * p.[i] = p.[0].
Proof.
move=> uids nz sz.
pose q : {poly F} := \sum_(i <- ids) p.[i] *: dkg_basis ids i.
have qk k : k \in ids -> q.[k] = p.[k].
  move=> kin; rewrite /q horner_sum (bigD1_seq k) //= hornerZ dkg_basis_self // mulr1.
  rewrite big1_seq ?addr0 // => i /andP[ik iin].
  by rewrite hornerZ dkg_basis_other ?mulr0 // eq_sym.
have szq : (size q <= size ids)%N.
  rewrite /q big_seq; elim/big_ind: _ => [|a b sa sb|i iin]; first by rewrite size_poly0.
    by apply: leq_trans (size_add _ _) _; rewrite geq_max sa sb.
  by apply: leq_trans (size_scale_leq _ _) _; apply: dkg_size_basis.
have: q - p = 0.
  apply: (@roots_geq_poly_eq0 _ _ ids) => //.
    by apply/allP => k kin; rewrite rootE hornerD hornerN qk // subrr.
  by apply: leq_trans (size_add _ _) _; rewrite size_opp geq_max szq sz.
move/subr0_eq => qp; have -> : p.[0] = q.[0] by rewrite qp.
rewrite /q horner_sum.
by apply: eq_bigr => i _; rewrite hornerZ dkg_basis_at0 // mulrC.
Qed.
End Interp.

Section Main.
Variable F : fieldType.
Variables G1 G2 GT : lmodType F.
Variable g2 : G2.
Variable M : Type.
Variable H : M -> G1.
Variable e : G1 -> G2 -> GT.
Hypothesis e_linl : forall a x y, e (a *: x) y = a *: e x y.
Hypothesis e_linr : forall a x y, e x (a *: y) = a *: e x y.
Implicit Types (cs : seq F) (css : seq (seq F)) (ids : seq F) (m : M).

Lemma dkg_pk_eval_mpk cs i : dkg_pk_eval (dkg_mpk g2 cs) i = dkg_share cs i *: g2.
Proof.
rewrite /dkg_pk_eval /dkg_share /dkg_mpk size_map.
rewrite (@horner_coef_wide _ (size cs)) ?size_Poly // scaler_suml.
apply: eq_bigr => k _.
by rewrite (nth_map 0) // scalerA mulrC coef_Poly.
Qed.

Lemma dkg_share_validates cs i : dkg_validate g2 (dkg_mpk g2 cs) i (dkg_share cs i).
Proof. by rewrite /dkg_validate dkg_pk_eval_mpk. Qed.

Lemma dkg_validate_sound cs i s :
  g2 != 0 -> dkg_validate g2 (dkg_mpk g2 cs) i s -> s = dkg_share cs i.
Proof.
move=> gnz; rewrite /dkg_validate dkg_pk_eval_mpk /dkg_pub -subr_eq0 -scalerBl.
by rewrite scaler_eq0 (negbTE gnz) orbF subr_eq0 => /eqP.
Qed.

Lemma dkg_validate_iff cs i s :
  g2 != 0 -> dkg_validate g2 (dkg_mpk g2 cs) i s = (s == dkg_share cs i).
Proof.
move=> gnz; apply/idP/eqP; first exact: dkg_validate_sound.
by move=> ->; apply: dkg_share_validates.
Qed.

Lemma dkg_gpk_at_mpks css i :
  dkg_gpk_at [seq dkg_mpk g2 cs | cs <- css] i = dkg_pub g2 (dkg_sk css i).
Proof.
rewrite /dkg_gpk_at /dkg_sk /dkg_pub big_map scaler_suml.
by apply: eq_bigr => cs _; rewrite dkg_pk_eval_mpk.
Qed.

Lemma dkg_gpk_mpks css : dkg_gpk [seq dkg_mpk g2 cs | cs <- css] = dkg_pub g2 (dkg_gsk css).
Proof.
rewrite /dkg_gpk /dkg_gsk /dkg_pub big_map scaler_suml.
by apply: eq_bigr => -[|a cs] _ //=; rewrite scale0r.
Qed.

(* public aggregation is a function of the final set of public polynomials only *)
Lemma dkg_agg_pub_forgets (old1 old2 : seq (F * G2)) (mpks : seq (seq G2)) ids :
  dkg_agg_pub old1 mpks ids = dkg_agg_pub old2 mpks ids.
Proof. by []. Qed.

Lemma dkg_agg_pub_keys (old : seq (F * G2)) css ids i :
  i \in ids ->
  (i, dkg_pub g2 (dkg_sk css i)) \in dkg_agg_pub old [seq dkg_mpk g2 cs | cs <- css] ids.
Proof. by move=> iin; apply/mapP; exists i => //; rewrite dkg_gpk_at_mpks. Qed.

Lemma dkg_sign_verifies sk m : dkg_verify g2 H e (dkg_pub g2 sk) m (dkg_sign H sk m).
Proof. by rewrite /dkg_verify /dkg_sign /dkg_pub e_linl e_linr. Qed.

(* the aggregated key of party i signs, and the signature verifies under the public key every
   other party derives for i from the published polynomials *)
Lemma dkg_agg_key_signs_and_verifies css i m :
  dkg_verify g2 H e (dkg_gpk_at [seq dkg_mpk g2 cs | cs <- css] i) m
             (dkg_sign H (dkg_sk css i) m).
Proof. by rewrite dkg_gpk_at_mpks; apply: dkg_sign_verifies. Qed.

(* aggregation is a function of the received shares: repeating it, or adding a share that is
   already there, changes nothing; on the honest shares of the dealers it gives dkg_sk *)
Lemma dkg_aggregate_idem (st : seq (F * F) * F) : dkg_aggregate (dkg_aggregate st) = dkg_aggregate st.
Proof. by []. Qed.

Lemma dkg_aggregate_forgets (recv : seq (F * F)) (x y : F) :
  dkg_aggregate (recv, x) = dkg_aggregate (recv, y).
Proof. by []. Qed.

Lemma dkg_uniq_fst (recv : seq (F * F)) (j b s : F) :
  uniq (unzip1 recv) -> (j, b) \in recv -> (j, s) \in recv -> b = s.
Proof.
elim: recv => [//|[a c] recv IH] /= /andP[nin uq].
rewrite !in_cons => /orP[/eqP[ja bc]|inb] /orP[/eqP[ja' sc]|ins].
- by rewrite bc sc.
- by move/negP: nin; case; rewrite -ja; apply/mapP; exists (j, s).
- by move/negP: nin; case; rewrite -ja'; apply/mapP; exists (j, b).
- exact: IH.
Qed.

Lemma dkg_recv_add_same (recv : seq (F * F)) (j s : F) :
  uniq (unzip1 recv) -> (j, s) \in recv -> dkg_recv_add recv j s = recv.
Proof.
move=> uq mem; rewrite /dkg_recv_add.
have -> : j \in unzip1 recv by apply/mapP; exists (j, s).
rewrite -[RHS]map_id; apply/eq_in_map => p pin.
case: eqP => // pj; case: p pin pj => a b pin /= ab; subst a.
by rewrite (dkg_uniq_fst uq pin mem).
Qed.

Lemma dkg_aggregation_idempotent (recv : seq (F * F)) (x y j s : F) :
  dkg_aggregate (dkg_aggregate (recv, x)) = dkg_aggregate (recv, x) /\
  dkg_aggregate (recv, x) = dkg_aggregate (recv, y) /\
  (uniq (unzip1 recv) -> (j, s) \in recv -> dkg_recv_add recv j s = recv).
Proof. by split=> //; split=> //; apply: dkg_recv_add_same. Qed.

Lemma dkg_aggregate_honest css (jds : seq F) i (x : F) :
  size jds = size css ->
  (dkg_aggregate ([seq (p.1, dkg_share p.2 i) | p <- zip jds css], x)).2 = dkg_sk css i.
Proof.
move=> sz; rewrite /dkg_aggregate /dkg_sk /= big_map.
rewrite -[in RHS](@unzip2_zip _ _ jds css) ?sz // big_map.
by apply: eq_bigr.
Qed.

Definition dkg_sum_poly css : {poly F} := \sum_(cs <- css) Poly cs.

Lemma dkg_sk_horner css i : dkg_sk css i = (dkg_sum_poly css).[i].
Proof. by rewrite /dkg_sk /dkg_sum_poly horner_sum. Qed.

Lemma dkg_gsk_horner css : dkg_gsk css = (dkg_sum_poly css).[0].
Proof.
rewrite /dkg_gsk /dkg_sum_poly horner_sum.
by apply: eq_bigr => cs _; rewrite horner_coef0 coef_Poly.
Qed.

Lemma dkg_size_sum_poly css t :
  all (fun cs => size cs <= t)%N css -> (size (dkg_sum_poly css) <= t)%N.
Proof.
move/allP => szs; rewrite /dkg_sum_poly big_seq.
elim/big_ind: _ => [|a b sa sb|cs csin]; first by rewrite size_poly0.
  by apply: leq_trans (size_add _ _) _; rewrite geq_max sa sb.
by apply: leq_trans (size_Poly _) (szs _ csin).
Qed.

Definition dkg_recover_gen (prs : seq (F * G1)) : option G1 :=
  let ids := unzip1 prs in
  if uniq ids && (0 \notin ids)
  then Some (\sum_(p <- prs) dkg_lag0 ids p.1 *: p.2) else None.

Lemma dkg_recoverE (prs : seq (F * G1)) :
  (1 < size prs)%N -> dkg_recover prs = dkg_recover_gen prs.
Proof. by case: prs => [|p [|q r]]. Qed.

Lemma dkg_lag0_single (i : F) : dkg_lag0 [:: i] i = 1.
Proof. by rewrite /dkg_lag0 big_cons eqxx /= big_nil. Qed.

(* the weighted sum of the signature shares of the ids is the group signature *)
Lemma dkg_shares_interpolate css ids m :
  uniq ids -> 0 \notin ids -> all (fun cs => size cs <= size ids)%N css ->
  \sum_(p <- dkg_sig_shares H css ids m) dkg_lag0 ids p.1 *: p.2 = dkg_sign H (dkg_gsk css) m.
Proof.
move=> uids nz szs; rewrite /dkg_sig_shares big_map /= /dkg_sign.
under eq_bigr do rewrite scalerA dkg_sk_horner.
rewrite -scaler_suml dkg_lagrange_at0 ?dkg_gsk_horner //.
exact: dkg_size_sum_poly.
Qed.

Lemma dkg_unzip1_shares css ids m : unzip1 (dkg_sig_shares H css ids m) = ids.
Proof. by rewrite /dkg_sig_shares /unzip1 -map_comp map_id_in. Qed.

(* any t distinct non-zero ids recover the group signature (t = bound on the number of
   coefficients of every party's polynomial) *)
Lemma dkg_recover_any_t_subset css ids m :
  (0 < size ids)%N -> uniq ids -> 0 \notin ids ->
  all (fun cs => size cs <= size ids)%N css ->
  dkg_recover (dkg_sig_shares H css ids m) = Some (dkg_sign H (dkg_gsk css) m).
Proof.
move=> pos uids nz szs.
have gen : dkg_recover_gen (dkg_sig_shares H css ids m) = Some (dkg_sign H (dkg_gsk css) m).
  by rewrite /dkg_recover_gen dkg_unzip1_shares uids nz /= dkg_shares_interpolate.
case: ids pos uids nz szs gen => [//|i [|j r]] _ uids nz szs gen; last by rewrite dkg_recoverE.
move: gen; rewrite /dkg_recover_gen dkg_unzip1_shares uids nz /=.
by rewrite big_seq1 /= dkg_lag0_single scale1r.
Qed.

Lemma dkg_recovered_verifies css ids m sig :
  (0 < size ids)%N -> uniq ids -> 0 \notin ids ->
  all (fun cs => size cs <= size ids)%N css ->
  dkg_recover (dkg_sig_shares H css ids m) = Some sig ->
  sig = dkg_sign H (dkg_gsk css) m /\
  dkg_verify g2 H e (dkg_gpk [seq dkg_mpk g2 cs | cs <- css]) m sig.
Proof.
move=> pos uids nz szs; rewrite dkg_recover_any_t_subset // => -[<-]; split=> //.
by rewrite dkg_gpk_mpks; apply: dkg_sign_verifies.
Qed.

Lemma dkg_lag0_perm ids ids' i : perm_eq ids ids' -> dkg_lag0 ids i = dkg_lag0 ids' i.
Proof. by move=> pe; rewrite /dkg_lag0 (perm_big _ pe). Qed.

Lemma dkg_recover_gen_perm (prs prs' : seq (F * G1)) :
  perm_eq prs prs' -> dkg_recover_gen prs = dkg_recover_gen prs'.
Proof.
move=> pe; have pe1 : perm_eq (unzip1 prs) (unzip1 prs') by apply: perm_map.
rewrite /dkg_recover_gen (perm_uniq pe1) (perm_mem pe1) (perm_big _ pe) /=.
by under eq_bigr do rewrite (dkg_lag0_perm _ pe1).
Qed.

Lemma dkg_recover_order_independent (prs prs' : seq (F * G1)) :
  perm_eq prs prs' -> dkg_recover prs = dkg_recover prs'.
Proof.
move=> pe; have szE := perm_size pe.
case: (ltnP 1 (size prs)) => sz.
  by rewrite !dkg_recoverE -?szE //; apply: dkg_recover_gen_perm.
by rewrite (perm_small_eq _ pe) // -szE.
Qed.

(* client threshold keys: one polynomial whose constant coefficient is the original key *)
Lemma dkg_reconstruct_verifies sk cs ids m :
  (0 < size ids)%N -> uniq ids -> 0 \notin ids -> (size (sk :: cs) <= size ids)%N ->
  let sigs := [seq (i, dkg_sign H (dkg_share (sk :: cs) i) m) | i <- ids] in
  dkg_recover sigs = Some (dkg_sign H sk m) /\
  dkg_verify g2 H e (dkg_pub g2 sk) m (dkg_sign H sk m).
Proof.
move=> pos uids nz sz /=; split; last exact: dkg_sign_verifies.
have := @dkg_recover_any_t_subset [:: sk :: cs] ids m pos uids nz.
rewrite /= sz /dkg_gsk big_seq1 /= => <- //.
congr dkg_recover; apply: eq_map => i.
by rewrite /dkg_sk big_seq1.
Qed.

(* ids 1..n of BLS0GenerateThresholdKeyShares are distinct and non-zero when no k in 1..n is
   zero in F (the field has characteristic 0 or larger than n) *)
Lemma dkg_nat_ids_ok n :
  (forall k, (0 < k <= n)%N -> k%:R != 0 :> F) ->
  let ids := [seq k%:R : F | k <- iota 1 n] in uniq ids /\ 0 \notin ids.
Proof.
move=> nzk /=; split.
  rewrite map_inj_in_uniq ?iota_uniq // => a b.
  rewrite !mem_iota !add1n !ltnS.
  wlog: a b / (a <= b)%N => [hw|ab] ain bin eqab.
    case/orP: (leq_total a b) => ab; first exact: hw.
    by apply/esym; apply: hw.
  apply/eqP; rewrite eqn_leq ab /= leqNgt; apply/negP => ltab.
  have: (b - a)%:R == 0 :> F by rewrite natrB // eqab subrr.
  apply/negP; apply: nzk; rewrite subn_gt0 ltab /=.
  by case/andP: bin => _ bn; apply: leq_trans (leq_subr _ _) bn.
apply/negP => /mapP[k]; rewrite mem_iota add1n ltnS => kin /esym /eqP.
by apply/negP; apply: nzk.
Qed.

(* split keys: the sum of the split signatures is the signature of the primary key *)
Lemma dkg_split_sum sk (ks : seq F) : \sum_(k <- dkg_split sk ks) k = sk.
Proof. by rewrite /dkg_split -cats1 big_cat big_seq1 /= addrC subrK. Qed.

Lemma dkg_split_reconstruct_verifies sk (ks : seq F) m :
  let sig := dkg_agg_sigs [seq dkg_sign H k m | k <- dkg_split sk ks] in
  sig = dkg_sign H sk m /\ dkg_verify g2 H e (dkg_pub g2 sk) m sig.
Proof.
have -> : dkg_agg_sigs [seq dkg_sign H k m | k <- dkg_split sk ks] = dkg_sign H sk m.
  by rewrite /dkg_agg_sigs big_map /dkg_sign -scaler_suml dkg_split_sum.
by split=> //; apply: dkg_sign_verifies.
Qed.

End Main.
