(* Types of the generated merger table (Gen/EventMergers.v, translator harness/translators/eventmergers; property C20). *)
From Coq Require Export List String.
Export ListNotations.

Inductive em_kind :=
  | EmOverwrite   (* withUniqueEventOverwrite: of the events with one index only the last survives *)
  | EmMerge       (* withEventMerge f: events with one index are folded into the first one *)
  | EmKeep.       (* no middleware *)
