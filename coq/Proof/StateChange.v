(* Proofs about synced block state changes (property C28). *)
From ZC Require Import Model.StateChange.

Section SCProofs.
  Variables (node hash bhash : Type).
  Variable heqb : hash -> hash -> bool.
  Variable bheqb : bhash -> bhash -> bool.
  Variable H : node -> hash.
  Variable children : node -> list hash.
  Hypothesis heqb_spec : forall a b, heqb a b = true <-> a = b.
  Hypothesis bheqb_spec : forall a b, bheqb a b = true <-> a = b.
  Hypothesis H_inj : forall a b, H a = H b -> a = b.

  Notation get := (sc_get node hash heqb H).
  Notation has := (sc_has node hash heqb H).
  Notation mem := (sc_mem hash heqb).
  Notation step := (sc_step node hash heqb H children).
  Notation iter := (sc_iter node hash heqb H children).
  Notation reach := (sc_reach node hash heqb H children).
  Notation reach_d := (sc_reach_d node hash heqb H children).
  Notation complete := (sc_complete node hash heqb H children).
  Notation valid := (sc_valid node hash heqb H children).
  Notation apply := (sc_apply node hash bhash heqb bheqb).
  Notation sync := (sc_sync node hash bhash heqb bheqb H children).

  Lemma heqb_refl a : heqb a a = true.
  Proof. apply heqb_spec. reflexivity. Qed.

  Lemma sc_get_some db h n : get db h = Some n -> H n = h /\ In n db.
  Proof.
    induction db as [|x db IH]; cbn; [discriminate|].
    destruct (heqb (H x) h) eqn:E.
    - intros Hx. inversion Hx. subst. apply heqb_spec in E. auto.
    - intros Hx. destruct (IH Hx). auto.
  Qed.

  Lemma sc_get_in db n : In n db -> get db (H n) = Some n.
  Proof.
    induction db as [|x db IH]; intros Hin; [destruct Hin|]. cbn.
    destruct (heqb (H x) (H n)) eqn:E.
    - apply heqb_spec in E. apply H_inj in E. subst. reflexivity.
    - destruct Hin as [->|Hin]; [rewrite heqb_refl in E; discriminate|auto].
  Qed.

  Lemma sc_get_app a b h : get (a ++ b) h = match get a h with Some n => Some n | None => get b h end.
  Proof.
    induction a as [|x a IH]; cbn; [reflexivity|]. destruct (heqb (H x) h); [reflexivity|exact IH].
  Qed.

  Lemma sc_mem_in h l : mem h l = true <-> In h l.
  Proof.
    unfold sc_mem. rewrite existsb_exists. split.
    - intros (x & Hx & E). apply heqb_spec in E. subst. exact Hx.
    - intros Hin. exists h. split; [exact Hin|apply heqb_refl].
  Qed.

  Lemma sc_nodupb_sound l : sc_nodupb hash heqb l = true -> NoDup l.
  Proof.
    induction l as [|h l IH]; intros Hb; [constructor|]. cbn in Hb. apply andb_prop in Hb. destruct Hb as [H1 H2].
    constructor; [|auto]. intros Hin. apply sc_mem_in in Hin. rewrite Hin in H1. discriminate.
  Qed.

  Lemma sc_nodupb_complete l : NoDup l -> sc_nodupb hash heqb l = true.
  Proof.
    induction 1 as [|h l Hn Hd IH]; [reflexivity|]. cbn. rewrite IH, andb_true_r.
    destruct (mem h l) eqn:E; [|reflexivity]. apply sc_mem_in in E. contradiction.
  Qed.

  (* ---- the reachable set computed level by level ---- *)

  Lemma sc_step_incl db S h : In h S -> In h (step db S).
  Proof. intros Hin. unfold sc_step. apply in_or_app. left. exact Hin. Qed.

  Lemma sc_iter_step k : forall db S, iter k db (step db S) = step db (iter k db S).
  Proof. induction k as [|k IH]; intros db S; [reflexivity|]. cbn [sc_iter]. rewrite IH. reflexivity. Qed.

  Lemma sc_iter_incl k : forall db S h, In h S -> In h (iter k db S).
  Proof.
    induction k as [|k IH]; intros db S h Hin; [exact Hin|]. cbn [sc_iter]. apply IH. apply sc_step_incl. exact Hin.
  Qed.

  Lemma sc_iter_mono k k' db S h : (k <= k')%nat -> In h (iter k db S) -> In h (iter k' db S).
  Proof.
    intros Hle. induction Hle as [|k' Hle IH]; [auto|]. intros Hin. cbn [sc_iter]. rewrite sc_iter_step.
    apply sc_step_incl. auto.
  Qed.

  Lemma sc_step_child db S p h : In p db -> In (H p) S -> In h (children p) -> has db h = true -> In h (step db S).
  Proof.
    intros Hp HS Hc Hh. unfold sc_step. apply in_or_app. right. apply in_flat_map. exists p. split; [exact Hp|].
    destruct (mem (H p) S) eqn:E; [|apply sc_mem_in in HS; congruence].
    apply filter_In. auto.
  Qed.

  (* completeness: what is reachable within d levels is in the d-th iterate *)
  Lemma sc_iter_complete db root d n : reach_d db root d n -> In (H n) (iter d db [root]).
  Proof.
    induction 1 as [d n Hg|d p h n Hp IH Hc Hg].
    - apply sc_get_some in Hg. destruct Hg as [-> _]. apply sc_iter_incl. left. reflexivity.
    - cbn [sc_iter]. rewrite sc_iter_step. destruct (sc_get_some _ _ _ Hg) as [Hn _]. subst h.
      assert (Hpd : exists hp, get db hp = Some p).
      { inversion Hp; subst; eauto. }
      destruct Hpd as [hp Hgp]. destruct (sc_get_some _ _ _ Hgp) as [_ Hin].
      eapply sc_step_child; eauto. unfold sc_has. rewrite Hg. reflexivity.
  Qed.

  (* soundness: every hash of an iterate belongs to a reachable node *)
  Lemma sc_iter_sound k : forall db root S,
    (forall h, In h S -> exists n, reach db root n /\ H n = h) ->
    forall h, In h (iter k db S) -> exists n, reach db root n /\ H n = h.
  Proof.
    induction k as [|k IH]; intros db root S HS h Hin; [auto|]. cbn [sc_iter] in Hin.
    eapply IH; [|exact Hin]. intros h' Hin'. unfold sc_step in Hin'. apply in_app_or in Hin'.
    destruct Hin' as [Hs|Hf]; [auto|].
    apply in_flat_map in Hf. destruct Hf as (p & Hp & Hc).
    destruct (mem (H p) S) eqn:E; [|destruct Hc]. apply sc_mem_in in E.
    apply filter_In in Hc. destruct Hc as [Hc Hh]. unfold sc_has in Hh.
    destruct (get db h') as [n|] eqn:Hg; [|discriminate].
    destruct (HS _ E) as (p' & Hr & Hpe). apply H_inj in Hpe. subst p'.
    exists n. split; [eapply sc_reach_child; eauto|]. apply sc_get_some in Hg. tauto.
  Qed.

  Lemma sc_reachable_sound db root h : In h (sc_reachable node hash heqb H children db root) ->
    exists n, reach db root n /\ H n = h.
  Proof.
    unfold sc_reachable, sc_has. destruct (get db root) as [r|] eqn:Hg; [|intros []].
    apply sc_iter_sound. intros h' [<-|[]]. exists r. split; [apply sc_reach_root; exact Hg|]. apply sc_get_some in Hg. tauto.
  Qed.

  (* ---- a state is determined by its root hash ---- *)

  Lemma sc_reach_transfer db1 db2 root : complete db2 root ->
    forall n, reach db1 root n -> reach db2 root n.
  Proof.
    intros [[r Hr] Hc] n Hn. induction Hn as [n Hg|p h n Hp IH Hin Hg].
    - apply sc_get_some in Hg. destruct Hg as [Hh _]. destruct (sc_get_some _ _ _ Hr) as [Hr' _].
      assert (n = r) by (apply H_inj; congruence). subst. apply sc_reach_root. exact Hr.
    - destruct (Hc p IH h Hin) as [n' Hg']. destruct (sc_get_some _ _ _ Hg) as [Hh _].
      destruct (sc_get_some _ _ _ Hg') as [Hh' _]. assert (n = n') by (apply H_inj; congruence). subst.
      eapply sc_reach_child; eauto.
  Qed.

  Lemma sc_reach_app_l a b root n : reach a root n -> reach (a ++ b) root n.
  Proof.
    induction 1 as [n Hg|p h n Hp IH Hin Hg].
    - apply sc_reach_root. rewrite sc_get_app, Hg. reflexivity.
    - eapply sc_reach_child; eauto. rewrite sc_get_app, Hg. reflexivity.
  Qed.

  (* ---- ApplyBlockStateChange ---- *)

  (* acceptance implies every check *)
  Lemma sc_sync_ok_inv local b cs db' r : sync local b cs = ScOk db' r ->
    sb_hash b = sc_blk cs /\
    sb_state b = sc_root cs /\
    length (sc_nodes cs) = sb_count b /\
    valid (sc_root cs) (sc_nodes cs) = true /\
    db' = sc_nodes cs ++ local /\ r = sb_state b.
  Proof.
    unfold sc_sync, sc_apply. destruct (valid _ _) eqn:Hv; [|discriminate].
    destruct (bheqb _ _) eqn:E1; cbn [negb]; [|discriminate].
    destruct (heqb (sb_state b) _) eqn:E2; cbn [negb]; [|discriminate].
    destruct (Nat.eqb _ _) eqn:E3; cbn [negb]; [|discriminate].
    intros Hok. inversion Hok. subst. apply bheqb_spec in E1. apply heqb_spec in E2. apply Nat.eqb_eq in E3.
    repeat split; auto.
  Qed.

  (* the four tamperings that are rejected before anything is touched *)
  Lemma sc_reject_block_hash local b cs computed :
    sb_hash b <> sc_blk cs -> apply local b cs computed = ScErr EBlockHash.
  Proof.
    intros Hne. unfold sc_apply. destruct (bheqb _ _) eqn:E; [apply bheqb_spec in E; contradiction|reflexivity].
  Qed.

  Lemma sc_reject_state_hash local b cs computed :
    sb_hash b = sc_blk cs ->
    sb_state b <> sc_root cs -> apply local b cs computed = ScErr EStateHash.
  Proof.
    intros He Hne. unfold sc_apply. rewrite (proj2 (bheqb_spec _ _) He). cbn [negb].
    destruct (heqb _ _) eqn:E; [apply heqb_spec in E; contradiction|reflexivity].
  Qed.

  Lemma sc_reject_count local b cs :
    sb_hash b = sc_blk cs ->
    sb_state b = sc_root cs ->
    length (sc_nodes cs) <> sb_count b ->
    apply local b cs true = ScErr EMalformed.
  Proof.
    intros He Hs Hne. unfold sc_apply. rewrite (proj2 (bheqb_spec _ _) He), (proj2 (heqb_spec _ _) Hs). cbn [negb].
    destruct (Nat.eqb _ _) eqn:E; [apply Nat.eqb_eq in E; contradiction|reflexivity].
  Qed.

  Lemma sc_reject_invalid local b cs :
    valid (sc_root cs) (sc_nodes cs) = false -> sync local b cs = ScErr EInvalid.
  Proof. intros Hv. unfold sc_sync. rewrite Hv. reflexivity. Qed.

  (* whatever is rejected sets nothing: the result carries no state *)
  Lemma sc_sync_rejected_untouched local b cs :
    (forall db r, sync local b cs <> ScOk db r) ->
    sync local b cs = ScNoChange \/ exists e, sync local b cs = ScErr e.
  Proof. intros Hn. destruct (sync local b cs) eqn:E; eauto. exfalso. eapply Hn. reflexivity. Qed.

  (* every node of an accepted change set is reachable from the declared root *)
  Lemma sc_valid_reach root nodes : valid root nodes = true ->
    forall n, In n nodes -> reach nodes root n.
  Proof.
    unfold sc_valid. intros Hv n Hin. apply andb_prop in Hv. destruct Hv as [_ Hall].
    rewrite forallb_forall in Hall. specialize (Hall n Hin). apply sc_mem_in in Hall.
    apply sc_reachable_sound in Hall. destruct Hall as (n' & Hr & He). apply H_inj in He. subst. exact Hr.
  Qed.

  (* integrity: an accepted change set contains only nodes of the state the block declares,
     and whatever can be read from the resulting state is a node of that state *)
  Lemma sc_accepted_integrity local b cs db' r dbH :
    sync local b cs = ScOk db' r -> complete dbH (sb_state b) ->
    r = sb_state b /\
    (forall n, In n (sc_nodes cs) -> reach dbH r n) /\
    (forall n, reach db' r n -> reach dbH r n).
  Proof.
    intros Hok Hc. destruct (sc_sync_ok_inv _ _ _ _ _ Hok) as (_ & Hs & _ & Hv & Hdb & Hr). subst r db'.
    split; [reflexivity|]. split.
    - intros n Hin. apply (sc_reach_transfer (sc_nodes cs ++ local)); [exact Hc|].
      apply sc_reach_app_l. rewrite Hs. apply sc_valid_reach; assumption.
    - intros n Hn. eapply sc_reach_transfer; eauto.
  Qed.

  (* and if nothing it needs is missing, it is exactly that state *)
  Lemma sc_accepted_complete_equal local b cs db' r dbH :
    sync local b cs = ScOk db' r -> complete dbH (sb_state b) -> complete db' r ->
    forall n, reach db' r n <-> reach dbH r n.
  Proof.
    intros Hok Hc Hc' n. destruct (sc_accepted_integrity _ _ _ _ _ _ Hok Hc) as (Hr & _ & Hfwd). split; [apply Hfwd|].
    intros Hn. eapply sc_reach_transfer; eauto.
  Qed.

  (* honest change set: the new nodes of the executed block (not empty, no node twice, every one
     reachable from the new root through new nodes) with the block's hash, root and count, is
     accepted and yields the executed state itself: new nodes layered over the previous db *)
  Lemma sc_honest_change_reproduces prev_db bh root new b :
    new <> [] -> NoDup (map H new) ->
    (forall n, In n new -> reach_d new root (length new) n) ->
    (exists r, In r new /\ H r = root) ->
    sb_hash b = bh -> sb_state b = root -> sb_count b = length new ->
    sync prev_db b (sc_new_change node hash bhash bh root new) = ScOk (new ++ prev_db) root.
  Proof.
    intros Hne Hnd Hreach (r & Hrin & Hr) Hbh Hbs Hbc. unfold sc_sync, sc_new_change. cbn [sc_root sc_nodes].
    assert (Hhas : has new root = true).
    { unfold sc_has. subst root. rewrite (sc_get_in new r Hrin). reflexivity. }
    assert (Hv : valid root new = true).
    { unfold sc_valid. destruct new as [|x xs] eqn:En; [contradiction|]. rewrite <- En in *.
      rewrite (sc_nodupb_complete _ Hnd), Hhas. cbn [andb]. apply forallb_forall. intros n Hin.
      apply sc_mem_in. unfold sc_reachable. rewrite Hhas. apply sc_iter_complete. apply Hreach. exact Hin. }
    rewrite Hv. unfold sc_apply. cbn [sc_blk sc_root sc_nodes].
    rewrite (proj2 (bheqb_spec _ _) Hbh), (proj2 (heqb_spec _ _) Hbs). cbn [negb].
    rewrite Hbc, Nat.eqb_refl. reflexivity.
  Qed.
  (* honest change sets of consecutive blocks, each synced over the result of the previous sync:
     all accepted, and the db is the executed one: the new nodes of every block layered over the
     previous db, latest first *)
  Definition sc_honest (bh : bhash) (root : hash) (new : sc_db node) (b : sc_block hash bhash) : Prop :=
    new <> [] /\ NoDup (map H new) /\
    (forall n, In n new -> reach_d new root (length new) n) /\
    (exists r, In r new /\ H r = root) /\
    sb_hash b = bh /\ sb_state b = root /\ sb_count b = length new.

  Lemma sc_honest_chain l : forall prev_db,
    Forall (fun x => sc_honest (fst (fst x)) (snd (fst x)) (snd (snd x)) (fst (snd x))) l ->
    sc_sync_chain node hash bhash heqb bheqb H children prev_db
      (map (fun x => (fst (snd x), sc_new_change node hash bhash (fst (fst x)) (snd (fst x)) (snd (snd x)))) l)
    = Some (fold_left (fun db x => snd (snd x) ++ db) l prev_db).
  Proof.
    induction l as [|[[bh root] [b new]] l IH]; intros prev_db Hall; [reflexivity|].
    inversion Hall as [|? ? Hh Ht]; subst. cbn [fst snd] in Hh.
    destruct Hh as (H1 & H2 & H3 & H4 & H5 & H6 & H7).
    cbn [map sc_sync_chain fst snd fold_left].
    rewrite (sc_honest_change_reproduces prev_db bh root new b H1 H2 H3 H4 H5 H6 H7). apply IH. exact Ht.
  Qed.

  Lemma sc_reach_d_reach db root d n : reach_d db root d n -> reach db root n.
  Proof.
    induction 1 as [d n Hg|d p h n Hp IH Hc Hg]; [apply sc_reach_root; exact Hg|].
    apply (sc_reach_child node hash heqb H children db root p h n IH Hc Hg).
  Qed.

  (* ---- the repaired apply ---- *)
  Notation sync_fix := (sc_sync_fix node hash bhash heqb bheqb H children).
  Notation closed := (sc_closed node hash heqb H children).

  Lemma sc_get_app_r a b h m : get b h = Some m -> exists m', get (a ++ b) h = Some m'.
  Proof. intros Hg. rewrite sc_get_app. destruct (get a h); eauto. Qed.

  Lemma sc_sync_fix_inv local b cs db' r : sync_fix local b cs = ScOk db' r ->
    sync local b cs = ScOk db' r /\
    sc_refs_ok node hash heqb H children db' (sc_nodes cs) = true.
  Proof.
    unfold sc_sync_fix, sc_sync, sc_apply_fix. destruct (valid _ _); [|discriminate].
    destruct (apply local b cs true) as [db r0| |e] eqn:E; try discriminate.
    destruct (sc_refs_ok _ _ _ _ _ db _) eqn:Er; [|discriminate]. intros Hok. inversion Hok. subst. auto.
  Qed.

  (* with the repair, what is accepted is a complete state: every key of it can be read *)
  Lemma sc_fix_accepted_complete local b cs db' r : sync_fix local b cs = ScOk db' r -> closed local ->
    complete db' r.
  Proof.
    intros Hok Hcl. destruct (sc_sync_fix_inv _ _ _ _ _ Hok) as [Hs Hrefs].
    destruct (sc_sync_ok_inv _ _ _ _ _ Hs) as (_ & Hst & _ & Hv & Hdb & Hr). subst db' r.
    assert (Hroot : exists n, get (sc_nodes cs ++ local) (sb_state b) = Some n).
    { unfold sc_valid in Hv. apply andb_prop in Hv. destruct Hv as [Hv _]. apply andb_prop in Hv. destruct Hv as [_ Hh].
      unfold sc_has in Hh. rewrite Hst. destruct (get (sc_nodes cs) (sc_root cs)) as [n|] eqn:E; [|discriminate].
      exists n. rewrite sc_get_app, E. reflexivity. }
    split; [exact Hroot|]. intros p Hp h Hin.
    assert (Hpin : In p (sc_nodes cs ++ local)).
    { inversion Hp as [n Hg|q h' n Hq Hi Hg]; subst; apply sc_get_some in Hg; tauto. }
    apply in_app_or in Hpin. destruct Hpin as [Hn|Hl].
    - unfold sc_refs_ok in Hrefs. rewrite forallb_forall in Hrefs. specialize (Hrefs p Hn).
      rewrite forallb_forall in Hrefs. specialize (Hrefs h Hin). unfold sc_has in Hrefs.
      destruct (get (sc_nodes cs ++ local) h) as [m|]; [eauto|discriminate].
    - destruct (Hcl p Hl h Hin) as [m Hm]. eapply sc_get_app_r. exact Hm.
  Qed.

  (* and honest change sets still pass: the executed state is complete, so every reference of a
     new node is a new node or a node of the previous db *)
  Lemma sc_fix_honest prev_db bh root new b :
    new <> [] -> NoDup (map H new) ->
    (forall n, In n new -> reach_d new root (length new) n) ->
    (exists r, In r new /\ H r = root) ->
    sb_hash b = bh -> sb_state b = root -> sb_count b = length new ->
    complete (new ++ prev_db) root ->
    sync_fix prev_db b (sc_new_change node hash bhash bh root new) = ScOk (new ++ prev_db) root.
  Proof.
    intros Hne Hnd Hreach Hr Hbh Hbs Hbc Hcomp.
    pose proof (sc_honest_change_reproduces prev_db bh root new b Hne Hnd Hreach Hr Hbh Hbs Hbc) as Hs.
    unfold sc_sync_fix, sc_sync in *. destruct (valid _ _); [|discriminate]. unfold sc_apply_fix. rewrite Hs.
    cbn [sc_new_change sc_nodes].
    assert (Hrefs : sc_refs_ok node hash heqb H children (new ++ prev_db) new = true).
    { unfold sc_refs_ok. apply forallb_forall. intros n Hn. apply forallb_forall. intros h Hin.
      destruct Hcomp as [_ Hc].
      assert (Hrn : reach (new ++ prev_db) root n).
      { apply sc_reach_app_l. eapply sc_reach_d_reach. apply Hreach. exact Hn. }
      destruct (Hc n Hrn h Hin) as [m Hm]. unfold sc_has. rewrite Hm. reflexivity. }
    rewrite Hrefs. reflexivity.
  Qed.
End SCProofs.

(* ---------- the full statement fails for the code as it is ---------- *)

(* a concrete store: node = its own hash; 1 -> {2,3} is the previous state, 4 -> {2,5} the new one *)
Definition scx_children (n : Z) : list Z :=
  if Z.eqb n 1 then [2; 3]%Z else if Z.eqb n 4 then [2; 5]%Z else [].

Lemma scx_refutes :
  let sync := sc_sync Z Z Z Z.eqb Z.eqb (fun n => n) scx_children in
  let prev := [1; 2; 3]%Z in
  let blk := {| sb_hash := 77%Z; sb_state := 4%Z; sb_count := 2; sb_prev_state := Some 1%Z |} in
  let cs := {| sc_blk := 77%Z; sc_root := 4%Z; sc_nodes := [4; 2]%Z |} in   (* 5 withheld, padded with the old node 2 *)
  sync prev blk cs = ScOk ([4; 2] ++ prev)%Z 4%Z /\
  sc_complete Z Z Z.eqb (fun n => n) scx_children [4; 2; 5]%Z 4%Z /\
  ~ sc_complete Z Z Z.eqb (fun n => n) scx_children ([4; 2] ++ prev)%Z 4%Z.
Proof.
  cbv zeta. split; [vm_compute; reflexivity|]. split.
  - split; [exists 4%Z; reflexivity|]. intros p Hp h Hin.
    assert (Hpin : In p [4; 2; 5]%Z).
    { inversion Hp as [n Hg|q h' n Hq Hi Hg]; subst;
        apply (sc_get_some Z Z Z.eqb (fun n => n) Z.eqb_eq) in Hg; tauto. }
    destruct Hpin as [<-|[<-|[<-|[]]]]; cbn in Hin.
    + destruct Hin as [<-|[<-|[]]]; eexists; vm_compute; reflexivity.
    + destruct Hin.
    + destruct Hin.
  - intros [_ Hc].
    assert (Hr : sc_reach Z Z Z.eqb (fun n => n) scx_children ([4; 2] ++ [1; 2; 3])%Z 4%Z 4%Z)
      by (apply sc_reach_root; vm_compute; reflexivity).
    destruct (Hc 4%Z Hr 5%Z ltac:(cbn; auto)) as [m Hm]. vm_compute in Hm. discriminate.
Qed.


Lemma sc_full_refuted :
  ~ (forall (node hash bhash : Type) (heqb : hash -> hash -> bool) (bheqb : bhash -> bhash -> bool)
            (H : node -> hash) (children : node -> list hash),
       (forall a b, heqb a b = true <-> a = b) -> (forall a b, bheqb a b = true <-> a = b) ->
       (forall a b, H a = H b -> a = b) ->
       forall local b cs db' r,
         sc_sync node hash bhash heqb bheqb H children local b cs = ScOk db' r ->
         sc_closed node hash heqb H children local ->
         (exists dbH, sc_complete node hash heqb H children dbH (sb_state b)) ->
         sc_complete node hash heqb H children db' r).
Proof.
  intros Hfull. destruct scx_refutes as (Hs & Hc & Hn). apply Hn.
  apply (Hfull Z Z Z Z.eqb Z.eqb (fun n => n) scx_children Z.eqb_eq Z.eqb_eq (fun a b E => E) _ _ _ _ _ Hs).
  - intros n Hin h Hh. destruct Hin as [<-|[<-|[<-|[]]]]; cbn in Hh.
    + destruct Hh as [<-|[<-|[]]]; eexists; vm_compute; reflexivity.
    + destruct Hh.
    + destruct Hh.
  - exists [4; 2; 5]%Z. exact Hc.
Qed.
