// Engine for the zcnsc bridge contract: -prop C19 (burn) and -prop C18 (mint) on the real
// contract over a real StateContext; executable oracles + cases for Model/ZcnBurn.v, Model/ZcnMint.v.
package main

import (
	"fmt"
	"os"

	"0chain.net/chaincore/smartcontractinterface"
	"0chain.net/smartcontract/zcnsc"
	"verifharness/sc"
	"verifharness/vh"
)

var contract smartcontractinterface.SmartContractInterface

func main() {
	o := vh.ParseFlags()
	sc.Init()
	contract = zcnsc.NewZCNSmartContract()
	switch o.Prop {
	case "C19":
		mainBurn(o)
	case "C18":
		mainMint(o)
	default:
		fmt.Fprintln(os.Stderr, "unknown -prop", o.Prop)
		os.Exit(2)
	}
}
