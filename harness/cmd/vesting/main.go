// Engine for C16: runs add / trigger / unlock / stop / delete histories on the real vestingsc
// contract over a real StateContext (every request in a transaction trie merged only on
// success, as chain.updateState does), checks the property on the observed pool states and
// transfers (oracle) and emits cases for the Coq model (Model/Vesting.v).
package main

import (
	"encoding/json"
	"fmt"
	"math/big"
	"time"

	"0chain.net/chaincore/smartcontractinterface"
	"0chain.net/core/config"
	"0chain.net/core/encryption"
	"0chain.net/smartcontract/vestingsc"
	"github.com/0chain/common/core/util"
	"verifharness/ct"
	"verifharness/sc"
	"verifharness/vh"
)

type conf struct {
	MinLock  uint64 `json:"min_lock"` // coins
	MinDur   int64  `json:"min_dur"`  // ns
	MaxDur   int64  `json:"max_dur"`
	MaxDests int    `json:"max_dests"`
}

type destReq struct {
	ID     int    `json:"id"`
	Amount uint64 `json:"amount"`
}

type op struct {
	K     string    `json:"k"` // add|trigger|unlock|stop|delete
	C     int       `json:"c"` // sender (0 = the usual owner)
	T     int64     `json:"t"`
	V     uint64    `json:"v,omitempty"`
	Bal   *uint64   `json:"bal,omitempty"` // add: sender balance (nil = no leaf)
	Start int64     `json:"start,omitempty"`
	Dur   int64     `json:"dur,omitempty"` // ns
	Dests []destReq `json:"dests,omitempty"`
	D     int       `json:"d,omitempty"` // stop: destination
}

type hist struct {
	Conf conf   `json:"conf"`
	Ops  []op   `json:"ops"`
	Note string `json:"note,omitempty"`
}

type destState struct {
	ID     string `json:"id"`
	Amount uint64 `json:"amount"`
	Vested uint64 `json:"vested"`
	Last   int64  `json:"last"`
	Move   int64  `json:"move"`
}

type poolState struct {
	Pool struct {
		ID      string `json:"id"`
		Balance uint64 `json:"balance"`
	} `json:"pool"`
	Start  int64       `json:"start_time"`
	Expire int64       `json:"expire_at"`
	Dests  []destState `json:"destinations"`
	Owner  string      `json:"client_id"`
}

var (
	contract smartcontractinterface.SmartContractInterface
	scOwner  = encryption.Hash("verif vesting sc owner")
)

func cid(i int) string { return ct.ID("vesting client", i) }

func who(id string) string {
	if id == vestingsc.ADDRESS {
		return "vs_contract"
	}
	for i := 0; i < 10; i++ {
		if id == cid(i) {
			return fmt.Sprint(i)
		}
	}
	return "(-2)"
}

func readPool(m util.MerklePatriciaTrieI, key string) *poolState {
	if key == "" {
		return nil
	}
	ctx := sc.NewCtx(m, 1, nil)
	b, err := vestingsc.VerifContractsPoolJSON(key, ctx)
	if err != nil {
		if err == util.ErrValueNotPresent {
			return nil
		}
		panic(err)
	}
	var p poolState
	if err := json.Unmarshal(b, &p); err != nil {
		panic(err)
	}
	return &p
}

func bi(u uint64) *big.Int  { return new(big.Int).SetUint64(u) }
func bs(i int64) *big.Int   { return big.NewInt(i) }
func mul(a, b *big.Int) *big.Int { return new(big.Int).Mul(a, b) }

func clamp(p *poolState, now int64) int64 {
	if now > p.Expire {
		return p.Expire
	}
	if now < p.Start {
		return p.Start
	}
	return now
}

// roundsUp: float64(left) is above left (the conversion used by currency.MultFloat64)
func roundsUp(left uint64) bool {
	f := float64(left)
	return f >= 18446744073709551616.0 || uint64(f) > left
}

type result struct {
	outs  []string
	final string
	fails []string // every distinct violated statement of the history, in order of appearance
	kinds map[string]int
}

func (r *result) has(k string) bool {
	for _, f := range r.fails {
		if f == k {
			return true
		}
	}
	return false
}

const sigExpiry = "float64-rounding-of-remainder-at-expiry"
const sigSchedule = "ahead-of-schedule-by-float64-rounding"

func remainder(d destState) *big.Int {
	if d.Vested > d.Amount {
		return big.NewInt(0)
	}
	return bi(d.Amount - d.Vested)
}

func run(h hist) result {
	res := result{kinds: map[string]int{}}
	base := sc.NewMPT()
	v := config.SmartContractConfig
	p := "smart_contracts.vestingsc."
	v.Set(p+"min_lock", float64(h.Conf.MinLock)/1e10)
	v.Set(p+"min_duration", time.Duration(h.Conf.MinDur))
	v.Set(p+"max_duration", time.Duration(h.Conf.MaxDur))
	v.Set(p+"max_destinations", h.Conf.MaxDests)
	v.Set(p+"max_description_length", 20)
	v.Set(p+"owner_id", scOwner)
	setup := sc.NewCtx(base, 1, sc.Txn(encryption.Hash("setup"), scOwner, vestingsc.ADDRESS, 0, 0))
	if err := vestingsc.InitConfig(setup); err != nil {
		panic(err)
	}
	poolKey := ""
	rounded := false // a float64 rounding trigger has been seen on this pool
	// destinations are distinct clients in the property; a request listing the same id twice is run and
	// compared with the model (unlock/stop address the first entry only) but not judged
	judged := true
	for _, o := range h.Ops {
		seen := map[int]bool{}
		for _, d := range o.Dests {
			if seen[d.ID] {
				judged = false
			}
			seen[d.ID] = true
		}
	}
	if !judged {
		res.kinds["history-with-duplicate-destination-ids"]++
	}
	setFail := func(k string) {
		if judged && !res.has(k) {
			res.fails = append(res.fails, k)
		}
	}
	exec := func(m util.MerklePatriciaTrieI, i int, o op, key string) (error, [][3]string, []uint64) {
		txn := sc.Txn(encryption.Hash(fmt.Sprintf("vesting txn %d", i)), cid(o.C), vestingsc.ADDRESS, o.V, o.T)
		ctx := sc.NewCtx(m, int64(i+2), txn)
		var input []byte
		switch o.K {
		case "add":
			if o.Bal != nil {
				sc.SetBalance(ctx, cid(o.C), *o.Bal)
			}
			ds := make([]map[string]interface{}, len(o.Dests))
			for j, d := range o.Dests {
				ds[j] = map[string]interface{}{"id": cid(d.ID), "amount": d.Amount, "vested": 7, "last": 3, "move": 5}
			}
			input, _ = json.Marshal(map[string]interface{}{"description": "verif", "start_time": o.Start, "duration": o.Dur, "destinations": ds})
		case "stop":
			input, _ = json.Marshal(map[string]string{"pool_id": key, "destination": cid(o.D)})
		default:
			input, _ = json.Marshal(map[string]string{"pool_id": key})
		}
		_, err := contract.Execute(txn, o.K, input, ctx)
		var tr [][3]string
		var amts []uint64
		for _, t := range ctx.GetTransfers() {
			tr = append(tr, [3]string{t.ClientID, t.ToClientID, fmt.Sprint(uint64(t.Amount))})
			amts = append(amts, uint64(t.Amount))
		}
		return err, tr, amts
	}
	for i, o := range h.Ops {
		before := readPool(base, poolKey)
		tm := ct.Begin(base)
		key := poolKey
		if o.K == "add" {
			key = ""
		}
		err, tr, amts := exec(tm, i, o, key)
		if err != nil {
			res.outs = append(res.outs, "VsFail")
			res.kinds[o.K+"-refused"]++
			if before == nil || o.K == "add" {
				continue
			}
			// ---- what the owner / a destination must always be able to do ----
			tc := clamp(before, o.T)
			late := true // the request is not older than the last transfer to any destination
			trig := false
			for _, d := range before.Dests {
				if tc < d.Move {
					late = false
				}
				if d.Vested <= d.Amount && tc == before.Expire && roundsUp(d.Amount-d.Vested) {
					trig = true
				}
			}
			need := big.NewInt(0)
			broken := false
			for _, d := range before.Dests {
				need.Add(need, remainder(d))
				if d.Vested > d.Amount {
					broken = true
				}
			}
			viol := func(k string) {
				if trig || rounded {
					setFail(sigExpiry)
				} else {
					setFail(k)
				}
			}
			isOwner := cid(o.C) == before.Owner
			switch {
			case o.K == "delete" && isOwner && late:
				viol("owner-cannot-delete-pool")
			case o.K == "trigger" && isOwner && late && len(before.Dests) > 0 && before.Pool.Balance > 0:
				viol("owner-cannot-trigger-pool")
			case o.K == "unlock" && isOwner && (broken || bi(before.Pool.Balance).Cmp(need) > 0):
				viol("owner-cannot-withdraw-excess")
			case o.K == "unlock" && !isOwner && o.T >= before.Expire:
				for _, d := range before.Dests {
					if d.ID == cid(o.C) && d.Vested < d.Amount {
						viol("destination-cannot-receive-at-expiry")
						break
					}
				}
			}
			continue
		}
		ct.Commit(base, tm)
		if o.K == "add" {
			poolKey = vestingsc.VerifContractsPoolKey(encryption.Hash(fmt.Sprintf("vesting txn %d", i)))
			rounded = false
		}
		after := readPool(base, poolKey)
		trs := make([]string, len(tr))
		for j, t := range tr {
			trs[j] = fmt.Sprintf("(%s, %s, %s)", who(t[0]), who(t[1]), t[2])
		}
		res.outs = append(res.outs, fmt.Sprintf("(VsOk %s)", vh.List(trs)))
		res.kinds[o.K+"-ok"]++
		out := big.NewInt(0)
		for _, a := range amts {
			out.Add(out, bi(a))
		}
		switch o.K {
		case "add":
			if after == nil {
				setFail("add-left-no-pool")
				continue
			}
			want := big.NewInt(0)
			for _, d := range after.Dests {
				want.Add(want, bi(d.Amount))
				if d.Vested != 0 || d.Move != after.Start {
					setFail("new-pool-destination-not-at-start")
				}
			}
			if bi(after.Pool.Balance).Cmp(want) < 0 {
				setFail("pool-below-unvested-remainder")
			}
			if len(tr) != 1 || tr[0][0] != cid(o.C) || tr[0][1] != vestingsc.ADDRESS || amts[0] != o.V || after.Pool.Balance != o.V {
				setFail("add-does-not-lock-the-value")
			}
			continue
		case "delete":
			if after != nil {
				setFail("deleted-pool-still-stored")
			}
			if out.Cmp(bi(before.Pool.Balance)) != 0 {
				setFail("delete-does-not-pay-out-the-whole-pool")
			}
		}
		if before == nil {
			continue
		}
		tc := clamp(before, o.T)
		D := bs(before.Expire - before.Start)
		// per destination: compare before/after (destinations keep their order; stop removes some)
		var afterDests []destState
		if after != nil {
			afterDests = after.Dests
		}
		paid := map[string]*big.Int{}
		for j, t := range tr {
			if t[0] != vestingsc.ADDRESS {
				setFail("transfer-not-from-the-contract-wallet")
			}
			if paid[t[1]] == nil {
				paid[t[1]] = big.NewInt(0)
			}
			paid[t[1]].Add(paid[t[1]], bi(amts[j]))
		}
		k := 0
		vestedDelta := map[string]*big.Int{}
		for _, d := range before.Dests {
			var a *destState
			if k < len(afterDests) && afterDests[k].ID == d.ID && afterDests[k].Amount == d.Amount {
				a = &afterDests[k]
				k++
			}
			nv := d.Vested
			if a != nil {
				nv = a.Vested
			} else if o.K == "stop" && d.ID == cid(o.D) || o.K == "delete" {
				// removed: what it was paid in this request is its last vesting
				if pd := paid[d.ID]; pd != nil && o.K == "stop" {
					nv = d.Vested + pd.Uint64()
				}
			}
			if nv < d.Vested {
				setFail("vested-decreased")
				continue
			}
			delta := nv - d.Vested
			if a != nil && delta == 0 && a.Last != d.Last && d.Vested < d.Amount {
				res.kinds["zero-payment-recorded-on-a-destination-with-remainder"]++
			}
			if a != nil && delta > 0 && d.Last != d.Move {
				res.kinds["payment-after-an-earlier-zero-payment"]++
			}
			if vestedDelta[d.ID] == nil {
				vestedDelta[d.ID] = big.NewInt(0)
			}
			vestedDelta[d.ID].Add(vestedDelta[d.ID], bi(delta))
			if delta == 0 {
				continue
			}
			res.kinds["vested-moved"]++
			left := d.Amount - d.Vested
			ending := tc == before.Expire
			if d.Vested <= d.Amount && ending && roundsUp(left) {
				rounded = true
			}
			if nv > d.Amount {
				if d.Vested <= d.Amount && ending && roundsUp(left) {
					setFail(sigExpiry)
				} else {
					setFail("vested-exceeds-amount")
				}
				continue
			}
			// never ahead of the linear schedule: vested * (expire-start) <= amount * (now-start)
			if mul(bi(nv), D).Cmp(mul(bi(d.Amount), bs(tc-before.Start))) > 0 {
				// float64 product above the exact quotient by no more than its rounding error?
				pq := mul(bi(left), bs(tc-d.Move))
				f := bs(before.Expire - d.Move)
				exact := new(big.Int)
				if f.Sign() > 0 {
					exact.Div(pq, f)
				}
				slack := new(big.Int).Add(big.NewInt(1), new(big.Int).Rsh(bi(left), 51))
				// a float64 rounding step can lift the product over the next integer only when
				// left * 2^-52 reaches the granularity 1/full of the exact quotient
				reach := new(big.Int).Rsh(mul(bi(left), f), 50).Sign() > 0
				if f.Sign() > 0 && reach && new(big.Int).Sub(bi(delta), exact).Cmp(slack) <= 0 {
					setFail(sigSchedule)
				} else {
					setFail("ahead-of-schedule")
				}
			}
			if ending && nv == d.Amount {
				res.kinds["fully-vested-at-expiry"]++
			}
		}
		if o.K != "delete" {
			// transfers: destinations get exactly what was vested to them, the owner the rest
			for id, dv := range vestedDelta {
				pd := paid[id]
				if pd == nil {
					pd = big.NewInt(0)
				}
				if id == before.Owner && o.K == "unlock" && cid(o.C) == before.Owner {
					continue
				}
				if pd.Cmp(dv) != 0 {
					setFail("transfer-differs-from-vested-amount")
				}
			}
			for id := range paid {
				if vestedDelta[id] == nil && !(id == before.Owner && o.K == "unlock" && cid(o.C) == before.Owner) {
					setFail("transfer-to-a-stranger")
				}
			}
			if after == nil {
				setFail("pool-vanished")
				continue
			}
			if new(big.Int).Sub(bi(before.Pool.Balance), out).Cmp(bi(after.Pool.Balance)) != 0 {
				setFail("pool-balance-not-reduced-by-the-transfers")
			}
			need := big.NewInt(0)
			for _, d := range after.Dests {
				need.Add(need, remainder(d))
			}
			if bi(after.Pool.Balance).Cmp(need) < 0 {
				if rounded {
					setFail(sigExpiry)
				} else {
					setFail("pool-below-unvested-remainder")
				}
			}
			if o.K == "unlock" && cid(o.C) == before.Owner {
				res.kinds["owner-withdrew-excess"]++
				if bi(after.Pool.Balance).Cmp(need) != 0 {
					setFail("owner-withdrawal-is-not-the-excess")
				}
			}
		}
		// by expiry a destination can receive exactly its amount: probe one more unlock when a
		// remainder is left after a transfer at/after expiry
		if after != nil && tc == before.Expire && o.T >= before.Expire {
			for _, d := range after.Dests {
				if d.Vested >= d.Amount || d.ID == after.Owner {
					continue
				}
				c := -1
				for x := 0; x < 10; x++ {
					if cid(x) == d.ID {
						c = x
					}
				}
				if c < 0 || vestedDelta[d.ID] == nil || vestedDelta[d.ID].Sign() == 0 {
					continue
				}
				pm := ct.Begin(base)
				perr, _, _ := exec(pm, 100000+i, op{K: "unlock", C: c, T: o.T}, poolKey)
				pp := readPool(pm, poolKey)
				ok := perr == nil && pp != nil
				if ok {
					for _, x := range pp.Dests {
						if x.ID == d.ID && x.Vested != x.Amount {
							ok = false
						}
					}
				}
				res.kinds["expiry-second-unlock-probe"]++
				if !ok {
					if rounded || roundsUp(d.Amount-d.Vested) {
						setFail(sigExpiry)
					} else {
						setFail("not-exact-at-expiry")
					}
				}
			}
		}
	}
	fp := readPool(base, poolKey)
	if fp == nil {
		res.final = "None"
	} else {
		ds := make([]string, len(fp.Dests))
		for j, d := range fp.Dests {
			ds[j] = fmt.Sprintf("(%s, %d, %d, %s)", who(d.ID), d.Amount, d.Vested, vh.Z(d.Move))
		}
		res.final = fmt.Sprintf("(Some (%d, %s))", fp.Pool.Balance, vh.List(ds))
	}
	return res
}

func coqCase(h hist, r result) string {
	ops := make([]string, len(h.Ops))
	for i, o := range h.Ops {
		switch o.K {
		case "add":
			bal := "None"
			if o.Bal != nil {
				bal = fmt.Sprintf("(Some %d)", *o.Bal)
			}
			ds := make([]string, len(o.Dests))
			for j, d := range o.Dests {
				ds[j] = fmt.Sprintf("(%d, %d)", d.ID, d.Amount)
			}
			ops[i] = fmt.Sprintf("VsAdd %d %s %d %s %s %s %s", o.C, vh.Z(o.T), o.V, bal, vh.Z(o.Start), vh.Z(o.Dur), vh.List(ds))
		case "trigger":
			ops[i] = fmt.Sprintf("VsTrigger %d %s", o.C, vh.Z(o.T))
		case "unlock":
			ops[i] = fmt.Sprintf("VsUnlock %d %s", o.C, vh.Z(o.T))
		case "stop":
			ops[i] = fmt.Sprintf("VsStop %d %s %d", o.C, vh.Z(o.T), o.D)
		default:
			ops[i] = fmt.Sprintf("VsDelete %d %s", o.C, vh.Z(o.T))
		}
	}
	return fmt.Sprintf("{| vsc_conf := {| vc_min_lock := %d; vc_min_dur := %s; vc_max_dur := %s; vc_max_dests := %d |}; vsc_ops := %s; vsc_outs := %s; vsc_final := %s |}",
		h.Conf.MinLock, vh.Z(h.Conf.MinDur), vh.Z(h.Conf.MaxDur), h.Conf.MaxDests, vh.List(ops), vh.List(r.outs), r.final)
}

const sec = int64(time.Second)

func u64p(v uint64) *uint64 { return &v }

var bigAmounts = []uint64{1<<53 - 1, 1 << 53, 1<<53 + 1, 1<<53 + 2, 1<<53 + 3, 1<<53 + 5, 1<<54 + 2, 1<<54 + 6, 1<<60 + 1, 1<<60 + 129, 1<<62 + 512, 1<<62 + 513,
	4000000000000000000, 3999999999999999999, 1<<63 - 1, 1 << 63, 1<<63 + 1025}

func genHist(r *vh.Rand) hist {
	h := hist{Conf: conf{MinLock: uint64(r.Range(0, 5)) * 10, MinDur: int64(r.Range(1, 10)) * sec, MaxDests: r.Range(1, 4)}}
	h.Conf.MaxDur = h.Conf.MinDur + int64(r.Range(1, 100000))*sec
	big := r.Chance(1, 4)
	t0 := int64(r.Range(1000, 2000000000))
	add := op{K: "add", C: 0, T: t0}
	defect := -1 // most pools are created; 1 in 7 requests carries exactly one reason to be refused
	if r.Chance(1, 7) {
		defect = r.Intn(9)
	}
	nd := r.Range(1, h.Conf.MaxDests)
	if defect == 0 {
		nd = []int{0, h.Conf.MaxDests + 1}[r.Intn(2)]
	}
	var want uint64
	for j := 0; j < nd; j++ {
		a := uint64(r.Range(0, 1000))
		if r.Chance(1, 3) {
			a = uint64(r.Range(0, 1000000)) * 1000003
		}
		if big {
			a = r.PickU64(bigAmounts)
			if r.Chance(1, 3) {
				a = 1<<53 + uint64(r.Intn(64))
			}
		}
		if want+a < want && defect != 1 {
			a = 1<<64 - 1 - want // keep the sum within uint64
		}
		id := 1 + j
		if r.Chance(1, 12) {
			id = 1 + r.Intn(3) // duplicate ids
		}
		add.Dests = append(add.Dests, destReq{id, a})
		if want+a < want {
			want = 1<<64 - 1
		} else {
			want += a
		}
	}
	add.V = want
	if r.Chance(1, 3) && want < 1<<64-200 {
		add.V = want + uint64(r.Range(1, 100))
	}
	if add.V < h.Conf.MinLock {
		add.V = h.Conf.MinLock + uint64(r.Range(0, 2))
	}
	if add.V == 0 {
		add.V = 1
	}
	switch defect {
	case 2:
		add.V = want - 1
	case 3:
		add.V = uint64(r.Range(0, 3))
	}
	add.Bal = u64p(add.V)
	if add.V < 1<<64-6 {
		add.Bal = u64p(add.V + uint64(r.Range(0, 5)))
	}
	switch defect {
	case 4:
		add.Bal = u64p(add.V - 1)
	case 5:
		add.Bal = nil
	}
	durS := int64(r.Range(int(h.Conf.MinDur/sec), int(h.Conf.MaxDur/sec)))
	if r.Chance(1, 3) {
		durS = h.Conf.MinDur/sec + int64(r.Range(0, 12))
		if durS > h.Conf.MaxDur/sec {
			durS = h.Conf.MaxDur / sec
		}
	}
	add.Dur = durS * sec
	if durS*sec < h.Conf.MaxDur && r.Bool() {
		add.Dur += int64(r.Range(0, 999999999)) // sub-second part is dropped by toSeconds
		if add.Dur > h.Conf.MaxDur {
			add.Dur = h.Conf.MaxDur
		}
	}
	if defect == 6 {
		add.Dur = r.Pick64([]int64{h.Conf.MinDur - 1, h.Conf.MaxDur + 1, 0})
	}
	switch x := r.Intn(7); {
	case x < 3:
		add.Start = 0
	case x < 6:
		add.Start = t0 + int64(r.Range(0, 20))
	default:
		add.Start = t0
	}
	if defect == 7 {
		add.Start = t0 - 1
	}
	h.Ops = append(h.Ops, add)
	start := add.Start
	if start == 0 {
		start = t0
	}
	end := start + add.Dur/sec
	now := t0
	n := r.Range(1, 14)
	for i := 0; i < n; i++ {
		switch x := r.Intn(12); {
		case x < 5:
			now += int64(r.Range(0, int(durS/4)+1))
		case x < 7:
			now = end + int64(r.Range(-1, 1))
		case x < 8:
			now = start + int64(r.Range(-1, 1))
		case x < 9:
			now = end + int64(r.Range(2, 1000))
		case x < 10:
			now -= int64(r.Range(1, 3))
		default:
			now += 1
		}
		o := op{T: now}
		switch x := r.Intn(20); {
		case x < 6:
			o.K, o.C = "unlock", 1+r.Intn(3)
		case x < 10:
			o.K, o.C = "trigger", 0
		case x < 13:
			o.K, o.C = "unlock", 0
		case x < 15:
			o.K, o.C, o.D = "stop", 0, 1+r.Intn(3)
		case x < 17:
			o.K, o.C = "delete", 0
		case x < 18:
			o.K, o.C = []string{"trigger", "delete", "stop"}[r.Intn(3)], 1+r.Intn(4) // strangers / destinations acting as owner
			o.D = 1 + r.Intn(3)
		default:
			o.K, o.C = "unlock", 4 // neither owner nor destination
		}
		h.Ops = append(h.Ops, o)
	}
	return h
}

// genDust: a large destination next to dust destinations (1-5 units) over a period long enough for early
// triggers to pay the dust nothing (Last moves, Move does not), several owner triggers before expiry, then
// the claims at expiry and the owner's withdrawal / delete
func genDust(r *vh.Rand) hist {
	h := hist{Conf: conf{MinLock: 1, MinDur: 2 * sec, MaxDur: 100000 * sec, MaxDests: 3}}
	t0 := int64(r.Range(1000, 2000000000))
	durS := int64(r.Range(100, 3000))
	add := op{K: "add", C: 0, T: t0, Start: t0, Dur: durS * sec}
	nd := r.Range(2, 3)
	var want uint64
	for j := 0; j < nd; j++ {
		a := uint64(r.Range(1, 5))
		if j == 0 && r.Chance(3, 4) {
			a = uint64(r.Range(1, 1000000)) * uint64(r.PickU64([]uint64{1, 1000, 1000003, 10000000000}))
		}
		add.Dests = append(add.Dests, destReq{1 + j, a})
		want += a
	}
	add.V = want + uint64(r.Intn(2))*uint64(r.Range(1, 50))
	add.Bal = u64p(add.V)
	h.Ops = append(h.Ops, add)
	now := t0
	for i, n := 0, r.Range(2, 7); i < n; i++ {
		now += int64(r.Range(1, int(durS/2)))
		if now >= t0+durS {
			now = t0 + durS - int64(r.Range(1, 3))
		}
		o := op{K: "trigger", C: 0, T: now}
		if r.Chance(1, 5) {
			o = op{K: "unlock", C: r.Range(1, nd), T: now}
		}
		h.Ops = append(h.Ops, o)
	}
	end := t0 + durS
	for j := 1; j <= nd; j++ {
		if r.Chance(3, 4) {
			h.Ops = append(h.Ops, op{K: "unlock", C: j, T: end + int64(r.Range(0, 5))})
		}
	}
	h.Ops = append(h.Ops, op{K: "unlock", C: 0, T: end + 6}, op{K: "delete", C: 0, T: end + 7})
	return h
}

func sub(h hist, keep []int) hist {
	h2 := hist{Conf: h.Conf}
	for _, i := range keep {
		h2.Ops = append(h2.Ops, h.Ops[i])
	}
	return h2
}

func main() {
	o := vh.ParseFlags()
	sc.Init()
	contract = vestingsc.NewVestingSmartContract()
	rep := vh.NewReport("vesting", "C16", o)
	rep.Rule = "one pool per history on the real vestingsc.Execute: add (1-4 destinations, amounts 0-10^12 or, 1 in 4 histories, around 2^53, 2^54, 2^60, 2^62, 2^63, MaxTokenSupply; " +
		"value = sum, sum+excess, sum-1, tiny; start now/future/past; duration around min/max) then 1-14 of unlock by destination, trigger, owner unlock, stop, delete, strangers, " +
		"with timestamps stepping through the period, at start±1, expiry±1, after expiry and sometimes backwards; every fourth history puts dust destinations (1-5 units) next to a large one " +
		"and runs 2-7 owner triggers inside the period (zero payments to the dust), the claims at expiry, the owner's withdrawal and delete; plus directed histories. " +
		"non-trivial = the pool was created, tokens vested at least twice and a request was refused; distinct by full history"
	cf := &vh.CasesFile{Imports: []string{"Base.Corr", "Model.Vesting", "Corr.Vesting"}, CaseType: "vs_case", CheckFn: "vs_check"}
	reported := map[string]bool{}
	handle := func(h hist) {
		res := run(h)
		for k, n := range res.kinds {
			rep.CountN(k, n)
		}
		refused := 0
		for k, n := range res.kinds {
			if len(k) > 8 && k[len(k)-8:] == "-refused" {
				refused += n
			}
		}
		b, _ := json.Marshal(h)
		rep.Case(string(b), res.kinds["add-ok"] > 0 && res.kinds["vested-moved"] >= 2 && refused > 0, h)
		cf.Add(coqCase(h, res))
		rep.CaseInputs = append(rep.CaseInputs, h)
		for _, f := range res.fails {
			if reported[f] {
				continue
			}
			reported[f] = true
			f := f
			keep := vh.ShrinkIdx(len(h.Ops), func(keep []int) bool { r2 := run(sub(h, keep)); return r2.has(f) })
			desc := "vesting: " + f
			switch f {
			case sigExpiry:
				desc = "at expiry destination.unlock pays Coin(float64(left)*1.0); for a remainder above 2^53 whose float64 rounds up this is more than the remainder: " +
					"vested exceeds amount (and later left()/excess() fail: owner cannot withdraw or delete) or the transfer exceeds the pool balance (destination can never be paid, pool cannot be deleted)"
			case sigSchedule:
				desc = "float64(left)*(float64(period)/float64(full)) rounded above the exact quotient: vested is ahead of the linear schedule by less than one float64 rounding step"
			}
			rep.Violate("C16:"+f, desc, sub(h, keep))
		}
	}
	finish := func() {
		files, err := cf.Write(o.Out, "C16")
		if err != nil {
			panic(err)
		}
		rep.CaseFiles = files
		rep.ShardSize = 400
		rep.Write(o.Out)
	}
	var rh hist
	if o.LoadReplay(&rh) {
		rep.Note("replay of one history")
		handle(rh)
		finish()
		return
	}
	c := conf{MinLock: 1, MinDur: 2 * sec, MaxDur: 100000 * sec, MaxDests: 3}
	mk := func(note string, v uint64, ds []destReq, ops ...op) hist {
		all := append([]op{{K: "add", C: 0, T: 1000, V: v, Bal: u64p(v), Start: 1000, Dur: 100 * sec, Dests: ds}}, ops...)
		return hist{Conf: c, Ops: all, Note: note}
	}
	A := uint64(1<<53 + 3)
	// F-16 with an excess in the pool: vested = amount + 1, then the owner can neither withdraw nor delete
	handle(mk("F-16 excess", A+10, []destReq{{1, A}}, op{K: "unlock", C: 1, T: 1100}, op{K: "unlock", C: 0, T: 1101}, op{K: "delete", C: 0, T: 1102}))
	// F-16 without excess: the destination can never be paid after expiry and the pool cannot be deleted
	handle(mk("F-16 exact", A, []destReq{{1, A}}, op{K: "unlock", C: 1, T: 1100}, op{K: "delete", C: 0, T: 1102}))
	// rounding down at expiry: two unlocks reach the amount
	handle(mk("round down", 1<<53+1, []destReq{{1, 1<<53 + 1}}, op{K: "unlock", C: 1, T: 1100}, op{K: "unlock", C: 1, T: 1100}, op{K: "delete", C: 0, T: 1101}))
	// half way with an odd amount just below 2^53: float product is a tie rounded to even
	handle(mk("schedule tie", 1<<53-1, []destReq{{1, 1<<53 - 1}}, op{K: "unlock", C: 1, T: 1050}))
	// the Coq schedule witness: about 61 ZCN, 4821061 s into 5747560 s: one unit above the exact share
	handle(hist{Conf: conf{MinLock: 1, MinDur: 2 * sec, MaxDur: 10000000 * sec, MaxDests: 3}, Note: "schedule witness", Ops: []op{
		{K: "add", C: 0, T: 1000, V: 607985353607, Bal: u64p(607985353607), Start: 1000, Dur: 5747560 * sec, Dests: []destReq{{1, 607985353607}}},
		{K: "unlock", C: 1, T: 4822061}}})
	// dust next to a large destination: the trigger at +499 s pays the 2-unit destination nothing, the one at
	// +800 s one unit; claims at expiry, delete
	handle(hist{Conf: c, Note: "dust", Ops: []op{{K: "add", C: 0, T: 1000, V: 500000000002, Bal: u64p(500000000002), Start: 1000, Dur: 1000 * sec, Dests: []destReq{{1, 500000000000}, {2, 2}}},
		{K: "trigger", C: 0, T: 1499}, {K: "trigger", C: 0, T: 1800}, {K: "trigger", C: 0, T: 1999}, {K: "unlock", C: 2, T: 2000}, {K: "unlock", C: 1, T: 2001}, {K: "delete", C: 0, T: 2002}}})
	// small amounts through the whole life
	handle(mk("small", 1000, []destReq{{1, 300}, {2, 600}}, op{K: "unlock", C: 1, T: 1010}, op{K: "trigger", C: 0, T: 1033}, op{K: "unlock", C: 0, T: 1034},
		op{K: "stop", C: 0, T: 1050, D: 2}, op{K: "unlock", C: 0, T: 1051}, op{K: "unlock", C: 1, T: 1100}, op{K: "unlock", C: 1, T: 1101}, op{K: "delete", C: 0, T: 1200}))
	rnd := vh.NewRand(o.Seed).Fork() // Fork: NewRand(k) is NewRand(1) shifted by k-1 draws
	for i := 0; i < o.N(450, 6000); i++ {
		if i%4 == 3 {
			handle(genDust(rnd))
		} else {
			handle(genHist(rnd))
		}
	}
	rep.Note("directed: the inputs of the repaired float64 defects (amount 2^53+3 with and without excess, 2^53+1, 2^53-1 half way, 607985353607 at 4821061/5747560 s), dust next to a large destination with repeated triggers, a small pool through add/unlock/trigger/stop/drain/delete")
	finish()
}
