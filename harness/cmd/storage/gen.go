package main

import (
	"fmt"
	"math"

	"verifharness/stg"
	"verifharness/vh"
)

func pickF(r *vh.Rand, xs []float64) float64 { return xs[r.Intn(len(xs))] }
func pickI(r *vh.Rand, xs []int) int         { return xs[r.Intn(len(xs))] }

func genHist(r *vh.Rand, prop string, idx int) Hist {
	h := Hist{Salt: fmt.Sprintf("h%d-%d", idx, r.Intn(1<<30))}
	c := stg.Conf{
		TimeUnitSec:        r.Pick64([]int64{3600, 3600, 86400, 7200, 1000}),
		ValidatorReward:    pickF(r, []float64{0.025, 0.025, 0.1, 0, 0.5, 1.0}),
		BlobberSlash:       pickF(r, []float64{0.1, 0, 0.1, 0, 0.5, 1}),
		CancellationCharge: pickF(r, []float64{0.2, 0.2, 0, 0.5, 1.0}),
		MaxWritePrice:      r.PickU64([]uint64{100e10, 100e10, 4e9}),
		MinWritePrice:      0,
		MaxReadPrice:       r.PickU64([]uint64{100e10, 100e10, 5e8}),
		MinAllocSize:       1024,
		MaxChalRounds:      r.Pick64([]int64{720, 720, 6, 40}),
		MinLockW:           r.PickU64([]uint64{10, 0, 1000000}),
		MinLockR:           r.PickU64([]uint64{10, 0, 1000000}),
		KillSlash:          pickF(r, []float64{0.5, 0, 1, 0.25}),
		MinStake:           0,
		MaxStake:           1000e10,
		ValidatorsPerChal:  r.Range(1, 3),
		MaxBlobbersPerAll:  r.Range(4, 10),
		FreeData:           1,
		FreeParity:         1,
		FreeSize:           r.Pick64([]int64{1 * MB, 64 * MB, GB}),
		FreeReadFrac:       pickF(r, []float64{0, 0.2, 0.5, 0.2, 0.1, 1}),
		FreeMaxWP:          100e10,
		FreeMaxRP:          100e10,
		MaxIndivFree:       100e10,
		MaxTotalFree:       1000e10,
		Electra:            r.Pick64([]int64{-1, 0, 0, 1030, 1060}),
		Demeter:            r.Pick64([]int64{-1, 0, 0, 1030, 1060}),
	}
	c.NumValRewarded = r.Range(1, 3)
	h.Conf = c
	h.NVal = c.ValidatorsPerChal + r.Range(0, 2)
	h.VStake = r.PickU64([]uint64{1e10, 5e11})
	nb := r.Range(3, 7)
	for i := 0; i < nb; i++ {
		b := BlobSpec{
			Cap:    r.Pick64([]int64{100 * GB, 100 * GB, 10 * GB, 2 * GB}),
			WP:     r.PickU64([]uint64{1e9, 1e9, 1e8, 1e10, 3e9, 123456789, 1e9, 5e8, 0}),
			RP:     r.PickU64([]uint64{1e8, 1e8, 0, 1e9, 7777777}),
			Stake:  r.PickU64([]uint64{5e12, 5e12, 1e12, 2e10, 1e11}),
			Charge: pickF(r, []float64{0.3, 0.1, 0, 0.5}),
		}
		if b.WP > c.MaxWritePrice {
			b.WP = c.MaxWritePrice // add_blobber rejects prices above the maximum
		}
		if b.RP > c.MaxReadPrice {
			b.RP = c.MaxReadPrice
		}
		if r.Chance(1, 3) {
			b.Stake2 = r.PickU64([]uint64{1e12, 3e11, 7})
		}
		h.Blobbers = append(h.Blobbers, b)
	}
	// enterprise-only worlds (un-modelled: oracle only), possible when electra is active from the start
	if (prop == "C13" || prop == "C09") && c.Electra == 0 && r.Chance(1, 3) {
		h.Ent = true
	}
	h.NCli = 3
	h.CliBal = 1e14
	h.OwnerBal = r.PickU64([]uint64{1e14, 1e14, 3e10})
	return h
}

// ---------- online op generation (looks at the current real state to stay mostly valid) ----------

type Gen struct {
	R      *vh.Rand
	Prop   string
	NLabel int
	NNonce int64
	ctr    map[[3]int]int64
	script string
	step   int
	aux    int
}

func sizeGB(n int64) float64 { return float64(n) / GB }

func (g *Gen) openLabels(s *Snap) []int {
	var out []int
	for _, l := range sortedLabels(s.Allocs) {
		if a := s.Allocs[l]; a != nil && a.Owner != -2 {
			out = append(out, l)
		}
	}
	return out
}

func (g *Gen) anyLabel(s *Snap) int {
	if g.NLabel == 0 {
		return 1
	}
	if g.R.Chance(1, 12) {
		return g.NLabel + 5 // never created
	}
	return g.R.Range(1, g.NLabel)
}

func (g *Gen) pickAlloc(s *Snap) (int, *AllocProj) {
	open := g.openLabels(s)
	if len(open) == 0 || g.R.Chance(1, 14) {
		l := g.anyLabel(s)
		return l, s.Allocs[l]
	}
	l := open[g.R.Intn(len(open))]
	return l, s.Allocs[l]
}

// eligible approximates storagesc isActive (the generator only uses it to stay mostly valid).
func (g *Gen) eligible(s *Snap, h Hist, b int, bsize int64) bool {
	bp := s.Blob[b]
	if !bp.Present || bp.Killed || bp.Shut || bp.NotAvail {
		return false
	}
	if bp.Cap-bp.Allocd < bsize {
		return false
	}
	var stake uint64
	for _, p := range bp.Pools {
		stake += p
	}
	if stake <= bp.Offers {
		return false
	}
	if bp.WP == 0 {
		return false // staked capacity is int64(+Inf) = MinInt64 for a zero write price
	}
	if bp.WP > 0 {
		if int64(float64(stake)/float64(bp.WP)*GB)-bp.Allocd < bsize {
			return false
		}
		if int64(float64(stake-bp.Offers)/float64(bp.WP)*GB) < bsize {
			return false
		}
	}
	return true
}

func inAlloc(a *AllocProj, b int) bool {
	if a == nil {
		return false
	}
	for _, d := range a.BAs {
		if d.Blobber == b {
			return true
		}
	}
	return false
}

func (g *Gen) Next(run *Run) Op {
	if o := g.Script(run); o != nil {
		return *o
	}
	r := g.R
	s := run.Pre
	h := run.H
	nb := len(h.Blobbers)
	open := g.openLabels(s)
	cli := func() int { return refClient + r.Intn(h.NCli) }
	dt := r.Pick64([]int64{1, 5, 10, 60, 100, 0, 300})

	// kind weights
	type kw struct {
		k string
		w int
	}
	ws := []kw{{"newalloc", 6}, {"wplock", 5}, {"commit", 22}, {"genchal", 14}, {"chalresp", 14}, {"update", 12},
		{"finalize", 4}, {"cancel", 3}, {"rplock", 3}, {"read", 5}, {"kill", 2}, {"shutdown", 1}, {"updblobber", 5}, {"bad", 1}, {"rpunlock", 1},
		{"addassigner", 1}, {"freealloc", 1}}
	switch g.Prop {
	case "C15":
		ws = []kw{{"newalloc", 6}, {"wplock", 2}, {"commit", 6}, {"genchal", 2}, {"chalresp", 2}, {"update", 4},
			{"finalize", 2}, {"cancel", 2}, {"rplock", 12}, {"read", 45}, {"kill", 1}, {"shutdown", 1}, {"updblobber", 4}, {"bad", 1}, {"rpunlock", 3}}
	case "C24":
		ws = []kw{{"newalloc", 3}, {"wplock", 2}, {"commit", 4}, {"update", 3}, {"finalize", 2}, {"cancel", 2}, {"rplock", 2}, {"read", 3},
			{"kill", 1}, {"updblobber", 2}, {"bad", 1}, {"addassigner", 12}, {"freealloc", 45}}
	case "C14":
		ws = []kw{{"newalloc", 10}, {"wplock", 8}, {"commit", 16}, {"genchal", 10}, {"chalresp", 10}, {"update", 8},
			{"finalize", 14}, {"cancel", 10}, {"rplock", 1}, {"read", 2}, {"kill", 2}, {"shutdown", 1}, {"updblobber", 3}, {"bad", 1},
			{"settings", 3}, {"commitsettings", 2}}
	case "C09":
		ws = []kw{{"newalloc", 6}, {"wplock", 5}, {"commit", 18}, {"genchal", 10}, {"chalresp", 12}, {"update", 12},
			{"finalize", 5}, {"cancel", 4}, {"rplock", 4}, {"read", 6}, {"kill", 2}, {"shutdown", 1}, {"updblobber", 4}, {"bad", 1}, {"rpunlock", 2},
			{"addassigner", 3}, {"freealloc", 7}}
	case "C04":
		// every function that queues transfers, updates with attached tokens most of all
		ws = []kw{{"newalloc", 10}, {"wplock", 6}, {"commit", 8}, {"genchal", 4}, {"chalresp", 5}, {"update", 30},
			{"finalize", 5}, {"cancel", 4}, {"rplock", 5}, {"read", 4}, {"kill", 1}, {"shutdown", 1}, {"updblobber", 2}, {"bad", 1}, {"rpunlock", 3},
			{"addassigner", 3}, {"freealloc", 8}}
	case "C13":
		ws = []kw{{"newalloc", 12}, {"wplock", 3}, {"commit", 10}, {"genchal", 5}, {"chalresp", 5}, {"update", 22},
			{"finalize", 7}, {"cancel", 6}, {"rplock", 1}, {"read", 1}, {"kill", 5}, {"shutdown", 3}, {"updblobber", 8}, {"bad", 1}}
	}
	if len(open) == 0 {
		ws = append(ws, kw{"newalloc", 60})
	}
	tot := 0
	for _, x := range ws {
		tot += x.w
	}
	x := r.Intn(tot)
	kind := ""
	for _, y := range ws {
		if x < y.w {
			kind = y.k
			break
		}
		x -= y.w
	}

	if kind == "chalresp" {
		has := false
		for _, l := range open {
			if len(s.Allocs[l].OpenCh) > 0 {
				has = true
			}
		}
		if !has && !r.Chance(1, 10) {
			kind = "genchal"
		}
	}
	if (kind == "genchal" || kind == "chalresp") && !r.Chance(1, 10) {
		// challenges need stored data; commit first when nothing is stored
		stored := false
		for _, l := range open {
			if s.Allocs[l].Used > 0 {
				stored = true
			}
		}
		if !stored {
			kind = "commit"
		}
	}

	switch kind {
	case "bad":
		return Op{K: "bad", Dt: dt, S: cli(), N: int64(r.Intn(100)), V: r.PickU64([]uint64{0, 100})}

	case "newalloc":
		g.NLabel++
		d, p := r.Range(1, 3), r.Range(1, 2)
		for d+p > nb {
			if d > 1 {
				d--
			} else {
				p--
			}
		}
		size := r.Pick64([]int64{GB, GB, 10 * MB, 100 * MB, 5 * GB, 3 * CHUNK, 1024, 1025, 40 * GB, 3*GB + 1, 512 * MB})
		bs := int64(math.Ceil(float64(size) / float64(maxI(d, 1))))
		var good, rest []int
		for _, b := range r.Perm(nb) {
			if g.eligible(s, h, b, bs) {
				good = append(good, b)
			} else {
				rest = append(rest, b)
			}
		}
		var bl []int
		if r.Chance(1, 8) {
			bl = append(append(bl, rest...), good...)
		} else {
			bl = append(append(bl, good...), rest...)
		}
		n := d + p
		if r.Chance(1, 5) {
			n++
		}
		if n < len(bl) {
			bl = bl[:n]
		}
		if r.Chance(1, 3) && len(rest) > 0 && len(good) >= d+p {
			// more candidates than shards: ineligible ones (price out of range, no capacity, killed, shut down,
			// not enough stake) before and between the eligible ones
			bl = nil
			gi, ri := 0, 0
			for gi < d+p || (ri < len(rest) && len(bl) < d+p+3) {
				if ri < len(rest) && (gi >= d+p || r.Chance(1, 2)) {
					bl = append(bl, rest[ri])
					ri++
				} else if gi < len(good) {
					bl = append(bl, good[gi])
					gi++
				} else {
					break
				}
			}
			if r.Chance(1, 4) && gi < len(good) {
				bl = append(bl, good[gi]) // and a spare eligible one at the end
			}
		}
		switch r.Intn(40) {
		case 0:
			d = 0
		case 1:
			bl = bl[:len(bl)-1]
		case 2:
			bl = append(bl, 40) // unknown blobber
		case 3:
			size = 1000 // below min_alloc_size
		case 4, 5, 6:
			// the same blobber named twice
			if len(bl) >= 2 {
				bl[len(bl)-1] = bl[r.Intn(len(bl)-1)]
			}
		}
		// approximate cost to choose a value around the funding threshold
		cost := 0.0
		for i := 0; i < d+p && i < len(bl); i++ {
			if bl[i] < nb {
				wp := float64(s.Blob[bl[i]].WP)
				if wp > float64(h.Conf.MaxWritePrice) {
					wp = float64(h.Conf.MaxWritePrice)
				}
				cost += float64(uint64(wp * (float64(bs) / GB)))
			}
		}
		v := uint64(cost)
		switch r.Intn(12) {
		case 0:
			if v > 0 {
				v--
			}
		case 1:
			v = 0
		case 2, 3, 4:
			v = v*2 + 1000
		case 5, 6:
			v = v*10 + 5
		case 7:
			v = v + uint64(r.Intn(100000))
		case 8:
			v = v * 100
		}
		o := Op{K: "newalloc", Dt: dt, S: cli(), A: g.NLabel, V: v, D: d, P: p, N: size, Bl: bl, W: 100e10, R: 100e10}
		if r.Chance(1, 14) {
			o.W = r.Pick64([]int64{1e8, 2e9})
		}
		if r.Chance(1, 4) {
			o.X |= xTPE
		}
		if r.Chance(1, 10) {
			o.C = cli()
		}
		return o

	case "wplock":
		l, _ := g.pickAlloc(s)
		o := Op{K: "wplock", Dt: dt, S: cli(), A: l, V: r.PickU64([]uint64{1e9, 1e10, 5, 0, 1000000, 999999, 12345678901})}
		if r.Chance(1, 25) {
			o.X |= xEmptyAlloc
		}
		return o

	case "commit":
		l, a := g.pickAlloc(s)
		o := Op{K: "commit", Dt: dt, A: l}
		if a != nil && len(a.BAs) > 0 && a.Owner >= 0 {
			d := a.BAs[r.Intn(len(a.BAs))]
			o.B, o.S, o.C = d.Blobber, d.Blobber, a.Owner
			free := d.Size - d.Used
			switch r.Intn(14) {
			case 0, 1, 2, 3:
				o.N = r.Pick64([]int64{MB, 10 * MB, 100 * MB, CHUNK, 3 * CHUNK})
			case 4:
				o.N = r.Pick64([]int64{1, CHUNK - 1, CHUNK + 1, 100})
			case 5:
				o.N = free
			case 6:
				o.N = free + 1
			case 7:
				o.N = free / 2
			case 8, 9:
				if d.Used > 0 {
					o.N = -r.Pick64([]int64{d.Used, d.Used / 2, 1, CHUNK, d.Used/3 + 1})
				} else {
					o.N = -CHUNK
				}
			case 10:
				o.N = 0
			case 11:
				o.N = -(d.Used + r.Pick64([]int64{1, CHUNK}))
			default:
				o.N = r.Pick64([]int64{GB / 4, 512 * MB, 20 * MB})
			}
			if o.N > free && r.Chance(3, 4) && free > 0 {
				o.N = free / int64(r.Range(1, 4))
			}
			switch r.Intn(40) {
			case 0:
				o.M = -(r.Pick64([]int64{1, 100000}))
			case 1:
				o.M = (a.Exp - run.Now - dt) + r.Pick64([]int64{0, 1})
			case 2:
				o.M = a.Start - run.Now - dt - r.Pick64([]int64{0, 1})
			case 3:
				o.X |= xBadSig
			case 4:
				o.X |= xRepeatRoot
			case 5:
				o.X |= xBadRoot
			case 6, 7:
				o.X |= xRollback
			case 8:
				o.C = cli()
			case 9:
				o.S = r.Intn(nb)
			case 10:
				o.X |= xMalformed
			}
		} else {
			o.B, o.S, o.C, o.N = r.Intn(nb), r.Intn(nb), cli(), MB
			o.S = o.B
		}
		return o

	case "genchal":
		return Op{K: "genchal", Dt: r.Pick64([]int64{1, 10, 60, 200, 600}), Dr: r.Pick64([]int64{0, 0, 1, 3, 10}), S: cli()}

	case "chalresp":
		// prefer allocations with open challenges
		var cands []int
		for _, l := range open {
			if len(s.Allocs[l].OpenCh) > 0 {
				cands = append(cands, l)
			}
		}
		o := Op{K: "chalresp", Dt: r.Pick64([]int64{1, 5, 30}), Dr: r.Pick64([]int64{0, 0, 0, 2, 8, 50}), N: int64(r.Intn(8)), S: r.Intn(nb), B: r.Intn(nb)}
		if len(cands) > 0 && !r.Chance(1, 15) {
			o.A = cands[r.Intn(len(cands))]
		} else {
			o.A, _ = g.pickAlloc(s)
			if r.Chance(1, 2) {
				o.X |= xRepeatRoot
			}
		}
		switch r.Intn(12) {
		case 0, 1, 2:
			o.X |= xFailTickets
		case 3:
			o.X |= xFewTickets
		case 4:
			o.X |= xBadSig
		case 5:
			o.X |= xWrongSender
		}
		return o

	case "update":
		l, a := g.pickAlloc(s)
		o := Op{K: "update", Dt: dt, A: l, S: cli()}
		if a != nil && a.Owner >= 0 && !r.Chance(1, 8) {
			o.S = a.Owner
		}
		var notIn, in []int
		for i := 0; i < nb; i++ {
			if inAlloc(a, i) {
				in = append(in, i)
			} else {
				notIn = append(notIn, i)
			}
		}
		switch r.Intn(10) {
		case 0, 1, 2:
			o.X |= xExtend
		case 3:
			o.N = r.Pick64([]int64{MB, GB, 100 * MB, 1})
		case 4, 5, 6:
			if len(notIn) > 0 {
				o.Ad = notIn[r.Intn(len(notIn))] + 1
			} else if len(in) > 0 {
				o.Ad = in[0] + 1
			}
			if len(in) > 0 && r.Chance(3, 4) {
				// prefer removing a killed / shut down blobber when there is one
				o.Rm = in[r.Intn(len(in))] + 1
				for _, b := range in {
					if (s.Blob[b].Killed || s.Blob[b].Shut) && r.Chance(2, 3) {
						o.Rm = b + 1
					}
				}
			}
			if r.Chance(1, 4) {
				o.X |= xExtend
			}
			if len(in) > 0 && r.Chance(1, 8) {
				o.Ad = in[r.Intn(len(in))] + 1 // a blobber the allocation already has
			}
		case 7:
			o.X |= xTPE
		case 8:
			o.X |= xOwnerChange
			o.C = cli()
			if r.Chance(1, 4) {
				o.X |= xBadID
			}
		case 9:
			if len(in) > 0 {
				o.Rm = in[r.Intn(len(in))] + 1
			}
		}
		// value: around what extending costs
		if a != nil && r.Chance(2, 3) {
			cost := 0.0
			for _, d := range a.BAs {
				if d.Blobber >= 0 && d.Blobber < nb {
					cost += float64(s.Blob[d.Blobber].WP) * sizeGB(d.Size+o.N)
				}
			}
			o.V = uint64(cost) * uint64(r.Range(0, 2))
		}
		if r.Chance(1, 6) {
			o.V = r.PickU64([]uint64{1, 1e9, 1e11})
		}
		if g.Prop == "C04" && a != nil && a.Owner >= 0 && r.Chance(1, 2) {
			// tokens attached to a request that names somebody else as owner_id:
			// a third party extending a third_party_extendable allocation, or the owner handing it over
			other := func(not ...int) int {
				for {
					c := cli()
					okc := true
					for _, n := range not {
						if c == n {
							okc = false
						}
					}
					if okc || h.NCli < len(not)+1 {
						return c
					}
				}
			}
			if a.TPE && r.Chance(1, 2) {
				o.S = other(a.Owner)
				o.X |= xExtend | xOwnerChange
				o.C = other(o.S)
				o.Ad, o.Rm = 0, 0
			} else {
				o.S = a.Owner
				o.X |= xOwnerChange
				o.C = other(a.Owner)
				if r.Chance(1, 3) {
					o.X |= xExtend
				}
			}
			o.X &^= xBadID
			if o.V == 0 || r.Chance(1, 2) {
				o.V = r.PickU64([]uint64{1, 1e9, 1e10, 1e11})
			}
		}
		return o

	case "finalize", "cancel":
		l, a := g.pickAlloc(s)
		o := Op{K: kind, Dt: dt, A: l, S: cli()}
		if a != nil && a.Owner >= 0 {
			o.S = a.Owner
			if r.Chance(1, 5) && len(a.BAs) > 0 {
				o.S = a.BAs[r.Intn(len(a.BAs))].Blobber
			}
			if r.Chance(1, 10) {
				o.S = cli()
			}
			left := a.Exp - run.Now
			if kind == "finalize" && !r.Chance(1, 6) {
				o.Dt = left + r.Pick64([]int64{0, 1, 1, 50, 4000})
				if o.Dt < 0 {
					o.Dt = 1
				}
				o.Dr = r.Pick64([]int64{0, 0, 5, 100, 1000})
			}
			if kind == "cancel" && r.Chance(1, 8) {
				o.Dt = left + r.Pick64([]int64{0, 1})
				if o.Dt < 0 {
					o.Dt = 0
				}
			}
		}
		return o

	case "rplock":
		o := Op{K: "rplock", Dt: dt, S: cli(), V: r.PickU64([]uint64{1e9, 1e8, 1e10, 0, 9, 1000000, 999999})}
		if r.Chance(1, 4) {
			o.C = cli()
		}
		if r.Chance(1, 3) {
			// lock for somebody else whose read pool is larger than the sender's
			best := -1
			for c := refClient; c < refClient+h.NCli; c++ {
				if c != o.S && s.RP[c] > s.RP[o.S] && (best < 0 || s.RP[c] > s.RP[best]) {
					best = c
				}
			}
			if best >= 0 {
				o.C = best
			}
		}
		return o
	case "rpunlock":
		return Op{K: "rpunlock", Dt: dt, S: cli()}

	case "read":
		l, a := g.pickAlloc(s)
		// prefer an open, unexpired allocation and a client that has a read pool
		for try := 0; try < 4 && (a == nil || a.Exp < run.Now+dt); try++ {
			l, a = g.pickAlloc(s)
		}
		o := Op{K: "read", Dt: dt, A: l, C: cli(), B: r.Intn(nb), S: r.Intn(nb)}
		for try := 0; try < 4 && s.RP[o.C] == 0; try++ {
			o.C = cli()
		}
		if s.RP[o.C] == 0 && !r.Chance(1, 6) {
			return Op{K: "rplock", Dt: dt, S: o.C, V: r.PickU64([]uint64{1e10, 1e9, 1e11})}
		}
		if a != nil && len(a.BAs) > 0 && !r.Chance(1, 12) {
			o.B = a.BAs[r.Intn(len(a.BAs))].Blobber
			o.S = o.B
		}
		last := s.ReadCtr[[3]int{o.B, o.C, l}]
		switch x := r.Intn(12); {
		case x == 0 && last > 0:
			o.N = last // replay
		case x == 1 && last > 1:
			o.N = last - r.Pick64([]int64{1, last / 2}) // older
		case x == 2:
			o.N = r.Pick64([]int64{0, -3})
		case x == 3:
			o.N = last + r.Pick64([]int64{100000, 1 << 20, 1 << 34, 1 << 50})
		default:
			o.N = last + r.Pick64([]int64{1, 2, 10, 100, 16384, 1000, 16383})
		}
		switch r.Intn(30) {
		case 0, 1:
			o.X |= xBadSig
		case 2:
			o.X |= xBadID
		case 6, 7, 8:
			// a marker naming the client but carrying and signed with a foreign key, counter moving on
			o.X |= xForgeKey
			o.N = last + r.Pick64([]int64{1, 10, 1000})
		case 3:
			if a != nil {
				o.M = a.Exp - run.Now - dt + r.Pick64([]int64{0, 1})
			}
		case 4:
			if a != nil {
				o.M = a.Start - run.Now - dt - r.Pick64([]int64{0, 1})
			}
		case 5:
			o.M = -run.Now - dt // timestamp 0
		}
		return o

	case "kill", "shutdown":
		o := Op{K: kind, Dt: dt, S: refOwner, B: r.Intn(nb)}
		if kind == "shutdown" && r.Chance(1, 2) {
			o.S = refWallet + o.B
		}
		if r.Chance(1, 6) {
			o.S = cli()
		}
		return o

	case "updblobber":
		b := r.Intn(nb)
		o := Op{K: "updblobber", Dt: dt, B: b, S: refWallet + b}
		switch r.Intn(8) {
		case 0, 1, 2:
			o.W = r.Pick64([]int64{0, 1e8, 1e9, 5e8, 1e10, 2e9, 200e10, 1e7, 3e9}) + 1
		case 3:
			o.R = r.Pick64([]int64{0, 1e8, 1e9, 3e7}) + 1
		case 4:
			o.Cp = r.Pick64([]int64{200 * GB, 5 * GB, 1 * GB, 1000, -1})
		case 5:
			o.X |= xNotAvail
		case 6:
			o.X |= xAvail
		case 7:
			o.W = r.Pick64([]int64{0, 1e8, 1e9}) + 1
			o.R = r.Pick64([]int64{0, 1e8}) + 1
		}
		if r.Chance(1, 10) {
			o.S = cli()
		}
		return o

	case "settings":
		tu := s.TU / 1000000000
		o := Op{K: "settings", Dt: dt, S: refOwner, N: r.Pick64([]int64{tu * 3, tu * 2, tu / 2, 3600, 86400, 7200, 1})}
		if r.Chance(1, 6) {
			o.S = cli()
		}
		return o
	case "commitsettings":
		return Op{K: "commitsettings", Dt: dt, S: cli()}

	case "addassigner":
		o := Op{K: "addassigner", Dt: dt, S: refOwner, C: refAssigner + r.Intn(2),
			F: pickF(r, []float64{5, 1, 0.5, 100, 101, 2.5}), G: pickF(r, []float64{20, 3, 1000, 1001, 7.5})}
		if r.Chance(1, 8) {
			o.S = cli()
		}
		// key rotation: re-register an existing assigner with another of its key pairs (and back)
		if pa := s.Ass[o.C]; pa != nil && r.Chance(1, 2) {
			o.P = r.Intn(3)
		}
		return o

	case "freealloc":
		// an assigner must be registered first
		if len(s.Ass) == 0 && !r.Chance(1, 8) {
			return Op{K: "addassigner", Dt: dt, S: refOwner, C: refAssigner + r.Intn(2), F: pickF(r, []float64{5, 2.5, 100}), G: pickF(r, []float64{20, 7.5, 1000})}
		}
		g.NLabel++
		g.NNonce++
		var good, rest []int
		for _, b := range r.Perm(nb) {
			if g.eligible(s, h, b, h.Conf.FreeSize) {
				good = append(good, b)
			} else {
				rest = append(rest, b)
			}
		}
		bl := append(append([]int{}, good...), rest...)
		n := 2
		if r.Chance(1, 5) && nb > 2 {
			n = 3
		}
		bl = bl[:n]
		ab := r.Intn(2)
		for try := 0; try < 3 && s.Ass[refAssigner+ab] == nil; try++ {
			ab = r.Intn(2)
		}
		o := Op{K: "freealloc", Dt: dt, S: cli(), A: g.NLabel, B: ab, N: g.NNonce, Bl: bl,
			F: pickF(r, []float64{1, 0.5, 2, 5, 2.5, 0.3, 1, 2, 3.00000000001, 0.0000000001, 10, 101, 1e9, -1})}
		if r.Chance(1, 5) && g.NNonce > 1 {
			o.N = r.Pick64([]int64{1, g.NNonce - 1})
		}
		// signed with the registered key, or (1 in 4) with another key pair of the assigner: retired or never registered
		if pa := s.Ass[refAssigner+ab]; pa != nil && pa.Key >= 0 {
			o.P = pa.Key
		}
		if r.Chance(1, 4) {
			o.P = r.Intn(3)
		}
		switch r.Intn(15) {
		case 0:
			o.X |= xBadSig
		case 1:
			o.C = cli() // recipient differs from the sender (unless equal by chance)
		}
		return o
	}
	panic("no kind")
}

func maxI(a, b int) int {
	if a > b {
		return a
	}
	return b
}

// ---------- scripted prefixes: multi-step paths that random choice rarely completes ----------

// Script returns the next scripted op (nil when the script is over). Scripts look at the real
// state, so they stay valid whatever the configuration is.
func (g *Gen) Script(run *Run) *Op {
	if g.step < 0 {
		return nil
	}
	r := g.R
	s := run.Pre
	h := run.H
	nb := len(h.Blobbers)
	defer func() { g.step++ }()
	firstOpen := func() (int, *AllocProj) {
		for _, l := range g.openLabels(s) {
			return l, s.Allocs[l]
		}
		return 0, nil
	}
	newAlloc := func() *Op {
		// a well funded allocation on eligible blobbers
		d, p := 1, 1
		if nb >= 4 && r.Chance(1, 2) {
			d = 2
		}
		size := r.Pick64([]int64{GB, 512 * MB, 2 * GB})
		bs := int64(math.Ceil(float64(size) / float64(d)))
		var bl []int
		for _, b := range r.Perm(nb) {
			if g.eligible(s, h, b, bs) && len(bl) < d+p {
				bl = append(bl, b)
			}
		}
		g.NLabel++
		return &Op{K: "newalloc", Dt: 1, S: refClient, A: g.NLabel, V: r.PickU64([]uint64{5e11, 1e11, 3e12}), D: d, P: p, N: size, Bl: bl, W: 100e10, R: 100e10, X: xTPE}
	}
	upload := func(i int, late bool) *Op {
		l, a := firstOpen()
		if a == nil || len(a.BAs) == 0 {
			return &Op{K: "genchal", S: refClient}
		}
		d := a.BAs[i%len(a.BAs)]
		o := &Op{K: "commit", Dt: r.Pick64([]int64{1, 10, 60}), S: d.Blobber, A: l, B: d.Blobber, C: a.Owner,
			N: r.Pick64([]int64{100 * MB, 200 * MB, 50 * MB, d.Size / 4})}
		if late {
			o.M = (a.Exp - run.Now - o.Dt) - r.Pick64([]int64{0, 1, 30})
		}
		return o
	}
	freeOp := func(nonce int64) *Op {
		g.NLabel++
		var bl []int
		for _, b := range r.Perm(nb) {
			if g.eligible(s, h, b, h.Conf.FreeSize) && len(bl) < 2 {
				bl = append(bl, b)
			}
		}
		for b := 0; len(bl) < 2 && b < nb; b++ {
			bl = append(bl, b)
		}
		return &Op{K: "freealloc", Dt: 5, S: refClient + r.Intn(h.NCli), A: g.NLabel, B: 0, N: nonce, Bl: bl, F: pickF(r, []float64{1, 0.5, 2})}
	}
	switch g.script {
	case "delete-kill-replace":
		// data stored for a while, then everything deleted (used size 0, value of the elapsed time still in the pool),
		// the blobber killed or shut down, then replaced
		switch {
		case g.step == 0:
			return newAlloc()
		case g.step == 1:
			return upload(0, false)
		case g.step == 2:
			l, a := firstOpen()
			if a == nil {
				break
			}
			for _, d := range a.BAs {
				if d.Used > 0 {
					g.aux = d.Blobber
					return &Op{K: "commit", Dt: r.Pick64([]int64{300, 600, 100}), S: d.Blobber, A: l, B: d.Blobber, C: a.Owner, N: -d.Used}
				}
			}
		case g.step == 3:
			if r.Chance(1, 3) {
				return &Op{K: "shutdown", Dt: 5, S: refOwner, B: g.aux}
			}
			return &Op{K: "kill", Dt: 5, S: refOwner, B: g.aux}
		case g.step == 4:
			l, a := firstOpen()
			if a == nil {
				break
			}
			ad := -1
			for _, b := range r.Perm(nb) {
				if !inAlloc(a, b) && g.eligible(s, h, b, a.BAs[0].Size) {
					ad = b
				}
			}
			if ad < 0 || !inAlloc(a, g.aux) {
				break
			}
			return &Op{K: "update", Dt: 5, S: a.Owner, A: l, Ad: ad + 1, Rm: g.aux + 1, V: r.PickU64([]uint64{0, 1e10})}
		case g.step == 5:
			l, a := firstOpen()
			if a == nil {
				break
			}
			return &Op{K: "cancel", Dt: 5, S: a.Owner, A: l}
		}
	case "timed-out-challenge-then-close":
		// a passed challenge, then a later one that nobody answers until it has timed out and is swept;
		// the allocation is closed while the swept challenge is the blobber's newest settled one
		switch {
		case g.step == 0:
			return newAlloc()
		case g.step == 1:
			return upload(0, false)
		case g.step <= 5:
			l, a := firstOpen()
			if a == nil {
				break
			}
			passed := false
			for _, d := range a.BAs {
				if d.Succ > 0 {
					passed = true
				}
			}
			if !passed {
				if len(a.OpenCh) > 0 {
					return &Op{K: "chalresp", Dt: r.Pick64([]int64{1, 5}), A: l, N: 0}
				}
				return &Op{K: "genchal", Dt: r.Pick64([]int64{60, 300}), S: refClient}
			}
			g.step = 5
			return &Op{K: "genchal", Dt: r.Pick64([]int64{100, 300, 600}), S: refClient}
		case g.step == 6:
			// many rounds later: the open challenge has timed out and is swept by the next generation
			return &Op{K: "genchal", Dt: r.Pick64([]int64{60, 300}), Dr: h.Conf.MaxChalRounds + 10, S: refClient}
		case g.step == 7:
			l, a := firstOpen()
			if a == nil {
				break
			}
			if r.Chance(2, 3) {
				return &Op{K: "cancel", Dt: r.Pick64([]int64{5, 60, 300}), S: a.Owner, A: l}
			}
			return &Op{K: "finalize", Dt: a.Exp - run.Now + r.Pick64([]int64{0, 1, 100}), Dr: r.Pick64([]int64{0, 10}), S: a.Owner, A: l}
		}
	case "read-pool-lock-for-other":
		// one client holds a read pool, another one locks tokens with target_id = the first; then both unlock
		a, b := refClient, refClient+1%h.NCli+0
		switch g.step {
		case 0:
			return &Op{K: "rplock", Dt: 5, S: a, V: r.PickU64([]uint64{1e10, 5e9})}
		case 1:
			if r.Chance(1, 2) {
				return &Op{K: "rplock", Dt: 5, S: b, V: r.PickU64([]uint64{1e8, 1e9})}
			}
			return &Op{K: "genchal", Dt: 5, S: refClient}
		case 2:
			return &Op{K: "rplock", Dt: 5, S: b, C: a, V: r.PickU64([]uint64{1e9, 1e8, 7})}
		case 3:
			return &Op{K: "rpunlock", Dt: 5, S: b}
		case 4:
			return &Op{K: "rpunlock", Dt: 5, S: a}
		}
	case "ineligible-candidates":
		// allocations whose candidate lists are longer than data+parity with candidates isActive refuses
		// (price above the range, killed) placed before / between the blobbers that get selected
		switch {
		case g.step == 0:
			return newAlloc()
		case g.step == 1 && r.Chance(1, 2):
			// make one more blobber ineligible
			for _, b := range r.Perm(nb) {
				in := false
				for _, l := range g.openLabels(s) {
					if inAlloc(s.Allocs[l], b) {
						in = true
					}
				}
				if !in && !s.Blob[b].Killed {
					return &Op{K: "kill", Dt: 5, S: refOwner, B: b}
				}
			}
			return &Op{K: "genchal", Dt: 5, S: refClient}
		case g.step <= 4:
			o := newAlloc()
			// price range that shuts out the dearest blobber; candidates: dear / killed ones first, then the cheap ones
			var cheap, out []int
			var maxWP uint64
			for b := 0; b < nb; b++ {
				if s.Blob[b].WP > maxWP {
					maxWP = s.Blob[b].WP
				}
			}
			bs := int64(math.Ceil(float64(o.N) / float64(o.D)))
			for _, b := range r.Perm(nb) {
				if g.eligible(s, h, b, bs) && (s.Blob[b].WP < maxWP || maxWP == 0) {
					cheap = append(cheap, b)
				} else {
					out = append(out, b)
				}
			}
			if len(cheap) < o.D+o.P || len(out) == 0 {
				return o
			}
			if maxWP > 0 {
				o.W = int64(maxWP - 1)
			}
			bl := []int{out[0]}
			for i, b := range cheap {
				if i < o.D+o.P {
					bl = append(bl, b)
					if i == 0 && len(out) > 1 {
						bl = append(bl, out[1])
					}
				}
			}
			o.Bl = bl
			return o
		case g.step == 5, g.step == 6:
			l, a := firstOpen()
			if a == nil {
				break
			}
			return &Op{K: "cancel", Dt: 5, S: a.Owner, A: l}
		}
	case "assigner-key-rotation":
		// markers redeemed, the owner registers a new key for the assigner (and later the old one again);
		// markers signed with the current, the retired and a never registered key in between
		signed := func(nonce int64, keyNum int) *Op {
			o := freeOp(nonce)
			o.P = keyNum
			return o
		}
		reg := func(keyNum int) *Op {
			return &Op{K: "addassigner", Dt: 5, S: refOwner, C: refAssigner, P: keyNum, F: 100, G: 1000}
		}
		switch g.step {
		case 0:
			return reg(0)
		case 1:
			return signed(11, 0)
		case 2:
			return reg(1)
		case 3:
			return signed(12, 0) // retired key
		case 4:
			return signed(13, 1) // current key
		case 5:
			return signed(14, 2) // never registered
		case 6:
			return reg(r.Intn(3))
		case 7, 8, 9:
			return signed(int64(15+g.step), r.Intn(3))
		case 10:
			o := signed(30, 0)
			o.X |= xBadSig
			return o
		}
	case "time-unit-change-close":
		// the network time unit is changed (update_settings) while an allocation with settled challenges is open, then it is closed
		switch {
		case g.step == 0:
			return newAlloc()
		case g.step <= 2:
			return upload(g.step-1, false)
		case g.step <= 6:
			l, a := firstOpen()
			if a == nil {
				break
			}
			if len(a.OpenCh) > 0 {
				return &Op{K: "chalresp", Dt: r.Pick64([]int64{1, 5, 30}), A: l, N: int64(r.Intn(3))}
			}
			return &Op{K: "genchal", Dt: r.Pick64([]int64{60, 300, 600}), S: refClient}
		case g.step == 7:
			tu := s.TU / 1000000000
			return &Op{K: "settings", Dt: 5, S: refOwner, N: r.Pick64([]int64{tu * 3, tu * 3, tu * 2, tu / 2, tu / 4})}
		case g.step == 8:
			return &Op{K: "commitsettings", Dt: 5, S: refClient}
		case g.step == 9:
			l, a := firstOpen()
			if a == nil {
				break
			}
			if r.Chance(2, 3) {
				return &Op{K: "cancel", Dt: r.Pick64([]int64{60, 600, 5}), S: a.Owner, A: l}
			}
			return &Op{K: "finalize", Dt: a.Exp - run.Now + r.Pick64([]int64{0, 1, 100}), Dr: r.Pick64([]int64{0, 10}), S: a.Owner, A: l}
		}
	case "odd-extend-then-replace":
		// 2-3 data shards, size increases that are not multiples of the data shards (the recorded per-blobber
		// sizes drift above ceil(size/data)), then a blobber - live or killed - is replaced
		switch {
		case g.step == 0:
			o := newAlloc()
			d := 1
			if nb >= 5 {
				d = 3
			} else if nb >= 4 {
				d = 2
			}
			size := r.Pick64([]int64{GB, 3 * 100 * MB, 10*MB + 1})
			bs := int64(math.Ceil(float64(size) / float64(d)))
			var bl []int
			for _, b := range r.Perm(nb) {
				if g.eligible(s, h, b, bs) && len(bl) < d+1 {
					bl = append(bl, b)
				}
			}
			o.D, o.P, o.N, o.Bl = d, 1, size, bl
			return o
		case g.step <= 3:
			l, a := firstOpen()
			if a == nil {
				break
			}
			return &Op{K: "update", Dt: 5, S: a.Owner, A: l, N: r.Pick64([]int64{1, 1000, 7, GB + 1, 1000001, 2}), V: r.PickU64([]uint64{1e11, 5e11})}
		case g.step == 4:
			_, a := firstOpen()
			if a == nil {
				break
			}
			if r.Chance(1, 3) {
				return &Op{K: "kill", Dt: 5, S: refOwner, B: a.BAs[r.Intn(len(a.BAs))].Blobber}
			}
			return &Op{K: "genchal", Dt: 5, S: refClient}
		case g.step == 5:
			l, a := firstOpen()
			if a == nil {
				break
			}
			rm := a.BAs[r.Intn(len(a.BAs))].Blobber
			for _, d := range a.BAs {
				if s.Blob[d.Blobber].Killed {
					rm = d.Blobber
				}
			}
			ad := -1
			for _, b := range r.Perm(nb) {
				if !inAlloc(a, b) && g.eligible(s, h, b, a.BAs[0].Size) {
					ad = b
				}
			}
			if ad < 0 {
				break
			}
			return &Op{K: "update", Dt: 5, S: a.Owner, A: l, Ad: ad + 1, Rm: rm + 1, V: r.PickU64([]uint64{0, 1e10})}
		case g.step == 6:
			l, a := firstOpen()
			if a == nil {
				break
			}
			return &Op{K: "cancel", Dt: 5, S: a.Owner, A: l}
		}
	case "duplicate-blobber-alloc":
		// a request whose blobber list names one blobber twice (and nothing else), then a close
		switch g.step {
		case 0, 2:
			o := newAlloc()
			if len(o.Bl) > 0 {
				a0 := o.Bl[r.Intn(len(o.Bl))]
				o.D, o.P = 1, 1
				o.Bl = []int{a0, a0}
				if g.step == 2 && nb > 1 {
					o.D = 2
					o.Bl = []int{a0, (a0 + 1) % nb, a0}
				}
			}
			return o
		case 1, 3:
			l, a := firstOpen()
			if a == nil {
				g.step++ // nothing was created: go on
				return &Op{K: "genchal", Dt: 5, S: refClient}
			}
			return &Op{K: "cancel", Dt: 5, S: a.Owner, A: l}
		}
	case "tiny-validator-reward":
		// tiny files and challenges seconds apart: the validators' share of a pass is a handful of tokens
		switch {
		case g.step == 0:
			return newAlloc()
		case g.step <= 2:
			l, a := firstOpen()
			if a == nil || len(a.BAs) == 0 {
				break
			}
			d := a.BAs[(g.step-1)%len(a.BAs)]
			// file size for which a few seconds of storage earn the validators about one token
			n := int64(64 * KB)
			if vr := h.Conf.ValidatorReward; vr > 0 && d.WP > 0 {
				n = int64(pickF(r, []float64{0.3, 0.15, 0.6}) * float64(h.Conf.TimeUnitSec) * float64(GB) / (float64(d.WP) * vr))
			}
			if n < 64*KB {
				n = 64 * KB
			}
			if n > 64*MB {
				n = 64 * MB
			}
			return &Op{K: "commit", Dt: r.Pick64([]int64{1, 5}), S: d.Blobber, A: l, B: d.Blobber, C: a.Owner, N: n}
		case g.step <= 22:
			l, a := firstOpen()
			if a == nil {
				break
			}
			if len(a.OpenCh) > 0 && (g.step%2 == 0 || r.Chance(1, 2)) {
				return &Op{K: "chalresp", Dt: r.Pick64([]int64{1, 1, 2}), A: l, N: int64(r.Intn(3))}
			}
			return &Op{K: "genchal", Dt: r.Pick64([]int64{1, 2, 3, 5, 8, 13, 30, 60}), Dr: r.Pick64([]int64{0, 1}), S: refClient}
		}
	case "free-out-of-order-replay":
		// markers of one assigner redeemed out of numeric nonce order, then every one of them replayed
		order := []int64{200, 100, 150, 300, 50}
		switch {
		case g.step == 0:
			return &Op{K: "addassigner", Dt: 5, S: refOwner, C: refAssigner, F: 100, G: 1000}
		case g.step <= 4:
			return freeOp(order[g.step-1])
		case g.step <= 9:
			return freeOp(order[r.Intn(4)])
		}
	case "enterprise-close":
		// an enterprise allocation closed in the second it started (zero pro-rata cost) or later
		switch {
		case g.step == 0:
			o := newAlloc()
			if r.Chance(1, 2) {
				o.N = r.Pick64([]int64{20 * MB, 10 * MB, GB})
			}
			return o
		case g.step == 1 && r.Chance(1, 2):
			l, a := firstOpen()
			if a == nil {
				break
			}
			g.step = 3
			return &Op{K: "cancel", Dt: 0, S: a.Owner, A: l}
		case g.step <= 2:
			return upload(g.step-1, false)
		case g.step == 3:
			l, a := firstOpen()
			if a == nil {
				break
			}
			if r.Chance(1, 2) {
				return &Op{K: "cancel", Dt: r.Pick64([]int64{0, 5, 60, 600}), S: a.Owner, A: l}
			}
			return &Op{K: "finalize", Dt: a.Exp - run.Now + r.Pick64([]int64{0, 1, 100}), Dr: r.Pick64([]int64{0, 10}), S: a.Owner, A: l}
		case g.step == 4:
			return newAlloc()
		case g.step == 5:
			l, a := firstOpen()
			if a == nil {
				break
			}
			return &Op{K: "cancel", Dt: r.Pick64([]int64{0, 0, 60}), S: a.Owner, A: l}
		}
	case "fail-then-replace-alive":
		// uploads, challenges that fail or expire after the last passed one (LatestSuccessful < LatestFinalized),
		// then the owner replaces that alive blobber: the finalization penalty must come back to the write pool
		switch {
		case g.step == 0:
			return newAlloc()
		case g.step <= 3:
			return upload(g.step-1, false)
		case g.step <= 11:
			l, a := firstOpen()
			if a == nil {
				break
			}
			behind := false
			for _, d := range a.BAs {
				if d.LF > d.LS && d.CPIV > 0 {
					behind = true
				}
			}
			if behind && g.step >= 6 && r.Chance(1, 2) {
				g.step = 11 // go on to the replacement
			} else {
				if len(a.OpenCh) > 0 && r.Chance(2, 3) {
					o := &Op{K: "chalresp", Dt: r.Pick64([]int64{1, 5, 30}), A: l, N: int64(r.Intn(4))}
					if !r.Chance(1, 4) {
						o.X |= xFailTickets
					}
					return o
				}
				// new challenge; sometimes so many rounds later that the open ones have expired
				return &Op{K: "genchal", Dt: r.Pick64([]int64{30, 100, 300}), Dr: r.Pick64([]int64{0, 1, 50, 800}), S: refClient}
			}
			fallthrough
		case g.step == 12:
			l, a := firstOpen()
			if a == nil {
				break
			}
			rm := -1
			for _, d := range a.BAs {
				bp := s.Blob[d.Blobber]
				if !bp.Killed && !bp.Shut && (rm < 0 || (d.LF > d.LS && d.CPIV > 0)) {
					rm = d.Blobber
				}
			}
			ad := -1
			for _, b := range r.Perm(nb) {
				if !inAlloc(a, b) && g.eligible(s, h, b, a.BAs[0].Size) {
					ad = b
				}
			}
			if rm < 0 || ad < 0 {
				break
			}
			g.step = 12
			return &Op{K: "update", Dt: r.Pick64([]int64{5, 60}), S: a.Owner, A: l, Ad: ad + 1, Rm: rm + 1, V: r.PickU64([]uint64{0, 1e10})}
		case g.step == 13:
			l, a := firstOpen()
			if a == nil {
				break
			}
			return &Op{K: "cancel", Dt: 5, S: a.Owner, A: l}
		}
	case "upload-delete-close":
		// data is stored for a while, then everything is deleted (UsedSize back to 0 while the challenge
		// pool still holds the value of the elapsed time), then the allocation is closed
		switch {
		case g.step == 0:
			return newAlloc()
		case g.step <= 2:
			return upload(g.step-1, false)
		case g.step <= 6:
			l, a := firstOpen()
			if a == nil {
				break
			}
			for _, d := range a.BAs {
				if d.Used > 0 {
					dt := r.Pick64([]int64{5, 60})
					if g.step == 3 {
						dt = r.Pick64([]int64{300, 600, 100}) // the wait
					}
					return &Op{K: "commit", Dt: dt, S: d.Blobber, A: l, B: d.Blobber, C: a.Owner, N: -d.Used}
				}
			}
			g.step = 6
			fallthrough
		case g.step == 7:
			l, a := firstOpen()
			if a == nil {
				break
			}
			g.step = 7
			if r.Chance(1, 2) {
				return &Op{K: "cancel", Dt: 5, S: a.Owner, A: l}
			}
			fin := a.Owner
			if r.Chance(1, 2) {
				fin = a.BAs[r.Intn(len(a.BAs))].Blobber
			}
			return &Op{K: "finalize", Dt: a.Exp - run.Now + r.Pick64([]int64{0, 1, 100}), Dr: r.Pick64([]int64{0, 10, 1000}), S: fin, A: l}
		}
	case "price-drop-all-extend":
		// every blobber that holds data lowers its write price, then the owner extends:
		// adjustChallengePool only returns tokens to the write pool
		switch {
		case g.step == 0:
			return newAlloc()
		case g.step <= 3:
			return upload(g.step-1, false)
		case g.step <= 7:
			_, a := firstOpen()
			if a == nil {
				break
			}
			i := g.step - 4
			if i < len(a.BAs) {
				b := a.BAs[i].Blobber
				if s.Blob[b].WP > 1 {
					return &Op{K: "updblobber", Dt: 5, S: refWallet + b, B: b, W: r.Pick64([]int64{1, int64(s.Blob[b].WP / 10), int64(s.Blob[b].WP / 2)}) + 1}
				}
			}
			g.step = 7
			fallthrough
		case g.step == 8:
			l, a := firstOpen()
			if a == nil {
				break
			}
			g.step = 8
			return &Op{K: "update", Dt: r.Pick64([]int64{5, 60, 300}), S: a.Owner, A: l, X: xExtend, V: r.PickU64([]uint64{0, 1e11, 5e11})}
		case g.step == 9:
			l, a := firstOpen()
			if a == nil {
				break
			}
			return &Op{K: "cancel", Dt: 5, S: a.Owner, A: l}
		}
	case "third-party-extend", "owner-handover":
		// an extendable allocation, then tokens attached to an update that names another client as owner_id
		switch g.step {
		case 0:
			return newAlloc()
		case 1, 2:
			l, a := firstOpen()
			if a == nil || a.Owner < 0 {
				break
			}
			o := &Op{K: "update", Dt: 5, A: l, X: xOwnerChange, V: r.PickU64([]uint64{1e9, 1e10, 1e11})}
			if g.script == "third-party-extend" {
				o.S = refClient + (a.Owner-refClient+1)%h.NCli
				o.C = refClient + (a.Owner-refClient+2)%h.NCli
				o.X |= xExtend
			} else {
				o.S = a.Owner
				o.C = refClient + (a.Owner-refClient+1)%h.NCli
				if r.Chance(1, 2) {
					o.X |= xExtend
				}
			}
			return o
		}
	case "killed-replace":
		switch g.step {
		case 0:
			return newAlloc()
		case 1, 2, 3:
			return upload(g.step-1, false)
		case 4:
			_, a := firstOpen()
			if a == nil {
				break
			}
			b := a.BAs[r.Intn(len(a.BAs))].Blobber
			if r.Chance(1, 3) {
				return &Op{K: "shutdown", Dt: 5, S: pickI(r, []int{refOwner, refWallet + b}), B: b}
			}
			return &Op{K: "kill", Dt: 5, S: refOwner, B: b}
		case 5:
			l, a := firstOpen()
			if a == nil {
				break
			}
			rm := -1
			for _, d := range a.BAs {
				if s.Blob[d.Blobber].Killed || s.Blob[d.Blobber].Shut {
					rm = d.Blobber
				}
			}
			ad := -1
			for _, b := range r.Perm(nb) {
				if !inAlloc(a, b) && g.eligible(s, h, b, a.BAs[0].Size) {
					ad = b
				}
			}
			if rm < 0 || ad < 0 {
				break
			}
			return &Op{K: "update", Dt: 5, S: a.Owner, A: l, Ad: ad + 1, Rm: rm + 1, V: r.PickU64([]uint64{0, 1e10})}
		}
	case "exhaust-write-pool":
		// an allocation locked at exactly its cost, then many tiny files each billed as a full 64 KB chunk
		switch {
		case g.step == 0:
			o := newAlloc()
			o.N = r.Pick64([]int64{MB, 2 * MB, 512 * KB})
			var cost uint64
			bs := int64(math.Ceil(float64(o.N) / float64(o.D)))
			for _, b := range o.Bl {
				wp := s.Blob[b].WP
				if wp > h.Conf.MaxWritePrice {
					wp = h.Conf.MaxWritePrice
				}
				cost += uint64(float64(wp) * (float64(bs) / GB))
			}
			o.V = cost + uint64(r.Intn(2))
			return o
		case g.step <= 45:
			l, a := firstOpen()
			if a == nil || len(a.BAs) == 0 {
				break
			}
			d := a.BAs[(g.step/8)%len(a.BAs)]
			return &Op{K: "commit", Dt: r.Pick64([]int64{0, 1, 2}), S: d.Blobber, A: l, B: d.Blobber, C: a.Owner, N: r.Pick64([]int64{1, 100, 1000, CHUNK - 1})}
		}
	case "price-drop-extend":
		switch g.step {
		case 0:
			return newAlloc()
		case 1:
			return upload(0, false)
		case 2:
			return upload(1, true)
		case 3:
			_, a := firstOpen()
			if a == nil || len(a.BAs) < 2 {
				break
			}
			b := a.BAs[1].Blobber
			return &Op{K: "updblobber", Dt: 5, S: refWallet + b, B: b, W: r.Pick64([]int64{1, int64(s.Blob[b].WP / 10), int64(s.Blob[b].WP / 2)}) + 1}
		case 4:
			l, a := firstOpen()
			if a == nil {
				break
			}
			return &Op{K: "update", Dt: 5, S: a.Owner, A: l, X: xExtend, V: r.PickU64([]uint64{1e11, 5e11})}
		}
	case "kill-twice-close":
		switch g.step {
		case 0:
			return newAlloc()
		case 1:
			return upload(0, false)
		case 2, 3:
			_, a := firstOpen()
			if a == nil {
				break
			}
			if g.step == 2 {
				g.aux = a.BAs[r.Intn(len(a.BAs))].Blobber
			}
			k := "kill"
			if g.step == 3 && r.Chance(1, 2) {
				k = "shutdown"
			}
			return &Op{K: k, Dt: 5, S: refOwner, B: g.aux}
		case 4:
			l, a := firstOpen()
			if a == nil {
				break
			}
			if r.Chance(1, 2) {
				return &Op{K: "cancel", Dt: 5, S: a.Owner, A: l}
			}
			return &Op{K: "finalize", Dt: a.Exp - run.Now + 1, S: a.Owner, A: l}
		}
	case "challenge-cycle":
		switch {
		case g.step == 0:
			return newAlloc()
		case g.step <= 3:
			return upload(g.step-1, false)
		case g.step <= 15:
			l, a := firstOpen()
			if a == nil {
				break
			}
			if len(a.OpenCh) > 0 && (g.step%2 == 1 || r.Chance(1, 3)) {
				o := &Op{K: "chalresp", Dt: r.Pick64([]int64{1, 5, 30}), A: l, N: int64(r.Intn(4))}
				if r.Chance(1, 4) {
					o.X |= xFailTickets
				}
				return o
			}
			return &Op{K: "genchal", Dt: r.Pick64([]int64{30, 100, 300}), Dr: r.Pick64([]int64{0, 1, 5}), S: refClient}
		case g.step == 16:
			l, a := firstOpen()
			if a == nil {
				break
			}
			if r.Chance(1, 2) {
				return &Op{K: "cancel", Dt: 5, S: a.Owner, A: l}
			}
			fin := a.Owner
			if r.Chance(1, 2) {
				fin = a.BAs[r.Intn(len(a.BAs))].Blobber // one of the allocation's blobbers finalizes
			}
			return &Op{K: "finalize", Dt: a.Exp - run.Now + r.Pick64([]int64{0, 1, 100}), Dr: r.Pick64([]int64{0, 10, 1000}), S: fin, A: l}
		}
	}
	g.step = -2
	return nil
}
