(* Correspondence for C19: initial min_burn and nonces, a request list run on the real zcnsc
   contract, the outcome of every request and the final nonce of every address used. *)
From ZC Require Import Base.Corr Model.ZcnBurn.
Open Scope Z_scope.

Record zb_case := { zbc_min : Z; zbc_seed : list (Z * Z); zbc_ops : list zb_op;
                    zbc_outs : list zb_out; zbc_final : list (Z * Z) }.

Definition zzz_eqb (x y : Z * Z * Z) : bool :=
  zz_eqb (fst x) (fst y) && (snd x =? snd y).

Definition zb_out_eqb (a b : zb_out) : bool :=
  match a, b with
  | ZbBurned t1 a1 n1, ZbBurned t2 a2 n2 => list_eqb zzz_eqb t1 t2 && (a1 =? a2) && (n1 =? n2)
  | ZbUpdated, ZbUpdated => true
  | ZbFail, ZbFail => true
  | _, _ => false
  end.

Definition zb_check (c : zb_case) : bool :=
  let '(st, outs) := zb_run {| zb_min := zbc_min c; zb_nonces := zbc_seed c |} (zbc_ops c) in
  list_eqb zb_out_eqb outs (zbc_outs c) &&
  forallb (fun an => zb_get (fst an) (zb_nonces st) =? snd an) (zbc_final c).
