(* C27: Pruning never deletes state that a retained block still needs.
   Only statements; each is closed by [exact] of a lemma in Proof/Prune.v.
   A node hash is (origin, id): every trie node hashes the round of the block that created it.
   [pr_ops_ok] states what the trie guarantees of each finalized block (rounds grow; every node of
   the new state was in the previous state or is new with the block's round as origin; nothing
   recorded dead is in the new state or younger than the block); the engine checks it on the real
   trie for every block. *)
From ZC Require Import Model.Prune Proof.Prune.
Open Scope Z_scope.

(* After any history of finalized blocks, pruneClientState calls and roll backs of the LFB to a
   common ancestor (after which rounds are finalized again with other blocks: the dead-node record
   of a round is replaced at every finalize of that round), the whole state of every block of the
   finalized chain that is not below a pruned version is in the node DB (full iteration succeeds).
   By the next theorem every pruned version was at least prune_below_count rounds behind the LFB
   of its time. *)
Theorem C27_prune_safe :
  forall count lfb0 ops, 0 <= count -> pr_ops_ok count (pr_init lfb0) ops = true ->
    let s := pr_run count (pr_init lfb0) ops in
    forall b, In b (ps_blocks s) -> ps_pruned s <= pb_round b -> pr_readable s b = true.
Proof. exact pr_prune_safe. Qed.
Print Assumptions C27_prune_safe.

(* pruneClientState never chooses a version closer than count rounds behind the LFB. *)
Theorem C27_prune_version_behind_lfb :
  forall s count v, pr_version s count = Some v -> v <= ps_lfb s - count.
Proof. exact pr_version_bound. Qed.
Print Assumptions C27_prune_version_behind_lfb.

(* Inside one block, for every sequence of insertNode/deleteNode calls on the trie (including a
   node that is deleted and created again with the identical hash, and a change reverted to the
   node it replaced): nothing the ChangeCollector reports as deleted is part of the block's
   state, and every node of that state that did not exist before the block is among the
   collected changes (so SaveChanges writes it). *)
Theorem C27_collector_deletes_not_live :
  forall live0 ms, pr_micros_ok live0 ms = true ->
    let c := cc_run ms in
    let live := pr_live_run live0 ms in
    (forall h, In h (cc_deletes c) -> ~ In h live) /\
    (forall h, In h live -> In h live0 \/ exists o, In (h, o) (cc_changes c)).
Proof. exact cc_safe. Qed.
Print Assumptions C27_collector_deletes_not_live.

(* Non-vacuity: rounds 97..104 with count 3.  Node (97,1) is replaced at 98, (98,2) at 101; the
   prune at LFB 104 chooses version 100, deletes what was recorded dead at 98 and keeps what was
   recorded at 101; blocks 101..104 stay readable, block 97 does not.  In the collector, deleting
   and re-creating the identical node inside one block leaves it out of Deletes. *)
Example C27_example :
  let ops := [OpBlock 97 [1] [] [(97, 1)];
              OpBlock 98 [2] [(97, 1)] [(98, 2)];
              OpBlock 99 [] [] [(98, 2)];
              OpBlock 100 [3] [] [(98, 2); (100, 3)];
              OpBlock 101 [4] [(98, 2)] [(100, 3); (101, 4)];
              OpBlock 102 [] [] [(100, 3); (101, 4)];
              OpBlock 103 [] [] [(100, 3); (101, 4)];
              OpBlock 104 [] [] [(100, 3); (101, 4)];
              OpPrune] in
  let s := pr_run 3 (pr_init 96) ops in
  pr_ops_ok 3 (pr_init 96) ops = true /\
  pr_version (pr_run 3 (pr_init 96) (firstn 8 ops)) 3 = Some 100 /\
  ps_db s = [(101, 4); (100, 3); (98, 2)] /\
  map (pr_readable s) (ps_blocks s) = [true; true; true; true; true; true; true; false] /\
  (* a fork: X_98 deletes (97,1); roll back to 97; Y_98 changes nothing and REPLACES the record of
     round 98 by an empty one; pruning above 98 later keeps (97,1), which Y's chain still needs *)
  (let ops2 := [OpBlock 97 [1] [] [(97, 1)];
                OpBlock 98 [2] [(97, 1)] [(98, 2)];
                OpRollback 97;
                OpBlock 98 [] [] [(97, 1)];
                OpBlock 99 [] [] [(97, 1)]; OpBlock 100 [] [] [(97, 1)]; OpBlock 101 [] [] [(97, 1)];
                OpBlock 102 [] [] [(97, 1)]; OpBlock 103 [] [] [(97, 1)]; OpBlock 104 [] [] [(97, 1)];
                OpPrune] in
   let s2 := pr_run 3 (pr_init 96) ops2 in
   pr_ops_ok 3 (pr_init 96) ops2 = true /\ ps_pruned s2 = 100 /\
   forallb (pr_readable s2) (ps_blocks s2) = true) /\
  cc_deletes (cc_run [McDel (5, 1); McAdd None (9, 7); McDel (9, 7); McAdd None (9, 7)]) = [(5, 1)] /\
  map fst (cc_changes (cc_run [McDel (5, 1); McAdd None (9, 7); McDel (9, 7); McAdd None (9, 7)])) = [(9, 7)].
Proof. vm_compute. repeat split; reflexivity. Qed.
