(* Lemmas about Model/HashEnc.v (C29, C30): injectivity of the ":"-joined encoding, of the decimal
   encoder and of the Merkle root; "the hash commits to every listed field"; validation verdicts. *)
From ZC Require Import Model.HashEnc.
From Coq Require Import DecimalString DecimalZ.
Open Scope string_scope.

(* ---------- decimal encoder ---------- *)

Lemma he_uint_nocolon : forall d, he_nocolon (NilEmpty.string_of_uint d) = true.
Proof. induction d; simpl; auto. Qed.

Lemma he_dec_nocolon : forall z, he_nocolon (he_dec z) = true.
Proof.
  intro z. unfold he_dec. destruct (Z.to_int z); simpl; apply he_uint_nocolon.
Qed.

Lemma he_dec_inj : forall a b, he_dec a = he_dec b -> a = b.
Proof.
  intros a b H. unfold he_dec in H.
  apply DecimalZ.to_int_inj.
  assert (E : NilEmpty.int_of_string (NilEmpty.string_of_int (Z.to_int a))
            = NilEmpty.int_of_string (NilEmpty.string_of_int (Z.to_int b))) by (rewrite H; reflexivity).
  rewrite !NilEmpty.isi in E. now inversion E.
Qed.

(* ---------- join / split ---------- *)

Lemma he_split_nocolon : forall s, he_nocolon s = true -> he_split s = [s].
Proof.
  induction s as [|c s IH]; simpl; intro H; [reflexivity|].
  apply andb_true_iff in H. destruct H as [Hc Hs].
  apply negb_true_iff in Hc. rewrite Hc. rewrite (IH Hs). reflexivity.
Qed.

Lemma he_split_app : forall s r, he_nocolon s = true ->
  he_split (s ++ String he_colon r) = s :: he_split r.
Proof.
  induction s as [|c s IH]; simpl; intros r H.
  - reflexivity.
  - apply andb_true_iff in H. destruct H as [Hc Hs].
    apply negb_true_iff in Hc. rewrite Hc. rewrite (IH r Hs). reflexivity.
Qed.

Lemma he_join_cons2 : forall x y l, he_join (x :: y :: l) = x ++ String he_colon (he_join (y :: l)).
Proof. intros. unfold he_join. reflexivity. Qed.

Lemma he_split_join : forall l, l <> [] -> Forall (fun s => he_nocolon s = true) l ->
  he_split (he_join l) = l.
Proof.
  induction l as [|x l IH]; intros Hne Hall; [congruence|].
  inversion Hall as [|? ? Hx Hl]; subst.
  destruct l as [|y l].
  - unfold he_join. simpl. now apply he_split_nocolon.
  - rewrite he_join_cons2, he_split_app by assumption.
    f_equal. apply IH; [discriminate|assumption].
Qed.

Theorem he_join_injective : forall l1 l2,
  l1 <> [] -> l2 <> [] ->
  Forall (fun s => he_nocolon s = true) l1 -> Forall (fun s => he_nocolon s = true) l2 ->
  he_join l1 = he_join l2 -> l1 = l2.
Proof.
  intros l1 l2 N1 N2 F1 F2 E.
  rewrite <- (he_split_join l1 N1 F1), <- (he_split_join l2 N2 F2), E. reflexivity.
Qed.

(* without the colon-freeness hypothesis the encoding is ambiguous *)
Lemma he_join_not_injective_with_colons : he_join ["a:b"; "c"] = he_join ["a"; "b:c"].
Proof. reflexivity. Qed.

(* ---------- Merkle root ---------- *)

Lemma he_list_ind2 {A} (P : list A -> Prop) :
  P [] -> (forall a, P [a]) -> (forall a b l, P l -> P (a :: b :: l)) -> forall l, P l.
Proof.
  intros H0 H1 H2.
  fix IH 1. intros [|a [|b l]]; [exact H0|apply H1|apply H2, IH].
Qed.

(* a concrete collision of the tree: the last leaf of an odd level is paired with itself, so
   repeating it gives the same root. This is why Block.Validate must reject repeated transactions. *)
Lemma he_merkle_dup_collision : forall mh a b c,
  he_mroot mh [a; b; c] = he_mroot mh [a; b; c; c].
Proof. reflexivity. Qed.

Section Merkle.
  Variable mh : string -> string -> string.
  Hypothesis Hmh : forall a b c d, mh a b = mh c d -> a = c /\ b = d.

  Lemma he_level_length : forall l, List.length (he_level mh l) = Nat.div2 (S (List.length l)).
  Proof.
    induction l as [| a | a b l IH] using he_list_ind2; [reflexivity|reflexivity|].
    cbn [he_level List.length]. rewrite IH. reflexivity.
  Qed.

  Lemma he_level_nil : forall l, he_level mh l = [] -> l = [].
  Proof. intros [|a [|b l]]; simpl; congruence. Qed.

  Lemma he_level_inj_len : forall l1 l2, List.length l1 = List.length l2 ->
    he_level mh l1 = he_level mh l2 -> l1 = l2.
  Proof.
    induction l1 as [| a | a b l1 IH] using he_list_ind2; intros [|c [|d l2]] HL HE;
      simpl in HL; try discriminate; try reflexivity.
    - simpl in HE. inversion HE as [E]. apply Hmh in E. destruct E; subst. reflexivity.
    - cbn [he_level] in HE. inversion HE as [[E1 E2]]. apply Hmh in E1. destruct E1; subst.
      f_equal. f_equal. apply IH; [lia|assumption].
  Qed.

  Lemma he_div2_lt : forall n, (2 <= n)%nat -> (Nat.div2 (S n) < n)%nat.
  Proof.
    intros n H. pose proof (Nat.div2_odd (S n)) as E.
    destruct (Nat.odd (S n)); cbn [Nat.b2n] in E; lia.
  Qed.

  Lemma he_mroot_go_inj_len : forall f l1 l2,
    List.length l1 = List.length l2 -> (1 <= List.length l1 <= f)%nat ->
    he_mroot_go mh f l1 = he_mroot_go mh f l2 -> l1 = l2.
  Proof.
    induction f as [|f IH]; intros l1 l2 HL Hb HE; [lia|].
    cbn [he_mroot_go] in HE.
    assert (HLL : List.length (he_level mh l1) = List.length (he_level mh l2))
      by (rewrite !he_level_length, HL; reflexivity).
    apply he_level_inj_len; [assumption|].
    destruct (he_level mh l1) as [|x [|x' t1]] eqn:E1;
      destruct (he_level mh l2) as [|y [|y' t2]] eqn:E2; simpl in HLL; try discriminate.
    - reflexivity.
    - now subst.
    - apply IH; [simpl; lia| |assumption].
      assert (L1 : List.length (he_level mh l1) = Nat.div2 (S (List.length l1))) by apply he_level_length.
      rewrite E1 in L1. cbn [List.length] in L1 |- *.
      assert (2 <= List.length l1)%nat.
      { destruct l1 as [|a [|b l1]]; simpl in *; try discriminate; try lia. }
      pose proof (he_div2_lt (List.length l1) H). lia.
  Qed.

  (* equal-length leaf lists with the same root are equal *)
  Theorem he_mroot_inj_len : forall l1 l2, List.length l1 = List.length l2 ->
    he_mroot mh l1 = he_mroot mh l2 -> l1 = l2.
  Proof.
    intros l1 l2 HL HE. destruct l1 as [|a l1]; destruct l2 as [|b l2]; simpl in HL; try discriminate.
    - reflexivity.
    - injection HL as HL'. unfold he_mroot in HE. cbn [List.length] in HE. rewrite <- HL' in HE.
      apply (he_mroot_go_inj_len (S (S (List.length l1)))); [simpl; lia|simpl; lia|exact HE].
  Qed.
End Merkle.

(* Merkle root over duplicate-free leaf lists of ANY length. Needs that a leaf (a transaction hash)
   is never an inner node (domain separation, idealised) and that inner nodes are not "". *)
Section MerkleNoDup.
  Variable mh : string -> string -> string.
  Hypothesis Hmh : forall a b c d, mh a b = mh c d -> a = c /\ b = d.
  Variable leaf : string -> Prop.
  Hypothesis Hsep : forall a b, ~ leaf (mh a b).
  Hypothesis Hne : forall a b, mh a b <> "".

  Fixpoint he_rk (n : nat) (s : string) : Prop :=
    match n with
    | O => leaf s
    | S k => exists a b, s = mh a b /\ he_rk k a /\ he_rk k b
    end.

  Lemma he_rk_unique : forall n m s, he_rk n s -> he_rk m s -> n = m.
  Proof.
    induction n as [|n IH]; destruct m as [|m]; simpl; intros s H1 H2.
    - reflexivity.
    - destruct H2 as (a & b & -> & _). exfalso. eapply Hsep; eauto.
    - destruct H1 as (a & b & -> & _). exfalso. eapply Hsep; eauto.
    - destruct H1 as (a & b & -> & Ha & Hb). destruct H2 as (c & d & E & Hc & Hd).
      apply Hmh in E. destruct E; subst. f_equal. eapply IH; eauto.
  Qed.

  Lemma he_level_rk : forall n l, Forall (he_rk n) l -> Forall (he_rk (S n)) (he_level mh l).
  Proof.
    intros n. induction l as [| a | a b l IH] using he_list_ind2; intros H; cbn [he_level].
    - constructor.
    - inversion H; subst. constructor; [|constructor]. exists a, a. auto.
    - inversion H as [|? ? Ha H']; subst. inversion H' as [|? ? Hb H'']; subst.
      constructor; [exists a, b; auto|apply IH; auto].
  Qed.

  Lemma he_in_level : forall l x, In x (he_level mh l) -> exists a b, x = mh a b /\ In a l /\ In b l.
  Proof.
    induction l as [| a | a b l IH] using he_list_ind2; cbn [he_level]; intros x H.
    - contradiction.
    - destruct H as [<-|[]]. exists a, a; simpl; auto.
    - destruct H as [<-|H]; [exists a, b; simpl; auto|].
      destruct (IH _ H) as (c & d & -> & ? & ?). exists c, d; simpl; auto.
  Qed.

  Lemma he_level_nodup : forall l, NoDup l -> NoDup (he_level mh l).
  Proof.
    induction l as [| a | a b l IH] using he_list_ind2; intro H; cbn [he_level].
    - constructor.
    - constructor; [intros []|constructor].
    - inversion H as [|? ? Na H']; subst. inversion H' as [|? ? Nb H'']; subst.
      constructor; [|apply IH; auto].
      intro Hin. apply he_in_level in Hin. destruct Hin as (c & d & E & Hc & Hd).
      apply Hmh in E. destruct E; subst. apply Na. right. exact Hc.
  Qed.

  Lemma he_level_inj_nodup : forall l1 l2, NoDup l1 -> NoDup l2 ->
    he_level mh l1 = he_level mh l2 -> l1 = l2.
  Proof.
    induction l1 as [| a | a b l1 IH] using he_list_ind2; intros [|c [|d l2]] N1 N2 E;
      cbn [he_level] in E; try discriminate; try reflexivity.
    - inversion E as [E1]. apply Hmh in E1. destruct E1; subst. reflexivity.
    - inversion E as [[E1 E2]]. apply Hmh in E1. destruct E1; subst.
      inversion N2 as [|? ? Nc _]; subst. exfalso. apply Nc. left. reflexivity.
    - inversion E as [[E1 E2]]. apply Hmh in E1. destruct E1; subst.
      inversion N1 as [|? ? Na _]; subst. exfalso. apply Na. left. reflexivity.
    - inversion E as [[E1 E2]]. apply Hmh in E1. destruct E1; subst.
      inversion N1 as [|? ? _ N1']; subst. inversion N1' as [|? ? _ N1'']; subst.
      inversion N2 as [|? ? _ N2']; subst. inversion N2' as [|? ? _ N2'']; subst.
      f_equal. f_equal. apply IH; assumption.
  Qed.

  Lemma he_level_shrinks : forall l x x' t, he_level mh l = x :: x' :: t ->
    (2 <= List.length (x :: x' :: t) < List.length l)%nat.
  Proof.
    intros l x x' t E.
    pose proof (he_level_length mh l) as L. rewrite E in L.
    assert (2 <= List.length l)%nat.
    { destruct l as [|a [|b l]]; cbn in E; try discriminate. simpl. lia. }
    pose proof (he_div2_lt (List.length l) H). cbn [List.length] in *. lia.
  Qed.

  Lemma he_go_fuel : forall f f' l, (1 <= List.length l <= f)%nat -> (List.length l <= f')%nat ->
    he_mroot_go mh f l = he_mroot_go mh f' l.
  Proof.
    induction f as [|f IH]; intros f' l H1 H2; [lia|].
    destruct f' as [|f']; [lia|]. cbn [he_mroot_go].
    destruct (he_level mh l) as [|x [|x' t]] eqn:E; try reflexivity.
    - apply he_level_nil in E. subst. simpl in H1. lia.
    - apply he_level_shrinks in E. apply IH; lia.
  Qed.

  Lemma he_go_rk : forall f n l, Forall (he_rk n) l -> (1 <= List.length l <= f)%nat ->
    exists k, (1 <= k)%nat /\ he_rk (n + k) (he_mroot_go mh f l).
  Proof.
    induction f as [|f IH]; intros n l HF Hb; [lia|].
    cbn [he_mroot_go]. pose proof (he_level_rk n l HF) as HR.
    destruct (he_level mh l) as [|x [|x' t]] eqn:E.
    - apply he_level_nil in E. subst. simpl in Hb. lia.
    - exists 1%nat. split; [lia|]. rewrite Nat.add_1_r. now inversion HR.
    - pose proof (he_level_shrinks _ _ _ _ E) as Hs.
      destruct (IH (S n) (x :: x' :: t) HR) as (k & Hk & Hrk); [lia|].
      exists (S k). split; [lia|]. rewrite Nat.add_succ_r. exact Hrk.
  Qed.

  Lemma he_mroot_go_inj_nodup : forall f n l1 l2,
    Forall (he_rk n) l1 -> Forall (he_rk n) l2 -> NoDup l1 -> NoDup l2 ->
    (1 <= List.length l1 <= f)%nat -> (1 <= List.length l2 <= f)%nat ->
    he_mroot_go mh f l1 = he_mroot_go mh f l2 -> l1 = l2.
  Proof.
    induction f as [|f IH]; intros n l1 l2 F1 F2 N1 N2 B1 B2 HE; [lia|].
    cbn [he_mroot_go] in HE.
    pose proof (he_level_rk n l1 F1) as R1. pose proof (he_level_rk n l2 F2) as R2.
    pose proof (he_level_nodup l1 N1) as D1. pose proof (he_level_nodup l2 N2) as D2.
    apply he_level_inj_nodup; [assumption|assumption|].
    destruct (he_level mh l1) as [|x [|x' t1]] eqn:E1.
    { apply he_level_nil in E1. subst. simpl in B1. lia. }
    all: destruct (he_level mh l2) as [|y [|y' t2]] eqn:E2.
    all: try (apply he_level_nil in E2; subst; simpl in B2; lia).
    - now subst.
    - (* x has rank n+1, the other root has rank >= n+2 *)
      exfalso. pose proof (he_level_shrinks _ _ _ _ E2) as Hs.
      destruct (he_go_rk f (S n) (y :: y' :: t2) R2) as (k & Hk & Hrk); [lia|].
      rewrite <- HE in Hrk. inversion R1 as [|? ? Rx _]; subst.
      pose proof (he_rk_unique _ _ _ Rx Hrk). lia.
    - exfalso. pose proof (he_level_shrinks _ _ _ _ E1) as Hs.
      destruct (he_go_rk f (S n) (x :: x' :: t1) R1) as (k & Hk & Hrk); [lia|].
      rewrite HE in Hrk. inversion R2 as [|? ? Ry _]; subst.
      pose proof (he_rk_unique _ _ _ Ry Hrk). lia.
    - pose proof (he_level_shrinks _ _ _ _ E1). pose proof (he_level_shrinks _ _ _ _ E2).
      apply (IH (S n)); try assumption; lia.
  Qed.

  (* duplicate-free lists of leaves with the same root are equal, whatever their lengths *)
  Theorem he_mroot_inj_nodup : forall l1 l2,
    Forall leaf l1 -> Forall leaf l2 -> NoDup l1 -> NoDup l2 ->
    he_mroot mh l1 = he_mroot mh l2 -> l1 = l2.
  Proof.
    intros l1 l2 F1 F2 N1 N2 HE.
    assert (Hnz : forall l, l <> [] -> Forall leaf l -> he_mroot mh l <> "").
    { intros l Hl HF HR. destruct l as [|a l]; [congruence|]. unfold he_mroot in HR.
      destruct (he_go_rk (S (List.length (a :: l))) 0 (a :: l)) as (k & Hk & Hrk); [exact HF|simpl; lia|].
      rewrite HR in Hrk. destruct k as [|k]; [lia|]. rewrite Nat.add_succ_r in Hrk.
      destruct Hrk as (u & v & Huv & _). symmetry in Huv. eapply Hne; eauto. }
    destruct l1 as [|a l1]; destruct l2 as [|b l2].
    - reflexivity.
    - exfalso. apply (Hnz (b :: l2)); [discriminate|assumption|]. rewrite <- HE. reflexivity.
    - exfalso. apply (Hnz (a :: l1)); [discriminate|assumption|]. rewrite HE. reflexivity.
    - unfold he_mroot in HE.
      set (F := (S (List.length (a :: l1)) + S (List.length (b :: l2)))%nat).
      rewrite (he_go_fuel _ F (a :: l1)) in HE by (subst F; simpl; lia).
      rewrite (he_go_fuel _ F (b :: l2)) in HE by (subst F; simpl; lia).
      apply (he_mroot_go_inj_nodup F 0); try assumption; subst F; simpl; lia.
  Qed.
End MerkleNoDup.

(* ---------- the hash commits to every listed field ---------- *)

Lemma he_pieces_cons : forall Hash mroot e tl o,
  he_pieces Hash mroot (e :: tl) o =
  match he_piece Hash mroot e o, he_pieces Hash mroot tl o with
  | Some (Some s), Some r => Some (s :: r)
  | Some None, Some r => Some r
  | _, _ => None
  end.
Proof. reflexivity. Qed.

Lemma he_eff_nolazy : forall e o, he_lazy e = "" -> he_eff e o = o (he_path e).
Proof. intros e o H. unfold he_eff. rewrite H. destruct (o (he_path e)); reflexivity. Qed.

Section Commit.
  Variable Hash : string -> string.
  Variable mroot : list string -> string.
  Hypothesis HashInj : forall a b, Hash a = Hash b -> a = b.
  Hypothesis HashHex : forall s, he_nocolon (Hash s) = true.
  Hypothesis MrootHex : forall l, he_nocolon (mroot l) = true.

  Notation piece := (he_piece Hash mroot).
  Notation pieces := (he_pieces Hash mroot).

  (* raw string fields (ids, hashes) of the object contain no ':' *)
  Definition he_raw_ok (tbl : list he_entry) (o : he_obj) : Prop :=
    forall e s, In e tbl -> he_enc_of e = EncRaw -> he_eff e o = VStr s -> he_nocolon s = true.

  Lemma he_piece_unguarded : forall e o, he_is_guarded e = false -> piece e o <> Some None.
  Proof.
    intros e o H. unfold he_is_guarded in H. apply negb_false_iff, String.eqb_eq in H.
    unfold he_piece. rewrite H. destruct (he_enc_of e), (he_eff e o); discriminate.
  Qed.

  Lemma he_piece_nocolon : forall e o s, (he_enc_of e = EncRaw -> forall r, he_eff e o = VStr r -> he_nocolon r = true) ->
    piece e o = Some (Some s) -> he_nocolon s = true.
  Proof.
    intros e o s Hraw H. unfold he_piece in H.
    destruct (match he_guard e with EmptyString => false | _ => _ end); [discriminate|].
    destruct (he_enc_of e) eqn:En, (he_eff e o) eqn:Ef; try discriminate; inversion H; subst.
    - eapply Hraw; eauto.
    - apply he_dec_nocolon.
    - apply HashHex.
    - apply MrootHex.
  Qed.

  Lemma he_pieces_nocolon : forall tbl o p, he_raw_ok tbl o -> pieces tbl o = Some p ->
    Forall (fun s => he_nocolon s = true) p.
  Proof.
    induction tbl as [|e tl IH]; intros o p Hraw H.
    - inversion H. constructor.
    - rewrite he_pieces_cons in H.
      assert (Hraw' : he_raw_ok tl o) by (intros e' s' Hin; apply Hraw; right; exact Hin).
      destruct (piece e o) as [[s|]|] eqn:Ep; try discriminate;
        destruct (pieces tl o) as [r|] eqn:Er; try discriminate; inversion H; subst.
      + constructor; [|eapply IH; eauto].
        eapply he_piece_nocolon; [|exact Ep]. intros En r0 Hr0. eapply Hraw; eauto. left. reflexivity.
      + eapply IH; eauto.
  Qed.

  Lemma he_pieces_tail_agree : forall tl o1 o2 p, he_tail_ok tl = true ->
    pieces tl o1 = Some p -> pieces tl o2 = Some p ->
    forall e, In e tl -> piece e o1 = piece e o2.
  Proof.
    induction tl as [|e tl IH]; intros o1 o2 p Hok H1 H2 e0 Hin; [contradiction|].
    destruct tl as [|e' tl'].
    - destruct Hin as [<-|[]]. rewrite he_pieces_cons in H1, H2. cbn [he_pieces] in H1, H2.
      destruct (piece e o1) as [[s1|]|]; destruct (piece e o2) as [[s2|]|]; try discriminate;
        inversion H1; inversion H2; subst; try discriminate; try reflexivity.
      congruence.
    - set (T := e' :: tl') in *.
      assert (Hg : he_is_guarded e = false /\ he_tail_ok T = true).
      { cbn [he_tail_ok] in Hok. subst T. apply andb_true_iff in Hok. destruct Hok as [A B].
        apply negb_true_iff in A. split; assumption. }
      destruct Hg as [Hg Hok'].
      rewrite he_pieces_cons in H1, H2.
      pose proof (he_piece_unguarded e o1 Hg) as U1. pose proof (he_piece_unguarded e o2 Hg) as U2.
      destruct (piece e o1) as [[s1|]|] eqn:P1; try discriminate; try congruence.
      destruct (piece e o2) as [[s2|]|] eqn:P2; try discriminate; try congruence.
      destruct (pieces T o1) as [r1|] eqn:R1; try discriminate.
      destruct (pieces T o2) as [r2|] eqn:R2; try discriminate.
      inversion H1 as [E1]. inversion H2 as [E2]. rewrite <- E1 in E2. injection E2 as -> ->.
      destruct Hin as [<-|Hin]; [congruence|].
      eapply (IH o1 o2 r1); eauto.
  Qed.

  Lemma he_pieces_agree : forall tbl o1 o2 p, he_tbl_ok tbl = true ->
    pieces tbl o1 = Some p -> pieces tbl o2 = Some p ->
    forall e, In e tbl -> piece e o1 = piece e o2.
  Proof.
    intros [|e tl] o1 o2 p Hok H1 H2; [discriminate|].
    apply (he_pieces_tail_agree (e :: tl) o1 o2 p); try assumption.
    cbn [he_tbl_ok] in Hok. destruct tl; [reflexivity|]. exact Hok.
  Qed.

  Lemma he_pieces_nonempty : forall tbl o p, he_tbl_ok tbl = true -> pieces tbl o = Some p -> p <> [].
  Proof.
    intros [|e tl] o p Hok H; [discriminate|].
    cbn [he_tbl_ok] in Hok. apply andb_true_iff in Hok. destruct Hok as [A _].
    apply negb_true_iff in A. pose proof (he_piece_unguarded e o A) as U.
    rewrite he_pieces_cons in H.
    destruct (piece e o) as [[s|]|]; try discriminate; try congruence.
    destruct (pieces tl o); try discriminate. inversion H. discriminate.
  Qed.

  (* equal hashes => every table entry contributes the same piece (and is present/absent alike) *)
  Theorem he_hash_pieces_agree : forall tbl o1 o2 h, he_tbl_ok tbl = true ->
    he_raw_ok tbl o1 -> he_raw_ok tbl o2 ->
    he_hash Hash mroot tbl o1 = Some h -> he_hash Hash mroot tbl o2 = Some h ->
    forall e, In e tbl -> piece e o1 = piece e o2.
  Proof.
    intros tbl o1 o2 h Hok R1 R2 H1 H2.
    unfold he_hash, he_data in H1, H2.
    destruct (pieces tbl o1) as [p1|] eqn:P1; [|discriminate].
    destruct (pieces tbl o2) as [p2|] eqn:P2; [|discriminate].
    cbn [option_map] in H1, H2. inversion H1 as [E1]. inversion H2 as [E2].
    assert (E : he_join p1 = he_join p2) by (apply HashInj; congruence).
    assert (Ep : p1 = p2).
    { apply he_join_injective.
      - exact (he_pieces_nonempty tbl o1 p1 Hok P1).
      - exact (he_pieces_nonempty tbl o2 p2 Hok P2).
      - exact (he_pieces_nocolon tbl o1 p1 R1 P1).
      - exact (he_pieces_nocolon tbl o2 p2 R2 P2).
      - exact E. }
    subst p2. eapply he_pieces_agree; eauto.
  Qed.

  (* a written piece determines the committed value, given injectivity of the merkle root on the
     two leaf lists at hand *)
  Lemma he_piece_inj : forall e o1 o2 s,
    piece e o1 = Some (Some s) -> piece e o2 = Some (Some s) ->
    (forall l1 l2, he_eff e o1 = VList l1 -> he_eff e o2 = VList l2 -> mroot l1 = mroot l2 -> l1 = l2) ->
    he_eff e o1 = he_eff e o2.
  Proof.
    intros e o1 o2 s H1 H2 HM. unfold he_piece in H1, H2.
    destruct (match he_guard e with EmptyString => false | _ => match o1 _ with VNil => true | _ => false end end); [discriminate|].
    destruct (match he_guard e with EmptyString => false | _ => match o2 _ with VNil => true | _ => false end end); [discriminate|].
    destruct (he_enc_of e), (he_eff e o1) eqn:F1, (he_eff e o2) eqn:F2; try discriminate;
      inversion H1; inversion H2; subst.
    - congruence.
    - f_equal. apply he_dec_inj. congruence.
    - f_equal. apply HashInj. congruence.
    - f_equal. apply HM; congruence.
  Qed.
  Definition he_no_merkle (tbl : list he_entry) : bool :=
    forallb (fun e => match he_enc_of e with EncMerkle => false | _ => true end) tbl.

  Lemma he_pieces_defined_piece : forall tbl o p e,
    pieces tbl o = Some p -> In e tbl -> piece e o <> None.
  Proof.
    induction tbl as [|e0 tl IH]; intros o p e H Hin; [contradiction|].
    rewrite he_pieces_cons in H. destruct Hin as [->|Hin].
    - intro P. rewrite P in H. discriminate.
    - destruct (piece e0 o) as [[?|]|]; try discriminate;
        destruct (pieces tl o) as [r|] eqn:R; try discriminate; eapply IH; eauto.
  Qed.

  (* tables without merkle entries (Transaction.HashData): no side conditions on lists *)
  Theorem he_hash_commits_nomerkle : forall tbl o1 o2 h,
    he_tbl_ok tbl = true -> he_no_merkle tbl = true ->
    he_raw_ok tbl o1 -> he_raw_ok tbl o2 ->
    he_hash Hash mroot tbl o1 = Some h -> he_hash Hash mroot tbl o2 = Some h ->
    forall e, In e tbl ->
      piece e o1 = piece e o2 /\ (piece e o1 <> Some None -> he_eff e o1 = he_eff e o2).
  Proof.
    intros tbl o1 o2 h Hok Hnm R1 R2 H1 H2 e Hin.
    pose proof (he_hash_pieces_agree tbl o1 o2 h Hok R1 R2 H1 H2 e Hin) as Ae.
    split; [exact Ae|]. intro Hpres.
    assert (D1 : piece e o1 <> None).
    { unfold he_hash, he_data in H1. destruct (pieces tbl o1) as [p|] eqn:P; [|discriminate].
      eapply he_pieces_defined_piece; eauto. }
    destruct (piece e o1) as [[s|]|] eqn:P1; try congruence.
    apply (he_piece_inj e o1 o2 s P1); [congruence|].
    intros l1 l2 F1 _ _. exfalso.
    unfold he_no_merkle in Hnm. rewrite forallb_forall in Hnm. specialize (Hnm e Hin).
    unfold he_piece in P1.
    destruct (match he_guard e with EmptyString => false | _ => _ end); [discriminate|].
    rewrite F1 in P1. destruct (he_enc_of e); discriminate.
  Qed.
End Commit.

(* ---------- instantiation with the concrete Merkle tree ---------- *)

Section BlockCommit.
  Variable Hash : string -> string.
  Variable mh : string -> string -> string.
  Variable leaf : string -> Prop.
  Hypothesis HashInj : forall a b, Hash a = Hash b -> a = b.
  Hypothesis HashHex : forall s, he_nocolon (Hash s) = true.
  Hypothesis Hmh : forall a b c d, mh a b = mh c d -> a = c /\ b = d.
  Hypothesis MhHex : forall a b, he_nocolon (mh a b) = true.
  Hypothesis Hsep : forall a b, ~ leaf (mh a b).
  Hypothesis Hne : forall a b, mh a b <> "".

  Lemma he_mroot_go_hex : forall f l, he_nocolon (he_mroot_go mh f l) = true.
  Proof.
    induction f as [|f IH]; intro l; [reflexivity|]. cbn [he_mroot_go].
    destruct (he_level mh l) as [|x [|x' t]] eqn:E; try apply IH.
    destruct l as [|a [|b l]]; cbn in E; try discriminate; inversion E; apply MhHex.
  Qed.

  Lemma he_mroot_hex : forall l, he_nocolon (he_mroot mh l) = true.
  Proof. intros [|a l]; [reflexivity|apply he_mroot_go_hex]. Qed.

  (* what Block.Validate + transaction validation establish about the transaction list:
     transaction hashes are pairwise different and are genuine leaves; there is one output hash
     per transaction *)
  Definition he_txns_wf (o : he_obj) : Prop :=
    (forall hs, o he_txn_hashes = VList hs -> NoDup hs /\ Forall leaf hs) /\
    (forall hs os, o he_txn_hashes = VList hs -> o he_txn_outputs = VList os ->
                   List.length os = List.length hs).

  Lemma he_hash_defined_piece : forall tbl o h e,
    he_hash Hash (he_mroot mh) tbl o = Some h -> In e tbl ->
    he_piece Hash (he_mroot mh) e o <> None.
  Proof.
    intros tbl o h e H Hin P. unfold he_hash, he_data in H.
    assert (N : he_pieces Hash (he_mroot mh) tbl o = None).
    { clear - Hin P. induction tbl as [|e0 tl IH]; [contradiction|].
      rewrite he_pieces_cons. destruct Hin as [->|Hin].
      - rewrite P. reflexivity.
      - rewrite (IH Hin). destruct (he_piece Hash (he_mroot mh) e0 o) as [[?|]|]; reflexivity. }
    rewrite N in H. discriminate.
  Qed.

  Theorem he_hash_commits_to_listed_fields : forall tbl o1 o2 h,
    he_tbl_ok tbl = true -> he_merkle_ok tbl = true ->
    he_raw_ok tbl o1 -> he_raw_ok tbl o2 -> he_txns_wf o1 -> he_txns_wf o2 ->
    he_hash Hash (he_mroot mh) tbl o1 = Some h -> he_hash Hash (he_mroot mh) tbl o2 = Some h ->
    forall e, In e tbl ->
      he_piece Hash (he_mroot mh) e o1 = he_piece Hash (he_mroot mh) e o2 /\
      (he_piece Hash (he_mroot mh) e o1 <> Some None -> he_eff e o1 = he_eff e o2).
  Proof.
    intros tbl o1 o2 h Hok Hmk R1 R2 [W1a W1b] [W2a W2b] H1 H2.
    pose proof (he_hash_pieces_agree Hash (he_mroot mh) HashInj HashHex he_mroot_hex
                  tbl o1 o2 h Hok R1 R2 H1 H2) as Agree.
    (* the transaction-hash entry first: duplicate-free leaf lists of any length *)
    assert (TxH : forall e, In e tbl -> he_is_txn_hash_entry e = true ->
                  o1 he_txn_hashes = o2 he_txn_hashes).
    { intros e Hin Ht. pose proof (Agree e Hin) as Ae.
      unfold he_is_txn_hash_entry in Ht. destruct (he_enc_of e) eqn:En; try discriminate.
      apply andb_true_iff in Ht. destruct Ht as [Ht Hg]. apply negb_true_iff in Hg.
      apply andb_true_iff in Ht. destruct Ht as [Hp Hl]. apply String.eqb_eq in Hp, Hl.
      pose proof (he_piece_unguarded Hash (he_mroot mh) e o1 Hg) as U1.
      pose proof (he_hash_defined_piece tbl o1 h e H1 Hin) as D1.
      destruct (he_piece Hash (he_mroot mh) e o1) as [[s|]|] eqn:P1; try congruence.
      assert (E : he_eff e o1 = he_eff e o2).
      { apply (he_piece_inj Hash (he_mroot mh) HashInj e o1 o2 s P1); [congruence|].
        intros l1 l2 F1 F2 HR. rewrite he_eff_nolazy in F1, F2 by assumption. rewrite Hp in F1, F2.
        destruct (W1a _ F1), (W2a _ F2). eapply he_mroot_inj_nodup; eauto. }
      rewrite !he_eff_nolazy in E by assumption. rewrite Hp in E. exact E. }
    intros e Hin. split; [apply Agree; assumption|]. intro Hpres.
    pose proof (Agree e Hin) as Ae.
    pose proof (he_hash_defined_piece tbl o1 h e H1 Hin) as D1.
    destruct (he_piece Hash (he_mroot mh) e o1) as [[s|]|] eqn:P1; try congruence.
    apply (he_piece_inj Hash (he_mroot mh) HashInj e o1 o2 s P1); [congruence|].
    intros l1 l2 F1 F2 HR.
    assert (En : he_enc_of e = EncMerkle).
    { unfold he_piece in P1.
      destruct (match he_guard e with EmptyString => false | _ => _ end); [discriminate|].
      rewrite F1 in P1. destruct (he_enc_of e); try discriminate. reflexivity. }
    unfold he_merkle_ok in Hmk. rewrite forallb_forall in Hmk. pose proof (Hmk e Hin) as Me.
    rewrite En in Me. apply andb_true_iff in Me. destruct Me as [Hl Me].
    apply String.eqb_eq in Hl. rewrite he_eff_nolazy in F1, F2 by assumption.
    apply orb_true_iff in Me. destruct Me as [Hp|Me].
    - apply String.eqb_eq in Hp. rewrite Hp in F1, F2.
      destruct (W1a _ F1), (W2a _ F2). eapply he_mroot_inj_nodup; eauto.
    - apply andb_true_iff in Me. destruct Me as [Hp Hex]. apply String.eqb_eq in Hp.
      rewrite Hp in F1, F2.
      apply existsb_exists in Hex. destruct Hex as (eh & Hinh & Hth).
      pose proof (TxH eh Hinh Hth) as Eh.
      (* the hash entry is written in o1, so its value is a list there *)
      assert (exists hs, o1 he_txn_hashes = VList hs) as [hs Hhs].
      { pose proof (he_hash_defined_piece tbl o1 h eh H1 Hinh) as Dh.
        unfold he_is_txn_hash_entry in Hth. destruct (he_enc_of eh) eqn:Enh; try discriminate.
        apply andb_true_iff in Hth. destruct Hth as [Hth Hgh]. apply negb_true_iff in Hgh.
        apply andb_true_iff in Hth. destruct Hth as [Hph Hlh]. apply String.eqb_eq in Hph, Hlh.
        unfold he_piece in Dh. unfold he_is_guarded in Hgh.
        apply negb_false_iff, String.eqb_eq in Hgh. rewrite Hgh, Enh in Dh.
        rewrite he_eff_nolazy in Dh by assumption. rewrite Hph in Dh.
        destruct (o1 he_txn_hashes); try congruence. eexists; reflexivity. }
      apply (he_mroot_inj_len mh Hmh); [|exact HR].
      rewrite (W1b _ _ Hhs F1). rewrite Eh in Hhs. rewrite (W2b _ _ Hhs F2). reflexivity.
  Qed.
End BlockCommit.

(* ---------- Block.Validate ---------- *)

Lemma bk_validate_ok : forall i, bk_validate i = BkOk ->
  bki_chain_ok i = true /\ bki_hash i <> "" /\ bki_miner i <> "" /\ bki_miner_known i = true /\
  (forall n, bki_txnsmap i = Some n -> n = bki_ntxns i) /\
  bki_hash i = bki_computed i /\ bki_sig i = Some true.
Proof.
  intros i H. unfold bk_validate in H.
  destruct (bki_chain_ok i); cbn [negb] in H; [|discriminate].
  destruct (String.eqb_spec (bki_hash i) ""); [discriminate|].
  destruct (String.eqb_spec (bki_miner i) ""); [discriminate|].
  destruct (bki_miner_known i); cbn [negb] in H; [|discriminate].
  assert (Hm : forall n, bki_txnsmap i = Some n -> n = bki_ntxns i).
  { intros m Hm. rewrite Hm in H. destruct (Nat.eqb_spec (bki_ntxns i) m); [congruence|discriminate]. }
  destruct (match bki_txnsmap i with Some n => negb (bki_ntxns i =? n)%nat | None => false end); [discriminate|].
  destruct (String.eqb_spec (bki_hash i) (bki_computed i)); cbn [negb] in H; [|discriminate].
  destruct (bki_sig i) as [[|]|]; try discriminate.
  repeat split; auto.
Qed.

Lemma bk_validate_ok_iff : forall i, bk_validate i = BkOk <->
  (bki_chain_ok i = true /\ bki_hash i <> "" /\ bki_miner i <> "" /\ bki_miner_known i = true /\
   (forall n, bki_txnsmap i = Some n -> n = bki_ntxns i) /\
   bki_hash i = bki_computed i /\ bki_sig i = Some true).
Proof.
  intro i. split; [apply bk_validate_ok|].
  intros (A & B & C & D & E & F & G). unfold bk_validate.
  rewrite A, D, G. cbn [negb].
  destruct (String.eqb_spec (bki_hash i) ""); [contradiction|].
  destruct (String.eqb_spec (bki_miner i) ""); [contradiction|].
  destruct (bki_txnsmap i) as [m|].
  - rewrite (E m eq_refl). rewrite Nat.eqb_refl. cbn [negb].
    destruct (String.eqb_spec (bki_hash i) (bki_computed i)); [reflexivity|contradiction].
  - destruct (String.eqb_spec (bki_hash i) (bki_computed i)); [reflexivity|contradiction].
Qed.

Lemma he_nodup_length_le : forall l : list string, (List.length (nodup string_dec l) <= List.length l)%nat.
Proof.
  induction l as [|a l IH]; simpl; [lia|]. destruct (in_dec string_dec a l); simpl; lia.
Qed.

Lemma he_nodup_length_lt : forall l : list string, ~ NoDup l ->
  (List.length (nodup string_dec l) < List.length l)%nat.
Proof.
  induction l as [|a l IH]; intro H.
  - exfalso. apply H. constructor.
  - simpl. destruct (in_dec string_dec a l) as [Hin|Hnin].
    + pose proof (he_nodup_length_le l). lia.
    + simpl. assert (~ NoDup l) by (intro N; apply H; constructor; assumption).
      specialize (IH H0). lia.
Qed.

(* after ComputeProperties/ComputeTxnMap (TxnsMap = set of transaction hashes) a block that
   repeats a transaction hash is rejected *)
Lemma bk_validate_rejects_duplicates : forall i hashes,
  bki_ntxns i = List.length hashes -> bki_txnsmap i = Some (bk_txnsmap_of hashes) ->
  ~ NoDup hashes -> bk_validate i <> BkOk.
Proof.
  intros i hashes Hn Hm Hd Hok. apply bk_validate_ok in Hok.
  destruct Hok as (_ & _ & _ & _ & E & _). specialize (E _ Hm).
  unfold bk_txnsmap_of in E. pose proof (he_nodup_length_lt hashes Hd). lia.
Qed.

Lemma bk_validate_dup_verdict : forall i hashes,
  bki_chain_ok i = true -> bki_hash i <> "" -> bki_miner i <> "" -> bki_miner_known i = true ->
  bki_ntxns i = List.length hashes -> bki_txnsmap i = Some (bk_txnsmap_of hashes) ->
  ~ NoDup hashes -> bk_validate i = BkDuplicateTxns.
Proof.
  intros i hashes A B C D Hn Hm Hd. unfold bk_validate. rewrite A, D, Hm. cbn [negb].
  destruct (String.eqb_spec (bki_hash i) ""); [contradiction|].
  destruct (String.eqb_spec (bki_miner i) ""); [contradiction|].
  pose proof (he_nodup_length_lt hashes Hd). unfold bk_txnsmap_of.
  destruct (Nat.eqb_spec (bki_ntxns i) (List.length (nodup string_dec hashes))); [lia|reflexivity].
Qed.

(* the duplicate check is skipped when TxnsMap is nil (ComputeProperties not run) *)
Lemma bk_validate_dup_unchecked_without_map : forall i,
  bki_txnsmap i = None -> bk_validate i = bk_validate
    {| bki_chain_ok := bki_chain_ok i; bki_hash := bki_hash i; bki_miner := bki_miner i;
       bki_miner_known := bki_miner_known i; bki_ntxns := 0; bki_txnsmap := None;
       bki_computed := bki_computed i; bki_sig := bki_sig i |}.
Proof. intros i H. unfold bk_validate. rewrite H. reflexivity. Qed.

(* ---------- Transaction acceptance ---------- *)

Lemma tx_accept_ok : forall i, tx_accept i = TxOk ->
  txi_sc_data_ok i = true /\ txi_pk_empty i = false /\
  txi_key_id i = Some (tx_client_after i) /\
  txi_chain_ok i = true /\ txi_hash i <> "" /\ txi_in_time i = true /\
  tx_client_after i <> txi_to i /\
  txi_hash i = txi_computed i /\ txi_sig i = Some true /\
  (txi_output_hash i = "" \/ txi_output_hash i = txi_output_computed i).
Proof.
  intros i H. unfold tx_accept in H.
  destruct (tx_compute_properties i) eqn:CP; try discriminate.
  unfold tx_compute_properties in CP.
  destruct (txi_sc_data_ok i); cbn [negb] in CP; [|discriminate].
  destruct (txi_pk_empty i); [discriminate|].
  assert (K : txi_key_id i = Some (tx_client_after i)).
  { unfold tx_client_after. destruct (txi_key_id i) as [id|]; [|discriminate].
    destruct (txi_client_empty i); [reflexivity|].
    destruct (String.eqb_spec id (txi_client i)); [congruence|discriminate]. }
  unfold tx_validate_wrt_time in H.
  destruct (negb (txi_to_is_hash i) && negb (txi_to i =? "")); [discriminate|].
  destruct (txi_chain_ok i); cbn [negb] in H; [|discriminate].
  destruct (String.eqb_spec (txi_hash i) ""); [discriminate|].
  destruct (txi_in_time i); cbn [negb] in H; [|discriminate].
  destruct (String.eqb_spec (tx_client_after i) (txi_to i)); [discriminate|].
  destruct (String.eqb_spec (txi_hash i) (txi_computed i)); cbn [negb] in H; [|discriminate].
  destruct (txi_sig i) as [[|]|]; try discriminate.
  repeat split; auto.
  destruct (String.eqb_spec (txi_output_hash i) ""); [left; assumption|].
  destruct (String.eqb_spec (txi_output_hash i) (txi_output_computed i)); [right; assumption|].
  discriminate.
Qed.

Section TxTamper.
  Variable Hash : string -> string.
  Variable mroot : list string -> string.
  Hypothesis HashInj : forall a b, Hash a = Hash b -> a = b.
  Hypothesis HashHex : forall s, he_nocolon (Hash s) = true.
  Hypothesis MrootHex : forall l, he_nocolon (mroot l) = true.
  Variable tbl : list he_entry.
  Hypothesis Hok : he_tbl_ok tbl = true.
  Hypothesis Hnm : he_no_merkle tbl = true.
  Variable env : tx_env.

  Notation txin := (tx_in_of Hash mroot tbl env).

  (* the object whose fields HashData reads: the client id is the one ComputeProperties leaves *)
  Definition tx_hashed (o : he_obj) : he_obj :=
    he_upd o "ClientID" (VStr (tx_client_after (txin o))).

  Lemma tx_in_of_computed : forall o, txi_computed (txin o) =
    match he_hash Hash mroot tbl (tx_hashed o) with Some h => h | None => "" end.
  Proof. reflexivity. Qed.

  Lemma tx_in_of_hash : forall o, txi_hash (txin o) = he_str o "Hash".
  Proof. reflexivity. Qed.

  (* Tampering: o was accepted; o' keeps its Hash (and anything else) but some field listed in the
     table now has another value (and is still of the right Go type). Then o' is rejected. *)
  Theorem tx_tampered_listed_field_rejected : forall o o',
    he_raw_ok tbl (tx_hashed o) -> he_raw_ok tbl (tx_hashed o') ->
    he_hash Hash mroot tbl (tx_hashed o) <> None ->
    he_hash Hash mroot tbl (tx_hashed o') <> None ->
    he_str o' "Hash" = he_str o "Hash" ->
    (exists e, In e tbl /\ he_piece Hash mroot e (tx_hashed o) <> Some None /\
               he_eff e (tx_hashed o) <> he_eff e (tx_hashed o')) ->
    tx_accept (txin o) = TxOk -> tx_accept (txin o') <> TxOk.
  Proof.
    intros o o' R1 R2 D1 D2 HH (e & Hin & Hpres & Hdiff) A1 A2.
    apply tx_accept_ok in A1. apply tx_accept_ok in A2.
    destruct A1 as (_ & _ & _ & _ & _ & _ & _ & E1 & _).
    destruct A2 as (_ & _ & _ & _ & _ & _ & _ & E2 & _).
    rewrite tx_in_of_computed in E1, E2. rewrite !tx_in_of_hash in E1, E2.
    destruct (he_hash Hash mroot tbl (tx_hashed o)) as [h1|] eqn:H1; [|congruence].
    destruct (he_hash Hash mroot tbl (tx_hashed o')) as [h2|] eqn:H2; [|congruence].
    assert (Hh : h2 = h1) by congruence. rewrite Hh in H2.
    destruct (he_hash_commits_nomerkle Hash mroot HashInj HashHex MrootHex
                tbl (tx_hashed o) (tx_hashed o') h1 Hok Hnm R1 R2 H1 H2 e Hin) as [_ C].
    apply Hdiff, C, Hpres.
  Qed.
End TxTamper.

(* ---------- what is not read cannot matter (used for the refutations) ---------- *)

Definition he_reads (t : list he_entry) : list string :=
  map he_path t ++ map he_guard t ++ map he_lazy_path t.

Definition tx_read_paths : list string :=
  ["PublicKey"; "ClientID"; "ToClientID"; "Hash"; "Signature"; "OutputHash"; "TransactionOutput";
   "TransactionData"; "TransactionType"].

Lemma he_piece_ext : forall Hash mroot e o1 o2,
  o1 (he_path e) = o2 (he_path e) -> o1 (he_guard e) = o2 (he_guard e) ->
  o1 (he_lazy_path e) = o2 (he_lazy_path e) ->
  he_piece Hash mroot e o1 = he_piece Hash mroot e o2.
Proof.
  intros Hash mroot e o1 o2 A B C. unfold he_piece, he_eff. rewrite A, C.
  destruct (he_guard e) as [|a g]; [reflexivity|rewrite B; reflexivity].
Qed.

Lemma he_pieces_ext : forall Hash mroot tbl o1 o2,
  (forall q, In q (he_reads tbl) -> o1 q = o2 q) ->
  he_pieces Hash mroot tbl o1 = he_pieces Hash mroot tbl o2.
Proof.
  intros Hash mroot. induction tbl as [|e tl IH]; intros o1 o2 H; [reflexivity|].
  rewrite !he_pieces_cons.
  rewrite (he_piece_ext Hash mroot e o1 o2).
  - rewrite (IH o1 o2); [reflexivity|].
    intros q Hq. apply H. unfold he_reads in *. cbn [map]. rewrite !in_app_iff in *.
    cbn [In]. tauto.
  - apply H. unfold he_reads. cbn [map]. rewrite !in_app_iff. cbn [In]. tauto.
  - apply H. unfold he_reads. cbn [map]. rewrite !in_app_iff. cbn [In]. tauto.
  - apply H. unfold he_reads. cbn [map]. rewrite !in_app_iff. cbn [In]. tauto.
Qed.

Lemma he_hash_ext : forall Hash mroot tbl o1 o2,
  (forall q, In q (he_reads tbl) -> o1 q = o2 q) ->
  he_hash Hash mroot tbl o1 = he_hash Hash mroot tbl o2.
Proof.
  intros. unfold he_hash, he_data. rewrite (he_pieces_ext Hash mroot tbl o1 o2); auto.
Qed.

Lemma he_str_ext : forall (o1 o2 : he_obj) p, o1 p = o2 p -> he_str o1 p = he_str o2 p.
Proof. intros o1 o2 p H. unfold he_str. rewrite H. reflexivity. Qed.

(* two objects that agree on everything validation and the hash table read give the same
   validation input, hence the same verdict *)
Lemma tx_in_of_ext : forall Hash mroot tbl env o1 o2,
  (forall q, In q (tx_read_paths ++ he_reads tbl) -> o1 q = o2 q) ->
  tx_in_of Hash mroot tbl env o1 = tx_in_of Hash mroot tbl env o2.
Proof.
  intros Hash mroot tbl env o1 o2 H.
  assert (R : forall q, In q tx_read_paths -> o1 q = o2 q)
    by (intros q Hq; apply H; apply in_or_app; left; exact Hq).
  assert (S : forall q, In q tx_read_paths -> he_str o1 q = he_str o2 q)
    by (intros q Hq; apply he_str_ext, R, Hq).
  unfold tx_in_of.
  rewrite (S "PublicKey"), (S "ClientID"), (S "ToClientID"), (S "Hash"), (S "Signature"),
    (S "OutputHash"), (S "TransactionOutput"), (R "TransactionType"), (R "TransactionData")
    by (unfold tx_read_paths; cbn [In]; tauto).
  set (c := if (he_str o2 "ClientID" =? "")%string then _ else _).
  rewrite (he_hash_ext Hash mroot tbl (he_upd o1 "ClientID" (VStr c)) (he_upd o2 "ClientID" (VStr c))).
  - reflexivity.
  - intros q Hq. unfold he_upd. destruct (String.eqb q "ClientID"); [reflexivity|].
    apply H. apply in_or_app. right. exact Hq.
Qed.

Lemma he_upd_other : forall o p v q, q <> p -> he_upd o p v q = o q.
Proof.
  intros o p v q H. unfold he_upd. destruct (String.eqb_spec q p); [contradiction|reflexivity].
Qed.

Lemma he_mem_false_not_in : forall s l, he_mem s l = false -> ~ In s l.
Proof.
  intros s l H Hin. unfold he_mem in H.
  assert (existsb (String.eqb s) l = true).
  { apply existsb_exists. exists s. split; [assumption|apply String.eqb_refl]. }
  congruence.
Qed.

(* a field that is neither hashed nor read by validation can be changed freely *)
Theorem tx_unread_field_not_bound : forall Hash mroot tbl env o p v,
  he_mem p (tx_read_paths ++ he_reads tbl) = false ->
  tx_accept (tx_in_of Hash mroot tbl env (he_upd o p v)) = tx_accept (tx_in_of Hash mroot tbl env o).
Proof.
  intros Hash mroot tbl env o p v H. f_equal. apply tx_in_of_ext.
  intros q Hq. apply he_upd_other. intro E. subst q.
  exact (he_mem_false_not_in _ _ H Hq).
Qed.

(* ---------- client id ---------- *)
Lemma cl_validate_spec : forall id key_hash,
  cl_validate id key_hash = true <-> (id <> "" /\ id = key_hash).
Proof.
  intros id kh. unfold cl_validate. rewrite andb_true_iff, negb_true_iff.
  split.
  - intros [A B]. apply String.eqb_neq in A. apply String.eqb_eq in B. split; assumption.
  - intros [A B]. split; [apply String.eqb_neq; assumption|apply String.eqb_eq; assumption].
Qed.

(* every construction path is a sequence of "write the key, recompute" steps: the stored key is
   always the hashed key *)
Lemma cl_set_public_key_consistent : forall decode Hash s k,
  cl_consistent decode Hash s -> cl_consistent decode Hash (cl_set_public_key decode Hash s k).
Proof.
  intros decode Hash s k H. unfold cl_set_public_key. destruct (decode k) as [b|] eqn:D; [|exact H].
  split; cbn; [exact D|reflexivity].
Qed.

Lemma cl_set_public_key_fresh : forall decode Hash s k b, decode k = Some b ->
  cl_consistent decode Hash (cl_set_public_key decode Hash s k).
Proof.
  intros decode Hash s k b D. unfold cl_set_public_key. rewrite D. split; cbn; [exact D|reflexivity].
Qed.

Fixpoint cl_run decode Hash (s : cl_state) (ks : list string) : cl_state :=
  match ks with [] => s | k :: tl => cl_run decode Hash (cl_set_public_key decode Hash s k) tl end.

Lemma cl_run_consistent : forall decode Hash ks s,
  cl_consistent decode Hash s -> cl_consistent decode Hash (cl_run decode Hash s ks).
Proof.
  intros decode Hash. induction ks as [|k tl IH]; intros s H; [exact H|].
  cbn. apply IH. apply cl_set_public_key_consistent. exact H.
Qed.

(* the stale shape breaks it as soon as the normalised spelling decodes to other bytes whose hash
   differs (MIRACL 129-byte form vs herumi 64-byte form) *)
Lemma cl_stale_inconsistent : forall decode Hash norm s k b b',
  decode k = Some b -> decode (norm k) = Some b' -> Hash b <> Hash b' ->
  ~ cl_consistent decode Hash (cl_set_public_key_stale decode Hash norm s k).
Proof.
  intros decode Hash norm s k b b' D D' HN [A B]. unfold cl_set_public_key_stale in *.
  rewrite D in *. cbn in *. rewrite D' in A. inversion A; subst. apply HN. reflexivity.
Qed.
