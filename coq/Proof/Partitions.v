(* C25: the statements used by Prop/C25.v, assembled from the Partitions* proof files. *)
From ZC Require Import Model.Partitions Model.PartitionsSpec Proof.PartitionsUtil Proof.PartitionsInv
     Proof.PartitionsSem Proof.PartitionsPrim Proof.PartitionsOps Proof.PartitionsRemove
     Proof.PartitionsRandom Proof.PartitionsStep.
From Coq Require Import Sorting.Permutation.
Open Scope Z_scope.

Definition pt_reach (size : nat) (ops : list pt_op) : pt_state := fst (pt_run (pt_init size) ops).

Lemma pt_reach_R size ops :
  (1 <= size)%nat -> sp_ops_ok ([], []) ops ->
  pt_R size (pt_reach size ops) (fst (sp_run ([], []) ops)) /\
  Forall2 (pt_out_match size) (snd (sp_run ([], []) ops)) (snd (pt_run (pt_init size) ops)).
Proof. intros Hsz Hok. apply pt_run_refines; [apply pt_init_R; exact Hsz|exact Hok]. Qed.

(* 1. every history refines the finite map *)
Lemma pt_history_refines_map size ops :
  (1 <= size)%nat -> sp_ops_ok ([], []) ops ->
  let st := fst (pt_run (pt_init size) ops) in
  let outs := snd (pt_run (pt_init size) ops) in
  let s := fst (sp_run ([], []) ops) in
  let souts := snd (sp_run ([], []) ops) in
  Forall2 (pt_out_match size) souts outs /\
  Permutation (pt_abs (ps_ws st)) (fst s) /\ NoDup (map fst (fst s)) /\
  Permutation (pt_abs_commit st) (snd s).
Proof.
  intros Hsz Hok. cbv zeta. destruct (pt_reach_R size ops Hsz Hok) as [(Hs & Hinv & Hcinv & Hp & Hpc) Hout].
  unfold pt_reach in *. split; [exact Hout|]. split; [exact Hp|]. split; [|exact Hpc].
  eapply nodup_ids_perm; [exact Hp|]. eapply pt_inv_nodup. exact Hinv.
Qed.

(* 2. no call ever fails with an error of the package other than exists / not found /
      callback failed / empty, and the sampling loop terminates *)
Lemma pt_history_no_internal size ops :
  (1 <= size)%nat -> sp_ops_ok ([], []) ops ->
  ~ In PInternal (snd (pt_run (pt_init size) ops)) /\ ~ In PFuel (snd (pt_run (pt_init size) ops)).
Proof.
  intros Hsz Hok. destruct (pt_reach_R size ops Hsz Hok) as [_ Hout].
  assert (H : forall souts outs, Forall2 (pt_out_match size) souts outs -> ~ In PInternal outs /\ ~ In PFuel outs).
  { induction 1 as [|so o souts outs Hm _ [IH1 IH2]]; [split; intros []|].
    split; intros [Hx|Hx]; try (subst o; destruct so; exact Hm); auto. }
  apply (H _ _ Hout).
Qed.

(* 3. the representation invariant in every reachable state *)
Lemma pt_reachable_structure size ops :
  (1 <= size)%nat -> sp_ops_ok ([], []) ops ->
  let ws := ps_ws (fst (pt_run (pt_init size) ops)) in
  NoDup (map fst (pt_abs ws)) /\
  (forall i, (i < pt_loc ws)%nat -> length (pt_eff ws i) = size) /\
  (length (pp_items (pt_last ws)) <= size)%nat /\
  ((0 < pt_loc ws)%nat -> pp_items (pt_last ws) <> []) /\
  pt_size size ws = length (pt_abs ws) /\
  (forall id l, pt_get_loc ws id = Some l <-> ((l < pt_loc ws)%nat /\ In id (map fst (pt_eff ws l)))).
Proof.
  intros Hsz Hok. cbv zeta. destruct (pt_reach_R size ops Hsz Hok) as [(Hs & Hinv & _) _].
  unfold pt_reach in *. set (ws := ps_ws (fst (pt_run (pt_init size) ops))) in *.
  pose proof Hinv as [Hc Hne].
  split; [apply (pt_inv_nodup size ws Hinv)|].
  split; [apply (io_full _ _ _ _ _ _ _ _ _ Hc)|].
  split; [apply (io_last_len _ _ _ _ _ _ _ _ _ Hc)|].
  split; [exact Hne|]. split; [apply pt_size_spec; exact Hinv|].
  intros id l. rewrite (pt_get_loc_T _ _ _ id Hc). rewrite (io_locs _ _ _ _ _ _ _ _ _ Hc id l).
  split; [intros [H|H]; [exact H|discriminate]|intros H; left; exact H].
Qed.

(* 4. full iteration enumerates the set exactly once *)
Lemma pt_reachable_foreach size ops :
  (1 <= size)%nat -> sp_ops_ok ([], []) ops ->
  let st := fst (pt_run (pt_init size) ops) in
  exists l, snd (pt_step st PForEach) = PItems l /\
            Permutation l (pt_abs (ps_ws st)) /\ NoDup (map fst l) /\
            pt_abs (ps_ws (fst (pt_step st PForEach))) = pt_abs (ps_ws st).
Proof.
  intros Hsz Hok. cbv zeta. destruct (pt_reach_R size ops Hsz Hok) as [(Hs & Hinv & _) _].
  unfold pt_reach in *. set (st := fst (pt_run (pt_init size) ops)) in *.
  destruct (pt_foreach_ok size (ps_ws st) Hinv) as (ws' & Hr & Hinv' & Habs').
  exists (pt_abs (ps_ws st)). cbn [pt_step pt_lift]. rewrite Hr. cbn [fst snd ps_ws].
  split; [reflexivity|]. split; [reflexivity|]. split; [apply (pt_inv_nodup size _ Hinv)|exact Habs'].
Qed.

(* 5. sampling returns distinct members, min(size, total) of them *)
Lemma pt_reachable_random size ops idx :
  (1 <= size)%nat -> sp_ops_ok ([], []) ops ->
  let st := fst (pt_run (pt_init size) ops) in
  (idx < length (pt_abs (ps_ws st)))%nat ->
  exists l, snd (pt_step st (PRandom idx)) = PItems l /\
            NoDup (map fst l) /\ (forall it, In it l -> In it (pt_abs (ps_ws st))) /\
            length l = Nat.min size (length (pt_abs (ps_ws st))) /\
            pt_abs (ps_ws (fst (pt_step st (PRandom idx)))) = pt_abs (ps_ws st).
Proof.
  intros Hsz Hok. cbv zeta. destruct (pt_reach_R size ops Hsz Hok) as [(Hs & Hinv & _) _].
  unfold pt_reach in *. set (st := fst (pt_run (pt_init size) ops)) in *. intros Hidx.
  assert (Hne : pt_abs (ps_ws st) <> []) by (intros H; rewrite H in Hidx; cbn in Hidx; lia).
  destruct (pt_random_ok size (ps_ws st) idx Hinv Hne Hidx) as (ws' & l & Hr & Hinv' & Habs' & Hnd & Hincl & Hlen).
  exists l. cbn [pt_step pt_lift]. rewrite Hs, Hr. cbn [fst snd ps_ws]. auto.
Qed.

(* 6. commit then reload gives back the same set *)
Lemma pt_reachable_commit_reload size ops :
  (1 <= size)%nat -> sp_ops_ok ([], []) ops ->
  let st := fst (pt_run (pt_init size) ops) in
  pt_abs (ps_ws (fst (pt_step (fst (pt_step st PCommit)) PReload))) = pt_abs (ps_ws st) /\
  (* and dropping uncommitted changes gives back the committed set *)
  pt_abs (ps_ws (fst (pt_step st PReload))) = pt_abs_commit st.
Proof.
  intros Hsz Hok. cbv zeta. destruct (pt_reach_R size ops Hsz Hok) as [(Hs & Hinv & _) _].
  unfold pt_reach in *. set (st := fst (pt_run (pt_init size) ops)) in *.
  destruct (pt_save_ok size (ps_ws st) Hinv) as (_ & _ & _ & Hcabs).
  split; [|reflexivity]. cbn [pt_step fst ps_ws ps_commit ps_size]. exact Hcabs.
Qed.
