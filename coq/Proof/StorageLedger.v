(* E-storage proofs, C09: what the storage contract owes (stake, write / challenge / read pools,
   unpaid rewards) never grows by more than its wallet. *)
From Coq Require Import ZArith List Bool Lia.
From ZC Require Import Model.F64 Model.Storage Proof.StorageUtil Proof.StorageFrame Proof.Storage Proof.StorageClose Proof.StorageOffers.
Import ListNotations.
Open Scope Z_scope.

Definition al_owed (a : ss_alloc) : Z := al_wpool a + match al_cp a with Some c => c | None => 0 end.
Definition bl_owed (b : ss_blobber) : Z := ss_stake b + bl_rewards b.
Definition vl_owed (v : ss_validator) : Z := vl_stake v + vl_rewards v.

Definition L_allocs (s : ss_state) : Z := ss_sum (map al_owed (st_allocs s)).
Definition L_blobbers (s : ss_state) : Z := ss_sum (map bl_owed (st_blobbers s)).
Definition L_validators (s : ss_state) : Z := ss_sum (map vl_owed (st_validators s)).
Definition L_rpools (s : ss_state) : Z := ss_sum (map snd (st_rpools s)).
Definition ss_liab (s : ss_state) : Z := L_allocs s + L_blobbers s + L_validators s + L_rpools s.
Definition ss_wallet (c : ss_conf) (s : ss_state) : Z := ss_bal s (cf_sc c).

(* the property for one transition *)
Definition ss_backed (c : ss_conf) (s s' : ss_state) : Prop :=
  ss_liab s' - ss_liab s <= ss_wallet c s' - ss_wallet c s.

(* ---------- sums under list updates ---------- *)

Lemma sum_set_alloc : forall a' l a, ss_find_alloc (al_id a') l = Some a ->
  ss_sum (map al_owed (ss_set_alloc a' l)) = ss_sum (map al_owed l) - al_owed a + al_owed a'.
Proof.
  induction l as [|x tl IH]; cbn [ss_find_alloc ss_set_alloc]; intros a H; [discriminate|].
  destruct (Z.eqb_spec (al_id x) (al_id a')); [inversion H; subst; cbn [map ss_sum]; lia | cbn [map ss_sum]; rewrite (IH _ H); lia].
Qed.

Lemma sum_del_alloc : forall l a, ss_find_alloc (al_id a) l = Some a ->
  ss_sum (map al_owed (ss_del_alloc (al_id a) l)) = ss_sum (map al_owed l) - al_owed a.
Proof.
  induction l as [|x tl IH]; cbn [ss_find_alloc ss_del_alloc]; intros a H; [discriminate|].
  destruct (Z.eqb_spec (al_id x) (al_id a)); [inversion H; subst; cbn [map ss_sum]; lia | cbn [map ss_sum]; rewrite (IH _ H); lia].
Qed.

Lemma sum_set_blobber : forall b' l b, ss_find_blobber (bl_id b') l = Some b ->
  ss_sum (map bl_owed (ss_set_blobber b' l)) = ss_sum (map bl_owed l) - bl_owed b + bl_owed b'.
Proof.
  induction l as [|x tl IH]; cbn [ss_find_blobber ss_set_blobber]; intros b H; [discriminate|].
  destruct (Z.eqb_spec (bl_id x) (bl_id b')); [inversion H; subst; cbn [map ss_sum]; lia | cbn [map ss_sum]; rewrite (IH _ H); lia].
Qed.

Lemma sum_set_validator : forall v' l v, ss_find_validator (vl_id v') l = Some v ->
  ss_sum (map vl_owed (ss_set_validator v' l)) = ss_sum (map vl_owed l) - vl_owed v + vl_owed v'.
Proof.
  induction l as [|x tl IH]; cbn [ss_find_validator ss_set_validator]; intros v H; [discriminate|].
  destruct (Z.eqb_spec (vl_id x) (vl_id v')); [inversion H; subst; cbn [map ss_sum]; lia | cbn [map ss_sum]; rewrite (IH _ H); lia].
Qed.

Lemma sum_assoc_set : forall k v l, ss_sum (map snd (ss_assoc_set k v l)) = ss_sum (map snd l) - ss_assoc0 k l + v.
Proof.
  unfold ss_assoc0. induction l as [|[k0 v0] tl IH]; cbn [ss_assoc_set ss_assoc map ss_sum snd]; [lia|].
  destruct (Z.eqb_spec k k0); cbn [map ss_sum snd]; [lia | rewrite IH; lia].
Qed.

Lemma ss_find_validator_id : forall id l v, ss_find_validator id l = Some v -> vl_id v = id.
Proof. induction l as [|x tl IH]; cbn; intros v H; [discriminate|]. destruct (Z.eqb_spec (vl_id x) id); [inversion H; subst; auto | auto]. Qed.

(* ---------- wallet movements ---------- *)

Lemma ss_lock_from_ledger : forall c s cl v s', ss_lock_from c s cl v = Some s' -> cl <> cf_sc c -> 0 <= v ->
  ss_wallet c s' = ss_wallet c s + v /\ st_allocs s' = st_allocs s /\ st_blobbers s' = st_blobbers s /\
  st_validators s' = st_validators s /\ st_rpools s' = st_rpools s.
Proof.
  unfold ss_lock_from; intros c s cl v s' H Hne Hv. destruct (ss_bal s cl <? v); [discriminate|].
  pose proof (ss_transfer_allocs _ _ _ _ _ H) as Ha.
  assert (Hm : st_misc s' = st_misc s) by (eapply ss_transfer_misc; eauto).
  assert (Hv' : st_validators s' = st_validators s /\ st_blobbers s' = st_blobbers s).
  { unfold ss_transfer in H. destruct (v =? 0); [inversion H; auto|]. destruct (ss_bal s cl <? v); [discriminate|]. inversion H; auto. }
  apply ss_transfer_bals in H; auto. destruct H as [_ [Hb _]]. unfold ss_wallet. unfold st_misc in Hm. destruct Hv'. repeat split; auto; congruence.
Qed.

Lemma owed_set_blobber_same : forall b' l, (forall b, ss_find_blobber (bl_id b') l = Some b -> bl_owed b' = bl_owed b) ->
  map bl_owed (ss_set_blobber b' l) = map bl_owed l.
Proof.
  induction l as [|x tl IH]; cbn [ss_find_blobber ss_set_blobber]; intros H; [reflexivity|].
  destruct (Z.eqb_spec (bl_id x) (bl_id b')).
  - cbn [map]. rewrite (H x eq_refl). reflexivity.
  - cbn [map]. rewrite IH; auto.
Qed.

Lemma ss_assign_owed : forall c chosen all bsz now bas all',
  ss_assign c chosen all bsz now = Some (bas, all') ->
  (forall b, In b chosen -> ss_find_blobber (bl_id b) all = Some b) -> NoDup (map bl_id chosen) ->
  map bl_owed all' = map bl_owed all.
Proof.
  induction chosen as [|b tl IH]; cbn [ss_assign]; intros all bsz now bas all' H Hin Hnd.
  - inversion H; reflexivity.
  - bind_as H b1 E1. bind_as H [ds all2] E2. inversion H; subst. clear H.
    unfold ss_add_offer in E1. bind_as E1 o Eo. inversion E1; subst. clear E1. inversion Hnd as [|? ? Hnotin Hnd']; subst.
    set (b1 := bl_with_offers _ o) in *.
    assert (Hb : ss_find_blobber (bl_id b) all = Some b) by (apply Hin; left; reflexivity).
    assert (Hs : map bl_owed (ss_set_blobber b1 all) = map bl_owed all).
    { apply owed_set_blobber_same. intros x Hx. cbn in Hx. rewrite Hb in Hx. inversion Hx; subst. reflexivity. }
    rewrite <- Hs. eapply IH; eauto.
    intros x Hx. rewrite ss_find_set_blobber. cbn [bl_id b1 bl_with_offers bl_with_sp bl_with_sizes bl_with_node].
    destruct (Z.eqb_spec (bl_id x) (bl_id b)) as [E|E]; [exfalso; apply Hnotin; rewrite <- E; apply in_map; exact Hx | apply Hin; right; exact Hx].
Qed.

(* ---------- operation by operation ---------- *)

Lemma backed_refl : forall c s, ss_backed c s s.
Proof. unfold ss_backed; intros; lia. Qed.

Lemma ss_new_alloc_backed : forall c s now id owner payer value tv data parity size bl rr wr tpe s',
  0 <= value -> payer <> cf_sc c ->
  ss_new_alloc c s now id owner payer value tv data parity size bl rr wr tpe = Some s' -> ss_backed c s s'.
Proof.
  unfold ss_new_alloc; intros c s now id owner payer value tv data parity size bl rr wr tpe s' Hv Hp H.
  guard_inv H. bind_as H bls Ebl. guard_inv H. bind_as H [bas all] Eas. bind_as H s1 E1. bind_as H cost Ec. guard_inv H. guard_inv H.
  inversion H; subst. clear H.
  assert (H1 : ss_wallet c s1 = ss_wallet c s + value /\ st_allocs s1 = st_allocs s /\ st_validators s1 = st_validators s /\ st_rpools s1 = st_rpools s).
  { destruct (Z.eqb_spec value 0).
    - inversion E1; subst. repeat split; lia.
    - guard_inv E1. apply ss_lock_from_ledger in E1; auto. tauto. }
  destruct H1 as [Hw [Ha [Hvl Hrp]]].
  repeat (apply andb_true_iff in G; destruct G as [G ?]).
  destruct (ss_find_blobbers_spec _ _ _ Ebl) as [Hm Hfind].
  set (chosen := firstn (Z.to_nat (data + parity)) (ss_filter_active bls rr wr (ss_bsize size data))) in *.
  assert (Hnd : NoDup (map bl_id chosen)).
  { subst chosen. rewrite map_firstn. apply NoDup_firstn. apply NoDup_map_filter_active. rewrite Hm. apply ss_nodup_NoDup. assumption. }
  assert (Hin : forall b, In b chosen -> ss_find_blobber (bl_id b) (st_blobbers s) = Some b).
  { intros b Hb. apply Hfind. eapply In_filter_active. eapply In_firstn. exact Hb. }
  pose proof (ss_assign_owed _ _ _ _ _ _ _ Eas Hin Hnd) as Ho.
  unfold ss_backed, ss_liab, L_allocs, L_blobbers, L_validators, L_rpools, ss_wallet in *.
  cbn [st_allocs st_blobbers st_validators st_rpools st_with_allocs st_with_blobbers].
  rewrite Ho, Ha, Hvl, Hrp, map_app. cbn [map]. 
  assert (S : ss_sum (map al_owed (st_allocs s) ++ [al_owed {| al_id := id; al_owner := owner; al_start := now; al_exp := now + ss_tu_sec c; al_size := size;
              al_data := data; al_parity := parity; al_wpool := value; al_mtc := 0; al_mb := 0; al_mtv := 0;
              al_tpe := tpe; al_ent := false; al_used := 0; al_tot := 0; al_open := 0; al_succ := 0; al_fail := 0;
              al_rr := rr; al_wr := wr; al_cp := Some 0; al_bas := bas; al_ocs := []; al_chnode := false; al_tu := cf_tu_ns c |}]) = ss_sum (map al_owed (st_allocs s)) + value).
  { generalize (map al_owed (st_allocs s)). induction l; cbn; [unfold al_owed; cbn; lia | cbn in IHl; lia]. }
  rewrite S. unfold ss_bal in *. cbn [st_bals st_with_allocs st_with_blobbers]. lia.
Qed.

Lemma ss_wp_lock_backed : forall c s sender alloc value s', 0 <= value -> sender <> cf_sc c ->
  ss_wp_lock c s sender alloc value = Some s' -> ss_backed c s s'.
Proof.
  unfold ss_wp_lock; intros c s sender alloc value s' Hv Hp H.
  guard_inv H. guard_inv H. bind_as H s1 E1. bind_as H a Ea. bind_as H w Ew. guard_inv H. inversion H; subst. clear H.
  apply ss_lock_from_ledger in E1; auto. destruct E1 as [Hw [Ha [Hb [Hvl Hrp]]]].
  apply ss_add_coin_some in Ew. destruct Ew as [-> _].
  unfold ss_backed, ss_liab, L_allocs, L_blobbers, L_validators, L_rpools, ss_wallet in *.
  cbn [st_allocs st_blobbers st_validators st_rpools st_with_allocs].
  rewrite (sum_set_alloc _ _ a); [|cbn; eapply ss_find_alloc_self; eauto].
  rewrite Ha, Hb, Hvl, Hrp. unfold ss_bal in *. cbn [st_bals st_with_allocs].
  replace (al_owed (al_with_pools a (al_wpool a + value) (al_mtc a) (al_mb a) (al_mtv a) (al_cp a) (al_bas a))) with (al_owed a + value) by (unfold al_owed; cbn; lia).
  lia.
Qed.

(* moving tokens between the write pool and the challenge pool of one allocation changes nothing *)
Lemma ss_commit_move_owed : forall c a d size ts w mtc mb cp d',
  ss_commit_move c a d size ts = Some (w, mtc, mb, cp, d') ->
  w + match cp with Some x => x | None => 0 end = al_owed a.
Proof.
  unfold ss_commit_move, al_owed; intros c a d size ts w mtc mb cp d' H.
  destruct (size =? 0); [inversion H; subst; reflexivity|].
  bind_as H cp0 E0. bind_as H rdtu E1. rewrite E0. destruct (0 <? size).
  - bind_as H v Ev. bind_as H [w1 cp1] Em. bind_as H m2 Emtc. inversion H; subst. apply ss_move_to_cp_some in Em. lia.
  - bind_as H v Ev. bind_as H [w1 cp1] Em. bind_as H m2 Emb. bind_as H r Er. inversion H; subst. apply ss_move_from_cp_some in Em. lia.
Qed.

Lemma ss_commit_backed : forall c s sender alloc client root prev size ts sig s',
  ss_commit c s sender alloc client root prev size ts sig = Some s' -> ss_backed c s s'.
Proof.
  unfold ss_commit; intros c s sender alloc client root prev size ts sig s' H.
  guard_inv H. bind_as H a Ea. guard_inv H. guard_inv H. bind_as H d Ed. guard_inv H.
  match type of H with (if ?b then _ else _) = _ => destruct b end; [inversion H; subst; apply backed_refl|].
  bind_as H change Ec. bind_as H b Eb. guard_inv H. guard_inv H. guard_inv H. bind_as H [[[[w mtc] mb] cp] d2] Em. guard_inv H.
  inversion H; subst. clear H. apply ss_commit_move_owed in Em.
  unfold ss_backed, ss_liab, L_allocs, L_blobbers, L_validators, L_rpools, ss_wallet, ss_bal.
  cbn [st_allocs st_blobbers st_validators st_rpools st_bals st_with_allocs st_with_blobbers].
  rewrite (sum_set_alloc _ _ a); [|cbn; eapply ss_find_alloc_self; eauto].
  rewrite (sum_set_blobber _ _ b); [|cbn; eapply ss_find_blobber_self; eauto].
  match goal with |- context [al_owed (al_with_stats ?x ?u ?t ?o ?sc ?f ?oc ?ch)] =>
    replace (al_owed (al_with_stats x u t o sc f oc ch)) with (al_owed a) by (unfold al_owed at 1; cbn [al_wpool al_cp al_with_stats al_with_pools]; symmetry; exact Em) end.
  match goal with |- context [bl_owed (bl_with_sizes b ?x ?y)] => replace (bl_owed (bl_with_sizes b x y)) with (bl_owed b) by reflexivity end.
  lia.
Qed.

Lemma ss_rp_lock_backed : forall c s sender target value s', sender <> cf_sc c ->
  ss_rp_lock c s sender target value = Some s' -> ss_backed c s s'.
Proof.
  unfold ss_rp_lock; intros c s sender target value s' Hp H. guard_inv H. bind_as H s1 E1. bind_as H v Ev. inversion H; subst. clear H.
  apply andb_true_iff in G. destruct G as [_ G]. apply Z.ltb_lt in G.
  apply ss_lock_from_ledger in E1; auto; [|lia]. destruct E1 as [Hw [Ha [Hb [Hvl Hrp]]]].
  apply ss_add_coin_some in Ev. destruct Ev as [-> _].
  unfold ss_backed, ss_liab, L_allocs, L_blobbers, L_validators, L_rpools, ss_wallet, ss_bal in *.
  cbn [st_allocs st_blobbers st_validators st_rpools st_bals st_with_rpools].
  rewrite sum_assoc_set, Ha, Hb, Hvl, Hrp. lia.
Qed.

Lemma ss_rp_unlock_backed : forall c s sender s', sender <> cf_sc c -> 0 <= ss_assoc0 sender (st_rpools s) ->
  ss_rp_unlock c s sender = Some s' -> ss_backed c s s'.
Proof.
  unfold ss_rp_unlock; intros c s sender s' Hp Hn H. bind_as H v Ev. bind_as H s1 E1. inversion H; subst. clear H.
  assert (Hv : ss_assoc0 sender (st_rpools s) = v) by (unfold ss_assoc0; rewrite Ev; reflexivity).
  pose proof (ss_transfer_allocs _ _ _ _ _ E1) as Ha.
  assert (Hm : st_misc s1 = st_misc s) by (eapply ss_transfer_misc; eauto). unfold st_misc in Hm.
  assert (Hl : st_validators s1 = st_validators s /\ st_blobbers s1 = st_blobbers s).
  { unfold ss_transfer in E1. destruct (v =? 0); [inversion E1; auto|]. destruct (ss_bal s (cf_sc c) <? v); [discriminate|]. inversion E1; auto. }
  apply ss_transfer_bals in E1; [|congruence|lia]. destruct E1 as [Hb1 _]. destruct Hl as [Hvl Hb].
  unfold ss_backed, ss_liab, L_allocs, L_blobbers, L_validators, L_rpools, ss_wallet, ss_bal in *.
  cbn [st_allocs st_blobbers st_validators st_rpools st_bals st_with_rpools].
  rewrite sum_assoc_set, Ha, Hb, Hvl. replace (st_rpools s1) with (st_rpools s) by congruence. lia.
Qed.

Lemma ss_distribute_owed : forall b v b', ss_distribute b v = Some b' -> 0 <= v ->
  bl_id b' = bl_id b /\ bl_owed b <= bl_owed b' <= bl_owed b + v.
Proof.
  intros b v b' H Hv. pose proof (ss_distribute_le _ _ _ H Hv) as [Hid Hr].
  assert (Hp : bl_pools b' = bl_pools b).
  { unfold ss_distribute in H. destruct ((v =? 0) || bl_spkilled b || (ss_stake b <? bl_minstake b)); [inversion H; reflexivity|].
    destruct (bl_pools b); [inversion H; reflexivity|]. destruct (ss_stake b =? 0); [discriminate | inversion H; reflexivity]. }
  unfold bl_owed, ss_stake. rewrite Hp. split; [exact Hid | lia].
Qed.

Lemma ss_read_backed : forall c s client blobber alloc ts ctr i sg s',
  ss_read c s client blobber alloc ts ctr i sg = Some s' -> ss_backed c s s'.
Proof.
  unfold ss_read; intros c s client blobber alloc ts ctr i sg s' H.
  guard_inv H. guard_inv H. guard_inv H. guard_inv H. bind_as H a Ea. guard_inv H. bind_as H d Ed. bind_as H b Eb.
  guard_inv H. guard_inv H. bind_as H b1 Eb1. bind_as H rr Er. inversion H; subst. clear H.
  match type of Eb1 with ss_distribute b ?v = _ => set (V := v) in * end.
  assert (HV : 0 <= V) by (subst V; apply f64_to_u64_range).
  apply ss_distribute_owed in Eb1; [|exact HV]. destruct Eb1 as [Hid Ho]. apply Z.leb_le in G5.
  unfold ss_backed, ss_liab, L_allocs, L_blobbers, L_validators, L_rpools, ss_wallet, ss_bal.
  cbn [st_allocs st_blobbers st_validators st_rpools st_bals st_with_allocs st_with_blobbers st_with_rpools st_with_reads].
  rewrite (sum_set_alloc _ _ a); [|cbn; eapply ss_find_alloc_self; eauto].
  rewrite (sum_set_blobber _ _ b); [|rewrite Hid; eapply ss_find_blobber_self; eauto].
  rewrite sum_assoc_set.
  match goal with |- context [al_owed (al_with_bas a ?x)] => replace (al_owed (al_with_bas a x)) with (al_owed a) by reflexivity end.
  lia.
Qed.

(* ---------- stake pools stay non-negative (uint64 balances in the Go code) ---------- *)

(* [B]: bound of a delegate pool balance; 2^64 is the uint64 type of the Go code, the slash fraction
   of kill / shut-down needs 2^53 (binary64 represents every smaller balance exactly) *)
Section Bound.
Variable B : Z.

Definition bl_ok (b : ss_blobber) : Prop := Forall (fun p => 0 <= p < B) (bl_pools b).
Definition st_ok (s : ss_state) : Prop := Forall bl_ok (st_blobbers s).

Lemma set_ok : forall b l, Forall bl_ok l -> bl_ok b -> Forall bl_ok (ss_set_blobber b l).
Proof.
  induction l as [|x tl IH]; cbn [ss_set_blobber]; intros Hl Hb; [constructor|].
  inversion Hl; subst. destruct (bl_id x =? bl_id b); constructor; auto.
Qed.

Lemma find_ok : forall i l b, Forall bl_ok l -> ss_find_blobber i l = Some b -> bl_ok b.
Proof.
  induction l as [|x tl IH]; cbn [ss_find_blobber]; intros b Hl H; [discriminate|].
  inversion Hl; subst. destruct (bl_id x =? i); [inversion H; subst; auto | eauto].
Qed.

Lemma ss_slash_pools_le : forall pools ratio pools' m, ss_slash_pools pools ratio = Some (pools', m) ->
  Forall (fun p => 0 <= p < B) pools ->
  Forall (fun p => 0 <= p < B) pools' /\ ss_sum pools' = ss_sum pools - m /\ 0 <= m.
Proof.
  induction pools as [|p tl IH]; cbn [ss_slash_pools]; intros ratio pools' m H Hp.
  - inversion H; subst. cbn. repeat split; auto; lia.
  - inversion Hp as [|? ? Hp0 Htl]; subst.
    bind_as H d Ed. cbv zeta in H. bind_as H [tl' m0] Et. bind_as H m1 Em. inversion H; subst. clear H.
    apply f64_mult_coin_range in Ed. apply ss_add_coin_some in Em. destruct Em as [-> _].
    destruct (IH _ _ _ Et Htl) as [Hf [Hs Hm]]. cbn [ss_sum].
    destruct (d =? 0); (split; [constructor; [lia | exact Hf] | lia]).
Qed.

Lemma ss_sp_slash_owed : forall b o sl b' m, ss_sp_slash b o sl = Some (b', m) -> bl_ok b ->
  bl_ok b' /\ bl_id b' = bl_id b /\ bl_owed b' <= bl_owed b.
Proof.
  unfold ss_sp_slash; intros b o sl b' m H Hok. destruct ((o =? 0) || (sl =? 0)); [inversion H; subst; repeat split; auto; lia|].
  bind_as H [p mv] E. inversion H; subst. apply ss_slash_pools_le in E; [|exact Hok]. destruct E as [Hf [Hs Hm]].
  unfold bl_owed, ss_stake, bl_ok. cbn. repeat split; auto; lia.
Qed.

Lemma ss_distribute_ok : forall b v b', ss_distribute b v = Some b' -> bl_ok b -> bl_ok b'.
Proof.
  intros b v b' H Hok.
  assert (Hp : bl_pools b' = bl_pools b).
  { unfold ss_distribute in H. destruct ((v =? 0) || bl_spkilled b || (ss_stake b <? bl_minstake b)); [inversion H; reflexivity|].
    destruct (bl_pools b); [inversion H; reflexivity|]. destruct (ss_stake b =? 0); [discriminate | inversion H; reflexivity]. }
  unfold bl_ok. rewrite Hp. exact Hok.
Qed.

Lemma ss_reduce_offer_owed : forall b v b', ss_reduce_offer b v = Some b' ->
  bl_owed b' = bl_owed b /\ bl_id b' = bl_id b /\ (bl_ok b -> bl_ok b').
Proof. unfold ss_reduce_offer; intros. bind_as H o E. inversion H; subst. auto. Qed.

Lemma ss_add_offer_owed : forall b v b', ss_add_offer b v = Some b' ->
  bl_owed b' = bl_owed b /\ bl_id b' = bl_id b /\ (bl_ok b -> bl_ok b').
Proof. unfold ss_add_offer; intros. crush H; inversion H; subst; auto. Qed.

(* ---------- closing ---------- *)

Lemma ss_fin_pay_owed : forall c a cpbal b d rate now b' d' reward pen,
  ss_fin_pay c a cpbal b d rate now = Some (b', d', reward, pen) -> 0 <= ba_cpiv d -> bl_ok b ->
  bl_ok b' /\ bl_id b' = bl_id b /\ bl_owed b' <= bl_owed b + reward /\ 0 <= reward.
Proof.
  intros c a cpbal b d rate now b' d' reward pen H Hn Hok.
  pose proof (ss_fin_pay_some _ _ _ _ _ _ _ _ _ _ _ H Hn) as [_ [_ [Hr0 _]]].
  unfold ss_fin_pay in H. destruct (ba_lf d =? 0); [inversion H; subst; repeat split; auto; lia|].
  bind_as H [[b1 d1] pmove] E.
  assert (H1 : bl_ok b1 /\ bl_id b1 = bl_id b /\ bl_owed b1 <= bl_owed b).
  { destruct (ba_lf d <=? ba_ls d); [inversion E; subst; repeat split; auto; lia|].
    bind_as E rdtu E1. bind_as E dtu0 E2. cbv zeta in E. bind_as E [dd move] E3. bind_as E ret E4. bind_as E sl E5.
    destruct (f64_ltb f64_zero (cf_slash c) && (0 <? move) && (0 <? sl)).
    - bind_as E [bb dp] E6. bind_as E p E7. inversion E; subst. apply ss_sp_slash_owed in E6; auto.
    - inversion E; subst. repeat split; auto; lia. }
  destruct H1 as [Hok1 [Hid Ho]].
  destruct (now <=? ba_lf d1); [inversion H; subst; repeat split; auto; lia|].
  bind_as H rdtu E1. bind_as H dtu0 E2. cbv zeta in H.
  destruct ((0 <? al_used a) && (0 <? cpbal) && f64_ltb f64_zero rate).
  - bind_as H rw E3. bind_as H cv E4. bind_as H b2 E5. inversion H; subst. apply f64_mult_coin_range in E3.
    pose proof (ss_distribute_ok _ _ _ E5 Hok1) as Hok2.
    apply ss_distribute_owed in E5; [|lia]. destruct E5 as [Hid2 Ho2]. repeat split; auto; try lia; congruence.
  - inversion H; subst. repeat split; auto; lia.
Qed.

Definition ss_total_owed (bls : list ss_blobber) : Z := ss_sum (map bl_owed bls).

Lemma ss_fin_loop_owed : forall c a cpbal now bas rates bls bas' bls' paid,
  ss_fin_loop c a cpbal now bas rates bls = Some (bas', bls', paid) -> Forall (fun d => 0 <= ba_cpiv d) bas ->
  Forall bl_ok bls -> Forall bl_ok bls' /\ ss_total_owed bls' <= ss_total_owed bls + paid.
Proof.
  unfold ss_total_owed.
  induction bas as [|d tl IH]; cbn [ss_fin_loop]; intros rates bls bas' bls' paid H Hn Hok.
  - inversion H; subst. split; [auto | lia].
  - destruct rates as [|r rtl]; [discriminate|]. inversion Hn as [|? ? Hd Htl]; subst.
    bind_as H b Eb. bind_as H b0 E0. bind_as H [[[b1 d1] reward] pen] E1. bind_as H [[ds bl2] sum] E2. bind_as H sum' E3.
    inversion H; subst. clear H.
    pose proof (find_ok _ _ _ Hok Eb) as Hb.
    apply ss_reduce_offer_owed in E0. destruct E0 as [Ho0 [Hid0 Hk0]].
    apply ss_fin_pay_owed in E1; auto. destruct E1 as [Hok1 [Hid1 [Ho1 Hr]]].
    apply ss_add_coin_some in E3. destruct E3 as [-> _].
    destruct (IH _ _ _ _ _ E2 Htl (set_ok _ _ Hok Hok1)) as [Hok' Ht]. split; [exact Hok'|].
    assert (Hf : ss_find_blobber (bl_id b1) bls = Some b).
    { rewrite Hid1, Hid0. eapply ss_find_blobber_self; eauto. }
    rewrite (sum_set_blobber _ _ _ Hf) in Ht. lia.
Qed.

Lemma ss_cancel_loop_owed : forall cc total bas rates bls bls' charged,
  ss_cancel_loop cc total bas rates bls = Some (bls', charged) -> Forall bl_ok bls ->
  Forall bl_ok bls' /\ ss_total_owed bls' <= ss_total_owed bls + charged.
Proof.
  unfold ss_total_owed.
  induction bas as [|d tl IH]; cbn [ss_cancel_loop]; intros rates bls bls' charged H Hok.
  - inversion H; subst. split; [auto | lia].
  - destruct rates as [|r rtl]; [discriminate|].
    bind_as H b Eb. cbv zeta in H. bind_as H b1 E1. bind_as H [bl2 sum] E2. bind_as H sum' E3. inversion H; subst. clear H.
    assert (Hsh : 0 <= ss_cancel_share cc total d r).
    { unfold ss_cancel_share. destruct (f64_float_to_coin _) eqn:Ec; [apply f64_float_to_coin_range in Ec; lia | lia]. }
    pose proof (find_ok _ _ _ Hok Eb) as Hb.
    pose proof (ss_distribute_ok _ _ _ E1 Hb) as Hok1.
    apply ss_distribute_owed in E1; [|exact Hsh]. destruct E1 as [Hid Hr].
    apply ss_add_coin_some in E3. destruct E3 as [-> _].
    destruct (IH _ _ _ _ E2 (set_ok _ _ Hok Hok1)) as [Hok' Ht]. split; [exact Hok'|].
    assert (Hf : ss_find_blobber (bl_id b1) bls = Some b) by (rewrite Hid; eapply ss_find_blobber_self; eauto).
    rewrite (sum_set_blobber _ _ _ Hf) in Ht. lia.
Qed.

Lemma ss_release_loop_owed : forall bas bls bls', ss_release_loop bas bls = Some bls' -> Forall bl_ok bls ->
  Forall bl_ok bls' /\ ss_total_owed bls' = ss_total_owed bls.
Proof.
  unfold ss_total_owed.
  induction bas as [|d tl IH]; cbn [ss_release_loop]; intros bls bls' H Hok.
  - inversion H; subst; auto.
  - bind_as H b Eb. cbv zeta in H. guard_inv H.
    pose proof (find_ok _ _ _ Hok Eb) as Hb.
    destruct (IH _ _ H) as [Hok' Ht]; [apply set_ok; [exact Hok | exact Hb]|]. split; [exact Hok'|]. rewrite Ht.
    rewrite (sum_set_blobber _ _ b); [|cbn; eapply ss_find_blobber_self; eauto]. unfold bl_owed, ss_stake. cbn. lia.
Qed.

Lemma ss_transfer_out : forall s f t v s', ss_transfer s f t v = Some s' -> 0 <= v ->
  ss_bal s f - v <= ss_bal s' f /\ st_blobbers s' = st_blobbers s /\ st_validators s' = st_validators s.
Proof.
  unfold ss_transfer; intros s f t v s' H Hv. destruct (Z.eqb_spec v 0).
  - inversion H; subst. repeat split; lia.
  - destruct (Z.ltb_spec (ss_bal s f) v); [discriminate|]. inversion H; subst. unfold ss_bal; cbn.
    rewrite !ss_assoc0_set. rewrite !Z.eqb_refl. destruct (Z.eqb_spec f t); [subst; rewrite ?Z.eqb_refl|]; repeat split; lia.
Qed.

Lemma ss_close_backed : forall c s now round a s',
  al_c12 a -> ss_find_alloc (al_id a) (st_allocs s) = Some a -> st_ok s ->
  ss_close c s now round a = Some s' -> ss_backed c s s' /\ st_ok s'.
Proof.
  unfold ss_close; intros c s now round a s' Ha Hfa Hok H.
  remember (ss_settle_all c round a) as r eqn:Er. destruct r as [[a1 rates] gone]. symmetry in Er.
  assert (Ha1 : al_c12 a1) by (eapply al_c12_money_eq; [eapply ss_settle_all_money; eauto | exact Ha]).
  assert (Hm : al_money a1 = al_money a) by (eapply ss_settle_all_money; eauto).
  bind_as H cp Ecp. bind_as H [[bas bls1] paid] E1. bind_as H cp1 E2. bind_as H mb E3. bind_as H w E4. guard_inv H. bind_as H due E5.
  bind_as H [bls2 w2] E6. bind_as H bls3 E7. bind_as H s2 E8. inversion H; subst. clear H.
  assert (Hcpa : al_cp a = Some cp) by (unfold al_money in Hm; inversion Hm; congruence).
  assert (Hwa : al_wpool a1 = al_wpool a) by (unfold al_money in Hm; inversion Hm; congruence).
  assert (Hnn : Forall (fun d => 0 <= ba_cpiv d) (al_bas a1)) by (destruct Ha1 as [_ [Hn _]]; apply cpivs_nonneg_Forall; exact Hn).
  pose proof (al_c12_wpool _ Ha1) as Hw1.
  pose proof (ss_fin_loop_rewards _ _ _ _ _ _ _ _ _ _ E1 Hnn) as [Hp _].
  apply ss_fin_loop_owed in E1; auto. destruct E1 as [Hok1 Ho1].
  apply ss_minus_coin_some in E2. destruct E2 as [-> Hle].
  apply ss_add_coin_some in E4. destruct E4 as [-> _].
  assert (Hc : exists charged, 0 <= charged /\ w2 = al_wpool a1 + (cp - paid) - charged /\ 0 <= w2 /\
                               Forall bl_ok bls2 /\ ss_total_owed bls2 <= ss_total_owed bls1 + charged).
  { destruct due as [cc|].
    - bind_as E6 total Et. bind_as E6 [bls' charged] El. bind_as E6 w' Ew. guard_inv E6. inversion E6; subst.
      pose proof (ss_cancel_loop_rewards _ _ _ _ _ _ _ El) as [Hc0 _].
      apply ss_cancel_loop_owed in El; auto. destruct El as [Hok2 Ho2]. apply ss_minus_coin_some in Ew. destruct Ew as [-> Hlew].
      exists charged. repeat split; auto; lia.
    - inversion E6; subst. exists 0. repeat split; auto; lia. }
  destruct Hc as [charged [Hc0 [Hw2 [Hw20 [Hok2 Ho2]]]]].
  apply ss_release_loop_owed in E7; auto. destruct E7 as [Hok3 Ho3].
  pose proof (ss_transfer_allocs _ _ _ _ _ E8) as Hal.
  assert (Hmisc : st_misc s2 = st_misc (st_with_chals (st_with_blobbers s bls3) (ss_del_chals gone (st_chals s)))) by (eapply ss_transfer_misc; eauto).
  apply ss_transfer_out in E8; [|exact Hw20]. destruct E8 as [Hb1 [Hbl Hv]].
  unfold st_misc in Hmisc. cbn in Hmisc. inversion Hmisc as [[Hrp Has Hrd]].
  split.
  - unfold ss_backed, ss_liab, L_allocs, L_blobbers, L_validators, L_rpools, ss_wallet.
    unfold ss_bal in *. cbn [st_bals st_allocs st_blobbers st_validators st_rpools st_with_allocs st_with_chals st_with_blobbers] in *.
    rewrite Hbl, Hv, Hrp, Hal.
    cbn [st_allocs st_blobbers st_with_chals st_with_blobbers].
    rewrite (sum_del_alloc _ _ Hfa). unfold ss_total_owed in *. unfold al_owed. rewrite Hcpa. lia.
  - unfold st_ok. cbn [st_blobbers st_with_allocs]. rewrite Hbl. cbn. exact Hok3.
Qed.

(* ---------- validators ---------- *)

Lemma ss_distribute_v_owed : forall x v x', ss_distribute_v x v = Some x' -> 0 <= v ->
  vl_id x' = vl_id x /\ vl_owed x' <= vl_owed x + v.
Proof. unfold ss_distribute_v; intros x v x' H Hv. crush H; inversion H; subst; unfold vl_owed; cbn; split; auto; lia. Qed.

Lemma ss_pay_validators_owed : forall ids vs one vs', ss_pay_validators vs ids one = Some vs' -> 0 <= one ->
  ss_sum (map vl_owed vs') <= ss_sum (map vl_owed vs) + one * Z.of_nat (length ids).
Proof.
  induction ids as [|i tl IH]; cbn [ss_pay_validators length]; intros vs one vs' H Hone.
  - inversion H; subst. lia.
  - bind_as H x Ex. bind_as H x' Ex'. apply ss_distribute_v_owed in Ex'; auto. destruct Ex' as [Hid Ho].
    apply IH in H; auto. rewrite (sum_set_validator _ _ x) in H.
    + rewrite Nat2Z.inj_succ. nia.
    + rewrite Hid. rewrite (ss_find_validator_id _ _ _ Ex). exact Ex.
Qed.

Lemma ss_to_validators_owed : forall vs ids cp reward vs' cp', ss_to_validators vs ids cp reward = Some (vs', cp') -> 0 <= reward ->
  ss_sum (map vl_owed vs') - ss_sum (map vl_owed vs) <= cp - cp'.
Proof.
  unfold ss_to_validators; intros vs ids cp reward vs' cp' H Hr. bind_as H u Eu.
  destruct ((Z.of_nat (length ids) =? 0) || (reward =? 0)) eqn:Ez; [inversion H; subst; lia|].
  apply orb_false_iff in Ez. destruct Ez as [Ez1 Ez2]. apply Z.eqb_neq in Ez1.
  destruct (Z.ltb_spec cp reward); [discriminate|]. cbv zeta in H. bind_as H vs1 E1. bind_as H vs2 E2. inversion H; subst. clear H.
  set (n := Z.of_nat (length ids)) in *. assert (Hn : 0 < n) by lia.
  apply ss_pay_validators_owed in E1; [|apply Z.div_pos; lia].
  apply ss_pay_validators_owed in E2; [|lia].
  assert (Hl : Z.of_nat (length (firstn (Z.to_nat (reward mod n)) ids)) <= reward mod n).
  { pose proof (firstn_le_length (Z.to_nat (reward mod n)) ids) as Hl. pose proof (Z.mod_pos_bound reward n Hn). lia. }
  pose proof (Z.div_mod reward n ltac:(lia)). fold n in E1. nia.
Qed.

(* ---------- challenge responses ---------- *)

Lemma ss_penalty_ledger : forall c s a blobber ls lf vals s' a', ss_penalty c s a blobber ls lf vals = Some (s', a') -> st_ok s ->
  st_ok s' /\ al_owed a' + L_blobbers s' + L_validators s' <= al_owed a + L_blobbers s + L_validators s /\
  st_allocs s' = st_allocs s /\ st_rpools s' = st_rpools s /\ st_bals s' = st_bals s.
Proof.
  unfold ss_penalty; intros c s a blobber ls lf vals s' a' H Hok.
  destruct (lf <=? ls); [inversion H; subst; repeat split; auto; lia|].
  bind_as H d Ed. bind_as H cp Ecp. bind_as H rdtu E1. bind_as H dtu E2. bind_as H [d1 move0] E3. bind_as H vr E4. bind_as H move E5.
  bind_as H [vs cp1] E6. bind_as H mtv E7. bind_as H [w cp2] E8. bind_as H mb E9. bind_as H ret E10. bind_as H sl E11. cbv zeta in H.
  bind_as H [s2 pen] E12. injection H as Hs' Ha'. subst s' a'.
  apply f64_mult_coin_range in E4. apply ss_to_validators_owed in E6; [|lia].
  apply ss_move_from_cp_some in E8. destruct E8 as [-> [-> Hle2]].
  assert (Hs2 : st_ok s2 /\ L_blobbers s2 <= L_blobbers s /\ st_validators s2 = vs /\ st_allocs s2 = st_allocs s /\
                st_rpools s2 = st_rpools s /\ st_bals s2 = st_bals s).
  { destruct (f64_ltb f64_zero (cf_slash c) && (0 <? move) && (0 <? sl)).
    - bind_as E12 b Eb. bind_as E12 [b' dp] Esl. bind_as E12 p Ep. inversion E12; subst. cbn in Eb.
      pose proof (find_ok _ _ _ Hok Eb) as Hb. apply ss_sp_slash_owed in Esl; auto. destruct Esl as [Hok' [Hid Ho]].
      unfold st_ok, L_blobbers. cbn. split; [apply set_ok; auto|]. split; [|auto].
      rewrite (sum_set_blobber _ _ b); [lia | rewrite Hid; eapply ss_find_blobber_self; eauto].
    - inversion E12; subst. unfold st_ok, L_blobbers. cbn. repeat split; auto; lia. }
  destruct Hs2 as [Hok2 [Hb2 [Hv2 [Ha2 [Hr2 Hbal2]]]]].
  repeat split; auto. unfold L_validators in *. rewrite Hv2. unfold al_owed at 1. cbn. unfold al_owed. rewrite Ecp. lia.
Qed.

Lemma ss_reward_ledger : forall c s a blobber lf vals s' a', ss_reward c s a blobber lf vals = Some (s', a') -> st_ok s ->
  st_ok s' /\ al_owed a' + L_blobbers s' + L_validators s' <= al_owed a + L_blobbers s + L_validators s /\
  st_allocs s' = st_allocs s /\ st_rpools s' = st_rpools s /\ st_bals s' = st_bals s.
Proof.
  unfold ss_reward; intros c s a blobber lf vals s' a' H Hok.
  bind_as H d Ed. cbv zeta in H. guard_inv H. bind_as H cp Ecp. bind_as H rdtu E1. bind_as H dtu E2. bind_as H [d1 move] E3.
  bind_as H vr E4. bind_as H br E5. bind_as H b Eb. bind_as H [b' cp1] E7. bind_as H chrew E8. bind_as H [vs cp2] E9. bind_as H mtv E10.
  inversion H; subst. clear H.
  apply f64_mult_coin_range in E4. apply ss_to_validators_owed in E9; [|lia].
  apply ss_challenge_some in E3. destruct E3 as [_ [Hm0 Hm1]].
  apply ss_minus_coin_some in E5. destruct E5 as [-> Hle].
  pose proof (find_ok _ _ _ Hok Eb) as Hb.
  assert (Hb' : bl_ok b' /\ bl_id b' = bl_id b /\ bl_owed b' - bl_owed b <= cp - cp1).
  { destruct (move - vr =? 0); [inversion E7; subst; repeat split; auto; lia|].
    destruct (Z.ltb_spec cp (move - vr)); [discriminate|]. bind_as E7 b1 Eb1. inversion E7; subst.
    pose proof (ss_distribute_ok _ _ _ Eb1 Hb). apply ss_distribute_owed in Eb1; [|lia]. destruct Eb1. repeat split; auto; lia. }
  destruct Hb' as [Hok' [Hid Ho]].
  unfold st_ok, L_blobbers, L_validators in *. cbn [st_blobbers st_validators st_allocs st_rpools st_bals st_with_validators st_with_blobbers].
  split; [apply set_ok; auto|]. split; [|auto].
  rewrite (sum_set_blobber _ _ b); [|rewrite Hid; eapply ss_find_blobber_self; eauto].
  unfold al_owed at 1. cbn. unfold al_owed. rewrite Ecp. lia.
Qed.

Lemma al_owed_money : forall a a', al_money a' = al_money a -> al_owed a' = al_owed a.
Proof. unfold al_money, al_owed; intros a a' H. injection H as Hc _ Hw. rewrite Hc, Hw. reflexivity. Qed.

Lemma ss_chal_resp_backed : forall c s now round sender ch tok pass vals s',
  st_ok s -> ss_chal_resp c s now round sender ch tok pass vals = Some s' -> ss_backed c s s' /\ st_ok s'.
Proof.
  unfold ss_chal_resp; intros c s now round sender ch tok pass vals s' Hok H.
  bind_as H cn Ecn. guard_inv H. guard_inv H. guard_inv H. bind_as H a Ea. guard_inv H. guard_inv H. bind_as H d Ed. guard_inv H. guard_inv H.
  destruct pass; cbn [negb] in H.
  - remember (ss_drop_ocs _ (al_ocs a) a) as r eqn:Er. destruct r as [[a1 keep] gone]. symmetry in Er.
    pose proof (ss_drop_ocs_key _ _ _ _ _ _ Er) as Hk1. apply ss_drop_ocs_money in Er.
    bind_as H d1 Ed1. guard_inv H. bind_as H [s3 a3] E3. bind_as H [s4 a4] E4. inversion H; subst. clear H.
    match type of E4 with ss_reward _ _ _ _ ?x _ = _ => set (lf1 := x) in * end.
    match type of E3 with context [Some (s, ?x)] => set (a2 := x) in * end.
    assert (Ho2 : al_owed a2 = al_owed a) by (rewrite <- (al_owed_money _ _ Er); reflexivity).
    assert (Hk2 : al_id a2 = al_id a) by (change (al_id a2) with (fst (al_key a1)); rewrite Hk1; reflexivity).
    assert (H3 : st_ok s3 /\ al_owed a3 + L_blobbers s3 + L_validators s3 <= al_owed a2 + L_blobbers s + L_validators s /\
                 st_allocs s3 = st_allocs s /\ st_rpools s3 = st_rpools s /\ st_bals s3 = st_bals s /\ al_id a3 = al_id a2).
    { destruct (ba_ls d <? lf1).
      - pose proof (ss_penalty_keys _ _ _ _ _ _ _ _ _ E3) as [_ Hk]. apply ss_penalty_ledger in E3; auto.
        destruct E3 as [? [? [? [? ?]]]]. repeat split; auto. change (al_id a3) with (fst (al_key a3)). rewrite Hk. reflexivity.
      - inversion E3; subst. repeat split; auto; lia. }
    destruct H3 as [Hok3 [Hl3 [Ha3 [Hr3 [Hb3 Hi3]]]]].
    pose proof (ss_reward_keys _ _ _ _ _ _ _ _ E4) as [_ Hk4].
    apply ss_reward_ledger in E4; auto. destruct E4 as [Hok4 [Hl4 [Ha4 [Hr4 Hb4]]]].
    assert (Hi4 : al_id a4 = al_id a) by (change (al_id a4) with (fst (al_key a4)); rewrite Hk4; cbn; congruence).
    split; [|exact Hok4].
    unfold ss_backed, ss_liab, L_allocs, L_rpools, ss_wallet, ss_bal in *.
    cbn [st_allocs st_blobbers st_validators st_rpools st_bals st_with_allocs st_with_chals].
    unfold L_blobbers, L_validators in *. cbn [st_allocs st_blobbers st_validators st_rpools st_bals st_with_allocs st_with_chals].
    rewrite Ha4, Ha3, Hr4, Hr3, Hb4, Hb3.
    rewrite (sum_set_alloc _ _ a); [lia | rewrite Hi4; eapply ss_find_alloc_self; eauto].
  - inversion H; subst. clear H. split; [|exact Hok].
    unfold ss_backed, ss_liab, L_allocs, L_blobbers, L_validators, L_rpools, ss_wallet, ss_bal.
    cbn [st_allocs st_blobbers st_validators st_rpools st_bals st_with_allocs].
    rewrite (sum_set_alloc _ _ a); [|cbn; eapply ss_find_alloc_self; eauto].
    match goal with |- context [al_owed (al_with_stats ?x ?u ?t ?o ?sc ?f ?oc ?cn)] =>
      replace (al_owed (al_with_stats x u t o sc f oc cn)) with (al_owed a) by reflexivity end. lia.
Qed.

(* ---------- finalize / cancel ---------- *)

Lemma st_c12_find : forall s id a, st_c12 s -> ss_find_alloc id (st_allocs s) = Some a -> al_c12 a.
Proof.
  unfold st_c12; intros s id a Hs H. apply ss_find_alloc_in in H. destruct H as [Hin _].
  rewrite Forall_forall in Hs. auto.
Qed.

Lemma ss_finalize_backed : forall c s now round sender al s', st_c12 s -> st_ok s ->
  ss_finalize c s now round sender al = Some s' -> ss_backed c s s' /\ st_ok s'.
Proof.
  unfold ss_finalize; intros c s now round sender al s' Hc Hok H. bind_as H a Ea. guard_inv H. guard_inv H. guard_inv H.
  eapply ss_close_backed; eauto; [eapply st_c12_find; eauto | eapply ss_find_alloc_self; eauto].
Qed.

Lemma ss_cancel_backed : forall c s now round sender al s', st_c12 s -> st_ok s ->
  ss_cancel c s now round sender al = Some s' -> ss_backed c s s' /\ st_ok s'.
Proof.
  unfold ss_cancel; intros c s now round sender al s' Hc Hok H. bind_as H a Ea. guard_inv H. guard_inv H. guard_inv H.
  eapply ss_close_backed; eauto; [eapply st_c12_find; eauto | eapply ss_find_alloc_self; eauto].
Qed.

(* ---------- operations that leave the stake pools alone ---------- *)

Lemma ss_transfer_blobbers : forall s f t v s', ss_transfer s f t v = Some s' -> st_blobbers s' = st_blobbers s.
Proof. unfold ss_transfer; intros. crush H; inversion H; reflexivity. Qed.
Lemma ss_lock_from_blobbers : forall c s cl v s', ss_lock_from c s cl v = Some s' -> st_blobbers s' = st_blobbers s.
Proof. unfold ss_lock_from; intros. crush H. eapply ss_transfer_blobbers; eauto. Qed.

Ltac blob_base :=
  repeat match goal with
  | Hx : ss_lock_from _ _ _ _ = Some _ |- _ => apply ss_lock_from_blobbers in Hx
  | Hx : ss_transfer _ _ _ _ = Some _ |- _ => apply ss_transfer_blobbers in Hx
  | Hx : Some _ = Some _ |- _ => inversion Hx; subst; clear Hx
  end.
Ltac blob_done := cbn in *; congruence.

Lemma ss_wp_lock_blobbers : forall c s a b v s', ss_wp_lock c s a b v = Some s' -> st_blobbers s' = st_blobbers s.
Proof. unfold ss_wp_lock; intros. crush H; blob_base; blob_done. Qed.
Lemma ss_gen_chal_blobbers : forall c s now round al bl ch s', ss_gen_chal c s now round al bl ch = Some s' -> st_blobbers s' = st_blobbers s.
Proof. unfold ss_gen_chal; intros. crush H; blob_base; blob_done. Qed.
Lemma ss_rp_lock_blobbers : forall c s a b v s', ss_rp_lock c s a b v = Some s' -> st_blobbers s' = st_blobbers s.
Proof. unfold ss_rp_lock; intros. crush H; blob_base; blob_done. Qed.
Lemma ss_rp_unlock_blobbers : forall c s a s', ss_rp_unlock c s a = Some s' -> st_blobbers s' = st_blobbers s.
Proof. unfold ss_rp_unlock; intros. crush H; blob_base; blob_done. Qed.
Lemma ss_add_assigner_blobbers : forall c s a n k i t s', ss_add_assigner c s a n k i t = Some s' -> st_blobbers s' = st_blobbers s.
Proof. unfold ss_add_assigner; intros. crush H; blob_base; blob_done. Qed.

Lemma ss_assign_ok : forall c chosen all bsz now bas all',
  ss_assign c chosen all bsz now = Some (bas, all') -> Forall bl_ok all -> Forall bl_ok chosen -> Forall bl_ok all'.
Proof.
  induction chosen as [|b tl IH]; cbn [ss_assign]; intros all bsz now bas all' H Hall Hch.
  - inversion H; subst; auto.
  - inversion Hch; subst. cbv zeta in H. bind_as H b1 E1. bind_as H [ds all2] E2. inversion H; subst. clear H.
    apply ss_add_offer_owed in E1. destruct E1 as [_ [_ Hk]]. eapply IH; eauto. apply set_ok; auto.
Qed.

Lemma ss_new_alloc_ok : forall c s now id owner payer value tv data parity size bl rr wr tpe s',
  st_ok s -> ss_new_alloc c s now id owner payer value tv data parity size bl rr wr tpe = Some s' -> st_ok s'.
Proof.
  unfold ss_new_alloc; intros c s now id owner payer value tv data parity size bl rr wr tpe s' Hok H.
  guard_inv H. bind_as H bls Ebl. cbv zeta in H. guard_inv H. bind_as H [bas all] Eas. bind_as H s1 E1. bind_as H cost Ec. guard_inv H. guard_inv H.
  inversion H; subst. clear H. unfold st_ok. cbn [st_blobbers st_with_allocs st_with_blobbers].
  destruct (ss_find_blobbers_spec _ _ _ Ebl) as [_ Hfind].
  eapply ss_assign_ok; eauto. apply Forall_forall. intros b Hb.
  eapply find_ok; [exact Hok|]. apply Hfind. eapply In_filter_active. eapply In_firstn. exact Hb.
Qed.

Lemma ss_commit_ok : forall c s sender alloc client root prev size ts sig s',
  st_ok s -> ss_commit c s sender alloc client root prev size ts sig = Some s' -> st_ok s'.
Proof.
  unfold ss_commit; intros c s sender alloc client root prev size ts sig s' Hok H.
  crush H; blob_base; auto; unfold st_ok in *; cbn [st_blobbers st_with_allocs st_with_blobbers];
    apply set_ok; auto;
    match goal with Hf : ss_find_blobber _ _ = Some ?b |- bl_ok (bl_with_sizes ?b _ _) => exact (find_ok _ _ _ Hok Hf) end.
Qed.

Lemma ss_read_ok : forall c s client blobber alloc ts ctr i sg s',
  st_ok s -> ss_read c s client blobber alloc ts ctr i sg = Some s' -> st_ok s'.
Proof.
  unfold ss_read; intros c s client blobber alloc ts ctr i sg s' Hok H.
  guard_inv H. guard_inv H. guard_inv H. guard_inv H. bind_as H a Ea. guard_inv H. bind_as H d Ed. bind_as H b Eb.
  guard_inv H. guard_inv H. bind_as H b1 Eb1. bind_as H rr Er. inversion H; subst. clear H.
  unfold st_ok. cbn [st_blobbers st_with_allocs st_with_blobbers st_with_rpools st_with_reads].
  apply set_ok; auto. eapply ss_distribute_ok; eauto. eapply find_ok; eauto.
Qed.

Lemma ss_upd_blobber_ok : forall c s a b cap wp rp na s', st_ok s -> ss_upd_blobber c s a b cap wp rp na = Some s' -> st_ok s'.
Proof.
  unfold ss_upd_blobber; intros c s a b cap wp rp na s' Hok H. bind_as H x Ex.
  pose proof (find_ok _ _ _ Hok Ex) as Hx.
  crush H; blob_base; unfold st_ok; cbn [st_blobbers st_with_blobbers]; apply set_ok; auto.
Qed.

(* ---------- read pools stay non-negative ---------- *)

Definition rp_nonneg (s : ss_state) : Prop := Forall (fun kv => 0 <= snd kv) (st_rpools s).

Lemma assoc0_nonneg : forall k l, Forall (fun kv : Z * Z => 0 <= snd kv) l -> 0 <= ss_assoc0 k l.
Proof.
  unfold ss_assoc0. induction l as [|[k0 v0] tl IH]; cbn; intros H; [lia|]. inversion H; subst.
  destruct (k =? k0); auto.
Qed.

Lemma assoc_set_nonneg : forall k v l, Forall (fun kv : Z * Z => 0 <= snd kv) l -> 0 <= v ->
  Forall (fun kv : Z * Z => 0 <= snd kv) (ss_assoc_set k v l).
Proof.
  induction l as [|[k0 v0] tl IH]; cbn; intros H Hv; [repeat constructor; auto|]. inversion H; subst.
  destruct (k =? k0); constructor; auto.
Qed.

Lemma misc_rpools : forall s s', st_misc s' = st_misc s -> rp_nonneg s -> rp_nonneg s'.
Proof. unfold st_misc, rp_nonneg; intros s s' H Hr. inversion H as [[H1 H2 H3]]. rewrite H1. exact Hr. Qed.

Lemma ss_lock_from_rpools : forall c s cl v s', ss_lock_from c s cl v = Some s' -> st_rpools s' = st_rpools s.
Proof. intros. apply ss_lock_from_misc in H. unfold st_misc in H. inversion H; auto. Qed.

Lemma ss_rp_lock_rp : forall c s sender target value s', rp_nonneg s -> ss_rp_lock c s sender target value = Some s' -> rp_nonneg s'.
Proof.
  unfold ss_rp_lock, rp_nonneg; intros c s sender target value s' Hr H. guard_inv H. bind_as H s1 E1. bind_as H v Ev. inversion H; subst. clear H.
  apply ss_lock_from_rpools in E1. cbn [st_rpools st_with_rpools]. apply ss_add_coin_some in Ev. destruct Ev as [-> _]. rewrite E1.
  apply andb_true_iff in G. destruct G as [_ G]. apply Z.ltb_lt in G.
  apply assoc_set_nonneg; auto. pose proof (assoc0_nonneg target _ Hr). lia.
Qed.

Lemma ss_rp_unlock_rp : forall c s sender s', rp_nonneg s -> ss_rp_unlock c s sender = Some s' -> rp_nonneg s'.
Proof.
  unfold ss_rp_unlock, rp_nonneg; intros c s sender s' Hr H. bind_as H v Ev. bind_as H s1 E1. inversion H; subst. clear H.
  apply ss_transfer_misc in E1. unfold st_misc in E1. inversion E1 as [[H1 H2 H3]]. cbn [st_rpools st_with_rpools]. rewrite H1.
  apply assoc_set_nonneg; auto. lia.
Qed.

Lemma ss_read_rp : forall c s client blobber alloc ts ctr i sg s', rp_nonneg s ->
  ss_read c s client blobber alloc ts ctr i sg = Some s' -> rp_nonneg s'.
Proof.
  unfold ss_read, rp_nonneg; intros c s client blobber alloc ts ctr i sg s' Hr H.
  guard_inv H. guard_inv H. guard_inv H. guard_inv H. bind_as H a Ea. guard_inv H. bind_as H d Ed. bind_as H b Eb.
  guard_inv H. guard_inv H. bind_as H b1 Eb1. bind_as H rr Er. inversion H; subst. clear H.
  cbn [st_rpools st_with_allocs st_with_blobbers st_with_rpools st_with_reads].
  apply assoc_set_nonneg; auto. apply Z.leb_le in G5. lia.
Qed.

(* ---------- the remaining ledger-neutral operations ---------- *)

Lemma ss_gen_chal_backed : forall c s now round al bl ch s', ss_gen_chal c s now round al bl ch = Some s' -> ss_backed c s s'.
Proof.
  unfold ss_gen_chal; intros c s now round al bl ch s' H. bind_as H a Ea. bind_as H d0 Ed0.
  remember (ss_drop_ocs _ (al_ocs a) a) as r eqn:Er. destruct r as [[a1 keep] gone]. symmetry in Er.
  pose proof (ss_drop_ocs_key _ _ _ _ _ _ Er) as Hk. apply ss_drop_ocs_money in Er. guard_inv H. bind_as H d Ed. inversion H; subst. clear H.
  unfold ss_backed, ss_liab, L_allocs, L_blobbers, L_validators, L_rpools, ss_wallet, ss_bal.
  cbn [st_allocs st_blobbers st_validators st_rpools st_bals st_with_allocs st_with_chals].
  match goal with |- context [ss_set_alloc ?x _] => set (a2 := x) end.
  assert (Hi : al_id a2 = al_id a) by (change (al_id a2) with (fst (al_key a1)); rewrite Hk; reflexivity).
  assert (Ho : al_owed a2 = al_owed a) by (rewrite <- (al_owed_money _ _ Er); reflexivity).
  rewrite (sum_set_alloc _ _ a); [lia | rewrite Hi; eapply ss_find_alloc_self; eauto].
Qed.

Lemma ss_upd_blobber_backed : forall c s a b cap wp rp na s', ss_upd_blobber c s a b cap wp rp na = Some s' -> ss_backed c s s'.
Proof.
  unfold ss_upd_blobber; intros c s a b cap wp rp na s' H. bind_as H x Ex.
  pose proof (ss_find_blobber_self _ _ _ Ex) as Hx.
  crush H; blob_base; unfold ss_backed, ss_liab, L_allocs, L_blobbers, L_validators, L_rpools, ss_wallet, ss_bal;
    cbn [st_allocs st_blobbers st_validators st_rpools st_bals st_with_blobbers];
    (rewrite owed_set_blobber_same; [lia|]); intros y Hy; cbn in Hy; rewrite Hx in Hy; inversion Hy; subst; reflexivity.
Qed.

Lemma ss_add_assigner_backed : forall c s a n k i t s', ss_add_assigner c s a n k i t = Some s' -> ss_backed c s s'.
Proof. unfold ss_add_assigner; intros. crush H; blob_base; unfold ss_backed, ss_liab, L_allocs, L_blobbers, L_validators, L_rpools, ss_wallet, ss_bal; cbn; lia. Qed.

Lemma ss_add_assigner_rpools : forall c s a n k i t s', ss_add_assigner c s a n k i t = Some s' -> st_rpools s' = st_rpools s.
Proof. unfold ss_add_assigner; intros. crush H; blob_base; blob_done. Qed.

(* ---------- free allocations: the read-pool part of the marker is credited without a transfer ---------- *)

Definition ss_free_read_grant (c : ss_conf) (coin : option Z) : Z :=
  match coin with
  | Some free => match f64_float_to_coin (f64_mul (f64_of_Z free) (cf_free_frac c)) with Some r => r | None => 0 end
  | None => 0
  end.

Lemma ss_free_alloc_ledger : forall c s now id sender assigner recipient coin nonce sg bl s',
  cf_owner c <> cf_sc c -> st_ok s -> rp_nonneg s ->
  ss_free_alloc c s now id sender assigner recipient coin nonce sg bl = Some s' ->
  ss_liab s' - ss_liab s <= ss_wallet c s' - ss_wallet c s + ss_free_read_grant c coin /\ 0 <= ss_free_read_grant c coin /\
  st_ok s' /\ rp_nonneg s'.
Proof.
  unfold ss_free_alloc; intros c s now id sender assigner recipient coin nonce sg bl s' Hc Hok Hrp H.
  guard_inv H. bind_as H a Ea. bind_as H free Ef. guard_inv H. bind_as H nt Ent. guard_inv H. bind_as H rtok Er. bind_as H wtok Ew.
  bind_as H s1 E1. cbv zeta in H. bind_as H v Ev. inversion H; subst. clear H.
  unfold ss_free_read_grant. rewrite Er.
  apply f64_float_to_coin_range in Er. apply ss_minus_coin_some in Ew. destruct Ew as [-> Hle].
  apply ss_add_coin_some in Ev. destruct Ev as [-> _].
  pose proof (ss_new_alloc_ok _ _ _ _ _ _ _ _ _ _ _ _ _ _ _ _ Hok E1) as Hok1.
  pose proof (ss_new_alloc_misc _ _ _ _ _ _ _ _ _ _ _ _ _ _ _ _ E1) as Hm.
  assert (Hrp1 : rp_nonneg s1) by (eapply misc_rpools; eauto).
  apply ss_new_alloc_backed in E1; [|lia|exact Hc].
  unfold ss_backed, ss_liab, L_allocs, L_blobbers, L_validators, L_rpools, ss_wallet, ss_bal, st_ok, rp_nonneg in *.
  cbn [st_allocs st_blobbers st_validators st_rpools st_bals st_with_assigners st_with_rpools] in *.
  rewrite sum_assoc_set. repeat split; auto; try lia.
  apply assoc_set_nonneg; auto. pose proof (assoc0_nonneg recipient _ Hrp1). lia.
Qed.

(* ---------- update_allocation: extend, add / replace / remove a blobber ---------- *)

Lemma ss_extend_terms_owed : forall c rs diff bas bls bas' bls',
  ss_extend_terms c rs diff bas bls = Some (bas', bls') -> Forall bl_ok bls ->
  Forall bl_ok bls' /\ map bl_owed bls' = map bl_owed bls.
Proof.
  induction bas as [|d tl IH]; cbn [ss_extend_terms]; intros bls bas' bls' H Hok.
  - inversion H; subst; auto.
  - bind_as H b Eb. guard_inv H. bind_as H b1 E1. cbv zeta in H. bind_as H b2 E2. bind_as H [ds bl2] E3. inversion H; subst. clear H.
    pose proof (find_ok _ _ _ Hok Eb) as Hb.
    assert (H1 : bl_owed b1 = bl_owed b /\ bl_id b1 = bl_id b /\ bl_ok b1).
    { destruct (0 <? rs); [guard_inv E1; guard_inv E1; inversion E1; subst; auto | inversion E1; subst; auto]. }
    destruct H1 as [Ho1 [Hi1 Hk1]].
    assert (H2 : bl_owed b2 = bl_owed b /\ bl_id b2 = bl_id b /\ bl_ok b2).
    { destruct (_ <? _) in E2.
      - apply ss_add_offer_owed in E2. destruct E2 as [? [? Hk]]. repeat split; [congruence | congruence | auto].
      - destruct (_ <? _) in E2.
        + apply ss_reduce_offer_owed in E2. destruct E2 as [? [? Hk]]. repeat split; [congruence | congruence | auto].
        + inversion E2; subst; auto. }
    destruct H2 as [Ho2 [Hi2 Hk2]].
    destruct (IH _ _ _ E3 (set_ok _ _ Hok Hk2)) as [Hok' Hm]. split; [exact Hok'|]. rewrite Hm.
    apply owed_set_blobber_same. intros x Hx. rewrite Hi2 in Hx.
    rewrite (ss_find_blobber_self _ _ _ Eb) in Hx. inversion Hx; subst. exact Ho2.
Qed.

Lemma ss_adjust_loop_sum : forall odrtu ndrtu bas owps w cp mtc mb bas' w' cp' mtc' mb' f,
  ss_adjust_loop odrtu ndrtu bas owps w cp mtc mb = Some (bas', w', cp', mtc', mb', f) -> w' + cp' = w + cp.
Proof.
  induction bas as [|d tl IH]; cbn [ss_adjust_loop]; intros owps w cp mtc mb bas' w' cp' mtc' mb' f H.
  - inversion H; subst; reflexivity.
  - destruct owps as [|owp otl]; [discriminate|]. destruct (ba_used d =? 0).
    + bind_as H [[[[[ds w1] cp1] m1] b1] f1] E. inversion H; subst. eapply IH; eauto.
    + cbv zeta in H. guard_inv H. destruct (_ =? 0) in H.
      * bind_as H [[[[[ds w1] cp1] m1] b1] f1] E. inversion H; subst. eapply IH; eauto.
      * destruct (f64_ltb _ f64_zero) in H.
        -- bind_as H [w1 cp1] Em. bind_as H v' Ev. bind_as H [[[[[ds w2] cp2] m2] b2] f2] E. inversion H; subst.
           apply ss_move_from_cp_some in Em. destruct Em as [-> [-> _]]. apply IH in E. lia.
        -- bind_as H [w1 cp1] Em. bind_as H [[[[[ds w2] cp2] m2] b2] f2] E. inversion H; subst.
           apply ss_move_to_cp_some in Em. destruct Em as [-> [-> _]]. apply IH in E. lia.
Qed.

Definition ss_same_rest (s s' : ss_state) : Prop :=
  st_validators s' = st_validators s /\ st_rpools s' = st_rpools s /\ st_bals s' = st_bals s /\ st_allocs s' = st_allocs s.

Lemma ss_extend_ledger : forall c s now a size s' a' f, ss_extend c s now a size = Some (s', a', f) -> st_ok s ->
  st_ok s' /\ al_owed a' = al_owed a /\ L_blobbers s' = L_blobbers s /\ ss_same_rest s s' /\ al_id a' = al_id a.
Proof.
  unfold ss_extend; intros c s now a size s' a' f H Hok. cbv zeta in H.
  bind_as H [bas bls] Et. apply ss_extend_terms_owed in Et; [|exact Hok]. destruct Et as [Hok' Hm].
  destruct (_ =? 0) in H.
  - inversion H; subst. unfold st_ok, L_blobbers, ss_same_rest. cbn. rewrite Hm. repeat split; auto.
  - bind_as H od Eo. bind_as H nd En. bind_as H cp Ecp. bind_as H [[[[[bas' w] cp'] mtc] mb] fl] Ea. inversion H; subst.
    apply ss_adjust_loop_sum in Ea. cbn in Ecp.
    unfold st_ok, L_blobbers, ss_same_rest. cbn [st_blobbers st_validators st_rpools st_bals st_allocs st_with_blobbers]. rewrite Hm.
    repeat split; auto. unfold al_owed. cbn. rewrite Ecp. cbn in Ea. lia.
Qed.

Lemma ss_replace_ledger : forall c s now round a removed nb s' a' f,
  ss_replace c s now round a removed nb = Some (s', a', f) -> al_c12 a -> st_ok s ->
  st_ok s' /\ al_owed a' + L_blobbers s' <= al_owed a + L_blobbers s /\ ss_same_rest s s' /\ al_id a' = al_id a /\
  (forall id, id <> removed -> ss_find_blobber id (st_blobbers s') = ss_find_blobber id (st_blobbers s)).
Proof.
  unfold ss_replace; intros c s now round a removed nb s' a' f H Ha Hok.
  bind_as H d Ed. bind_as H b Eb. pose proof (find_ok _ _ _ Hok Eb) as Hb.
  destruct (bl_killed b || bl_shut b).
  - bind_as H cp Ecp. bind_as H [w cp'] Em. bind_as H mb Emb. inversion H; subst.
    apply ss_move_from_cp_some in Em. destruct Em as [-> [-> _]].
    unfold ss_same_rest. repeat split; auto. unfold al_owed at 1. cbn. unfold al_owed. rewrite Ecp. lia.
  - bind_as H [[a1 rate] gone] Er. pose proof (ss_remove_rates_key _ _ _ _ _ _ _ Er) as Hk1.
    apply ss_remove_rates_money in Er.
    assert (Ha1 : al_c12 a1) by (eapply al_c12_money_eq; eauto).
    bind_as H d1 Ed1. bind_as H b0 E0. bind_as H cp Ecp. bind_as H [[[b1 d2] reward] pen] Ef. bind_as H cp1 Ec1. cbv zeta in H.
    bind_as H mb Emb. bind_as H [w cp2] Em. guard_inv H. bind_as H due Edue. bind_as H [b2 w2] E2. inversion H; subst. clear H.
    apply ss_reduce_offer_owed in E0. destruct E0 as [Ho0 [Hi0 Hk0]].
    pose proof (al_c12_ba_range _ _ _ Ha1 Ed1) as [Hd1 _].
    apply ss_fin_pay_owed in Ef; auto. destruct Ef as [Hok1 [Hi1 [Ho1 Hr0]]].
    apply ss_minus_coin_some in Ec1. destruct Ec1 as [-> Hle].
    apply ss_move_from_cp_some in Em. destruct Em as [-> [-> Hle2]].
    assert (H2 : bl_ok b2 /\ bl_id b2 = bl_id b1 /\ exists share, 0 <= share /\ w2 = al_wpool a1 + ss_wrap (ba_cpiv d2 + pen) - share /\
                 bl_owed b2 <= bl_owed b1 + share).
    { destruct due as [cc|].
      - bind_as E2 total Et. cbv zeta in E2. bind_as E2 b' Eb'. bind_as E2 w' Ew. guard_inv E2. inversion E2; subst.
        match type of Eb' with ss_distribute _ ?x = _ => set (share := x) in * end.
        assert (Hs : 0 <= share).
        { subst share. unfold ss_cancel_share. destruct (f64_float_to_coin _) eqn:Ec; [apply f64_float_to_coin_range in Ec; lia | lia]. }
        pose proof (ss_distribute_ok _ _ _ Eb' Hok1) as Hokb. apply ss_distribute_owed in Eb'; [|exact Hs]. destruct Eb' as [Hib Hob].
        apply ss_minus_coin_some in Ew. destruct Ew as [-> _]. split; [exact Hokb|]. split; [exact Hib|]. exists share. repeat split; auto; lia.
      - inversion E2; subst. split; [exact Hok1|]. split; [reflexivity|]. exists 0. repeat split; lia. }
    destruct H2 as [Hok2 [Hi2 [share [Hs0 [Hw2 Ho2]]]]].
    set (bsp := if ss_active (cf_demeter c) round then b2 else b0).
    assert (Hbsp : bl_ok bsp /\ bl_owed bsp <= bl_owed b + reward + share).
    { subst bsp. destruct (ss_active (cf_demeter c) round); [split; [exact Hok2 | lia] | split; [auto | lia]]. }
    destruct Hbsp as [Hokb Hob].
    match goal with |- context [ss_set_blobber ?x _] => set (bnode := x) end.
    assert (Hnode : bl_ok bnode /\ bl_owed bnode = bl_owed bsp /\ bl_id bnode = bl_id b) by (subst bnode; repeat split; auto).
    destruct Hnode as [Hokn [Hon Hin]].
    assert (Hidb : bl_id b = removed) by (eapply ss_find_blobber_id; eauto).
    unfold st_ok, L_blobbers, ss_same_rest. cbn [st_blobbers st_validators st_rpools st_bals st_allocs st_with_blobbers st_with_chals].
    split; [apply set_ok; auto|]. split.
    + rewrite (sum_set_blobber _ _ b); [|rewrite Hin; eapply ss_find_blobber_self; eauto].
      assert (Hoa : al_owed a1 = al_owed a) by (apply al_owed_money; exact Er).
      match goal with |- al_owed ?x + _ <= _ => assert (Hx : al_owed x = w2 + (cp - reward - ss_wrap (ba_cpiv d2 + pen))) by (unfold al_owed; reflexivity) end.
      rewrite Hx. unfold al_owed in Hoa. rewrite Ecp in Hoa. unfold al_owed in *. lia.
    + split; [repeat split; auto|]. split.
      * change (al_id a1 = al_id a). change (al_id a1) with (fst (al_key a1)). rewrite Hk1. reflexivity.
      * intros id Hid. rewrite ss_find_set_blobber. rewrite Hin, Hidb. destruct (Z.eqb_spec id removed); [contradiction | reflexivity].
Qed.

Lemma ss_change_blobbers_ledger : forall c s now round a add rem s' a' f,
  ss_change_blobbers c s now round a add rem = Some (s', a', f) -> al_c12 a -> st_ok s ->
  st_ok s' /\ al_owed a' + L_blobbers s' <= al_owed a + L_blobbers s /\ ss_same_rest s s' /\ al_id a' = al_id a.
Proof.
  unfold ss_change_blobbers; intros c s now round a add rem s' a' f H Ha Hok.
  guard_inv H. bind_as H ab Eab. cbv zeta in H. guard_inv H. bind_as H [[s1 a1] fired] E1. bind_as H ab2 E2. injection H as Hs' Ha' Hf'. subst s' a' f.
  pose proof (find_ok _ _ _ Hok Eab) as Hab.
  apply ss_add_offer_owed in E2. destruct E2 as [Ho2 [Hi2 Hk2]]. cbn in Ho2, Hi2.
  assert (Hida : bl_id ab = add) by (eapply ss_find_blobber_id; eauto).
  assert (H1 : st_ok s1 /\ al_owed a1 + L_blobbers s1 <= al_owed a + L_blobbers s /\ ss_same_rest s s1 /\ al_id a1 = al_id a /\
               ss_find_blobber add (st_blobbers s1) = Some ab).
  { destruct rem as [r|].
    - assert (Hne : add <> r).
      { intros ->. unfold ss_replace in E1. bind_as E1 d Ed. destruct (ss_find_ba r (al_bas a)); discriminate. }
      destruct (ss_replace_ledger _ _ _ _ _ _ _ _ _ _ E1 Ha Hok) as [? [? [? [? Hfr]]]]. split; [assumption|]. split; [assumption|]. split; [assumption|]. split; [assumption|]. rewrite Hfr; auto.
    - inversion E1; subst. split; [exact Hok|]. split; [unfold al_owed; cbn; lia|]. split; [unfold ss_same_rest; auto|]. split; [reflexivity | exact Eab]. }
  destruct H1 as [Hok1 [Hl1 [Hr1 [Hi1 Hf1]]]].
  unfold st_ok, L_blobbers, ss_same_rest in *. cbn [st_blobbers st_validators st_rpools st_bals st_allocs st_with_blobbers].
  split; [apply set_ok; auto|]. split; [|auto].
  rewrite (sum_set_blobber _ _ ab); [|rewrite Hi2, Hida; exact Hf1]. assert (Hx : bl_owed ab2 = bl_owed ab) by (rewrite Ho2; reflexivity). lia.
Qed.

Lemma ss_update_f_backed : forall c s now round sender alloc value size ext tpe add rem own s' f,
  st_c12 s -> st_ok s -> 0 <= value -> sender <> cf_sc c ->
  ss_update_f c s now round sender alloc value size ext tpe add rem own = Some (s', f) -> ss_backed c s s' /\ st_ok s'.
Proof.
  unfold ss_update_f; intros c s now round sender alloc value size ext tpe add rem own s' f H12 Hok Hv Hsn H.
  cbv zeta in H. bind_as H a Ea. guard_inv H. guard_inv H. guard_inv H. guard_inv H. guard_inv H. guard_inv H. guard_inv H.
  bind_as H [s1 a1] E1. bind_as H fb Efb. bind_as H [[s2 a2] fired] E2. bind_as H cp Ecp. bind_as H need En. guard_inv H.
  inversion H; subst. clear H.
  pose proof (st_c12_find _ _ _ H12 Ea) as Ha.
  assert (H1 : st_blobbers s1 = st_blobbers s /\ st_validators s1 = st_validators s /\ st_rpools s1 = st_rpools s /\
               st_allocs s1 = st_allocs s /\ al_id a1 = al_id a /\ al_c12 a1 /\
               al_owed a1 - al_owed a <= ss_wallet c s1 - ss_wallet c s).
  { destruct (ss_active (cf_demeter c) round && (0 <? value)).
    - bind_as E1 sx Ex. bind_as E1 w Ew. guard_inv E1. inversion E1; subst.
      apply ss_lock_from_ledger in Ex; auto. destruct Ex as [Hw [Hal [Hbl [Hvl Hrp]]]].
      apply ss_add_coin_some in Ew. destruct Ew as [-> Hlt].
      split; [exact Hbl|]. split; [exact Hvl|]. split; [exact Hrp|]. split; [exact Hal|]. split; [reflexivity|]. split.
      + destruct Ha as [H1 [H2 [H3 H4]]]. unfold al_c12, c12_money. cbn in *. repeat split; auto; try lia.
      + rewrite Hw. unfold al_owed. cbn [al_wpool al_cp al_with_pools]. lia.
    - inversion E1; subst. split; [reflexivity|]. split; [reflexivity|]. split; [reflexivity|]. split; [reflexivity|]. split; [reflexivity|]. split; [exact Ha | lia]. }
  destruct H1 as [Hb1 [Hv1 [Hr1 [Hal1 [Hi1 [Ha1 Hw1]]]]]].
  assert (Hok1 : st_ok s1) by (unfold st_ok; rewrite Hb1; exact Hok).
  assert (H2 : st_ok s2 /\ al_owed a2 + L_blobbers s2 <= al_owed a1 + L_blobbers s1 /\ ss_same_rest s1 s2 /\ al_id a2 = al_id a1).
  { destruct (negb (sender =? al_owner a1)).
    - destruct (ss_extend_ledger _ _ _ _ _ _ _ _ E2 Hok1) as [Hx1 [Hx2 [Hx3 [Hx4 Hx5]]]]. split; [exact Hx1|]. split; [lia|]. split; assumption.
    - bind_as E2 [[sa aa] f1] Ec. bind_as E2 [[sb ab] f2] Ee.
      assert (Hc : st_ok sa /\ al_owed aa + L_blobbers sa <= al_owed a1 + L_blobbers s1 /\ ss_same_rest s1 sa /\ al_id aa = al_id a1).
      { destruct add as [x|]; [eapply ss_change_blobbers_ledger; eauto|]. inversion Ec; subst. unfold ss_same_rest. repeat split; auto; try lia. }
      destruct Hc as [Hoka [Hla [Hra Hia]]].
      assert (He : st_ok sb /\ al_owed ab + L_blobbers sb <= al_owed aa + L_blobbers sa /\ ss_same_rest sa sb /\ al_id ab = al_id aa).
      { destruct (ext || (0 <? size)).
        - destruct (ss_extend_ledger _ _ _ _ _ _ _ _ Ee Hoka) as [Hx1 [Hx2 [Hx3 [Hx4 Hx5]]]]. split; [exact Hx1|]. split; [lia|]. split; assumption.
        - inversion Ee; subst. unfold ss_same_rest. repeat split; auto; try lia. }
      destruct He as [Hokb [Hlb [Hrb Hib]]].
      assert (Hfin : st_ok s2 /\ L_blobbers s2 = L_blobbers sb /\ ss_same_rest sb s2 /\ al_owed a2 = al_owed ab /\ al_id a2 = al_id ab).
      { unfold ss_same_rest. crush E2; blob_base; repeat split; auto. }
      destruct Hfin as [Hokf [Hlf [Hrf [Hof Hif]]]].
      unfold ss_same_rest in *. destruct Hra as [? [? [? ?]]], Hrb as [? [? [? ?]]], Hrf as [? [? [? ?]]].
      repeat split; auto; try congruence; lia. }
  destruct H2 as [Hok2 [Hl2 [[Hv2 [Hr2 [Hb2 Hal2]]] Hi2]]].
  split; [|unfold st_ok in *; cbn; exact Hok2].
  unfold ss_backed, ss_liab, L_allocs, L_validators, L_rpools, ss_wallet, ss_bal in *. unfold L_blobbers in *.
  cbn [st_allocs st_blobbers st_validators st_rpools st_bals st_with_allocs].
  rewrite Hal2, Hal1, Hv2, Hv1, Hr2, Hr1, Hb2.
  rewrite (sum_set_alloc _ _ a); [|rewrite Hi2, Hi1; eapply ss_find_alloc_self; eauto].
  rewrite Hb1 in Hl2. lia.
Qed.

(* ---------- one transaction, histories ---------- *)

Definition st_c09 (s : ss_state) : Prop := st_c12 s /\ st_ok s /\ rp_nonneg s.

(* the contract's own address never signs a transaction *)
Definition ss_op_wf09 (c : ss_conf) (o : ss_op) : Prop :=
  ss_op_wf o /\
  match o with
  | OpNewAlloc _ sender _ _ _ _ _ _ _ _ _ _ _ => sender <> cf_sc c
  | OpWPLock sender _ _ => sender <> cf_sc c
  | OpRPLock sender _ _ => sender <> cf_sc c
  | OpRPUnlock sender => sender <> cf_sc c
  | OpUpdate sender _ _ _ _ _ _ _ _ => sender <> cf_sc c
  | _ => True
  end.

(* what this step theorem covers: everything except kill / shut-down (their float slash fraction is
   handled with Flocq in Proof/StorageLedgerFull.v) and free allocations that grant read tokens (refuted) *)
Definition ss_c09_scope (c : ss_conf) (o : ss_op) : Prop :=
  match o with
  | OpKill _ _ => False
  | OpShutdown _ _ => False
  | OpFreeAlloc _ _ _ _ coin _ _ _ => ss_free_read_grant c coin = 0
  | _ => True
  end.

Theorem ss_apply_c09 : forall c s now round o s',
  cf_owner c <> cf_sc c -> st_c09 s -> ss_op_wf09 c o -> ss_c09_scope c o ->
  ss_apply c s now round o = Some s' -> ss_backed c s s' /\ st_c09 s'.
Proof.
  intros c s now round o s' Hc [H12 [Hok Hrp]] [Hwf Hs] Hsc H.
  assert (H12' : st_c12 s') by (eapply ss_apply_c12; eauto).
  unfold st_c09.
  destruct o; cbn [ss_apply ss_op_wf ss_c09_scope] in *.
  - discriminate.
  - split; [eapply ss_new_alloc_backed; eauto|]. split; auto.
    split; [eapply ss_new_alloc_ok; eauto | eapply misc_rpools; [eapply ss_new_alloc_misc; eauto | auto]].
  - split; [eapply ss_wp_lock_backed; eauto|]. split; auto.
    split; [unfold st_ok; rewrite (ss_wp_lock_blobbers _ _ _ _ _ _ H); auto | eapply misc_rpools; [eapply ss_wp_lock_misc; eauto | auto]].
  - split; [eapply ss_commit_backed; eauto|]. split; auto.
    split; [eapply ss_commit_ok; eauto | eapply misc_rpools; [eapply ss_commit_misc; eauto | auto]].
  - destruct sel as [[[al bl] ch]|]; [|inversion H; subst; split; [apply backed_refl | auto]].
    split; [eapply ss_gen_chal_backed; eauto|]. split; auto.
    split; [unfold st_ok; rewrite (ss_gen_chal_blobbers _ _ _ _ _ _ _ _ H); auto | eapply misc_rpools; [eapply ss_gen_chal_misc; eauto | auto]].
  - destruct (ss_chal_resp_backed _ _ _ _ _ _ _ _ _ _ Hok H) as [Hb Hok']. split; auto. split; auto. split; auto.
    eapply misc_rpools; [eapply ss_chal_resp_misc; eauto | auto].
  - unfold ss_update in H. destruct (ss_update_f c s now round sender alloc value size extend set_tpe add remove new_owner) as [[sx fx]|] eqn:E; [|discriminate].
    inversion H; subst. destruct (ss_update_f_backed _ _ _ _ _ _ _ _ _ _ _ _ _ _ _ H12 Hok Hwf Hs E) as [Hb Hok']. split; auto. split; auto. split; auto.
    eapply misc_rpools; [eapply ss_update_f_misc; eauto | auto].
  - destruct (ss_finalize_backed _ _ _ _ _ _ _ H12 Hok H) as [Hb Hok']. split; auto. split; auto. split; auto.
    eapply misc_rpools; [eapply ss_finalize_misc; eauto | auto].
  - destruct (ss_cancel_backed _ _ _ _ _ _ _ H12 Hok H) as [Hb Hok']. split; auto. split; auto. split; auto.
    eapply misc_rpools; [eapply ss_cancel_misc; eauto | auto].
  - split; [eapply ss_rp_lock_backed; eauto|]. split; auto.
    split; [unfold st_ok; rewrite (ss_rp_lock_blobbers _ _ _ _ _ _ H); auto | eapply ss_rp_lock_rp; eauto].
  - split; [eapply ss_rp_unlock_backed; eauto; apply assoc0_nonneg; exact Hrp|]. split; auto.
    split; [unfold st_ok; rewrite (ss_rp_unlock_blobbers _ _ _ _ H); auto | eapply ss_rp_unlock_rp; eauto].
  - split; [eapply ss_read_backed; eauto|]. split; auto.
    split; [eapply ss_read_ok; eauto | eapply ss_read_rp; eauto].
  - contradiction.
  - contradiction.
  - split; [eapply ss_upd_blobber_backed; eauto|]. split; auto.
    split; [eapply ss_upd_blobber_ok; eauto | eapply misc_rpools; [eapply ss_upd_blobber_misc; eauto | auto]].
  - split; [eapply ss_add_assigner_backed; eauto|]. split; auto.
    split; [unfold st_ok; rewrite (ss_add_assigner_blobbers _ _ _ _ _ _ _ _ H); auto|].
    unfold rp_nonneg. rewrite (ss_add_assigner_rpools _ _ _ _ _ _ _ _ H). exact Hrp.
  - destruct (ss_free_alloc_ledger _ _ _ _ _ _ _ _ _ _ _ _ Hc Hok Hrp H) as [Hl [_ [Hok' Hrp']]].
    rewrite Hsc in Hl. split; [unfold ss_backed; lia | auto].
Qed.

Definition ss_c09_ok (c : ss_conf) (t : Z * Z * ss_op) : Prop := ss_op_wf09 c (snd t) /\ ss_c09_scope c (snd t).

Theorem ss_run_c09 : forall c ts s, cf_owner c <> cf_sc c -> st_c09 s -> Forall (ss_c09_ok c) ts ->
  ss_backed c s (fst (ss_run c s ts)) /\ st_c09 (fst (ss_run c s ts)).
Proof.
  induction ts as [|[[now round] o] tl IH]; cbn [ss_run]; intros s Hc Hs Hwf; [split; [apply backed_refl | exact Hs]|].
  inversion Hwf as [|? ? [Hw Hsc] Htl]; subst. cbn [snd] in *.
  unfold ss_step. destruct (ss_apply c s now round o) as [s1|] eqn:E.
  - destruct (ss_apply_c09 _ _ _ _ _ _ Hc Hs Hw Hsc E) as [Hb Hs1].
    specialize (IH s1 Hc Hs1 Htl). destruct (ss_run c s1 tl) as [s2 oks]. cbn [fst] in *.
    destruct IH as [Hb2 Hs2]. split; [unfold ss_backed in *; lia | exact Hs2].
  - specialize (IH s Hc Hs Htl). destruct (ss_run c s tl) as [s2 oks]. exact IH.
Qed.

Corollary ss_run_solvent : forall c ts s, cf_owner c <> cf_sc c -> st_c09 s -> Forall (ss_c09_ok c) ts ->
  ss_liab s <= ss_wallet c s -> ss_liab (fst (ss_run c s ts)) <= ss_wallet c (fst (ss_run c s ts)).
Proof. intros c ts s Hc Hs Hwf H0. destruct (ss_run_c09 c ts s Hc Hs Hwf) as [Hb _]. unfold ss_backed in Hb. lia. Qed.

(* executable forms for concrete states *)
Definition st_okb (s : ss_state) : bool := forallb (fun b => forallb (fun p => (0 <=? p) && (p <? B)) (bl_pools b)) (st_blobbers s).
Definition rp_nonnegb (s : ss_state) : bool := forallb (fun kv => 0 <=? snd kv) (st_rpools s).
Definition st_c09b (s : ss_state) : bool := st_c12b s && st_okb s && rp_nonnegb s.

Lemma st_c09b_true : forall s, st_c09b s = true -> st_c09 s.
Proof.
  unfold st_c09b, st_c09; intros s H. apply andb_true_iff in H. destruct H as [H H3]. apply andb_true_iff in H. destruct H as [H1 H2].
  split; [apply st_c12b_spec; exact H1|]. split.
  - unfold st_ok, bl_ok, st_okb in *. rewrite forallb_forall in H2. apply Forall_forall. intros b Hb. specialize (H2 b Hb).
    rewrite forallb_forall in H2. apply Forall_forall. intros p Hp. specialize (H2 p Hp). apply andb_true_iff in H2. destruct H2 as [Ha Hb']. apply Z.leb_le in Ha. apply Z.ltb_lt in Hb'. lia.
  - unfold rp_nonneg, rp_nonnegb in *. rewrite forallb_forall in H3. apply Forall_forall. intros kv Hk. apply Z.leb_le. auto.
Qed.


End Bound.
