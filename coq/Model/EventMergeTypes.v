(* Types of the generated merger table (Gen/EventMergers.v, translator harness/translators/eventmergers; property C20). *)
From Coq Require Export List String.
Export ListNotations.

Inductive em_kind :=
  | EmOverwrite   (* withUniqueEventOverwrite: of the events with one index only the last survives *)
  | EmMerge       (* withEventMerge f: events with one index are folded into the first one *)
  | EmKeep.       (* no middleware *)

(* shape of the function f handed to withEventMerge, read off its body by the translator *)
Inductive em_field_kind :=
  | FScalar       (* a.F += b.F *)
  | FMap.         (* for k, v := range b.F { a.F[k] += v } (with or without the "not yet present" branch) *)

Inductive em_fn :=
  | MfAdd (fields : list (string * em_field_kind))  (* the body is exactly: one addition per listed field, then return a, nil *)
  | MfOther.                                        (* anything else: early returns, conditions, replacement by key ... *)
