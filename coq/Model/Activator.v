(* Model of chaincore/chain/state/activator.go (HardFork, GetRoundByName, WithActivation) --
   property C43.  Definitions only; proofs are in Proof/Activator.v.
   The state trie is reduced to what the activator reads: for every fork name either a recorded
   HardFork (round), a value under the fork's key that does not decode as a HardFork, or nothing;
   [ac_broken] = the trie cannot resolve a node (util.ErrNodeNotFound on every read).
   Rounds are int64 and only compared, so Z is exact. Errors returned by the two callbacks are
   opaque Z tokens. *)
From Coq Require Export List ZArith Bool Arith Lia String.
Export ListNotations.
Open Scope Z_scope.

Definition ac_maxint64 : Z := 9223372036854775807.

Inductive ac_lookup := AcFound (r : Z) | AcAbsent | AcNodeNotFound | AcOtherErr.
Inductive ac_errkind := AcOk | AcErrValueNotPresent | AcErrNodeNotFound | AcErrOther.

(* GetRoundByName: (fork.round, nil) or (math.MaxInt64, err) *)
Definition ac_round_by_name (l : ac_lookup) : Z * ac_errkind :=
  match l with
  | AcFound r => (r, AcOk)
  | AcAbsent => (ac_maxint64, AcErrValueNotPresent)
  | AcNodeNotFound => (ac_maxint64, AcErrNodeNotFound)
  | AcOtherErr => (ac_maxint64, AcErrOther)
  end.

Inductive ac_branch := AcBefore | AcAfter | AcNone.

(* WithActivation: which callback runs for a block of round [br] *)
Definition ac_with_activation (l : ac_lookup) (br : Z) : ac_branch :=
  let '(round, err) := ac_round_by_name l in
  match err with
  | AcErrNodeNotFound => AcNone
  | _ => if Z.ltb br round then AcBefore else AcAfter
  end.

(* what WithActivation returns: the callback's error token, or the node-not-found error *)
Definition ac_node_not_found_token : Z := -1.
Definition ac_result (b : ac_branch) (before_err after_err : Z) : Z :=
  match b with AcBefore => before_err | AcAfter => after_err | AcNone => ac_node_not_found_token end.

(* ---- the part of the state the activator reads, and histories ---- *)
Inductive ac_entry := AcRec (r : Z) | AcGarbage.
Record ac_state := { ac_forks : list (string * ac_entry); ac_broken : bool }.
Definition ac_init : ac_state := {| ac_forks := []; ac_broken := false |}.

Fixpoint ac_find (fs : list (string * ac_entry)) (name : string) : option ac_entry :=
  match fs with
  | [] => None
  | (n, e) :: t => if String.eqb n name then Some e else ac_find t name
  end.

Definition ac_remove (fs : list (string * ac_entry)) (name : string) : list (string * ac_entry) :=
  filter (fun p => negb (String.eqb (fst p) name)) fs.

Definition ac_lookup_of (s : ac_state) (name : string) : ac_lookup :=
  if ac_broken s then AcNodeNotFound
  else match ac_find (ac_forks s) name with
       | None => AcAbsent
       | Some (AcRec r) => AcFound r
       | Some AcGarbage => AcOtherErr
       end.

Inductive ac_op :=
| AcRecord (name : string) (r : Z)        (* InsertTrieNode(fork.GetKey(), fork) *)
| AcRecordMany (req : list (string * Z))  (* one minersc add_hardfork transaction carrying the request map name -> round *)
| AcCorrupt (name : string)               (* a value that is not a HardFork under the fork's key *)
| AcDelete (name : string)
| AcBreak                                 (* the trie loses a node: every read fails with ErrNodeNotFound *)
| AcQuery (name : string) (br before_err after_err : Z)
| AcGetRound (name : string).

(* the request map as an association list (names distinct) *)
Fixpoint ac_assoc (req : list (string * Z)) (name : string) : option Z :=
  match req with
  | [] => None
  | (n, r) :: t => if String.eqb n name then Some r else ac_assoc t name
  end.

Definition ac_record_many (fs : list (string * ac_entry)) (req : list (string * Z)) : list (string * ac_entry) :=
  fold_left (fun fs p => (fst p, AcRec (snd p)) :: ac_remove fs (fst p)) req fs.

Inductive ac_out := AcDone | AcRan (b : ac_branch) (ret : Z) | AcRound (r : Z) (e : ac_errkind).

Definition ac_step (s : ac_state) (o : ac_op) : ac_state * ac_out :=
  match o with
  | AcRecord n r => ({| ac_forks := (n, AcRec r) :: ac_remove (ac_forks s) n; ac_broken := ac_broken s |}, AcDone)
  | AcRecordMany req => ({| ac_forks := ac_record_many (ac_forks s) req; ac_broken := ac_broken s |}, AcDone)
  | AcCorrupt n => ({| ac_forks := (n, AcGarbage) :: ac_remove (ac_forks s) n; ac_broken := ac_broken s |}, AcDone)
  | AcDelete n => ({| ac_forks := ac_remove (ac_forks s) n; ac_broken := ac_broken s |}, AcDone)
  | AcBreak => ({| ac_forks := ac_forks s; ac_broken := true |}, AcDone)
  | AcQuery n br be ae =>
      let b := ac_with_activation (ac_lookup_of s n) br in (s, AcRan b (ac_result b be ae))
  | AcGetRound n => let '(r, e) := ac_round_by_name (ac_lookup_of s n) in (s, AcRound r e)
  end.

Fixpoint ac_run (s : ac_state) (ops : list ac_op) : ac_state * list ac_out :=
  match ops with
  | [] => (s, [])
  | o :: tl => let '(s1, out) := ac_step s o in
               let '(s2, outs) := ac_run s1 tl in (s2, out :: outs)
  end.

Definition ac_exec (ops : list ac_op) : ac_state := fst (ac_run ac_init ops).

(* does the op write or delete the fork's key / break the trie *)
Definition ac_touches (name : string) (o : ac_op) : bool :=
  match o with
  | AcRecord n _ | AcCorrupt n | AcDelete n => String.eqb n name
  | AcRecordMany req => existsb (fun p => String.eqb (fst p) name) req
  | AcBreak => true
  | _ => false
  end.
