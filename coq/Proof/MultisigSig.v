(* C21, last clause: the transfer released by an executed multisig proposal carries a valid
   threshold signature of the wallet.  Composition of the execution theorem of Proof/Multisig.v
   (T distinct registered signers, each with a validly signed vote on the same transfer) with the
   threshold-signature algebra of Proof/ThresholdSig.v (C34).  MathComp style. *)
From Coq Require Import ZArith List Lia.
From ZC Require Import Model.Multisig Proof.Multisig.
From mathcomp Require Import all_ssreflect ssralg poly.
From ZC Require Import Model.DKG Proof.ThresholdSig.
Set Implicit Arguments.
Unset Strict Implicit.
Unset Printing Implicit Defensive.
Import GRing.Theory.
Local Open Scope ring_scope.

Lemma ms_in_map_to_nat (k : nat) (l : list Z) :
  k \in map Z.to_nat l -> exists y, In y l /\ Z.to_nat y = k.
Proof.
  elim: l => [|z zs IH] //=. rewrite inE => /orP [/eqP ->|/IH [y [Hy Hk]]].
  - by exists z; split; [left|].
  - by exists y; split; [right|].
Qed.

Lemma ms_votes_uniq (l : list Z) :
  NoDup l -> (forall t, In t l -> (0 < t)%Z) -> uniq (map Z.to_nat l).
Proof.
  elim: l => [|x tl IH] // Hnd Hpos. inversion Hnd as [|? ? Hx Htl]; subst.
  rewrite /= IH ?andbT //; last by move=> t Ht; apply: Hpos; right.
  apply/negP => /ms_in_map_to_nat [y [Hy Hxy]]. apply: Hx.
  have H1 := Hpos x (or_introl erefl). have H2 := Hpos y (or_intror Hy).
  have -> : x = y by apply: Z2Nat.inj; lia.
  exact: Hy.
Qed.

Lemma ms_votes_range (n : nat) (l : list Z) :
  (forall t, In t l -> (0 < t <= Z.of_nat n)%Z) -> all (fun k => 0 < k <= n)%N (map Z.to_nat l).
Proof.
  elim: l => [|x tl IH] // H. rewrite /= IH ?andbT; last by move=> t Ht; apply: H; right.
  have [H1 H2] := H x (or_introl erefl).
  apply/andP; split; [apply/ltP|apply/leP]; lia.
Qed.

Section MultisigSignature.
Variable F : fieldType.
Variables G1 G2 GT : lmodType F.
Variable g2 : G2.
Variable M : Type.
Variable Hm : M -> G1.
Variable e : G1 -> G2 -> GT.
Hypothesis e_linl : forall a x y, e (a *: x) y = a *: e x y.
Hypothesis e_linr : forall a x y, e x (a *: y) = a *: e x y.
(* the message a vote signs: the transfer wallet -> to : amount (SignedTransfer.computeTransferHash) *)
Variable msg : Z -> Z -> Z -> M.

(* the wallet key and how its signers got their keys (BLS0GenerateThresholdKeyShares): a polynomial
   with constant term sk and T = num_required coefficients; signer with threshold id i holds the
   value at i, i in 1..n, all of them non-zero in the field *)
Variable n : nat.
Hypothesis ids_nz : forall k, (0 < k <= n)%N -> k%:R != 0 :> F.
Variable sk : F.
Variable cs : seq F.

Theorem ms_executed_signature_valid :
  forall ops signer now wallet pid to amount wf sig_ok rec st' f t a,
    ms_step (fst (ms_run ms_init ops)) (MsVote signer now wallet pid to amount wf sig_ok rec) = (st', MsExecuted f t a) ->
    forall w p', ms_wallet_get wallet (ms_wallets st') = Some w ->
                 ms_prop_get (wallet, pid) (ms_props st') = Some p' ->
    (* link between the model's wallet and the key material *)
    (forall s tid, In (s, tid) (mw_signers w) -> (0 < tid <= Z.of_nat n)%Z) ->
    mw_required w = Z.of_nat (size (sk :: cs)) ->
    (* the signature shares stored with the counted votes are those of the voters' key shares on the
       proposal's transfer (each was checked with VerifySignature under the signer's registered key) *)
    let S := map Z.to_nat (mp_votes p') in
    let m := msg f t a in
    f = wallet /\ t = mp_to p' /\ a = mp_amount p' /\
    dkg_recover (thr_share_sigs Hm (sk :: cs) S m) = Some (dkg_sign Hm sk m) /\
    dkg_verify g2 Hm e (dkg_pub g2 sk) m (dkg_sign Hm sk m).
Proof.
  move=> ops signer now wallet pid to amount wf sig_ok rec st' f t a ES w p' Hw Hp Hids Hreq S m.
  have [w0 [p0 [Hw0 [Hp0 [Hf [Ht [Ha [_ [Hnd [Hlen [_ Hjust]]]]]]]]]]] :=
    ms_execution_justified ops signer now wallet pid to amount wf sig_ok rec st' f t a ES.
  rewrite Hw in Hw0. case: Hw0 => Ew; subst w0. rewrite Hp in Hp0. case: Hp0 => Ep; subst p0.
  split=> //; split=> //; split=> //.
  have Hin : forall tid, In tid (mp_votes p') -> (0 < tid <= Z.of_nat n)%Z.
  { move=> tid Htid. have [[o out] [_ Hc]] := Hjust tid Htid.
    case: o Hc => [? ? ? ? ?|sg nw wl pd t0 a0 wf0 s0 r0] //= [_ [_ [_ [_ [_ [_ [_ [Htid' _]]]]]]]].
    exact: (Hids sg tid (ms_tid_of_In sg tid (mw_signers w) Htid')). }
  have Huniq : uniq S by apply: ms_votes_uniq => // tid /Hin; lia.
  have Hall : all (fun k => 0 < k <= n)%N S by apply: ms_votes_range.
  have Hsize : (size (sk :: cs) <= size S)%N.
  { rewrite /S size_map. apply/leP. have E : length (mp_votes p') = size (sk :: cs) by apply: Nat2Z.inj; rewrite Hlen Hreq.
    have -> : size (mp_votes p') = length (mp_votes p') by []. rewrite E. exact: le_n. }
  have [Hall' _] := @C34_threshold_signature_of_T_valid_shares_verifies F G1 G2 GT g2 M Hm e e_linl e_linr n ids_nz sk cs m.
  exact: (Hall' S Huniq Hall Hsize).
Qed.

End MultisigSignature.
