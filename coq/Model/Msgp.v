(* Model of the msgp wire format as github.com/0chain/msgp (tinylib fork, v1.1.62) writes and
   reads it for generated MarshalMsg/UnmarshalMsg code (property C08).  Definitions only.
   Bytes are Z in 0..255; strings are byte lists. *)
From Coq Require Export String Ascii.
From Coq Require Export List ZArith Bool Arith Lia.
Export ListNotations.
Open Scope Z_scope.

(* ---------- universe ---------- *)

Inductive mp_ty :=
| TBool
| TInt (bits : Z)              (* int8/16/32/64, int, time.Duration: AppendInt64 *)
| TUint (bits : Z)             (* uint8/16/32/64, uint, currency.Coin: AppendUint64 *)
| TF64                         (* float64 as its 64-bit pattern *)
| TStr
| TBin                         (* []byte *)
| TArr (e : mp_ty)             (* slice *)
| TMap (e : mp_ty)             (* map[string]T, written in key order (msgp.Sort) *)
| TPtr (e : mp_ty)             (* nil or value *)
| TStruct (fs : list (list Z * mp_ty))   (* map of key -> field, in declaration order *)
| TVer (alts : list (list Z * mp_ty))    (* entitywrapper: version tag -> struct schema *)
| TDrop (e : mp_ty).           (* written as e; the hand-written UnmarshalMsg decodes an e into a
                                  shadow value and copies nothing back: reads back as the zero value *)

Inductive mp_val :=
| VBool (b : bool)
| VInt (z : Z)
| VF64 (bits : Z)
| VStr (s : list Z)
| VBin (s : list Z)
| VArr (l : list mp_val)
| VMap (l : list (list Z * mp_val))
| VPtr (o : option mp_val)
| VStruct (l : list mp_val)
| VVer (tag : list Z) (v : mp_val).

Definition mp_of_string (s : string) : list Z :=
  map (fun a => Z.of_nat (nat_of_ascii a)) (list_ascii_of_string s).

(* ---------- big endian ---------- *)

Fixpoint mp_le (n : nat) (z : Z) : list Z :=
  match n with O => [] | S k => (z mod 256) :: mp_le k (z / 256) end.
Fixpoint mp_unle (l : list Z) : Z :=
  match l with [] => 0 | b :: tl => b + 256 * mp_unle tl end.
Definition mp_be (n : nat) (z : Z) : list Z := rev (mp_le n z).
Definition mp_unbe (l : list Z) : Z := mp_unle (rev l).
Definition mp_signed (bits u : Z) : Z := if u <? 2 ^ (bits - 1) then u else u - 2 ^ bits.

Definition mp_take (n : nat) (b : list Z) : option (list Z * list Z) :=
  if Nat.ltb (length b) n then None else Some (firstn n b, skipn n b).

(* bytes.Compare / Go string order *)
Fixpoint mp_cmp (a b : list Z) : comparison :=
  match a, b with
  | [], [] => Eq
  | [], _ :: _ => Lt
  | _ :: _, [] => Gt
  | x :: a', y :: b' => match Z.compare x y with Eq => mp_cmp a' b' | c => c end
  end.
Definition mp_key_eqb (a b : list Z) : bool := match mp_cmp a b with Eq => true | _ => false end.

(* ---------- writers (write_bytes.go) ---------- *)

Definition mp_wr_int (i : Z) : list Z :=      (* AppendInt64 *)
  if 0 <=? i then
    if i <=? 127 then [i]
    else if i <=? 32767 then 209 :: mp_be 2 i
    else if i <=? 2147483647 then 210 :: mp_be 4 i
    else 211 :: mp_be 8 i
  else if -32 <=? i then [i + 256]
  else if -128 <=? i then [208; i + 256]
  else if -32768 <=? i then 209 :: mp_be 2 i
  else if -2147483648 <=? i then 210 :: mp_be 4 i
  else 211 :: mp_be 8 i.

Definition mp_wr_uint (u : Z) : list Z :=     (* AppendUint64 *)
  if u <=? 127 then [u]
  else if u <=? 255 then [204; u]
  else if u <=? 65535 then 205 :: mp_be 2 u
  else if u <=? 4294967295 then 206 :: mp_be 4 u
  else 207 :: mp_be 8 u.

Definition mp_wr_f64 (bits : Z) : list Z := 203 :: mp_be 8 bits.
Definition mp_wr_bool (b : bool) : list Z := [if b then 195 else 194].
Definition mp_wr_nil : list Z := [192].

Definition mp_wr_str (s : list Z) : list Z :=  (* AppendString *)
  let n := Z.of_nat (length s) in
  (if n <=? 31 then [160 + n]
   else if n <=? 255 then [217; n]
   else if n <=? 65535 then 218 :: mp_be 2 n
   else 219 :: mp_be 4 n) ++ s.

Definition mp_wr_bin (s : list Z) : list Z :=  (* AppendBytes *)
  let n := Z.of_nat (length s) in
  (if n <=? 255 then [196; n]
   else if n <=? 65535 then 197 :: mp_be 2 n
   else 198 :: mp_be 4 n) ++ s.

Definition mp_wr_arrhdr (n : Z) : list Z :=
  if n <=? 15 then [144 + n] else if n <=? 65535 then 220 :: mp_be 2 n else 221 :: mp_be 4 n.
Definition mp_wr_maphdr (n : Z) : list Z :=
  if n <=? 15 then [128 + n] else if n <=? 65535 then 222 :: mp_be 2 n else 223 :: mp_be 4 n.

(* ---------- readers (read_bytes.go) ---------- *)

Definition mp_rd_fixed (n : nat) (tl : list Z) : option (Z * list Z) :=
  match mp_take n tl with Some (x, r) => Some (mp_unbe x, r) | None => None end.
Definition mp_rd_fixed_signed (n : nat) (tl : list Z) : option (Z * list Z) :=
  match mp_take n tl with
  | Some (x, r) => Some (mp_signed (8 * Z.of_nat n) (mp_unbe x), r)
  | None => None
  end.

(* ReadInt64Bytes: every integer format; uint64 above MaxInt64 is an error *)
Definition mp_rd_int64 (b : list Z) : option (Z * list Z) :=
  match b with
  | [] => None
  | lead :: tl =>
      if lead <=? 127 then Some (lead, tl)
      else if 224 <=? lead then Some (lead - 256, tl)
      else if lead =? 208 then mp_rd_fixed_signed 1 tl
      else if lead =? 204 then mp_rd_fixed 1 tl
      else if lead =? 209 then mp_rd_fixed_signed 2 tl
      else if lead =? 205 then mp_rd_fixed 2 tl
      else if lead =? 210 then mp_rd_fixed_signed 4 tl
      else if lead =? 206 then mp_rd_fixed 4 tl
      else if lead =? 211 then mp_rd_fixed_signed 8 tl
      else if lead =? 207 then
        match mp_rd_fixed 8 tl with
        | Some (u, r) => if 9223372036854775807 <? u then None else Some (u, r)
        | None => None
        end
      else None
  end.

(* ReadIntNBytes: int64 then range check (IntOverflow) *)
Definition mp_rd_int (bits : Z) (b : list Z) : option (Z * list Z) :=
  match mp_rd_int64 b with
  | Some (i, r) => if (- 2 ^ (bits - 1) <=? i) && (i <? 2 ^ (bits - 1)) then Some (i, r) else None
  | None => None
  end.

(* ReadUint64Bytes: fixint, uintN, and non-negative intN *)
Definition mp_rd_uint64 (b : list Z) : option (Z * list Z) :=
  match b with
  | [] => None
  | lead :: tl =>
      let nonneg (x : option (Z * list Z)) :=
        match x with Some (v, r) => if v <? 0 then None else Some (v, r) | None => None end in
      if lead <=? 127 then Some (lead, tl)
      else if lead =? 208 then nonneg (mp_rd_fixed_signed 1 tl)
      else if lead =? 204 then mp_rd_fixed 1 tl
      else if lead =? 209 then nonneg (mp_rd_fixed_signed 2 tl)
      else if lead =? 205 then mp_rd_fixed 2 tl
      else if lead =? 210 then nonneg (mp_rd_fixed_signed 4 tl)
      else if lead =? 206 then mp_rd_fixed 4 tl
      else if lead =? 211 then nonneg (mp_rd_fixed_signed 8 tl)
      else if lead =? 207 then mp_rd_fixed 8 tl
      else None
  end.

Definition mp_rd_uint (bits : Z) (b : list Z) : option (Z * list Z) :=
  match mp_rd_uint64 b with
  | Some (u, r) => if u <? 2 ^ bits then Some (u, r) else None
  | None => None
  end.

(* ReadFloat64Bytes (the float32 form, converted by the library, is outside the model: None) *)
Definition mp_rd_f64 (b : list Z) : option (Z * list Z) :=
  match b with
  | 203 :: tl => mp_rd_fixed 8 tl
  | _ => None
  end.

Definition mp_rd_bool (b : list Z) : option (bool * list Z) :=
  match b with
  | 195 :: tl => Some (true, tl)
  | 194 :: tl => Some (false, tl)
  | _ => None
  end.

(* take [n] payload bytes, n given as Z (guarded: no unary conversion of garbage lengths) *)
Definition mp_take_z (n : Z) (b : list Z) : option (list Z * list Z) :=
  if Z.of_nat (length b) <? n then None else mp_take (Z.to_nat n) b.

Definition mp_rd_len (n : nat) (tl : list Z) : option (list Z * list Z) :=
  match mp_rd_fixed n tl with Some (len, r) => mp_take_z len r | None => None end.

(* ReadStringBytes: fixstr, str8, str16, str32 *)
Definition mp_rd_str (b : list Z) : option (list Z * list Z) :=
  match b with
  | [] => None
  | lead :: tl =>
      if (160 <=? lead) && (lead <=? 191) then mp_take_z (lead - 160) tl
      else if lead =? 217 then mp_rd_len 1 tl
      else if lead =? 218 then mp_rd_len 2 tl
      else if lead =? 219 then mp_rd_len 4 tl
      else None
  end.

(* ReadBytesBytes: bin8, bin16, bin32 *)
Definition mp_rd_bin (b : list Z) : option (list Z * list Z) :=
  match b with
  | [] => None
  | lead :: tl =>
      if lead =? 196 then mp_rd_len 1 tl
      else if lead =? 197 then mp_rd_len 2 tl
      else if lead =? 198 then mp_rd_len 4 tl
      else None
  end.

(* ReadMapKeyZC: a str, or a bin *)
Definition mp_rd_key (b : list Z) : option (list Z * list Z) :=
  match mp_rd_str b with
  | Some x => Some x
  | None => match b with
            | lead :: _ => if (196 <=? lead) && (lead <=? 198) then mp_rd_bin b else None
            | [] => None
            end
  end.

Definition mp_rd_arrhdr (b : list Z) : option (Z * list Z) :=
  match b with
  | [] => None
  | lead :: tl =>
      if (144 <=? lead) && (lead <=? 159) then Some (lead - 144, tl)
      else if lead =? 220 then mp_rd_fixed 2 tl
      else if lead =? 221 then mp_rd_fixed 4 tl
      else None
  end.

Definition mp_rd_maphdr (b : list Z) : option (Z * list Z) :=
  match b with
  | [] => None
  | lead :: tl =>
      if (128 <=? lead) && (lead <=? 143) then Some (lead - 128, tl)
      else if lead =? 222 then mp_rd_fixed 2 tl
      else if lead =? 223 then mp_rd_fixed 4 tl
      else None
  end.

(* ---------- Skip: any msgpack object (getSize table) ---------- *)

Fixpoint mp_skip_many (sk : list Z -> option (list Z)) (n : nat) (b : list Z) : option (list Z) :=
  match n with
  | O => Some b
  | S n' => match sk b with Some b' => mp_skip_many sk n' b' | None => None end
  end.

(* Skip of one object; fuel bounds the nesting depth (Go recurses the same way) *)
Fixpoint mp_skip1 (fuel : nat) (b : list Z) : option (list Z) :=
  match fuel with
  | O => None
  | S f =>
      match b with
      | [] => None
      | lead :: tl =>
          let fixed (n : nat) := match mp_take n tl with Some (_, r) => Some r | None => None end in
          let bytes (n : nat) (extra : Z) :=
            match mp_rd_fixed n tl with
            | Some (len, r) => match mp_take_z (len + extra) r with Some (_, r') => Some r' | None => None end
            | None => None
            end in
          (* cnt children; every object has at least one byte (no unary conversion of garbage) *)
          let children (cnt : Z) (r : list Z) :=
            if Z.of_nat (length r) <? cnt then None else mp_skip_many (mp_skip1 f) (Z.to_nat cnt) r in
          let objs (n : nat) (per : Z) :=
            match mp_rd_fixed n tl with Some (cnt, r) => children (per * cnt) r | None => None end in
          if lead <=? 127 then Some tl                                   (* fixint *)
          else if lead <=? 143 then children (2 * (lead - 128)) tl       (* fixmap *)
          else if lead <=? 159 then children (lead - 144) tl             (* fixarray *)
          else if lead <=? 191 then                                      (* fixstr *)
            match mp_take_z (lead - 160) tl with Some (_, r) => Some r | None => None end
          else if lead =? 192 then Some tl                    (* nil *)
          else if lead =? 193 then None                       (* never used *)
          else if lead <=? 195 then Some tl                   (* false, true *)
          else if lead =? 196 then bytes 1%nat 0
          else if lead =? 197 then bytes 2%nat 0
          else if lead =? 198 then bytes 4%nat 0
          else if lead =? 199 then bytes 1%nat 1               (* ext8: type byte + data *)
          else if lead =? 200 then bytes 2%nat 1
          else if lead =? 201 then bytes 4%nat 1
          else if lead =? 202 then fixed 4%nat                 (* float32 *)
          else if lead =? 203 then fixed 8%nat
          else if lead =? 204 then fixed 1%nat
          else if lead =? 205 then fixed 2%nat
          else if lead =? 206 then fixed 4%nat
          else if lead =? 207 then fixed 8%nat
          else if lead =? 208 then fixed 1%nat
          else if lead =? 209 then fixed 2%nat
          else if lead =? 210 then fixed 4%nat
          else if lead =? 211 then fixed 8%nat
          else if lead =? 212 then fixed 2%nat                 (* fixext1: type + 1 *)
          else if lead =? 213 then fixed 3%nat
          else if lead =? 214 then fixed 5%nat
          else if lead =? 215 then fixed 9%nat
          else if lead =? 216 then fixed 17%nat
          else if lead =? 217 then bytes 1%nat 0
          else if lead =? 218 then bytes 2%nat 0
          else if lead =? 219 then bytes 4%nat 0
          else if lead =? 220 then objs 2%nat 1
          else if lead =? 221 then objs 4%nat 1
          else if lead =? 222 then objs 2%nat 2
          else if lead =? 223 then objs 4%nat 2
          else Some tl                                         (* negative fixint *)
      end
  end.

Definition mp_skip (b : list Z) : option (list Z) := mp_skip1 (S (length b)) b.

(* ---------- encoding of values ---------- *)

Fixpoint mp_enc (t : mp_ty) (v : mp_val) {struct t} : list Z :=
  match t, v with
  | TBool, VBool b => mp_wr_bool b
  | TInt _, VInt z => mp_wr_int z
  | TUint _, VInt z => mp_wr_uint z
  | TF64, VF64 z => mp_wr_f64 z
  | TStr, VStr s => mp_wr_str s
  | TBin, VBin s => mp_wr_bin s
  | TArr e, VArr l => mp_wr_arrhdr (Z.of_nat (length l)) ++ flat_map (mp_enc e) l
  | TMap e, VMap l =>
      mp_wr_maphdr (Z.of_nat (length l)) ++ flat_map (fun kv => mp_wr_str (fst kv) ++ mp_enc e (snd kv)) l
  | TPtr e, VPtr None => mp_wr_nil
  | TPtr e, VPtr (Some x) => mp_enc e x
  | TStruct fs, VStruct vs =>
      mp_wr_maphdr (Z.of_nat (length fs)) ++
      (fix go (fs : list (list Z * mp_ty)) (vs : list mp_val) : list Z :=
         match fs, vs with
         | (k, ft) :: fs', x :: vs' => mp_wr_str k ++ mp_enc ft x ++ go fs' vs'
         | _, _ => []
         end) fs vs
  | TVer alts, VVer tag x =>
      (fix find (alts : list (list Z * mp_ty)) : list Z :=
         match alts with
         | (k, at_) :: tl => if mp_key_eqb k tag then mp_enc at_ x else find tl
         | [] => []
         end) alts
  | TDrop e, x => mp_enc e x
  | _, _ => []
  end.

(* the zero value UnmarshalMsg starts from (a fresh Go object) *)
Fixpoint mp_zero (t : mp_ty) : mp_val :=
  match t with
  | TBool => VBool false
  | TInt _ | TUint _ => VInt 0
  | TF64 => VF64 0
  | TStr => VStr []
  | TBin => VBin []
  | TArr _ => VArr []
  | TMap _ => VMap []
  | TPtr _ => VPtr None
  | TStruct fs => VStruct ((fix go (fs : list (list Z * mp_ty)) : list mp_val :=
                              match fs with (_, ft) :: tl => mp_zero ft :: go tl | [] => [] end) fs)
  | TVer _ => VVer [] (VStruct [])
  | TDrop e => mp_zero e
  end.

(* ---------- decoding ---------- *)

Definition mp_decoder := list Z -> option (mp_val * list Z).

(* n elements with the same decoder *)
Fixpoint mp_dec_n (d : mp_decoder) (n : nat) (b : list Z) : option (list mp_val * list Z) :=
  match n with
  | O => Some ([], b)
  | S n' => match d b with
            | Some (v, b1) => match mp_dec_n d n' b1 with
                              | Some (l, b2) => Some (v :: l, b2)
                              | None => None
                              end
            | None => None
            end
  end.

(* the Go map being filled: key-sorted association list, a repeated key overwrites *)
Fixpoint mp_ins (k : list Z) (v : mp_val) (m : list (list Z * mp_val)) : list (list Z * mp_val) :=
  match m with
  | [] => [(k, v)]
  | (k', v') :: tl =>
      match mp_cmp k k' with
      | Lt => (k, v) :: m
      | Eq => (k, v) :: tl
      | Gt => (k', v') :: mp_ins k v tl
      end
  end.

Fixpoint mp_dec_map (d : mp_decoder) (n : nat) (m : list (list Z * mp_val)) (b : list Z)
  : option (list (list Z * mp_val) * list Z) :=
  match n with
  | O => Some (m, b)
  | S n' => match mp_rd_str b with
            | Some (k, b1) => match d b1 with
                              | Some (v, b2) => mp_dec_map d n' (mp_ins k v m) b2
                              | None => None
                              end
            | None => None
            end
  end.

Fixpoint mp_find (k : list Z) (decs : list (list Z * mp_decoder)) (i : nat) : option (nat * mp_decoder) :=
  match decs with
  | [] => None
  | (k', d) :: tl => if mp_key_eqb k' k then Some (i, d) else mp_find k tl (S i)
  end.

Fixpoint mp_set (i : nat) (v : mp_val) (l : list mp_val) : list mp_val :=
  match l, i with
  | [], _ => []
  | _ :: tl, O => v :: tl
  | x :: tl, S i' => x :: mp_set i' v tl
  end.

(* the generated struct decoder: for each of the n keys, decode the field or Skip *)
Fixpoint mp_dec_fields (decs : list (list Z * mp_decoder)) (n : nat) (slots : list mp_val) (b : list Z)
  : option (list mp_val * list Z) :=
  match n with
  | O => Some (slots, b)
  | S n' =>
      match mp_rd_key b with
      | None => None
      | Some (k, b1) =>
          match mp_find k decs 0 with
          | Some (i, d) => match d b1 with
                           | Some (v, b2) => mp_dec_fields decs n' (mp_set i v slots) b2
                           | None => None
                           end
          | None => match mp_skip b1 with
                    | Some b2 => mp_dec_fields decs n' slots b2
                    | None => None
                    end
          end
      end
  end.

Definition mp_dec_struct (decs : list (list Z * mp_decoder)) (zeros : list mp_val) (b : list Z)
  : option (list mp_val * list Z) :=
  match mp_rd_maphdr b with
  | Some (n, b1) => if Z.of_nat (length b1) <? n then None else mp_dec_fields decs (Z.to_nat n) zeros b1
  | None => None
  end.

Definition mp_v1 : list Z := [118; 49].           (* "v1" = entitywrapper.DefaultOriginVersion *)
Definition mp_version_key : list Z := [118; 101; 114; 115; 105; 111; 110].   (* "version" *)

(* entityVersion.UnmarshalMsg: the generated decoder of struct{Version string `msg:"version"`} *)
Definition mp_peek_version (b : list Z) : option (list Z) :=
  match mp_dec_struct [(mp_version_key, fun b => match mp_rd_str b with Some (s, r) => Some (VStr s, r) | None => None end)]
                      [VStr []] b with
  | Some ([VStr s], _) => Some (match s with [] => mp_v1 | _ => s end)
  | _ => None
  end.

Fixpoint mp_dec (t : mp_ty) : mp_decoder :=
  match t with
  | TBool => fun b => match mp_rd_bool b with Some (x, r) => Some (VBool x, r) | None => None end
  | TInt bits => fun b => match mp_rd_int bits b with Some (x, r) => Some (VInt x, r) | None => None end
  | TUint bits => fun b => match mp_rd_uint bits b with Some (x, r) => Some (VInt x, r) | None => None end
  | TF64 => fun b => match mp_rd_f64 b with Some (x, r) => Some (VF64 x, r) | None => None end
  | TStr => fun b => match mp_rd_str b with Some (x, r) => Some (VStr x, r) | None => None end
  | TBin => fun b => match mp_rd_bin b with Some (x, r) => Some (VBin x, r) | None => None end
  | TArr e => fun b =>
      match mp_rd_arrhdr b with
      | Some (n, b1) =>
          if Z.of_nat (length b1) <? n then None
          else match mp_dec_n (mp_dec e) (Z.to_nat n) b1 with
               | Some (l, r) => Some (VArr l, r)
               | None => None
               end
      | None => None
      end
  | TMap e => fun b =>
      match mp_rd_maphdr b with
      | Some (n, b1) =>
          if Z.of_nat (length b1) <? n then None
          else match mp_dec_map (mp_dec e) (Z.to_nat n) [] b1 with
               | Some (m, r) => Some (VMap m, r)
               | None => None
               end
      | None => None
      end
  | TPtr e => fun b =>
      match b with
      | lead :: tl =>
          if lead =? 192 then Some (VPtr None, tl)      (* msgp.IsNil *)
          else match mp_dec e b with Some (x, r) => Some (VPtr (Some x), r) | None => None end
      | [] => None
      end
  | TStruct fs => fun b =>
      let decs := (fix go (fs : list (list Z * mp_ty)) : list (list Z * mp_decoder) :=
                     match fs with (k, ft) :: tl => (k, mp_dec ft) :: go tl | [] => [] end) fs in
      let zeros := (fix go (fs : list (list Z * mp_ty)) : list mp_val :=
                      match fs with (_, ft) :: tl => mp_zero ft :: go tl | [] => [] end) fs in
      match mp_dec_struct decs zeros b with
      | Some (slots, r) => Some (VStruct slots, r)
      | None => None
      end
  | TVer alts => fun b =>
      match mp_peek_version b with
      | None => None
      | Some ver =>
          (fix find (alts : list (list Z * mp_ty)) : option (mp_val * list Z) :=
             match alts with
             | (k, at_) :: tl =>
                 if mp_key_eqb k ver
                 then match mp_dec at_ b with Some (x, r) => Some (VVer ver x, r) | None => None end
                 else find tl
             | [] => None
             end) alts
      end
  | TDrop e => fun b =>
      match mp_dec e b with Some (_, r) => Some (mp_zero e, r) | None => None end
  end.

(* ---------- entitywrapper: MigrateFrom as copy of the same-named fields ---------- *)

Fixpoint mp_lookup_field (k : list Z) (fs : list (list Z * mp_ty)) (vs : list mp_val) : option (mp_ty * mp_val) :=
  match fs, vs with
  | (k', ft) :: fs', x :: vs' => if mp_key_eqb k' k then Some (ft, x) else mp_lookup_field k fs' vs'
  | _, _ => None
  end.

(* decidable equality of schemas (only used to decide whether a field is common to two versions) *)
Fixpoint mp_ty_eqb (a b : mp_ty) {struct a} : bool :=
  match a, b with
  | TBool, TBool | TF64, TF64 | TStr, TStr | TBin, TBin => true
  | TInt x, TInt y | TUint x, TUint y => Z.eqb x y
  | TArr x, TArr y | TMap x, TMap y | TPtr x, TPtr y | TDrop x, TDrop y => mp_ty_eqb x y
  | TStruct x, TStruct y | TVer x, TVer y =>
      (fix go (l : list (list Z * mp_ty)) (m : list (list Z * mp_ty)) : bool :=
         match l, m with
         | [], [] => true
         | (k1, t1) :: l', (k2, t2) :: m' => mp_key_eqb k1 k2 && mp_ty_eqb t1 t2 && go l' m'
         | _, _ => false
         end) x y
  | _, _ => false
  end.

(* the entity of the next version built from the prior one: the version field takes the new
   tag, every field that the prior version has under the same key and schema is copied, new
   fields start from their zero value *)
Definition mp_migrate (tag : list Z) (fs_old : list (list Z * mp_ty)) (vs_old : list mp_val)
                      (fs_new : list (list Z * mp_ty)) : list mp_val :=
  map (fun kt =>
         if mp_key_eqb (fst kt) mp_version_key then VStr tag
         else match mp_lookup_field (fst kt) fs_old vs_old with
              | Some (ft, x) => if mp_ty_eqb ft (snd kt) then x else mp_zero (snd kt)
              | None => mp_zero (snd kt)
              end) fs_new.

(* ---------- decidable equality of values (correspondence checks) ---------- *)

Definition mp_bytes_eqb (a b : list Z) : bool := mp_key_eqb a b.

Fixpoint mp_val_eqb (a b : mp_val) {struct a} : bool :=
  match a, b with
  | VBool x, VBool y => Bool.eqb x y
  | VInt x, VInt y | VF64 x, VF64 y => Z.eqb x y
  | VStr x, VStr y | VBin x, VBin y => mp_bytes_eqb x y
  | VArr x, VArr y | VStruct x, VStruct y =>
      (fix go (l m : list mp_val) : bool :=
         match l, m with
         | [], [] => true
         | p :: l', q :: m' => mp_val_eqb p q && go l' m'
         | _, _ => false
         end) x y
  | VMap x, VMap y =>
      (fix go (l m : list (list Z * mp_val)) : bool :=
         match l, m with
         | [], [] => true
         | (k1, p) :: l', (k2, q) :: m' => mp_bytes_eqb k1 k2 && mp_val_eqb p q && go l' m'
         | _, _ => false
         end) x y
  | VPtr None, VPtr None => true
  | VPtr (Some p), VPtr (Some q) => mp_val_eqb p q
  | VVer t1 p, VVer t2 q => mp_bytes_eqb t1 t2 && mp_val_eqb p q
  | _, _ => false
  end.
