// Engine E-sp ("stake"): runs the real stakepool / provider / storagesc / minersc code of /repo on a
// real StateContext (in-memory MPT), evaluates the property statements of C10, C11, C23, C22 on
// the observed results (oracles) and emits cases for the Coq models. One property per call (-prop).
package main

import (
	"fmt"
	"os"

	"verifharness/vh"
)

func main() {
	o := vh.ParseFlags()
	switch o.Prop {
	case "C10":
		runC10(o)
	case "C11":
		runC11(o)
	case "C23":
		runC23(o)
	case "C22":
		runC22(o)
	case "C09":
		runC09(o)
	default:
		fmt.Fprintln(os.Stderr, "stake engine: -prop must be one of C10 C11 C23 C22 C09")
		os.Exit(2)
	}
}

// finish writes the case files and the report.
func finish(o vh.Opts, rep *vh.Report, cf *vh.CasesFile, prefix string) {
	files, err := cf.Write(o.Out, prefix)
	if err != nil {
		panic(err)
	}
	rep.CaseFiles = files
	rep.ShardSize = 400
	if cf.Shard > 0 {
		rep.ShardSize = cf.Shard
	}
	rep.Write(o.Out)
}
