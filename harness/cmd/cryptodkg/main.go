// Engine for C34: runs distributed key generations, share validation, key aggregation,
// signing and threshold recovery on the real chaincore/threshold/bls package, the client
// threshold/split keys of core/encryption and ShareOrSigns.Validate of chaincore/block; checks
// the property statements on the observed behaviour (oracle) and emits cases for the Coq model
// (Model/DKGZ.v via Corr/DKG.v), group elements being compared through discrete logarithms.
package main

import (
	"bytes"
	"encoding/hex"
	"fmt"
	"math/big"
	"sort"
	"strings"

	"0chain.net/chaincore/block"
	"0chain.net/chaincore/threshold/bls"
	"0chain.net/core/encryption"
	"github.com/0chain/common/core/logging"
	hb "github.com/herumi/bls-go-binary/bls"
	"verifharness/vh"
)

type tamper struct {
	J    int    `json:"j"` // dealer
	I    int    `json:"i"` // receiver
	Kind string `json:"kind"`
}

type scen struct {
	Kind    string   `json:"kind"` // dkg | client | split
	T       int      `json:"t"`
	N       int      `json:"n"`
	Miners  []string `json:"miners,omitempty"`
	Draws   []string `json:"draws"` // 32-byte hex strings served to the library's CSPRNG, in order
	Msg     string   `json:"msg"`
	Tampers []tamper `json:"tampers,omitempty"`
	Recs    [][]int  `json:"recs,omitempty"` // party indexes handed to recovery, in order
	CoqRecs int      `json:"coq_recs"`       // how many of Recs go to the model
	CoqAll  bool     `json:"coq_all"`        // all shares to the model (else a sample)
}

// ---------- deterministic CSPRNG for the library ----------

type drawReader struct {
	draws [][]byte
	pos   int
	extra *vh.Rand
}

func (d *drawReader) Read(b []byte) (int, error) {
	if d.pos < len(d.draws) && len(d.draws[d.pos]) == len(b) {
		copy(b, d.draws[d.pos])
	} else {
		for i := range b {
			b[i] = byte(d.extra.U64())
		}
	}
	d.pos++
	return len(b), nil
}

func installDraws(s scen) *drawReader {
	d := &drawReader{extra: vh.NewRand(uint64(len(s.Draws))*7919 + uint64(s.T)*31 + uint64(s.N))}
	for _, h := range s.Draws {
		b, err := hex.DecodeString(h)
		if err != nil {
			panic(err)
		}
		d.draws = append(d.draws, b)
	}
	hb.SetRandFunc(d)
	return d
}

// maskedDraw is the scalar SetByCSPRNG makes of 32 random bytes on this curve: little endian,
// truncated to 254 bits, and to 253 bits when that is not below the group order (checked against the real coefficients in every dkg scenario).
func maskedDraw(h string) *big.Int {
	b, _ := hex.DecodeString(h)
	r := make([]byte, len(b))
	for i := range b {
		r[len(b)-1-i] = b[i]
	}
	v := new(big.Int).SetBytes(r)
	v.And(v, new(big.Int).Sub(new(big.Int).Lsh(big.NewInt(1), 254), big.NewInt(1)))
	if v.Cmp(groupOrder) >= 0 {
		v.And(v, new(big.Int).Sub(new(big.Int).Lsh(big.NewInt(1), 253), big.NewInt(1)))
	}
	return v
}

var groupOrder, _ = new(big.Int).SetString("16798108731015832284940804142231733909759579603404752749028378864165570215949", 10)

// zx prints a scalar/id of the library as a Coq hexadecimal Z literal.
func zx(hexstr string) string { return "0x" + hexstr }

func leHexToDec(h string) string {
	b, err := hex.DecodeString(h)
	if err != nil {
		panic(err)
	}
	r := make([]byte, len(b))
	for i := range b {
		r[len(b)-1-i] = b[i]
	}
	return fmt.Sprintf("0x%x", new(big.Int).SetBytes(r))
}

type failure struct {
	kind string
	desc string
	min  scen
}

type result struct {
	fails []failure
	hist  map[string]int
	coq   string // Gallina case term ("" = none)
}

func (r *result) fail(kind, desc string, min scen) {
	for _, f := range r.fails {
		if f.kind == kind {
			return
		}
	}
	r.fails = append(r.fails, failure{kind, desc, min})
}

// lagrangeHints computes, for the model's check, candidate Lagrange coefficients at 0 for the
// ids (hex strings); the model verifies them (l_i * prod (x_j - x_i) = prod x_j), they are not trusted.
func lagrangeHints(idHex []string) string {
	if len(idHex) < 2 {
		return "[]"
	}
	xs := make([]*big.Int, len(idHex))
	for i, h := range idHex {
		xs[i], _ = new(big.Int).SetString(h, 16)
	}
	var out []string
	for i := range xs {
		num, den := big.NewInt(1), big.NewInt(1)
		for j := range xs {
			if xs[j].Cmp(xs[i]) == 0 {
				continue
			}
			num.Mod(num.Mul(num, xs[j]), groupOrder)
			d := new(big.Int).Sub(xs[j], xs[i])
			den.Mod(den.Mul(den, d.Mod(d, groupOrder)), groupOrder)
		}
		inv := new(big.Int).ModInverse(den, groupOrder)
		if inv == nil {
			inv = big.NewInt(0)
		}
		out = append(out, fmt.Sprintf("0x%x", num.Mod(num.Mul(num, inv), groupOrder)))
	}
	return vh.List(out)
}

func distinct(xs []int) bool {
	m := map[int]bool{}
	for _, x := range xs {
		if m[x] {
			return false
		}
		m[x] = true
	}
	return true
}

func pair(a, b string) string { return "(" + a + ", " + b + ")" }
func optZ(ok bool, v string) string {
	if !ok {
		return "None"
	}
	return "(Some " + v + ")"
}

// ---------- dkg scenario ----------

func runDKG(s scen) *result {
	res := &result{hist: map[string]int{}}
	installDraws(s)
	defer hb.SetRandFunc(nil)
	n, t := s.N, s.T
	dkgs := make([]*bls.DKG, n)
	ids := make([]bls.PartyID, n)
	coefs := make([][]bls.Key, n)
	mpks := make([][]bls.PublicKey, n)
	for j := 0; j < n; j++ {
		dkgs[j] = bls.MakeDKG(t, n, s.Miners[j])
		ids[j] = dkgs[j].ID
		coefs[j] = dkgs[j].VerifMsk()
		mpks[j] = dkgs[j].GetMPKs()
		if len(coefs[j]) != t || len(mpks[j]) != t {
			res.fail("poly-size", fmt.Sprintf("party %d has %d coefficients, %d public coefficients, t=%d", j, len(coefs[j]), len(mpks[j]), t), s)
			return res
		}
		for k := 0; k < t; k++ {
			if !mpks[j][k].IsEqual(coefs[j][k].GetPublicKey()) {
				res.fail("mpk-not-public-of-msk", fmt.Sprintf("party %d coefficient %d", j, k), s)
			}
			if j*t+k < len(s.Draws) && maskedDraw(s.Draws[j*t+k]).String() != coefs[j][k].GetDecString() {
				panic("harness assumption broken: SetByCSPRNG is not the little-endian truncation of the random bytes: " + s.Draws[j*t+k] + " -> " + coefs[j][k].GetHexString())
			}
		}
	}
	// hypothesis of the model: party ids are distinct and non-zero
	hypOK := true
	seen := map[string]int{}
	for j := range ids {
		d := ids[j].GetDecString()
		if d == "0" {
			hypOK = false
		}
		if _, dup := seen[d]; dup {
			hypOK = false
		}
		seen[d] = j
	}
	if !hypOK {
		res.hist["hyp-ids-not-distinct-nonzero"]++
	}

	// shares
	shares := make([][]bls.Key, n)
	for j := 0; j < n; j++ {
		shares[j] = make([]bls.Key, n)
		for i := 0; i < n; i++ {
			sh, err := dkgs[j].ComputeDKGKeyShare(ids[i])
			if err != nil {
				res.fail("share-error", err.Error(), s)
				return res
			}
			shares[j][i] = sh
		}
	}
	// every derived share validates against the dealer's public polynomial
	for j := 0; j < n; j++ {
		for i := 0; i < n; i++ {
			ok1 := dkgs[i].ValidateShare(mpks[j], shares[j][i])
			ok2 := bls.ValidateShare(mpks[j], shares[j][i], ids[i])
			res.hist["validate-honest"]++
			if !ok1 || !ok2 {
				m := s
				m.Tampers, m.Recs = nil, nil
				res.fail("share-not-validated", fmt.Sprintf("share of dealer %d for party %d rejected (%v,%v)", j, i, ok1, ok2), m)
			}
		}
	}
	// ShareOrSigns.Validate (share branch) on honest shares
	mpksEnt := block.NewMpks()
	for j := 0; j < n; j++ {
		m := &block.MPK{ID: s.Miners[j]}
		for _, pk := range mpks[j] {
			m.Mpk = append(m.Mpk, pk.GetHexString())
		}
		mpksEnt.Mpks[s.Miners[j]] = m
	}
	if hypOK {
		for j := 0; j < n; j++ {
			sos := block.NewShareOrSigns()
			sos.ID = s.Miners[j]
			for i := 0; i < n; i++ {
				sos.ShareOrSigns[s.Miners[i]] = &bls.DKGKeyShare{Share: shares[j][i].GetHexString()}
			}
			keys, ok := sos.Validate(mpksEnt, map[string]string{}, encryption.NewBLS0ChainScheme())
			res.hist["sos-validate-honest"]++
			if !ok || len(keys) != n {
				m := s
				m.Tampers, m.Recs = nil, nil
				res.fail("sos-honest-rejected", fmt.Sprintf("ShareOrSigns of dealer %d rejected", j), m)
			}
		}
	}
	// presented (tampered) shares: accepted iff equal to the share the dealer's polynomial gives
	var coqVals []string
	for _, tp := range s.Tampers {
		if tp.J >= n || tp.I >= n {
			continue
		}
		var pres bls.Key
		switch tp.Kind {
		case "honest":
			pres = shares[tp.J][tp.I]
		case "plus1":
			pres = shares[tp.J][tp.I]
			var one bls.Key
			_ = one.SetDecString("1")
			pres.Add(&one)
		case "zero":
		case "otherdealer":
			pres = shares[(tp.J+1)%n][tp.I]
		case "otherid":
			pres = shares[tp.J][(tp.I+1)%n]
		case "secret":
			pres = coefs[tp.J][0]
		}
		expect := pres.IsEqual(&shares[tp.J][tp.I])
		got := dkgs[tp.I].ValidateShare(mpks[tp.J], pres)
		res.hist["validate-"+tp.Kind+fmt.Sprintf("-%v", got)]++
		one := s
		one.Tampers, one.Recs = []tamper{tp}, nil
		if got != expect {
			if got {
				res.fail("tampered-share-accepted", fmt.Sprintf("dealer %d receiver %d kind %s accepted", tp.J, tp.I, tp.Kind), one)
			} else {
				res.fail("share-not-validated", fmt.Sprintf("dealer %d receiver %d kind %s rejected", tp.J, tp.I, tp.Kind), one)
			}
		}
		if hypOK {
			sos := block.NewShareOrSigns()
			sos.ID = s.Miners[tp.J]
			sos.ShareOrSigns[s.Miners[tp.I]] = &bls.DKGKeyShare{Share: pres.GetHexString()}
			_, ok := sos.Validate(mpksEnt, map[string]string{}, encryption.NewBLS0ChainScheme())
			if ok != expect {
				res.fail("sos-validate-wrong", fmt.Sprintf("ShareOrSigns.Validate=%v for dealer %d receiver %d kind %s", ok, tp.J, tp.I, tp.Kind), one)
			}
		}
		coqVals = append(coqVals, pair(pair(vh.Nat(tp.J), vh.Nat(tp.I)), pair(zx(pres.GetHexString()), vh.Bool(got))))
	}

	// aggregation: every party receives the shares of all dealers
	mpkMap := map[bls.PartyID][]bls.PublicKey{}
	for j := 0; j < n; j++ {
		mpkMap[ids[j]] = mpks[j]
	}
	for i := 0; i < n; i++ {
		for j := 0; j < n; j++ {
			if err := dkgs[i].AddSecretShare(ids[j], shares[j][i].GetHexString(), false); err != nil && hypOK {
				res.fail("add-share-error", err.Error(), s)
			}
		}
		dkgs[i].AggregateSecretKeyShares()
		if err := dkgs[i].AggregatePublicKeyShares(mpkMap); err != nil {
			res.fail("agg-pub-error", err.Error(), s)
		}
	}
	if !hypOK {
		// outside the model's hypothesis: record what recovery does with colliding ids and stop
		sig := dkgs[0].Sign(s.Msg)
		var sg, idh []string
		for i := 0; i < n; i++ {
			sg = append(sg, sig.GetHexString())
			idh = append(idh, ids[i].GetHexString())
		}
		_, err := dkgs[0].CalBlsGpSign(sg, idh)
		res.hist[fmt.Sprintf("hyp-violated-recover-error-%v", err != nil)]++
		return res
	}
	// the aggregated key's public key is the one every party derives for that id, and its signature
	// verifies there -- after the first aggregation and after every repetition of a step of the API
	// on the same objects (aggregation is a function of the received shares)
	checkKeys := func(stage string) {
		for i := 0; i < n; i++ {
			sg := dkgs[i].Sign(s.Msg)
			for h := 0; h < n; h++ {
				pk := dkgs[h].GetPublicKeyByID(ids[i])
				m := s
				m.Tampers, m.Recs = nil, nil
				if !pk.IsEqual(dkgs[i].Si.GetPublicKey()) || !pk.IsEqual(dkgs[i].Pi) {
					res.fail("agg-pubkey-mismatch", fmt.Sprintf("%s: party %d derives another public key for party %d than its aggregated key has", stage, h, i), m)
				}
				if !dkgs[h].VerifySignature(sg, s.Msg, ids[i]) {
					res.fail("agg-sig-not-verified", fmt.Sprintf("%s: signature of party %d rejected by party %d", stage, i, h), m)
				}
			}
		}
		res.hist["keys-checked-"+stage]++
	}
	checkKeys("first aggregation")
	for i := 0; i < n; i++ {
		dkgs[i].AggregateSecretKeyShares()
		if err := dkgs[i].AggregatePublicKeyShares(mpkMap); err != nil {
			res.fail("agg-pub-error", err.Error(), s)
		}
	}
	checkKeys("second aggregation")
	for i := 0; i < n; i++ {
		for j := 0; j < n; j++ {
			// the same share again (not forced: equal shares are accepted), and the share derived again
			again, err := dkgs[j].ComputeDKGKeyShare(ids[i])
			if err != nil || !again.IsEqual(&shares[j][i]) {
				res.fail("share-not-reproducible", fmt.Sprintf("dealer %d derives another share for party %d the second time", j, i), s)
			}
			if err := dkgs[i].AddSecretShare(ids[j], again.GetHexString(), false); err != nil {
				res.fail("add-share-error", "adding the same share again: "+err.Error(), s)
			}
		}
		dkgs[i].AggregateSecretKeyShares()
		dkgs[i].AggregateSecretKeyShares()
		if err := dkgs[i].AggregatePublicKeyShares(mpkMap); err != nil {
			res.fail("agg-pub-error", err.Error(), s)
		}
		for k, pk := range dkgs[i].GetMPKs() {
			if !pk.IsEqual(&mpks[i][k]) {
				res.fail("mpk-changed", fmt.Sprintf("public polynomial of party %d changed", i), s)
			}
		}
	}
	checkKeys("aggregation after re-adding the same shares")
	// signatures
	sigs := make([]*bls.Sign, n)
	var coqVers []string
	for i := 0; i < n; i++ {
		sigs[i] = dkgs[i].Sign(s.Msg)
	}
	for i := 0; i < n; i++ {
		for h := 0; h < n; h++ {
			res.hist["verify-honest"]++
			if !dkgs[h].VerifySignature(sigs[i], s.Msg, ids[i]) {
				m := s
				m.Tampers, m.Recs = nil, nil
				res.fail("agg-sig-not-verified", fmt.Sprintf("signature of party %d rejected by party %d", i, h), m)
			}
		}
		if s.CoqAll || i < 2 {
			coqVers = append(coqVers, pair(pair(vh.Nat(i), vh.Nat(i)), "true"))
		}
		// negatives: other message, other party's id
		if dkgs[0].VerifySignature(sigs[i], s.Msg+"x", ids[i]) {
			res.fail("wrong-sig-verified", fmt.Sprintf("signature of party %d verified for another message", i), s)
		}
		if n > 1 {
			o := (i + 1) % n
			got := dkgs[0].VerifySignature(sigs[o], s.Msg, ids[i])
			expect := dkgs[o].Si.IsEqual(&dkgs[i].Si)
			res.hist[fmt.Sprintf("verify-other-party-%v", got)]++
			if got != expect {
				res.fail("wrong-sig-verified", fmt.Sprintf("signature of party %d verified under the key of party %d", o, i), s)
			}
			if s.CoqAll || i < 2 {
				coqVers = append(coqVers, pair(pair(vh.Nat(i), vh.Nat(o)), vh.Bool(got)))
			}
		}
	}
	// group reference values
	var gsk bls.Key
	var gpk bls.PublicKey
	for j := 0; j < n; j++ {
		gsk.Add(&coefs[j][0])
		gpk.Add(&mpks[j][0])
	}
	gsig := gsk.Sign(s.Msg)
	// recoveries
	var coqRecs []string
	byKey := map[string]string{} // sorted index set -> serialized recovered signature
	for ri, rec := range s.Recs {
		var sg, idh []string
		var sks []bls.Key
		var idv []bls.PartyID
		for _, i := range rec {
			sg = append(sg, sigs[i].GetHexString())
			idh = append(idh, ids[i].GetHexString())
			sks = append(sks, dkgs[i].Si)
			idv = append(idv, ids[i])
		}
		one := s
		one.Tampers, one.Recs, one.CoqRecs = nil, [][]int{rec}, 1
		got, err := dkgs[ri%n].CalBlsGpSign(sg, idh)
		dist := distinct(rec)
		switch {
		case len(rec) == 0:
			res.hist["recover-empty"]++
		case !dist:
			res.hist[fmt.Sprintf("recover-duplicate-error-%v", err != nil)]++
		case len(rec) >= t:
			res.hist["recover-at-least-t"]++
			if err != nil {
				res.fail("recover-failed", fmt.Sprintf("recovery from %d distinct shares (t=%d) failed: %v", len(rec), t, err), one)
			} else {
				if got.SerializeToHexStr() != gsig.SerializeToHexStr() {
					res.fail("recover-not-group-sig", fmt.Sprintf("recovery from parties %v (t=%d) is not the group signature", rec, t), one)
				}
				if !got.Verify(&gpk, s.Msg) {
					res.fail("recovered-sig-not-verified", fmt.Sprintf("recovery from parties %v does not verify under the group public key", rec), one)
				}
			}
		default:
			res.hist["recover-below-t"]++
			if err == nil && got.SerializeToHexStr() == gsig.SerializeToHexStr() {
				res.hist["recover-below-t-equals-group-sig"]++
			}
		}
		// order independence
		if err == nil && dist && len(rec) > 0 {
			k := append([]int{}, rec...)
			sort.Ints(k)
			key := fmt.Sprint(k)
			if prev, ok := byKey[key]; ok && prev != got.SerializeToHexStr() {
				two := s
				two.Tampers, two.CoqRecs = nil, 2
				two.Recs = [][]int{k, rec}
				res.fail("recover-order-dependent", fmt.Sprintf("recovery from the same parties %v in another order differs", k), two)
			}
			byKey[key] = got.SerializeToHexStr()
		}
		// discrete-logarithm witness for the model
		var w bls.Key
		werr := error(nil)
		if len(sks) == 0 {
			werr = fmt.Errorf("empty")
		} else {
			werr = w.Recover(sks, idv)
		}
		if (werr == nil) != (err == nil) {
			res.fail("recover-witness-mismatch", fmt.Sprintf("signature recovery err=%v, scalar recovery err=%v", err, werr), one)
		} else if err == nil && !w.Sign(s.Msg).IsEqual(&got) {
			res.fail("recover-witness-mismatch", "recovered signature is not (recovered scalar) * H(m)", one)
		}
		if ri < s.CoqRecs {
			coqRecs = append(coqRecs, pair(pair(vh.NatList(rec), lagrangeHints(idh)), optZ(err == nil, zx(w.GetHexString()))))
		}
	}

	// Gallina case
	var cIDs, cCoefs, cShares, cSks []string
	for j := 0; j < n; j++ {
		cIDs = append(cIDs, zx(ids[j].GetHexString()))
		var cs []string
		for _, c := range coefs[j] {
			cs = append(cs, zx(c.GetHexString()))
		}
		cCoefs = append(cCoefs, vh.List(cs))
		cSks = append(cSks, zx(dkgs[j].Si.GetHexString()))
	}
	for j := 0; j < n; j++ {
		for i := 0; i < n; i++ {
			if s.CoqAll || (i+2*j)%n == 0 || (i == j) {
				cShares = append(cShares, pair(pair(vh.Nat(j), vh.Nat(i)), zx(shares[j][i].GetHexString())))
			}
		}
	}
	nsk := n
	if !s.CoqAll && nsk > 2 {
		nsk = 2
	}
	res.coq = fmt.Sprintf("(Build_dkc_case (%s) (%s) (%s) (%s) (%s) (%s) (%s) (%s) ([]))",
		vh.List(cIDs), vh.List(cCoefs), vh.List(cShares), vh.List(coqVals), vh.List(cSks), vh.Nat(nsk), vh.List(coqVers), vh.List(coqRecs))
	return res
}

// ---------- client threshold keys ----------

func privDec(ss encryption.SignatureScheme) (dec string, le []byte) {
	var buf bytes.Buffer
	if err := ss.WriteKeys(&buf); err != nil {
		panic(err)
	}
	lines := strings.Split(strings.TrimSpace(buf.String()), "\n")
	b, err := hex.DecodeString(lines[1])
	if err != nil {
		panic(err)
	}
	return leHexToDec(lines[1]), b
}

func runClient(s scen) *result {
	res := &result{hist: map[string]int{}}
	installDraws(s)
	defer hb.SetRandFunc(nil)
	key := encryption.NewBLS0ChainScheme()
	if err := key.GenerateKeys(); err != nil {
		panic(err)
	}
	keyDec, _ := privDec(key)
	shares, err := encryption.BLS0GenerateThresholdKeyShares(s.T, s.N, key)
	if err != nil {
		res.fail("client-shares-error", err.Error(), s)
		return res
	}
	if len(shares) != s.N {
		res.fail("client-shares-count", fmt.Sprintf("%d shares for n=%d", len(shares), s.N), s)
		return res
	}
	hash := encryption.Hash(s.Msg)
	ref, err := key.Sign(hash)
	if err != nil {
		panic(err)
	}
	sigs := make([]string, s.N)
	sks := make([]hb.SecretKey, s.N)
	idv := make([]hb.ID, s.N)
	var cIDs, cShares, cSks []string
	for i, sh := range shares {
		sg, err := sh.Sign(hash)
		if err != nil {
			panic(err)
		}
		sigs[i] = sg
		dec, le := privDec(sh)
		if err := sks[i].SetLittleEndian(le); err != nil {
			panic(err)
		}
		if err := idv[i].SetHexString(sh.GetID()); err != nil {
			panic(err)
		}
		cIDs = append(cIDs, zx(idv[i].GetHexString()))
		cShares = append(cShares, pair(pair(vh.Nat(0), vh.Nat(i)), dec))
		cSks = append(cSks, dec)
		// each share key is a working key pair on its own
		if ok, err := sh.Verify(sg, hash); !ok || err != nil {
			res.fail("client-share-sig-not-verified", fmt.Sprintf("share %d", i), s)
		}
	}
	var coqRecs []string
	for ri, rec := range s.Recs {
		r := encryption.NewBLS0ChainReconstruction(s.T, s.N)
		var ss []hb.SecretKey
		var is []hb.ID
		for _, i := range rec {
			if err := r.Add(shares[i], sigs[i]); err != nil {
				panic(err)
			}
			ss = append(ss, sks[i])
			is = append(is, idv[i])
		}
		got, err := r.Reconstruct()
		one := s
		one.Recs, one.CoqRecs = [][]int{rec}, 1
		dist := distinct(rec)
		if dist && len(rec) >= s.T {
			res.hist["client-reconstruct-at-least-t"]++
			if err != nil {
				res.fail("client-reconstruct-failed", err.Error(), one)
			} else {
				ok, verr := key.Verify(got, hash)
				if !ok || verr != nil {
					res.fail("client-reconstruct-not-verified", fmt.Sprintf("reconstruction from shares %v (t=%d) does not verify under the original key", rec, s.T), one)
				}
				if got != ref {
					res.fail("client-reconstruct-not-original-sig", fmt.Sprintf("reconstruction from shares %v (t=%d) differs from the original key's signature", rec, s.T), one)
				}
			}
		} else {
			res.hist[fmt.Sprintf("client-reconstruct-other-error-%v", err != nil)]++
		}
		var w hb.SecretKey
		werr := error(nil)
		if len(ss) == 0 {
			werr = fmt.Errorf("empty")
		} else {
			werr = w.Recover(ss, is)
		}
		if (werr == nil) != (err == nil) {
			res.fail("recover-witness-mismatch", fmt.Sprintf("signature reconstruction err=%v, scalar recovery err=%v", err, werr), one)
		} else if err == nil {
			raw, _ := hex.DecodeString(hash)
			if w.Sign(string(raw)).SerializeToHexStr() != got {
				res.fail("recover-witness-mismatch", "reconstructed signature is not (recovered scalar) * H(m)", one)
			}
		}
		if ri < s.CoqRecs {
			var idh []string
			for k := range is {
				idh = append(idh, is[k].GetHexString())
			}
			coqRecs = append(coqRecs, pair(pair(vh.NatList(rec), lagrangeHints(idh)), optZ(err == nil, zx(w.GetHexString()))))
		}
	}
	cs := []string{keyDec}
	for k := 1; k < s.T; k++ {
		if k < len(s.Draws) {
			cs = append(cs, fmt.Sprintf("0x%x", maskedDraw(s.Draws[k])))
		}
	}
	if len(cs) == s.T {
		res.coq = fmt.Sprintf("(Build_dkc_case (%s) ([%s]) (%s) ([]) (%s) (%s) ([]) (%s) ([]))",
			vh.List(cIDs), vh.List(cs), vh.List(cShares), vh.List(cSks), vh.Nat(min(2, s.N)), vh.List(coqRecs))
	}
	return res
}

// ---------- split keys ----------

func runSplit(s scen) *result {
	res := &result{hist: map[string]int{}}
	installDraws(s)
	defer hb.SetRandFunc(nil)
	key := encryption.NewBLS0ChainScheme()
	if err := key.GenerateKeys(); err != nil {
		panic(err)
	}
	keyDec, _ := privDec(key)
	splits, err := key.GenerateSplitKeys(s.N)
	if err != nil {
		res.fail("split-error", err.Error(), s)
		return res
	}
	hash := encryption.Hash(s.Msg)
	ref, _ := key.Sign(hash)
	var sigs, ks []string
	for _, sp := range splits {
		sg, err := sp.Sign(hash)
		if err != nil {
			res.fail("split-sign-error", err.Error(), s)
			return res
		}
		sigs = append(sigs, sg)
		d, _ := privDec(sp)
		ks = append(ks, d)
	}
	agg, err := key.AggregateSignatures(sigs)
	if err != nil {
		res.fail("split-aggregate-error", err.Error(), s)
		return res
	}
	res.hist["split-aggregate"]++
	if ok, verr := key.Verify(agg, hash); !ok || verr != nil {
		res.fail("split-reconstruct-not-verified", fmt.Sprintf("aggregate of %d split signatures does not verify under the primary key", s.N), s)
	}
	if agg != ref {
		res.fail("split-reconstruct-not-original-sig", "aggregate of split signatures differs from the primary key's signature", s)
	}
	// leaving one split signature out must not verify (unless that key is zero)
	if s.N > 1 {
		part, _ := key.AggregateSignatures(sigs[1:])
		ok, _ := key.Verify(part, hash)
		res.hist[fmt.Sprintf("split-partial-verifies-%v", ok)]++
		if ok && ks[0] != "0x0" {
			res.fail("split-partial-verified", "aggregate without one split signature verifies", s)
		}
	}
	// composition: every split key (the last one too) is a complete key of its own -- its serialized
	// secret is its scalar, so it can be reloaded, threshold-shared and split again
	for i, sp := range splits {
		one := s
		own, _ := sp.Sign(hash)
		_, le := privDec(sp)
		var sk hb.SecretKey
		if err := sk.SetLittleEndian(le); err != nil {
			res.fail("split-key-bytes-not-its-secret", fmt.Sprintf("split key %d of %d: private key bytes are not a scalar: %v", i, s.N, err), one)
			continue
		}
		if sk.GetPublicKey().SerializeToHexStr() != sp.GetPublicKey() {
			res.fail("split-key-bytes-not-its-secret", fmt.Sprintf("split key %d of %d: the public key of its private key bytes is not its public key", i, s.N), one)
		}
		// (a) WriteKeys -> ReadKeys
		var buf bytes.Buffer
		if err := sp.WriteKeys(&buf); err != nil {
			panic(err)
		}
		re := encryption.NewBLS0ChainScheme()
		if err := re.ReadKeys(&buf); err != nil {
			res.fail("split-key-reload-failed", fmt.Sprintf("split key %d of %d: %v", i, s.N, err), one)
		} else {
			sg, _ := re.Sign(hash)
			if ok, _ := sp.Verify(sg, hash); !ok || sg != own {
				res.fail("split-key-reloaded-signs-differently", fmt.Sprintf("split key %d of %d written and read back signs a signature that does not verify under its public key", i, s.N), one)
			}
		}
		// (b) threshold-share the split key, reconstruct from T shares
		const t2, n2 = 2, 3
		if shs, err := encryption.BLS0GenerateThresholdKeyShares(t2, n2, sp); err != nil {
			res.fail("split-key-threshold-shares-error", err.Error(), one)
		} else {
			rc := encryption.NewBLS0ChainReconstruction(t2, n2)
			for _, sh := range shs[n2-t2:] {
				sg, _ := sh.Sign(hash)
				if err := rc.Add(sh, sg); err != nil {
					panic(err)
				}
			}
			got, err := rc.Reconstruct()
			if ok, _ := sp.Verify(got, hash); err != nil || !ok || got != own {
				res.fail("split-key-threshold-signature-not-verified", fmt.Sprintf("split key %d of %d shared 2-of-3: the reconstructed signature does not verify under the split key's public key", i, s.N), one)
			}
		}
		// (c) split the split key again
		if leaves, err := sp.(*encryption.BLS0ChainScheme).GenerateSplitKeys(2); err != nil {
			res.fail("split-key-resplit-error", err.Error(), one)
		} else {
			var ls []string
			for _, lf := range leaves {
				sg, _ := lf.Sign(hash)
				ls = append(ls, sg)
			}
			ag, _ := key.AggregateSignatures(ls)
			if ok, _ := sp.Verify(ag, hash); !ok || ag != own {
				res.fail("split-key-resplit-not-its-signature", fmt.Sprintf("split key %d of %d split again: the leaves' aggregate is not the split key's signature", i, s.N), one)
			}
		}
		res.hist["split-key-composed"]++
	}
	res.coq = fmt.Sprintf("(Build_dkc_case ([]) ([]) ([]) ([]) ([]) (0%%nat) ([]) ([]) ([%s]))",
		pair(keyDec, vh.List(ks)))
	return res
}

// run executes one scenario; a panic of the code under test is reported as a failure.
func run(s scen) (res *result) {
	defer func() {
		if r := recover(); r != nil {
			if msg, ok := r.(string); ok && strings.HasPrefix(msg, "harness assumption") {
				panic(r)
			}
			res = &result{hist: map[string]int{}}
			res.fail("code-panics", fmt.Sprintf("the code under test panicked: %v", r), s)
		}
	}()
	return runSafe(s)
}

func runSafe(s scen) *result {
	switch s.Kind {
	case "client":
		return runClient(s)
	case "split":
		return runSplit(s)
	}
	return runDKG(s)
}

// ---------- generation ----------

func randDraw(r *vh.Rand) string {
	b := make([]byte, 32)
	switch x := r.Intn(40); {
	case x == 0: // (the library refuses a zero draw)
		b[0] = 2
	case x == 1:
		b[0] = 1
	case x == 2: // 2^253-1 after truncation
		for i := range b {
			b[i] = 0xff
		}
	case x == 4: // group order - 1
		le := new(big.Int).Sub(groupOrder, big.NewInt(1)).Bytes()
		for i := range le {
			b[i] = le[len(le)-1-i]
		}
	case x == 3:
		b[0] = byte(1 + r.Intn(255))
	default:
		for i := range b {
			b[i] = byte(r.U64())
		}
	}
	return hex.EncodeToString(b)
}

// minerID derives a miner id the way nodes do: hash of the public key bytes of a fresh key.
func minerID(r *vh.Rand) string {
	d := &drawReader{extra: r}
	hb.SetRandFunc(d)
	defer hb.SetRandFunc(nil)
	k := encryption.NewBLS0ChainScheme()
	_ = k.GenerateKeys()
	pk, _ := hex.DecodeString(k.GetPublicKey())
	return encryption.Hash(pk)
}

func combos(n, k int, limit int, r *vh.Rand) [][]int {
	var out [][]int
	total := 1
	for i := 0; i < k; i++ {
		total = total * (n - i) / (i + 1)
		if total > 1000000 {
			break
		}
	}
	if total <= limit {
		var rec func(start int, cur []int)
		rec = func(start int, cur []int) {
			if len(cur) == k {
				out = append(out, append([]int{}, cur...))
				return
			}
			for i := start; i < n; i++ {
				rec(i+1, append(cur, i))
			}
		}
		rec(0, nil)
		return out
	}
	for len(out) < limit {
		p := r.Perm(n)[:k]
		out = append(out, append([]int{}, p...))
	}
	return out
}

var messages = []string{"", "1", "10abc", "1012d687f", "round 7", "\x00\x01", "a much longer message that is hashed to the curve by the library before signing ........................................"}

func genDKG(r *vh.Rand, t, n int, subsetLimit int, collide bool) scen {
	s := scen{Kind: "dkg", T: t, N: n}
	for j := 0; j < n; j++ {
		s.Miners = append(s.Miners, minerID(r))
	}
	if collide && n >= 2 {
		// two miners sharing the first 31 hex digits: outside the hypothesis of the model
		s.Miners[1] = s.Miners[0][:31] + s.Miners[1][31:]
	}
	for i := 0; i < n*t; i++ {
		s.Draws = append(s.Draws, randDraw(r))
	}
	s.Msg = messages[r.Intn(len(messages))]
	if r.Chance(1, 3) {
		s.Msg = fmt.Sprintf("%d%d%x", r.Intn(1000), r.Intn(3), r.U64())
	}
	kinds := []string{"honest", "plus1", "zero", "otherdealer", "otherid", "secret"}
	for k := 0; k < 8; k++ {
		s.Tampers = append(s.Tampers, tamper{r.Intn(n), r.Intn(n), kinds[r.Intn(len(kinds))]})
	}
	// recoveries: first the ones that also go to the model
	all := combos(n, t, subsetLimit, r)
	pick := func() []int { return append([]int{}, all[r.Intn(len(all))]...) }
	a := pick()
	s.Recs = append(s.Recs, a)
	b := append([]int{}, a...)
	pm := r.Perm(len(b))
	for i := range b {
		b[i] = a[pm[i]]
	}
	s.Recs = append(s.Recs, b) // same parties, another order
	s.Recs = append(s.Recs, pick())
	if t < n {
		s.Recs = append(s.Recs, r.Perm(n)[:t+1])
	}
	if t > 1 {
		s.Recs = append(s.Recs, r.Perm(n)[:t-1])
	}
	if n >= 1 {
		d := pick()
		d = append(d, d[0])
		s.Recs = append(s.Recs, d) // duplicate id
	}
	s.CoqRecs = len(s.Recs)
	if t >= 4 {
		s.CoqRecs = 3
	}
	s.CoqAll = n*n*t <= 80
	s.Recs = append(s.Recs, r.Perm(n)) // all parties
	s.Recs = append(s.Recs, all...)
	for k := 0; k < 4 && t < n; k++ {
		s.Recs = append(s.Recs, r.Perm(n)[:r.Range(t, n)])
	}
	return s
}

func genClient(r *vh.Rand, t, n int, subsetLimit int) scen {
	s := scen{Kind: "client", T: t, N: n}
	for i := 0; i < t; i++ {
		s.Draws = append(s.Draws, randDraw(r))
	}
	s.Msg = messages[r.Intn(len(messages))]
	all := combos(n, t, subsetLimit, r)
	a := append([]int{}, all[r.Intn(len(all))]...)
	s.Recs = append(s.Recs, a)
	b := append([]int{}, a...)
	pm := r.Perm(len(b))
	for i := range b {
		b[i] = a[pm[i]]
	}
	s.Recs = append(s.Recs, b)
	if t > 1 {
		s.Recs = append(s.Recs, r.Perm(n)[:t-1])
	}
	s.Recs = append(s.Recs, append(append([]int{}, a...), a[0]))
	s.CoqRecs = len(s.Recs)
	if t >= 4 {
		s.CoqRecs = 2
	}
	s.Recs = append(s.Recs, r.Perm(n))
	s.Recs = append(s.Recs, all...)
	return s
}

func genSplit(r *vh.Rand, n int) scen {
	s := scen{Kind: "split", N: n}
	for i := 0; i < n; i++ {
		s.Draws = append(s.Draws, randDraw(r))
	}
	s.Msg = messages[r.Intn(len(messages))]
	return s
}

func min(a, b int) int {
	if a < b {
		return a
	}
	return b
}

func key(s scen) string {
	return fmt.Sprintf("%s|%d|%d|%s|%s|%v|%v", s.Kind, s.T, s.N, strings.Join(s.Draws, ","), s.Msg, s.Recs, s.Tampers)
}

func main() {
	o := vh.ParseFlags()
	logging.InitLogging("development", "")
	if err := hb.Init(hb.CurveFp254BNb); err != nil {
		panic(err)
	}
	rep := vh.NewReport("cryptodkg", "C34", o)
	rep.Rule = "DKG instances on the real threshold/bls code for (t,n) from (1,1) to (7,10) (thorough: to (20,30)), coefficients served " +
		"through the library CSPRNG hook (random, with 0, 1, small and 2^253-1 mixed in), miner ids = hash of fresh public keys; every share " +
		"validated, every aggregation step of the API repeated on the same objects (aggregate twice, re-add the same shares, derive shares again) with the key checks after each repetition, 8 presented shares per instance (honest, +1, zero, other dealer, other receiver, the secret), every signature verified by every " +
		"party, recovery from every t-subset (or a random sample above the limit), permutations, larger, smaller and duplicate-id lists; client " +
		"threshold keys and split keys of core/encryption likewise; non-trivial = a dkg/client instance with t >= 2 in which at least one presented " +
		"share was rejected or one recovery list was below t or had a duplicate; distinct by all inputs"
	cf := &vh.CasesFile{Imports: []string{"Base.Corr", "Model.DKGZ", "Corr.DKG"}, CaseType: "dkc_case", CheckFn: "dkc_check", Shard: 6}

	handle := func(s scen) {
		res := run(s)
		for k, n := range res.hist {
			rep.CountN(k, n)
		}
		rep.Count("scenario-" + s.Kind)
		rep.Count(fmt.Sprintf("t=%d,n=%d", s.T, s.N))
		nontriv := s.Kind != "split" && s.T >= 2 && (res.hist["recover-below-t"]+res.hist["recover-duplicate-error-true"]+res.hist["client-reconstruct-other-error-true"]+res.hist["client-reconstruct-other-error-false"] > 0)
		rep.Case(key(s), nontriv, s)
		if res.coq != "" {
			cf.Add(res.coq)
			rep.CaseInputs = append(rep.CaseInputs, s)
		}
		for _, f := range res.fails {
			min := f.min
			// keep the minimised scenario only if it still fails the same way
			still := false
			for _, f2 := range run(min).fails {
				if f2.kind == f.kind {
					still = true
				}
			}
			if !still {
				min = s
			}
			rep.Violate("C34:"+f.kind, f.desc, min)
		}
	}
	finish := func() {
		files, err := cf.Write(o.Out, "C34")
		if err != nil {
			panic(err)
		}
		rep.CaseFiles = files
		rep.ShardSize = 6
		rep.Write(o.Out)
	}

	var rs scen
	if o.LoadReplay(&rs) {
		handle(rs)
		finish()
		return
	}
	rnd := vh.NewRand(o.Seed)
	type tn struct{ t, n int }
	shapes := []tn{{1, 1}, {1, 2}, {2, 2}, {2, 3}, {3, 3}, {2, 4}, {3, 4}, {3, 5}, {4, 5}, {4, 6}, {5, 7}, {7, 10}}
	if o.Thorough() {
		shapes = append(shapes, tn{6, 9}, tn{9, 12}, tn{10, 10}, tn{11, 16}, tn{14, 20}, tn{20, 30})
	}
	limit := o.N(130, 600)
	for _, sh := range shapes {
		handle(genDKG(rnd, sh.t, sh.n, limit, false))
	}
	for i := 0; i < o.N(6, 120); i++ {
		n := rnd.Range(1, 5)
		t := rnd.Range(1, n)
		handle(genDKG(rnd, t, n, limit, false))
	}
	// outside the hypothesis: colliding party ids (recorded, not judged)
	handle(genDKG(rnd, 2, 3, limit, true))
	for _, sh := range shapes {
		if sh.n > 12 {
			continue
		}
		handle(genClient(rnd, sh.t, sh.n, limit))
	}
	for i := 0; i < o.N(4, 80); i++ {
		n := rnd.Range(1, 8)
		handle(genClient(rnd, rnd.Range(1, n), n, limit))
	}
	for n := 1; n <= o.N(6, 12); n++ {
		handle(genSplit(rnd, n))
	}
	// realistic miner ids satisfy the hypothesis "distinct and non-zero party ids"
	seen := map[string]string{}
	for i := 0; i < o.N(2000, 50000); i++ {
		var b [32]byte
		for k := range b {
			b[k] = byte(rnd.U64())
		}
		mid := encryption.Hash(b[:])
		id := bls.ComputeIDdkg(mid)
		d := id.GetDecString()
		if prev, dup := seen[d]; d == "0" || (dup && prev != mid) {
			rep.Violate("C34:miner-ids-collide", "two generated miner ids map to the same or a zero party id", []string{prev, mid})
		}
		seen[d] = mid
	}
	rep.Count("party-id-hypothesis-checked")
	rep.Note("party-id hypothesis (ComputeIDdkg distinct and non-zero) checked on %d generated 256-bit miner ids; ids are \"1\"+first 31 hex digits, so two miners sharing a 31-digit prefix would collide (one such instance is run and recorded under hyp-*)", o.N(2000, 50000))
	finish()
}
