(* Model of the governance-settings update functions (property C48):
     minersc  updateGlobals / GlobalSettings.update        (smartcontract/minersc/globals.go)
     minersc  updateSettings / GlobalNode.set,update,validate (settings.go, models.go)
     storagesc updateSettings / commitSettingChanges / Config.set,update,validate (config_settigns.go, config.go)
     faucetsc updateSettings / GlobalNode.updateConfig,setCostValue,validate (sc.go, models.go)
     vestingsc updateConfig / config.update,setCostValue (config.go)
     zcnsc    UpdateGlobalConfig / GlobalNode.UpdateConfig,Validate (config.go, nodes.go)
   The tables (name, type, flag) come from Gen/SettingsTables.v, regenerated from the sources.
   Definitions only. String -> number parsing is done by the Go standard library (strconv,
   time.ParseDuration, encoding/hex) and by currency.ParseZCN/MultFloat64; their results on the
   request values are inputs of the model (record st_po), recorded by the engine from those libraries. *)
From ZC Require Export Model.SettingsTypes Gen.SettingsTables.
Open Scope Z_scope.

(* ---------- strings (ASCII only: the engine generates ASCII keys) ---------- *)

Definition st_is_space (c : ascii) : bool :=
  let n := nat_of_ascii c in
  (Nat.eqb n 32 || Nat.eqb n 9 || Nat.eqb n 10 || Nat.eqb n 11 || Nat.eqb n 12 || Nat.eqb n 13)%bool.

Fixpoint st_ltrim (s : string) : string :=
  match s with
  | EmptyString => EmptyString
  | String c tl => if st_is_space c then st_ltrim tl else s
  end.

Fixpoint st_rev_acc (s acc : string) : string :=
  match s with
  | EmptyString => acc
  | String c tl => st_rev_acc tl (String c acc)
  end.
Definition st_rev (s : string) : string := st_rev_acc s EmptyString.

(* strings.TrimSpace *)
Definition st_trim (s : string) : string := st_rev (st_ltrim (st_rev (st_ltrim s))).

Definition st_lower_ascii (c : ascii) : ascii :=
  let n := nat_of_ascii c in
  if (Nat.leb 65 n && Nat.leb n 90)%bool then ascii_of_nat (n + 32) else c.

(* strings.ToLower *)
Fixpoint st_lower (s : string) : string :=
  match s with
  | EmptyString => EmptyString
  | String c tl => String (st_lower_ascii c) (st_lower tl)
  end.

Fixpoint st_drop (n : nat) (s : string) : string :=
  match n, s with
  | O, _ => s
  | S m, String _ tl => st_drop m tl
  | S _, EmptyString => EmptyString
  end.

(* strings.TrimPrefix *)
Definition st_trim_prefix (p s : string) : string :=
  if prefix p s then st_drop (String.length p) s else s.

(* isCost: len(key) > len("cost.") && key[:5] == "cost." *)
Definition st_is_cost (k : string) : bool :=
  (Nat.ltb 5 (String.length k) && prefix "cost." k)%bool.

(* ---------- stored values and stores ---------- *)

Inductive st_val :=
  | SvZ (z : Z)        (* int, int64, Coin, Duration (ns) *)
  | SvF (bits : Z)     (* float64 as its IEEE-754 bit pattern *)
  | SvB (b : bool)
  | SvS (s : string).

Definition st_val_eqb (a b : st_val) : bool :=
  match a, b with
  | SvZ x, SvZ y => Z.eqb x y
  | SvF x, SvF y => Z.eqb x y
  | SvB x, SvB y => Bool.eqb x y
  | SvS x, SvS y => String.eqb x y
  | _, _ => false
  end.

Definition st_store : Type := list (string * st_val).

Fixpoint st_get (s : st_store) (k : string) : option st_val :=
  match s with
  | [] => None
  | (k', v) :: tl => if String.eqb k' k then Some v else st_get tl k
  end.

Fixpoint st_set (s : st_store) (k : string) (v : st_val) : st_store :=
  match s with
  | [] => [(k, v)]
  | (k', v') :: tl => if String.eqb k' k then (k', v) :: tl else (k', v') :: st_set tl k v
  end.

Definition st_z (s : st_store) (k : string) : Z := match st_get s k with Some (SvZ z) => z | _ => 0 end.
Definition st_f (s : st_store) (k : string) : Z := match st_get s k with Some (SvF b) => b | _ => 0 end.
Definition st_s (s : st_store) (k : string) : string := match st_get s k with Some (SvS x) => x | _ => EmptyString end.

(* float64 comparisons with the constants 0 and 1, on bit patterns *)
Definition fl_sign (b : Z) : bool := Z.leb (2 ^ 63) b.
Definition fl_mag (b : Z) : Z := b mod 2 ^ 63.
Definition fl_nan (b : Z) : bool := Z.ltb 9218868437227405312 (fl_mag b).        (* 0x7FF0000000000000 *)
Definition fl_finite (b : Z) : bool := Z.ltb (fl_mag b) 9218868437227405312.           (* neither NaN nor an infinity *)
Definition fl_lt0 (b : Z) : bool := (fl_sign b && negb (Z.eqb (fl_mag b) 0) && negb (fl_nan b))%bool.
Definition fl_le0 (b : Z) : bool := (negb (fl_nan b) && (fl_sign b || Z.eqb (fl_mag b) 0))%bool.
Definition fl_gt1 (b : Z) : bool := (negb (fl_sign b) && negb (fl_nan b) && Z.ltb 4607182418800017408 (fl_mag b))%bool. (* 0x3FF0000000000000 *)
(* x < 0 || 1 < x *)
Definition fl_out01 (b : Z) : bool := (fl_lt0 b || fl_gt1 b)%bool.
(* x > 0 && x <= 1 *)
Definition fl_in_0_1 (b : Z) : bool :=
  (negb (fl_nan b) && negb (fl_sign b) && negb (Z.eqb (fl_mag b) 0) && Z.leb (fl_mag b) 4607182418800017408)%bool.
(* x >= 0 && x < 18446744073709551616.0 (0x43F0000000000000 = 2^64); -0.0 >= 0 holds *)
Definition fl_in_u64 (b : Z) : bool :=
  (negb (fl_nan b) && (negb (fl_sign b) || Z.eqb (fl_mag b) 0) && Z.ltb (fl_mag b) 4895412794951729152)%bool.

(* ---------- the parsing oracle: results of the Go library parsers on one request value ---------- *)

Inductive st_zcn := ZcnOk (z : Z) | ZcnErr | ZcnPanic.

Record st_po := {
  po_int : option Z;      (* strconv.Atoi / ParseInt(s,10,64) *)
  po_i32 : option Z;      (* strconv.ParseInt(s,10,32) *)
  po_dur : option Z;      (* time.ParseDuration, nanoseconds *)
  po_flt : option Z;      (* strconv.ParseFloat(s,64), IEEE bits *)
  po_bool : option bool;  (* strconv.ParseBool *)
  po_hex : bool;          (* hex.DecodeString succeeds *)
  po_u64 : option Z;      (* strconv.ParseUint(s,10,64) *)
  po_zcn : st_zcn;        (* currency.ParseZCN of the parsed float: value, error, or panic (NaN, +-Inf: refused beforehand by config.ParseZCN) *)
  po_cast : Z;            (* uint64(f) of the parsed float as computed on this platform *)
  po_mult : option Z      (* currency.MultFloat64(1e10, f) of the parsed float *)
}.

Record st_entry := { e_key : string; e_val : string; e_po : st_po }.

Inductive st_res (A : Type) := ROk (a : A) | RReject | RPanic.
Arguments ROk {A} a.
Arguments RReject {A}.
Arguments RPanic {A}.

Definition st_of_opt {A} (f : A -> st_val) (o : option A) : st_res st_val :=
  match o with Some a => ROk (f a) | None => RReject end.

(* parse a request value at a table type.
   globals = config.StringToInterface, and the stored value is the raw string;
   otherwise the typed branches of GlobalNode.set / Config.set / the switch-based contracts. *)
Definition st_parse (globals : bool) (t : st_ty) (raw : string) (po : st_po) : st_res st_val :=
  if globals then
    match t with
    | StInt | StInt64 => st_of_opt (fun _ => SvS raw) (po_int po)
    | StInt32 => st_of_opt (fun _ => SvS raw) (po_i32 po)
    | StDuration => st_of_opt (fun _ => SvS raw) (po_dur po)
    | StFloat => match po_flt po with      (* NaN and the infinities are refused when the source says so (Gen fact) *)
                 | Some b => if (gen_globals_float_finite_only && negb (fl_finite b))%bool then RReject else ROk (SvS raw)
                 | None => RReject
                 end
    | StBool => st_of_opt (fun _ => SvS raw) (po_bool po)
    | StString | StStrings => ROk (SvS raw)
    | StCoin => match po_int po with
                | Some z => if Z.leb 0 z then ROk (SvS raw) else RReject
                | None => RReject
                end
    | _ => RPanic   (* StringToInterface panics on Key, Cost *)
    end
  else
    match t with
    | StInt | StInt64 => st_of_opt SvZ (po_int po)
    | StDuration => st_of_opt SvZ (po_dur po)
    | StFloat => st_of_opt SvF (po_flt po)
    | StBool => st_of_opt SvB (po_bool po)
    | StKey => if po_hex po then ROk (SvS raw) else RReject
    | StString => ROk (SvS raw)
    | StCoin => match po_flt po with            (* config.ParseZCN: NaN and the infinities are refused first *)
                | None => RReject
                | Some _ => match po_zcn po with
                            | ZcnOk z => ROk (SvZ z)
                            | ZcnErr => RReject
                            | ZcnPanic => RReject
                            end
                end
    | StCoinU64 => st_of_opt SvZ (po_u64 po)
    | StCoinCast => match po_flt po with
                    | Some b => if fl_in_u64 b then ROk (SvZ (po_cast po)) else RReject
                    | None => RReject
                    end
    | StCoinMult => match po_flt po with Some _ => st_of_opt SvZ (po_mult po) | None => RReject end
    | StInt32 | StStrings | StCost => RReject
    end.

(* ---------- contract specifications ---------- *)

Inductive st_costmode :=
  | CostAny                         (* minersc, storagesc: every key with the "cost." prefix is stored *)
  | CostListed (fns : list string)  (* faucetsc, vestingsc: default clause -> setCostValue over costFunctions *)
  | CostNever.                      (* zcnsc (the "cost" case always fails), globals *)

Record st_spec := {
  sp_table : list st_row;
  sp_globals : bool;
  sp_trim : bool;                   (* storagesc trims keys and values *)
  sp_cost : st_costmode;
  sp_validate : option (st_store -> bool)   (* validation run between update and save; None = not run *)
}.

Fixpoint st_lookup (tbl : list st_row) (k : string) : option st_row :=
  match tbl with
  | [] => None
  | r :: tl => if String.eqb (st_row_name r) k then Some r else st_lookup tl k
  end.

Definition st_ekey (sp : st_spec) (e : st_entry) : string :=
  if sp_trim sp then st_trim (e_key e) else e_key e.

(* the value handed to set(); e_po is the library parsers' view of this (trimmed) value *)
Definition st_evalue (sp : st_spec) (e : st_entry) : string :=
  if sp_trim sp then st_trim (e_val e) else e_val e.

(* what one (key, value) of the request does: the setting it assigns and the value, or failure.
   Does not depend on the current settings. *)
Definition st_eval (sp : st_spec) (e : st_entry) : st_res (string * st_val) :=
  let k := st_ekey sp e in
  let cost_any := match sp_cost sp with CostAny => st_is_cost k | _ => false end in
  match st_lookup (sp_table sp) k with
  | Some r =>
      if cost_any then
        (* a listed key with the "cost." prefix: strconv.Atoi, stored in the cost map *)
        match po_int (e_po e) with Some z => ROk (k, SvZ z) | None => RReject end
      else if st_row_flag r then
        match st_parse (sp_globals sp) (st_row_ty r) (st_evalue sp e) (e_po e) with
        | ROk v => ROk (k, v)
        | RReject => RReject
        | RPanic => RPanic
        end
      else RReject
  | None =>
      match sp_cost sp with
      | CostListed fns =>
          if prefix "cost" k then
            let ck := st_lower (st_trim_prefix "cost." k) in
            if existsb (fun f => String.eqb ck (st_lower f)) fns then
              match po_int (e_po e) with
              | Some z => if Z.leb 0 z then ROk (("cost." ++ ck)%string, SvZ z) else RReject
              | None => RReject
              end
            else RReject
          else RReject
      | _ => RReject      (* also: minersc/storagesc keys with the "cost." prefix that the table does not list *)
      end
  end.

Definition st_apply (sp : st_spec) (s : st_store) (e : st_entry) : st_res st_store :=
  match st_eval sp e with
  | ROk (k, v) => ROk (st_set s k v)
  | RReject => RReject
  | RPanic => RPanic
  end.

(* the loops `for _, key := range config.SortedKeys(fields)`: the request is visited in the order of its raw
   keys (sort.Strings = bytewise = String.leb), whatever order the Go map would give *)
Fixpoint st_insert (e : st_entry) (l : list st_entry) : list st_entry :=
  match l with
  | [] => [e]
  | x :: tl => if String.leb (e_key e) (e_key x) then e :: l else x :: st_insert e tl
  end.
Fixpoint st_sort (l : list st_entry) : list st_entry :=
  match l with [] => [] | e :: tl => st_insert e (st_sort tl) end.

(* one pass over the entries in the given order. storagesc (sp_trim) refuses a second entry whose trimmed key
   was already seen ("key ... given twice"); [seen] = the trimmed keys so far *)
Fixpoint st_update_from (sp : st_spec) (seen : list string) (s : st_store) (es : list st_entry) : st_res st_store :=
  match es with
  | [] => ROk s
  | e :: tl =>
      if (sp_trim sp && existsb (String.eqb (st_ekey sp e)) seen)%bool then RReject
      else match st_apply sp s e with
           | ROk s' => st_update_from sp (st_ekey sp e :: seen) s' tl
           | RReject => RReject
           | RPanic => RPanic
           end
  end.

Definition st_update (sp : st_spec) (s : st_store) (es : list st_entry) : st_res st_store :=
  st_update_from sp [] s (st_sort es).

(* ---------- validation predicates (hand-transcribed) ---------- *)

Definition st_valid_miner (s : st_store) : bool :=
  (Z.leb 1 (st_z s "min_n") && Z.leb (st_z s "min_n") (st_z s "max_n") &&
   Z.leb 1 (st_z s "min_s") && Z.leb (st_z s "min_s") (st_z s "max_s") &&
   Z.ltb 0 (st_z s "max_delegates") &&
   Z.leb 0 (st_z s "num_sharder_delegates_rewarded") &&
   Z.leb 0 (st_z s "num_miner_delegates_rewarded") &&
   Z.leb 0 (st_z s "num_sharders_rewarded") &&
   fl_in_0_1 (st_f s "x_percent"))%bool.

Definition st_sec : Z := 1000000000.

Definition st_valid_faucet (s : st_store) : bool :=
  (Z.leb 1 (st_z s "pour_amount") &&
   Z.leb (st_z s "pour_amount") (st_z s "max_pour_amount") &&
   Z.leb (st_z s "max_pour_amount") (st_z s "periodic_limit") &&
   Z.leb (st_z s "periodic_limit") (st_z s "global_limit") &&
   Z.leb 1 (Z.quot (st_z s "individual_reset") st_sec) &&
   Z.leb (st_z s "individual_reset") (st_z s "global_rest"))%bool.

Definition st_valid_vesting (s : st_store) : bool :=
  (Z.leb 1 (Z.quot (st_z s "min_duration") st_sec) &&
   Z.ltb (Z.quot (st_z s "min_duration") st_sec) (Z.quot (st_z s "max_duration") st_sec) &&
   Z.leb 1 (st_z s "max_destinations") &&
   Z.leb 1 (st_z s "max_description_length") &&
   negb (String.eqb (st_s s "owner_id") ""))%bool.

Definition st_valid_zcn (s : st_store) : bool :=
  (Z.leb 1 (st_z s "min_stake") && Z.leb 1 (st_z s "max_stake") && Z.leb 1 (st_z s "min_mint") &&
   Z.leb 1 (st_z s "max_fee") && Z.leb 1 (st_z s "min_authorizers") && Z.leb 1 (st_z s "min_burn") &&
   negb (fl_lt0 (st_f s "percent_authorizers")) &&
   negb (String.eqb (st_s s "owner_id") "") &&
   Z.ltb 0 (st_z s "max_delegates") && Z.ltb 0 (st_z s "health_check_period"))%bool.

Definition st_valid_storage (s : st_store) : bool :=
  (Z.ltb st_sec (st_z s "time_unit") &&
   negb (fl_out01 (st_f s "validator_reward")) &&
   negb (fl_out01 (st_f s "blobber_slash")) &&
   negb (fl_out01 (st_f s "cancellation_charge")) &&
   Z.ltb 0 (st_z s "max_blobbers_per_allocation") &&
   Z.leb 0 (st_z s "min_blobber_capacity") &&
   Z.leb 0 (st_z s "max_challenge_completion_rounds") &&
   Z.ltb 0 (st_z s "health_check_period") &&
   Z.leb 0 (st_z s "min_alloc_size") &&
   Z.leb (st_z s "min_write_price") (st_z s "max_write_price") &&
   negb (fl_out01 (st_f s "stakepool.kill_slash")) &&
   Z.leb 0 (st_z s "free_allocation_settings.data_shards") &&
   Z.leb 0 (st_z s "free_allocation_settings.parity_shards") &&
   Z.leb 0 (st_z s "free_allocation_settings.size") &&
   Z.leb (st_z s "free_allocation_settings.read_price_range.min") (st_z s "free_allocation_settings.read_price_range.max") &&
   Z.leb (st_z s "free_allocation_settings.write_price_range.min") (st_z s "free_allocation_settings.write_price_range.max") &&
   negb (fl_out01 (st_f s "free_allocation_settings.read_pool_fraction")) &&
   Z.ltb 0 (st_z s "validators_per_challenge") &&
   Z.ltb 0 (st_z s "num_validators_rewarded") &&
   Z.ltb 0 (st_z s "max_blobber_select_for_challenge") &&
   Z.leb (st_z s "min_stake") (st_z s "max_stake") &&
   Z.leb 1 (st_z s "max_delegates") &&
   negb (fl_out01 (st_f s "max_charge")) &&
   negb (String.eqb (st_s s "owner_id") "") &&
   negb (fl_le0 (st_f s "block_reward.gamma.a")) &&
   negb (fl_le0 (st_f s "block_reward.gamma.b")) &&
   negb (fl_le0 (st_f s "block_reward.gamma.alpha")) &&
   negb (fl_le0 (st_f s "block_reward.zeta.mu")) &&
   negb (fl_le0 (st_f s "block_reward.zeta.i")) &&
   negb (fl_le0 (st_f s "block_reward.zeta.k")))%bool.

(* ---------- the six update entry points ---------- *)

Inductive st_contract := KGlobals | KMiner | KStorage | KFaucet | KVesting | KZcn.

Definition st_spec_of (k : st_contract) : st_spec :=
  match k with
  | KGlobals => {| sp_table := gen_globals_table; sp_globals := true; sp_trim := false; sp_cost := CostNever; sp_validate := None |}
  | KMiner => {| sp_table := gen_minersc_table; sp_globals := false; sp_trim := false; sp_cost := CostAny; sp_validate := Some st_valid_miner |}
  | KStorage => {| sp_table := gen_storagesc_table; sp_globals := false; sp_trim := true; sp_cost := CostAny; sp_validate := Some st_valid_storage |}
  | KFaucet => {| sp_table := gen_faucetsc_table; sp_globals := false; sp_trim := false; sp_cost := CostListed gen_faucetsc_costs; sp_validate := Some st_valid_faucet |}
  | KVesting => {| sp_table := gen_vestingsc_table; sp_globals := false; sp_trim := false; sp_cost := CostListed gen_vestingsc_costs;
                   sp_validate := Some st_valid_vesting |}
  | KZcn => {| sp_table := gen_zcnsc_table; sp_globals := false; sp_trim := false; sp_cost := CostNever; sp_validate := Some st_valid_zcn |}
  end.

(* the validation predicate the contract defines for its settings node (whether or not the update path calls it) *)
Definition st_valid_of (k : st_contract) (s : st_store) : bool :=
  match k with
  | KGlobals => true
  | KMiner => st_valid_miner s
  | KStorage => st_valid_storage s
  | KFaucet => st_valid_faucet s
  | KVesting => st_valid_vesting s
  | KZcn => st_valid_zcn s
  end.

Record st_env := {
  env_demeter : bool;      (* hard fork "demeter" active at this round (storagesc.updateSettings) *)
  env_ext_owner : string   (* minersc GlobalNode.OwnerId, the owner checked by update_globals *)
}.

(* settings node of one contract; g_pend = storagesc's pending-changes node (request entries, in map order) *)
Record st_state := { g_conf : st_store; g_pend : list st_entry }.

Record st_txn := { t_caller : string; t_decodes : bool; t_entries : list st_entry }.
Inductive st_op := OpUpdate (t : st_txn) | OpCommit.
Inductive st_out := OutOk | OutErrOwner | OutReject | OutPanic.

Definition st_owner (k : st_contract) (env : st_env) (s : st_state) : string :=
  match k with
  | KGlobals => env_ext_owner env
  | _ => st_s (g_conf s) "owner_id"
  end.

Definition st_out_of {A} (r : st_res A) : st_out :=
  match r with ROk _ => OutOk | RReject => OutReject | RPanic => OutPanic end.

(* updateChanges.Fields[key] = value over the request *)
Fixpoint st_pend_set (p : list st_entry) (e : st_entry) : list st_entry :=
  match p with
  | [] => [e]
  | x :: tl => if String.eqb (e_key x) (e_key e) then e :: tl else x :: st_pend_set tl e
  end.
Definition st_merge (p : list st_entry) (es : list st_entry) : list st_entry := fold_left st_pend_set es p.

Definition st_step (k : st_contract) (env : st_env) (s : st_state) (o : st_op) : st_state * st_out :=
  let sp := st_spec_of k in
  match o with
  | OpUpdate t =>
      if negb (String.eqb (st_owner k env s) (t_caller t)) then (s, OutErrOwner)
      else if negb (t_decodes t) then (s, OutReject)
      else
        match k with
        | KStorage =>
            match t_entries t with
            | [] => (s, OutOk)
            | _ =>
                let pend := st_merge (g_pend s) (t_entries t) in
                match st_update sp (g_conf s) pend with
                | ROk c' =>
                    if env_demeter env then
                      (* the updated config is saved right away: validated before anything is written *)
                      if st_valid_storage c' then ({| g_conf := c'; g_pend := pend |}, OutOk) else (s, OutReject)
                    else ({| g_conf := g_conf s; g_pend := pend |}, OutOk)
                | RReject => (s, OutReject)
                | RPanic => (s, OutPanic)
                end
            end
        | KGlobals =>
            match st_update sp (g_conf s) (t_entries t) with
            | ROk c' => ({| g_conf := st_set c' "#version" (SvZ (st_z c' "#version" + 1)); g_pend := g_pend s |}, OutOk)
            | RReject => (s, OutReject)
            | RPanic => (s, OutPanic)
            end
        | _ =>
            match st_update sp (g_conf s) (t_entries t) with
            | ROk c' =>
                match sp_validate sp with
                | Some v => if v c' then ({| g_conf := c'; g_pend := g_pend s |}, OutOk) else (s, OutReject)
                | None => ({| g_conf := c'; g_pend := g_pend s |}, OutOk)
                end
            | RReject => (s, OutReject)
            | RPanic => (s, OutPanic)
            end
        end
  | OpCommit =>
      match k with
      | KStorage =>
          match g_pend s with
          | [] => (s, OutOk)
          | _ =>
              match st_update sp (g_conf s) (g_pend s) with
              | ROk c' => if st_valid_storage c' then ({| g_conf := c'; g_pend := g_pend s |}, OutOk) else (s, OutReject)
              | RReject => (s, OutReject)
              | RPanic => (s, OutPanic)
              end
          end
      | _ => (s, OutReject)   (* no such function in the other contracts *)
      end
  end.

Fixpoint st_run (k : st_contract) (env : st_env) (s : st_state) (ops : list st_op) : st_state * list st_out :=
  match ops with
  | [] => (s, [])
  | o :: tl => let '(s1, out) := st_step k env s o in
               let '(s2, outs) := st_run k env s1 tl in (s2, out :: outs)
  end.

(* ---------- chain globals: declared type vs the type the chain reads the value back with ---------- *)

(* update_globals validates a value against the type declared in GlobalSettingInfo; chain.ConfigImpl.Update reads the
   stored string back with cf.GetX, which parses with the type of the getter and silently falls back to the node's
   local yaml when that parse fails. gen_globals_consumers (translator) lists, per key, the parse type of the getter. *)
Fixpoint st_consumer_ty (l : list st_row) (name : string) : option st_ty :=
  match l with
  | [] => None
  | r :: tl => if String.eqb (st_row_name r) name then Some (st_row_ty r) else st_consumer_ty tl name
  end.

(* mutable keys whose declared type is not the type the consumer parses with: (key, declared, consumer) *)
Definition st_global_type_disagreements : list (string * st_ty * st_ty) :=
  flat_map (fun r => if st_row_flag r then
                       match st_consumer_ty gen_globals_consumers (st_row_name r) with
                       | Some t => if st_ty_eqb (st_row_ty r) t then [] else [(st_row_name r, st_row_ty r, t)]
                       | None => []
                       end
                     else []) gen_globals_table.

(* every key the chain reads is declared *)
Definition st_global_consumers_declared : bool :=
  forallb (fun c => existsb (fun r => String.eqb (st_row_name r) (st_row_name c)) gen_globals_table) gen_globals_consumers.
