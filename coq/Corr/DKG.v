(* Correspondence for C34: a case is one DKG instance run on the real chaincore/threshold/bls
   code (or one client threshold / split key generation of core/encryption): party ids, the
   coefficients the parties drew, shares, ValidateShare results on presented (possibly tampered)
   shares, aggregated keys, signature verification under the aggregated public keys, and
   threshold recoveries.  Group elements are compared through their discrete logarithms (the
   engine checks on the real library that the recovered signature is witness * H(m) and records
   the witness).  [dkc_check] re-runs Model/DKGZ.v with p = dz_r.  Parties are referred to by
   their index in dkc_ids. *)
From Coq Require Import List ZArith Bool.
From ZC Require Import Base.Corr Model.DKGZ.
Import ListNotations.
Open Scope Z_scope.

Record dkc_case := {
  dkc_ids : list Z;                            (* party ids, aligned with dkc_coefs *)
  dkc_coefs : list (list Z);                   (* msk of every dealer *)
  dkc_shares : list ((nat * nat) * Z);         (* ((j, i), ComputeDKGKeyShare of dealer j for party i) *)
  dkc_vals : list ((nat * nat) * (Z * bool));  (* ((j, i), (share presented to i as dealer j's, ValidateShare result)) *)
  dkc_sks : list Z;                            (* Si of every party after aggregation, as observed *)
  dkc_nsk : nat;                               (* the first dkc_nsk of them are recomputed by the model *)
  dkc_vers : list ((nat * nat) * bool);        (* ((i, o), VerifySignature of party o's signature under gmpk[id i]), i < dkc_nsk *)
  dkc_recs : list ((list nat * list Z) * option Z); (* parties whose signature shares are recovered from, Lagrange
                                                  coefficient hints, dlog of the result *)
  dkc_splits : list (Z * list Z)               (* (primary key, scalars read from the private key bytes of the
                                                  split keys) of GenerateSplitKeys *)
}.

Definition dkc_check (c : dkc_case) : bool :=
  let p := dz_r in
  let css := dkc_coefs c in
  let id i := nth i (dkc_ids c) 0 in
  forallb (fun v => let '((j, i), s) := v in Z.eqb (dz_share p (nth j css []) (id i)) s) (dkc_shares c)
  && forallb (fun v => let '((j, i), (s, ok)) := v in
                       Bool.eqb (dz_validate p (nth j css []) (id i) s) ok) (dkc_vals c)
  && (let sks := map (dz_sk p css) (firstn (dkc_nsk c) (dkc_ids c)) in
      list_eqb Z.eqb sks (firstn (dkc_nsk c) (dkc_sks c))
      && forallb (fun v => let '((i, o), ok) := v in
                           Nat.ltb i (dkc_nsk c) &&
                           Bool.eqb (dz_verify (nth i sks 0) (nth o (dkc_sks c) 0)) ok) (dkc_vers c))
  && forallb (fun v => dz_recover_ok p (map (fun i => (id i, nth i (dkc_sks c) 0)) (fst (fst v)))
                                   (snd (fst v)) (snd v))
             (dkc_recs c)
  && forallb (fun v => Z.eqb (dz_sum p (snd v)) (fst v)
                       && list_eqb Z.eqb (dz_split p (fst v) (removelast (snd v))) (snd v)) (dkc_splits c).
