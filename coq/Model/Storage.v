(* Token/size accounting projection of smartcontract/storagesc (engine E-storage).
   Definitions only, prefix ss_ (records: al_/ba_/bl_/vl_/st_/cf_).  Every function models the
   arithmetic of the named Go function as the code has it (defects included): uint64 Coin = Z with
   [option] at checked operations (currency.AddCoin/MinusCoin/MultFloat64/Float64ToCoin/Int64) and
   explicit wrap at unchecked ones; float64 via Model.F64 (SpecFloat).  Signature validity, the
   challenge generator's random choice, the rewarded-validator subset and decimal parsing of
   free-storage amounts are explicit inputs recorded from the real run.  Hard-fork gates
   (electra, demeter) are configuration parameters. *)
From Coq Require Import ZArith List Bool Lia.
From ZC Require Import Model.F64.
Import ListNotations.
Open Scope Z_scope.

(* ---------- generic helpers ---------- *)

Definition ss_bind {A B} (o : option A) (f : A -> option B) : option B :=
  match o with Some x => f x | None => None end.
Notation "x <- e ;; f" := (ss_bind e (fun x => f)) (at level 61, e at next level, right associativity).
Notation "' p <- e ;; f" := (ss_bind e (fun p => f)) (at level 61, p pattern, e at next level, right associativity).
Definition ss_guard (b : bool) : option unit := if b then Some tt else None.

Definition ss_u64 : Z := 2 ^ 64.
Definition ss_wrap (z : Z) : Z := z mod 2 ^ 64.
Definition ss_add_coin (a b : Z) : option Z := if a + b <? 2 ^ 64 then Some (a + b) else None.
Definition ss_minus_coin (a b : Z) : option Z := if a <? b then None else Some (a - b).
Definition ss_int64_ok (c : Z) : bool := c <? 2 ^ 63.     (* Coin.Int64() succeeds *)

Definition ss_GB : Z := 1073741824.
Definition ss_CHUNK : Z := 65536.
Definition ss_size_gb (n : Z) : f64 := f64_div (f64_of_Z n) (f64_of_Z ss_GB).

Fixpoint ss_sum (l : list Z) : Z := match l with [] => 0 | x :: tl => x + ss_sum tl end.

Fixpoint ss_assoc (k : Z) (l : list (Z * Z)) : option Z :=
  match l with [] => None | (k', v) :: tl => if k =? k' then Some v else ss_assoc k tl end.
Fixpoint ss_assoc_set (k v : Z) (l : list (Z * Z)) : list (Z * Z) :=
  match l with
  | [] => [(k, v)]
  | (k', v') :: tl => if k =? k' then (k, v) :: tl else (k', v') :: ss_assoc_set k v tl
  end.
Definition ss_assoc0 (k : Z) (l : list (Z * Z)) : Z := match ss_assoc k l with Some v => v | None => 0 end.

Fixpoint ss_mem (x : Z) (l : list Z) : bool := match l with [] => false | y :: tl => (x =? y) || ss_mem x tl end.

(* ---------- configuration ---------- *)

Record ss_conf := {
  cf_tu_ns : Z;            (* conf.TimeUnit in ns (a whole number of seconds) *)
  cf_vr : f64;             (* validator_reward *)
  cf_slash : f64;          (* blobber_slash *)
  cf_cancel : f64;         (* cancellation_charge *)
  cf_kill_slash : f64;     (* stakepool.kill_slash *)
  cf_max_wp : Z; cf_min_wp : Z; cf_max_rp : Z;
  cf_min_alloc : Z;
  cf_min_blobber_cap : Z;
  cf_mccr : Z;             (* max_challenge_completion_rounds *)
  cf_min_lock_w : Z; cf_min_lock_r : Z;
  cf_nvr : Z;
  cf_free_data : Z; cf_free_parity : Z; cf_free_size : Z; cf_free_frac : f64;
  cf_free_max_wp : Z; cf_free_max_rp : Z;
  cf_max_indiv_free : Z; cf_max_total_free : Z;
  cf_owner : Z;
  cf_sc : Z;               (* id used for the contract's own wallet in st_bals *)
  cf_electra : option Z; cf_demeter : option Z;  (* activation rounds *)
  cf_ent : bool            (* enterprise world: electra is active from the first round, every blobber is registered
                              with is_enterprise and every allocation request carries is_enterprise and valid
                              blobber auth tickets (see ss_apply_w) *)
}.

Definition ss_active (f : option Z) (round : Z) : bool :=
  match f with Some r => r <=? round | None => false end.

Definition ss_tu_sec (c : ss_conf) : Z := cf_tu_ns c / 1000000000.

(* durationInTimeUnits / restDurationInTimeUnits *)
Definition ss_dur_tu (c : ss_conf) (dur : Z) : option f64 :=
  if dur <? 0 then None else Some (f64_div (f64_of_Z (dur * 1000000000)) (f64_of_Z (cf_tu_ns c))).

(* ---------- state ---------- *)

Record ss_balloc := {
  ba_blobber : Z; ba_size : Z; ba_wp : Z; ba_rp : Z;
  ba_cpiv : Z; ba_chreward : Z; ba_penalty : Z; ba_returned : Z; ba_readrew : Z;
  ba_used : Z; ba_lf : Z; ba_ls : Z;
  ba_tot : Z; ba_open : Z; ba_succ : Z; ba_fail : Z;
  ba_root : Z;                       (* current allocation root (0 = none) *)
  ba_lwm : option (Z * Z * Z)        (* last write marker: size, timestamp, previous root *)
}.

Record ss_oc := { oc_id : Z; oc_blobber : Z; oc_created : Z; oc_round : Z }.

Record ss_alloc := {
  al_id : Z; al_owner : Z; al_start : Z; al_exp : Z; al_size : Z; al_data : Z; al_parity : Z;
  al_wpool : Z; al_mtc : Z; al_mb : Z; al_mtv : Z;
  al_tpe : bool; al_ent : bool;
  al_used : Z; al_tot : Z; al_open : Z; al_succ : Z; al_fail : Z;
  al_rr : Z * Z; al_wr : Z * Z;      (* read / write price ranges *)
  al_cp : option Z;                  (* challenge pool node: balance *)
  al_bas : list ss_balloc;
  al_ocs : list ss_oc;               (* AllocationChallenges.OpenChallenges *)
  al_chnode : bool;                  (* the AllocationChallenges node exists *)
  al_tu : Z                          (* storageAllocation.TimeUnit in ns: conf.TimeUnit when the allocation was created *)
}.

Record ss_blobber := {
  bl_id : Z; bl_cap : Z; bl_allocd : Z; bl_saved : Z;
  bl_killed : bool; bl_shut : bool; bl_notavail : bool;
  bl_wp : Z; bl_rp : Z;
  bl_pools : list Z;                 (* delegate pool balances, in pool-id order *)
  bl_offers : Z; bl_spkilled : bool; bl_minstake : Z;
  bl_rewards : Z;                    (* sp.Reward + sum of delegate rewards (unpaid) *)
  bl_wallet : Z                      (* delegate wallet *)
}.

Record ss_validator := { vl_id : Z; vl_stake : Z; vl_npools : Z; vl_killed : bool; vl_minstake : Z; vl_rewards : Z }.

Record ss_assigner := { as_id : Z; as_indiv : Z; as_total : Z; as_redeemed : Z; as_nonces : list Z;
                        as_key : Z   (* the public key currently registered for this assigner (a key number) *) }.

Record ss_chal := { ch_id : Z; ch_alloc : Z; ch_blobber : Z; ch_created : Z; ch_round : Z }.

Record ss_state := {
  st_allocs : list ss_alloc;
  st_blobbers : list ss_blobber;
  st_validators : list ss_validator;
  st_rpools : list (Z * Z);
  st_bals : list (Z * Z);
  st_assigners : list ss_assigner;
  st_reads : list (Z * Z * Z * Z);   (* blobber, client, allocation, last counter *)
  st_chals : list ss_chal            (* storage challenge nodes *)
}.

(* record updates *)
Definition ba_with_cpiv (d : ss_balloc) (v : Z) : ss_balloc :=
  {| ba_blobber := ba_blobber d; ba_size := ba_size d; ba_wp := ba_wp d; ba_rp := ba_rp d; ba_cpiv := v;
     ba_chreward := ba_chreward d; ba_penalty := ba_penalty d; ba_returned := ba_returned d; ba_readrew := ba_readrew d;
     ba_used := ba_used d; ba_lf := ba_lf d; ba_ls := ba_ls d; ba_tot := ba_tot d; ba_open := ba_open d;
     ba_succ := ba_succ d; ba_fail := ba_fail d; ba_root := ba_root d; ba_lwm := ba_lwm d |}.
Definition ba_with_money (d : ss_balloc) (chrew pen ret rr : Z) : ss_balloc :=
  {| ba_blobber := ba_blobber d; ba_size := ba_size d; ba_wp := ba_wp d; ba_rp := ba_rp d; ba_cpiv := ba_cpiv d;
     ba_chreward := chrew; ba_penalty := pen; ba_returned := ret; ba_readrew := rr;
     ba_used := ba_used d; ba_lf := ba_lf d; ba_ls := ba_ls d; ba_tot := ba_tot d; ba_open := ba_open d;
     ba_succ := ba_succ d; ba_fail := ba_fail d; ba_root := ba_root d; ba_lwm := ba_lwm d |}.
Definition ba_with_stats (d : ss_balloc) (lf ls tot open succ fail : Z) : ss_balloc :=
  {| ba_blobber := ba_blobber d; ba_size := ba_size d; ba_wp := ba_wp d; ba_rp := ba_rp d; ba_cpiv := ba_cpiv d;
     ba_chreward := ba_chreward d; ba_penalty := ba_penalty d; ba_returned := ba_returned d; ba_readrew := ba_readrew d;
     ba_used := ba_used d; ba_lf := lf; ba_ls := ls; ba_tot := tot; ba_open := open;
     ba_succ := succ; ba_fail := fail; ba_root := ba_root d; ba_lwm := ba_lwm d |}.
Definition ba_with_data (d : ss_balloc) (used root : Z) (lwm : option (Z * Z * Z)) : ss_balloc :=
  {| ba_blobber := ba_blobber d; ba_size := ba_size d; ba_wp := ba_wp d; ba_rp := ba_rp d; ba_cpiv := ba_cpiv d;
     ba_chreward := ba_chreward d; ba_penalty := ba_penalty d; ba_returned := ba_returned d; ba_readrew := ba_readrew d;
     ba_used := used; ba_lf := ba_lf d; ba_ls := ba_ls d; ba_tot := ba_tot d; ba_open := ba_open d;
     ba_succ := ba_succ d; ba_fail := ba_fail d; ba_root := root; ba_lwm := lwm |}.
Definition ba_with_terms (d : ss_balloc) (size wp rp : Z) : ss_balloc :=
  {| ba_blobber := ba_blobber d; ba_size := size; ba_wp := wp; ba_rp := rp; ba_cpiv := ba_cpiv d;
     ba_chreward := ba_chreward d; ba_penalty := ba_penalty d; ba_returned := ba_returned d; ba_readrew := ba_readrew d;
     ba_used := ba_used d; ba_lf := ba_lf d; ba_ls := ba_ls d; ba_tot := ba_tot d; ba_open := ba_open d;
     ba_succ := ba_succ d; ba_fail := ba_fail d; ba_root := ba_root d; ba_lwm := ba_lwm d |}.

(* the money part of an allocation *)
Definition al_with_pools (a : ss_alloc) (wpool mtc mb mtv : Z) (cp : option Z) (bas : list ss_balloc) : ss_alloc :=
  {| al_id := al_id a; al_owner := al_owner a; al_start := al_start a; al_exp := al_exp a; al_size := al_size a;
     al_data := al_data a; al_parity := al_parity a; al_wpool := wpool; al_mtc := mtc; al_mb := mb; al_mtv := mtv;
     al_tpe := al_tpe a; al_ent := al_ent a; al_used := al_used a; al_tot := al_tot a; al_open := al_open a;
     al_succ := al_succ a; al_fail := al_fail a; al_rr := al_rr a; al_wr := al_wr a; al_cp := cp; al_bas := bas;
     al_ocs := al_ocs a; al_chnode := al_chnode a; al_tu := al_tu a |}.
Definition al_with_stats (a : ss_alloc) (used tot open succ fail : Z) (ocs : list ss_oc) (chnode : bool) : ss_alloc :=
  {| al_id := al_id a; al_owner := al_owner a; al_start := al_start a; al_exp := al_exp a; al_size := al_size a;
     al_data := al_data a; al_parity := al_parity a; al_wpool := al_wpool a; al_mtc := al_mtc a; al_mb := al_mb a; al_mtv := al_mtv a;
     al_tpe := al_tpe a; al_ent := al_ent a; al_used := used; al_tot := tot; al_open := open;
     al_succ := succ; al_fail := fail; al_rr := al_rr a; al_wr := al_wr a; al_cp := al_cp a; al_bas := al_bas a;
     al_ocs := ocs; al_chnode := chnode; al_tu := al_tu a |}.
Definition al_with_bas (a : ss_alloc) (bas : list ss_balloc) : ss_alloc :=
  al_with_pools a (al_wpool a) (al_mtc a) (al_mb a) (al_mtv a) (al_cp a) bas.
Definition al_with_head (a : ss_alloc) (owner exp size parity : Z) (tpe : bool) : ss_alloc :=
  {| al_id := al_id a; al_owner := owner; al_start := al_start a; al_exp := exp; al_size := size;
     al_data := al_data a; al_parity := parity; al_wpool := al_wpool a; al_mtc := al_mtc a; al_mb := al_mb a; al_mtv := al_mtv a;
     al_tpe := tpe; al_ent := al_ent a; al_used := al_used a; al_tot := al_tot a; al_open := al_open a;
     al_succ := al_succ a; al_fail := al_fail a; al_rr := al_rr a; al_wr := al_wr a; al_cp := al_cp a; al_bas := al_bas a;
     al_ocs := al_ocs a; al_chnode := al_chnode a; al_tu := al_tu a |}.

Definition bl_with_sp (b : ss_blobber) (pools : list Z) (offers : Z) (spkilled : bool) (rewards : Z) : ss_blobber :=
  {| bl_id := bl_id b; bl_cap := bl_cap b; bl_allocd := bl_allocd b; bl_saved := bl_saved b; bl_killed := bl_killed b;
     bl_shut := bl_shut b; bl_notavail := bl_notavail b; bl_wp := bl_wp b; bl_rp := bl_rp b; bl_pools := pools;
     bl_offers := offers; bl_spkilled := spkilled; bl_minstake := bl_minstake b; bl_rewards := rewards; bl_wallet := bl_wallet b |}.
Definition bl_with_node (b : ss_blobber) (cap allocd saved : Z) (killed shut notavail : bool) (wp rp : Z) : ss_blobber :=
  {| bl_id := bl_id b; bl_cap := cap; bl_allocd := allocd; bl_saved := saved; bl_killed := killed;
     bl_shut := shut; bl_notavail := notavail; bl_wp := wp; bl_rp := rp; bl_pools := bl_pools b;
     bl_offers := bl_offers b; bl_spkilled := bl_spkilled b; bl_minstake := bl_minstake b; bl_rewards := bl_rewards b;
     bl_wallet := bl_wallet b |}.
Definition bl_with_sizes (b : ss_blobber) (allocd saved : Z) : ss_blobber :=
  bl_with_node b (bl_cap b) allocd saved (bl_killed b) (bl_shut b) (bl_notavail b) (bl_wp b) (bl_rp b).
Definition bl_with_offers (b : ss_blobber) (offers : Z) : ss_blobber :=
  bl_with_sp b (bl_pools b) offers (bl_spkilled b) (bl_rewards b).

Definition st_with_allocs (s : ss_state) (l : list ss_alloc) : ss_state :=
  {| st_allocs := l; st_blobbers := st_blobbers s; st_validators := st_validators s; st_rpools := st_rpools s;
     st_bals := st_bals s; st_assigners := st_assigners s; st_reads := st_reads s; st_chals := st_chals s |}.
Definition st_with_blobbers (s : ss_state) (l : list ss_blobber) : ss_state :=
  {| st_allocs := st_allocs s; st_blobbers := l; st_validators := st_validators s; st_rpools := st_rpools s;
     st_bals := st_bals s; st_assigners := st_assigners s; st_reads := st_reads s; st_chals := st_chals s |}.
Definition st_with_validators (s : ss_state) (l : list ss_validator) : ss_state :=
  {| st_allocs := st_allocs s; st_blobbers := st_blobbers s; st_validators := l; st_rpools := st_rpools s;
     st_bals := st_bals s; st_assigners := st_assigners s; st_reads := st_reads s; st_chals := st_chals s |}.
Definition st_with_rpools (s : ss_state) (l : list (Z * Z)) : ss_state :=
  {| st_allocs := st_allocs s; st_blobbers := st_blobbers s; st_validators := st_validators s; st_rpools := l;
     st_bals := st_bals s; st_assigners := st_assigners s; st_reads := st_reads s; st_chals := st_chals s |}.
Definition st_with_bals (s : ss_state) (l : list (Z * Z)) : ss_state :=
  {| st_allocs := st_allocs s; st_blobbers := st_blobbers s; st_validators := st_validators s; st_rpools := st_rpools s;
     st_bals := l; st_assigners := st_assigners s; st_reads := st_reads s; st_chals := st_chals s |}.
Definition st_with_assigners (s : ss_state) (l : list ss_assigner) : ss_state :=
  {| st_allocs := st_allocs s; st_blobbers := st_blobbers s; st_validators := st_validators s; st_rpools := st_rpools s;
     st_bals := st_bals s; st_assigners := l; st_reads := st_reads s; st_chals := st_chals s |}.
Definition st_with_reads (s : ss_state) (l : list (Z * Z * Z * Z)) : ss_state :=
  {| st_allocs := st_allocs s; st_blobbers := st_blobbers s; st_validators := st_validators s; st_rpools := st_rpools s;
     st_bals := st_bals s; st_assigners := st_assigners s; st_reads := l; st_chals := st_chals s |}.
Definition st_with_chals (s : ss_state) (l : list ss_chal) : ss_state :=
  {| st_allocs := st_allocs s; st_blobbers := st_blobbers s; st_validators := st_validators s; st_rpools := st_rpools s;
     st_bals := st_bals s; st_assigners := st_assigners s; st_reads := st_reads s; st_chals := l |}.

(* ---------- lookups ---------- *)

Fixpoint ss_find_alloc (id : Z) (l : list ss_alloc) : option ss_alloc :=
  match l with [] => None | a :: tl => if al_id a =? id then Some a else ss_find_alloc id tl end.
Fixpoint ss_set_alloc (a : ss_alloc) (l : list ss_alloc) : list ss_alloc :=
  match l with [] => [] | x :: tl => if al_id x =? al_id a then a :: tl else x :: ss_set_alloc a tl end.
Fixpoint ss_del_alloc (id : Z) (l : list ss_alloc) : list ss_alloc :=
  match l with [] => [] | x :: tl => if al_id x =? id then tl else x :: ss_del_alloc id tl end.

Fixpoint ss_find_blobber (id : Z) (l : list ss_blobber) : option ss_blobber :=
  match l with [] => None | b :: tl => if bl_id b =? id then Some b else ss_find_blobber id tl end.
Fixpoint ss_set_blobber (b : ss_blobber) (l : list ss_blobber) : list ss_blobber :=
  match l with [] => [] | x :: tl => if bl_id x =? bl_id b then b :: tl else x :: ss_set_blobber b tl end.

Fixpoint ss_find_validator (id : Z) (l : list ss_validator) : option ss_validator :=
  match l with [] => None | v :: tl => if vl_id v =? id then Some v else ss_find_validator id tl end.
Fixpoint ss_set_validator (v : ss_validator) (l : list ss_validator) : list ss_validator :=
  match l with [] => [] | x :: tl => if vl_id x =? vl_id v then v :: tl else x :: ss_set_validator v tl end.

Fixpoint ss_find_ba (b : Z) (l : list ss_balloc) : option ss_balloc :=
  match l with [] => None | d :: tl => if ba_blobber d =? b then Some d else ss_find_ba b tl end.
Fixpoint ss_set_ba (d : ss_balloc) (l : list ss_balloc) : list ss_balloc :=
  match l with [] => [] | x :: tl => if ba_blobber x =? ba_blobber d then d :: tl else x :: ss_set_ba d tl end.

Fixpoint ss_find_chal (id : Z) (l : list ss_chal) : option ss_chal :=
  match l with [] => None | c :: tl => if ch_id c =? id then Some c else ss_find_chal id tl end.
Fixpoint ss_del_chal (id : Z) (l : list ss_chal) : list ss_chal :=
  match l with [] => [] | c :: tl => if ch_id c =? id then tl else c :: ss_del_chal id tl end.
Fixpoint ss_del_chals (ids : list Z) (l : list ss_chal) : list ss_chal :=
  match ids with [] => l | i :: tl => ss_del_chals tl (ss_del_chal i l) end.

Fixpoint ss_find_assigner (id : Z) (l : list ss_assigner) : option ss_assigner :=
  match l with [] => None | a :: tl => if as_id a =? id then Some a else ss_find_assigner id tl end.
Fixpoint ss_set_assigner (a : ss_assigner) (l : list ss_assigner) : list ss_assigner :=
  match l with
  | [] => [a]
  | x :: tl => if as_id x =? as_id a then a :: tl else x :: ss_set_assigner a tl
  end.

Definition ss_sum_cpiv (l : list ss_balloc) : Z := ss_sum (map ba_cpiv l).
Definition ss_stake (b : ss_blobber) : Z := ss_sum (bl_pools b).

(* ---------- balances and transfers ---------- *)

Definition ss_bal (s : ss_state) (id : Z) : Z := ss_assoc0 id (st_bals s).

(* one queued transfer applied the way chain.transferAmount does; fails when unpaid *)
Definition ss_transfer (s : ss_state) (from to amount : Z) : option ss_state :=
  if amount =? 0 then Some s
  else if ss_bal s from <? amount then None
  else
    let l1 := ss_assoc_set from (ss_bal s from - amount) (st_bals s) in
    let l2 := ss_assoc_set to (ss_assoc0 to l1 + amount) l1 in
    Some (st_with_bals s l2).

(* stakepool.CheckClientBalance + AddTransfer(client -> contract) *)
Definition ss_lock_from (c : ss_conf) (s : ss_state) (client amount : Z) : option ss_state :=
  if ss_bal s client <? amount then None else ss_transfer s client (cf_sc c) amount.

(* ---------- stake pools (aggregate view of stakepool.DistributeRewards / slash / Kill) ---------- *)

(* DistributeRewards: nothing is credited for value 0, a killed pool or stake below min_stake;
   otherwise exactly [v] is credited (service charge + delegates; the split is E-sp's subject);
   "no stake" error when delegate pools exist but hold nothing. *)
Definition ss_distribute (b : ss_blobber) (v : Z) : option ss_blobber :=
  if (v =? 0) || bl_spkilled b || (ss_stake b <? bl_minstake b) then Some b
  else match bl_pools b with
       | [] => Some (bl_with_sp b (bl_pools b) (bl_offers b) (bl_spkilled b) (bl_rewards b + v))
       | _ => if ss_stake b =? 0 then None
              else Some (bl_with_sp b (bl_pools b) (bl_offers b) (bl_spkilled b) (bl_rewards b + v))
       end.

Definition ss_distribute_v (x : ss_validator) (v : Z) : option ss_validator :=
  if (v =? 0) || vl_killed x || (vl_stake x <? vl_minstake x) then Some x
  else if (0 <? vl_npools x) && (vl_stake x =? 0) then None
  else Some {| vl_id := vl_id x; vl_stake := vl_stake x; vl_npools := vl_npools x; vl_killed := vl_killed x;
               vl_minstake := vl_minstake x; vl_rewards := vl_rewards x + v |}.

(* stakePool.slash: every delegate loses MultFloat64(balance, slash/staked), capped by its balance *)
Fixpoint ss_slash_pools (pools : list Z) (ratio : f64) : option (list Z * Z) :=
  match pools with
  | [] => Some ([], 0)
  | p :: tl =>
      d <- f64_mult_coin p ratio ;;
      let d' := if d =? 0 then 0 else Z.min d p in
      '(tl', m) <- ss_slash_pools tl ratio ;;
      m' <- ss_add_coin m d' ;;
      Some ((p - d') :: tl', m')
  end.

Definition ss_sp_slash (b : ss_blobber) (offer slash : Z) : option (ss_blobber * Z) :=
  if (offer =? 0) || (slash =? 0) then Some (b, 0)
  else
    let ratio := f64_div (f64_of_Z slash) (f64_of_Z (ss_stake b)) in
    '(pools, moved) <- ss_slash_pools (bl_pools b) ratio ;;
    Some (bl_with_sp b pools (bl_offers b) (bl_spkilled b) (bl_rewards b), moved).

(* StakePool.Kill / SlashFraction *)
Fixpoint ss_slash_fraction (pools : list Z) (reduction : f64) : option (list Z) :=
  match pools with
  | [] => Some []
  | p :: tl => p' <- f64_mult_coin p reduction ;; tl' <- ss_slash_fraction tl reduction ;; Some (p' :: tl')
  end.

Definition ss_sp_kill (b : ss_blobber) (ks : f64) : option ss_blobber :=
  if f64_eqb ks f64_zero then Some (bl_with_sp b (bl_pools b) (bl_offers b) true (bl_rewards b))
  else if f64_ltb ks f64_zero || f64_ltb (f64_of_Z 1) ks then None
  else
    let red := f64_sub (f64_of_Z 1) ks in
    pools <- ss_slash_fraction (bl_pools b) red ;;
    Some (bl_with_sp b pools (bl_offers b) true (bl_rewards b)).

Definition ss_add_offer (b : ss_blobber) (v : Z) : option ss_blobber :=
  o <- ss_add_coin (bl_offers b) v ;; Some (bl_with_offers b o).
Definition ss_reduce_offer (b : ss_blobber) (v : Z) : option ss_blobber :=
  o <- ss_minus_coin (bl_offers b) v ;; Some (bl_with_offers b o).

(* stakePool.stakedCapacity / unallocatedCapacity *)
Definition ss_staked_capacity (b : ss_blobber) (wp : Z) : Z :=
  f64_to_i64 (f64_mul (f64_div (f64_of_Z (ss_stake b)) (f64_of_Z wp)) (f64_of_Z ss_GB)).
Definition ss_unalloc_capacity (wp total offers : Z) : option Z :=
  if total <=? offers then None
  else Some (f64_to_i64 (f64_mul (f64_div (f64_of_Z (total - offers)) (f64_of_Z wp)) (f64_of_Z ss_GB))).

(* ---------- blobber allocation arithmetic ---------- *)

Definition ss_offer (d : ss_balloc) : Z := f64_to_u64 (f64_mul (ss_size_gb (ba_size d)) (f64_of_Z (ba_wp d))).

(* bSize: int64(math.Ceil(float64(size) / float64(dataShards))) *)
Definition ss_bsize (size data : Z) : Z :=
  match f64_ceil (f64_div (f64_of_Z size) (f64_of_Z data)) with
  | Some z => if (z <? 2 ^ 63) && (- 2 ^ 63 <=? z) then z else - 2 ^ 63
  | None => - 2 ^ 63
  end.

Definition ss_rest_tu (c : ss_conf) (a : ss_alloc) (now : Z) : option f64 :=
  if al_exp a <? now then None else ss_dur_tu c (al_exp a - now).

(* storageAllocationBase.cost / costForRDTU *)
Fixpoint ss_cost (l : list ss_balloc) : option Z :=
  match l with
  | [] => Some 0
  | d :: tl =>
      (* Go folds left: cost = ((0 + c1) + c2) ...; addition is commutative, overflow depends on the total only *)
      c <- f64_mult_coin (ba_wp d) (ss_size_gb (ba_size d)) ;;
      r <- ss_cost tl ;; ss_add_coin c r
  end.
Fixpoint ss_cost_rdtu (l : list ss_balloc) (rdtu : f64) : option Z :=
  match l with
  | [] => Some 0
  | d :: tl =>
      c <- f64_mult_coin (ba_wp d) (ss_size_gb (ba_size d)) ;;
      c' <- f64_mult_coin c rdtu ;;
      r <- ss_cost_rdtu tl rdtu ;; ss_add_coin c' r
  end.

(* BlobberAllocation.challenge(dtu, rdtu): move = Coin((dtu/rdtu) * float64(value)); value -= move *)
Definition ss_challenge (d : ss_balloc) (dtu rdtu : f64) : option (ss_balloc * Z) :=
  let move := f64_to_u64 (f64_mul (f64_div dtu rdtu) (f64_of_Z (ba_cpiv d))) in
  v <- ss_minus_coin (ba_cpiv d) move ;;
  Some (ba_with_cpiv d v, move).

(* moveToChallengePool / moveFromChallengePool on (write pool, challenge pool balance) *)
Definition ss_move_to_cp (wpool cp v : Z) : option (Z * Z) :=
  if wpool <? v then None else
  cp' <- ss_add_coin cp v ;; w' <- ss_minus_coin wpool v ;; Some (w', cp').
Definition ss_move_from_cp (wpool cp v : Z) : option (Z * Z) :=
  if cp <? v then None else
  cp' <- ss_minus_coin cp v ;; w' <- ss_add_coin wpool v ;; Some (w', cp').

(* ---------- validators reward (challengePool.moveToValidators) ---------- *)

Fixpoint ss_pay_validators (vs : list ss_validator) (ids : list Z) (one : Z) : option (list ss_validator) :=
  match ids with
  | [] => Some vs
  | i :: tl => x <- ss_find_validator i vs ;; x' <- ss_distribute_v x one ;;
               ss_pay_validators (ss_set_validator x' vs) tl one
  end.

Definition ss_to_validators (vs : list ss_validator) (ids : list Z) (cp reward : Z) : option (list ss_validator * Z) :=
  (* the validators' stake pools are loaded before the len/zero test *)
  _ <- ss_pay_validators vs ids 0 ;;
  if (Z.of_nat (length ids) =? 0) || (reward =? 0) then Some (vs, cp)
  else if cp <? reward then None
  else
    let n := Z.of_nat (length ids) in
    vs1 <- ss_pay_validators vs ids (reward / n) ;;
    vs2 <- ss_pay_validators vs1 (firstn (Z.to_nat (reward mod n)) ids) 1 ;;
    Some (vs2, cp - reward).

Definition ss_i64 (z : Z) : Z := (z + 2 ^ 63) mod 2 ^ 64 - 2 ^ 63.     (* int64 wrap-around *)

Fixpoint ss_nodup (l : list Z) : bool :=
  match l with [] => true | x :: tl => negb (ss_mem x tl) && ss_nodup tl end.

Definition ss_in_range (r : Z * Z) (p : Z) : bool := (fst r <=? p) && (p <=? snd r).

(* storageAllocationBase.isActive (health-check downtime is not modelled: with
   health_check_period cast from nanoseconds it never triggers for the times generated) *)
Definition ss_is_active (b : ss_blobber) (rr wr : Z * Z) (bs : Z) : bool :=
  negb (bl_killed b) && negb (bl_shut b) && negb (bl_notavail b) &&
  ss_in_range rr (bl_rp b) && ss_in_range wr (bl_wp b) &&
  negb (ss_i64 (bl_cap b - bl_allocd b) <? bs) &&
  negb (ss_i64 (ss_staked_capacity b (bl_wp b) - bl_allocd b) <? bs) &&
  match ss_unalloc_capacity (bl_wp b) (ss_stake b) (bl_offers b) with
  | None => false
  | Some free => negb ((0 <? bl_wp b) && (free <? bs))
  end.

(* newBlobberAllocation + setCappedPrices *)
Definition ss_new_ba (c : ss_conf) (b : ss_blobber) (size now : Z) : ss_balloc :=
  {| ba_blobber := bl_id b; ba_size := size; ba_wp := Z.min (bl_wp b) (cf_max_wp c); ba_rp := Z.min (bl_rp b) (cf_max_rp c);
     ba_cpiv := 0; ba_chreward := 0; ba_penalty := 0; ba_returned := 0; ba_readrew := 0;
     ba_used := 0; ba_lf := now; ba_ls := now; ba_tot := 0; ba_open := 0; ba_succ := 0; ba_fail := 0;
     ba_root := 0; ba_lwm := None |}.

Fixpoint ss_filter_active (bs : list ss_blobber) (rr wr : Z * Z) (size : Z) : list ss_blobber :=
  match bs with
  | [] => []
  | b :: tl => if ss_is_active b rr wr size then b :: ss_filter_active tl rr wr size else ss_filter_active tl rr wr size
  end.

Fixpoint ss_find_blobbers (ids : list Z) (l : list ss_blobber) : option (list ss_blobber) :=
  match ids with
  | [] => Some []
  | i :: tl => b <- ss_find_blobber i l ;; r <- ss_find_blobbers tl l ;; Some (b :: r)
  end.

(* every chosen blobber: Allocated += bSize, stake pool offer added *)
Fixpoint ss_assign (c : ss_conf) (chosen : list ss_blobber) (all : list ss_blobber) (bsz now : Z)
  : option (list ss_balloc * list ss_blobber) :=
  match chosen with
  | [] => Some ([], all)
  | b :: tl =>
      let d := ss_new_ba c b bsz now in
      b' <- ss_add_offer (bl_with_sizes b (bl_allocd b + bsz) (bl_saved b)) (ss_offer d) ;;
      '(ds, all') <- ss_assign c tl (ss_set_blobber b' all) bsz now ;;
      Some (d :: ds, all')
  end.

(* newAllocationRequestInternal; [payer] funds the write pool with [value] (the sender, or
   conf.OwnerId for a free allocation); [txn_value] is the transaction's own value *)
Definition ss_new_alloc (c : ss_conf) (s : ss_state) (now id owner payer value txn_value data parity size : Z)
           (blobbers : list Z) (rr wr : Z * Z) (tpe : bool) : option ss_state :=
  _ <- ss_guard ((0 <? data) && (0 <? parity) && (data + parity <=? Z.of_nat (length blobbers)) &&
                 (fst rr <=? snd rr) && (fst wr <=? snd wr) && (cf_min_alloc c <=? size) && ss_nodup blobbers) ;;
  bl <- ss_find_blobbers blobbers (st_blobbers s) ;;
  let bsz := ss_bsize size data in
  let act := ss_filter_active bl rr wr bsz in
  _ <- ss_guard (data + parity <=? Z.of_nat (length act)) ;;
  '(bas, all) <- ss_assign c (firstn (Z.to_nat (data + parity)) act) (st_blobbers s) bsz now ;;
  s1 <- (if value =? 0 then Some s
         else _ <- ss_guard (ss_int64_ok txn_value) ;; ss_lock_from c s payer value) ;;
  cost <- ss_cost bas ;;
  _ <- ss_guard (cost <=? value) ;;
  _ <- ss_guard (match ss_find_alloc id (st_allocs s) with None => true | Some _ => false end) ;;
  let a := {| al_id := id; al_owner := owner; al_start := now; al_exp := now + ss_tu_sec c; al_size := size;
              al_data := data; al_parity := parity; al_wpool := value; al_mtc := 0; al_mb := 0; al_mtv := 0;
              al_tpe := tpe; al_ent := false; al_used := 0; al_tot := 0; al_open := 0; al_succ := 0; al_fail := 0;
              al_rr := rr; al_wr := wr; al_cp := Some 0; al_bas := bas; al_ocs := []; al_chnode := false; al_tu := cf_tu_ns c |} in
  Some (st_with_allocs (st_with_blobbers s1 all) (st_allocs s1 ++ [a])).

(* writePoolLock *)
Definition ss_wp_lock (c : ss_conf) (s : ss_state) (sender alloc value : Z) : option ss_state :=
  _ <- ss_guard (negb (alloc =? -1)) ;;
  _ <- ss_guard (cf_min_lock_w c <=? value) ;;
  s1 <- ss_lock_from c s sender value ;;
  a <- ss_find_alloc alloc (st_allocs s1) ;;
  w <- ss_add_coin (al_wpool a) value ;;
  _ <- ss_guard (ss_int64_ok value) ;;
  Some (st_with_allocs s1 (ss_set_alloc (al_with_pools a w (al_mtc a) (al_mb a) (al_mtv a) (al_cp a) (al_bas a)) (st_allocs s1))).

(* RefreshAllocationUsedSize: (sum used * data) / (data + parity), Go integer division *)
Definition ss_refresh_used (a : ss_alloc) (bas : list ss_balloc) : Z :=
  Z.quot (ss_sum (map ba_used bas) * al_data a) (al_data a + al_parity a).

(* commitMoveTokens: returns write pool, moved_to_challenge, moved_back, challenge pool, blobber allocation *)
Definition ss_commit_move (c : ss_conf) (a : ss_alloc) (d : ss_balloc) (size ts : Z)
  : option (Z * Z * Z * option Z * ss_balloc) :=
  if size =? 0 then Some (al_wpool a, al_mtc a, al_mb a, al_cp a, d)
  else
    cp <- al_cp a ;;
    rdtu <- ss_rest_tu c a ts ;;
    if 0 <? size then
      let sz := Z.max size ss_CHUNK in
      (* BlobberAllocation.upload *)
      let m0 := f64_to_u64 (f64_mul (f64_mul (ss_size_gb sz) (f64_of_Z (ba_wp d))) rdtu) in
      let move := Z.min m0 (al_wpool a) in
      v <- ss_add_coin (ba_cpiv d) move ;;
      '(w, cp') <- ss_move_to_cp (al_wpool a) cp move ;;
      mtc <- ss_add_coin (al_mtc a) move ;;
      Some (w, mtc, al_mb a, Some cp', ba_with_cpiv d v)
    else
      let sz := Z.min size (- ss_CHUNK) in
      (* BlobberAllocation.delete *)
      let m0 := f64_to_u64 (f64_mul (f64_mul (ss_size_gb (- sz)) (f64_of_Z (ba_wp d))) rdtu) in
      let move := Z.min m0 (ba_cpiv d) in
      v <- ss_minus_coin (ba_cpiv d) move ;;
      '(w, cp') <- ss_move_from_cp (al_wpool a) cp move ;;
      mb <- ss_add_coin (al_mb a) move ;;
      ret <- ss_add_coin (ba_returned d) move ;;
      let d1 := ba_with_cpiv d v in
      Some (w, al_mtc a, mb, Some cp', ba_with_money d1 (ba_chreward d1) (ba_penalty d1) ret (ba_readrew d1)).

(* commitBlobberConnection with a v1 write marker sent by the blobber it names *)
Definition ss_commit (c : ss_conf) (s : ss_state) (sender alloc client root prev size ts : Z) (sig_ok : bool)
  : option ss_state :=
  _ <- ss_guard (negb (ts =? 0)) ;;
  a <- ss_find_alloc alloc (st_allocs s) ;;
  _ <- ss_guard (negb (al_ent a)) ;;
  _ <- ss_guard (al_owner a =? client) ;;
  d <- ss_find_ba sender (al_bas a) ;;
  _ <- ss_guard sig_ok ;;
  let repeat := (ba_root d =? root) &&
                match ba_lwm d with Some (_, _, p) => p =? prev | None => false end in
  if repeat then Some s
  else
    let rollback := (root =? prev) && (size =? 0) &&
                    match ba_lwm d with Some (_, lts, lp) => (ts =? lts) && (root =? lp) | None => false end in
    change <- (if rollback then match ba_lwm d with Some (ls, _, _) => Some (size - ls) | None => None end
               else if ba_root d =? prev then Some size else None) ;;
    b <- ss_find_blobber sender (st_blobbers s) ;;
    _ <- ss_guard (negb (bl_killed b) && negb (bl_shut b)) ;;
    let d0 := if ba_used d =? 0 then ba_with_stats d ts ts (ba_tot d) (ba_open d) (ba_succ d) (ba_fail d) else d in
    _ <- ss_guard (ba_used d0 + change <=? ba_size d0) ;;
    let d1 := ba_with_data d0 (ba_used d0 + change) root (Some (size, ts, prev)) in
    let saved := bl_saved b + change in
    _ <- ss_guard ((al_start a <=? ts) && (ts <=? al_exp a)) ;;
    '(w, mtc, mb, cp, d2) <- ss_commit_move c a d1 change ts ;;
    _ <- ss_guard (0 <=? saved) ;;
    let bas := ss_set_ba d2 (al_bas a) in
    let a1 := al_with_pools a w mtc mb (al_mtv a) cp bas in
    let a2 := al_with_stats a1 (ss_refresh_used a1 bas) (al_tot a1) (al_open a1) (al_succ a1) (al_fail a1) (al_ocs a1) (al_chnode a1) in
    Some (st_with_allocs (st_with_blobbers s (ss_set_blobber (bl_with_sizes b (bl_allocd b) saved) (st_blobbers s)))
                         (ss_set_alloc a2 (st_allocs s))).

(* ---------- challenges ---------- *)

(* removeExpiredChallenges / removeOldChallenges share this walk: challenges selected by [sel]
   are dropped from the open list, counted as failed and advance LatestFinalizedChallCreatedAt *)
Fixpoint ss_drop_ocs (sel : ss_oc -> bool) (ocs : list ss_oc) (a : ss_alloc) : ss_alloc * list ss_oc * list Z :=
  match ocs with
  | [] => (a, [], [])
  | oc :: tl =>
      if sel oc then
        let a1 := match ss_find_ba (oc_blobber oc) (al_bas a) with
                  | Some d =>
                      let d' := ba_with_stats d (Z.max (ba_lf d) (oc_created oc)) (ba_ls d) (ba_tot d) (ba_open d - 1) (ba_succ d) (ba_fail d + 1) in
                      al_with_stats (al_with_bas a (ss_set_ba d' (al_bas a))) (al_used a) (al_tot a) (al_open a - 1) (al_succ a) (al_fail a + 1) (al_ocs a) (al_chnode a)
                  | None => a
                  end in
        let '(a2, keep, gone) := ss_drop_ocs sel tl a1 in (a2, keep, oc_id oc :: gone)
      else
        let '(a2, keep, gone) := ss_drop_ocs sel tl a in (a2, oc :: keep, gone)
  end.

(* generate_challenge when the generator picked (alloc, blobber): addChallenge *)
Definition ss_gen_chal (c : ss_conf) (s : ss_state) (now round alloc blobber ch : Z) : option ss_state :=
  a <- ss_find_alloc alloc (st_allocs s) ;;
  _ <- ss_find_ba blobber (al_bas a) ;;
  let '(a1, keep, gone) := ss_drop_ocs (fun oc => oc_round oc + cf_mccr c <? round) (al_ocs a) a in
  _ <- ss_guard (negb (ss_mem ch (map oc_id keep))) ;;
  d <- ss_find_ba blobber (al_bas a1) ;;
  let d' := ba_with_stats d (ba_lf d) (ba_ls d) (ba_tot d + 1) (ba_open d + 1) (ba_succ d) (ba_fail d) in
  let oc := {| oc_id := ch; oc_blobber := blobber; oc_created := now; oc_round := round |} in
  let a2 := al_with_stats (al_with_bas a1 (ss_set_ba d' (al_bas a1))) (al_used a1) (al_tot a1 + 1) (al_open a1 + 1)
                          (al_succ a1) (al_fail a1) (keep ++ [oc]) true in
  let chn := {| ch_id := ch; ch_alloc := alloc; ch_blobber := blobber; ch_created := now; ch_round := round |} in
  Some (st_with_chals (st_with_allocs s (ss_set_alloc a2 (st_allocs s))) (ss_del_chals gone (st_chals s) ++ [chn])).

Fixpoint ss_del_oc (id : Z) (l : list ss_oc) : list ss_oc :=
  match l with [] => [] | x :: tl => if oc_id x =? id then tl else x :: ss_del_oc id tl end.

(* blobberPenalty: the part of the blobber's value between the last successful and the last
   finalized challenge goes back to the write pool (validators take their share), stake is slashed *)
Definition ss_penalty (c : ss_conf) (s : ss_state) (a : ss_alloc) (blobber ls lf : Z) (vals : list Z)
  : option (ss_state * ss_alloc) :=
  if lf <=? ls then Some (s, a)
  else
    d <- ss_find_ba blobber (al_bas a) ;;
    cp <- al_cp a ;;
    rdtu <- ss_rest_tu c a ls ;;
    dtu <- ss_dur_tu c (lf - ls) ;;
    '(d1, move0) <- ss_challenge d dtu rdtu ;;
    vr <- f64_mult_coin move0 (cf_vr c) ;;
    move <- ss_minus_coin move0 vr ;;
    '(vs, cp1) <- ss_to_validators (st_validators s) vals cp vr ;;
    mtv <- ss_add_coin (al_mtv a) vr ;;
    '(w, cp2) <- ss_move_from_cp (al_wpool a) cp1 move ;;
    mb <- ss_add_coin (al_mb a) move ;;
    ret <- ss_add_coin (ba_returned d1) move ;;
    sl <- f64_mult_coin move (cf_slash c) ;;
    let s1 := st_with_validators s vs in
    '(s2, pen) <- (if f64_ltb f64_zero (cf_slash c) && (0 <? move) && (0 <? sl) then
                     b <- ss_find_blobber blobber (st_blobbers s1) ;;
                     '(b', dp) <- ss_sp_slash b (ss_offer d1) sl ;;
                     p <- ss_add_coin (ba_penalty d1) dp ;;
                     Some (st_with_blobbers s1 (ss_set_blobber b' (st_blobbers s1)), p)
                   else Some (s1, ba_penalty d1)) ;;
    let d2 := ba_with_money d1 (ba_chreward d1) pen ret (ba_readrew d1) in
    Some (s2, al_with_pools a w (al_mtc a) mb mtv (Some cp2) (ss_set_ba d2 (al_bas a))).

(* blobberReward *)
Definition ss_reward (c : ss_conf) (s : ss_state) (a : ss_alloc) (blobber lf : Z) (vals : list Z)
  : option (ss_state * ss_alloc) :=
  d <- ss_find_ba blobber (al_bas a) ;;
  let done := ba_lf d in
  _ <- ss_guard ((done <=? al_exp a) && (lf <=? done)) ;;
  cp <- al_cp a ;;
  rdtu <- ss_rest_tu c a lf ;;
  dtu <- ss_dur_tu c (done - lf) ;;
  '(d1, move) <- ss_challenge d dtu rdtu ;;
  vr <- f64_mult_coin move (cf_vr c) ;;
  br <- ss_minus_coin move vr ;;
  b <- ss_find_blobber blobber (st_blobbers s) ;;
  (* challengePool.moveToBlobbers *)
  '(b', cp1) <- (if br =? 0 then Some (b, cp)
                 else if cp <? br then None
                 else b1 <- ss_distribute b br ;; Some (b1, cp - br)) ;;
  chrew <- ss_add_coin (ba_chreward d1) br ;;
  '(vs, cp2) <- ss_to_validators (st_validators s) vals cp1 vr ;;
  mtv <- ss_add_coin (al_mtv a) vr ;;
  let d2 := ba_with_money d1 chrew (ba_penalty d1) (ba_returned d1) (ba_readrew d1) in
  Some (st_with_validators (st_with_blobbers s (ss_set_blobber b' (st_blobbers s))) vs,
        al_with_pools a (al_wpool a) (al_mtc a) (al_mb a) mtv (Some cp2) (ss_set_ba d2 (al_bas a))).

(* verifyChallenge *)
Definition ss_chal_resp (c : ss_conf) (s : ss_state) (now round sender ch : Z) (tickets_ok pass : bool) (vals : list Z)
  : option ss_state :=
  cn <- ss_find_chal ch (st_chals s) ;;
  _ <- ss_guard (round <? ch_round cn + cf_mccr c) ;;
  _ <- ss_guard (ch_blobber cn =? sender) ;;
  _ <- ss_guard tickets_ok ;;
  a <- ss_find_alloc (ch_alloc cn) (st_allocs s) ;;
  _ <- ss_guard (al_chnode a) ;;
  _ <- ss_guard (now <=? al_exp a) ;;
  d <- ss_find_ba sender (al_bas a) ;;
  _ <- ss_guard (ss_mem ch (map oc_id (al_ocs a))) ;;
  let lf0 := ba_lf d in
  let ls0 := ba_ls d in
  _ <- ss_guard (lf0 <=? ch_created cn) ;;
  if negb pass then
    (* processChallengeFailed: the challenge node is left in the state *)
    let d' := ba_with_stats d (ch_created cn) (ba_ls d) (ba_tot d) (ba_open d - 1) (ba_succ d) (ba_fail d + 1) in
    let a' := al_with_stats (al_with_bas a (ss_set_ba d' (al_bas a))) (al_used a) (al_tot a) (al_open a - 1) (al_succ a)
                            (al_fail a + 1) (ss_del_oc ch (al_ocs a)) (al_chnode a) in
    Some (st_with_allocs s (ss_set_alloc a' (st_allocs s)))
  else
    (* processChallengePassed: removeOldChallenges *)
    let '(a1, keep, gone) := ss_drop_ocs (fun oc => (oc_round oc <? ch_round cn) && (oc_blobber oc =? sender)) (al_ocs a) a in
    d1 <- ss_find_ba sender (al_bas a1) ;;
    let lf1 := ba_lf d1 in
    _ <- ss_guard (ss_mem ch (map oc_id keep)) ;;
    let d2 := ba_with_stats d1 (ch_created cn) (ch_created cn) (ba_tot d1) (ba_open d1 - 1) (ba_succ d1 + 1) (ba_fail d1) in
    let a2 := al_with_stats (al_with_bas a1 (ss_set_ba d2 (al_bas a1))) (al_used a1) (al_tot a1) (al_open a1 - 1) (al_succ a1 + 1)
                            (al_fail a1) (ss_del_oc ch keep) (al_chnode a1) in
    '(s3, a3) <- (if ls0 <? lf1 then ss_penalty c s a2 sender ls0 lf1 vals else Some (s, a2)) ;;
    '(s4, a4) <- ss_reward c s3 a3 sender lf1 vals ;;
    Some (st_with_chals (st_with_allocs s4 (ss_set_alloc a4 (st_allocs s4))) (ss_del_chals (ch :: gone) (st_chals s4))).

(* ---------- closing an allocation / removing a blobber ---------- *)

Definition ss_one : f64 := f64_of_Z 1.

Definition ss_pass_rate (d : ss_balloc) : f64 :=
  if ba_tot d =? 0 then ss_one else f64_div (f64_of_Z (ba_succ d)) (f64_of_Z (ba_tot d)).

(* open challenges of [sel]ected blobbers are settled: expired ones count as failed, the others as passed *)
Fixpoint ss_settle_ocs (c : ss_conf) (round : Z) (sel : ss_oc -> bool) (ocs : list ss_oc) (a : ss_alloc)
  : ss_alloc * list ss_oc * list Z :=
  match ocs with
  | [] => (a, [], [])
  | oc :: tl =>
      match (if sel oc then ss_find_ba (oc_blobber oc) (al_bas a) else None) with
      | Some d =>
          let exp := oc_round oc + cf_mccr c <? round in
          let d' := ba_with_stats d (ba_lf d) (ba_ls d) (ba_tot d) (ba_open d - 1)
                                  (if exp then ba_succ d else ba_succ d + 1) (if exp then ba_fail d + 1 else ba_fail d) in
          let a1 := al_with_stats (al_with_bas a (ss_set_ba d' (al_bas a))) (al_used a) (al_tot a) (al_open a - 1)
                                  (if exp then al_succ a else al_succ a + 1) (if exp then al_fail a + 1 else al_fail a)
                                  (al_ocs a) (al_chnode a) in
          let '(a2, keep, gone) := ss_settle_ocs c round sel tl a1 in (a2, keep, oc_id oc :: gone)
      | None =>
          let '(a2, keep, gone) := ss_settle_ocs c round sel tl a in (a2, oc :: keep, gone)
      end
  end.

(* leftover open count of a blobber allocation is booked as passed *)
Definition ss_flush_open (d : ss_balloc) : ss_balloc :=
  if 0 <? ba_open d then ba_with_stats d (ba_lf d) (ba_ls d) (ba_tot d) 0 (ba_succ d + ba_open d) (ba_fail d) else d.

(* settleOpenChallengesAndGetPassRates *)
Definition ss_settle_all (c : ss_conf) (round : Z) (a : ss_alloc) : ss_alloc * list f64 * list Z :=
  if negb (al_chnode a) then (a, map (fun _ => ss_one) (al_bas a), [])
  else
    let '(a1, _, gone) := ss_settle_ocs c round (fun _ => true) (al_ocs a) a in
    let extra := ss_sum (map (fun d => Z.max 0 (ba_open d)) (al_bas a1)) in
    let bas := map ss_flush_open (al_bas a1) in
    let a2 := al_with_stats (al_with_bas a1 bas) (al_used a1) (al_tot a1) 0 (al_succ a1 + extra) (al_fail a1) [] true in
    (a2, map ss_pass_rate bas, gone).

(* BlobberAllocation.payChallengePoolPassPayments: challengePenaltyOnFinalization then
   challengeRewardOnFinalization; returns stake pool, blobber allocation, reward paid, penalty moved *)
Definition ss_fin_pay (c : ss_conf) (a : ss_alloc) (cpbal : Z) (b : ss_blobber) (d : ss_balloc) (rate : f64) (now : Z)
  : option (ss_blobber * ss_balloc * Z * Z) :=
  if ba_lf d =? 0 then Some (b, d, 0, 0)
  else
    '(b1, d1, pmove) <-
      (if ba_lf d <=? ba_ls d then Some (b, d, 0)
       else
         rdtu <- ss_rest_tu c a (ba_ls d) ;;
         dtu0 <- ss_dur_tu c (ba_lf d - ba_ls d) ;;
         let dtu := if f64_ltb rdtu dtu0 then rdtu else dtu0 in
         '(dd, move) <- ss_challenge d dtu rdtu ;;
         ret <- ss_add_coin (ba_returned dd) move ;;
         sl <- f64_mult_coin move (cf_slash c) ;;
         if f64_ltb f64_zero (cf_slash c) && (0 <? move) && (0 <? sl) then
           '(b', dp) <- ss_sp_slash b (ss_offer dd) sl ;;
           p <- ss_add_coin (ba_penalty dd) dp ;;
           Some (b', ba_with_money dd (ba_chreward dd) p ret (ba_readrew dd), move)
         else Some (b, ba_with_money dd (ba_chreward dd) (ba_penalty dd) ret (ba_readrew dd), move)) ;;
    if now <=? ba_lf d1 then Some (b1, d1, 0, pmove)
    else
      rdtu <- ss_rest_tu c a (ba_lf d1) ;;
      dtu0 <- ss_dur_tu c (now - ba_lf d1) ;;
      let dtu := if f64_ltb rdtu dtu0 then rdtu else dtu0 in
      let move := f64_to_u64 (f64_mul (f64_div dtu rdtu) (f64_of_Z (ba_cpiv d1))) in
      if (0 <? al_used a) && (0 <? cpbal) && f64_ltb f64_zero rate then
        reward <- f64_mult_coin move rate ;;
        cv <- ss_minus_coin (ba_cpiv d1) reward ;;
        b2 <- ss_distribute b1 reward ;;
        Some (b2, ba_with_cpiv d1 cv, reward, pmove)
      else Some (b1, d1, 0, pmove).

(* cancellation charge still owed: (charge - (moved_to_challenge - moved_back)) capped by the write pool *)
Definition ss_cancel_due (c : ss_conf) (a : ss_alloc) : option (option Z) :=
  cost <- ss_cost (al_bas a) ;;
  cc <- f64_mult_coin cost (cf_cancel c) ;;
  let used := ss_wrap (al_mtc a - al_mb a) in
  if used <? cc then Some (Some (Z.min (cc - used) (al_wpool a))) else Some None.

Fixpoint ss_total_wp (l : list ss_balloc) : option Z :=
  match l with [] => Some 0 | d :: tl => r <- ss_total_wp tl ;; ss_add_coin (ba_wp d) r end.

(* BlobberAllocation.payCancellationCharge *)
Definition ss_cancel_share (cc total : Z) (d : ss_balloc) (rate : f64) : Z :=
  let w := f64_div (f64_of_Z (ba_wp d)) (f64_of_Z total) in
  match f64_float_to_coin (f64_mul (f64_mul (f64_of_Z cc) w) rate) with Some r => r | None => 0 end.

(* finishAllocation, per blobber in allocation order: offer released, pass payments *)
Fixpoint ss_fin_loop (c : ss_conf) (a : ss_alloc) (cpbal now : Z) (bas : list ss_balloc) (rates : list f64)
         (bls : list ss_blobber) : option (list ss_balloc * list ss_blobber * Z) :=
  match bas, rates with
  | [], _ => Some ([], bls, 0)
  | d :: tl, r :: rtl =>
      b <- ss_find_blobber (ba_blobber d) bls ;;
      b0 <- ss_reduce_offer b (ss_offer d) ;;
      '(b1, d1, reward, _) <- ss_fin_pay c a cpbal b0 d r now ;;
      '(ds, bls', sum) <- ss_fin_loop c a cpbal now tl rtl (ss_set_blobber b1 bls) ;;
      sum' <- ss_add_coin reward sum ;;
      Some (d1 :: ds, bls', sum')
  | _ :: _, [] => None
  end.

Fixpoint ss_cancel_loop (cc total : Z) (bas : list ss_balloc) (rates : list f64) (bls : list ss_blobber)
  : option (list ss_blobber * Z) :=
  match bas, rates with
  | [], _ => Some (bls, 0)
  | d :: tl, r :: rtl =>
      b <- ss_find_blobber (ba_blobber d) bls ;;
      let share := ss_cancel_share cc total d r in
      b1 <- ss_distribute b share ;;
      '(bls', sum) <- ss_cancel_loop cc total tl rtl (ss_set_blobber b1 bls) ;;
      sum' <- ss_add_coin share sum ;;
      Some (bls', sum')
  | _ :: _, [] => None
  end.

Fixpoint ss_release_loop (bas : list ss_balloc) (bls : list ss_blobber) : option (list ss_blobber) :=
  match bas with
  | [] => Some bls
  | d :: tl =>
      b <- ss_find_blobber (ba_blobber d) bls ;;
      let saved := bl_saved b - ba_used d in
      _ <- ss_guard (0 <=? saved) ;;
      ss_release_loop tl (ss_set_blobber (bl_with_sizes b (bl_allocd b - ba_size d) saved) bls)
  end.

(* finalize_allocation / cancel_allocation after their authorisation checks *)
Definition ss_close (c : ss_conf) (s : ss_state) (now round : Z) (a : ss_alloc) : option ss_state :=
  let '(a1, rates, gone) := ss_settle_all c round a in
  cp <- al_cp a1 ;;
  '(bas, bls1, paid) <- ss_fin_loop c a1 cp now (al_bas a1) rates (st_blobbers s) ;;
  cp1 <- ss_minus_coin cp paid ;;
  mb <- ss_add_coin (al_mb a1) cp1 ;;
  w <- ss_add_coin (al_wpool a1) cp1 ;;
  _ <- ss_guard (ss_int64_ok cp) ;;
  let a2 := al_with_pools a1 w (al_mtc a1) mb (al_mtv a1) (Some 0) bas in
  due <- ss_cancel_due c a2 ;;
  '(bls2, w2) <- (match due with
                  | None => Some (bls1, w)
                  | Some cc =>
                      total <- ss_total_wp bas ;;
                      '(bls', charged) <- ss_cancel_loop cc total bas rates bls1 ;;
                      w' <- ss_minus_coin w charged ;;
                      _ <- ss_guard (ss_int64_ok charged) ;;
                      Some (bls', w')
                  end) ;;
  bls3 <- ss_release_loop bas bls2 ;;
  let s1 := st_with_chals (st_with_blobbers s bls3) (ss_del_chals gone (st_chals s)) in
  s2 <- ss_transfer s1 (cf_sc c) (al_owner a) w2 ;;
  Some (st_with_allocs s2 (ss_del_alloc (al_id a) (st_allocs s2))).

Definition ss_finalize (c : ss_conf) (s : ss_state) (now round sender alloc : Z) : option ss_state :=
  a <- ss_find_alloc alloc (st_allocs s) ;;
  _ <- ss_guard ((al_owner a =? sender) || match ss_find_ba sender (al_bas a) with Some _ => true | None => false end) ;;
  _ <- ss_guard (al_exp a <=? now) ;;
  _ <- ss_guard (negb (al_ent a)) ;;
  ss_close c s now round a.

Definition ss_cancel (c : ss_conf) (s : ss_state) (now round sender alloc : Z) : option ss_state :=
  a <- ss_find_alloc alloc (st_allocs s) ;;
  _ <- ss_guard (al_owner a =? sender) ;;
  _ <- ss_guard (now <=? al_exp a) ;;
  _ <- ss_guard (negb (al_ent a)) ;;
  ss_close c s now round a.

(* ---------- update allocation ---------- *)

(* stake-pool part of [x], node part of [y] *)
Definition ss_merge_sp (x y : ss_blobber) : ss_blobber :=
  bl_with_sp y (bl_pools x) (bl_offers x) (bl_spkilled x) (bl_rewards x).

Fixpoint ss_replace_ba (old : Z) (nw : ss_balloc) (l : list ss_balloc) : list ss_balloc :=
  match l with [] => [] | x :: tl => if ba_blobber x =? old then nw :: tl else x :: ss_replace_ba old nw tl end.

(* removeBlobberPassRates *)
Definition ss_remove_rates (c : ss_conf) (round : Z) (a : ss_alloc) (blobber : Z) : option (ss_alloc * f64 * list Z) :=
  if negb (al_chnode a) then Some (a, ss_one, [])
  else
    let '(a1, keep, gone) := ss_settle_ocs c round (fun oc => oc_blobber oc =? blobber) (al_ocs a) a in
    d <- ss_find_ba blobber (al_bas a1) ;;
    let extra := Z.max 0 (ba_open d) in
    let d' := ss_flush_open d in
    let a2 := al_with_stats (al_with_bas a1 (ss_set_ba d' (al_bas a1))) (al_used a1) (al_tot a1) (al_open a1 - extra)
                            (al_succ a1 + extra) (al_fail a1) keep true in
    Some (a2, ss_pass_rate d', gone).

(* storageAllocationBase.replaceBlobber; [nb] is the blobber allocation that takes the slot *)
Definition ss_replace (c : ss_conf) (s : ss_state) (now round : Z) (a : ss_alloc) (removed : Z) (nb : ss_balloc)
  : option (ss_state * ss_alloc * bool) :=
  d <- ss_find_ba removed (al_bas a) ;;
  b <- ss_find_blobber removed (st_blobbers s) ;;
  if bl_killed b || bl_shut b then
    (* killed branch: the value goes back to the write pool (pool saved, moved_back updated);
       the killed blobber keeps its Allocated and its stake pool offer *)
    cp <- al_cp a ;;
    '(w, cp') <- ss_move_from_cp (al_wpool a) cp (ba_cpiv d) ;;
    mb <- ss_add_coin (al_mb a) (ba_cpiv d) ;;
    Some (s, al_with_pools a w (al_mtc a) mb (al_mtv a) (Some cp') (ss_replace_ba removed nb (al_bas a)), false)
  else
    '(a1, rate, gone) <- ss_remove_rates c round a removed ;;
    d1 <- ss_find_ba removed (al_bas a1) ;;
    b0 <- ss_reduce_offer b (ss_offer d1) ;;
    cp <- al_cp a1 ;;
    '(b1, d2, reward, pen) <- ss_fin_pay c a1 cp b0 d1 rate now ;;
    cp1 <- ss_minus_coin cp reward ;;
    let back := ss_wrap (ba_cpiv d2 + pen) in
    mb <- ss_add_coin (al_mb a1) back ;;
    '(w, cp2) <- ss_move_from_cp (al_wpool a1) cp1 back ;;
    _ <- ss_guard (ss_int64_ok (ss_wrap (ba_cpiv d2 + reward + pen))) ;;
    let a2 := al_with_pools a1 w (al_mtc a1) mb (al_mtv a1) (Some cp2) (ss_set_ba d2 (al_bas a1)) in
    due <- ss_cancel_due c a2 ;;
    '(b2, w2) <- (match due with
                  | None => Some (b1, w)
                  | Some cc =>
                      total <- ss_total_wp (al_bas a2) ;;
                      let share := ss_cancel_share cc total d2 rate in
                      b' <- ss_distribute b1 share ;;
                      w' <- ss_minus_coin w share ;;
                      _ <- ss_guard (ss_int64_ok share) ;;
                      Some (b', w')
                  end) ;;
    (* before demeter the stake pool is saved before the payments, which are lost *)
    let bsp := if ss_active (cf_demeter c) round then b2 else b0 in
    let bnode := bl_with_sizes (ss_merge_sp bsp b) (bl_allocd b - ba_size d2) (bl_saved b - ba_used d2) in
    let a3 := al_with_pools a2 w2 (al_mtc a2) (al_mb a2) (al_mtv a2) (al_cp a2) (ss_replace_ba removed nb (al_bas a2)) in
    let a4 := al_with_stats a3 (al_used a3 - ba_used d2) (al_tot a3) (al_open a3) (al_succ a3) (al_fail a3) (al_ocs a3) (al_chnode a3) in
    Some (st_with_chals (st_with_blobbers s (ss_set_blobber bnode (st_blobbers s))) (ss_del_chals gone (st_chals s)), a4, false).

(* storageAllocationBase.changeBlobbers *)
Definition ss_change_blobbers (c : ss_conf) (s : ss_state) (now round : Z) (a : ss_alloc) (add : Z) (remove : option Z)
  : option (ss_state * ss_alloc * bool) :=
  _ <- ss_guard (match ss_find_ba add (al_bas a) with None => true | Some _ => false end) ;;
  ab <- ss_find_blobber add (st_blobbers s) ;;
  let bsz := ss_bsize (al_size a) (al_data a) in
  _ <- ss_guard (ss_is_active ab (al_rr a) (al_wr a) bsz) ;;
  let ab1 := bl_with_sizes ab (bl_allocd ab + bsz) (bl_saved ab) in
  let nb := ss_new_ba c ab1 bsz now in
  '(s1, a1, fired) <- (match remove with
                | Some r => ss_replace c s now round a r nb
                | None =>
                    Some (s, al_with_bas (al_with_head a (al_owner a) (al_exp a) (al_size a) (al_parity a + 1) (al_tpe a))
                                         (al_bas a ++ [nb]), false)
                end) ;;
  (* the added blobber's stake pool was loaded before the replacement *)
  ab2 <- ss_add_offer ab1 (ss_offer nb) ;;
  Some (st_with_blobbers s1 (ss_set_blobber ab2 (st_blobbers s1)), a1, fired).

(* challengePoolChanges + adjustChallengePool, blobber by blobber *)
Fixpoint ss_adjust_loop (odrtu ndrtu : f64) (bas : list ss_balloc) (owps : list Z) (w cp mtc mb : Z)
  : option (list ss_balloc * Z * Z * Z * Z * bool) :=
  match bas, owps with
  | [], _ => Some ([], w, cp, mtc, mb, false)
  | d :: tl, owp :: otl =>
      if ba_used d =? 0 then
        '(ds, w', cp', mtc', mb', f) <- ss_adjust_loop odrtu ndrtu tl otl w cp mtc mb ;; Some (d :: ds, w', cp', mtc', mb', f)
      else
        let sz := ss_size_gb (ba_used d) in
        let va := f64_mul (f64_mul (f64_of_Z owp) sz) odrtu in
        let vb := f64_mul (f64_mul (f64_of_Z (ba_wp d)) sz) ndrtu in
        let diff := f64_sub vb va in
        let neg := f64_ltb diff f64_zero in
        let v := f64_to_u64 (if neg then f64_opp diff else diff) in
        _ <- ss_guard (ss_int64_ok v) ;;
        if v =? 0 then
          '(ds, w', cp', mtc', mb', f) <- ss_adjust_loop odrtu ndrtu tl otl w cp mtc mb ;; Some (d :: ds, w', cp', mtc', mb', f)
        else if neg then
          '(w1, cp1) <- ss_move_from_cp w cp v ;;
          (* ChallengePoolIntegralValue = MinusCoin(value, change) (checked since the fix of
             adjustChallengePool); MovedBack += change stays unchecked *)
          v' <- ss_minus_coin (ba_cpiv d) v ;;
          let d' := ba_with_cpiv d v' in
          '(ds, w', cp', mtc', mb', f) <- ss_adjust_loop odrtu ndrtu tl otl w1 cp1 mtc (ss_wrap (mb + v)) ;;
          Some (d' :: ds, w', cp', mtc', mb', f)
        else
          '(w1, cp1) <- ss_move_to_cp w cp v ;;
          let d' := ba_with_cpiv d (ss_wrap (ba_cpiv d + v)) in
          '(ds, w', cp', mtc', mb', f) <- ss_adjust_loop odrtu ndrtu tl otl w1 cp1 (ss_wrap (mtc + v)) mb ;;
          Some (d' :: ds, w', cp', mtc', mb', f || (2 ^ 64 <=? ba_cpiv d + v))
  | _ :: _, [] => None
  end.

(* extendAllocation step 1: every blobber allocation grows by diff, capped current terms, offers *)
Fixpoint ss_extend_terms (c : ss_conf) (req_size diff : Z) (bas : list ss_balloc) (bls : list ss_blobber)
  : option (list ss_balloc * list ss_blobber) :=
  match bas with
  | [] => Some ([], bls)
  | d :: tl =>
      b <- ss_find_blobber (ba_blobber d) bls ;;
      _ <- ss_guard (negb (bl_cap b =? 0)) ;;
      b1 <- (if 0 <? req_size then
               _ <- ss_guard (negb (bl_killed b) && negb (bl_shut b)) ;;
               _ <- ss_guard (negb ((ss_i64 (bl_cap b - bl_allocd b - diff) <? 0) ||
                                    (ss_i64 (ss_staked_capacity b (bl_wp b) - bl_allocd b - diff) <? 0))) ;;
               Some (bl_with_sizes b (bl_allocd b + diff) (bl_saved b))
             else Some b) ;;
      let d' := ba_with_terms d (ba_size d + diff) (Z.min (bl_wp b) (cf_max_wp c)) (Z.min (bl_rp b) (cf_max_rp c)) in
      let oldo := ss_offer d in
      let newo := ss_offer d' in
      b2 <- (if oldo <? newo then ss_add_offer b1 (newo - oldo)
             else if newo <? oldo then ss_reduce_offer b1 (oldo - newo) else Some b1) ;;
      '(ds, bls') <- ss_extend_terms c req_size diff tl (ss_set_blobber b2 bls) ;;
      Some (d' :: ds, bls')
  end.

Definition ss_extend (c : ss_conf) (s : ss_state) (now : Z) (a : ss_alloc) (req_size : Z) : option (ss_state * ss_alloc * bool) :=
  let diff := ss_bsize req_size (al_data a) in
  let orig_rem := al_exp a - now in
  let new_rem := ss_tu_sec c in
  '(bas, bls) <- ss_extend_terms c req_size diff (al_bas a) (st_blobbers s) ;;
  let a1 := al_with_bas (al_with_head a (al_owner a) (now + ss_tu_sec c) (al_size a + req_size) (al_parity a) (al_tpe a)) bas in
  let s1 := st_with_blobbers s bls in
  if (al_used a1 =? 0) then Some (s1, a1, false)
  else
    odrtu <- ss_dur_tu c orig_rem ;;
    ndrtu <- ss_dur_tu c new_rem ;;
    cp <- al_cp a1 ;;
    '(bas', w, cp', mtc, mb, f) <- ss_adjust_loop odrtu ndrtu bas (map ba_wp (al_bas a)) (al_wpool a1) cp (al_mtc a1) (al_mb a1) ;;
    Some (s1, al_with_pools a1 w mtc mb (al_mtv a1) (Some cp') bas', f).

(* requiredTokensForUpdateAllocation *)
Definition ss_required_lock (c : ss_conf) (a : ss_alloc) (cpbal : Z) (extend : bool) (now : Z) : option Z :=
  cost <- (if extend then ss_cost (al_bas a)
           else
             (* costForRDTU measures the rest of the period in the allocation's own time unit *)
             rdtu <- (if al_exp a <? now then None
                      else Some (f64_div (f64_of_Z ((al_exp a - now) * 1000000000)) (f64_of_Z (al_tu a)))) ;;
             ss_cost_rdtu (al_bas a) rdtu) ;;
  let total := ss_wrap (al_wpool a + cpbal) in
  Some (if total <? cost then cost - total else 0).

(* updateAllocationRequestInternal; the boolean reports a wrap-around of the unchecked
   `ChallengePoolIntegralValue += change` in adjustChallengePool (proved impossible on states
   satisfying the C12 invariant) *)
Definition ss_update_f (c : ss_conf) (s : ss_state) (now round sender alloc value size : Z) (extend0 set_tpe : bool)
           (add remove : option Z) (new_owner : option (Z * bool)) : option (ss_state * bool) :=
  let extend := extend0 || (0 <? size) in
  a <- ss_find_alloc alloc (st_allocs s) ;;
  let req_owner := match new_owner with Some (o, _) => o | None => sender end in
  _ <- ss_guard ((sender =? al_owner a) || (al_tpe a && extend)) ;;
  (* updateAllocationRequest.validate *)
  let nothing := (size =? 0) && negb extend && (match add with None => true | Some _ => false end) &&
                 (negb set_tpe || al_tpe a) && (al_owner a =? req_owner) in
  _ <- ss_guard (negb nothing) ;;
  _ <- ss_guard (0 <=? size) ;;
  _ <- ss_guard (match al_bas a with [] => false | _ => true end) ;;
  _ <- ss_guard (match add, remove with
                 | Some x, _ => match ss_find_ba x (al_bas a) with None => true | Some _ => false end
                 | None, Some _ => false
                 | None, None => true
                 end) ;;
  _ <- ss_guard (match remove with Some r => match ss_find_ba r (al_bas a) with Some _ => true | None => false end | None => true end) ;;
  _ <- ss_guard (now <=? al_exp a) ;;
  (* after demeter the transaction value is locked into the write pool first *)
  '(s1, a1) <- (if ss_active (cf_demeter c) round && (0 <? value) then
                  s' <- ss_lock_from c s sender value ;;
                  w <- ss_add_coin (al_wpool a) value ;;
                  _ <- ss_guard (ss_int64_ok value) ;;
                  Some (s', al_with_pools a w (al_mtc a) (al_mb a) (al_mtv a) (al_cp a) (al_bas a))
                else Some (s, a)) ;;
  (* every blobber of the allocation must still exist *)
  _ <- ss_find_blobbers (map ba_blobber (al_bas a1)) (st_blobbers s1) ;;
  '(s2, a2, fired) <-
    (if negb (sender =? al_owner a1) then ss_extend c s1 now a1 size
     else
       '(s', a', f1) <- (match add with Some x => ss_change_blobbers c s1 now round a1 x remove | None => Some (s1, a1, false) end) ;;
       '(s'', a'', f2) <- (if extend then ss_extend c s' now a' size else Some (s', a', false)) ;;
       let a3 := al_with_head a'' (al_owner a'') (al_exp a'') (al_size a'') (al_parity a'') (al_tpe a'' || set_tpe) in
       match new_owner with
       | Some (o, with_pk) =>
           if o =? al_owner a3 then Some (s'', a3, f1 || f2)
           else _ <- ss_guard with_pk ;; Some (s'', al_with_head a3 o (al_exp a3) (al_size a3) (al_parity a3) (al_tpe a3), f1 || f2)
       | None => Some (s'', a3, f1 || f2)
       end) ;;
  cp <- al_cp a2 ;;
  need <- ss_required_lock c a2 cp extend now ;;
  _ <- ss_guard (if ss_active (cf_electra c) round then need =? 0 else need <=? value) ;;
  Some (st_with_allocs s2 (ss_set_alloc a2 (st_allocs s2)), fired).

Definition ss_update (c : ss_conf) (s : ss_state) (now round sender alloc value size : Z) (extend set_tpe : bool)
           (add remove : option Z) (new_owner : option (Z * bool)) : option ss_state :=
  option_map fst (ss_update_f c s now round sender alloc value size extend set_tpe add remove new_owner).

(* ---------- read pools and read markers ---------- *)

Definition ss_rp_lock (c : ss_conf) (s : ss_state) (sender target value : Z) : option ss_state :=
  _ <- ss_guard ((cf_min_lock_r c <=? value) && (0 <? value)) ;;
  s1 <- ss_lock_from c s sender value ;;
  v <- ss_add_coin (ss_assoc0 target (st_rpools s1)) value ;;
  Some (st_with_rpools s1 (ss_assoc_set target v (st_rpools s1))).

Definition ss_rp_unlock (c : ss_conf) (s : ss_state) (sender : Z) : option ss_state :=
  v <- ss_assoc sender (st_rpools s) ;;
  s1 <- ss_transfer s (cf_sc c) sender v ;;
  Some (st_with_rpools s1 (ss_assoc_set sender 0 (st_rpools s1))).

Fixpoint ss_read_last (b cl al : Z) (l : list (Z * Z * Z * Z)) : option Z :=
  match l with
  | [] => None
  | (b', cl', al', n) :: tl => if (b =? b') && (cl =? cl') && (al =? al') then Some n else ss_read_last b cl al tl
  end.
Fixpoint ss_read_set (b cl al n : Z) (l : list (Z * Z * Z * Z)) : list (Z * Z * Z * Z) :=
  match l with
  | [] => [(b, cl, al, n)]
  | (b', cl', al', n') :: tl =>
      if (b =? b') && (cl =? cl') && (al =? al') then (b, cl, al, n) :: tl else (b', cl', al', n') :: ss_read_set b cl al n tl
  end.

(* commitBlobberRead *)
Definition ss_read (c : ss_conf) (s : ss_state) (client blobber alloc ts ctr : Z) (id_ok sig_ok : bool) : option ss_state :=
  _ <- ss_guard id_ok ;;
  let last := ss_read_last blobber client alloc (st_reads s) in
  _ <- ss_guard ((0 <? ctr) && negb (ts =? 0)) ;;
  _ <- ss_guard (match last with Some n => n <=? ctr | None => true end) ;;
  _ <- ss_guard sig_ok ;;
  a <- ss_find_alloc alloc (st_allocs s) ;;
  _ <- ss_guard ((al_start a <=? ts) && (ts <=? al_exp a)) ;;
  d <- ss_find_ba blobber (al_bas a) ;;
  b <- ss_find_blobber blobber (st_blobbers s) ;;
  let reads := ctr - match last with Some n => n | None => 0 end in
  (* the delta times CHUNK_SIZE must fit int64 (checked since the fix of commitBlobberRead) *)
  _ <- ss_guard ((0 <=? reads) && (reads <=? (2 ^ 63 - 1) / ss_CHUNK)) ;;
  let sz := ss_size_gb (ss_i64 (reads * ss_CHUNK)) in
  let value := f64_to_u64 (f64_mul (f64_of_Z (ba_rp d)) sz) in
  let rp := ss_assoc0 client (st_rpools s) in
  _ <- ss_guard (value <=? rp) ;;
  b' <- ss_distribute b value ;;
  rr <- ss_add_coin (ba_readrew d) value ;;
  let d' := ba_with_money d (ba_chreward d) (ba_penalty d) (ba_returned d) rr in
  let s1 := st_with_rpools s (ss_assoc_set client (rp - value) (st_rpools s)) in
  let s2 := st_with_blobbers s1 (ss_set_blobber b' (st_blobbers s1)) in
  let s3 := st_with_allocs s2 (ss_set_alloc (al_with_bas a (ss_set_ba d' (al_bas a))) (st_allocs s2)) in
  Some (st_with_reads s3 (ss_read_set blobber client alloc ctr (st_reads s3))).

(* ---------- kill / shutdown / settings of a blobber ---------- *)

Definition ss_kill (c : ss_conf) (s : ss_state) (sender blobber : Z) : option ss_state :=
  b <- ss_find_blobber blobber (st_blobbers s) ;;
  _ <- ss_guard (sender =? cf_owner c) ;;
  if bl_killed b || bl_shut b then
    (* already killed / shut down: the transaction succeeds and changes nothing *)
    Some s
  else
    b1 <- ss_sp_kill b (cf_kill_slash c) ;;
    Some (st_with_blobbers s (ss_set_blobber (bl_with_node b1 (bl_cap b1) (bl_allocd b1) (bl_saved b1) true (bl_shut b1)
                                                           (bl_notavail b1) (bl_wp b1) (bl_rp b1)) (st_blobbers s))).

(* provider.ShutDown (after the fix: authorisation first, stake pool saved under the provider's id) *)
Definition ss_shutdown (c : ss_conf) (s : ss_state) (sender blobber : Z) : option ss_state :=
  b <- ss_find_blobber blobber (st_blobbers s) ;;
  if bl_killed b || bl_shut b then Some s
  else
    _ <- ss_guard ((sender =? cf_owner c) || (sender =? bl_wallet b)) ;;
    let half := f64_div (cf_kill_slash c) (f64_of_Z 2) in
    b1 <- ss_sp_kill b half ;;
    Some (st_with_blobbers s (ss_set_blobber (bl_with_node b1 (bl_cap b) (bl_allocd b) (bl_saved b) (bl_killed b) true
                                                           (bl_notavail b) (bl_wp b) (bl_rp b)) (st_blobbers s))).

(* updateBlobberSettings / updateBlobber: terms, capacity, availability *)
Definition ss_upd_blobber (c : ss_conf) (s : ss_state) (sender blobber : Z) (cap wp rp : option Z) (na : option bool)
  : option ss_state :=
  b <- ss_find_blobber blobber (st_blobbers s) ;;
  _ <- ss_guard (sender =? bl_wallet b) ;;
  rp' <- (match rp with Some p => _ <- ss_guard (p <=? cf_max_rp c) ;; Some p | None => Some (bl_rp b) end) ;;
  wp' <- (match wp with Some p => _ <- ss_guard ((cf_min_wp c <=? p) && (p <=? cf_max_wp c)) ;; Some p | None => Some (bl_wp b) end) ;;
  let na' := match na with Some x => x | None => bl_notavail b end in
  cap' <- (match cap with
           | Some n => if n <=? 0 then Some (bl_cap b)
                       else _ <- ss_guard (cf_min_blobber_cap c <? n) ;; Some n
           | None => Some (bl_cap b)
           end) ;;
  _ <- ss_guard (match wp with Some p => bl_allocd b <=? ss_staked_capacity b p | None => true end) ;;
  Some (st_with_blobbers s (ss_set_blobber (bl_with_node b cap' (bl_allocd b) (bl_saved b) (bl_killed b) (bl_shut b) na' wp' rp')
                                           (st_blobbers s))).

(* ---------- free storage ---------- *)

Definition ss_ten10 : f64 := f64_of_Z 10000000000.

Definition ss_add_assigner (c : ss_conf) (s : ss_state) (sender name key : Z) (indiv total : f64) : option ss_state :=
  _ <- ss_guard (sender =? cf_owner c) ;;
  t <- f64_float_to_coin (f64_mul total ss_ten10) ;;
  _ <- ss_guard (t <=? cf_max_total_free c) ;;
  i <- f64_float_to_coin (f64_mul indiv ss_ten10) ;;
  _ <- ss_guard (i <=? cf_max_indiv_free c) ;;
  let old := ss_find_assigner name (st_assigners s) in
  let a := {| as_id := name; as_indiv := i; as_total := t;
              as_redeemed := match old with Some o => as_redeemed o | None => 0 end;
              as_nonces := match old with Some o => as_nonces o | None => [] end;
              as_key := key (* a re-registration replaces the key *) |} in
  Some (st_with_assigners s (ss_set_assigner a (st_assigners s))).

(* freeAllocationRequest; [coin] = currency.ParseZCN(marker.FreeTokens) recorded from the run *)
Definition ss_free_alloc (c : ss_conf) (s : ss_state) (now id sender assigner recipient : Z) (coin : option Z) (nonce : Z)
           (sig_ok : bool) (blobbers : list Z) : option ss_state :=
  _ <- ss_guard (sender =? recipient) ;;
  a <- ss_find_assigner assigner (st_assigners s) ;;
  free <- coin ;;
  _ <- ss_guard sig_ok ;;
  nt <- ss_add_coin (as_redeemed a) free ;;
  _ <- ss_guard ((nt <=? as_total a) && (free <=? as_indiv a) && negb (ss_mem nonce (as_nonces a))) ;;
  rtok <- f64_float_to_coin (f64_mul (f64_of_Z free) (cf_free_frac c)) ;;
  wtok <- ss_minus_coin free rtok ;;
  s1 <- ss_new_alloc c s now id recipient (cf_owner c) wtok 0 (cf_free_data c) (cf_free_parity c) (cf_free_size c) blobbers
                     (0, cf_free_max_rp c) (0, cf_free_max_wp c) true ;;
  let a' := {| as_id := as_id a; as_indiv := as_indiv a; as_total := as_total a; as_redeemed := nt;
               as_nonces := as_nonces a ++ [nonce]; as_key := as_key a |} in
  let s2 := st_with_assigners s1 (ss_set_assigner a' (st_assigners s1)) in
  (* read pool tokens are credited without any transfer (isMint) *)
  v <- ss_add_coin (ss_assoc0 recipient (st_rpools s2)) rtok ;;
  Some (st_with_rpools s2 (ss_assoc_set recipient v (st_rpools s2))).

(* ---------- operations, step, run ---------- *)

(* verifyFreeAllocationRequestNew: the marker is signed with the key registered for its assigner NOW
   ([signer]: the key number the marker was signed with) *)
Definition ss_marker_sig_ok (s : ss_state) (assigner signer : Z) : bool :=
  match ss_find_assigner assigner (st_assigners s) with Some a => signer =? as_key a | None => false end.

Inductive ss_op :=
| OpBad
| OpNewAlloc (id sender owner value data parity size : Z) (blobbers : list Z) (rrmin rrmax wrmin wrmax : Z) (tpe : bool)
| OpWPLock (sender alloc value : Z)
| OpCommit (sender alloc client root prev size ts : Z) (sig_ok : bool)
| OpGenChal (sel : option (Z * Z * Z))
| OpChalResp (sender ch : Z) (tickets_ok pass : bool) (validators : list Z)
| OpUpdate (sender alloc value size : Z) (extend set_tpe : bool) (add remove : option Z) (new_owner : option (Z * bool))
| OpFinalize (sender alloc : Z)
| OpCancel (sender alloc : Z)
| OpRPLock (sender target value : Z)
| OpRPUnlock (sender : Z)
| OpRead (client blobber alloc ts ctr : Z) (id_ok sig_ok : bool)
| OpKill (sender blobber : Z)
| OpShutdown (sender blobber : Z)
| OpUpdBlobber (sender blobber : Z) (cap wp rp : option Z) (notavail : option bool)
| OpAddAssigner (sender name key indiv total : Z)
| OpFreeAlloc (id sender assigner recipient : Z) (coin : option Z) (nonce : Z) (signer : Z) (blobbers : list Z).

Definition ss_apply (c : ss_conf) (s : ss_state) (now round : Z) (o : ss_op) : option ss_state :=
  match o with
  | OpBad => None
  | OpNewAlloc id sender owner value data parity size bl a b x y tpe =>
      ss_new_alloc c s now id owner sender value value data parity size bl (a, b) (x, y) tpe
  | OpWPLock sender alloc value => ss_wp_lock c s sender alloc value
  | OpCommit sender alloc client root prev size ts sig_ok => ss_commit c s sender alloc client root prev size ts sig_ok
  | OpGenChal None => Some s
  | OpGenChal (Some (alloc, blobber, ch)) => ss_gen_chal c s now round alloc blobber ch
  | OpChalResp sender ch tok pass vals => ss_chal_resp c s now round sender ch tok pass vals
  | OpUpdate sender alloc value size ext tpe add rem own => ss_update c s now round sender alloc value size ext tpe add rem own
  | OpFinalize sender alloc => ss_finalize c s now round sender alloc
  | OpCancel sender alloc => ss_cancel c s now round sender alloc
  | OpRPLock sender target value => ss_rp_lock c s sender target value
  | OpRPUnlock sender => ss_rp_unlock c s sender
  | OpRead client blobber alloc ts ctr id_ok sig_ok => ss_read c s client blobber alloc ts ctr id_ok sig_ok
  | OpKill sender blobber => ss_kill c s sender blobber
  | OpShutdown sender blobber => ss_shutdown c s sender blobber
  | OpUpdBlobber sender blobber cap wp rp na => ss_upd_blobber c s sender blobber cap wp rp na
  | OpAddAssigner sender name key indiv total => ss_add_assigner c s sender name key (f64_of_bits indiv) (f64_of_bits total)
  | OpFreeAlloc id sender assigner recipient coin nonce signer bl =>
      ss_free_alloc c s now id sender assigner recipient coin nonce (ss_marker_sig_ok s assigner signer) bl
  end.

(* did the unchecked addition of adjustChallengePool wrap while this transaction executed? *)
Definition ss_fired (c : ss_conf) (s : ss_state) (now round : Z) (o : ss_op) : bool :=
  match o with
  | OpUpdate sender alloc value size ext tpe add rem own =>
      match ss_update_f c s now round sender alloc value size ext tpe add rem own with
      | Some (_, f) => f
      | None => false
      end
  | _ => false
  end.

(* one transaction: a rejected transaction leaves the state unchanged *)
Definition ss_step (c : ss_conf) (s : ss_state) (t : Z * Z * ss_op) : ss_state * bool :=
  let '(now, round, o) := t in
  match ss_apply c s now round o with Some s' => (s', true) | None => (s, false) end.

Fixpoint ss_run (c : ss_conf) (s : ss_state) (ts : list (Z * Z * ss_op)) : ss_state * list bool :=
  match ts with
  | [] => (s, [])
  | t :: tl => let '(s1, ok) := ss_step c s t in let '(s2, oks) := ss_run c s1 tl in (s2, ok :: oks)
  end.

(* ---------- enterprise allocations (after the electra hard fork) ---------- *)

(* An enterprise allocation has no challenge pool node: the model keeps [al_cp = Some 0] for it (the
   correspondence prints "absent" for allocations with [al_ent]); commit_connection is refused for
   it, so it never stores data and is never challenged.  Blobbers are paid pro rata of the used
   part of the period when the allocation is extended or closed. *)

Definition al_with_ent (a : ss_alloc) (e : bool) : ss_alloc :=
  {| al_id := al_id a; al_owner := al_owner a; al_start := al_start a; al_exp := al_exp a; al_size := al_size a;
     al_data := al_data a; al_parity := al_parity a; al_wpool := al_wpool a; al_mtc := al_mtc a; al_mb := al_mb a; al_mtv := al_mtv a;
     al_tpe := al_tpe a; al_ent := e; al_used := al_used a; al_tot := al_tot a; al_open := al_open a;
     al_succ := al_succ a; al_fail := al_fail a; al_rr := al_rr a; al_wr := al_wr a; al_cp := al_cp a; al_bas := al_bas a;
     al_ocs := al_ocs a; al_chnode := al_chnode a; al_tu := al_tu a |}.

(* usedDurationInTimeunit for an allocation that has not expired: 1 - unused / time_unit *)
Definition ss_used_dur (c : ss_conf) (a : ss_alloc) (now : Z) : f64 :=
  f64_sub (f64_of_Z 1) (f64_div (f64_of_Z ((al_exp a - now) * 1000000000)) (f64_of_Z (cf_tu_ns c))).

(* payCostForDtuForEnterpriseAllocation: the reward is distributed BEFORE the amount is capped by
   the write pool; returns stake pools, write pool, total cost *)
Fixpoint ss_ent_pay (c : ss_conf) (a : ss_alloc) (now : Z) (bas : list ss_balloc) (bls : list ss_blobber) (w cost : Z)
  : option (list ss_blobber * Z * Z) :=
  match bas with
  | [] => Some (bls, w, cost)
  | d :: tl =>
      c0 <- f64_mult_coin (ba_wp d) (ss_size_gb (ba_size d)) ;;
      c1 <- (if now <? al_exp a then f64_mult_coin c0 (ss_used_dur c a now) else Some c0) ;;
      b <- ss_find_blobber (ba_blobber d) bls ;;
      b1 <- ss_distribute b c1 ;;
      let c2 := Z.min c1 w in
      cost' <- ss_add_coin cost c2 ;;
      ss_ent_pay c a now tl (ss_set_blobber b1 bls) (w - c2) cost'
  end.

(* cancelAllocationRequest / finalizeAllocationInternal: every stake pool gives its offer back *)
Fixpoint ss_ent_offers (bas : list ss_balloc) (bls : list ss_blobber) : option (list ss_blobber) :=
  match bas with
  | [] => Some bls
  | d :: tl => b <- ss_find_blobber (ba_blobber d) bls ;; b0 <- ss_reduce_offer b (ss_offer d) ;; ss_ent_offers tl (ss_set_blobber b0 bls)
  end.

(* finishAllocation, enterprise branch: Allocated is released (SavedData is not touched) *)
Fixpoint ss_ent_release (bas : list ss_balloc) (bls : list ss_blobber) : option (list ss_blobber) :=
  match bas with
  | [] => Some bls
  | d :: tl => b <- ss_find_blobber (ba_blobber d) bls ;;
               ss_ent_release tl (ss_set_blobber (bl_with_sizes b (bl_allocd b - ba_size d) (bl_saved b)) bls)
  end.

Definition ss_close_ent (c : ss_conf) (s : ss_state) (now : Z) (a : ss_alloc) : option ss_state :=
  bls0 <- ss_ent_offers (al_bas a) (st_blobbers s) ;;
  '(bls1, w1, _) <- ss_ent_pay c a now (al_bas a) bls0 (al_wpool a) 0 ;;
  bls2 <- ss_ent_release (al_bas a) bls1 ;;
  s2 <- ss_transfer (st_with_blobbers s bls2) (cf_sc c) (al_owner a) w1 ;;
  Some (st_with_allocs s2 (ss_del_alloc (al_id a) (st_allocs s2))).

Definition ss_finalize_ent (c : ss_conf) (s : ss_state) (now sender alloc : Z) : option ss_state :=
  a <- ss_find_alloc alloc (st_allocs s) ;;
  _ <- ss_guard ((al_owner a =? sender) || match ss_find_ba sender (al_bas a) with Some _ => true | None => false end) ;;
  _ <- ss_guard (al_exp a <=? now) ;;
  ss_close_ent c s now a.

Definition ss_cancel_ent (c : ss_conf) (s : ss_state) (now sender alloc : Z) : option ss_state :=
  a <- ss_find_alloc alloc (st_allocs s) ;;
  _ <- ss_guard (al_owner a =? sender) ;;
  _ <- ss_guard (now <=? al_exp a) ;;
  ss_close_ent c s now a.

(* newAllocationRequestInternal with is_enterprise: the same assignment, no challenge pool *)
Definition ss_new_alloc_ent (c : ss_conf) (s : ss_state) (now id owner payer value txn_value data parity size : Z)
           (blobbers : list Z) (rr wr : Z * Z) (tpe : bool) : option ss_state :=
  s1 <- ss_new_alloc c s now id owner payer value txn_value data parity size blobbers rr wr tpe ;;
  a <- ss_find_alloc id (st_allocs s1) ;;
  Some (st_with_allocs s1 (ss_set_alloc (al_with_ent a true) (st_allocs s1))).

(* extendAllocation for an enterprise allocation: the used part of the period is settled first,
   then sizes / terms / offers change as usual; there is no challenge pool to adjust *)
Definition ss_extend_ent (c : ss_conf) (s : ss_state) (now : Z) (a : ss_alloc) (req_size : Z) : option (ss_state * ss_alloc) :=
  '(bls1, w1, _) <- ss_ent_pay c a now (al_bas a) (st_blobbers s) (al_wpool a) 0 ;;
  let diff := ss_bsize req_size (al_data a) in
  '(bas, bls) <- ss_extend_terms c req_size diff (al_bas a) bls1 ;;
  let a0 := al_with_pools a w1 (al_mtc a) (al_mb a) (al_mtv a) (al_cp a) bas in
  let a1 := al_with_head a0 (al_owner a) (now + ss_tu_sec c) (al_size a + req_size) (al_parity a) (al_tpe a) in
  Some (st_with_blobbers s bls, a1).

(* updateAllocationRequestInternal for an enterprise allocation; the owner's adding or replacing a blobber needs
   the new blobber's auth ticket, which the transactions of the engine never carry: refused *)
Definition ss_update_ent (c : ss_conf) (s : ss_state) (now round sender alloc value size : Z) (extend0 set_tpe : bool)
           (add remove : option Z) (new_owner : option (Z * bool)) : option ss_state :=
  let extend := extend0 || (0 <? size) in
  a <- ss_find_alloc alloc (st_allocs s) ;;
  let req_owner := match new_owner with Some (o, _) => o | None => sender end in
  _ <- ss_guard ((sender =? al_owner a) || (al_tpe a && extend)) ;;
  let nothing := (size =? 0) && negb extend && (match add with None => true | Some _ => false end) &&
                 (negb set_tpe || al_tpe a) && (al_owner a =? req_owner) in
  _ <- ss_guard (negb nothing) ;;
  _ <- ss_guard (0 <=? size) ;;
  _ <- ss_guard (match al_bas a with [] => false | _ => true end) ;;
  _ <- ss_guard (match add, remove with
                 | Some x, _ => match ss_find_ba x (al_bas a) with None => true | Some _ => false end
                 | None, Some _ => false
                 | None, None => true
                 end) ;;
  _ <- ss_guard (match remove with Some r => match ss_find_ba r (al_bas a) with Some _ => true | None => false end | None => true end) ;;
  _ <- ss_guard (now <=? al_exp a) ;;
  '(s1, a1) <- (if ss_active (cf_demeter c) round && (0 <? value) then
                  s' <- ss_lock_from c s sender value ;;
                  w <- ss_add_coin (al_wpool a) value ;;
                  _ <- ss_guard (ss_int64_ok value) ;;
                  Some (s', al_with_pools a w (al_mtc a) (al_mb a) (al_mtv a) (al_cp a) (al_bas a))
                else Some (s, a)) ;;
  _ <- ss_find_blobbers (map ba_blobber (al_bas a1)) (st_blobbers s1) ;;
  '(s2, a2) <-
    (if negb (sender =? al_owner a1) then ss_extend_ent c s1 now a1 size
     else
       (* owner: changeBlobbers needs the added blobber's auth ticket (a third party's add_blobber_id is ignored) *)
       _ <- ss_guard (match add with None => true | Some _ => false end) ;;
       '(s'', a'') <- (if extend then ss_extend_ent c s1 now a1 size else Some (s1, a1)) ;;
       let a3 := al_with_head a'' (al_owner a'') (al_exp a'') (al_size a'') (al_parity a'') (al_tpe a'' || set_tpe) in
       match new_owner with
       | Some (o, with_pk) =>
           if o =? al_owner a3 then Some (s'', a3)
           else _ <- ss_guard with_pk ;; Some (s'', al_with_head a3 o (al_exp a3) (al_size a3) (al_parity a3) (al_tpe a3))
       | None => Some (s'', a3)
       end) ;;
  (* requiredTokensForUpdateAllocation: always the full cost, no challenge pool *)
  cost <- ss_cost (al_bas a2) ;;
  let total := al_wpool a2 in
  let need := if total <? cost then cost - total else 0 in
  _ <- ss_guard (if ss_active (cf_electra c) round then need =? 0 else need <=? value) ;;
  Some (st_with_allocs s2 (ss_set_alloc a2 (st_allocs s2))).

(* one transaction in the world the configuration describes *)
Definition ss_apply_w (c : ss_conf) (s : ss_state) (now round : Z) (o : ss_op) : option ss_state :=
  if negb (cf_ent c) then ss_apply c s now round o
  else
    match o with
    | OpNewAlloc id sender owner value data parity size bl a b x y tpe =>
        ss_new_alloc_ent c s now id owner sender value value data parity size bl (a, b) (x, y) tpe
    | OpCommit _ _ _ _ _ _ _ _ => None               (* commit connection not allowed for enterprise allocation *)
    | OpUpdate sender alloc value size ext tpe add rem own => ss_update_ent c s now round sender alloc value size ext tpe add rem own
    | OpFinalize sender alloc => ss_finalize_ent c s now sender alloc
    | OpCancel sender alloc => ss_cancel_ent c s now sender alloc
    | OpFreeAlloc _ _ _ _ _ _ _ _ => None            (* the free request is not enterprise, every blobber is *)
    | _ => ss_apply c s now round o
    end.

Definition ss_step_w (c : ss_conf) (s : ss_state) (t : Z * Z * ss_op) : ss_state * bool :=
  let '(now, round, o) := t in
  match ss_apply_w c s now round o with Some s' => (s', true) | None => (s, false) end.

(* The configuration can change between transactions: update_settings / commit_settings_changes of
   storagesc.time_unit.  The settings transactions themselves are not modelled; their effect - the
   time unit found in the stored configuration afterwards - is an event of the history. *)
Definition cf_with_tu (c : ss_conf) (tu : Z) : ss_conf :=
  {| cf_tu_ns := tu; cf_vr := cf_vr c; cf_slash := cf_slash c; cf_cancel := cf_cancel c; cf_kill_slash := cf_kill_slash c;
     cf_max_wp := cf_max_wp c; cf_min_wp := cf_min_wp c; cf_max_rp := cf_max_rp c; cf_min_alloc := cf_min_alloc c;
     cf_min_blobber_cap := cf_min_blobber_cap c; cf_mccr := cf_mccr c; cf_min_lock_w := cf_min_lock_w c; cf_min_lock_r := cf_min_lock_r c;
     cf_nvr := cf_nvr c; cf_free_data := cf_free_data c; cf_free_parity := cf_free_parity c; cf_free_size := cf_free_size c;
     cf_free_frac := cf_free_frac c; cf_free_max_wp := cf_free_max_wp c; cf_free_max_rp := cf_free_max_rp c;
     cf_max_indiv_free := cf_max_indiv_free c; cf_max_total_free := cf_max_total_free c; cf_owner := cf_owner c; cf_sc := cf_sc c;
     cf_electra := cf_electra c; cf_demeter := cf_demeter c; cf_ent := cf_ent c |}.

Inductive ss_ev :=
| EvTxn (t : Z * Z * ss_op)
| EvTimeUnit (tu_ns : Z).

Fixpoint ss_run_w (c : ss_conf) (s : ss_state) (evs : list ss_ev) : ss_state * list bool :=
  match evs with
  | [] => (s, [])
  | EvTxn t :: tl => let '(s1, ok) := ss_step_w c s t in let '(s2, oks) := ss_run_w c s1 tl in (s2, ok :: oks)
  | EvTimeUnit tu :: tl => let '(s2, oks) := ss_run_w (cf_with_tu c tu) s tl in (s2, true :: oks)
  end.
