// Engine E-chain (C01-C05): runs generated transaction histories through the real
// chain.Chain.UpdateState (in-memory MPT, script contract registered in
// smartcontract.ContractMap), evaluates the property statements on the observed behaviour
// (executable oracles, independent of the Coq model) and emits the histories as Gallina cases
// for Corr/ChainState.v.
package main

import (
	"fmt"
	"math"
	"math/big"
	"os"
	"sort"
	"strings"

	"verifharness/chainh"
	"verifharness/vh"
)

const (
	maxSupply = uint64(4000000000000000000)
	u64max    = math.MaxUint64
)

type hist struct {
	Fee    bool          `json:"fee"`
	Events bool          `json:"events"`
	Init   []chainh.Acct `json:"init"`
	Nodes  []chainh.Node `json:"nodes"`
	Txns   []chainh.Txn  `json:"txns"`
	// Genesis, when set, makes this a genesis case: the distribution is handed to the real
	// mustInitGBState instead of running transactions.
	Genesis []chainh.GenGroup `json:"genesis,omitempty"`
	// Classify, when set, makes this a case of miner.validateTransaction (block generation's
	// past / current / future classification of a transaction nonce).
	Classify *clsCase `json:"classify,omitempty"`
	// Real: the transactions call the real faucetsc / vestingsc / zcnsc contracts (registered behind a
	// recorder); run on the implementation oracles only, the contracts are not modelled here.
	Real bool `json:"real,omitempty"`
	// Blocks: the transactions are grouped by round into blocks and each block is executed by the real
	// block.ComputeState (a block with a "flaky" script call is interrupted at it on the first attempt
	// and computed again); judged by the cache-vs-trie read oracle only.
	Blocks bool `json:"blocks,omitempty"`
	// Extra: the history's own address table (account number 200+k = Extra[k]): 64-hex strings taken
	// from the keys of contract nodes, used as transfer recipients / senders.
	Extra []string `json:"extra,omitempty"`
	// Node56: the set-up also stores a contract node whose encoding is exactly 56 bytes long (the size
	// of an encoded client state), the one shape a length check in State.Decode cannot tell apart.
	Node56 bool `json:"node56,omitempty"`
}

type clsCase struct {
	State *int64 `json:"state"` // nonce in the sender's leaf; nil = no leaf
	Txn   int64  `json:"txn"`
}

type step struct {
	pre, post chainh.Snap
	res       chainh.Result
	root      string // state root after the step
	hitLen    int      // length of the node value found at the recipient's address before the send
	pathHit   string   // key of the contract node whose trie path an applied send used as a client address
	nodeAt    []string // contract node keys found stored at their own account address after the step
	gn        string // miner SC global node in the trie after the step (Real histories)
}

var envCache = map[[2]bool]*chainh.Env{}

func env(fee, events bool) *chainh.Env {
	k := [2]bool{fee, events}
	if e, ok := envCache[k]; ok {
		// the configuration is global (config.Configuration()): re-install it
		return chainh.Reuse(e, fee)
	}
	e := chainh.NewEnv(fee, events)
	envCache[k] = e
	return e
}

var universe = chainh.NewUniverse(400, 16)

func newState(h hist) *chainh.State {
	chainh.SetExtra(h.Extra)
	chainh.CreditedAddrs = map[string]bool{}
	chainh.Node56 = h.Node56
	if h.Real {
		return chainh.NewRealState(env(h.Fee, h.Events), universe, h.Init)
	}
	return chainh.NewState(env(h.Fee, h.Events), universe, h.Init, h.Nodes)
}

func run(h hist) []step {
	st := newState(h)
	out := make([]step, 0, len(h.Txns))
	pre := universe.Snapshot(st.MPT)
	credited := map[string]bool{} // addresses some transfer may have credited: a leaf there is legitimate
	for i, t := range h.Txns {
		hitLen := 0
		wasCredited := false
		if h.Real && t.Type == 0 {
			hitLen = st.LeafLen(chainh.AccountID(t.To))
			wasCredited = chainh.CreditedAddrs[chainh.AccountID(t.To)] // an earlier applied transfer already turned the leaf into a client state
		}
		res := st.Apply(i, t)
		if h.Real && res.Applied {
			if t.Type == 0 {
				chainh.CreditedAddrs[chainh.AccountID(t.To)] = true
			}
			for _, tr := range append(append([]chainh.Tr{}, res.Rec.Trs...), res.Rec.Signed...) {
				chainh.CreditedAddrs[chainh.AccountID(tr.To)] = true
			}
		}
		post := universe.Snapshot(st.MPT)
		sp := step{pre: pre, post: post, res: res, root: st.Root()}
		if h.Real {
			sp.gn = st.MinerGlobal()
			credited[chainh.AccountID(t.To)] = true
			for _, tr := range append(append([]chainh.Tr{}, res.Rec.Trs...), res.Rec.Signed...) {
				credited[chainh.AccountID(tr.To)] = true
			}
			sp.nodeAt = st.NodesAtAccountAddresses(credited)
			if res.Applied && t.Type == 0 && !wasCredited {
				for _, k := range chainh.AllKeys() {
					if chainh.HashOf(k) == chainh.AccountID(t.To) || chainh.HashOf(k) == chainh.AccountID(t.From) {
						sp.pathHit = k
						sp.hitLen = hitLen
					}
				}
			}
		}
		out = append(out, sp)
		pre = post
	}
	return out
}

// ---------- oracles: the property statements evaluated on the implementation ----------

type viol struct{ sig, desc string }

func bi(x uint64) *big.Int { return new(big.Int).SetUint64(x) }

var two64 = new(big.Int).Lsh(big.NewInt(1), 64)

func balMap(s chainh.Snap) map[int]uint64 {
	m := map[int]uint64{}
	for _, a := range s.Accts {
		m[a.ID] = a.Bal
	}
	return m
}
func acctMap(s chainh.Snap) map[int]chainh.Acct {
	m := map[int]chainh.Acct{}
	for _, a := range s.Accts {
		m[a.ID] = a
	}
	return m
}
func total(s chainh.Snap) *big.Int {
	t := new(big.Int)
	for _, a := range s.Accts {
		t.Add(t, bi(a.Bal))
	}
	return t
}
func sameSnap(a, b chainh.Snap) bool {
	if len(a.Accts) != len(b.Accts) || len(a.Nodes) != len(b.Nodes) || a.Unknown != b.Unknown {
		return false
	}
	for i := range a.Accts {
		if a.Accts[i] != b.Accts[i] {
			return false
		}
	}
	for i := range a.Nodes {
		if a.Nodes[i] != b.Nodes[i] {
			return false
		}
	}
	return true
}
func sameNodes(a, b chainh.Snap) bool {
	if len(a.Nodes) != len(b.Nodes) {
		return false
	}
	for i := range a.Nodes {
		if a.Nodes[i] != b.Nodes[i] {
			return false
		}
	}
	return true
}

// effective: the transfers this transaction is entitled to move, in the order the chain applies
// them: what the contract queued (recorded by the contract itself) or the send, then the fee,
// then signed transfers.  A call that failed contributes only the fee.
func effective(h hist, t chainh.Txn, rec chainh.Recorded) []chainh.Tr {
	var l []chainh.Tr
	switch t.Type {
	case 1000:
		if rec.Called && rec.Class == "ok" {
			l = append(l, rec.Trs...)
		}
	case 0:
		l = append(l, chainh.Tr{From: t.From, To: t.To, Amt: t.Value})
	}
	if h.Fee {
		l = append(l, chainh.Tr{From: t.From, To: chainh.IDMiner, Amt: t.Fee})
	}
	if t.Type == 1000 && rec.Called && rec.Class == "ok" {
		l = append(l, rec.Signed...)
	}
	return l
}

// simulate runs the transfer list over exact integers; failAt = index of the first transfer that
// overdraws its source or overflows its destination (-1 if none).
func simulate(pre map[int]uint64, l []chainh.Tr) (final map[int]*big.Int, failAt int, priorMoved bool) {
	final = map[int]*big.Int{}
	get := func(id int) *big.Int {
		if v, ok := final[id]; ok {
			return v
		}
		v := bi(pre[id])
		final[id] = v
		return v
	}
	for i, tr := range l {
		if tr.Amt == 0 {
			continue
		}
		amt := bi(tr.Amt)
		if get(tr.From).Cmp(amt) < 0 {
			return final, i, priorMoved
		}
		if tr.From != tr.To && new(big.Int).Add(get(tr.To), amt).Cmp(two64) >= 0 {
			return final, i, priorMoved
		}
		get(tr.From).Sub(get(tr.From), amt)
		get(tr.To).Add(get(tr.To), amt)
		priorMoved = true
	}
	return final, -1, priorMoved
}

type stats struct {
	applied, appliedMoved, rejected, nonceRej, fundsRej, chargeable, chargeableDirty, internal int
	laterTransferFailed, multiTransfer, capBypassed, signedApplied                            int
	reads, ghostWrites, realUnknown, realFailed                                               int
}

func check(h hist, steps []step) ([]viol, stats) {
	var vs []viol
	var stt stats
	add := func(sig, f string, a ...interface{}) { vs = append(vs, viol{sig, fmt.Sprintf(f, a...)}) }
	initNonce := map[int]int64{}
	if len(steps) > 0 {
		for _, a := range steps[0].pre.Accts {
			initNonce[a.ID] = a.Nonce
		}
	}
	appliedNonces := map[int][]int64{}
	// node values written by calls that did not commit (chargeable failure, internal failure,
	// rejected transaction): key -> values
	ghost := map[int]map[int64]bool{}
	for i, s := range steps {
		// ---- C02: what later calls read must be the committed trie value, never the write of a
		// call that failed
		for _, rd := range s.res.Rec.Reads {
			stt.reads++
			same := (rd.Seen == nil) == (rd.Trie == nil) && (rd.Seen == nil || *rd.Seen == *rd.Trie)
			if same {
				continue
			}
			seen, trie := "absent", "absent"
			if rd.Seen != nil {
				seen = fmt.Sprint(*rd.Seen)
			}
			if rd.Trie != nil {
				trie = fmt.Sprint(*rd.Trie)
			}
			if rd.Seen != nil && ghost[rd.Key][*rd.Seen] {
				add("C07:failed-txn-left-trace-in-cache", "txn %d read node %d through the state context (transaction cache / block cache / state cache) and got %s, a value written by an earlier transaction that failed or was rejected; the trie holds %s", i, rd.Key, seen, trie)
			} else {
				add("C07:context-read-differs-from-trie", "txn %d read node %d through the state context and got %s; the trie holds %s", i, rd.Key, seen, trie)
			}
			if rd.Seen != nil && ghost[rd.Key][*rd.Seen] {
				add("C02:later-read-sees-discarded-write", "txn %d read node %d through the state context and saw %s, a value written by an earlier call that failed; the trie holds %s", i, rd.Key, seen, trie)
			} else {
				add("C02:context-read-differs-from-trie", "txn %d read node %d through the state context and saw %s; the trie holds %s", i, rd.Key, seen, trie)
			}
		}
		if !(s.res.Applied && s.res.Status == 1) {
			for k, w := range s.res.Rec.Writes {
				if !s.res.Rec.Del[k] {
					if ghost[int(w[0])] == nil {
						ghost[int(w[0])] = map[int64]bool{}
					}
					ghost[int(w[0])][w[1]] = true
					if int(w[0]) >= chainh.CacheableFrom {
						stt.ghostWrites++
					}
				}
			}
		}
		t := h.Txns[i]
		pre, post := acctMap(s.pre), acctMap(s.post)
		preBal := balMap(s.pre)
		applied := s.res.Applied
		eff := effective(h, t, s.res.Rec)
		if s.res.Panic != "" {
			add("C05:process-panic", "txn %d made UpdateState panic: %s", i, s.res.Panic)
			add("C01:process-panic", "txn %d made UpdateState panic: %s", i, s.res.Panic)
		}
		// ---- C01: supply
		if applied && t.Type == 1000 && s.res.Rec.Class == "ok" {
			for _, tr := range s.res.Rec.Signed {
				if tr.To >= chainh.UpperBase || tr.To < 0 {
					add("C01:signed-transfer-to-noncanonical-recipient", "txn %d was applied although the contract signed a transfer (%d -> %d, %d) to a recipient id that is not a canonical lower-case hash", i, tr.From, tr.To, tr.Amt)
				}
			}
		}
		upperDest := -1
		for _, tr := range eff {
			if tr.To >= chainh.UpperBase && tr.Amt != 0 {
				upperDest = tr.To
			}
		}
		if _, credited := post[upperDest]; applied && upperDest >= 0 && !credited && total(s.post).Cmp(total(s.pre)) < 0 {
			// precise trigger: destination = other-case spelling of an existing id; the credit never
			// reaches the trie
			add("C01:uppercase-recipient-leaf-lost", "txn %d (type %d) was applied; its transfer to account %d = upper-case spelling of existing account %d debited the source but no leaf was credited: sum of balances %s -> %s",
				i, t.Type, upperDest, upperDest-chainh.UpperBase, total(s.pre), total(s.post))
		} else if total(s.pre).Cmp(total(s.post)) != 0 && s.pathHit == "" {
			add("C01:supply-changed", "txn %d (type %d, applied=%v status=%d) changed the sum of balances from %s to %s",
				i, t.Type, applied, s.res.Status, total(s.pre), total(s.post))
		}
		if s.pathHit != "" && s.hitLen == 56 {
			add("C01:transfer-to-contract-node-path:56-byte-node", "txn %d, a plain send, was applied although its counterparty address is Hash(%q), the trie path of that contract node, whose encoding happens to be exactly 56 bytes, the size of an encoded client state: the node is read as a client state and overwritten", i, s.pathHit)
		} else if s.pathHit != "" {
			add("C01:transfer-to-contract-node-path", "txn %d, a plain send, was applied although its counterparty address is Hash(%q), the trie path of that contract node: the node is read as a client state and overwritten", i, s.pathHit)
		}
		if len(s.nodeAt) > 0 {
			add("C01:contract-node-at-account-address", "after txn %d the trie holds a contract node at the account address %s (a node key that is itself a valid client id, stored unhashed): a transfer to that id reads and overwrites it as a client state", i, s.nodeAt[0])
		}
		if len(s.post.BadIDs) > 0 { // only addresses an applied transfer credited (or that hold no recorded contract node) are looked at
			add("C01:account-leaf-not-a-client-state", "after txn %d the leaf at the address of account %d, which an applied transfer credited, does not decode as a client state", i, s.post.BadIDs[0])
		}
		if s.post.Unknown != s.pre.Unknown && !h.Real {
			add("C01:unaccounted-leaf", "txn %d created a leaf that is neither a client state nor a contract node", i)
		}
		// ---- rejected: nothing changes (C03 rejected_keeps_state, C05 failing transfer)
		if !applied {
			stt.rejected++
			switch s.res.ErrCls {
			case "nonce":
				stt.nonceRej++
			case "funds":
				stt.fundsRej++
			case "internal":
				stt.internal++
			}
			if !sameSnap(s.pre, s.post) {
				add("C05:rejected-txn-changed-state", "txn %d was rejected (%s) but the state changed", i, s.res.ErrText)
				add("C03:rejected-txn-changed-state", "txn %d was rejected (%s) but the state changed", i, s.res.ErrText)
			}
		} else {
			stt.applied++
		}
		// ---- C05: overdraft / overflow of any transfer rejects the whole transaction
		final, failAt, priorMoved := simulate(preBal, eff)
		nonceOK := pre[t.From].Nonce != math.MaxInt64 && t.Nonce == pre[t.From].Nonce+1
		if failAt >= 0 {
			if failAt > 0 && priorMoved && nonceOK {
				stt.laterTransferFailed++
			}
			if applied {
				tr := eff[failAt]
				add("C05:overdraft-applied", "txn %d applied although transfer #%d (%d->%d, %d) overdraws its source or overflows its destination",
					i, failAt, tr.From, tr.To, tr.Amt)
			}
		}
		if t.Value > maxSupply && applied {
			add("C05:value-over-supply-applied", "txn %d with value %d > MaxTokenSupply was applied", i, t.Value)
		}
		if applied && failAt < 0 {
			moved := false
			for id := range union(pre, post) {
				want, ok := final[id]
				if !ok {
					want = bi(preBal[id])
				}
				if want.Sign() < 0 || want.Cmp(two64) >= 0 || want.Cmp(bi(post[id].Bal)) != 0 {
					add("C05:balance-not-exact", "txn %d: account %d holds %d, exact arithmetic gives %s (pre %d)", i, id, post[id].Bal, want, preBal[id])
					add("C04:debit-mismatch", "txn %d: account %d holds %d but the transfers it is party to give %s (pre %d)", i, id, post[id].Bal, want, preBal[id])
				}
				if post[id].Bal != preBal[id] {
					moved = true
				}
			}
			if moved {
				stt.appliedMoved++
			}
		}
		// ---- C03: nonce discipline
		if applied {
			if pre[t.From].Nonce == math.MaxInt64 {
				// int64 wrap edge: outside the theorem's domain, covered by the model comparison only
			} else {
				if t.Nonce != pre[t.From].Nonce+1 {
					add("C03:applied-wrong-nonce", "txn %d with nonce %d applied while the sender's nonce is %d", i, t.Nonce, pre[t.From].Nonce)
				}
				if post[t.From].Nonce != pre[t.From].Nonce+1 {
					add("C03:nonce-not-bumped-by-one", "txn %d applied: sender nonce %d -> %d", i, pre[t.From].Nonce, post[t.From].Nonce)
				}
			}
			appliedNonces[t.From] = append(appliedNonces[t.From], t.Nonce)
		}
		for id := range union(pre, post) {
			if (id != t.From || !applied) && pre[id].Nonce != post[id].Nonce {
				add("C03:foreign-nonce-changed", "txn %d (applied=%v) changed the nonce of account %d: %d -> %d", i, applied, id, pre[id].Nonce, post[id].Nonce)
			}
		}
		// ---- C02: failed call
		failedCall := t.Type == 1000 && (s.res.Rec.Class == "chargeable" || !s.res.Rec.Called)
		if applied && (s.res.Status == 2 || failedCall) {
			stt.chargeable++
			if len(s.res.Rec.Writes)+len(s.res.Rec.Trs)+len(s.res.Rec.Signed)+len(s.res.Rec.Events) > 0 {
				stt.chargeableDirty++
			}
			if s.res.Status != 2 {
				add("C02:failed-call-status", "txn %d: the contract returned an error but the status is %d", i, s.res.Status)
			}
			if s.res.Rec.Called && !s.res.Rec.Real && s.res.Output != chainh.OutText(s.res.Rec.Out) {
				add("C02:failed-call-output", "txn %d: output %q is not the contract's error %q", i, s.res.Output, chainh.OutText(s.res.Rec.Out))
			}
			if pre[t.From].Nonce != math.MaxInt64 && post[t.From].Nonce != pre[t.From].Nonce+1 {
				add("C02:failed-call-nonce", "txn %d failed in the contract and was applied: sender nonce %d -> %d (must go up by one)", i, pre[t.From].Nonce, post[t.From].Nonce)
			}
			if !sameNodes(s.pre, s.post) {
				add("C02:failed-call-left-writes", "txn %d failed in the contract but contract nodes changed", i)
			}
			fee := uint64(0)
			if h.Fee {
				fee = t.Fee
			}
			for id := range union(pre, post) {
				switch {
				case id == t.From:
					if !(bi(post[id].Bal).Cmp(new(big.Int).Sub(bi(pre[id].Bal), bi(fee))) == 0) {
						add("C02:failed-call-sender-balance", "txn %d failed in the contract: sender balance %d -> %d with fee %d", i, pre[id].Bal, post[id].Bal, fee)
					}
				case id == chainh.IDMiner:
					if !(bi(post[id].Bal).Cmp(new(big.Int).Add(bi(pre[id].Bal), bi(fee))) == 0) {
						add("C02:failed-call-fee-not-paid", "txn %d failed in the contract: fee wallet %d -> %d with fee %d", i, pre[id].Bal, post[id].Bal, fee)
					}
					if fee == 0 && pre[id] != post[id] {
						add("C02:failed-call-touched-account", "txn %d failed in the contract but account %d changed", i, id)
					}
				default:
					if pre[id] != post[id] {
						add("C02:failed-call-touched-account", "txn %d failed in the contract but account %d changed", i, id)
					}
				}
			}
			okEv := len(s.res.Events) >= 1 && s.res.Events[0].K == "error"
			for k, e := range s.res.Events {
				if k == 0 {
					continue
				}
				switch {
				case e.K == "unique" && pre[t.From].Nonce == 0:
				case e.K == "user" && (e.ID == t.From || (e.ID == chainh.IDMiner && fee != 0)) &&
					e.Bal == post[e.ID].Bal && e.Nonce == post[e.ID].Nonce:
				default:
					okEv = false
				}
			}
			if !okEv {
				add("C02:failed-call-events", "txn %d failed in the contract; events are %+v", i, s.res.Events)
			}
		}
		// ---- C04: attribution of debits
		if applied {
			if len(eff) >= 2 {
				stt.multiTransfer++
			}
			out := map[int]*big.Int{}
			var senderQueued = new(big.Int)
			for _, tr := range eff {
				if tr.Amt == 0 {
					continue
				}
				if out[tr.From] == nil {
					out[tr.From] = new(big.Int)
				}
				out[tr.From].Add(out[tr.From], bi(tr.Amt))
			}
			for _, tr := range s.res.Rec.Trs {
				if tr.From == t.From && s.res.Rec.Class == "ok" {
					senderQueued.Add(senderQueued, bi(tr.Amt))
				}
			}
			signedFromSender := false
			for _, tr := range s.res.Rec.Signed {
				if tr.From == t.From && tr.Amt != 0 && s.res.Rec.Class == "ok" {
					signedFromSender = true
				}
			}
			for id := range union(pre, post) {
				if post[id].Bal < pre[id].Bal {
					fell := new(big.Int).Sub(bi(pre[id].Bal), bi(post[id].Bal))
					if out[id] == nil {
						add("C04:unattributed-debit", "txn %d lowered account %d by %s although no transfer of the transaction names it as source", i, id, fell)
					} else if fell.Cmp(out[id]) > 0 {
						add("C04:debit-exceeds-transfers", "txn %d lowered account %d by %s, more than the %s its transfers take", i, id, fell, out[id])
					}
				}
			}
			if h.Real {
				for id := range union(pre, post) {
					if post[id].Bal < pre[id].Bal && id != t.From && id != t.To {
						add("C04:real-contract-debits-third-party", "txn %d (%s of contract %d) lowered account %d, which is neither the sender nor the called contract's wallet", i, t.Fn, t.To, id)
					}
				}
				for _, tr := range append(append([]chainh.Tr{}, s.res.Rec.Trs...), s.res.Rec.Signed...) {
					if tr.From == -999 || tr.To == -999 {
						stt.realUnknown++
					}
				}
			}
			allowed := bi(t.Value)
			if h.Fee {
				allowed = new(big.Int).Add(allowed, bi(t.Fee))
			}
			if post[t.From].Bal < pre[t.From].Bal {
				fell := new(big.Int).Sub(bi(pre[t.From].Bal), bi(post[t.From].Bal))
				capHeld := t.Type != 1000 || (senderQueued.Cmp(bi(t.Value)) <= 0 && !signedFromSender)
				if h.Real && fell.Cmp(allowed) > 0 {
					add("C04:real-contract-overdebits-sender", "txn %d (%s of contract %d) lowered its sender by %s > value+fee = %s", i, t.Fn, t.To, fell, allowed)
				}
				if fell.Cmp(allowed) > 0 {
					if capHeld {
						add("C04:sender-debit-exceeds-value-fee", "txn %d lowered its sender by %s > value+fee = %s", i, fell, allowed)
					} else {
						// the contract queued more from the sender than the transaction's value and the
						// chain applied it: StateContext.Validate ran before the contract did
						stt.capBypassed++
					}
				}
			}
			if t.Type == 1000 && s.res.Rec.Class == "ok" {
				for _, tr := range s.res.Rec.Signed {
					if tr.Amt != 0 {
						stt.signedApplied++
					}
				}
			}
		}
	}
	// ---- C03 over the history: no double apply, no gap
	for id, ns := range appliedNonces {
		n0 := initNonce[id]
		if n0 > math.MaxInt64-int64(len(ns))-1 {
			continue
		}
		seen := map[int64]bool{}
		for k, n := range ns {
			if seen[n] {
				add("C03:double-apply", "sender %d: nonce %d applied twice", id, n)
			}
			seen[n] = true
			if n != n0+int64(k)+1 {
				add("C03:nonce-gap", "sender %d: applied nonces %v do not continue %d without gap", id, ns, n0)
				break
			}
		}
	}
	return vs, stt
}

func union(a, b map[int]chainh.Acct) map[int]bool {
	u := map[int]bool{}
	for k := range a {
		u[k] = true
	}
	for k := range b {
		u[k] = true
	}
	return u
}

// ---------- Gallina printing ----------

func coqAcct(a chainh.Acct) string {
	return vh.Pair(vh.Z(int64(a.ID)), fmt.Sprintf("cs_A %s %s %s %s", vh.ZU(a.Bal), vh.Z(a.Nonce), vh.Z(int64(a.Txn)), vh.Z(a.Round)))
}
func coqState(s chainh.Snap) string {
	as := make([]string, len(s.Accts))
	for i, a := range s.Accts {
		as[i] = coqAcct(a)
	}
	ns := make([]string, len(s.Nodes))
	for i, n := range s.Nodes {
		ns[i] = vh.Pair(vh.Z(int64(n.Key)), vh.Z(n.Val))
	}
	extra := ""
	if s.Unknown > 0 { // force a mismatch: the model has no such leaf
		extra = fmt.Sprintf("; (-%d, 0)", s.Unknown)
		if len(ns) == 0 {
			extra = fmt.Sprintf("(-%d, 0)", s.Unknown)
		}
	}
	return fmt.Sprintf("{| st_accts := %s; st_nodes := [%s%s] |}", vh.List(as), strings.Join(ns, "; "), extra)
}
// coqChanged lists the client leaves that differ from the previous listing (leaves are never
// deleted by the code under test; a vanished leaf is printed as an impossible entry).
func coqChanged(pre, post chainh.Snap) string {
	pm, qm := acctMap(pre), acctMap(post)
	var out []string
	for _, a := range post.Accts {
		if b, ok := pm[a.ID]; !ok || b != a {
			out = append(out, coqAcct(a))
		}
	}
	for _, a := range pre.Accts {
		if _, ok := qm[a.ID]; !ok {
			out = append(out, fmt.Sprintf("(-9999, cs_A 0 0 0 0)"))
		}
	}
	return vh.List(out)
}
func coqNodes(s chainh.Snap) string {
	ns := make([]string, len(s.Nodes))
	for i, n := range s.Nodes {
		ns[i] = vh.Pair(vh.Z(int64(n.Key)), vh.Z(n.Val))
	}
	if s.Unknown > 0 { // force a mismatch: the model has no such leaf
		ns = append(ns, fmt.Sprintf("(-%d, 0)", s.Unknown))
	}
	return vh.List(ns)
}
func coqTr(t chainh.Tr) string {
	return fmt.Sprintf("cs_T %s %s %s", vh.Z(int64(t.From)), vh.Z(int64(t.To)), vh.ZU(t.Amt))
}
func coqTrs(l []chainh.Tr) string {
	out := make([]string, len(l))
	for i, t := range l {
		out[i] = coqTr(t)
	}
	return vh.List(out)
}
func coqType(t int) string {
	switch t {
	case 0:
		return "TSend"
	case 10:
		return "TData"
	case 1000:
		return "TSC"
	}
	return "TOther"
}
func coqWrites(rec chainh.Recorded) string {
	ws := make([]string, len(rec.Writes))
	for i, w := range rec.Writes {
		if rec.Del[i] {
			ws[i] = vh.Pair(vh.Z(w[0]), "None")
		} else {
			ws[i] = vh.Pair(vh.Z(w[0]), vh.Some(vh.Z(w[1])))
		}
	}
	return vh.List(ws)
}
func coqReads(rec chainh.Recorded) string {
	rs := make([]string, len(rec.Reads))
	for i, r := range rec.Reads {
		seen := "None"
		if r.Seen != nil {
			seen = vh.Some(vh.Z(*r.Seen))
		}
		rs[i] = fmt.Sprintf("(%s, %s, %s)", vh.Nat(r.Pos), vh.Z(int64(r.Key)), seen)
	}
	return vh.List(rs)
}
func coqResult(t chainh.Txn, rec chainh.Recorded) string {
	if t.Type != 1000 {
		return "SCInternal"
	}
	if !rec.Called {
		return "(SCChargeable (-1000))"
	}
	switch rec.Class {
	case "ok":
		evs := make([]string, len(rec.Events))
		for i, e := range rec.Events {
			evs[i] = vh.Z(int64(e))
		}
		return fmt.Sprintf("(SCOk %s %s %s %s %s)", coqWrites(rec), coqTrs(rec.Trs), coqTrs(rec.Signed), vh.List(evs), vh.Z(int64(rec.Out)))
	case "chargeable":
		return fmt.Sprintf("(SCChargeable %s)", vh.Z(int64(rec.Out)))
	}
	return "SCInternal"
}
func coqEvents(evs []chainh.Ev) string {
	out := make([]string, len(evs))
	for i, e := range evs {
		switch e.K {
		case "script":
			out[i] = "EvScript " + vh.Z(int64(e.Tag))
		case "error":
			out[i] = "EvError " + vh.Z(int64(e.Tag))
		case "unique":
			out[i] = "EvUnique"
		case "user":
			out[i] = fmt.Sprintf("EvUser %s %s %s", vh.Z(int64(e.ID)), vh.ZU(e.Bal), vh.Z(e.Nonce))
		default:
			out[i] = "EvScript (-999)"
		}
	}
	return vh.List(out)
}
func coqObs(t chainh.Txn, r chainh.Result) string {
	if r.Panic != "" {
		return "ObsPanic"
	}
	if !r.Applied {
		cls := 4 // the properties only single out the wrong-nonce rejection
		if r.ErrCls == "nonce" {
			cls = 0
		}
		return fmt.Sprintf("ObsRejected %d", cls)
	}
	out := "None"
	if t.Type == 1000 {
		tok := -1000
		_, _ = fmt.Sscanf(r.Output, "verif-out-%d", &tok)
		out = vh.Some(vh.Z(int64(tok)))
	} else if r.Output != "" {
		out = "(Some (-998))"
	}
	return fmt.Sprintf("ObsApplied %d %s %s", r.Status, out, coqEvents(r.Events))
}

func coqCase(h hist, steps []step) string {
	init := chainh.Snap{Accts: append([]chainh.Acct{}, h.Init...), Nodes: append([]chainh.Node{}, h.Nodes...)}
	if len(steps) > 0 {
		init = steps[0].pre
	}
	items := make([]string, len(steps))
	obs := make([]string, len(steps))
	for i, s := range steps {
		t := h.Txns[i]
		items[i] = fmt.Sprintf("(%s, cs_X %d %s %s %s %s %s %s, %s)", vh.Z(t.Round), i, coqType(t.Type), vh.Z(int64(t.From)),
			vh.Z(int64(t.To)), vh.ZU(t.Value), vh.ZU(t.Fee), vh.Z(t.Nonce), coqResult(t, s.res.Rec))
		obs[i] = fmt.Sprintf("cs_SO (%s) %s %s %s %s", coqObs(t, s.res), coqChanged(s.pre, s.post), coqNodes(s.post), coqWrites(s.res.Rec), coqReads(s.res.Rec))
	}
	return fmt.Sprintf("CaseHist {| csc_cfg := {| cfg_fee := %s; cfg_events := %s; cfg_miner := 0; cfg_strict_ids := %s |}; csc_init := %s;\n     csc_items := %s;\n     csc_obs := %s |}",
		vh.Bool(h.Fee), vh.Bool(h.Events), vh.Bool(chainh.StrictIDs()), coqState(init), vh.List(items), vh.List(obs))
}

// ---------- generator ----------

type profile struct {
	maxTxns                               int
	nonceNoise, failMode, edgeAmt, multiT int // per-100 weights
	edgyHist                              int // per-100: histories that use boundary balances / amounts at all
	orderQ                                int // per-100 per contract call: order-sensitive transfer queue
	upper                                 int // per-100 per txn: aim a transfer at the upper-case spelling of an existing id
}

func profileFor(prop string, o vh.Opts) profile {
	p := profile{maxTxns: o.N(12, 40), nonceNoise: 12, failMode: 25, edgeAmt: 14, multiT: 40, edgyHist: 25, orderQ: 6}
	switch prop {
	case "C02", "C07":
		p.failMode = 55
	case "C03":
		p.nonceNoise = 40
	case "C04":
		p.multiT = 70
		p.orderQ = 15
	case "C05":
		p.edgeAmt = 25
		p.edgyHist = 45
		p.multiT = 65
		p.orderQ = 20
	}
	return p
}

var edgeBalances = []uint64{0, 1, 5, 1 << 53, 1<<53 + 1, maxSupply, 1 << 63, u64max - 1, u64max}

func pickBal(r *vh.Rand, edge int) uint64 {
	if r.Chance(edge, 100) {
		return r.PickU64(edgeBalances)
	}
	switch r.Intn(10) {
	case 0:
		return uint64(r.Range(0, 20))
	case 1, 2:
		return uint64(r.Range(100, 5000))
	default:
		return uint64(r.Range(1000, 1000000))
	}
}

func around(r *vh.Rand, x uint64) uint64 {
	switch r.Intn(5) {
	case 0:
		if x > 0 {
			return x - 1
		}
		return 0
	case 1:
		return x
	case 2:
		if x < u64max {
			return x + 1
		}
		return x
	case 3:
		return x / 2
	}
	if x > 10 {
		return x - uint64(r.Range(2, 10))
	}
	return x
}

// genHist generates adaptively: it keeps the state the real code produced so far to aim nonces,
// values and fees at the interesting boundaries.  The history is then re-run from scratch.
func genHist(r *vh.Rand, p profile) hist {
	h := hist{Fee: !r.Chance(1, 5), Events: r.Bool()}
	if !r.Chance(p.edgyHist, 100) {
		p.edgeAmt = 0 // a calm history: moderate balances and amounts, most transactions succeed
	}
	nClients := r.Range(2, 6)
	clients := []int{}
	for i := 0; i < nClients; i++ {
		clients = append(clients, chainh.FirstUser+i)
	}
	fresh := chainh.FirstUser + nClients // a client without a leaf
	if r.Chance(3, 4) {
		h.Init = append(h.Init, chainh.Acct{ID: chainh.IDMiner, Bal: pickBal(r, p.edgeAmt/2), Txn: -1})
	}
	if p.edgeAmt == 0 {
		h.Init = append(h.Init, chainh.Acct{ID: chainh.IDScript, Bal: uint64(r.Range(100000, 1000000)), Txn: -1})
	} else if r.Chance(4, 5) {
		h.Init = append(h.Init, chainh.Acct{ID: chainh.IDScript, Bal: pickBal(r, p.edgeAmt), Txn: -1})
	}
	for _, c := range clients {
		a := chainh.Acct{ID: c, Bal: pickBal(r, p.edgeAmt), Txn: -1}
		switch {
		case p.edgeAmt > 0 && r.Chance(1, 12):
			a.Nonce = math.MaxInt64 - int64(r.Range(0, 1))
		case r.Chance(1, 6):
			a.Nonce = int64(r.Range(1, 9))
		}
		h.Init = append(h.Init, a)
	}
	if r.Chance(1, 8) {
		// genesis-like: the script contract holds whatever makes the supply MaxTokenSupply
		sum := new(big.Int)
		for _, a := range h.Init {
			if a.ID != chainh.IDScript {
				sum.Add(sum, bi(a.Bal))
			}
		}
		if sum.Cmp(bi(maxSupply)) <= 0 {
			rest := new(big.Int).Sub(bi(maxSupply), sum).Uint64()
			found := false
			for i := range h.Init {
				if h.Init[i].ID == chainh.IDScript {
					h.Init[i].Bal = rest
					found = true
				}
			}
			if !found {
				h.Init = append(h.Init, chainh.Acct{ID: chainh.IDScript, Bal: rest, Txn: -1})
			}
		}
	}
	sort.Slice(h.Init, func(i, j int) bool { return h.Init[i].ID < h.Init[j].ID })
	for k := 0; k < r.Range(0, 2); k++ {
		h.Nodes = append(h.Nodes, chainh.Node{Key: k, Val: int64(r.Range(1, 99))})
	}
	st := chainh.NewState(env(h.Fee, h.Events), universe, h.Init, h.Nodes)
	n := r.Range(1, p.maxTxns)
	round := int64(r.Range(1, 50))
	for i := 0; i < n; i++ {
		snap := acctMap(universe.Snapshot(st.MPT))
		if r.Chance(1, 4) {
			round++
		}
		from := clients[r.Intn(len(clients))]
		if r.Chance(1, 20) {
			from = fresh
		}
		if r.Chance(1, 60) {
			from = chainh.IDMiner
		}
		cur := snap[from]
		t := chainh.Txn{From: from, Round: round, Nonce: cur.Nonce + 1}
		if r.Chance(p.nonceNoise, 100) {
			t.Nonce = cur.Nonce + r.Pick64([]int64{0, 0, 2, 2, -1, 5, -cur.Nonce, -cur.Nonce - 1, 1})
		}
		other := func() int {
			c := clients[r.Intn(len(clients))]
			if r.Chance(1, 10) {
				c = fresh + r.Range(0, 1)
			}
			return c
		}
		// value and fee
		switch {
		case r.Chance(p.edgeAmt, 100):
			t.Value = r.PickU64([]uint64{0, 1, cur.Bal, around(r, cur.Bal), 1<<53 + 1, maxSupply, maxSupply + 1, u64max})
		case r.Chance(1, 4):
			t.Value = 0
		default:
			t.Value = uint64(r.Range(1, 300))
		}
		switch {
		case r.Chance(p.edgeAmt/3, 100):
			t.Fee = r.PickU64([]uint64{around(r, cur.Bal), cur.Bal - min64(cur.Bal, t.Value), u64max, u64max - t.Value + 1, 1 << 63})
		case r.Chance(1, 3):
			t.Fee = 0
		default:
			t.Fee = uint64(r.Range(1, 20))
		}
		switch x := r.Intn(100); {
		case x < 55:
			t.Type = 1000
			t.To = chainh.IDScript
			if r.Chance(1, 12) {
				t.To = chainh.IDNoSC
			}
			t.Script = genScript(r, p, t, snap, clients, fresh)
		case x < 85:
			t.Type = 0
			t.To = other()
			if r.Chance(1, 15) {
				t.To = from
			}
			if r.Chance(1, 25) {
				t.To = -1
			}
			if r.Chance(1, 6) {
				t.Value = around(r, cur.Bal-min64(cur.Bal, t.Fee))
			}
		case x < 95:
			t.Type = 10
			t.To = other()
		default:
			t.Type = r.Range(1, 9)
			t.To = other()
		}
		if p.upper > 0 && r.Chance(p.upper, 100) {
			// destination = upper-case spelling of a client whose lower-case leaf exists
			d := clients[r.Intn(len(clients))]
			if _, ok := snap[d]; ok {
				if _, up := snap[chainh.UpperBase+d]; !up {
					switch t.Type {
					case 0:
						t.To = chainh.UpperBase + d
						if t.Value == 0 || t.Value > cur.Bal {
							t.Value = cur.Bal / 3
						}
					case 1000:
						if t.To == chainh.IDScript {
							k := "t"
							if r.Bool() {
								k = "s" // a signed transfer: AddSignedTransfer takes any destination, updateState must refuse it
							}
							t.Script.Ops = append(t.Script.Ops, chainh.ScOp{K: k, From: chainh.IDScript, To: chainh.UpperBase + d, Amt: uint64(r.Range(0, 100))})
						}
					}
				}
			}
		}
		h.Txns = append(h.Txns, t)
		st.Apply(i, t)
	}
	return h
}

func min64(a, b uint64) uint64 {
	if a < b {
		return a
	}
	return b
}

// nodeKey: plain nodes 0-3, cacheable nodes 8-10 (few keys so that calls meet on them)
func nodeKey(r *vh.Rand) int {
	if r.Bool() {
		return chainh.CacheableFrom + r.Range(0, 2)
	}
	return r.Range(0, 3)
}

func genScript(r *vh.Rand, p profile, t chainh.Txn, snap map[int]chainh.Acct, clients []int, fresh int) chainh.Script {
	s := chainh.Script{Mode: "ok", Out: r.Range(1, 50)}
	if r.Chance(p.failMode, 100) {
		s.Mode = []string{"fail", "fail", "fail", "internal", "nodenotfound"}[r.Intn(5)]
	}
	nops := r.Range(0, 3)
	if r.Chance(p.multiT, 100) {
		nops = r.Range(2, 6)
	}
	anyAcct := func() int {
		switch r.Intn(8) {
		case 0:
			return chainh.IDScript
		case 1:
			return chainh.IDMiner
		case 2:
			return fresh
		}
		return clients[r.Intn(len(clients))]
	}
	// order-sensitive queues: the same (from, to) pair twice with a dependent transfer in between
	// (chain a->b, b->c, a->b; cycle a->b, b->a, a->b), amounts at the balance +-1 so that the
	// order in which the contract queued them decides whether the transaction can be applied
	if r.Chance(p.orderQ, 100) {
		a, b, c := anyAcct(), anyAcct(), anyAcct()
		for b == a {
			b = clients[r.Intn(len(clients))]
		}
		for c == a || c == b {
			c = clients[r.Intn(len(clients))]
			if len(clients) < 3 && (c == a || c == b) {
				c = fresh
				break
			}
		}
		A, B := snap[a].Bal, snap[b].Bal
		if A >= 2 && A < 1<<62 && B < 1<<62 {
			x := A/2 + uint64(r.Range(0, 1))
			z := A - x
			if r.Chance(1, 4) && z > 0 {
				z -= uint64(r.Range(0, 1))
			}
			if r.Bool() { // chain: b->c needs part of the second a->b
				y := B + x + uint64(r.Range(0, 2))
				if r.Chance(1, 3) {
					y = B + x + z
				}
				s.Ops = append(s.Ops, chainh.ScOp{K: "t", From: a, To: b, Amt: x}, chainh.ScOp{K: "t", From: b, To: c, Amt: y}, chainh.ScOp{K: "t", From: a, To: b, Amt: z})
			} else { // cycle: the second a->b is paid out of what b sent back
				x = A - uint64(r.Range(0, 1))
				y := uint64(r.Range(1, 10))
				if y > B+x {
					y = B + x
				}
				z2 := y + A - x
				if r.Chance(1, 3) {
					z2++
				}
				s.Ops = append(s.Ops, chainh.ScOp{K: "t", From: a, To: b, Amt: x}, chainh.ScOp{K: "t", From: b, To: a, Amt: y}, chainh.ScOp{K: "t", From: a, To: b, Amt: z2})
			}
			if r.Chance(1, 3) {
				s.Ops = append(s.Ops, chainh.ScOp{K: "w", Key: nodeKey(r), Val: int64(r.Range(1, 99))})
			}
			return s
		}
	}
	// most calls first look at a few nodes (as contracts load their global node, partitions ...)
	for k, n := 0, r.Range(0, 3); k < n; k++ {
		s.Ops = append(s.Ops, chainh.ScOp{K: "r", Key: nodeKey(r)})
	}
	for k := 0; k < nops; k++ {
		switch x := r.Intn(100); {
		case x < 8:
			s.Ops = append(s.Ops, chainh.ScOp{K: "r", Key: nodeKey(r)})
		case x < 55:
			o := chainh.ScOp{K: "t"}
			switch y := r.Intn(100); {
			case y < 40: // the usual: sender pays the contract its value (or part of it)
				o.From, o.To, o.Amt = t.From, chainh.IDScript, t.Value
				if r.Chance(1, 4) {
					o.Amt = t.Value / 2
				}
			case y < 65: // contract pays out
				o.From, o.To = chainh.IDScript, clients[r.Intn(len(clients))]
				o.Amt = uint64(r.Range(0, 200))
				if r.Chance(1, 8) {
					o.Amt = around(r, snap[chainh.IDScript].Bal)
				}
			case y < 75: // sender over-spend (more than the value)
				o.From, o.To, o.Amt = t.From, chainh.IDScript, t.Value+uint64(r.Range(1, 50))
			case y < 87: // foreign source
				o.From, o.To, o.Amt = anyAcct(), anyAcct(), uint64(r.Range(0, 100))
				if o.From == o.To {
					o.To = clients[0]
					if o.From == o.To {
						o.To = clients[1]
					}
				}
			case y < 90: // self transfer
				o.From = anyAcct()
				o.To, o.Amt = o.From, uint64(r.Range(0, 3))
			case y < 95: // malformed destination
				o.From, o.To, o.Amt = t.From, -1, uint64(r.Range(0, 5))
			default: // boundary amounts
				o.From, o.To = anyAcct(), anyAcct()
				if p.edgeAmt == 0 {
					o.Amt = around(r, snap[o.From].Bal)
					break
				}
				o.Amt = r.PickU64([]uint64{0, snap[o.From].Bal, around(r, snap[o.From].Bal), u64max - snap[o.To].Bal, u64max - snap[o.To].Bal + 1, u64max, 1 << 63})
			}
			s.Ops = append(s.Ops, o)
		case x < 75:
			s.Ops = append(s.Ops, chainh.ScOp{K: "w", Key: nodeKey(r), Val: int64(r.Range(1, 99))})
		case x < 82:
			s.Ops = append(s.Ops, chainh.ScOp{K: "d", Key: nodeKey(r)})
		case x < 94:
			s.Ops = append(s.Ops, chainh.ScOp{K: "e", Key: r.Range(1, 9)})
		default:
			s.Ops = append(s.Ops, chainh.ScOp{K: "s", From: anyAcct(), To: anyAcct(), Amt: uint64(r.Range(0, 50))})
		}
	}
	return s
}

// ---------- real contracts (C04) ----------

// genRealHist: adaptive history of calls of the real faucetsc (pour, refill), vestingsc (add, trigger,
// unlock, stop, delete) and zcnsc (burn) through Chain.UpdateState, small valid and invalid inputs.
func genRealHist(r *vh.Rand) hist {
	h := hist{Fee: !r.Chance(1, 4), Real: true}
	clients := []int{3, 4, 5, 6}
	h.Init = append(h.Init, chainh.Acct{ID: chainh.IDMiner, Bal: uint64(r.Range(0, 1000)), Txn: -1})
	for _, c := range clients {
		h.Init = append(h.Init, chainh.Acct{ID: c, Bal: uint64(r.Range(200, 100000)), Txn: -1})
	}
	h.Init = append(h.Init, chainh.Acct{ID: chainh.IDFaucet, Bal: uint64(r.Range(0, 2000)), Txn: -1})
	if r.Bool() {
		h.Init = append(h.Init, chainh.Acct{ID: chainh.IDVesting, Bal: uint64(r.Range(0, 50)), Txn: -1})
	}
	if r.Bool() {
		h.Init = append(h.Init, chainh.Acct{ID: chainh.IDZcn, Bal: uint64(r.Range(0, 50)), Txn: -1})
	}
	sort.Slice(h.Init, func(i, j int) bool { return h.Init[i].ID < h.Init[j].ID })
	st := newState(h)
	type pool struct{ idx, owner int }
	var pools []pool
	n := r.Range(4, 16)
	round := int64(5)
	for i := 0; i < n; i++ {
		snap := acctMap(universe.Snapshot(st.MPT))
		round++
		from := clients[r.Intn(len(clients))]
		t := chainh.Txn{Type: 1000, From: from, Round: round, Nonce: snap[from].Nonce + 1, Fee: uint64(r.Range(0, 5))}
		poolOf := func() (string, int) {
			if len(pools) == 0 || r.Chance(1, 10) {
				return chainh.VestingPoolID(90), from
			}
			p := pools[r.Intn(len(pools))]
			if r.Chance(2, 3) {
				t.From = p.owner
				t.Nonce = snap[p.owner].Nonce + 1
			}
			return chainh.VestingPoolID(p.idx), p.owner
		}
		switch x := r.Intn(100); {
		case x < 20:
			t.To, t.Fn = chainh.IDFaucet, "pour"
			t.Value = uint64(r.Range(0, 120))
		case x < 30:
			t.To, t.Fn = chainh.IDFaucet, "refill"
			t.Value = uint64(r.Range(0, 300))
		case x < 50:
			t.To, t.Fn = chainh.IDVesting, "add"
			nd := r.Range(1, 3)
			var ds []string
			sum := uint64(0)
			for k := 0; k < nd; k++ {
				a := uint64(r.Range(1, 60))
				sum += a
				ds = append(ds, fmt.Sprintf(`{"id":%q,"amount":%d}`, chainh.AccountID(clients[r.Intn(len(clients))]), a))
			}
			t.Value = sum + uint64(r.Range(0, 20))
			if r.Chance(1, 6) {
				t.Value = sum / 2
			}
			t.Input = fmt.Sprintf(`{"description":"verif","start_time":0,"duration":%d,"destinations":[%s]}`, int64(r.Range(1, 12))*1000000000, strings.Join(ds, ","))
			pools = append(pools, pool{i, from})
		case x < 60:
			t.To, t.Fn = chainh.IDVesting, "trigger"
			id, _ := poolOf()
			t.Input = fmt.Sprintf(`{"pool_id":%q}`, id)
		case x < 70:
			t.To, t.Fn = chainh.IDVesting, "unlock"
			id, _ := poolOf()
			t.Input = fmt.Sprintf(`{"pool_id":%q}`, id)
		case x < 76:
			t.To, t.Fn = chainh.IDVesting, "stop"
			id, _ := poolOf()
			t.Input = fmt.Sprintf(`{"pool_id":%q,"destination":%q}`, id, chainh.AccountID(clients[r.Intn(len(clients))]))
		case x < 82:
			t.To, t.Fn = chainh.IDVesting, "delete"
			id, _ := poolOf()
			t.Input = fmt.Sprintf(`{"pool_id":%q}`, id)
		case x < 96:
			t.To, t.Fn = chainh.IDZcn, "burn"
			t.Value = uint64(r.Range(0, 40))
			t.Input = fmt.Sprintf(`{"ethereum_address":"0x%040x"}`, 0x5000+r.Range(0, 3))
			if r.Chance(1, 8) {
				t.Input = `{"ethereum_address":""}`
			}
		default:
			t.To, t.Fn = []int{chainh.IDFaucet, chainh.IDVesting, chainh.IDZcn}[r.Intn(3)], "no-such-function"
			t.Input = `{"x":1`
		}
		if r.Chance(1, 12) {
			t.Value = snap[t.From].Bal + uint64(r.Range(0, 2))
		}
		h.Txns = append(h.Txns, t)
		st.Apply(i, t)
	}
	return h
}

// genStakeHist (C04): real calls that move the sender's own tokens, with repeats: minersc
// addToDelegatePool by the same client on the same provider with different values, faucet refill,
// vestingsc add, zcnsc burn.
func genStakeHist(r *vh.Rand) hist {
	h := hist{Fee: !r.Chance(1, 4), Real: true}
	clients := []int{3, 4, 5}
	h.Init = append(h.Init, chainh.Acct{ID: chainh.IDMiner, Bal: uint64(r.Range(0, 1000)), Txn: -1})
	for _, c := range clients {
		h.Init = append(h.Init, chainh.Acct{ID: c, Bal: uint64(r.Range(2000, 100000)), Txn: -1})
	}
	h.Init = append(h.Init, chainh.Acct{ID: chainh.IDFaucet, Bal: 500, Txn: -1})
	st := newState(h)
	n := r.Range(3, 10)
	round := int64(4)
	for i := 0; i < n; i++ {
		snap := acctMap(universe.Snapshot(st.MPT))
		round++
		from := clients[r.Intn(2)] // few clients so that they stake again on the same provider
		t := chainh.Txn{Type: 1000, From: from, Round: round, Nonce: snap[from].Nonce + 1, Fee: uint64(r.Range(0, 5))}
		switch x := r.Intn(10); {
		case x < 7:
			t.To, t.Fn = chainh.IDMiner, "addToDelegatePool"
			prov := r.Intn(2)
			t.Value = uint64(r.Range(1, 400))
			t.Input = fmt.Sprintf(`{"provider_type":%d,"provider_id":%q}`, prov+1, chainh.ProviderID(prov))
			if r.Chance(1, 10) {
				t.Input = fmt.Sprintf(`{"provider_type":%d,"provider_id":%q}`, prov+1, chainh.ProviderID(7))
			}
		case x < 8:
			t.To, t.Fn, t.Value = chainh.IDFaucet, "refill", uint64(r.Range(1, 300))
		case x < 9:
			a := uint64(r.Range(1, 60))
			t.To, t.Fn, t.Value = chainh.IDVesting, "add", a+uint64(r.Range(0, 9))
			t.Input = fmt.Sprintf(`{"description":"verif","start_time":0,"duration":5000000000,"destinations":[{"id":%q,"amount":%d}]}`, chainh.AccountID(5), a)
		default:
			t.To, t.Fn, t.Value = chainh.IDZcn, "burn", uint64(r.Range(5, 40))
			t.Input = `{"ethereum_address":"0x0000000000000000000000000000000000005001"}`
		}
		h.Txns = append(h.Txns, t)
		st.Apply(i, t)
	}
	return h
}

// genBlockHist (C07): 3-6 blocks of 1-4 valid script calls over cacheable nodes 8-10 (writes, deletes,
// reads; success or chargeable failure); about half of the blocks from the second on hold one flaky
// call, so that their first ComputeState attempt is interrupted there and the block is computed again.
func genBlockHist(r *vh.Rand) hist {
	h := hist{Fee: r.Bool(), Blocks: true}
	clients := []int{3, 4, 5}
	h.Init = []chainh.Acct{{ID: chainh.IDMiner, Bal: 10, Txn: -1}, {ID: chainh.IDScript, Bal: 1000, Txn: -1}}
	nonce := map[int]int64{}
	for _, c := range clients {
		h.Init = append(h.Init, chainh.Acct{ID: c, Bal: uint64(r.Range(10000, 100000)), Txn: -1})
	}
	sort.Slice(h.Init, func(i, j int) bool { return h.Init[i].ID < h.Init[j].ID })
	nb := r.Range(3, 6)
	for b := 0; b < nb; b++ {
		nt := r.Range(1, 4)
		flakyAt := -1
		if b > 0 && r.Bool() {
			flakyAt = r.Intn(nt)
		}
		for k := 0; k < nt; k++ {
			from := clients[r.Intn(len(clients))]
			nonce[from]++
			s := chainh.Script{Mode: "ok", Out: r.Range(1, 50)}
			if r.Chance(1, 5) {
				s.Mode = "fail"
			}
			if k == flakyAt {
				s.Mode = "flaky"
			}
			for q, n := 0, r.Range(1, 4); q < n; q++ {
				key := chainh.CacheableFrom + r.Range(0, 2)
				switch x := r.Intn(10); {
				case x < 5:
					s.Ops = append(s.Ops, chainh.ScOp{K: "w", Key: key, Val: int64(r.Range(1, 99))})
				case x < 6:
					s.Ops = append(s.Ops, chainh.ScOp{K: "d", Key: key})
				default:
					s.Ops = append(s.Ops, chainh.ScOp{K: "r", Key: key})
				}
			}
			h.Txns = append(h.Txns, chainh.Txn{Type: 1000, From: from, To: chainh.IDScript, Fee: uint64(r.Range(0, 3)), Nonce: nonce[from], Round: int64(10 + b), Script: s})
		}
	}
	return h
}

// genNodeAddrHist (C01): real contract calls that write nodes, then small sends to and from addresses
// that equal hash-shaped contract node keys (every key the set-up and the contracts handed to
// InsertTrieNode is recorded) and the hashes of those keys.
func genNodeAddrHist(r *vh.Rand) hist {
	h := hist{Fee: r.Bool(), Real: true}
	h.Init = []chainh.Acct{{ID: chainh.IDMiner, Bal: 100, Txn: -1}, {ID: 3, Bal: uint64(r.Range(10000, 100000)), Txn: -1},
		{ID: 4, Bal: uint64(r.Range(10000, 100000)), Txn: -1}, {ID: chainh.IDFaucet, Bal: 1000, Txn: -1}}
	st := newState(h)
	nonce := map[int]int64{}
	next := func(from int) int64 { nonce[from]++; return nonce[from] }
	round := int64(3)
	add := func(t chainh.Txn) {
		round++
		t.Round = round
		st.Apply(len(h.Txns), t)
		h.Txns = append(h.Txns, t)
	}
	for i, n := 0, r.Range(1, 4); i < n; i++ {
		from := 3 + r.Intn(2)
		t := chainh.Txn{Type: 1000, From: from, Fee: uint64(r.Range(0, 3))}
		switch r.Intn(5) {
		case 0:
			t.From = 3
			t.To, t.Fn, t.Input = chainh.IDMiner, "update_settings", fmt.Sprintf(`{"fields":{"max_delegates":"%d"}}`, r.Range(100, 300))
		case 1:
			t.To, t.Fn, t.Value = chainh.IDMiner, "addToDelegatePool", uint64(r.Range(1, 200))
			t.Input = fmt.Sprintf(`{"provider_type":1,"provider_id":%q}`, chainh.ProviderID(0))
		case 2:
			a := uint64(r.Range(1, 60))
			t.To, t.Fn, t.Value = chainh.IDVesting, "add", a
			t.Input = fmt.Sprintf(`{"description":"verif","start_time":0,"duration":5000000000,"destinations":[{"id":%q,"amount":%d}]}`, chainh.AccountID(4), a)
		case 3:
			t.To, t.Fn, t.Value = chainh.IDZcn, "burn", uint64(r.Range(5, 40))
			t.Input = `{"ethereum_address":"0x0000000000000000000000000000000000005001"}`
		default:
			t.To, t.Fn, t.Value = chainh.IDFaucet, "pour", uint64(r.Range(1, 50))
		}
		t.Nonce = next(t.From)
		add(t)
	}
	// the address table: hash-shaped node keys and the hashes of all recorded keys
	keys := chainh.HashShapedKeys()
	h.Extra = append([]string{}, keys...)
	// Hash(key) is the trie path of the node itself: a send to that address is applied on the tree as it
	// is and overwrites the node with a client state (reported as C01:transfer-to-contract-node-path).
	// Rejected once State.Decode refuses values that are not exactly as long as an encoded client state.
	for _, k := range chainh.AllKeys() {
		h.Extra = append(h.Extra, chainh.HashOf(k))
	}
	chainh.SetExtra(h.Extra)
	for i, n := 0, r.Range(2, 6); i < n && len(h.Extra) > 0; i++ {
		k := r.Intn(len(h.Extra))
		if r.Chance(2, 3) && len(keys) > 0 {
			k = r.Intn(len(keys))
		}
		from := 3 + r.Intn(2)
		t := chainh.Txn{Type: 0, From: from, To: chainh.ExtraBase + k, Value: uint64(r.Range(1, 9)), Fee: uint64(r.Range(0, 2))}
		if r.Chance(1, 5) { // spend from such an address
			t.From, t.To = chainh.ExtraBase+k, from
		}
		t.Nonce = next(t.From)
		add(t)
	}
	return h
}

// genSettingsHist (C02): the real minersc (cacheable global node) and faucetsc update_settings
// through Chain.UpdateState over several blocks with the production cache layering: successful
// updates (which put the global node into the block / state cache and later save it again) around
// failing ones that change reference-typed fields (the cost table) in memory before validate()
// refuses them.
func genSettingsHist(r *vh.Rand) hist {
	h := hist{Fee: !r.Chance(1, 5), Real: true}
	h.Init = []chainh.Acct{{ID: chainh.IDMiner, Bal: uint64(r.Range(0, 1000)), Txn: -1}, {ID: 3, Bal: uint64(r.Range(10000, 100000)), Txn: -1},
		{ID: 4, Bal: uint64(r.Range(1000, 100000)), Txn: -1}, {ID: chainh.IDFaucet, Bal: 1000, Txn: -1}}
	st := newState(h)
	costs := []string{"add_miner", "add_sharder", "update_settings"}
	n := r.Range(3, 9)
	round := int64(r.Range(2, 9))
	for i := 0; i < n; i++ {
		snap := acctMap(universe.Snapshot(st.MPT))
		if !r.Chance(1, 4) {
			round++
		}
		from := 3 // the owner
		if r.Chance(1, 8) {
			from = 4
		}
		t := chainh.Txn{Type: 1000, From: from, To: chainh.IDMiner, Fn: "update_settings", Round: round, Nonce: snap[from].Nonce + 1, Fee: uint64(r.Range(0, 9))}
		var fields []string
		cost := func() { fields = append(fields, fmt.Sprintf(`"cost.%s":"%d"`, costs[r.Intn(len(costs))], r.Range(1, 99))) }
		if r.Chance(1, 5) {
			t.To, t.Fn = chainh.IDFaucet, "update-settings"
			switch r.Intn(3) {
			case 0:
				fields = append(fields, fmt.Sprintf(`"cost.pour":"%d"`, r.Range(1, 99)), `"pour_amount":"0"`) // refused by validate
			case 1:
				fields = append(fields, fmt.Sprintf(`"cost.refill":"%d"`, r.Range(1, 99)))
			default:
				fields = append(fields, fmt.Sprintf(`"max_pour_amount":"0.00000%d"`, r.Range(1, 9)))
			}
		} else {
			switch x := r.Intn(10); {
			case x < 4: // succeeds
				fields = append(fields, fmt.Sprintf(`"max_delegates":"%d"`, r.Range(100, 300)))
				if r.Bool() {
					cost()
				}
			case x < 8: // touches the cost table, then fails the validation
				cost()
				fields = append(fields, []string{`"max_n":"0"`, `"min_n":"0"`, `"t_percent":"7"`, `"max_s":"0"`}[r.Intn(4)])
			case x < 9: // fails without touching anything
				fields = append(fields, `"max_n":"0"`)
			default:
				fields = append(fields, `"no_such_setting":"1"`)
				cost()
			}
		}
		t.Input = `{"fields":{` + strings.Join(fields, ",") + `}}`
		h.Txns = append(h.Txns, t)
		st.Apply(i, t)
	}
	return h
}

// ---------- genesis (C01) ----------

func genGenesis(r *vh.Rand) []chainh.GenGroup {
	ng := r.Range(1, 3)
	ids := r.Perm(chainh.MaxAccount - chainh.FirstUser)
	next := 0
	take := func() int {
		if (r.Chance(1, 12) && next > 0) || next >= len(ids) {
			return ids[r.Intn(next)] + chainh.FirstUser // duplicate id
		}
		next++
		return ids[next-1] + chainh.FirstUser
	}
	var gs []chainh.GenGroup
	remaining := maxSupply
	for g := 0; g < ng; g++ {
		grp := chainh.GenGroup{ID: take()}
		if g == 0 && r.Bool() {
			grp.ID = chainh.IDScript
		}
		if g == ng-1 {
			grp.Tokens = remaining
		} else {
			grp.Tokens = uint64(r.U64() % (remaining/2 + 1))
		}
		remaining -= grp.Tokens
		left := grp.Tokens
		for c, nc := 0, r.Range(0, 3); c < nc; c++ {
			tok := uint64(0)
			if left > 0 {
				tok = r.U64() % (left/2 + 1)
			}
			if r.Chance(1, 6) {
				tok = uint64(r.Range(0, 1000))
			}
			if tok > left {
				tok = left
			}
			left -= tok
			grp.Clients = append(grp.Clients, chainh.GenClient{ID: take(), Tokens: tok})
		}
		gs = append(gs, grp)
	}
	// now and then break it: wrong total, a group paying out more than it holds, overflow
	switch r.Intn(12) {
	case 0:
		gs[len(gs)-1].Tokens++
	case 1:
		if gs[0].Tokens > 0 {
			gs[0].Tokens--
		}
	case 2:
		gs[0].Clients = append(gs[0].Clients, chainh.GenClient{ID: take(), Tokens: gs[0].Tokens + 1})
	case 3:
		gs = append(gs, chainh.GenGroup{ID: take(), Tokens: u64max})
	}
	return gs
}

func coqGenesis(gs []chainh.GenGroup, snap chainh.Snap, panicked bool) string {
	groups := make([]string, len(gs))
	for i, g := range gs {
		cl := make([]string, len(g.Clients))
		for k, c := range g.Clients {
			cl[k] = vh.Pair(vh.Z(int64(c.ID)), vh.ZU(c.Tokens))
		}
		groups[i] = fmt.Sprintf("(%s, %s, %s)", vh.Z(int64(g.ID)), vh.ZU(g.Tokens), vh.List(cl))
	}
	leaves := "None"
	if !panicked {
		as := make([]string, len(snap.Accts))
		for i, a := range snap.Accts {
			as[i] = coqAcct(a)
		}
		leaves = vh.Some(vh.List(as))
	}
	return fmt.Sprintf("CaseGen {| csg_groups := %s; csg_leaves := %s |}", vh.List(groups), leaves)
}

// checkGenesis: the property statement on the real mustInitGBState: an accepted distribution
// with pairwise different ids puts exactly MaxTokenSupply into the leaves.
func checkGenesis(gs []chainh.GenGroup, snap chainh.Snap, panicked bool) (vs []viol, dup bool) {
	seen := map[int]bool{}
	for _, g := range gs {
		for _, c := range g.Clients {
			dup = dup || seen[c.ID]
			seen[c.ID] = true
		}
		dup = dup || seen[g.ID]
		seen[g.ID] = true
	}
	if !panicked && !dup && total(snap).Cmp(bi(maxSupply)) != 0 {
		vs = append(vs, viol{"C01:genesis-supply", fmt.Sprintf("mustInitGBState accepted a distribution whose leaves sum to %s, not MaxTokenSupply", total(snap))})
	}
	return vs, dup
}

// exhaustive single-transfer scope: every combination of source balance, destination balance and
// amount from a boundary set, as a plain send and as a contract-queued transfer.
func exhaustive(fee bool) []hist {
	vals := []uint64{0, 1, 5, 1 << 63, u64max - 1, u64max}
	amts := []uint64{0, 1, 5, 6, 1 << 63, maxSupply, u64max}
	var out []hist
	for _, fb := range vals {
		for _, tb := range vals {
			for _, amt := range amts {
				init := []chainh.Acct{{ID: 3, Bal: fb, Txn: -1}, {ID: 4, Bal: tb, Txn: -1}}
				if amt <= maxSupply {
					out = append(out, hist{Fee: fee, Init: init, Txns: []chainh.Txn{{Type: 0, From: 3, To: 4, Value: amt, Fee: 0, Nonce: 1, Round: 3}}})
				}
				out = append(out, hist{Fee: fee, Init: init, Txns: []chainh.Txn{{Type: 1000, From: 3, To: chainh.IDScript, Value: 0, Fee: 1, Nonce: 1, Round: 3,
					Script: chainh.Script{Mode: "ok", Out: 1, Ops: []chainh.ScOp{{K: "t", From: 3, To: 4, Amt: amt}, {K: "w", Key: 1, Val: 1}}}}}})
			}
		}
	}
	return out
}

// exhaustive order scope: one contract call over accounts a=3 (10 tokens), b=4 (0 or 5), c=5 that
// queues a chain a->b x, b->c y, a->b z or a cycle a->b x, b->a y, a->b z, amounts around the
// points where the order of the queue decides.
func exhaustiveOrder() []hist {
	var out []hist
	for _, bb := range []uint64{0, 5} {
		for _, x := range []uint64{4, 5, 6, 10} {
			for _, y := range []uint64{4, 5, 9, 10, 11, 15} {
				for _, z := range []uint64{0, 4, 5, 6, 10} {
					for kind := 0; kind < 2; kind++ {
						ops := []chainh.ScOp{{K: "t", From: 3, To: 4, Amt: x}, {K: "t", From: 4, To: 5, Amt: y}, {K: "t", From: 3, To: 4, Amt: z}}
						if kind == 1 {
							ops[1] = chainh.ScOp{K: "t", From: 4, To: 3, Amt: y}
						}
						out = append(out, hist{Fee: true, Init: []chainh.Acct{{ID: 3, Bal: 10, Txn: -1}, {ID: 4, Bal: bb, Txn: -1}, {ID: 6, Bal: 9, Txn: -1}},
							Txns: []chainh.Txn{{Type: 1000, From: 6, To: chainh.IDScript, Fee: 1, Nonce: 1, Round: 2, Script: chainh.Script{Mode: "ok", Out: 1, Ops: ops}}}})
					}
				}
			}
		}
	}
	return out
}

// exhaustive nonce scope: every sequence of three transactions of one sender with nonces from
// {-1,0,1,2,3}, each a data transaction or a failing contract call.
func exhaustiveNonces() []hist {
	ns := []int64{-1, 0, 1, 2, 3}
	var out []hist
	for _, a := range ns {
		for _, b := range ns {
			for _, c := range ns {
				for kind := 0; kind < 2; kind++ {
					h := hist{Fee: true, Init: []chainh.Acct{{ID: 3, Bal: 100, Txn: -1}}}
					for _, n := range []int64{a, b, c} {
						t := chainh.Txn{Type: 10, From: 3, To: 4, Fee: 1, Nonce: n, Round: 2}
						if kind == 1 {
							t = chainh.Txn{Type: 1000, From: 3, To: chainh.IDScript, Fee: 1, Nonce: n, Round: 2, Script: chainh.Script{Mode: "fail", Out: 2}}
						}
						h.Txns = append(h.Txns, t)
					}
					out = append(out, h)
				}
			}
		}
	}
	return out
}

func key(h hist) string {
	var b strings.Builder
	fmt.Fprintf(&b, "%v%v%v%v", h.Fee, h.Events, h.Init, h.Nodes)
	for _, t := range h.Txns {
		fmt.Fprintf(&b, "|%v", t)
	}
	return b.String()
}

func sub(h hist, keep []int) hist {
	h2 := hist{Fee: h.Fee, Events: h.Events, Init: h.Init, Nodes: h.Nodes, Real: h.Real, Blocks: h.Blocks, Extra: h.Extra, Node56: h.Node56}
	for _, i := range keep {
		h2.Txns = append(h2.Txns, h.Txns[i])
	}
	return h2
}

// checkAll = check + the reference world for histories over real contracts: the same history in
// which every call that failed in its contract is replaced by a call of the same sender, fee,
// nonce and hash to an address with no contract behind it - it fails before anything runs, so it
// leaves exactly fee + nonce + error event.  If a failed call leaves nothing else behind either,
// both worlds have the same state root after every transaction.
func checkAll(h hist, steps []step) ([]viol, stats) {
	vs, st := check(h, steps)
	if !h.Real {
		return vs, st
	}
	ref := sub(h, seq(len(h.Txns)))
	ref.Real = true
	nfail := 0
	for i, s := range steps {
		if s.res.Applied && s.res.Status == 2 && s.res.Rec.Called && s.res.Rec.Real {
			t := ref.Txns[i]
			t.To, t.Fn, t.Input = chainh.IDNoSC, "", ""
			ref.Txns[i] = t
			nfail++
		}
	}
	st.realFailed = nfail
	if nfail == 0 {
		return vs, st
	}
	rsteps := run(ref)
	for i := range steps {
		if steps[i].root != rsteps[i].root {
			vs = append(vs, viol{"C02:failed-call-effect-surfaced-later", fmt.Sprintf(
				"after txn %d (%s) the state root differs from the reference world in which the %d earlier failed contract call(s) touched nothing but fee and nonce; miner SC global node in the trie: %s, reference: %s",
				i, h.Txns[i].Fn, nfail, steps[i].gn, rsteps[i].gn)})
			break
		}
	}
	return vs, st
}

// blockViols runs a Blocks history and applies the read oracle: whatever is read through the cache
// layers (by a call in a block, or by a query on a computed block) equals what the block's trie holds.
func blockViols(h hist) ([]viol, chainh.BlocksResult) {
	res := chainh.RunBlocks(env(h.Fee, h.Events), h.Init, h.Txns)
	var vs []viol
	show := func(p *int64) string {
		if p == nil {
			return "absent"
		}
		return fmt.Sprint(*p)
	}
	for _, rd := range res.Reads {
		if (rd.Seen == nil) != (rd.Trie == nil) || (rd.Seen != nil && *rd.Seen != *rd.Trie) {
			vs = append(vs, viol{"C07:context-read-differs-from-trie", fmt.Sprintf("%s read node %d through the state cache layers and got %s; the block's trie holds %s (history has %d block(s), %d interrupted first attempt(s))",
				rd.Where, rd.Key, show(rd.Seen), show(rd.Trie), res.Blocks, res.Interrupted)})
		}
	}
	return vs, res
}

func hasSig(h hist, sig string) bool {
	if h.Blocks {
		vs, _ := blockViols(h)
		for _, v := range vs {
			if v.sig == sig {
				return true
			}
		}
		return false
	}
	vs, _ := checkAll(h, run(h))
	for _, v := range vs {
		if v.sig == sig {
			return true
		}
	}
	return false
}

func minimize(h hist, sig string) hist {
	keep := vh.ShrinkIdx(len(h.Txns), func(keep []int) bool { return hasSig(sub(h, keep), sig) })
	h = sub(h, keep)
	// the initial leaves and nodes that are not needed
	withInit := func(keep []int) hist {
		h2 := sub(h, seq(len(h.Txns)))
		h2.Init = nil
		for _, k := range keep {
			h2.Init = append(h2.Init, h.Init[k])
		}
		return h2
	}
	h = withInit(vh.ShrinkIdx(len(h.Init), func(keep []int) bool { return len(keep) > 0 && hasSig(withInit(keep), sig) }))
	if len(h.Nodes) > 0 {
		h2 := sub(h, seq(len(h.Txns)))
		h2.Nodes = nil
		if hasSig(h2, sig) {
			h = h2
		}
	}
	// then the script of every remaining transaction
	for i := range h.Txns {
		ops := h.Txns[i].Script.Ops
		if len(ops) == 0 {
			continue
		}
		with := func(keep []int) hist {
			h2 := sub(h, seq(len(h.Txns)))
			var o2 []chainh.ScOp
			for _, k := range keep {
				o2 = append(o2, ops[k])
			}
			h2.Txns[i].Script.Ops = o2
			return h2
		}
		k2 := vh.ShrinkIdx(len(ops), func(keep []int) bool { return hasSig(with(keep), sig) })
		h = with(k2)
	}
	return h
}

func seq(n int) []int {
	s := make([]int, n)
	for i := range s {
		s[i] = i
	}
	return s
}

func main() {
	o := vh.ParseFlags()
	prop := o.Prop
	if prop == "" {
		prop = "C01"
	}
	rep := vh.NewReport("chainstate", prop, o)
	rules := map[string]string{
		"C01": "at least one applied transaction moved tokens between accounts and at least one transaction was rejected",
		"C02": "at least one contract call failed chargeably after it had written nodes (plain and cacheable), queued transfers or emitted events, and was applied, and at least one call read nodes through the state context",
		"C03": "at least one transaction was applied and at least one was rejected for its nonce",
		"C04": "at least one applied transaction carried two or more transfers",
		"C07": "at least one call that failed or was rejected had written a cacheable node and at least one call read nodes through the state context (real StateCache, one BlockCache per block)",
		"C05": "at least one applied transaction moved tokens and at least one transaction was rejected for funds (overdraft / overflow)",
	}
	rep.Rule = "adaptive random histories of 1-" + fmt.Sprint(profileFor(prop, o).maxTxns) + " transactions (send / data / script-contract calls with 0-6 scripted writes, deletes, " +
		"node reads through StateContext.GetTrieNode, transfers incl. over-spend, foreign source, self transfer, malformed destination, boundary amounts, signed transfers, events; success, chargeable failure, internal failure; " +
		"unregistered contract; duplicate, skipped, past, future and wrapped nonces; values/fees around the balance, 2^53, MaxTokenSupply, 2^64-1; fees on/off; user events on/off) over 2-6 clients " +
		"plus exhaustive boundary scopes (single transfer: source x destination x amount; nonce triples); non-trivial = " + rules[prop] + "; distinct by full history"
	cf := &vh.CasesFile{Imports: []string{"Base.Corr", "Model.ChainState", "Corr.ChainState"}, CaseType: "cs_any_case", CheckFn: "cs_any_check", Shard: 100}

	handleGenesis := func(h hist) {
		snap, panicked := chainh.Genesis(env(true, false), universe, h.Genesis)
		vs, dup := checkGenesis(h.Genesis, snap, panicked)
		switch {
		case panicked:
			rep.Count("genesis-refused")
		case dup:
			rep.Count("genesis-accepted-duplicate-ids")
		default:
			rep.Count("genesis-accepted")
		}
		rep.Case(fmt.Sprint(h.Genesis), !panicked && len(snap.Accts) >= 3, h)
		cf.Add(coqGenesis(h.Genesis, snap, panicked))
		rep.CaseInputs = append(rep.CaseInputs, h)
		for _, v := range vs {
			rep.Violate(v.sig, v.desc, h)
		}
	}
	handleClassify := func(h hist) {
		c := h.Classify
		got := chainh.Classify(c.State, c.Txn)
		rep.Count(fmt.Sprintf("classify-%s", []string{"current", "future", "past", "error"}[got]))
		rep.Case(fmt.Sprint(c.State != nil, c.Txn, got), got != 3, h)
		st := "None"
		sn := int64(0)
		if c.State != nil {
			st = vh.Some(vh.Z(*c.State))
			sn = *c.State
		}
		cf.Add(fmt.Sprintf("CaseCls {| csv_state := %s; csv_txn := %s; csv_cls := %d |}", st, vh.Z(c.Txn), got))
		rep.CaseInputs = append(rep.CaseInputs, h)
		// the statement: block generation calls a nonce current exactly when updateState would accept
		// it (one more than the nonce in state; the int64 wrap edge is left to the model comparison)
		if sn != math.MaxInt64 && (got == 0) != (c.Txn == sn+1) {
			rep.Violate("C03:generator-classification-disagrees", fmt.Sprintf("validateTransaction classified nonce %d against state nonce %d (leaf present: %v) as class %d", c.Txn, sn, c.State != nil, got), h)
		}
	}
	handleBlocks := func(h hist) {
		vs, res := blockViols(h)
		rep.CountN("blockmode-blocks-computed", res.Blocks)
		rep.CountN("blockmode-first-attempt-interrupted", res.Interrupted)
		rep.CountN("blockmode-reads-compared", len(res.Reads))
		if res.Failed != "" {
			rep.Count("blockmode-history-stopped-at-failed-block")
		}
		rep.Case(key(h), res.Interrupted > 0 && len(res.Reads) > 0, h)
		for _, v := range vs {
			if !strings.HasPrefix(v.sig, prop+":") {
				continue
			}
			already := false
			for _, x := range rep.Violations {
				already = already || x.Signature == v.sig
			}
			if !already {
				rep.Violate(v.sig, v.desc, minimize(h, v.sig))
			}
		}
	}
	handle := func(h hist, toCoq bool) {
		if h.Blocks {
			handleBlocks(h)
			return
		}
		if h.Genesis != nil {
			handleGenesis(h)
			return
		}
		if h.Classify != nil {
			handleClassify(h)
			return
		}
		steps := run(h)
		vs, st := checkAll(h, steps)
		rep.CountN("real-failed-calls-compared-with-reference-world", st.realFailed)
		for _, s := range steps {
			switch {
			case s.res.Panic != "":
				rep.Count("outcome-panic")
			case s.res.Applied:
				rep.Count(fmt.Sprintf("outcome-applied-status%d", s.res.Status))
			default:
				rep.Count("outcome-rejected-" + s.res.ErrCls)
			}
		}
		for i, t := range h.Txns {
			rep.Count("txn-" + coqType(t.Type))
			if t.Type == 1000 && steps[i].res.Rec.Called {
				rep.Count("contract-" + steps[i].res.Rec.Class)
			}
		}
		if h.Real {
			names := map[int]string{chainh.IDFaucet: "faucetsc", chainh.IDVesting: "vestingsc", chainh.IDZcn: "zcnsc", chainh.IDMiner: "minersc"}
			for i, t := range h.Txns {
				out := "rejected"
				if steps[i].res.Applied {
					out = fmt.Sprintf("status%d-transfers%d", steps[i].res.Status, len(steps[i].res.Rec.Trs))
				}
				rep.Count("real-" + names[t.To] + "." + t.Fn + "-" + out)
				if os.Getenv("VERIF_DBG") != "" && steps[i].res.Status == 2 {
					o := steps[i].res.Output
					if len(o) > 70 {
						o = o[:70]
					}
					rep.Count("DBG " + t.Fn + ": " + o)
				}
			}
			rep.CountN("real-transfer-names-unknown-account", st.realUnknown)
		}
		rep.CountN("later-transfer-of-txn-failed", st.laterTransferFailed)
		rep.CountN("node-reads-through-context", st.reads)
		rep.CountN("cacheable-writes-of-calls-that-did-not-commit", st.ghostWrites)
		rep.CountN("failed-call-with-side-effects", st.chargeableDirty)
		rep.CountN("sender-cap-not-enforced-by-chain(F-04)", st.capBypassed)
		rep.CountN("signed-transfer-applied-unverified(F-04)", st.signedApplied)
		var nontriv bool
		switch prop {
		case "C01":
			nontriv = st.appliedMoved > 0 && st.rejected > 0
		case "C02":
			nontriv = st.chargeableDirty > 0 && st.reads > 0
		case "C07":
			nontriv = st.ghostWrites > 0 && st.reads > 0
		case "C03":
			nontriv = st.applied > 0 && st.nonceRej > 0
		case "C04":
			nontriv = st.multiTransfer > 0
		case "C05":
			nontriv = st.appliedMoved > 0 && st.fundsRej > 0
		}
		rep.Case(key(h), nontriv, h)
		if toCoq {
			cf.Add(coqCase(h, steps))
			rep.CaseInputs = append(rep.CaseInputs, h)
		}
		done := map[string]bool{}
		for _, v := range vs {
			if !strings.HasPrefix(v.sig, prop+":") || done[v.sig] {
				continue
			}
			done[v.sig] = true
			already := false
			for _, x := range rep.Violations {
				if x.Signature == v.sig {
					already = true
				}
			}
			if already {
				continue
			}
			rep.Violate(v.sig, v.desc, minimize(h, v.sig))
		}
	}
	finish := func() {
		files, err := cf.Write(o.Out, prop)
		if err != nil {
			panic(err)
		}
		rep.CaseFiles = files
		rep.ShardSize = 100
		rep.Write(o.Out)
	}

	var rh hist
	if o.LoadReplay(&rh) {
		if len(rh.Txns) > 0 || rh.Genesis != nil || rh.Classify != nil { // else: another engine's replay
			handle(rh, true)
		}
		finish()
		return
	}
	rnd := vh.NewRand(o.Seed)
	p := profileFor(prop, o)
	nCoq := o.N(160, 1500)
	for i := 0; i < o.N(500, 6000); i++ {
		handle(genHist(rnd, p), i < nCoq)
	}
	if prop == "C01" {
		nn := o.N(120, 1200)
		for i := 0; i < nn; i++ {
			handle(genNodeAddrHist(rnd), false)
		}
		// the residual of the State.Decode length check, one fixed history in every tier: a contract node whose
		// encoding is exactly 56 bytes, then a send of 1 token to the address that is its trie path
		handle(hist{Fee: false, Real: true, Node56: true, Init: []chainh.Acct{{ID: 3, Bal: 10000, Txn: -1}},
			Extra: []string{chainh.HashOf(chainh.Node56Key)},
			Txns:  []chainh.Txn{{Type: 0, From: 3, To: chainh.ExtraBase, Value: 1, Nonce: 1, Round: 5}}}, false)
		rep.Note("contract node keys as addresses: %d histories of real faucetsc / vestingsc / zcnsc / minersc calls followed by small sends to and from every hash-shaped key handed to InsertTrieNode (recorded by wrapping the state context; the miner SC global settings key among them) and to the hashes of all recorded keys; oracle: sum of all client leaves, every leaf at such an address decodes as a client state, no contract node sits at its own key's account address", nn)
		// destinations spelled in upper case (a different string for the same hex digits)
		pu := p
		pu.upper = 30
		pu.edgyHist = 0
		nu := o.N(40, 400)
		for i := 0; i < nu; i++ {
			handle(genHist(rnd, pu), true)
		}
		rep.Note("upper-case stream: %d calm histories in which 30%% of the sends / contract payouts go to the upper-case spelling of an existing client's id", nu)
		ng := o.N(60, 1200)
		for i := 0; i < ng; i++ {
			handle(hist{Genesis: genGenesis(rnd)}, true)
		}
		rep.Note("genesis: %d distributions (1-3 contract groups with 0-4 client allocations; some with a wrong total, an over-allocated group, an overflowing sum, a duplicate id) handed to the real mustInitGBState and compared with cs_genesis", ng)
	}
	nEx := 0
	if prop == "C05" || prop == "C01" || prop == "C04" {
		for _, fee := range []bool{true, false} {
			for i, h := range exhaustive(fee) {
				handle(h, fee && (i%3 == int(o.Seed%3) || o.Thorough()))
				nEx++
			}
		}
		rep.Note("exhaustive single-transfer scope: %d one-transaction histories (6 source x 6 destination balances x 7 amounts, send and contract-queued, fees on/off) run on the implementation oracle; a third of them (all in the thorough tier) also compared with the model", nEx)
	}
	if prop == "C07" {
		nbh := o.N(200, 2000)
		for i := 0; i < nbh; i++ {
			handle(genBlockHist(rnd), false)
		}
		rep.Note("block mode: %d histories of 3-6 blocks executed by the real block.ComputeState over the real chain.Chain.UpdateState with one StateCache; blocks with a flaky call are interrupted (SC context error -> StateCancelled) at it on the first attempt and computed again; every read a call makes through the cache layers and a query-style read of every cacheable key on every computed block are compared with the block's trie", nbh)
	}
	if prop == "C02" || prop == "C07" {
		ns := o.N(150, 1500)
		for i := 0; i < ns; i++ {
			handle(genSettingsHist(rnd), false)
		}
		// the three-step shape spelled out: ok update, failing update that first rewrites a cost, ok update
		upd := func(i int, f string) chainh.Txn {
			return chainh.Txn{Type: 1000, From: 3, To: chainh.IDMiner, Fn: "update_settings", Input: `{"fields":{` + f + `}}`, Round: int64(2 + i), Nonce: int64(i + 1), Fee: 3}
		}
		handle(hist{Fee: true, Real: true, Init: []chainh.Acct{{ID: 3, Bal: 100000, Txn: -1}},
			Txns: []chainh.Txn{upd(0, `"max_delegates":"201"`), upd(1, `"cost.add_miner":"1","max_n":"0"`), upd(2, `"max_delegates":"202"`)}}, false)
		rep.Note("real settings contracts: %d histories of 3-9 real minersc / faucetsc update_settings calls (successful ones around failing ones that rewrite the cost table before validate() refuses them) through Chain.UpdateState with one StateCache and a BlockCache per block; every history with a failed call is re-run as a reference world in which the failed calls are replaced by calls to an address without contract (fee + nonce + error event only) and the state roots are compared after every transaction", ns+1)
	}
	if prop == "C04" {
		nr := o.N(150, 1500)
		for i := 0; i < nr; i++ {
			handle(genRealHist(rnd), false)
		}
		nk := o.N(150, 1500)
		for i := 0; i < nk; i++ {
			handle(genStakeHist(rnd), false)
		}
		rep.Note("real staking: %d histories of 3-10 real calls that move the sender's own tokens, mostly minersc addToDelegatePool by the same few clients on the same miner / sharder with different values (repeated stakes), plus faucet refill, vestingsc add, zcnsc burn", nk)
		rep.Note("real contracts: %d histories of 4-16 calls of the real faucetsc (pour, refill), vestingsc (add, trigger, unlock, stop, delete) and zcnsc (burn) executed through Chain.UpdateState behind a recorder of what they queue; judged by the C04 oracle (debits attributed to the recorded transfers + fee, sender debit <= value+fee, no account debited other than the sender and the called contract's wallet); not compared with the model", nr)
	}
	if prop == "C05" || prop == "C04" {
		hs := exhaustiveOrder()
		for i, h := range hs {
			handle(h, i%4 == int(o.Seed%4) || o.Thorough())
		}
		rep.Note("exhaustive order scope: %d one-call histories queuing a->b x, b->c y (or b->a y), a->b z with x, y, z around the amounts where the queue order decides; oracle = sequential application in the order the contract called AddTransfer; a quarter (all in the thorough tier) also compared with the model", len(hs))
	}
	if prop == "C03" {
		edge := []int64{math.MinInt64, math.MinInt64 + 1, -1, 0, 1, 2, 5, 6, 7, 8, math.MaxInt64 - 1, math.MaxInt64}
		n := 0
		for si := -1; si < len(edge); si++ {
			for _, tn := range edge {
				c := &clsCase{Txn: tn}
				if si >= 0 {
					v := edge[si]
					c.State = &v
				}
				handle(hist{Classify: c}, true)
				n++
			}
		}
		rep.Note("miner.validateTransaction: %d (state nonce | no leaf) x txn nonce combinations from an int64 boundary set run on the real code and compared with cs_classify", n)
	}
	// an empty trie: updateState refuses every transaction (root node not found)
	handle(hist{Fee: true, Txns: []chainh.Txn{{Type: 10, From: 3, To: 4, Nonce: 1, Round: 1}, {Type: 0, From: 3, To: 4, Value: 1, Nonce: 1, Round: 1}}}, true)
	if prop == "C03" || prop == "C02" || prop == "C07" {
		hs := exhaustiveNonces()
		for i, h := range hs {
			handle(h, i%2 == int(o.Seed%2) || o.Thorough())
		}
		rep.Note("exhaustive nonce scope: %d histories = all triples of nonces from {-1,0,1,2,3} for one sender, as data transactions and as failing contract calls; half of them (all in the thorough tier) also compared with the model", len(hs))
	}
	finish()
}
