package vh

// ShrinkIdx removes elements of a sequence of length n while `fails` (called with the kept
// indices, in order) stays true; returns the kept indices of a 1-minimal failing subsequence.
func ShrinkIdx(n int, fails func(keep []int) bool) []int {
	keep := make([]int, n)
	for i := range keep {
		keep[i] = i
	}
	chunk := n / 2
	for chunk >= 1 {
		changed := false
		for start := 0; start < len(keep); {
			end := start + chunk
			if end > len(keep) {
				end = len(keep)
			}
			cand := append(append([]int{}, keep[:start]...), keep[end:]...)
			if len(cand) < len(keep) && fails(cand) {
				keep = cand
				changed = true
			} else {
				start = end
			}
		}
		if !changed || chunk > len(keep) {
			chunk /= 2
		}
	}
	return keep
}
