// Translator "settings" (property C48): emits coq/Gen/SettingsTables.v from the governance tables
// of /repo (or $VERIF_REPO).
//
// Everything is read with go/ast from the source files (no repository package is linked in, so the
// translator builds in a second):
//   - the tables core/config.GlobalSettingInfo, minersc.Settings, storagesc.Settings (map literals whose
//     keys are resolved through the `XName[Const] = "..."` assignments of the init functions);
//   - which ConfigTypes set() supports and which settings have a case in the typed setters
//     (minersc, storagesc), and the key -> parse-mode switch of faucetsc, vestingsc, zcnsc.
//
// Fails closed (exit 1) on any construct it does not recognise.
package main

import (
	"fmt"
	"go/ast"
	"go/parser"
	"go/token"
	"os"
	"path/filepath"
	"sort"
	"strconv"
	"strings"
)

// mirror of core/config.ConfigType (only used as a key; names are checked against the source below)
type configType int

var cfgNames = []string{"Int", "Int64", "Int32", "Duration", "Float64", "Boolean", "String", "CurrencyCoin", "Key", "Cost", "Strings"}

func die(f string, a ...interface{}) {
	fmt.Fprintf(os.Stderr, "settings translator: "+f+"\n", a...)
	os.Exit(1)
}

func srcRoot() string {
	r := os.Getenv("VERIF_REPO")
	if r == "" {
		r = "/repo"
	}
	return filepath.Join(r, "code/go/0chain.net")
}

var tyName = map[configType]string{}  // ConfigType -> Coq constructor
var tyBySel = map[string]configType{} // selector name in source (config.Int ...) -> ConfigType

func init() {
	coq := []string{"StInt", "StInt64", "StInt32", "StDuration", "StFloat", "StBool", "StString", "StCoin", "StKey", "StCost", "StStrings"}
	for i, n := range cfgNames {
		tyName[configType(i)] = coq[i]
		tyBySel[n] = configType(i)
	}
}

type row struct {
	name string
	ty   string
	flag bool
}

func parseFile(path string) *ast.File {
	fset := token.NewFileSet()
	f, err := parser.ParseFile(fset, path, nil, 0)
	if err != nil {
		die("parse %s: %v", path, err)
	}
	return f
}

func findFunc(f *ast.File, recv, name string) *ast.FuncDecl {
	for _, d := range f.Decls {
		fd, ok := d.(*ast.FuncDecl)
		if !ok || fd.Name.Name != name {
			continue
		}
		if recv == "" && fd.Recv == nil {
			return fd
		}
		if recv != "" && fd.Recv != nil && len(fd.Recv.List) == 1 {
			t := fd.Recv.List[0].Type
			if s, ok := t.(*ast.StarExpr); ok {
				t = s.X
			}
			if id, ok := t.(*ast.Ident); ok && id.Name == recv {
				return fd
			}
		}
	}
	return nil
}

// iotaConsts returns ident -> index for the const block whose first spec has type `typ` and value iota.
func iotaConsts(f *ast.File, typ string) map[string]int {
	for _, d := range f.Decls {
		gd, ok := d.(*ast.GenDecl)
		if !ok || gd.Tok != token.CONST || len(gd.Specs) == 0 {
			continue
		}
		first := gd.Specs[0].(*ast.ValueSpec)
		id, ok := first.Type.(*ast.Ident)
		if !ok || id.Name != typ {
			continue
		}
		out := map[string]int{}
		for i, s := range gd.Specs {
			vs := s.(*ast.ValueSpec)
			if len(vs.Names) != 1 {
				die("const block of %s: several names in one spec", typ)
			}
			if len(vs.Values) > 0 {
				v, ok := vs.Values[0].(*ast.Ident)
				if !ok || v.Name != "iota" {
					die("const block of %s: %s is not iota", typ, vs.Names[0].Name)
				}
			}
			out[vs.Names[0].Name] = i
		}
		return out
	}
	die("no iota const block of type %s", typ)
	return nil
}

// caseIdents: the identifiers listed in the `case` clauses of the single top-level switch of fn
// (default clause must return an error or panic, which is what "not settable" means).
func caseIdents(fn *ast.FuncDecl) []string {
	var out []string
	n := 0
	for _, st := range fn.Body.List {
		sw, ok := st.(*ast.SwitchStmt)
		if !ok {
			continue
		}
		n++
		for _, c := range sw.Body.List {
			cc := c.(*ast.CaseClause)
			for _, e := range cc.List {
				id, ok := e.(*ast.Ident)
				if !ok {
					die("%s: case expression is not an identifier", fn.Name.Name)
				}
				out = append(out, id.Name)
			}
		}
	}
	if n != 1 {
		die("%s: expected exactly one switch, found %d", fn.Name.Name, n)
	}
	return out
}

// setTypeSwitch reads `switch x.ConfigType|configType { case config.T: ... gn.setX(...) }` in set():
// supported ConfigType -> name of the typed setter called in that case.
func setTypeSwitch(fn *ast.FuncDecl) map[configType]string {
	out := map[configType]string{}
	found := 0
	ast.Inspect(fn.Body, func(n ast.Node) bool {
		sw, ok := n.(*ast.SwitchStmt)
		if !ok {
			return true
		}
		sel, ok := sw.Tag.(*ast.SelectorExpr)
		if !ok || strings.ToLower(sel.Sel.Name) != "configtype" {
			return true
		}
		found++
		for _, c := range sw.Body.List {
			cc := c.(*ast.CaseClause)
			if cc.List == nil {
				continue // default: returns "unsupported type"
			}
			setter := ""
			for _, s := range cc.Body {
				ast.Inspect(s, func(m ast.Node) bool {
					if call, ok := m.(*ast.CallExpr); ok {
						if se, ok := call.Fun.(*ast.SelectorExpr); ok && strings.HasPrefix(se.Sel.Name, "set") {
							setter = se.Sel.Name
						}
					}
					return true
				})
			}
			if setter == "" {
				die("set(): no typed setter call in a case of the ConfigType switch")
			}
			for _, e := range cc.List {
				se, ok := e.(*ast.SelectorExpr)
				if !ok {
					die("set(): case is not config.<Type>")
				}
				t, ok := tyBySel[se.Sel.Name]
				if !ok {
					die("set(): unknown ConfigType %s", se.Sel.Name)
				}
				out[t] = setter
			}
		}
		return false
	})
	if found != 1 {
		die("set(): expected one switch on the config type, found %d", found)
	}
	return out
}

// strExpr evaluates "lit", "a" + "b", strings.ToLower("x").
func strExpr(e ast.Expr) string {
	switch x := e.(type) {
	case *ast.BasicLit:
		s, err := strconv.Unquote(x.Value)
		if err != nil {
			die("bad string literal %s", x.Value)
		}
		return s
	case *ast.BinaryExpr:
		if x.Op == token.ADD {
			return strExpr(x.X) + strExpr(x.Y)
		}
	case *ast.ParenExpr:
		return strExpr(x.X)
	case *ast.CallExpr:
		if se, ok := x.Fun.(*ast.SelectorExpr); ok && se.Sel.Name == "ToLower" && len(x.Args) == 1 {
			return strings.ToLower(strExpr(x.Args[0]))
		}
	}
	die("cannot evaluate string expression in a settings-name assignment")
	return ""
}

// nameAssignments reads `<arr>[Const] = <string expr>` statements of function fn: Const -> name.
func nameAssignments(f *ast.File, fn, arr string) map[string]string {
	fd := findFunc(f, "", fn)
	if fd == nil {
		die("function %s not found", fn)
	}
	out := map[string]string{}
	for _, st := range fd.Body.List {
		as, ok := st.(*ast.AssignStmt)
		if !ok || len(as.Lhs) != 1 {
			continue
		}
		ix, ok := as.Lhs[0].(*ast.IndexExpr)
		if !ok {
			continue
		}
		if id, ok := ix.X.(*ast.Ident); !ok || id.Name != arr {
			continue
		}
		c, ok := ix.Index.(*ast.Ident)
		if !ok {
			die("%s: index is not a constant identifier", fn)
		}
		if _, dup := out[c.Name]; dup {
			die("%s: %s assigned twice", fn, c.Name)
		}
		out[c.Name] = strExpr(as.Rhs[0])
	}
	if len(out) == 0 {
		die("%s: no name assignments found", fn)
	}
	return out
}

// tableLiteral reads the map literal assigned to variable v in function fn.
// keyName resolves a key expression to the setting name; each value is a composite literal whose
// elements are returned as source identifiers (selector names for pkg.X).
func tableLiteral(f *ast.File, fn, v string, keyName func(ast.Expr) string) map[string][]string {
	fd := findFunc(f, "", fn)
	if fd == nil {
		die("function %s not found", fn)
	}
	var lit *ast.CompositeLit
	for _, st := range fd.Body.List {
		as, ok := st.(*ast.AssignStmt)
		if !ok || len(as.Lhs) != 1 {
			continue
		}
		if id, ok := as.Lhs[0].(*ast.Ident); ok && id.Name == v {
			lit, _ = as.Rhs[0].(*ast.CompositeLit)
		}
	}
	if lit == nil {
		die("%s: no composite literal assigned to %s", fn, v)
	}
	out := map[string][]string{}
	for _, el := range lit.Elts {
		kv, ok := el.(*ast.KeyValueExpr)
		if !ok {
			die("%s: element is not key: value", fn)
		}
		name := keyName(kv.Key)
		val, ok := kv.Value.(*ast.CompositeLit)
		if !ok {
			die("%s: value of %s is not a composite literal", fn, name)
		}
		var ids []string
		for _, e := range val.Elts {
			switch x := e.(type) {
			case *ast.Ident:
				ids = append(ids, x.Name)
			case *ast.SelectorExpr:
				ids = append(ids, x.Sel.Name)
			default:
				die("%s: unexpected element in the value of %s", fn, name)
			}
		}
		if _, dup := out[name]; dup {
			die("%s: duplicate key %s", fn, name)
		}
		out[name] = ids
	}
	return out
}

// checkConfigTypes makes sure the ConfigType constants are declared in the order this translator assumes.
func checkConfigTypes(root string) {
	f := parseFile(filepath.Join(root, "core/config/utils.go"))
	idx := iotaConsts(f, "ConfigType")
	if len(idx) != len(cfgNames) {
		die("core/config.ConfigType has %d constants, expected %d", len(idx), len(cfgNames))
	}
	for i, n := range cfgNames {
		if idx[n] != i {
			die("core/config.ConfigType constant %s moved", n)
		}
	}
}

// tableContract builds the rows of a table-driven contract (minersc, storagesc):
// names/types from the compiled table, flag from the source of set()/setX().
func tableContract(file, recv string) []row {
	f := parseFile(file)
	idx := iotaConsts(f, "Setting")
	cname := nameAssignments(f, "initSettingName", "SettingName")
	names := func(i int) string {
		for c, j := range idx {
			if j == i {
				return cname[c]
			}
		}
		return ""
	}
	table := map[string]configType{}
	for name, ids := range tableLiteral(f, "initSettings", "Settings", func(e ast.Expr) string {
		// X.String()
		call, ok := e.(*ast.CallExpr)
		if !ok {
			die("%s: Settings key is not X.String()", file)
		}
		se, ok := call.Fun.(*ast.SelectorExpr)
		if !ok || se.Sel.Name != "String" {
			die("%s: Settings key is not X.String()", file)
		}
		n, ok := cname[se.X.(*ast.Ident).Name]
		if !ok {
			die("%s: %s has no name", file, se.X.(*ast.Ident).Name)
		}
		return n
	}) {
		if len(ids) != 2 {
			die("%s: Settings[%s] does not have two fields", file, name)
		}
		if cname[ids[0]] != name {
			die("%s: Settings[%s] refers to setting %s", file, name, ids[0])
		}
		t, ok := tyBySel[ids[1]]
		if !ok {
			die("%s: unknown config type %s", file, ids[1])
		}
		table[name] = t
	}
	set := findFunc(f, recv, "set")
	if set == nil {
		die("%s: no method set", file)
	}
	sup := setTypeSwitch(set)
	settable := map[string]map[string]bool{} // setter -> setting name -> true
	for _, setter := range sup {
		if settable[setter] != nil {
			continue
		}
		fn := findFunc(f, recv, setter)
		if fn == nil {
			die("%s: no method %s", file, setter)
		}
		settable[setter] = map[string]bool{}
		if setter == "setCost" {
			continue
		}
		for _, id := range caseIdents(fn) {
			i, ok := idx[id]
			if !ok {
				die("%s: case %s in %s is not a Setting constant", file, id, setter)
			}
			settable[setter][names(i)] = true
		}
	}
	var rows []row
	for name, t := range table {
		setter, ok := sup[t]
		flag := ok && settable[setter][name]
		if t == tyBySel["Cost"] {
			// cost.* keys never reach the type switch: set() handles every key with the "cost." prefix first
			flag = strings.HasPrefix(name, "cost.") && len(name) > len("cost.")
		}
		rows = append(rows, row{name, tyName[t], flag})
	}
	return rows
}

// ---- switch-based contracts -------------------------------------------------------------

func stringSliceVar(f *ast.File, name string) []string {
	for _, d := range f.Decls {
		gd, ok := d.(*ast.GenDecl)
		if !ok || gd.Tok != token.VAR {
			continue
		}
		for _, s := range gd.Specs {
			vs := s.(*ast.ValueSpec)
			for i, n := range vs.Names {
				if n.Name != name || i >= len(vs.Values) {
					continue
				}
				cl, ok := vs.Values[i].(*ast.CompositeLit)
				if !ok {
					die("var %s is not a composite literal", name)
				}
				var out []string
				for _, e := range cl.Elts {
					out = append(out, constString(f, e))
				}
				return out
			}
		}
	}
	die("var %s not found", name)
	return nil
}

// constString evaluates a string literal or an identifier of a string constant declared in any of the files.
var constFiles []*ast.File

func constString(f *ast.File, e ast.Expr) string {
	switch x := e.(type) {
	case *ast.BasicLit:
		s, err := strconv.Unquote(x.Value)
		if err != nil {
			die("bad string literal %s", x.Value)
		}
		return s
	case *ast.Ident:
		for _, ff := range append([]*ast.File{f}, constFiles...) {
			for _, d := range ff.Decls {
				gd, ok := d.(*ast.GenDecl)
				if !ok || gd.Tok != token.CONST {
					continue
				}
				for _, s := range gd.Specs {
					vs := s.(*ast.ValueSpec)
					for i, n := range vs.Names {
						if n.Name == x.Name && i < len(vs.Values) {
							return constString(ff, vs.Values[i])
						}
					}
				}
			}
		}
	}
	die("cannot evaluate string constant expression")
	return ""
}

// parseMode classifies the body of one case of the key switch by the parsing calls it makes.
func parseMode(body []ast.Stmt) string {
	calls := map[string]bool{}
	for _, s := range body {
		ast.Inspect(s, func(n ast.Node) bool {
			if call, ok := n.(*ast.CallExpr); ok {
				switch fn := call.Fun.(type) {
				case *ast.SelectorExpr:
					calls[fn.Sel.Name] = true
				case *ast.Ident:
					calls[fn.Name] = true
				}
			}
			return true
		})
	}
	delete(calls, "Errorf")
	delete(calls, "Sprintf")
	key := []string{}
	for k := range calls {
		key = append(key, k)
	}
	sort.Strings(key)
	switch strings.Join(key, ",") {
	case "ParseFloat,ParseZCN":
		return "StCoin"
	case "MultFloat64,ParseFloat":
		return "StCoinMult"
	case "Coin,ParseFloat":
		return "StCoinCast"
	case "ParseFloat":
		return "StFloat"
	case "ParseDuration":
		return "StDuration"
	case "Atoi":
		return "StInt"
	case "ParseInt":
		return "StInt64"
	case "ParseUint":
		return "StCoinU64"
	case "Coin,ParseUint":
		return "StCoinU64"
	case "DecodeString":
		return "StKey"
	case "":
		return "StString"
	case "setCostValue":
		return "cost"
	}
	die("unrecognised parse calls in a settings case: %v", key)
	return ""
}

// switchContract reads `for key, value := range ... { switch key { case K: ... default: ... } }`.
// keyName maps a case expression to the setting name. Returns rows and whether the default
// clause forwards to setCostValue.
func switchContract(f *ast.File, fn *ast.FuncDecl, keyName func(ast.Expr) string) (rows []row, costDefault bool, costCase string) {
	var sw *ast.SwitchStmt
	ast.Inspect(fn.Body, func(n ast.Node) bool {
		if s, ok := n.(*ast.SwitchStmt); ok && sw == nil {
			if id, ok := s.Tag.(*ast.Ident); ok && id.Name == "key" {
				sw = s
				return false
			}
		}
		return true
	})
	if sw == nil {
		die("%s: no `switch key`", fn.Name.Name)
	}
	for _, c := range sw.Body.List {
		cc := c.(*ast.CaseClause)
		mode := parseMode(cc.Body)
		if cc.List == nil {
			if mode == "cost" {
				costDefault = true
			} else if mode != "StString" { // default must only build an error
				die("%s: default clause does something unexpected (%s)", fn.Name.Name, mode)
			}
			continue
		}
		for _, e := range cc.List {
			name := keyName(e)
			if mode == "cost" {
				costCase = name
				continue
			}
			rows = append(rows, row{name, mode, true})
		}
	}
	return
}

// ---- output -----------------------------------------------------------------------------

func coqStr(s string) string { return "\"" + strings.ReplaceAll(s, "\"", "\"\"") + "\"" }

func emitRows(b *strings.Builder, def string, rows []row) {
	sort.Slice(rows, func(i, j int) bool { return rows[i].name < rows[j].name })
	for i := 1; i < len(rows); i++ {
		if rows[i].name == rows[i-1].name {
			die("%s: duplicate setting name %s", def, rows[i].name)
		}
	}
	fmt.Fprintf(b, "Definition %s : list st_row := [\n", def)
	for i, r := range rows {
		sep := ";"
		if i == len(rows)-1 {
			sep = ""
		}
		fl := "false"
		if r.flag {
			fl = "true"
		}
		fmt.Fprintf(b, "  (%s, %s, %s)%s\n", coqStr(r.name), r.ty, fl, sep)
	}
	b.WriteString("].\n\n")
}

func emitStrings(b *strings.Builder, def string, xs []string) {
	q := make([]string, len(xs))
	for i, x := range xs {
		q[i] = coqStr(x)
	}
	fmt.Fprintf(b, "Definition %s : list string := [%s].\n\n", def, strings.Join(q, "; "))
}

func main() {
	root := srcRoot()
	var b strings.Builder
	b.WriteString("(* GENERATED by harness/translators/settings from the Go sources; do not edit.\n" +
		"   Rewritten by every `bin/check C48` run when the tables in the repository change. *)\n" +
		"From ZC Require Import Model.SettingsTypes.\nOpen Scope string_scope.\n\n")

	checkConfigTypes(root)
	// 1. chain globals
	var rows []row
	{
		f := parseFile(filepath.Join(root, "core/config/globals.go"))
		gname := nameAssignments(f, "initGlobalSettingNames", "GlobalSettingName")
		for name, ids := range tableLiteral(f, "initGlobalSettings", "GlobalSettingInfo", func(e ast.Expr) string {
			ix, ok := e.(*ast.IndexExpr)
			if !ok {
				die("globals: key is not GlobalSettingName[X]")
			}
			n, ok := gname[ix.Index.(*ast.Ident).Name]
			if !ok {
				die("globals: %s has no name", ix.Index.(*ast.Ident).Name)
			}
			return n
		}) {
			if len(ids) != 2 || (ids[1] != "true" && ids[1] != "false") {
				die("globals: value of %s is not {Type, bool}", name)
			}
			t, ok := tyBySel[ids[0]]
			if !ok {
				die("globals: unknown type %s for %s", ids[0], name)
			}
			rows = append(rows, row{name, tyName[t], ids[1] == "true"})
		}
	}
	if len(rows) < 10 {
		die("globals table suspiciously small")
	}
	emitRows(&b, "gen_globals_table", rows)

	// 1a. config.StringToInterface, case Float64: does it refuse NaN and the infinities (an if whose condition calls
	// math.IsNaN and math.IsInf and whose body returns)?
	{
		uf := parseFile(filepath.Join(root, "core/config/utils.go"))
		fd := findFunc(uf, "", "StringToInterface")
		if fd == nil {
			die("config.StringToInterface not found")
		}
		finite, seenCase := false, false
		ast.Inspect(fd.Body, func(n ast.Node) bool {
			cc, ok := n.(*ast.CaseClause)
			if !ok || len(cc.List) != 1 {
				return true
			}
			if id, ok := cc.List[0].(*ast.Ident); !ok || id.Name != "Float64" {
				return true
			}
			seenCase = true
			for _, st := range cc.Body {
				ifs, ok := st.(*ast.IfStmt)
				if !ok {
					continue
				}
				nan, inf, ret := false, false, false
				ast.Inspect(ifs.Cond, func(m ast.Node) bool {
					if se, ok := m.(*ast.SelectorExpr); ok {
						nan = nan || se.Sel.Name == "IsNaN"
						inf = inf || se.Sel.Name == "IsInf"
					}
					return true
				})
				for _, b := range ifs.Body.List {
					if r, ok := b.(*ast.ReturnStmt); ok && len(r.Results) == 2 {
						if id, ok := r.Results[0].(*ast.Ident); ok && id.Name == "nil" {
							ret = true
						}
					}
				}
				finite = finite || (nan && inf && ret)
			}
			return false
		})
		if !seenCase {
			die("StringToInterface: case Float64 not found")
		}
		fmt.Fprintf(&b, "(* config.StringToInterface refuses NaN and the infinities for Float64 settings *)\nDefinition gen_globals_float_finite_only : bool := %v.\n\n", finite)
	}

	// 1b. how the chain reads each global back: chain.ConfigImpl.Update calls cf.GetX(config.Name); GetX of
	// minersc.GlobalSettings parses with config.StringToInterface(v, config.T) (GetString: no parse)
	{
		f := parseFile(filepath.Join(root, "core/config/globals.go"))
		gname := nameAssignments(f, "initGlobalSettingNames", "GlobalSettingName")
		gf := parseFile(filepath.Join(root, "smartcontract/minersc/globals.go"))
		getterTy := map[string]string{}
		for _, d := range gf.Decls {
			fd, ok := d.(*ast.FuncDecl)
			if !ok || fd.Recv == nil || !strings.HasPrefix(fd.Name.Name, "Get") || fd.Body == nil {
				continue
			}
			if rt := recvTypeName(fd); rt != "GlobalSettings" {
				continue
			}
			found := ""
			ast.Inspect(fd.Body, func(n ast.Node) bool {
				c, ok := n.(*ast.CallExpr)
				if !ok || len(c.Args) != 2 {
					return true
				}
				if se, ok := c.Fun.(*ast.SelectorExpr); ok && se.Sel.Name == "StringToInterface" {
					if ts, ok := c.Args[1].(*ast.SelectorExpr); ok {
						if found != "" && found != ts.Sel.Name {
							die("getter %s parses with two types", fd.Name.Name)
						}
						found = ts.Sel.Name
					}
				}
				return true
			})
			if found == "" {
				if fd.Name.Name != "GetString" {
					continue // not a value getter (or one the translator cannot read: its use below fails closed)
				}
				found = "String"
			}
			t, ok := tyBySel[found]
			if !ok {
				die("getter %s: unknown type %s", fd.Name.Name, found)
			}
			getterTy[fd.Name.Name] = tyName[t]
		}
		cfile := parseFile(filepath.Join(root, "chaincore/chain/config.go"))
		if findFunc(cfile, "ConfigImpl", "Update") == nil {
			die("chain.ConfigImpl.Update not found")
		}
		// Update and the helpers it hands cf to (UpdateHealthCheckSettings): every cf.GetX(config.Name) of the file
		var cons []row
		seen := map[string]string{}
		ast.Inspect(cfile, func(n ast.Node) bool {
			c, ok := n.(*ast.CallExpr)
			if !ok || len(c.Args) != 1 {
				return true
			}
			se, ok := c.Fun.(*ast.SelectorExpr)
			if !ok || !strings.HasPrefix(se.Sel.Name, "Get") {
				return true
			}
			if id, ok := se.X.(*ast.Ident); !ok || id.Name != "cf" {
				return true
			}
			arg, ok := c.Args[0].(*ast.SelectorExpr)
			if !ok {
				die("ConfigImpl.Update: argument of %s is not config.Name", se.Sel.Name)
			}
			name, ok := gname[arg.Sel.Name]
			if !ok {
				die("ConfigImpl.Update: %s has no setting name", arg.Sel.Name)
			}
			ty, ok := getterTy[se.Sel.Name]
			if !ok {
				die("ConfigImpl.Update: getter %s of %s cannot be resolved to a parse type", se.Sel.Name, name)
			}
			if old, dup := seen[name]; dup {
				if old != ty {
					die("chain config reads %s with two types (%s, %s)", name, old, ty)
				}
				return true
			}
			seen[name] = ty
			cons = append(cons, row{name, ty, true})
			return true
		})
		if len(cons) < 10 {
			die("ConfigImpl.Update: suspiciously few reads")
		}
		emitRows(&b, "gen_globals_consumers", cons)
	}

	// 2. minersc
	emitRows(&b, "gen_minersc_table", tableContract(filepath.Join(root, "smartcontract/minersc/settings.go"), "GlobalNode"))

	// 3. storagesc
	emitRows(&b, "gen_storagesc_table", tableContract(filepath.Join(root, "smartcontract/storagesc/config_settigns.go"), "Config"))

	// 4. faucetsc
	{
		fc := parseFile(filepath.Join(root, "smartcontract/faucetsc/config.go"))
		fm := parseFile(filepath.Join(root, "smartcontract/faucetsc/models.go"))
		idx := iotaConsts(fc, "Setting")
		names := stringSliceVar(fc, "Settings")
		fn := findFunc(fm, "GlobalNode", "updateConfig")
		if fn == nil {
			die("faucetsc: updateConfig not found")
		}
		rows, costDefault, _ := switchContract(fm, fn, func(e ast.Expr) string {
			ie, ok := e.(*ast.IndexExpr)
			if !ok {
				die("faucetsc: case is not Settings[X]")
			}
			return names[idx[ie.Index.(*ast.Ident).Name]]
		})
		if !costDefault {
			die("faucetsc: default clause no longer forwards to setCostValue")
		}
		emitRows(&b, "gen_faucetsc_table", rows)
		emitStrings(&b, "gen_faucetsc_costs", stringSliceVar(fc, "costFunctions"))
	}

	// 5. vestingsc
	{
		fc := parseFile(filepath.Join(root, "smartcontract/vestingsc/config.go"))
		idx := iotaConsts(fc, "Setting")
		names := stringSliceVar(fc, "Settings")
		fn := findFunc(fc, "config", "update")
		if fn == nil {
			die("vestingsc: config.update not found")
		}
		rows, costDefault, _ := switchContract(fc, fn, func(e ast.Expr) string {
			ie, ok := e.(*ast.IndexExpr)
			if !ok {
				die("vestingsc: case is not Settings[X]")
			}
			return names[idx[ie.Index.(*ast.Ident).Name]]
		})
		if !costDefault {
			die("vestingsc: default clause no longer forwards to setCostValue")
		}
		emitRows(&b, "gen_vestingsc_table", rows)
		emitStrings(&b, "gen_vestingsc_costs", stringSliceVar(fc, "costFunctions"))
	}

	// 6. zcnsc
	{
		fn0 := parseFile(filepath.Join(root, "smartcontract/zcnsc/nodes.go"))
		fcfg := parseFile(filepath.Join(root, "smartcontract/zcnsc/config.go"))
		fsc := parseFile(filepath.Join(root, "smartcontract/zcnsc/sc.go"))
		constFiles = []*ast.File{fcfg, fsc}
		fn := findFunc(fn0, "GlobalNode", "UpdateConfig")
		if fn == nil {
			die("zcnsc: UpdateConfig not found")
		}
		rows, costDefault, costCase := switchContract(fn0, fn, func(e ast.Expr) string { return constString(fcfg, e) })
		if costDefault {
			die("zcnsc: default clause forwards to setCostValue (model assumes it rejects)")
		}
		emitRows(&b, "gen_zcnsc_table", rows)
		// the only key that reaches setCostValue; that function requires the "cost." prefix, which this key lacks
		emitStrings(&b, "gen_zcnsc_cost_case", []string{costCase})
		emitStrings(&b, "gen_zcnsc_costs", stringSliceVar(fcfg, "CostFunctions"))
		constFiles = nil
	}

	out := filepath.Join("..", "coq", "Gen", "SettingsTables.v")
	if len(os.Args) > 1 {
		out = os.Args[1]
	}
	old, _ := os.ReadFile(out)
	if string(old) == b.String() {
		fmt.Println("settings tables unchanged")
		return
	}
	_ = os.MkdirAll(filepath.Dir(out), 0o755)
	if err := os.WriteFile(out, []byte(b.String()), 0o644); err != nil {
		die("%v", err)
	}
	fmt.Println("settings tables rewritten:", out)
}

func recvTypeName(fd *ast.FuncDecl) string {
	if fd.Recv == nil || len(fd.Recv.List) != 1 {
		return ""
	}
	t := fd.Recv.List[0].Type
	if s, ok := t.(*ast.StarExpr); ok {
		t = s.X
	}
	if id, ok := t.(*ast.Ident); ok {
		return id.Name
	}
	return ""
}
