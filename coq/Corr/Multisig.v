(* Correspondence for C21: a request list run on the real multisigsc contract (signature and
   reconstruction verdicts recorded from the real BLS library) with the outcome of every request. *)
From ZC Require Import Base.Corr Model.Multisig.
Open Scope Z_scope.

Record ms_case := { msc_ops : list ms_op; msc_outs : list ms_out }.

Definition ms_out_eqb (a b : ms_out) : bool :=
  match a, b with
  | MsRegistered, MsRegistered => true
  | MsNeed x, MsNeed y => x =? y
  | MsAlreadyVoted x, MsAlreadyVoted y => x =? y
  | MsAlreadyExecuted, MsAlreadyExecuted => true
  | MsExecuted f1 t1 a1, MsExecuted f2 t2 a2 => (f1 =? f2) && (t1 =? t2) && (a1 =? a2)
  | MsFail, MsFail => true
  | _, _ => false
  end.

Definition ms_check (c : ms_case) : bool :=
  list_eqb ms_out_eqb (snd (ms_run ms_init (msc_ops c))) (msc_outs c).
