(* Proofs about the replicating-sharder model (property C42). *)
From ZC Require Import Model.Replicate.
From Coq Require Import Sorting.Sorted Sorting.Permutation.
Open Scope Z_scope.

(* ---------- pool order: sort by key ---------- *)

Definition rp_kle (l : list rp_node) : Prop := StronglySorted Z.le (map rp_key l).
Definition rp_kstrict (l : list rp_node) : Prop := StronglySorted Z.lt (map rp_key l).

Lemma rp_ins_key_perm x l : Permutation (x :: l) (rp_ins_key x l).
Proof.
  induction l as [|y t IH]; cbn [rp_ins_key]; [apply Permutation_refl|].
  destruct (Z.ltb (rp_key y) (rp_key x)); [|apply Permutation_refl].
  eapply Permutation_trans; [apply perm_swap|]. apply perm_skip. exact IH.
Qed.

Lemma rp_sort_key_perm l : Permutation l (rp_sort_key l).
Proof.
  induction l as [|x t IH]; cbn [rp_sort_key fold_right]; [apply Permutation_refl|].
  eapply Permutation_trans; [apply perm_skip; exact IH|]. apply rp_ins_key_perm.
Qed.

Lemma rp_ins_key_kle x l : rp_kle l -> rp_kle (rp_ins_key x l).
Proof.
  unfold rp_kle. induction l as [|y t IH]; intros Hs; cbn [rp_ins_key map].
  - constructor; constructor.
  - cbn [map] in Hs. inversion Hs as [|? ? Hs' Hf]; subst.
    destruct (Z.ltb_spec (rp_key y) (rp_key x)) as [Hlt|Hge]; cbn [map].
    + constructor; [apply IH; assumption|].
      assert (Hp := rp_ins_key_perm x t). rewrite Forall_forall in *. intros k Hk.
      apply in_map_iff in Hk. destruct Hk as (n & <- & Hn).
      apply (Permutation_in _ (Permutation_sym Hp)) in Hn. destruct Hn as [->|Hn]; [lia|].
      apply Hf. apply in_map. assumption.
    + constructor; [constructor; assumption|]. constructor; [assumption|].
      rewrite Forall_forall in *. intros k Hk. specialize (Hf k Hk). lia.
Qed.

Lemma rp_sort_key_kle l : rp_kle (rp_sort_key l).
Proof.
  induction l as [|x t IH]; cbn [rp_sort_key fold_right]; [constructor|]. apply rp_ins_key_kle. exact IH.
Qed.

Lemma rp_kle_nodup_strict l : rp_kle l -> NoDup (map rp_key l) -> rp_kstrict l.
Proof.
  unfold rp_kle, rp_kstrict. induction (map rp_key l) as [|k t IH]; intros Hs Hn; [constructor|].
  inversion Hs as [|? ? Hs' Hf]; subst. inversion Hn as [|? ? Hni Hn']; subst.
  constructor; [apply IH; assumption|]. rewrite Forall_forall in *. intros y Hy.
  specialize (Hf y Hy). assert (y <> k) by (intros ->; contradiction). lia.
Qed.

Lemma rp_kstrict_nodup l : rp_kstrict l -> NoDup (map rp_key l).
Proof.
  unfold rp_kstrict. induction (map rp_key l) as [|k t IH]; intros Hs; [constructor|].
  inversion Hs as [|? ? Hs' Hf]; subst. constructor; [|apply IH; assumption].
  intros Hin. rewrite Forall_forall in Hf. specialize (Hf _ Hin). lia.
Qed.

Lemma rp_sort_key_id l : rp_kstrict l -> rp_sort_key l = l.
Proof.
  unfold rp_kstrict. induction l as [|x t IH]; intros Hs; [reflexivity|].
  cbn [map] in Hs. inversion Hs as [|? ? Hs' Hf]; subst.
  cbn [rp_sort_key fold_right]. fold (rp_sort_key t). rewrite IH by assumption.
  destruct t as [|y t']; [reflexivity|]. cbn [rp_ins_key].
  cbn [map] in Hf. inversion Hf; subst. destruct (Z.ltb_spec (rp_key y) (rp_key x)); [lia|reflexivity].
Qed.

Lemma rp_kstrict_head_lt x t : rp_kstrict (x :: t) -> forall y, In y t -> rp_key x < rp_key y.
Proof.
  unfold rp_kstrict. cbn [map]. intros Hs y Hy. inversion Hs as [|? ? _ Hf]; subst.
  rewrite Forall_forall in Hf. apply Hf. apply in_map. assumption.
Qed.

Lemma rp_kstrict_tail x t : rp_kstrict (x :: t) -> rp_kstrict t.
Proof. unfold rp_kstrict. cbn [map]. intros Hs. inversion Hs; assumption. Qed.

Lemma rp_kstrict_perm_unique a : forall b, rp_kstrict a -> rp_kstrict b -> Permutation a b -> a = b.
Proof.
  induction a as [|x a' IH]; intros b Ha Hb Hp.
  - apply Permutation_nil in Hp. congruence.
  - destruct b as [|y b']; [apply Permutation_sym, Permutation_nil in Hp; discriminate|].
    assert (Hxy : x = y).
    { assert (Hx : In x (y :: b')) by (apply (Permutation_in _ Hp); left; reflexivity).
      assert (Hy : In y (x :: a')) by (apply (Permutation_in _ (Permutation_sym Hp)); left; reflexivity).
      destruct Hx as [Hx|Hx]; [congruence|]. destruct Hy as [Hy|Hy]; [congruence|].
      assert (H1 := rp_kstrict_head_lt _ _ Hb _ Hx). assert (H2 := rp_kstrict_head_lt _ _ Ha _ Hy). lia. }
    subst y. f_equal. apply IH; [eapply rp_kstrict_tail; eassumption | eapply rp_kstrict_tail; eassumption|].
    eapply Permutation_cons_inv. eassumption.
Qed.

Lemma rp_has_key_iff l k : rp_has_key l k = true <-> In k (map rp_key l).
Proof.
  unfold rp_has_key. rewrite existsb_exists, in_map_iff. split.
  - intros (y & Hy & E). apply Z.eqb_eq in E. exists y. split; assumption.
  - intros (y & E & Hy). exists y. split; [assumption|apply Z.eqb_eq; assumption].
Qed.

Lemma rp_replace_keys n l : map rp_key (rp_replace n l) = map rp_key l.
Proof.
  induction l as [|y t IH]; [reflexivity|]. cbn [rp_replace].
  destruct (Z.eqb_spec (rp_key y) (rp_key n)) as [E|E]; cbn [map]; [congruence|]. rewrite IH. reflexivity.
Qed.

Lemma rp_nodup_snoc (l : list Z) k : NoDup l -> ~ In k l -> NoDup (l ++ [k]).
Proof.
  intros Hn Hni. eapply Permutation_NoDup; [apply Permutation_cons_append|]. constructor; assumption.
Qed.

Lemma rp_add_kstrict pool n : rp_kstrict pool -> rp_kstrict (rp_add pool n).
Proof.
  intros Hs. unfold rp_add. destruct (rp_has_key pool (rp_key n)) eqn:Hk.
  - assert (Hr : rp_kstrict (rp_replace n pool)) by (unfold rp_kstrict; rewrite rp_replace_keys; exact Hs).
    rewrite rp_sort_key_id; assumption.
  - apply rp_kle_nodup_strict; [apply rp_sort_key_kle|].
    assert (Hp := rp_sort_key_perm (pool ++ [n])).
    eapply Permutation_NoDup; [apply Permutation_map; exact Hp|].
    rewrite map_app. cbn [map]. apply rp_nodup_snoc; [apply rp_kstrict_nodup; assumption|].
    intros Hin. apply rp_has_key_iff in Hin. congruence.
Qed.

Lemma rp_fold_kstrict l : forall pool, rp_kstrict pool -> rp_kstrict (fold_left rp_add l pool).
Proof.
  induction l as [|n t IH]; intros pool Hs; cbn [fold_left]; [assumption|]. apply IH, rp_add_kstrict, Hs.
Qed.

(* every pool ever built has strictly increasing, hence distinct, keys *)
Lemma rp_build_kstrict l : rp_kstrict (rp_build l).
Proof. apply rp_fold_kstrict. constructor. Qed.

Lemma rp_fold_perm l : forall pool, NoDup (map rp_key (pool ++ l)) ->
  Permutation (pool ++ l) (fold_left rp_add l pool).
Proof.
  induction l as [|n t IH]; intros pool Hn; cbn [fold_left]; [rewrite app_nil_r; apply Permutation_refl|].
  assert (Hk : rp_has_key pool (rp_key n) = false).
  { destruct (rp_has_key pool (rp_key n)) eqn:E; [|reflexivity]. apply rp_has_key_iff in E.
    rewrite map_app in Hn. cbn [map] in Hn. apply NoDup_remove_2 in Hn. exfalso. apply Hn.
    apply in_or_app. left. assumption. }
  assert (Hadd : Permutation (pool ++ [n]) (rp_add pool n)) by (unfold rp_add; rewrite Hk; apply rp_sort_key_perm).
  assert (Hp : Permutation (pool ++ n :: t) (rp_add pool n ++ t)).
  { replace (pool ++ n :: t) with ((pool ++ [n]) ++ t) by (rewrite <- app_assoc; reflexivity).
    apply Permutation_app_tail. exact Hadd. }
  eapply Permutation_trans; [exact Hp|]. apply IH.
  eapply Permutation_NoDup; [apply Permutation_map; exact Hp|assumption].
Qed.

Lemma rp_build_perm l : NoDup (map rp_key l) -> Permutation l (rp_build l).
Proof. intros Hn. apply (rp_fold_perm l []). exact Hn. Qed.

(* the pool does not depend on the order in which the sharders were added *)
Lemma rp_build_order_independent l1 l2 :
  NoDup (map rp_key l1) -> Permutation l1 l2 -> rp_build l1 = rp_build l2.
Proof.
  intros Hn Hp.
  assert (Hn2 : NoDup (map rp_key l2)) by (eapply Permutation_NoDup; [apply Permutation_map; exact Hp|assumption]).
  apply rp_kstrict_perm_unique; try apply rp_build_kstrict.
  eapply Permutation_trans; [apply Permutation_sym, rp_build_perm; assumption|].
  eapply Permutation_trans; [exact Hp|]. apply rp_build_perm. assumption.
Qed.

(* ---------- score order ---------- *)

Definition rp_desc (l : list rp_sc) : Prop := StronglySorted (fun a b => rp_val a >= rp_val b) l.

Lemma rp_ins_sc_perm x l : Permutation (x :: l) (rp_ins_sc x l).
Proof.
  induction l as [|y t IH]; cbn [rp_ins_sc]; [apply Permutation_refl|].
  destruct (rp_less y x); [|apply Permutation_refl].
  eapply Permutation_trans; [apply perm_swap|]. apply perm_skip. exact IH.
Qed.

Lemma rp_sort_sc_perm l : Permutation l (rp_sort_sc l).
Proof.
  induction l as [|x t IH]; cbn [rp_sort_sc fold_right]; [apply Permutation_refl|].
  eapply Permutation_trans; [apply perm_skip; exact IH|]. apply rp_ins_sc_perm.
Qed.

Lemma rp_less_true a b : rp_less a b = true -> rp_val a >= rp_val b.
Proof. unfold rp_less. destruct (Z.eqb_spec (rp_val a) (rp_val b)); [lia|]. intros H. apply Z.gtb_lt in H. lia. Qed.

Lemma rp_less_false a b : rp_less a b = false -> rp_val b >= rp_val a.
Proof.
  unfold rp_less. destruct (Z.eqb_spec (rp_val a) (rp_val b)); [lia|].
  intros H. destruct (Z.gtb_spec (rp_val a) (rp_val b)); [discriminate|lia].
Qed.

Lemma rp_ins_sc_desc x l : rp_desc l -> rp_desc (rp_ins_sc x l).
Proof.
  unfold rp_desc. induction l as [|y t IH]; intros Hs; cbn [rp_ins_sc].
  - constructor; constructor.
  - inversion Hs as [|? ? Hs' Hf]; subst. destruct (rp_less y x) eqn:El.
    + apply rp_less_true in El. constructor; [apply IH; assumption|].
      assert (Hp := rp_ins_sc_perm x t). rewrite Forall_forall in *. intros z Hz.
      apply (Permutation_in _ (Permutation_sym Hp)) in Hz. destruct Hz as [->|Hz]; [assumption|apply Hf; assumption].
    + apply rp_less_false in El. constructor; [constructor; assumption|]. constructor; [assumption|].
      rewrite Forall_forall in *. intros z Hz. specialize (Hf z Hz). lia.
Qed.

Lemma rp_sort_sc_desc l : rp_desc (rp_sort_sc l).
Proof.
  induction l as [|x t IH]; cbn [rp_sort_sc fold_right]; [constructor|]. apply rp_ins_sc_desc. exact IH.
Qed.

(* around position j of a descending list *)
Lemma rp_desc_split l : rp_desc l -> forall j, (j < length l)%nat ->
  (forall x, In x (firstn (S j) l) -> rp_val x >= rp_val (nth j l rp_sc_dflt)) /\
  (forall x, In x (skipn j l) -> rp_val x <= rp_val (nth j l rp_sc_dflt)).
Proof.
  unfold rp_desc. induction 1 as [|h t Hs IH Hf]; intros j Hj; cbn [length] in Hj; [lia|].
  rewrite Forall_forall in Hf. destruct j as [|j].
  - cbn [firstn skipn nth]. split; [intros x [->|[]]; lia|].
    intros x [->|Hx]; [lia|]. specialize (Hf x Hx). lia.
  - destruct (IH j ltac:(lia)) as [H1 H2]. cbn [nth skipn]. split; [|assumption].
    change (firstn (S (S j)) (h :: t)) with (h :: firstn (S j) t).
    intros x [->|Hx]; [|apply H1; assumption]. apply Hf. apply nth_In. lia.
Qed.

Lemma rp_top_loop_In l min : rp_desc l ->
  forall x, In x (rp_top_loop l min) <-> In x l /\ rp_val x >= min.
Proof.
  unfold rp_desc. induction 1 as [|h t Hs IH Hf]; intros x; cbn [rp_top_loop]; [cbn; tauto|].
  rewrite Forall_forall in Hf. destruct (Z.ltb_spec (rp_val h) min) as [Hlt|Hge].
  - split; [intros []|]. intros [[->|Hx] Hv]; [lia|]. specialize (Hf x Hx). lia.
  - cbn [In]. rewrite IH. split.
    + intros [->|[Hx Hv]]; [split; [left; reflexivity|lia] | split; [right; assumption|assumption]].
    + intros [[->|Hx] Hv]; [left; reflexivity | right; split; assumption].
Qed.

Lemma rp_in_top_loop_has_key l min key :
  rp_in_top_loop l min key = rp_has_key (map rp_nd (rp_top_loop l min)) key.
Proof.
  induction l as [|h t IH]; cbn [rp_in_top_loop rp_top_loop]; [reflexivity|].
  destruct (Z.ltb (rp_val h) min); [reflexivity|]. cbn [map rp_has_key existsb].
  destruct (Z.eqb (rp_key (rp_nd h)) key); [reflexivity|]. cbn [orb]. exact IH.
Qed.

Lemma rp_top_loop_length l min n :
  (n <= length l)%nat -> (forall x, In x (firstn n l) -> rp_val x >= min) ->
  (n <= length (rp_top_loop l min))%nat.
Proof.
  revert n. induction l as [|h t IH]; intros n Hn Hall; cbn [length] in Hn; [lia|].
  destruct n as [|n]; [lia|]. cbn [rp_top_loop]. cbn [firstn] in Hall.
  destruct (Z.ltb_spec (rp_val h) min) as [Hlt|Hge].
  - specialize (Hall h (or_introl eq_refl)). lia.
  - cbn [length]. apply le_n_S. apply IH; [lia|]. intros x Hx. apply Hall. right. assumption.
Qed.

(* counting strictly better scores *)
Lemma rp_count_gt_app a b v : rp_count_gt (a ++ b) v = (rp_count_gt a v + rp_count_gt b v)%nat.
Proof. unfold rp_count_gt. rewrite filter_app, app_length. reflexivity. Qed.

Lemma rp_count_gt_perm a b v : Permutation a b -> rp_count_gt a v = rp_count_gt b v.
Proof.
  unfold rp_count_gt. induction 1 as [|x l l' Hp IH|x y l|l l' l'' H1 IH1 H2 IH2]; cbn [filter].
  - reflexivity.
  - destruct (Z.gtb (rp_val x) v); cbn [length]; congruence.
  - destruct (Z.gtb (rp_val x) v); destruct (Z.gtb (rp_val y) v); reflexivity.
  - congruence.
Qed.

Lemma rp_count_gt_none l v : (forall x, In x l -> rp_val x <= v) -> rp_count_gt l v = 0%nat.
Proof.
  unfold rp_count_gt. induction l as [|h t IH]; intros Hall; [reflexivity|]. cbn [filter].
  destruct (Z.gtb_spec (rp_val h) v) as [Hgt|Hle]; [specialize (Hall h (or_introl eq_refl)); lia|].
  apply IH. intros x Hx. apply Hall. right. assumption.
Qed.

Lemma rp_count_gt_all l v : (forall x, In x l -> rp_val x > v) -> rp_count_gt l v = length l.
Proof.
  unfold rp_count_gt. induction l as [|h t IH]; intros Hall; [reflexivity|]. cbn [filter].
  destruct (Z.gtb_spec (rp_val h) v) as [Hgt|Hle]; [|specialize (Hall h (or_introl eq_refl)); lia].
  cbn [length]. f_equal. apply IH. intros x Hx. apply Hall. right. assumption.
Qed.

Lemma rp_count_gt_le_length l v : (rp_count_gt l v <= length l)%nat.
Proof.
  unfold rp_count_gt. induction l as [|h t IH]; cbn [filter length]; [lia|].
  destruct (Z.gtb (rp_val h) v); cbn [length]; lia.
Qed.

(* v reaches the score at position j of the descending list iff at most j scores beat v *)
Lemma rp_cutoff_iff_count l j v : rp_desc l -> (j < length l)%nat ->
  (v >= rp_val (nth j l rp_sc_dflt) <-> (rp_count_gt l v <= j)%nat).
Proof.
  intros Hd Hj. destruct (rp_desc_split l Hd j Hj) as [H1 H2]. split.
  - intros Hv. rewrite <- (firstn_skipn j l), rp_count_gt_app.
    rewrite (rp_count_gt_none (skipn j l)) by (intros x Hx; specialize (H2 x Hx); lia).
    assert (A := rp_count_gt_le_length (firstn j l) v). rewrite firstn_length in A. lia.
  - intros Hc. destruct (Z_ge_lt_dec v (rp_val (nth j l rp_sc_dflt))) as [|Hlt]; [assumption|exfalso].
    rewrite <- (firstn_skipn (S j) l), rp_count_gt_app in Hc.
    rewrite (rp_count_gt_all (firstn (S j) l)) in Hc by (intros x Hx; specialize (H1 x Hx); lia).
    rewrite firstn_length in Hc. lia.
Qed.

(* ---------- pool level ---------- *)

Lemma rp_scores_from_nodes pool hash : forall i sc0, rp_scores_from i pool hash = Some sc0 ->
  map rp_nd sc0 = pool /\ forall x, In x sc0 -> rp_score (rp_idb (rp_nd x)) hash = Some (rp_val x).
Proof.
  induction pool as [|n t IH]; intros i sc0 H; cbn [rp_scores_from] in H.
  - inversion H; subst. split; [reflexivity|intros x []].
  - destruct (rp_score (rp_idb n) hash) as [s|] eqn:Es; [|discriminate].
    destruct (rp_scores_from (i + 1) t hash) as [r|] eqn:Er; [|discriminate].
    inversion H; subst. destruct (IH _ _ Er) as [Hm Hs]. cbn [map rp_nd]. split; [congruence|].
    intros x [<-|Hx]; [exact Es|apply Hs; assumption].
Qed.

Lemma rp_nodup_map_inj {A} (f : A -> Z) l a b :
  NoDup (map f l) -> In a l -> In b l -> f a = f b -> a = b.
Proof.
  induction l as [|h t IH]; intros Hn Ha Hb E; [destruct Ha|].
  cbn [map] in Hn. inversion Hn as [|? ? Hni Hn']; subst.
  destruct Ha as [->|Ha]; destruct Hb as [->|Hb]; [reflexivity| | |apply IH; assumption].
  - exfalso. apply Hni. rewrite E. apply in_map. assumption.
  - exfalso. apply Hni. rewrite <- E. apply in_map. assumption.
Qed.

(* IsInTop on a pool: a sharder is a replicator iff fewer than k sharders score strictly higher;
   a key outside the pool never is *)
Lemma rp_is_in_top_iff_gen pool sc0 k :
  rp_kstrict pool -> map rp_nd sc0 = pool ->
  1 <= k <= Z.of_nat (length pool) ->
  (forall x, In x sc0 ->
     rp_is_in_top (rp_sort_sc sc0) k (rp_key (rp_nd x)) =
       Some (Nat.ltb (rp_count_gt sc0 (rp_val x)) (Z.to_nat k))) /\
  (forall key, ~ In key (map rp_key pool) -> rp_is_in_top (rp_sort_sc sc0) k key = Some false).
Proof.
  intros Hks Hnodes Hk.
  set (sc := rp_sort_sc sc0). assert (Hp : Permutation sc0 sc) by apply rp_sort_sc_perm.
  assert (Hd : rp_desc sc) by apply rp_sort_sc_desc.
  assert (Hlen : length sc = length pool).
  { rewrite <- (Permutation_length Hp), <- Hnodes, map_length. reflexivity. }
  assert (Hmin : rp_min_score sc k = Some (Some (rp_val (nth (Z.to_nat (k - 1)) sc rp_sc_dflt)))).
  { unfold rp_min_score. rewrite Hlen. destruct (Z.leb_spec k (Z.of_nat (length pool))); [|lia].
    destruct (Z.leb_spec k 0); [lia|reflexivity]. }
  assert (Hj : (Z.to_nat (k - 1) < length sc)%nat) by lia.
  assert (Hnd : NoDup (map (fun x => rp_key (rp_nd x)) sc0)).
  { rewrite <- map_map, Hnodes. apply rp_kstrict_nodup. assumption. }
  split.
  - intros x Hx. unfold rp_is_in_top. rewrite Hmin, rp_in_top_loop_has_key. f_equal.
    set (min := rp_val (nth (Z.to_nat (k - 1)) sc rp_sc_dflt)).
    assert (Hcut := rp_cutoff_iff_count sc (Z.to_nat (k - 1)) (rp_val x) Hd Hj). fold min in Hcut.
    rewrite <- (rp_count_gt_perm _ _ (rp_val x) Hp) in Hcut.
    destruct (Nat.ltb_spec (rp_count_gt sc0 (rp_val x)) (Z.to_nat k)) as [Hlt|Hge].
    + apply rp_has_key_iff. rewrite map_map. apply in_map_iff. exists x. split; [reflexivity|].
      apply rp_top_loop_In; [assumption|]. split; [apply (Permutation_in _ Hp); assumption|].
      apply Hcut. lia.
    + destruct (rp_has_key (map rp_nd (rp_top_loop sc min)) (rp_key (rp_nd x))) eqn:E; [|reflexivity].
      exfalso. apply rp_has_key_iff in E. rewrite map_map in E. apply in_map_iff in E.
      destruct E as (y & Ey & Hy). apply rp_top_loop_In in Hy; [|assumption]. destruct Hy as [Hy Hv].
      apply (Permutation_in _ (Permutation_sym Hp)) in Hy.
      assert (y = x) by (eapply (rp_nodup_map_inj (fun z => rp_key (rp_nd z))); eassumption).
      subst y. apply Hcut in Hv. lia.
  - intros key Hni. unfold rp_is_in_top. rewrite Hmin, rp_in_top_loop_has_key. f_equal.
    destruct (rp_has_key _ key) eqn:E; [|reflexivity]. exfalso. apply rp_has_key_iff in E.
    rewrite map_map in E. apply in_map_iff in E. destruct E as (y & Ey & Hy).
    apply rp_top_loop_In in Hy; [|assumption]. destruct Hy as [Hy _].
    apply (Permutation_in _ (Permutation_sym Hp)) in Hy. apply Hni. rewrite <- Hnodes, map_map.
    apply in_map_iff. exists y. split; assumption.
Qed.

Lemma rp_is_in_top_iff pool hash sc0 k :
  rp_kstrict pool -> rp_scores_from 0 pool hash = Some sc0 ->
  1 <= k <= Z.of_nat (length pool) ->
  (forall x, In x sc0 ->
     rp_is_in_top (rp_sort_sc sc0) k (rp_key (rp_nd x)) =
       Some (Nat.ltb (rp_count_gt sc0 (rp_val x)) (Z.to_nat k))) /\
  (forall key, ~ In key (map rp_key pool) -> rp_is_in_top (rp_sort_sc sc0) k key = Some false).
Proof.
  intros Hks Hsc Hk. destruct (rp_scores_from_nodes _ _ _ _ Hsc) as [Hnodes _].
  apply rp_is_in_top_iff_gen; assumption.
Qed.

Lemma rp_top_loop_sub l min x : In x (rp_top_loop l min) -> In x l.
Proof.
  induction l as [|a t IH]; cbn [rp_top_loop]; intros Hy; [destruct Hy|].
  destruct (Z.ltb (rp_val a) min); [destruct Hy|]. destruct Hy as [->|Hy]; [left; reflexivity|right; apply IH; assumption].
Qed.

Lemma rp_top_loop_nodup l min :
  NoDup (map (fun x => rp_key (rp_nd x)) l) -> NoDup (map rp_key (map rp_nd (rp_top_loop l min))).
Proof.
  rewrite map_map. induction l as [|h t IH]; cbn [rp_top_loop map]; intros Hnd; [constructor|].
  inversion Hnd as [|? ? Hni Hn']; subst.
  destruct (Z.ltb (rp_val h) min); [constructor|]. cbn [map]. constructor; [|apply IH; assumption].
  intros Hin. apply Hni. apply in_map_iff in Hin. destruct Hin as (y & Ey & Hy). apply in_map_iff.
  exists y. split; [assumption|]. eapply rp_top_loop_sub. eassumption.
Qed.

(* IsInTopWithNodes: at least k replicators when there are at least k sharders; the boolean
   agrees with IsInTop; the returned nodes are exactly the replicators *)
Lemma rp_with_nodes_spec_gen pool sc0 k key :
  map rp_nd sc0 = pool -> 1 <= k <= Z.of_nat (length pool) ->
  exists top, rp_is_in_top_with_nodes (rp_sort_sc sc0) k key = Some (rp_has_key top key, top) /\
              rp_is_in_top (rp_sort_sc sc0) k key = Some (rp_has_key top key) /\
              (Z.to_nat k <= length top)%nat /\
              (forall n, In n top -> In n pool) /\
              (rp_kstrict pool -> NoDup (map rp_key top)).
Proof.
  intros Hnodes Hk.
  set (sc := rp_sort_sc sc0). assert (Hp : Permutation sc0 sc) by apply rp_sort_sc_perm.
  assert (Hd : rp_desc sc) by apply rp_sort_sc_desc.
  assert (Hlen : length sc = length pool).
  { rewrite <- (Permutation_length Hp), <- Hnodes, map_length. reflexivity. }
  assert (Hmin : rp_min_score sc k = Some (Some (rp_val (nth (Z.to_nat (k - 1)) sc rp_sc_dflt)))).
  { unfold rp_min_score. rewrite Hlen. destruct (Z.leb_spec k (Z.of_nat (length pool))); [|lia].
    destruct (Z.leb_spec k 0); [lia|reflexivity]. }
  assert (Hj : (Z.to_nat (k - 1) < length sc)%nat) by lia.
  set (min := rp_val (nth (Z.to_nat (k - 1)) sc rp_sc_dflt)) in *.
  exists (map rp_nd (rp_top_loop sc min)). unfold rp_is_in_top_with_nodes, rp_is_in_top. rewrite Hmin.
  split; [reflexivity|]. split; [rewrite rp_in_top_loop_has_key; reflexivity|]. split.
  - rewrite map_length. destruct (rp_desc_split sc Hd _ Hj) as [H1 _].
    replace (Z.to_nat k) with (S (Z.to_nat (k - 1))) by lia. apply rp_top_loop_length; [lia|exact H1].
  - split.
    + intros n Hn. apply in_map_iff in Hn. destruct Hn as (y & <- & Hy).
      apply rp_top_loop_In in Hy; [|assumption]. destruct Hy as [Hy _].
      apply (Permutation_in _ (Permutation_sym Hp)) in Hy. rewrite <- Hnodes. apply in_map. assumption.
    + intros Hks. apply rp_top_loop_nodup.
      eapply Permutation_NoDup; [apply Permutation_map; exact Hp|].
      rewrite <- map_map, Hnodes. apply rp_kstrict_nodup. assumption.
Qed.

Lemma rp_with_nodes_spec pool hash sc0 k key :
  rp_scores_from 0 pool hash = Some sc0 -> 1 <= k <= Z.of_nat (length pool) ->
  exists top, rp_is_in_top_with_nodes (rp_sort_sc sc0) k key = Some (rp_has_key top key, top) /\
              rp_is_in_top (rp_sort_sc sc0) k key = Some (rp_has_key top key) /\
              (Z.to_nat k <= length top)%nat /\
              (forall n, In n top -> In n pool) /\
              (rp_kstrict pool -> NoDup (map rp_key top)).
Proof.
  intros Hsc Hk. destruct (rp_scores_from_nodes _ _ _ _ Hsc) as [Hnodes _].
  apply rp_with_nodes_spec_gen; assumption.
Qed.

Lemma rp_scores_from_length pool hash : forall i sc0, rp_scores_from i pool hash = Some sc0 -> length sc0 = length pool.
Proof. intros i sc0 H. destruct (rp_scores_from_nodes _ _ _ _ H) as [<- _]. rewrite map_length. reflexivity. Qed.

(* no panic when the hash is at least as long as every id *)
Lemma rp_score_some idb : forall hash, (length idb <= length hash)%nat -> exists s, rp_score idb hash = Some s.
Proof.
  induction idb as [|b t IH]; intros hash Hl; cbn [rp_score]; [exists 0; reflexivity|].
  destruct hash as [|h ht]; cbn [length] in Hl; [lia|].
  destruct (IH ht ltac:(lia)) as (s & Hs). rewrite Hs. eexists. reflexivity.
Qed.

Lemma rp_scores_from_some pool hash : Forall (fun n => (length (rp_idb n) <= length hash)%nat) pool ->
  forall i, exists sc0, rp_scores_from i pool hash = Some sc0.
Proof.
  induction 1 as [|n t Hn Ht IH]; intros i; cbn [rp_scores_from]; [eexists; reflexivity|].
  destruct (rp_score_some _ _ Hn) as (s & Hs). rewrite Hs. destruct (IH (i + 1)) as (r & Hr). rewrite Hr.
  eexists. reflexivity.
Qed.

(* ---------- chain level ---------- *)

Lemma rp_everyone_when_disabled k pool hash key :
  k <= 0 -> rp_is_block_sharder k pool hash key = Some true /\
            rp_can_shard_with_replicators k pool hash key = Some (true, pool).
Proof.
  intros Hk. unfold rp_is_block_sharder, rp_can_shard_with_replicators.
  destruct (Z.leb_spec k 0); [split; reflexivity|lia].
Qed.

Lemma rp_nobody_when_k_gt_n k pool hash key :
  Z.of_nat (length pool) < k -> 0 < k ->
  Forall (fun n => (length (rp_idb n) <= length hash)%nat) pool ->
  rp_is_block_sharder k pool (Some hash) key = Some false.
Proof.
  intros Hk Hk0 Hf. unfold rp_is_block_sharder. destruct (Z.leb_spec k 0); [lia|].
  cbn [rp_score_hash_string]. unfold rp_score_hash.
  destruct (rp_scores_from_some pool hash Hf 0) as (sc0 & Hsc). rewrite Hsc. cbn [option_map].
  unfold rp_is_in_top, rp_min_score.
  rewrite <- (Permutation_length (rp_sort_sc_perm sc0)), (rp_scores_from_length _ _ _ _ Hsc).
  destruct (Z.leb_spec k (Z.of_nat (length pool))); [lia|reflexivity].
Qed.

(* at least k replicators when there are at least k sharders *)
Lemma rp_at_least_k l hash k key :
  let pool := rp_build l in
  1 <= k <= Z.of_nat (length pool) ->
  Forall (fun n => (length (rp_idb n) <= length hash)%nat) pool ->
  exists top, rp_can_shard_with_replicators k pool (Some hash) key = Some (rp_has_key top key, top) /\
              rp_is_block_sharder k pool (Some hash) key = Some (rp_has_key top key) /\
              (Z.to_nat k <= length top)%nat /\ NoDup (map rp_key top) /\ (forall n, In n top -> In n pool).
Proof.
  intros pool Hk Hf. unfold rp_can_shard_with_replicators, rp_is_block_sharder.
  destruct (Z.leb_spec k 0); [lia|]. cbn [rp_score_hash_string]. unfold rp_score_hash.
  destruct (rp_scores_from_some pool hash Hf 0) as (sc0 & Hsc). rewrite Hsc. cbn [option_map].
  destruct (rp_with_nodes_spec pool hash sc0 k key Hsc Hk) as (top & H1 & H2 & H3 & H4 & H5).
  exists top. repeat split; try assumption. apply H5. apply rp_build_kstrict.
Qed.

(* the replicator set: sharder x of the pool stores the block iff fewer than k sharders have a
   strictly higher score -- no reference to insertion order, SetIndex or sort order *)
Lemma rp_replicator_iff l hash k sc0 :
  let pool := rp_build l in
  rp_scores_from 0 pool hash = Some sc0 -> 1 <= k <= Z.of_nat (length pool) ->
  (forall x, In x sc0 ->
     rp_is_block_sharder k pool (Some hash) (rp_key (rp_nd x)) =
       Some (Nat.ltb (rp_count_gt sc0 (rp_val x)) (Z.to_nat k))) /\
  (forall key, ~ In key (map rp_key pool) -> rp_is_block_sharder k pool (Some hash) key = Some false).
Proof.
  intros pool Hsc Hk. unfold rp_is_block_sharder. destruct (Z.leb_spec k 0); [lia|].
  cbn [rp_score_hash_string]. unfold rp_score_hash. rewrite Hsc. cbn [option_map].
  apply (rp_is_in_top_iff pool hash); [apply rp_build_kstrict|assumption|assumption].
Qed.

(* the same answers whatever the order in which the sharders were added *)
Lemma rp_same_set_any_order l1 l2 k hash key :
  NoDup (map rp_key l1) -> Permutation l1 l2 ->
  rp_is_block_sharder k (rp_build l1) hash key = rp_is_block_sharder k (rp_build l2) hash key /\
  rp_can_shard_with_replicators k (rp_build l1) hash key = rp_can_shard_with_replicators k (rp_build l2) hash key.
Proof. intros Hn Hp. rewrite (rp_build_order_independent l1 l2 Hn Hp). split; reflexivity. Qed.

(* an undecodable hash: nobody (k > 0) *)
Lemma rp_bad_hash_nobody k pool key : 0 < k -> rp_is_block_sharder k pool None key = Some false.
Proof.
  intros Hk. unfold rp_is_block_sharder. destruct (Z.leb_spec k 0); [lia|]. cbn.
  unfold rp_is_in_top, rp_min_score. cbn [length]. destruct (Z.leb_spec k (Z.of_nat 0)); [lia|reflexivity].
Qed.

(* the score is the Hamming distance: between 0 and 8 per id byte *)
Lemma rp_pop_bounds f x : 0 <= rp_pop f x <= Z.of_nat f.
Proof.
  revert x. induction f as [|f IH]; intros x; cbn [rp_pop]; [lia|].
  specialize (IH (x / 2)). assert (0 <= x mod 2 < 2) by (apply Z.mod_pos_bound; lia). lia.
Qed.

(* ---------- the SetIndex values do not matter ---------- *)

Lemma rp_scores_ix_nodes pool hash : forall idxs sc0, rp_scores_ix idxs pool hash = Some sc0 ->
  map rp_nd sc0 = pool /\ forall x, In x sc0 -> rp_score (rp_idb (rp_nd x)) hash = Some (rp_val x).
Proof.
  induction pool as [|n t IH]; intros idxs sc0 H; cbn [rp_scores_ix] in H.
  - inversion H; subst. split; [reflexivity|intros x []].
  - destruct (rp_score (rp_idb n) hash) as [s|] eqn:Es; [|discriminate].
    destruct (rp_scores_ix (tl idxs) t hash) as [r|] eqn:Er; [|discriminate].
    inversion H; subst. destruct (IH _ _ Er) as [Hm Hs]. cbn [map rp_nd]. split; [congruence|].
    intros x [<-|Hx]; [exact Es|apply Hs; assumption].
Qed.

Lemma rp_scores_ix_vals pool hash : forall idxs i,
  option_map (map rp_val) (rp_scores_ix idxs pool hash) = option_map (map rp_val) (rp_scores_from i pool hash).
Proof.
  induction pool as [|n t IH]; intros idxs i; cbn [rp_scores_ix rp_scores_from]; [reflexivity|].
  destruct (rp_score (rp_idb n) hash) as [s|]; [|reflexivity].
  specialize (IH (tl idxs) (i + 1)).
  destruct (rp_scores_ix (tl idxs) t hash) as [a|]; destruct (rp_scores_from (i + 1) t hash) as [b|];
    cbn [option_map] in *; try discriminate; try reflexivity.
  inversion IH as [E]. cbn [map rp_val]. rewrite E. reflexivity.
Qed.

Lemma rp_count_gt_vals a : forall b v, map rp_val a = map rp_val b -> rp_count_gt a v = rp_count_gt b v.
Proof.
  unfold rp_count_gt. induction a as [|x a' IH]; intros b v E; destruct b as [|y b']; cbn [map] in E; try discriminate; [reflexivity|].
  inversion E as [[E1 E2]]. cbn [filter]. rewrite E1. destruct (Z.gtb (rp_val y) v); cbn [length]; rewrite (IH b' v E2); reflexivity.
Qed.

Lemma rp_is_in_top_any_index pool hash a b k key :
  rp_kstrict pool ->
  map rp_nd a = pool -> map rp_nd b = pool -> map rp_val a = map rp_val b ->
  (forall x, In x a -> rp_score (rp_idb (rp_nd x)) hash = Some (rp_val x)) ->
  (forall x, In x b -> rp_score (rp_idb (rp_nd x)) hash = Some (rp_val x)) ->
  rp_is_in_top (rp_sort_sc a) k key = rp_is_in_top (rp_sort_sc b) k key.
Proof.
  intros Hks Ha Hb Hv Hsa Hsb.
  assert (Hla : length (rp_sort_sc a) = length pool)
    by (rewrite <- (Permutation_length (rp_sort_sc_perm a)), <- Ha, map_length; reflexivity).
  assert (Hlb : length (rp_sort_sc b) = length pool)
    by (rewrite <- (Permutation_length (rp_sort_sc_perm b)), <- Hb, map_length; reflexivity).
  destruct (Z_le_gt_dec k 0) as [Hk0|Hk0].
  - unfold rp_is_in_top, rp_min_score. rewrite Hla, Hlb.
    destruct (Z.leb_spec k (Z.of_nat (length pool))); [|lia]. destruct (Z.leb_spec k 0); [reflexivity|lia].
  - destruct (Z_le_gt_dec k (Z.of_nat (length pool))) as [Hkn|Hkn].
    + destruct (rp_is_in_top_iff_gen pool a k Hks Ha ltac:(lia)) as [Ha1 Ha2].
      destruct (rp_is_in_top_iff_gen pool b k Hks Hb ltac:(lia)) as [Hb1 Hb2].
      destruct (in_dec Z.eq_dec key (map rp_key pool)) as [Hin|Hni]; [|rewrite Ha2, Hb2 by assumption; reflexivity].
      apply in_map_iff in Hin. destruct Hin as (nn & Hkey & Hnn).
      assert (Hxa : exists x, In x a /\ rp_nd x = nn) by (rewrite <- Ha in Hnn; apply in_map_iff in Hnn; destruct Hnn as (x & E & Hx); exists x; split; assumption).
      assert (Hxb : exists y, In y b /\ rp_nd y = nn) by (rewrite <- Hb in Hnn; apply in_map_iff in Hnn; destruct Hnn as (x & E & Hx); exists x; split; assumption).
      destruct Hxa as (x & Hx & Ex). destruct Hxb as (y & Hy & Ey).
      assert (Hval : rp_val x = rp_val y).
      { specialize (Hsa x Hx). specialize (Hsb y Hy). rewrite Ex in Hsa. rewrite Ey in Hsb. congruence. }
      rewrite <- Hkey. rewrite <- Ex at 1. rewrite <- Ey. rewrite (Ha1 x Hx), (Hb1 y Hy).
      rewrite Hval, (rp_count_gt_vals a b _ Hv). reflexivity.
    + unfold rp_is_in_top, rp_min_score. rewrite Hla, Hlb.
      destruct (Z.leb_spec k (Z.of_nat (length pool))); [lia|reflexivity].
Qed.

(* Chain.IsBlockSharder does not depend on the SetIndex values the node objects carry *)
Lemma rp_set_index_irrelevant idxs l hash k key :
  let pool := rp_build l in
  rp_is_block_sharder_ix idxs k pool hash key = rp_is_block_sharder k pool hash key.
Proof.
  intros pool. unfold rp_is_block_sharder_ix, rp_is_block_sharder. destruct (Z.leb k 0); [reflexivity|].
  destruct hash as [h|]; [|reflexivity]. cbn [rp_score_hash_string_ix rp_score_hash_string]. unfold rp_score_hash.
  assert (Hv := rp_scores_ix_vals pool h idxs 0).
  destruct (rp_scores_ix idxs pool h) as [a|] eqn:Ea; destruct (rp_scores_from 0 pool h) as [b|] eqn:Eb;
    cbn [option_map] in *; try discriminate; [|reflexivity].
  inversion Hv as [Hvals].
  destruct (rp_scores_ix_nodes _ _ _ _ Ea) as [Hna Hsa]. destruct (rp_scores_from_nodes _ _ _ _ Eb) as [Hnb Hsb].
  apply (rp_is_in_top_any_index pool h); try assumption. apply rp_build_kstrict.
Qed.

(* ... nor does CanShardBlockWithReplicators: same boolean, same replicators up to order *)
Lemma rp_set_index_irrelevant_with idxs l hash k key :
  let pool := rp_build l in
  match rp_can_shard_with_replicators_ix idxs k pool hash key, rp_can_shard_with_replicators k pool hash key with
  | Some (b1, t1), Some (b2, t2) => b1 = b2 /\ Permutation t1 t2
  | None, None => True
  | _, _ => False
  end.
Proof.
  intros pool. assert (Hks : rp_kstrict pool) by apply rp_build_kstrict.
  unfold rp_can_shard_with_replicators_ix, rp_can_shard_with_replicators. destruct (Z.leb_spec k 0) as [Hk0|Hk0]; [split; [reflexivity|apply Permutation_refl]|].
  destruct hash as [h|].
  2:{ cbn. unfold rp_is_in_top_with_nodes, rp_min_score. cbn [length].
      destruct (Z.leb_spec k (Z.of_nat 0)); [lia|]. split; [reflexivity|apply Permutation_refl]. }
  cbn [rp_score_hash_string_ix rp_score_hash_string]. unfold rp_score_hash.
  assert (Hv := rp_scores_ix_vals pool h idxs 0).
  destruct (rp_scores_ix idxs pool h) as [a|] eqn:Ea; destruct (rp_scores_from 0 pool h) as [b|] eqn:Eb;
    cbn [option_map] in *; try discriminate; [|exact I].
  inversion Hv as [Hvals].
  destruct (rp_scores_ix_nodes _ _ _ _ Ea) as [Hna Hsa]. destruct (rp_scores_from_nodes _ _ _ _ Eb) as [Hnb Hsb].
  assert (Hsame : forall key', rp_is_in_top (rp_sort_sc a) k key' = rp_is_in_top (rp_sort_sc b) k key')
    by (intros key'; apply (rp_is_in_top_any_index pool h); assumption).
  destruct (Z_le_gt_dec k (Z.of_nat (length pool))) as [Hkn|Hkn].
  - assert (Hk : 1 <= k <= Z.of_nat (length pool)) by lia.
    destruct (rp_with_nodes_spec_gen pool a k key Hna Hk) as (t1 & A1 & A2 & _ & A4 & A5).
    destruct (rp_with_nodes_spec_gen pool b k key Hnb Hk) as (t2 & B1 & B2 & _ & B4 & B5).
    rewrite A1, B1. split.
    + assert (E := Hsame key). rewrite A2, B2 in E. congruence.
    + assert (Hmem : forall t1 t2, (forall key', rp_is_in_top (rp_sort_sc a) k key' = Some (rp_has_key t1 key')) ->
                      (forall key', rp_is_in_top (rp_sort_sc b) k key' = Some (rp_has_key t2 key')) ->
                      (forall n, In n t1 -> In n pool) -> (forall n, In n t2 -> In n pool) ->
                      forall n, In n t1 -> In n t2).
      { intros u1 u2 U1 U2 P1 P2 n Hn.
        assert (Hh : rp_has_key u1 (rp_key n) = true) by (apply rp_has_key_iff, in_map; assumption).
        assert (E := Hsame (rp_key n)). rewrite U1, U2, Hh in E. inversion E as [E'].
        symmetry in E'. apply rp_has_key_iff in E'. apply in_map_iff in E'. destruct E' as (m & Em & Hm).
        assert (m = n).
        { eapply (rp_nodup_map_inj rp_key pool); [apply rp_kstrict_nodup; assumption|apply P2; assumption|apply P1; assumption|assumption]. }
        subst m. assumption. }
      (* the per-key characterisation of both lists *)
      assert (T1 : forall key', rp_is_in_top (rp_sort_sc a) k key' = Some (rp_has_key t1 key')).
      { intros key'. destruct (rp_with_nodes_spec_gen pool a k key' Hna Hk) as (t1' & A1' & A2' & _).
        unfold rp_is_in_top_with_nodes in A1, A1'. destruct (rp_min_score (rp_sort_sc a) k) as [[m|]|]; try discriminate.
        - inversion A1; inversion A1'; subst. assumption.
        - inversion A1; inversion A1'; subst. assumption. }
      assert (T2 : forall key', rp_is_in_top (rp_sort_sc b) k key' = Some (rp_has_key t2 key')).
      { intros key'. destruct (rp_with_nodes_spec_gen pool b k key' Hnb Hk) as (t2' & B1' & B2' & _).
        unfold rp_is_in_top_with_nodes in B1, B1'. destruct (rp_min_score (rp_sort_sc b) k) as [[m|]|]; try discriminate.
        - inversion B1; inversion B1'; subst. assumption.
        - inversion B1; inversion B1'; subst. assumption. }
      apply NoDup_Permutation.
      * eapply NoDup_map_inv. apply A5. assumption.
      * eapply NoDup_map_inv. apply B5. assumption.
      * intros n. split.
        -- apply (Hmem t1 t2); assumption.
        -- assert (Hsame' : forall key', rp_is_in_top (rp_sort_sc b) k key' = rp_is_in_top (rp_sort_sc a) k key') by (intros; symmetry; apply Hsame).
           clear Hmem. intros Hn.
           assert (Hh : rp_has_key t2 (rp_key n) = true) by (apply rp_has_key_iff, in_map; assumption).
           assert (E := Hsame (rp_key n)). rewrite T1, T2, Hh in E. inversion E as [E'].
           apply rp_has_key_iff in E'. apply in_map_iff in E'. destruct E' as (m & Em & Hm).
           assert (m = n).
           { eapply (rp_nodup_map_inj rp_key pool); [apply rp_kstrict_nodup; assumption|apply A4; assumption|apply B4; assumption|assumption]. }
           subst m. assumption.
  - unfold rp_is_in_top_with_nodes, rp_min_score.
    rewrite <- (Permutation_length (rp_sort_sc_perm a)), <- (Permutation_length (rp_sort_sc_perm b)).
    assert (length a = length pool) by (rewrite <- Hna, map_length; reflexivity).
    assert (length b = length pool) by (rewrite <- Hnb, map_length; reflexivity).
    destruct (Z.leb_spec k (Z.of_nat (length a))); [lia|]. destruct (Z.leb_spec k (Z.of_nat (length b))); [lia|].
    split; [reflexivity|apply Permutation_refl].
Qed.

(* a pool built by ANY AddNode history lists each key of the history exactly once *)
Lemma rp_add_keys pool n k : In k (map rp_key (rp_add pool n)) <-> k = rp_key n \/ In k (map rp_key pool).
Proof.
  unfold rp_add. destruct (rp_has_key pool (rp_key n)) eqn:Hk.
  - rewrite <- (Permutation_in' eq_refl (Permutation_map rp_key (rp_sort_key_perm (rp_replace n pool)))).
    rewrite rp_replace_keys. apply rp_has_key_iff in Hk. split; [intros H; right; assumption|].
    intros [->|H]; assumption.
  - rewrite <- (Permutation_in' eq_refl (Permutation_map rp_key (rp_sort_key_perm (pool ++ [n])))).
    rewrite map_app, in_app_iff. cbn [map In]. split; intros H; intuition congruence.
Qed.

Lemma rp_fold_keys l : forall pool k, In k (map rp_key (fold_left rp_add l pool)) <-> In k (map rp_key l) \/ In k (map rp_key pool).
Proof.
  induction l as [|n t IH]; intros pool k; cbn [fold_left map In]; [tauto|].
  rewrite IH, rp_add_keys. split; intros H; intuition congruence.
Qed.

Lemma rp_build_listing l :
  NoDup (map rp_key (rp_build l)) /\ forall k, In k (map rp_key (rp_build l)) <-> In k (map rp_key l).
Proof.
  split; [apply rp_kstrict_nodup, rp_build_kstrict|]. intros k. unfold rp_build. rewrite rp_fold_keys. cbn. tauto.
Qed.
