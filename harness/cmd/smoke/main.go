package main

import (
	"fmt"

	_ "0chain.net/chaincore/chain"
	"0chain.net/core/util/orderbuffer"
	_ "0chain.net/smartcontract/storagesc"
)

func main() {
	b := orderbuffer.New(3)
	b.Add(1, "x")
	fmt.Println("ok")
}
