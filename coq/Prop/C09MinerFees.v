(* C09 (liabilities never grow without backing), miner contract part: the step inequality for
   payFees.  L = unpaid stake-pool rewards of the rewarded miner and sharders (payFees changes no
   stake), the contract wallet is not moved (no transfer is queued), the newly accrued amount is
   the block's fees + block reward.  Only the statement; proved in Proof/MinerFees.v (C22). *)
From ZC Require Import Model.StakePool Model.MinerFees Proof.StakePool Proof.MinerFees.
Open Scope Z_scope.

Theorem C09_minersc_payfees_liability_backed :
  forall chargef sharef splitf,
  (forall a b c r, sharef a b c = Some r -> 0 <= r) ->
  (forall r x c, chargef r x = Some c -> 0 <= c) ->
  (forall r y c, splitf r y = Some c -> 0 <= c) ->
  forall gn bk client in_round miner live sharders md sd fees br miner' sharders',
  Forall (fun f => 0 <= f) (bk_fees bk) ->
  mf_sum_fees (bk_fees bk) 0 = Some fees ->
  f64_mult_coin (gn_block_reward gn) (gn_reward_rate gn) = Some br ->
  (forall m, miner = Some m -> mf_node_ok (2 * (fees + br)) (gn_nmd gn) m md) ->
  length sd = length sharders ->
  Forall2 (mf_node_ok (2 * (fees + br)) (gn_nsd gn)) sharders sd ->
  mf_pay_fees chargef sharef splitf gn bk client in_round miner live sharders md sd = SpOk (miner', sharders') ->
  let L := mf_opt_total miner + mf_total sharders in
  let L' := mf_opt_total miner' + mf_total sharders' in
  let wallet_change := 0 in
  L' - L <= wallet_change + (fees + br).
Proof. exact mf_pay_fees_liability_backed. Qed.
Print Assumptions C09_minersc_payfees_liability_backed.
