(* Model of provider kill / shutdown (property C23):
     smartcontract/provider/{kill,shutdown}.go, storagesc/{kill,shutdown}.go (blobber, validator),
     minersc/kill.go (miner, sharder), on top of Model/StakePool.v.  Definitions only, prefix pv_.
   The chain state is projected on provider records (key "provider:<id>") and stake pools
   (key "<type>:stakepool:<id>"); both are total functions from keys to optional values, so
   "no other record is created or altered" is a statement about every other key.
   A failed transaction (None) leaves the state unchanged (the chain discards its writes). *)
From ZC Require Export Model.StakePool.
Open Scope Z_scope.

Definition pv_miner : Z := 1.
Definition pv_sharder : Z := 2.
Definition pv_blobber : Z := 3.
Definition pv_validator : Z := 4.

Record pv_prov := { pv_type : Z; pv_killed : bool; pv_shut : bool; pv_saved : Z (* blobber SavedData *) }.

Record pv_state := {
  pv_provs : Z -> option pv_prov;          (* provider id -> record *)
  pv_pools : Z -> Z -> option sp_pool      (* provider type, id -> stake pool *)
}.

Definition pv_set_prov (st : pv_state) (id : Z) (v : option pv_prov) : pv_state :=
  {| pv_provs := fun i => if i =? id then v else pv_provs st i; pv_pools := pv_pools st |}.
Definition pv_set_pool (st : pv_state) (t id : Z) (v : option sp_pool) : pv_state :=
  {| pv_provs := pv_provs st;
     pv_pools := fun t' i => if (t' =? t) && (i =? id) then v else pv_pools st t' i |}.

Definition pv_mark_killed (p : pv_prov) : pv_prov :=
  {| pv_type := pv_type p; pv_killed := true; pv_shut := pv_shut p; pv_saved := pv_saved p |}.
Definition pv_mark_shut (p : pv_prov) : pv_prov :=
  {| pv_type := pv_type p; pv_killed := pv_killed p; pv_shut := true; pv_saved := pv_saved p |}.

(* blobber: SavedData <= 0 && no delegate pools; validator: no delegate pools -> records deleted *)
Definition pv_deletable (t : Z) (p : pv_prov) (sp : sp_pool) : bool :=
  match sp_pools sp with
  | [] => if t =? pv_blobber then pv_saved p <=? 0 else true
  | _ :: _ => false
  end.

(* storagesc killBlobber / killValidator through provider.Kill *)
Definition pv_kill (owner : Z) (slash : f64) (t id caller : Z) (st : pv_state) : option pv_state :=
  match pv_provs st id with
  | None => None
  | Some p =>
      if negb (pv_type p =? t) then None
      else match pv_pools st t id with
      | None => None
      | Some sp =>
          if negb (caller =? owner) then None
          else if pv_killed p || pv_shut p then
            (* blobber: refresh + AlreadyKilledError swallowed; validator: the error is returned *)
            (if t =? pv_blobber then Some st else None)
          else match sp_kill sp slash with
          | None => None
          | Some sp' =>
              let st1 := pv_set_pool st t id (Some sp') in     (* sp.Save(p.Type(), req.ID) *)
              if pv_deletable t p sp'
              then Some (pv_set_pool (pv_set_prov st1 id None) t id None)
              else Some (pv_set_prov st1 id (Some (pv_mark_killed p)))
          end
      end
  end.

(* storagesc shutdownBlobber / shutdownValidator through provider.ShutDown: the caller is
   authorised (owner or delegate wallet) before anything is changed, the killed pool is saved
   under the provider's own id *)
Definition pv_shutdown (owner : Z) (slash : f64) (t id caller : Z) (st : pv_state) : option pv_state :=
  match pv_provs st id with
  | None => None
  | Some p =>
      if negb (pv_type p =? t) then None
      else match pv_pools st t id with
      | None => None
      | Some sp =>
          if pv_killed p || pv_shut p then (if t =? pv_blobber then Some st else None)
          else if negb ((caller =? owner) || (caller =? ss_wallet (sp_set sp))) then None
          else match sp_kill sp (f64_div slash (f64_of_Z 2)) with
          | None => None
          | Some sp' =>
              let st1 := pv_set_pool st t id (Some sp') in     (* sp.Save(p.Type(), req.ID) *)
              if pv_deletable t p sp'
              then Some (pv_set_pool (pv_set_prov st1 id None) t id None)
              else Some (pv_set_prov st1 id (Some (pv_mark_shut p)))
          end
      end
  end.

(* minersc killMiner / killSharder: no slashing, node record and embedded pool are flagged *)
Definition pv_kill_node (owner : Z) (t id caller : Z) (st : pv_state) : option pv_state :=
  if negb (caller =? owner) then None
  else match pv_provs st id, pv_pools st t id with
  | Some p, Some sp =>
      if negb (pv_type p =? t) then None
      else if pv_killed p && sp_killed sp then None
      else Some (pv_set_prov (pv_set_pool st t id (Some (sp_set_killed sp))) id (Some (pv_mark_killed p)))
  | _, _ => None
  end.

Inductive pv_op :=
| PKill (t id caller : Z)        (* t = blobber / validator *)
| PShutdown (t id caller : Z)
| PKillNode (t id caller : Z)    (* t = miner / sharder *)
| PReward (t id value : Z).      (* DistributeRewards on that provider's stake pool *)

Definition pv_step (owner : Z) (slash : f64) (st : pv_state) (op : pv_op) : pv_state * bool :=
  match op with
  | PKill t id c => match pv_kill owner slash t id c st with Some s => (s, true) | None => (st, false) end
  | PShutdown t id c => match pv_shutdown owner slash t id c st with Some s => (s, true) | None => (st, false) end
  | PKillNode t id c => match pv_kill_node owner t id c st with Some s => (s, true) | None => (st, false) end
  | PReward t id v =>
      match pv_pools st t id with
      | None => (st, false)
      | Some sp => match sp_distribute sp_chargef_go sp_sharef_go sp v with
                   | SpOk sp' => (pv_set_pool st t id (Some sp'), true)
                   | _ => (st, false)
                   end
      end
  end.

Fixpoint pv_run (owner : Z) (slash : f64) (st : pv_state) (ops : list pv_op) : pv_state * list bool :=
  match ops with
  | [] => (st, [])
  | op :: tl => let '(s1, o) := pv_step owner slash st op in
                let '(s2, os) := pv_run owner slash s1 tl in (s2, o :: os)
  end.
