// Read-back oracle for the chain globals: a value update_globals accepted must be the value every node reads back
// through chain.ConfigImpl.Update. The getters of minersc.GlobalSettings fall back to the node's local yaml (viper)
// when the stored string does not parse with THEIR type; two nodes whose yaml differs in that key then disagree.
package main

import (
	"encoding/json"
	"fmt"
	"strings"

	"0chain.net/chaincore/chain"
	"0chain.net/core/viper"
)

// the chain configuration a node derives from the stored fields when its local yaml says `local` for key
func readBack(fields map[string]string, key string, local interface{}) (res string) {
	old := viper.Get(key)
	viper.Set(key, local)
	defer viper.Set(key, old)
	defer func() {
		if p := recover(); p != nil {
			res = fmt.Sprint("panic: ", p)
		}
	}()
	c := chain.NewConfigImpl(&chain.ConfigData{})
	if err := c.Update(fields, 1); err != nil {
		return "error: " + err.Error()
	}
	b, _ := json.Marshal(c.ConfDataForTest())
	return string(b)
}

// two local yaml values of the given kind that no stored value of the generator equals
func localPair(kind string) (interface{}, interface{}) {
	switch kind {
	case "int", "int32", "int64", "coinI":
		return 77701, 77702
	case "duration":
		return "77701ms", "77702ms"
	case "float":
		return 0.77701, 0.77702
	case "bool":
		return true, false
	case "strings":
		return []string{"local-a"}, []string{"local-b"}
	}
	return "local-a", "local-b"
}

// readBackDiffers: "" when both nodes derive the same configuration
func readBackDiffers(stored map[string]string, key, kind string) string {
	fields := map[string]string{}
	for k, v := range stored {
		if k != "#version" {
			fields[k] = v
		}
	}
	a, b := localPair(kind)
	ra, rb := readBack(fields, key, a), readBack(fields, key, b)
	if strings.HasPrefix(ra, "panic: ") {
		return ra
	}
	if ra == rb {
		return ""
	}
	// first differing json member
	var ma, mb map[string]interface{}
	_ = json.Unmarshal([]byte(ra), &ma)
	_ = json.Unmarshal([]byte(rb), &mb)
	for f, va := range ma {
		ja, _ := json.Marshal(va)
		jb, _ := json.Marshal(mb[f])
		if string(ja) != string(jb) {
			return fmt.Sprintf("ConfigData.%s is %s on a node whose yaml says %v and %s on a node whose yaml says %v", f, ja, a, jb, b)
		}
	}
	return "the derived configurations differ"
}
