package main

import (
	"fmt"
	"math/big"
	"sort"
	"strings"
)

// The executable oracles: each is the property statement evaluated on the enumerated real
// state before/after one transaction. They return "" or a stable failure kind.

func sortedLabels(m map[int]*AllocProj) []int {
	out := make([]int, 0, len(m))
	for l := range m {
		out = append(out, l)
	}
	sort.Ints(out)
	return out
}

// C12: for every open allocation the challenge pool balance equals the sum of the per-blobber
// outstanding values; a closed allocation has no pool left.
func checkC12(r *Run, pre, post *Snap, st StepObs, broken map[int]bool) (string, string) {
	for _, l := range sortedLabels(post.Allocs) {
		a := post.Allocs[l]
		if a == nil || broken[l] {
			continue
		}
		if a.Owner == -2 {
			broken[l] = true
			return "pool-survives-close-after-" + st.Kind, fmt.Sprintf("allocation %d removed but its challenge pool node remains with %d", l, a.CP)
		}
		if a.Enterprise {
			continue
		}
		if !a.HasCP {
			broken[l] = true
			return "pool-missing-after-" + st.Kind, fmt.Sprintf("open allocation %d has no challenge pool", l)
		}
		sum := new(big.Int)
		for _, d := range a.BAs {
			sum.Add(sum, new(big.Int).SetUint64(d.CPIV))
		}
		if sum.Cmp(new(big.Int).SetUint64(a.CP)) != 0 {
			broken[l] = true
			return "cp-ne-sum-after-" + st.Kind, fmt.Sprintf("allocation %d: challenge pool %d != sum of blobber values %s", l, a.CP, sum)
		}
	}
	return "", ""
}

// check evaluates the oracle of one property on one transaction. [broken] remembers the
// allocations already reported, so that one defect is reported once, at the transaction that
// caused it, and the remaining allocations of the history keep being checked.
// C13: per blobber, Allocated = sum of its blobber-allocation sizes over open allocations and
// stake-pool TotalOffers = sum of their offers; an assignment never takes Allocated above Capacity;
// closing can always release the offer. [broken] is keyed by -(blobber+1) here.
func checkC13(r *Run, pre, post *Snap, st StepObs, broken map[int]bool) (string, string) {
	nb := len(post.Blob)
	sizes := make([]*big.Int, nb)
	offers := make([]*big.Int, nb)
	for i := range sizes {
		sizes[i], offers[i] = new(big.Int), new(big.Int)
	}
	for _, l := range sortedLabels(post.Allocs) {
		a := post.Allocs[l]
		if a == nil || a.Owner == -2 {
			continue
		}
		for _, d := range a.BAs {
			if d.Blobber >= 0 && d.Blobber < nb {
				sizes[d.Blobber].Add(sizes[d.Blobber], big.NewInt(d.Size))
				offers[d.Blobber].Add(offers[d.Blobber], new(big.Int).SetUint64(d.Offer))
			}
		}
	}
	for i, b := range post.Blob {
		if !b.Present || !b.SPPresent {
			continue
		}
		// known gap: replacing a killed / shut-down blobber leaves exactly that blobber's size and offer behind
		sfx := ""
		if st.Kind == "update-replace-killed" {
			var remSize int64
			var remOffer uint64
			if pa := pre.Allocs[st.Op.A]; pa != nil {
				for _, d := range pa.BAs {
					if d.Blobber == st.Op.Rm-1 {
						remSize, remOffer = d.Size, d.Offer
					}
				}
			}
			ds := new(big.Int).Sub(big.NewInt(b.Allocd), sizes[i])
			do := new(big.Int).Sub(new(big.Int).SetUint64(b.Offers), offers[i])
			okS := ds.Sign() == 0 || (i == st.Op.Rm-1 && ds.Cmp(big.NewInt(remSize)) == 0)
			okO := do.Sign() == 0 || (i == st.Op.Rm-1 && do.Cmp(new(big.Int).SetUint64(remOffer)) == 0)
			if !okS || !okO {
				sfx = "-unexpected"
			}
		}
		if !broken[-(i+1)] && sizes[i].Cmp(big.NewInt(b.Allocd)) != 0 {
			broken[-(i+1)] = true
			return "allocated-ne-sum-after-" + st.Kind + sfx, fmt.Sprintf("blobber %d: allocated %d != sum of sizes over open allocations %s", i, b.Allocd, sizes[i])
		}
		if !broken[-(100+i)] && offers[i].Cmp(new(big.Int).SetUint64(b.Offers)) != 0 {
			broken[-(100+i)] = true
			return "offers-ne-sum-after-" + st.Kind + sfx, fmt.Sprintf("blobber %d: total offers %d != sum of offers over open allocations %s", i, b.Offers, offers[i])
		}
		if st.OK && i < len(pre.Blob) && b.Allocd > pre.Blob[i].Allocd && b.Allocd > b.Cap && !broken[-(200+i)] {
			broken[-(200+i)] = true
			return "allocated-above-capacity-after-" + st.Kind, fmt.Sprintf("blobber %d: allocated %d > capacity %d after an assignment", i, b.Allocd, b.Cap)
		}
	}
	// the stake pool stored under blobber i is blobber i's pool: same delegate wallet, service charge and delegate
	// pools as before; no modelled transaction adds stake, so no delegate balance grows, and only transactions
	// that slash (challenge response, close, replace, kill, shut down) may lower one
	slashing := map[string]bool{"chalresp": true, "finalize": true, "cancel": true, "update": true, "kill": true, "shutdown": true}
	for i, b := range post.Blob {
		if i >= len(pre.Blob) || !b.SPPresent || !pre.Blob[i].SPPresent || broken[-(300+i)] {
			continue
		}
		q := pre.Blob[i]
		bad := ""
		switch {
		case b.SPIdent != q.SPIdent && !(st.Op.K == "updblobber" && st.Op.B == i):
			bad = "delegate wallet / service charge / delegate pools differ from the ones stored before"
		case len(b.Pools) != len(q.Pools):
			bad = "number of delegate pools changed"
		default:
			for j := range b.Pools {
				if b.Pools[j] > q.Pools[j] || (b.Pools[j] != q.Pools[j] && !slashing[st.Op.K]) {
					bad = fmt.Sprintf("delegate pool %d holds %d, held %d before", j, b.Pools[j], q.Pools[j])
				}
			}
		}
		if bad != "" {
			broken[-(300+i)] = true
			return "stake-pool-stored-under-wrong-blobber-after-" + st.Kind, fmt.Sprintf("blobber %d: %s", i, bad)
		}
	}
	offersBroken := false
	for i := range post.Blob {
		if broken[-(100+i)] {
			offersBroken = true
		}
	}
	if !st.OK && !offersBroken && (st.Op.K == "finalize" || st.Op.K == "cancel") && strings.Contains(st.Err, "removing offer") && !broken[-1000] {
		broken[-1000] = true
		return "close-cannot-release-offer-" + st.Kind, "closing the allocation failed: " + st.Err
	}
	return "", ""
}

func blobRewards(s *Snap, a *AllocProj) *big.Int {
	sum := new(big.Int)
	for _, d := range a.BAs {
		if d.Blobber >= 0 && d.Blobber < len(s.Blob) {
			sum.Add(sum, new(big.Int).SetUint64(s.Blob[d.Blobber].Rewards))
		}
	}
	return sum
}

// C14: an allocation is closed once, by an authorised party at the right time; the blobbers get
// at most the challenge pool plus the cancellation charge; the rest of write pool + challenge
// pool goes to the owner; the allocation and its pool disappear and nothing touches it later.
func checkC14(r *Run, pre, post *Snap, st StepObs, broken map[int]bool) (string, string) {
	l := st.Op.A
	_, bound := r.Allocs[l]
	pa := pre.Allocs[l]
	closedBefore := bound && pa == nil
	touches := map[string]bool{"wplock": true, "commit": true, "update": true, "read": true, "finalize": true, "cancel": true}
	if st.OK && closedBefore && touches[st.Op.K] && !(st.Op.K == "wplock" && st.Op.X&xEmptyAlloc != 0) && !broken[1000+l] {
		if !(st.Op.K == "commit" && (st.Op.X&xMalformed != 0)) {
			broken[1000+l] = true
			return "accepted-on-closed-allocation-" + st.Op.K, fmt.Sprintf("%s accepted for allocation %d which was closed before", st.Op.K, l)
		}
	}
	if !(st.Op.K == "finalize" || st.Op.K == "cancel") || !st.OK || pa == nil || broken[l] {
		return "", ""
	}
	fail := func(k, d string) (string, string) { broken[l] = true; return k + "-" + st.Op.K, d }
	// authorised, at the right time
	isBlobber := false
	for _, d := range pa.BAs {
		if d.Blobber == st.Op.S {
			isBlobber = true
		}
	}
	if st.Op.K == "finalize" {
		if !(st.Op.S == pa.Owner || isBlobber) {
			return fail("unauthorised", fmt.Sprintf("finalize by %d accepted (owner %d)", st.Op.S, pa.Owner))
		}
		if st.Now < pa.Exp {
			return fail("wrong-time", fmt.Sprintf("finalize at %d before expiry %d", st.Now, pa.Exp))
		}
	} else {
		if st.Op.S != pa.Owner {
			return fail("unauthorised", fmt.Sprintf("cancel by %d accepted (owner %d)", st.Op.S, pa.Owner))
		}
		if st.Now > pa.Exp {
			return fail("wrong-time", fmt.Sprintf("cancel at %d after expiry %d", st.Now, pa.Exp))
		}
	}
	// removed
	if post.Allocs[l] != nil {
		return fail("not-removed", fmt.Sprintf("allocation %d or its challenge pool still present after close", l))
	}
	// payments
	paid := new(big.Int).Sub(blobRewards(post, pa), blobRewards(pre, pa))
	var refund uint64
	nref := 0
	for _, t := range st.Transfers {
		if t.From == refKey(refSC).ID && t.Amount > 0 {
			nref++
			refund += t.Amount
			if t.To != refKey(pa.Owner).ID {
				return fail("refund-not-to-owner", "close transfers tokens to somebody else than the owner")
			}
		}
	}
	if nref > 1 {
		return fail("refunded-twice", fmt.Sprintf("%d refund transfers", nref))
	}
	total := new(big.Int).Add(new(big.Int).SetUint64(pa.CP), new(big.Int).SetUint64(pa.WP))
	out := new(big.Int).Add(paid, new(big.Int).SetUint64(refund))
	if out.Cmp(total) > 0 {
		return fail("pays-more-than-pools", fmt.Sprintf("blobbers %s + refund %d > challenge pool %d + write pool %d", paid, refund, pa.CP, pa.WP))
	}
	anyDead := false
	for _, d := range pa.BAs {
		if d.Blobber < len(pre.Blob) && (pre.Blob[d.Blobber].SPKilled || len(pre.Blob[d.Blobber].Pools) == 0) {
			anyDead = true
		}
	}
	if !anyDead && out.Cmp(total) != 0 {
		return fail("refund-not-exact", fmt.Sprintf("blobbers %s + refund %d != challenge pool %d + write pool %d", paid, refund, pa.CP, pa.WP))
	}
	// blobbers paid <= earned (what the challenge pool held) + cancellation charge (+1 per blobber for rounding)
	cost := new(big.Rat)
	for _, d := range pa.BAs {
		c := new(big.Rat).SetFrac(new(big.Int).Mul(new(big.Int).SetUint64(d.WP), big.NewInt(d.Size)), big.NewInt(GB))
		cost.Add(cost, c)
	}
	cc := new(big.Rat).Mul(cost, new(big.Rat).SetFloat64(r.H.Conf.CancellationCharge))
	lim := new(big.Rat).Add(cc, new(big.Rat).SetInt(new(big.Int).SetUint64(pa.CP)))
	lim.Add(lim, big.NewRat(int64(len(pa.BAs))+1, 1))
	if new(big.Rat).SetInt(paid).Cmp(lim) > 0 {
		return fail("blobbers-overpaid", fmt.Sprintf("blobbers received %s > challenge pool %d + cancellation charge %s", paid, pa.CP, cc.FloatString(0)))
	}
	// pass payments: a blobber is paid at most its remaining value times the served share of the rest of the period
	// (time since its last settled challenge / time from that challenge to the expiration - a ratio of durations,
	// whatever the time unit is), plus its share of the cancellation charge
	served := new(big.Rat)
	for _, d := range pa.BAs {
		v := new(big.Rat).SetInt(new(big.Int).SetUint64(d.CPIV))
		if d.LF > d.LS && pa.Exp > d.LS {
			// the share of the failed period (last passed .. last settled challenge) goes back to the owner first
			fl := big.NewRat(d.LF-d.LS, pa.Exp-d.LS)
			if fl.Cmp(big.NewRat(1, 1)) > 0 {
				fl.SetInt64(1)
			}
			v.Mul(v, new(big.Rat).Sub(big.NewRat(1, 1), fl))
			v.Add(v, big.NewRat(1, 1))
		}
		if d.LF > 0 && st.Now > d.LF && pa.Exp > d.LF && st.Now < pa.Exp {
			v.Mul(v, big.NewRat(st.Now-d.LF, pa.Exp-d.LF))
		} else if d.LF == 0 || st.Now <= d.LF {
			v.SetInt64(0)
		}
		// pass rate: passed / all challenges; open ones counted as passed (upper bound)
		if d.Tot > 0 {
			okc := d.Succ
			if d.Open > 0 {
				okc += d.Open
			}
			if okc < d.Tot {
				v.Mul(v, big.NewRat(okc, d.Tot))
				v.Add(v, big.NewRat(1, 1))
			}
		}
		served.Add(served, v)
	}
	lim2 := new(big.Rat).Add(cc, served)
	lim2.Add(lim2, big.NewRat(int64(len(pa.BAs))+1, 1))
	if new(big.Rat).SetInt(paid).Cmp(lim2) > 0 {
		return fail("blobbers-paid-beyond-served-time", fmt.Sprintf("blobbers received %s > value of the served time %s + cancellation charge %s", paid, served.FloatString(0), cc.FloatString(0)))
	}
	if post.Bal[pa.Owner]-pre.Bal[pa.Owner] != refund {
		return fail("owner-not-credited", fmt.Sprintf("owner balance moved by %d, refund %d", post.Bal[pa.Owner]-pre.Bal[pa.Owner], refund))
	}
	return "", ""
}

// C15: a read marker debits the client's read pool by price x newly read size, credits the
// blobber, counters only grow, replays charge nothing, foreign signatures are rejected.
func checkC15(r *Run, pre, post *Snap, st StepObs, broken map[int]bool) (string, string) {
	for k, v := range pre.ReadCtr {
		if w, ok := post.ReadCtr[k]; (!ok || w < v) && !broken[-1] {
			broken[-1] = true
			return "counter-decreased-after-" + st.Op.K, fmt.Sprintf("read counter %v went from %d to %d", k, v, w)
		}
	}
	if st.Op.K != "read" {
		return "", ""
	}
	op := st.Op
	rkey := [3]int{op.B, op.C, op.A}
	if !st.OK {
		// a rejected marker must not change pools or counters (the transaction is rolled back as a whole)
		return "", ""
	}
	if broken[-2] {
		return "", ""
	}
	fail := func(k, d string) (string, string) { broken[-2] = true; return k, d }
	// the marker must be signed by the key of the client it names: judged from the real key/id relation
	cid, pk, signer := refKey(op.C).ID, refKey(op.C).PK, refKey(op.C)
	if op.X&xBadSig != 0 {
		signer = key("intruder")
	}
	if op.X&xBadID != 0 {
		cid = key("intruder").ID
	}
	if op.X&xForgeKey != 0 {
		signer, pk = key("intruder"), key("intruder").PK
	}
	if cid != keyOfPK(pk).ID {
		return fail("foreign-key-accepted", "redeemed a read marker whose client id does not belong to the public key it carries")
	}
	if signer.PK != pk || signer.ID != cid {
		return fail("foreign-signature-accepted", "redeemed a read marker not signed by the client it names")
	}
	last, had := pre.ReadCtr[rkey]
	if had && op.N < last {
		return fail("older-marker-accepted", fmt.Sprintf("counter %d accepted after %d", op.N, last))
	}
	if post.ReadCtr[rkey] != op.N {
		return fail("counter-not-recorded", fmt.Sprintf("counter after redeem %d, marker %d", post.ReadCtr[rkey], op.N))
	}
	pa := pre.Allocs[op.A]
	if pa == nil {
		return fail("read-on-missing-allocation", "read marker redeemed for an allocation that does not exist")
	}
	var price uint64
	found := false
	for _, d := range pa.BAs {
		if d.Blobber == op.B {
			price, found = d.RP, true
		}
	}
	if !found {
		return fail("read-for-foreign-blobber", "blobber not in allocation")
	}
	charged := new(big.Int).Sub(new(big.Int).SetUint64(pre.RP[op.C]), new(big.Int).SetUint64(post.RP[op.C]))
	n := op.N - last
	exact := new(big.Int).Mul(new(big.Int).SetUint64(price), big.NewInt(n))
	exact.Div(exact, big.NewInt(16384)) // CHUNK / GB = 1 / 16384
	diff := new(big.Int).Sub(charged, exact)
	tol := new(big.Int).Rsh(exact, 51)
	tol.Add(tol, big.NewInt(1))
	if diff.CmpAbs(tol) > 0 {
		if n >= 1<<47 {
			// numReads * CHUNK_SIZE no longer fits int64
			return fail("charge-wraps-for-counter-delta-above-2^47", fmt.Sprintf("charged %s for %d blocks at price %d (exact %s)", charged, n, price, exact))
		}
		return fail("charge-not-price-times-size", fmt.Sprintf("charged %s, price %d x %d blocks = %s", charged, price, n, exact))
	}
	if n == 0 && charged.Sign() != 0 {
		return fail("replay-charged", fmt.Sprintf("replayed counter charged %s", charged))
	}
	for ref, v := range pre.RP {
		if ref != op.C && post.RP[ref] != v {
			return fail("other-read-pool-changed", fmt.Sprintf("read pool of %d changed", ref))
		}
	}
	if op.B < len(pre.Blob) && !pre.Blob[op.B].SPKilled && len(pre.Blob[op.B].Pools) > 0 {
		cred := new(big.Int).Sub(new(big.Int).SetUint64(post.Blob[op.B].Rewards), new(big.Int).SetUint64(pre.Blob[op.B].Rewards))
		if cred.Cmp(charged) != 0 {
			return fail("blobber-credit-ne-charge", fmt.Sprintf("blobber credited %s, client charged %s", cred, charged))
		}
	}
	return "", ""
}

// C24: free-storage markers.
func checkC24(r *Run, pre, post *Snap, st StepObs, broken map[int]bool) (string, string) {
	if st.Op.K == "freealloc" && !st.OK && !broken[-1] && strings.Contains(st.Err, "verify signature") {
		if pa := pre.Ass[refAssigner+st.Op.B]; pa != nil && signerNum(st.Op) == pa.Key {
			broken[-1] = true
			return "registered-key-marker-rejected", "marker signed with the assigner's registered key refused: " + st.Err
		}
	}
	if st.Op.K != "freealloc" || !st.OK || broken[-1] {
		return "", ""
	}
	op := st.Op
	fail := func(k, d string) (string, string) { broken[-1] = true; return k, d }
	rec := op.C
	if rec == 0 {
		rec = op.S
	}
	if rec != op.S {
		return fail("redeemed-by-non-recipient", fmt.Sprintf("marker for %d redeemed by %d", rec, op.S))
	}
	ass := refAssigner + op.B
	pa := pre.Ass[ass]
	if pa == nil {
		return fail("unregistered-assigner", "marker of an unregistered assigner redeemed")
	}
	if signerNum(op) != pa.Key {
		return fail("forged-signature-accepted", fmt.Sprintf("marker signed with key %d redeemed, the assigner's registered key is %d", signerNum(op), pa.Key))
	}
	for _, n := range pa.Nonces {
		if n == op.N {
			return fail("nonce-redeemed-twice", fmt.Sprintf("nonce %d redeemed again", op.N))
		}
	}
	grant, ok := parseZCN(op.F)
	if !ok {
		return fail("unparsable-amount-accepted", "marker amount not a valid ZCN value")
	}
	if grant > pa.Indiv {
		return fail("grant-above-individual-limit", fmt.Sprintf("grant %d > individual limit %d", grant, pa.Indiv))
	}
	qa := post.Ass[ass]
	if qa == nil || qa.Redeemed != pa.Redeemed+grant {
		return fail("redeemed-not-advanced-by-grant", "current_redeemed did not grow by the grant")
	}
	if qa.Redeemed > qa.Total {
		return fail("redeemed-above-total-limit", fmt.Sprintf("redeemed %d > total limit %d", qa.Redeemed, qa.Total))
	}
	seen := false
	for _, n := range qa.Nonces {
		if n == op.N {
			seen = true
		}
	}
	if !seen {
		return fail("nonce-not-recorded", "redeemed nonce not recorded")
	}
	if a := post.Allocs[op.A]; a == nil || a.Owner != rec {
		return fail("allocation-not-for-recipient", "the created allocation is not owned by the recipient")
	}
	return "", ""
}

// liabilities of the storage contract: stake, write/read/challenge pools, unpaid rewards
func liabilities(s *Snap) *big.Int {
	l := new(big.Int)
	add := func(v uint64) { l.Add(l, new(big.Int).SetUint64(v)) }
	for _, a := range s.Allocs {
		if a == nil {
			continue
		}
		if a.Owner != -2 {
			add(a.WP)
		}
		if a.HasCP {
			add(a.CP)
		}
	}
	for _, b := range s.Blob {
		add(b.Rewards)
		for _, p := range b.Pools {
			add(p)
		}
	}
	for _, v := range s.Val {
		add(v.Rewards)
		add(v.Stake)
	}
	for _, v := range s.RP {
		add(v)
	}
	return l
}

// C09: per transaction, the growth of what the contract owes is covered by the growth of its wallet
// (none of the modelled operations accrues minted rewards).
func checkC09(r *Run, pre, post *Snap, st StepObs, broken map[int]bool) (string, string) {
	// read_pool_lock credits exactly the target's pool (every read pool of the state is enumerated)
	if st.Op.K == "rplock" && st.OK && !broken[-9] {
		target := st.Op.S
		if st.Op.C != 0 {
			target = st.Op.C
		}
		for ref, v := range post.RP {
			want := pre.RP[ref]
			if ref == target {
				want += st.Op.V
			}
			if v != want {
				broken[-9] = true
				return "read-pool-lock-credited-wrong-pool", fmt.Sprintf("read_pool_lock of %d by %d for %d: read pool of %d is %d, expected %d", st.Op.V, st.Op.S, target, ref, v, want)
			}
		}
	}
	dl := new(big.Int).Sub(liabilities(post), liabilities(pre))
	dw := new(big.Int).Sub(new(big.Int).SetUint64(post.Bal[refSC]), new(big.Int).SetUint64(pre.Bal[refSC]))
	if dl.Cmp(dw) > 0 {
		kind := "liabilities-grow-unbacked-after-" + st.Kind
		if st.Op.K == "freealloc" {
			// the known gap: exactly the read-pool share of the grant is credited without a transfer
			rec := st.Op.C
			if rec == 0 {
				rec = st.Op.S
			}
			grant := new(big.Int).Sub(new(big.Int).SetUint64(post.RP[rec]), new(big.Int).SetUint64(pre.RP[rec]))
			if new(big.Int).Sub(dl, dw).Cmp(grant) != 0 {
				kind += "-beyond-read-grant"
			}
		}
		return kind, fmt.Sprintf("liabilities grew by %s, wallet by %s", dl, dw)
	}
	return "", ""
}

func check(prop string, r *Run, pre, post *Snap, st StepObs, broken map[int]bool) (string, string) {
	switch prop {
	case "C12":
		return checkC12(r, pre, post, st, broken)
	case "C13":
		return checkC13(r, pre, post, st, broken)
	case "C14":
		return checkC14(r, pre, post, st, broken)
	case "C15":
		return checkC15(r, pre, post, st, broken)
	case "C24":
		return checkC24(r, pre, post, st, broken)
	case "C09":
		return checkC09(r, pre, post, st, broken)
	case "C04":
		return checkC04(r, pre, post, st, broken)
	}
	return "", ""
}

// validFreeMarker: the marker of a free_allocation_request is one its assigner really issued and that
// may still be redeemed - decided from the engine's knowledge and the state before the transaction,
// not from the contract's verdict.
func validFreeMarker(pre *Snap, op Op) (grant uint64, ok bool) {
	rec := op.C
	if rec == 0 {
		rec = op.S
	}
	pa := pre.Ass[refAssigner+op.B]
	if rec != op.S || pa == nil || signerNum(op) != pa.Key {
		return 0, false
	}
	for _, n := range pa.Nonces {
		if n == op.N {
			return 0, false
		}
	}
	grant, ok = parseZCN(op.F)
	if !ok || grant > pa.Indiv || pa.Redeemed+grant < grant || pa.Redeemed+grant > pa.Total {
		return 0, false
	}
	return grant, true
}

// C04 (what the real storage contract queues): in an applied transaction every transfer takes tokens
// from the transaction's sender (in total at most txn.Value), from the contract's own wallet, or - only
// for free_allocation_request under a valid assigner marker - from the configured owner wallet (in
// total at most the grant). Transfers are the ones the real contract queued through AddTransfer.
func checkC04(r *Run, pre, post *Snap, st StepObs, broken map[int]bool) (string, string) {
	if !st.OK || broken[-4] {
		return "", ""
	}
	fail := func(k, d string) (string, string) { broken[-4] = true; return k, d }
	scID := refKey(refSC).ID
	fromSender, fromOwner := new(big.Int), new(big.Int)
	grant, marker := uint64(0), false
	if st.Func == "free_allocation_request" && st.Op.K == "freealloc" {
		grant, marker = validFreeMarker(pre, st.Op)
	}
	for _, t := range st.Transfers {
		if t.Amount == 0 {
			continue
		}
		amt := new(big.Int).SetUint64(t.Amount)
		switch {
		case t.From == st.Sender:
			fromSender.Add(fromSender, amt)
		case t.From == scID:
		case marker && t.From == r.W.Owner:
			fromOwner.Add(fromOwner, amt)
		default:
			return fail("contract-debits-unauthorised-account:"+st.Func,
				fmt.Sprintf("%s sent by %d queued a transfer of %d out of account %d (neither the sender, nor the contract wallet, nor a valid free-storage grant)",
					st.Func, r.ref(st.Sender), t.Amount, r.ref(t.From)))
		}
	}
	if fromSender.Cmp(new(big.Int).SetUint64(st.Value)) > 0 {
		return fail("contract-debits-sender-above-value:"+st.Func,
			fmt.Sprintf("%s queued %s out of the sender, transaction value %d", st.Func, fromSender, st.Value))
	}
	if fromOwner.Cmp(new(big.Int).SetUint64(grant)) > 0 {
		return fail("free-grant-above-marker:"+st.Func, fmt.Sprintf("owner wallet debited by %s, marker grants %d", fromOwner, grant))
	}
	return "", ""
}
