// Engine for C41: the real LFB ticket handler and worker (chaincore/chain/protocol_lfb_ticket.go)
// fed with remote tickets (through LFBTicketHandler, real ed25519 signatures), local kicks and own
// broadcasts; after every event the ticket GetLatestLFBTicket reports is observed.
package main

import (
	"bytes"
	"context"
	"encoding/json"
	"fmt"
	"net/http"
	"strings"
	"time"

	"0chain.net/chaincore/block"
	"0chain.net/chaincore/chain"
	"0chain.net/chaincore/client"
	"0chain.net/chaincore/node"
	"0chain.net/core/datastore"
	"0chain.net/core/encryption"
	"0chain.net/core/memorystore"
	"0chain.net/core/viper"
	"github.com/0chain/common/core/logging"
	"go.uber.org/zap"
	"verifharness/vh"
)

// ---------------------------------------------------------------------------------- inputs

type tk struct {
	Round  int64  `json:"round"`
	Signer int    `json:"signer"` // index into the node table (1-based)
	Sig    string `json:"sig"`    // good|wrongkey|tampered|empty|garbage|replay|stolen
	// replay: the signature string of the latest genuine ticket of the same signer earlier in this history
	// stolen: the signature string of the latest genuine ticket of ANOTHER signer earlier in this history
	// (without such an earlier ticket both fall back to a signature made for another round)
	Hash int `json:"hash"`
}
type blk struct {
	Round int64 `json:"round"`
	Hash  int   `json:"hash"`
}
type ev struct {
	K       string `json:"k"` // remote|kick|broadcast|get
	Tickets []tk   `json:"tickets,omitempty"`
	Round   int64  `json:"round,omitempty"`
	Blocks  []blk  `json:"blocks,omitempty"`
}
type hist struct {
	SelfSharder bool  `json:"self_sharder"`
	InitRound   int64 `json:"init_round"`
	Prefill     bool  `json:"prefill"` // the first event is queued before the worker starts (drained as one batch)
	Events      []ev  `json:"events"`
}

// ---------------------------------------------------------------------------------- the node table

type peer struct {
	nd      *node.Node
	scheme  encryption.SignatureScheme
	kind    int  // 0 miner, 1 sharder
	inMB    bool // member of the current magic block
	known   bool // registered in the process-wide registry
	comment string
}

var (
	peers    []*peer // index 0 unused
	miners   *node.Pool
	sharders *node.Pool
)

func newPeer(kind int, inMB, known bool, comment string) *peer {
	s := encryption.NewED25519Scheme()
	if err := s.GenerateKeys(); err != nil {
		panic(err)
	}
	n := node.Provider()
	n.Type = node.NodeTypeMiner
	if kind == 1 {
		n.Type = node.NodeTypeSharder
	}
	if err := n.SetPublicKey(s.GetPublicKey()); err != nil {
		panic(err)
	}
	return &peer{nd: n, scheme: s, kind: kind, inMB: inMB, known: known, comment: comment}
}

func setup() {
	logging.Logger = zap.NewNop()
	logging.N2n = zap.NewNop()
	client.SetClientSignatureScheme("ed25519")
	block.SetupEntity(memorystore.GetStorageProvider())
	block.SetupBlockSummaryEntity(memorystore.GetStorageProvider())
	viper.Set("server_chain.lfb_ticket.rebroadcast_timeout", "1h")
	// nothing is sent over the network
	chain.LFBTicketSender = func(datastore.Entity) node.SendHandler {
		return func(context.Context, *node.Node) bool { return true }
	}
	peers = []*peer{nil,
		newPeer(1, true, true, "sharder of the current magic block"),
		newPeer(1, true, true, "sharder of the current magic block"),
		newPeer(1, true, true, "sharder of the current magic block"),
		newPeer(0, true, true, "miner of the current magic block"),
		newPeer(0, true, true, "miner of the current magic block"),
		newPeer(1, false, true, "sharder of an earlier magic block (still registered)"),
		newPeer(0, false, true, "miner of an earlier magic block (still registered)"),
		newPeer(1, false, false, "unknown node"),
		newPeer(0, false, false, "unknown node"),
	}
	miners = node.NewPool(node.NodeTypeMiner)
	sharders = node.NewPool(node.NodeTypeSharder)
	oldM := node.NewPool(node.NodeTypeMiner)
	oldS := node.NewPool(node.NodeTypeSharder)
	for _, p := range peers[1:] {
		if !p.known {
			continue
		}
		pool := map[[2]bool]*node.Pool{{true, true}: sharders, {false, true}: miners, {true, false}: oldS, {false, false}: oldM}[[2]bool{p.kind == 1, p.inMB}]
		if err := pool.AddNode(p.nd); err != nil { // AddNode registers the node process-wide
			panic(err)
		}
	}
	self := encryption.NewED25519Scheme()
	if err := self.GenerateKeys(); err != nil {
		panic(err)
	}
	if err := node.Self.SetSignatureScheme(self); err != nil {
		panic(err)
	}
	// index 10: the receiving node itself (not in any pool; remote tickets may claim its id)
	peers = append(peers, &peer{nd: node.Self.Underlying(), scheme: self, kind: 1, comment: "the receiving node itself"})
}

func peerIdx(id string) int {
	for i, p := range peers {
		if p != nil && p.nd.ID == id {
			return i
		}
	}
	return 0
}

func hashStr(h int) string { return fmt.Sprintf("h%d", h) }
func hashInt(s string) int {
	var h int
	if _, err := fmt.Sscanf(s, "h%d", &h); err != nil {
		return 0
	}
	return h
}

// makeTicket builds the wire ticket with a real signature according to the mode; `made` are the
// genuine tickets posted earlier in the history (for replayed / stolen signature strings).
func makeTicket(t tk, made []*chain.LFBTicket) *chain.LFBTicket {
	p := peers[t.Signer]
	lt := &chain.LFBTicket{Round: t.Round, SharderID: p.nd.ID, LFBHash: hashStr(t.Hash)}
	other := func() {
		lt.Round = t.Round - 1
		lt.Sign, _ = p.scheme.Sign(lt.Hash())
		lt.Round = t.Round
	}
	switch t.Sig {
	case "good":
		lt.Sign, _ = p.scheme.Sign(lt.Hash())
	case "wrongkey":
		o := peers[t.Signer%3+1] // a current sharder's key, but not the claimed signer's
		if o == p {
			o = peers[(t.Signer+1)%3+1]
		}
		lt.Sign, _ = o.scheme.Sign(lt.Hash())
	case "tampered":
		other()
	case "replay", "stolen":
		other()
		for i := len(made) - 1; i >= 0; i-- {
			if (made[i].SharderID == lt.SharderID) == (t.Sig == "replay") {
				lt.Sign = made[i].Sign
				break
			}
		}
	case "empty":
		lt.Sign = ""
	default:
		lt.Sign = "zz-not-hex"
	}
	return lt
}

// sigOK: does the ticket's signature really verify, for the ticket's own (round, sender, hash),
// under the key of the node it names as sender?
func sigOK(lt *chain.LFBTicket) bool {
	i := peerIdx(lt.SharderID)
	if i == 0 || lt.Sign == "" {
		return false
	}
	ok, err := peers[i].scheme.Verify(lt.Sign, lt.Hash())
	return err == nil && ok
}

// ---------------------------------------------------------------------------------- one history

type obs struct {
	round  int64
	origin int // -1 own, -2 kick, else signer index (0 = a node the harness does not know)
	hash   int
}

func run(h hist) (observations []obs, verdicts [][]bool, sigs [][]bool, fail string, kinds map[string]int) {
	kinds = map[string]int{}
	c := chain.Provider().(*chain.Chain)
	mb := block.NewMagicBlock()
	mb.Miners, mb.Sharders = miners, sharders
	c.SetMagicBlock(mb)
	chain.SetServerChain(c)
	node.Self.Node.Type = node.NodeTypeMiner
	if h.SelfSharder {
		node.Self.Node.Type = node.NodeTypeSharder
	}
	ctx, cancel := context.WithCancel(context.Background())
	defer cancel()
	set := func(f string) {
		if fail == "" {
			fail = f
		}
	}
	on := block.NewBlock("", h.InitRound)
	on.Hash = hashStr(int(h.InitRound))
	started := false
	start := func() {
		if !started {
			started = true
			go c.StartLFBTicketWorker(ctx, on)
		}
	}
	posted := map[[3]int64]bool{} // (round, signer, hash) of a posted ticket -> its signature really verifies
	var made []*chain.LFBTicket   // genuine tickets posted so far
	prevRound := h.InitRound
	ownBlocks := map[[2]int64]bool{{h.InitRound, h.InitRound}: true} // (round, hash) of the node's own LFBs
	for i, e := range h.Events {
		if !(h.Prefill && i == 0 && (e.K == "remote" || e.K == "broadcast")) {
			start()
		}
		switch e.K {
		case "remote":
			var vs, ss []bool
			for _, t := range e.Tickets {
				lt := makeTicket(t, made)
				valid := sigOK(lt)
				ss = append(ss, valid)
				if t.Sig == "good" {
					made = append(made, lt)
				}
				body, _ := json.Marshal(lt)
				req, _ := http.NewRequest("POST", "/v1/block/get/latest_finalized_ticket", bytes.NewReader(body))
				hctx, hcancel := context.WithTimeout(ctx, 5*time.Second)
				_, err := chain.LFBTicketHandler(hctx, req)
				hcancel()
				vs = append(vs, err == nil)
				k3 := [3]int64{t.Round, int64(t.Signer), int64(t.Hash)}
				posted[k3] = posted[k3] || valid
				if err == nil {
					kinds["handler-accepted"]++
				} else {
					kinds["handler-rejected"]++
				}
				kinds["ticket-"+t.Sig]++
			}
			verdicts = append(verdicts, vs)
			sigs = append(sigs, ss)
		case "kick":
			kctx, kcancel := context.WithTimeout(ctx, 5*time.Second)
			c.AddReceivedLFBTicket(kctx, &chain.LFBTicket{Round: e.Round})
			kcancel()
			kinds["kick"]++
		case "broadcast":
			for _, b := range e.Blocks {
				bb := block.NewBlock("", b.Round)
				bb.Hash = hashStr(b.Hash)
				ownBlocks[[2]int64{b.Round, int64(b.Hash)}] = true
				bctx, bcancel := context.WithTimeout(ctx, 5*time.Second)
				c.BroadcastLFBTicket(bctx, bb)
				bcancel()
			}
			kinds["broadcast"]++
		case "get":
			kinds["get"]++
		}
		start()
		// wait until the worker has taken everything queued; the read below then meets it after processing
		for dl := time.Now().Add(10 * time.Second); ; {
			a, b := c.VerifLFBTicketQueues()
			if a == 0 && b == 0 {
				break
			}
			if time.Now().After(dl) {
				panic("LFB ticket worker does not drain its queues")
			}
			time.Sleep(20 * time.Microsecond)
		}
		gctx, gcancel := context.WithTimeout(ctx, 10*time.Second)
		got := c.GetLatestLFBTicket(gctx)
		gcancel()
		if got == nil {
			panic("GetLatestLFBTicket timed out")
		}
		o := obs{round: got.Round, hash: hashInt(got.LFBHash)}
		switch {
		case got.IsOwn:
			o.origin = -1
		case got.Sign == "":
			o.origin = -2
		default:
			o.origin = peerIdx(got.SharderID)
		}
		observations = append(observations, o)

		// ---- the property on what is reported ----
		if o.round < prevRound {
			set("reported-round-decreased")
		}
		if o.round > prevRound {
			kinds["latest-advanced"]++
		}
		prevRound = o.round
		if o.origin == -1 {
			// a ticket reported as the node's own must be one it made itself: for one of its own LFBs, signed with its key
			if !ownBlocks[[2]int64{o.round, int64(o.hash)}] || got.SharderID != node.Self.GetKey() || !sigOK(got) {
				set("unverified-ticket-adopted")
			}
		}
		if o.origin >= 0 {
			p := peers[o.origin]
			valid, wasPosted := posted[[3]int64{o.round, int64(o.origin), int64(o.hash)}]
			switch {
			case o.origin == 0 || !wasPosted:
				set("unverified-ticket-adopted")
			case !sigOK(got) || !valid:
				// the reported ticket's signature does not verify for its own (round, hash) under its sender's key
				set("unverified-ticket-adopted")
			case !p.known:
				set("unverified-ticket-adopted")
			case !(p.kind == 1 && p.inMB):
				// a valid signature of a registered node that is not a sharder of the current magic block
				set("ticket-from-non-sharder-adopted")
				kinds["adopted-from-non-sharder"]++
			default:
				kinds["adopted-from-sharder"]++
			}
		}
	}
	return
}

func coqCase(h hist, observations []obs, verdicts, sigs [][]bool) string {
	var nodes []string
	for i, p := range peers {
		if p == nil || !p.known {
			continue
		}
		nodes = append(nodes, fmt.Sprintf("(%d, %d, %s)", i, p.kind, vh.Bool(p.inMB)))
	}
	evs := make([]string, len(h.Events))
	rb := 0 // index of the remote batch
	for i, e := range h.Events {
		switch e.K {
		case "remote":
			ts := make([]string, len(e.Tickets))
			for j, t := range e.Tickets {
				// lf_sig_ok is the result of really verifying the signature for this ticket's content
				ts[j] = fmt.Sprintf("{| lf_round := %s; lf_signer := %d; lf_sig_ok := %s; lf_hash := %d |}",
					vh.Z(t.Round), t.Signer, vh.Bool(sigs[rb][j]), t.Hash)
			}
			rb++
			evs[i] = "LfRemote " + vh.List(ts)
		case "kick":
			evs[i] = "LfKick " + vh.Z(e.Round)
		case "broadcast":
			bs := make([]string, len(e.Blocks))
			for j, b := range e.Blocks {
				bs[j] = vh.Pair(vh.Z(b.Round), fmt.Sprintf("%d", b.Hash))
			}
			evs[i] = "LfBroadcast " + vh.List(bs)
		default:
			evs[i] = "LfGet"
		}
	}
	os := make([]string, len(observations))
	for i, o := range observations {
		os[i] = fmt.Sprintf("(%s, %s, %d)", vh.Z(o.round), vh.Z(int64(o.origin)), o.hash)
	}
	vs := make([]string, len(verdicts))
	for i, v := range verdicts {
		bs := make([]string, len(v))
		for j, b := range v {
			bs[j] = vh.Bool(b)
		}
		vs[i] = vh.List(bs)
	}
	return fmt.Sprintf("LfCase %s %s %s %d %s %s %s", vh.List(nodes), vh.Bool(h.SelfSharder), vh.Z(h.InitRound), h.InitRound,
		vh.List(evs), vh.List(os), vh.List(vs))
}

// ---------------------------------------------------------------------------------- generator

func genTicket(r *vh.Rand, cur int64) tk {
	t := tk{Round: cur + int64(r.Range(-2, 6)), Hash: r.Range(1, 50)}
	switch x := r.Intn(10); {
	case x < 5:
		t.Signer = r.Range(1, 3) // current sharders
	case x < 7:
		t.Signer = r.Range(4, 5) // current miners
	case x < 8:
		t.Signer = r.Range(6, 7) // earlier magic block
	default:
		t.Signer = r.Range(8, 9) // unknown
	}
	if r.Chance(1, 12) {
		t.Signer = 10 // claims to come from the receiving node itself
		t.Round = cur + int64(r.Range(1, 1000))
	}
	t.Sig = []string{"good", "good", "good", "good", "good", "good", "wrongkey", "tampered", "empty", "garbage", "replay", "replay", "stolen"}[r.Intn(13)]
	if t.Sig == "replay" || t.Sig == "stolen" {
		t.Round = cur + int64(r.Range(1, 8)) // a forged ticket claims progress
		if r.Chance(1, 4) {
			t.Round = 1000000
		}
	}
	if r.Chance(1, 25) {
		t.Round = []int64{0, -1, 1 << 62, 9223372036854775807, -9223372036854775808}[r.Intn(5)]
	}
	return t
}

func genHist(r *vh.Rand) hist {
	h := hist{SelfSharder: r.Chance(3, 4), InitRound: int64(r.Range(0, 20)), Prefill: r.Chance(1, 3)}
	cur := h.InitRound
	for n := r.Range(1, 12); n > 0; n-- {
		var e ev
		switch x := r.Intn(10); {
		case x < 5:
			e.K = "remote"
			for k := 1; k > 0 || (r.Chance(1, 3) && len(e.Tickets) < 5); k-- {
				e.Tickets = append(e.Tickets, genTicket(r, cur))
			}
		case x < 6:
			e = ev{K: "kick", Round: cur + int64(r.Range(-1, 4))}
		case x < 9:
			e.K = "broadcast"
			for k := 1; k > 0 || (r.Chance(1, 3) && len(e.Blocks) < 4); k-- {
				e.Blocks = append(e.Blocks, blk{cur + int64(r.Range(-1, 3)), r.Range(1, 50)})
			}
		default:
			e.K = "get"
		}
		h.Events = append(h.Events, e)
		cur += int64(r.Range(0, 2))
	}
	return h
}

func key(h hist) string {
	var b strings.Builder
	fmt.Fprintf(&b, "%v|%d|%v|%v", h.SelfSharder, h.InitRound, h.Prefill, h.Events)
	return b.String()
}

func main() {
	o := vh.ParseFlags()
	setup()
	rep := vh.NewReport("lfbticket", "C41", o)
	rep.Rule = "random histories of 1-12 events on the real LFB ticket worker: remote batches of 1-5 tickets posted to the real handler " +
		"(signer: current sharder 50%, current miner 20%, node of an earlier magic block 10%, unknown 20%, 1 in 12 claims the receiving node's own id; real ed25519 signature good 60%, " +
		"other key / tampered / empty / garbage and a replayed earlier genuine signature of the same or of another sender on a ticket with another round and hash; rounds around the current one, 1 in 25 extreme), local kicks, own broadcasts of " +
		"1-4 blocks, reads; self is a sharder in 3 of 4; 1 in 3 queues the first batch before the worker starts; plus all sequences over " +
		"11 events up to a bound. Non-trivial = the handler accepted and rejected a ticket and the reported ticket advanced at least twice; distinct by full event list"
	cf := &vh.CasesFile{Imports: []string{"Base.Corr", "Model.LFB", "Corr.LFB"}, CaseType: "lf_case", CheckFn: "lf_check"}

	handle := func(h hist, toCoq bool) {
		observations, verdicts, sigs, fail, kinds := run(h)
		for k, n := range kinds {
			rep.CountN(k, n)
		}
		rep.Case(key(h), kinds["handler-accepted"] > 0 && kinds["handler-rejected"] > 0 && kinds["latest-advanced"] >= 2, h)
		if toCoq {
			cf.Add(coqCase(h, observations, verdicts, sigs))
			rep.CaseInputs = append(rep.CaseInputs, h)
		}
		if fail != "" {
			keep := vh.ShrinkIdx(len(h.Events), func(keep []int) bool {
				h2 := hist{SelfSharder: h.SelfSharder, InitRound: h.InitRound, Prefill: h.Prefill}
				for _, i := range keep {
					h2.Events = append(h2.Events, h.Events[i])
				}
				_, _, _, f2, _ := run(h2)
				return f2 == fail
			})
			h2 := hist{SelfSharder: h.SelfSharder, InitRound: h.InitRound, Prefill: h.Prefill}
			for _, i := range keep {
				h2.Events = append(h2.Events, h.Events[i])
			}
			// one ticket per remote batch when that still fails
			for i := range h2.Events {
				if h2.Events[i].K == "remote" && len(h2.Events[i].Tickets) > 1 {
					for _, t := range h2.Events[i].Tickets {
						h3 := h2
						h3.Events = append([]ev{}, h2.Events...)
						h3.Events[i] = ev{K: "remote", Tickets: []tk{t}}
						if _, _, _, f3, _ := run(h3); f3 == fail {
							h2 = h3
							break
						}
					}
				}
			}
			rep.Violate("C41:"+fail, "LFB ticket: "+fail, h2)
		}
	}
	finish := func() {
		files, err := cf.Write(o.Out, "C41")
		if err != nil {
			panic(err)
		}
		rep.CaseFiles = files
		rep.ShardSize = 400
		rep.Write(o.Out)
	}

	var rh hist
	if o.LoadReplay(&rh) {
		handle(rh, true)
		finish()
		return
	}
	rnd := vh.NewRand(o.Seed)
	for i := 0; i < o.N(400, 4000); i++ {
		handle(genHist(rnd), true)
	}
	alpha := []ev{
		{K: "remote", Tickets: []tk{{7, 1, "good", 7}}},
		{K: "remote", Tickets: []tk{{9, 4, "good", 9}}},       // signed by a current miner
		{K: "remote", Tickets: []tk{{8, 2, "tampered", 8}}},   // bad signature
		{K: "remote", Tickets: []tk{{10, 8, "good", 10}}},     // unknown node
		{K: "remote", Tickets: []tk{{12, 1, "replay", 12}}},   // an earlier genuine signature of sharder 1 on another round/hash
		{K: "remote", Tickets: []tk{{11, 2, "stolen", 11}}},   // an earlier genuine signature of another sender
		{K: "remote", Tickets: []tk{{13, 10, "garbage", 13}}}, // claims the receiving node's own id
		{K: "kick", Round: 8},
		{K: "broadcast", Blocks: []blk{{7, 17}}},
		{K: "broadcast", Blocks: []blk{{10, 20}}},
		{K: "get"},
	}
	maxLen, coqLen := o.N(3, 4), o.N(2, 3)
	var rec func(cur []ev)
	rec = func(cur []ev) {
		if len(cur) > 0 {
			handle(hist{SelfSharder: true, InitRound: 6, Events: append([]ev{}, cur...)}, len(cur) <= coqLen)
		}
		if len(cur) == maxLen {
			return
		}
		for _, a := range alpha {
			rec(append(cur, a))
		}
	}
	rec(nil)
	rep.Note("exhaustive: all sequences over %d events (valid sharder ticket, valid miner ticket, tampered ticket, unknown signer, kick, two own broadcasts, read) up to length %d on the implementation oracle; up to length %d also compared with the model", len(alpha), maxLen, coqLen)
	finish()
}
