(* Proofs about the msgp wire-format model (property C08): every primitive reader inverts its
   writer, Skip passes over every encoded value, and decoding inverts encoding for every schema. *)
From ZC Require Import Model.Msgp.
From Coq Require Import ZifyBool ZifyNat.
Open Scope Z_scope.

(* ---------- bytes ---------- *)

Lemma mp_le_length n : forall z, length (mp_le n z) = n.
Proof. induction n as [|n IH]; intros z; cbn; [reflexivity|]. rewrite IH. reflexivity. Qed.

Lemma mp_be_length n z : length (mp_be n z) = n.
Proof. unfold mp_be. rewrite rev_length. apply mp_le_length. Qed.

Lemma mp_unle_le n : forall z, mp_unle (mp_le n z) = z mod 2 ^ (8 * Z.of_nat n).
Proof.
  induction n as [|n IH]; intros z.
  - cbn. rewrite Z.mod_1_r. reflexivity.
  - cbn [mp_le mp_unle]. rewrite IH.
    replace (8 * Z.of_nat (S n)) with (8 + 8 * Z.of_nat n) by lia.
    rewrite Z.pow_add_r by lia. change (2 ^ 8) with 256.
    rewrite Z.rem_mul_r by (try lia; apply Z.pow_pos_nonneg; lia). reflexivity.
Qed.

Lemma mp_unbe_be n z : mp_unbe (mp_be n z) = z mod 2 ^ (8 * Z.of_nat n).
Proof. unfold mp_unbe, mp_be. rewrite rev_involutive. apply mp_unle_le. Qed.

Lemma mp_take_app x r n : n = length x -> mp_take n (x ++ r) = Some (x, r).
Proof.
  intros ->. unfold mp_take.
  destruct (Nat.ltb_spec (length (x ++ r)) (length x)) as [H|_]; [rewrite app_length in H; lia|].
  f_equal. f_equal.
  - induction x; cbn; [reflexivity|]. f_equal. assumption.
  - induction x; cbn; auto.
Qed.

Lemma mp_take_z_app x r n : n = Z.of_nat (length x) -> mp_take_z n (x ++ r) = Some (x, r).
Proof.
  intros ->. unfold mp_take_z.
  destruct (Z.ltb_spec (Z.of_nat (length (x ++ r))) (Z.of_nat (length x))) as [H|_]; [rewrite app_length in H; lia|].
  apply mp_take_app. lia.
Qed.

Lemma mp_rd_fixed_be n z r : 0 <= z < 2 ^ (8 * Z.of_nat n) ->
  mp_rd_fixed n (mp_be n z ++ r) = Some (z, r).
Proof.
  intros H. unfold mp_rd_fixed. rewrite mp_take_app by (rewrite mp_be_length; reflexivity).
  rewrite mp_unbe_be, Z.mod_small by exact H. reflexivity.
Qed.

Lemma mp_rd_fixed_signed_be n z r : (0 < n)%nat ->
  - 2 ^ (8 * Z.of_nat n - 1) <= z < 2 ^ (8 * Z.of_nat n - 1) ->
  mp_rd_fixed_signed n (mp_be n z ++ r) = Some (z, r).
Proof.
  intros Hn H. unfold mp_rd_fixed_signed. rewrite mp_take_app by (rewrite mp_be_length; reflexivity).
  rewrite mp_unbe_be. f_equal. f_equal. unfold mp_signed.
  set (w := 8 * Z.of_nat n) in *.
  assert (Hw : 2 ^ w = 2 * 2 ^ (w - 1)).
  { replace w with (1 + (w - 1)) at 1 by lia. rewrite Z.pow_add_r by lia. reflexivity. }
  assert (Hp : 0 < 2 ^ (w - 1)) by (apply Z.pow_pos_nonneg; lia).
  destruct (Z.lt_ge_cases z 0) as [Hneg|Hpos].
  - replace (z mod 2 ^ w) with (z + 2 ^ w).
    + destruct (Z.ltb_spec (z + 2 ^ w) (2 ^ (w - 1))); lia.
    + symmetry. rewrite <- (Z.mod_add z 1 (2 ^ w)) by lia. rewrite Z.mul_1_l. apply Z.mod_small. lia.
  - rewrite Z.mod_small by lia. destruct (Z.ltb_spec z (2 ^ (w - 1))); lia.
Qed.

(* ---------- integers ---------- *)

Ltac mp_pow := change (2 ^ (8 - 1)) with 128 in *; change (2 ^ (16 - 1)) with 32768 in *;
  change (2 ^ (32 - 1)) with 2147483648 in *; change (2 ^ (64 - 1)) with 9223372036854775808 in *;
  change (2 ^ 8) with 256 in *; change (2 ^ 16) with 65536 in *; change (2 ^ 32) with 4294967296 in *;
  change (2 ^ 64) with 18446744073709551616 in *.

Lemma mp_rd_int64_wr i r : - 2 ^ 63 <= i < 2 ^ 63 -> mp_rd_int64 (mp_wr_int i ++ r) = Some (i, r).
Proof.
  intros H. change (2 ^ 63) with 9223372036854775808 in H. unfold mp_wr_int.
  destruct (Z.leb_spec 0 i).
  - destruct (Z.leb_spec i 127).
    { cbn [app mp_rd_int64]. destruct (Z.leb_spec i 127); [reflexivity|lia]. }
    destruct (Z.leb_spec i 32767).
    { cbn -[mp_rd_fixed_signed mp_be]. apply (mp_rd_fixed_signed_be 2); [lia|]. cbn. lia. }
    destruct (Z.leb_spec i 2147483647).
    { cbn -[mp_rd_fixed_signed mp_be]. apply (mp_rd_fixed_signed_be 4); [lia|]. cbn. lia. }
    cbn -[mp_rd_fixed_signed mp_be]. apply (mp_rd_fixed_signed_be 8); [lia|]. cbn. lia.
  - destruct (Z.leb_spec (-32) i).
    { cbn [app mp_rd_int64]. destruct (Z.leb_spec (i + 256) 127); [lia|].
      destruct (Z.leb_spec 224 (i + 256)); [|lia]. f_equal. f_equal. lia. }
    destruct (Z.leb_spec (-128) i).
    { cbn -[mp_rd_fixed_signed]. change (i + 256 :: r) with ([i + 256] ++ r). replace [i + 256] with (mp_be 1 i).
      - apply (mp_rd_fixed_signed_be 1 i r); [lia|]. cbn. lia.
      - unfold mp_be. cbn. f_equal. lia. }
    destruct (Z.leb_spec (-32768) i).
    { cbn -[mp_rd_fixed_signed mp_be]. apply (mp_rd_fixed_signed_be 2); [lia|]. cbn. lia. }
    destruct (Z.leb_spec (-2147483648) i).
    { cbn -[mp_rd_fixed_signed mp_be]. apply (mp_rd_fixed_signed_be 4); [lia|]. cbn. lia. }
    cbn -[mp_rd_fixed_signed mp_be]. apply (mp_rd_fixed_signed_be 8); [lia|]. cbn. lia.
Qed.

Definition mp_int_bits (bits : Z) : Prop := bits = 8 \/ bits = 16 \/ bits = 32 \/ bits = 64.

Lemma mp_rd_int_wr bits i r : mp_int_bits bits -> - 2 ^ (bits - 1) <= i < 2 ^ (bits - 1) ->
  mp_rd_int bits (mp_wr_int i ++ r) = Some (i, r).
Proof.
  intros Hb H. unfold mp_rd_int. rewrite mp_rd_int64_wr.
  - destruct (Z.leb_spec (- 2 ^ (bits - 1)) i); [|lia]. destruct (Z.ltb_spec i (2 ^ (bits - 1))); [|lia]. reflexivity.
  - destruct Hb as [-> | [-> | [-> | ->]]]; mp_pow; change (2 ^ 63) with 9223372036854775808; lia.
Qed.

Lemma mp_rd_uint64_wr u r : 0 <= u < 2 ^ 64 -> mp_rd_uint64 (mp_wr_uint u ++ r) = Some (u, r).
Proof.
  intros H. mp_pow. unfold mp_wr_uint.
  destruct (Z.leb_spec u 127).
  { cbn [app mp_rd_uint64]. destruct (Z.leb_spec u 127); [reflexivity|lia]. }
  destruct (Z.leb_spec u 255).
  { cbn -[mp_rd_fixed]. change (u :: r) with ([u] ++ r). replace [u] with (mp_be 1 u).
    - apply (mp_rd_fixed_be 1 u r). cbn. lia.
    - unfold mp_be. cbn. f_equal. lia. }
  destruct (Z.leb_spec u 65535).
  { cbn -[mp_rd_fixed mp_be]. apply (mp_rd_fixed_be 2). cbn. lia. }
  destruct (Z.leb_spec u 4294967295).
  { cbn -[mp_rd_fixed mp_be]. apply (mp_rd_fixed_be 4). cbn. lia. }
  cbn -[mp_rd_fixed mp_be]. apply (mp_rd_fixed_be 8). cbn. lia.
Qed.

Lemma mp_rd_uint_wr bits u r : mp_int_bits bits -> 0 <= u < 2 ^ bits ->
  mp_rd_uint bits (mp_wr_uint u ++ r) = Some (u, r).
Proof.
  intros Hb H. unfold mp_rd_uint. rewrite mp_rd_uint64_wr.
  - destruct (Z.ltb_spec u (2 ^ bits)); [reflexivity|lia].
  - destruct Hb as [-> | [-> | [-> | ->]]]; mp_pow; lia.
Qed.

Lemma mp_rd_f64_wr z r : 0 <= z < 2 ^ 64 -> mp_rd_f64 (mp_wr_f64 z ++ r) = Some (z, r).
Proof. intros H. unfold mp_wr_f64. cbn -[mp_rd_fixed mp_be]. apply (mp_rd_fixed_be 8). cbn. mp_pow. lia. Qed.

Lemma mp_rd_bool_wr b r : mp_rd_bool (mp_wr_bool b ++ r) = Some (b, r).
Proof. destruct b; reflexivity. Qed.

(* ---------- strings, bins, headers ---------- *)

Lemma mp_rd_len_be n len x r : 0 <= len < 2 ^ (8 * Z.of_nat n) -> len = Z.of_nat (length x) ->
  mp_rd_len n (mp_be n len ++ x ++ r) = Some (x, r).
Proof.
  intros H Hl. unfold mp_rd_len. rewrite mp_rd_fixed_be by exact H. apply mp_take_z_app. exact Hl.
Qed.

Lemma mp_rd_str_wr s r : Z.of_nat (length s) < 2 ^ 32 -> mp_rd_str (mp_wr_str s ++ r) = Some (s, r).
Proof.
  intros H. mp_pow. unfold mp_wr_str. set (n := Z.of_nat (length s)) in *. rewrite <- app_assoc.
  destruct (Z.leb_spec n 31).
  { cbn [app mp_rd_str]. destruct (Z.leb_spec 160 (160 + n)); [|lia]. destruct (Z.leb_spec (160 + n) 191); [|lia].
    cbn [andb]. apply mp_take_z_app. lia. }
  destruct (Z.leb_spec n 255).
  { cbn -[mp_rd_len]. change (n :: s ++ r) with ([n] ++ s ++ r). replace [n] with (mp_be 1 n) by (unfold mp_be; cbn; f_equal; lia).
    apply (mp_rd_len_be 1); [cbn; lia|reflexivity]. }
  destruct (Z.leb_spec n 65535).
  { cbn -[mp_rd_len mp_be]. apply (mp_rd_len_be 2); [cbn; lia|reflexivity]. }
  cbn -[mp_rd_len mp_be]. apply (mp_rd_len_be 4); [cbn; lia|reflexivity].
Qed.

Lemma mp_rd_key_wr s r : Z.of_nat (length s) < 2 ^ 32 -> mp_rd_key (mp_wr_str s ++ r) = Some (s, r).
Proof. intros H. unfold mp_rd_key. rewrite mp_rd_str_wr by exact H. reflexivity. Qed.

Lemma mp_rd_bin_wr s r : Z.of_nat (length s) < 2 ^ 32 -> mp_rd_bin (mp_wr_bin s ++ r) = Some (s, r).
Proof.
  intros H. mp_pow. unfold mp_wr_bin. set (n := Z.of_nat (length s)) in *. rewrite <- app_assoc.
  destruct (Z.leb_spec n 255).
  { cbn -[mp_rd_len]. change (n :: s ++ r) with ([n] ++ s ++ r). replace [n] with (mp_be 1 n) by (unfold mp_be; cbn; f_equal; lia).
    apply (mp_rd_len_be 1); [cbn; lia|reflexivity]. }
  destruct (Z.leb_spec n 65535).
  { cbn -[mp_rd_len mp_be]. apply (mp_rd_len_be 2); [cbn; lia|reflexivity]. }
  cbn -[mp_rd_len mp_be]. apply (mp_rd_len_be 4); [cbn; lia|reflexivity].
Qed.

Lemma mp_rd_arrhdr_wr n r : 0 <= n < 2 ^ 32 -> mp_rd_arrhdr (mp_wr_arrhdr n ++ r) = Some (n, r).
Proof.
  intros H. mp_pow. unfold mp_wr_arrhdr.
  destruct (Z.leb_spec n 15).
  { cbn [app mp_rd_arrhdr]. destruct (Z.leb_spec 144 (144 + n)); [|lia]. destruct (Z.leb_spec (144 + n) 159); [|lia].
    cbn [andb]. f_equal. f_equal. lia. }
  destruct (Z.leb_spec n 65535).
  { cbn -[mp_rd_fixed mp_be]. apply (mp_rd_fixed_be 2). cbn. lia. }
  cbn -[mp_rd_fixed mp_be]. apply (mp_rd_fixed_be 4). cbn. lia.
Qed.

Lemma mp_rd_maphdr_wr n r : 0 <= n < 2 ^ 32 -> mp_rd_maphdr (mp_wr_maphdr n ++ r) = Some (n, r).
Proof.
  intros H. mp_pow. unfold mp_wr_maphdr.
  destruct (Z.leb_spec n 15).
  { cbn [app mp_rd_maphdr]. destruct (Z.leb_spec 128 (128 + n)); [|lia]. destruct (Z.leb_spec (128 + n) 143); [|lia].
    cbn [andb]. f_equal. f_equal. lia. }
  destruct (Z.leb_spec n 65535).
  { cbn -[mp_rd_fixed mp_be]. apply (mp_rd_fixed_be 2). cbn. lia. }
  cbn -[mp_rd_fixed mp_be]. apply (mp_rd_fixed_be 4). cbn. lia.
Qed.

(* ---------- Skip passes over every written primitive ---------- *)

Ltac mp_chain :=
  repeat match goal with
  | |- context [if ?a <=? ?b then _ else _] => destruct (Z.leb_spec a b); try lia
  | |- context [if ?a =? ?b then _ else _] => destruct (Z.eqb_spec a b); try lia
  end.

Lemma mp_skip_fixed n x rest : length x = n ->
  match mp_take n (x ++ rest) with Some (_, r) => Some r | None => None end = Some rest.
Proof. intros H. rewrite mp_take_app by (symmetry; exact H). reflexivity. Qed.

Lemma mp_skip1_int f i rest : - 2 ^ 63 <= i < 2 ^ 63 -> mp_skip1 (S f) (mp_wr_int i ++ rest) = Some rest.
Proof.
  intros H. change (2 ^ 63) with 9223372036854775808 in H. unfold mp_wr_int.
  destruct (Z.leb_spec 0 i); [destruct (Z.leb_spec i 127); [|destruct (Z.leb_spec i 32767); [|destruct (Z.leb_spec i 2147483647)]]
    |destruct (Z.leb_spec (-32) i); [|destruct (Z.leb_spec (-128) i); [|destruct (Z.leb_spec (-32768) i); [|destruct (Z.leb_spec (-2147483648) i)]]]];
  cbn -[mp_be mp_take mp_rd_fixed mp_take_z mp_skip_many Z.add Z.sub Z.mul]; mp_chain; try reflexivity;
  try (apply mp_skip_fixed; apply mp_be_length).
Qed.

Lemma mp_skip1_uint f u rest : 0 <= u < 2 ^ 64 -> mp_skip1 (S f) (mp_wr_uint u ++ rest) = Some rest.
Proof.
  intros H. mp_pow. unfold mp_wr_uint.
  destruct (Z.leb_spec u 127); [|destruct (Z.leb_spec u 255); [|destruct (Z.leb_spec u 65535); [|destruct (Z.leb_spec u 4294967295)]]];
  cbn -[mp_be mp_take mp_rd_fixed mp_take_z mp_skip_many Z.add Z.sub Z.mul]; mp_chain; try reflexivity;
  try (apply mp_skip_fixed; apply mp_be_length).
Qed.

Lemma mp_skip1_f64 f z rest : mp_skip1 (S f) (mp_wr_f64 z ++ rest) = Some rest.
Proof.
  unfold mp_wr_f64. cbn -[mp_be mp_take mp_rd_fixed mp_take_z mp_skip_many Z.add Z.sub Z.mul].
  apply mp_skip_fixed. apply mp_be_length.
Qed.

Lemma mp_skip1_bool f b rest : mp_skip1 (S f) (mp_wr_bool b ++ rest) = Some rest.
Proof. destruct b; reflexivity. Qed.

Lemma mp_skip1_nil f rest : mp_skip1 (S f) (mp_wr_nil ++ rest) = Some rest.
Proof. reflexivity. Qed.

Lemma mp_skip_bytes n len x rest extra : 0 <= len < 2 ^ (8 * Z.of_nat n) -> len + extra = Z.of_nat (length x) ->
  match mp_rd_fixed n (mp_be n len ++ x ++ rest) with
  | Some (l, r) => match mp_take_z (l + extra) r with Some (_, r') => Some r' | None => None end
  | None => None
  end = Some rest.
Proof.
  intros H Hl. rewrite mp_rd_fixed_be by exact H. rewrite mp_take_z_app by exact Hl. reflexivity.
Qed.

Lemma mp_skip1_str f s rest : Z.of_nat (length s) < 2 ^ 32 -> mp_skip1 (S f) (mp_wr_str s ++ rest) = Some rest.
Proof.
  intros H. mp_pow. unfold mp_wr_str. set (n := Z.of_nat (length s)) in *. rewrite <- app_assoc.
  destruct (Z.leb_spec n 31); [|destruct (Z.leb_spec n 255); [|destruct (Z.leb_spec n 65535)]];
  cbn -[mp_be mp_take mp_rd_fixed mp_take_z mp_skip_many Z.add Z.sub Z.mul]; mp_chain.
  - rewrite mp_take_z_app by lia. reflexivity.
  - change (n :: s ++ rest) with ([n] ++ s ++ rest). replace [n] with (mp_be 1 n) by (unfold mp_be; cbn; f_equal; lia).
    apply (mp_skip_bytes 1); [cbn; lia|lia].
  - apply (mp_skip_bytes 2); [cbn; lia|lia].
  - apply (mp_skip_bytes 4); [cbn; lia|lia].
Qed.

Lemma mp_skip1_bin f s rest : Z.of_nat (length s) < 2 ^ 32 -> mp_skip1 (S f) (mp_wr_bin s ++ rest) = Some rest.
Proof.
  intros H. mp_pow. unfold mp_wr_bin. set (n := Z.of_nat (length s)) in *. rewrite <- app_assoc.
  destruct (Z.leb_spec n 255); [|destruct (Z.leb_spec n 65535)];
  cbn -[mp_be mp_take mp_rd_fixed mp_take_z mp_skip_many Z.add Z.sub Z.mul]; mp_chain.
  - change (n :: s ++ rest) with ([n] ++ s ++ rest). replace [n] with (mp_be 1 n) by (unfold mp_be; cbn; f_equal; lia).
    apply (mp_skip_bytes 1); [cbn; lia|lia].
  - apply (mp_skip_bytes 2); [cbn; lia|lia].
  - apply (mp_skip_bytes 4); [cbn; lia|lia].
Qed.

(* containers: the header hands its children to mp_skip_many *)
Lemma mp_skip1_arrhdr f n r : 0 <= n < 2 ^ 32 -> Z.of_nat (length r) >= n ->
  mp_skip1 (S f) (mp_wr_arrhdr n ++ r) = mp_skip_many (mp_skip1 f) (Z.to_nat n) r.
Proof.
  intros H Hl. mp_pow. unfold mp_wr_arrhdr.
  destruct (Z.leb_spec n 15); [|destruct (Z.leb_spec n 65535)];
  cbn -[mp_be mp_take mp_rd_fixed mp_take_z mp_skip_many Z.add Z.sub Z.mul]; mp_chain.
  - replace (144 + n - 144) with n by lia. destruct (Z.ltb_spec (Z.of_nat (length r)) n); [lia|reflexivity].
  - rewrite (mp_rd_fixed_be 2) by (cbn; lia). rewrite Z.mul_1_l.
    destruct (Z.ltb_spec (Z.of_nat (length r)) n); [lia|reflexivity].
  - rewrite (mp_rd_fixed_be 4) by (cbn; lia). rewrite Z.mul_1_l.
    destruct (Z.ltb_spec (Z.of_nat (length r)) n); [lia|reflexivity].
Qed.

Lemma mp_skip1_maphdr f n r : 0 <= n < 2 ^ 32 -> Z.of_nat (length r) >= 2 * n ->
  mp_skip1 (S f) (mp_wr_maphdr n ++ r) = mp_skip_many (mp_skip1 f) (Z.to_nat (2 * n)) r.
Proof.
  intros H Hl. mp_pow. unfold mp_wr_maphdr.
  destruct (Z.leb_spec n 15); [|destruct (Z.leb_spec n 65535)];
  cbn -[mp_be mp_take mp_rd_fixed mp_take_z mp_skip_many Z.add Z.sub Z.mul]; mp_chain.
  - replace (128 + n - 128) with n by lia. destruct (Z.ltb_spec (Z.of_nat (length r)) (2 * n)); [lia|reflexivity].
  - rewrite (mp_rd_fixed_be 2) by (cbn; lia).
    destruct (Z.ltb_spec (Z.of_nat (length r)) (2 * n)); [lia|reflexivity].
  - rewrite (mp_rd_fixed_be 4) by (cbn; lia).
    destruct (Z.ltb_spec (Z.of_nat (length r)) (2 * n)); [lia|reflexivity].
Qed.

(* ---------- named forms of the nested recursions of the model ---------- *)

Fixpoint mp_enc_fields (fs : list (list Z * mp_ty)) (vs : list mp_val) : list Z :=
  match fs, vs with
  | (k, ft) :: fs', x :: vs' => mp_wr_str k ++ mp_enc ft x ++ mp_enc_fields fs' vs'
  | _, _ => []
  end.

Fixpoint mp_enc_alt (alts : list (list Z * mp_ty)) (tag : list Z) (x : mp_val) : list Z :=
  match alts with
  | (k, at_) :: tl => if mp_key_eqb k tag then mp_enc at_ x else mp_enc_alt tl tag x
  | [] => []
  end.

Definition mp_decs (fs : list (list Z * mp_ty)) : list (list Z * mp_decoder) :=
  map (fun kt => (fst kt, mp_dec (snd kt))) fs.
Definition mp_zeros (fs : list (list Z * mp_ty)) : list mp_val := map (fun kt => mp_zero (snd kt)) fs.

Fixpoint mp_dec_alt (alts : list (list Z * mp_ty)) (ver b : list Z) : option (mp_val * list Z) :=
  match alts with
  | (k, at_) :: tl =>
      if mp_key_eqb k ver
      then match mp_dec at_ b with Some (x, r) => Some (VVer ver x, r) | None => None end
      else mp_dec_alt tl ver b
  | [] => None
  end.

Lemma mp_enc_struct_eq fs vs :
  mp_enc (TStruct fs) (VStruct vs) = mp_wr_maphdr (Z.of_nat (length fs)) ++ mp_enc_fields fs vs.
Proof.
  cbn [mp_enc]. f_equal.
Qed.

Lemma mp_enc_ver_eq alts tag x : mp_enc (TVer alts) (VVer tag x) = mp_enc_alt alts tag x.
Proof.
  cbn [mp_enc]. induction alts as [|[k at_] tl IH]; [reflexivity|].
  cbn [mp_enc_alt]. rewrite <- IH. reflexivity.
Qed.

Lemma mp_zero_struct_eq fs : mp_zero (TStruct fs) = VStruct (mp_zeros fs).
Proof.
  cbn [mp_zero]. f_equal. induction fs as [|[k ft] fs IH]; [reflexivity|].
  cbn [mp_zeros map snd]. rewrite IH. reflexivity.
Qed.

Lemma mp_dec_struct_eq fs b :
  mp_dec (TStruct fs) b =
  match mp_dec_struct (mp_decs fs) (mp_zeros fs) b with
  | Some (slots, r) => Some (VStruct slots, r)
  | None => None
  end.
Proof.
  cbn [mp_dec].
  assert (E1 : forall l, (fix go (fs0 : list (list Z * mp_ty)) : list (list Z * mp_decoder) :=
                 match fs0 with (k, ft) :: tl => (k, mp_dec ft) :: go tl | [] => [] end) l = mp_decs l).
  { induction l as [|[k ft] l IH]; [reflexivity|]. cbn [mp_decs map fst snd]. rewrite IH. reflexivity. }
  assert (E2 : forall l, (fix go (fs0 : list (list Z * mp_ty)) : list mp_val :=
                 match fs0 with (_, ft) :: tl => mp_zero ft :: go tl | [] => [] end) l = mp_zeros l).
  { induction l as [|[k ft] l IH]; [reflexivity|]. cbn [mp_zeros map snd]. rewrite IH. reflexivity. }
  rewrite E1, E2. reflexivity.
Qed.

Lemma mp_dec_ver_eq alts b :
  mp_dec (TVer alts) b =
  match mp_peek_version b with Some ver => mp_dec_alt alts ver b | None => None end.
Proof.
  cbn [mp_dec]. destruct (mp_peek_version b) as [ver|]; [|reflexivity].
  induction alts as [|[k at_] tl IH]; [reflexivity|]. cbn [mp_dec_alt]. rewrite <- IH. reflexivity.
Qed.

(* ---------- induction principle for the nested type ---------- *)

Section TyInd.
  Variable P : mp_ty -> Prop.
  Hypothesis HBool : P TBool.
  Hypothesis HInt : forall b, P (TInt b).
  Hypothesis HUint : forall b, P (TUint b).
  Hypothesis HF64 : P TF64.
  Hypothesis HStr : P TStr.
  Hypothesis HBin : P TBin.
  Hypothesis HArr : forall e, P e -> P (TArr e).
  Hypothesis HMap : forall e, P e -> P (TMap e).
  Hypothesis HPtr : forall e, P e -> P (TPtr e).
  Hypothesis HStruct : forall fs, Forall (fun kt => P (snd kt)) fs -> P (TStruct fs).
  Hypothesis HVer : forall alts, Forall (fun kt => P (snd kt)) alts -> P (TVer alts).

  Fixpoint mp_ty_ind' (t : mp_ty) : P t :=
    match t with
    | TBool => HBool | TInt b => HInt b | TUint b => HUint b | TF64 => HF64 | TStr => HStr | TBin => HBin
    | TArr e => HArr e (mp_ty_ind' e)
    | TMap e => HMap e (mp_ty_ind' e)
    | TPtr e => HPtr e (mp_ty_ind' e)
    | TStruct fs =>
        HStruct fs ((fix go (l : list (list Z * mp_ty)) : Forall (fun kt => P (snd kt)) l :=
                       match l with
                       | [] => Forall_nil _
                       | kt :: tl => Forall_cons kt (mp_ty_ind' (snd kt)) (go tl)
                       end) fs)
    | TVer alts =>
        HVer alts ((fix go (l : list (list Z * mp_ty)) : Forall (fun kt => P (snd kt)) l :=
                      match l with
                      | [] => Forall_nil _
                      | kt :: tl => Forall_cons kt (mp_ty_ind' (snd kt)) (go tl)
                      end) alts)
    end.
End TyInd.

(* ---------- well-formed schemas and values ---------- *)

Fixpoint mp_sorted (l : list (list Z * mp_val)) : Prop :=
  match l with
  | [] => True
  | kv :: tl => (forall kv', In kv' tl -> mp_cmp (fst kv) (fst kv') = Lt) /\ mp_sorted tl
  end.

(* the value of the "version" field of a struct ([] when there is none; the decoder keeps the
   last occurrence of a key) *)
Fixpoint mp_version_fold (cur : list Z) (fs : list (list Z * mp_ty)) (vs : list mp_val) : list Z :=
  match fs, vs with
  | (k, _) :: fs', x :: vs' =>
      mp_version_fold (if mp_key_eqb k mp_version_key then match x with VStr s => s | _ => [] end else cur) fs' vs'
  | _, _ => cur
  end.
Definition mp_version_of (fs : list (list Z * mp_ty)) (vs : list mp_val) : list Z := mp_version_fold [] fs vs.

Definition mp_is_ptr (t : mp_ty) : bool := match t with TPtr _ => true | _ => false end.

Fixpoint mp_wf_ty (t : mp_ty) : Prop :=
  match t with
  | TInt b | TUint b => mp_int_bits b
  | TArr e | TMap e => mp_wf_ty e
  | TPtr e => mp_wf_ty e /\ mp_is_ptr e = false
  | TStruct fs =>
      Z.of_nat (length fs) < 2 ^ 32 /\ NoDup (map fst fs) /\
      Forall (fun kt => Z.of_nat (length (fst kt)) < 2 ^ 32) fs /\
      (fix all (l : list (list Z * mp_ty)) : Prop :=
         match l with (_, ft) :: tl => mp_wf_ty ft /\ all tl | [] => True end) fs
  | TVer alts =>
      (fix all (l : list (list Z * mp_ty)) : Prop :=
         match l with
         | (_, at_) :: tl =>
             (mp_wf_ty at_ /\ exists fs, at_ = TStruct fs /\
                forall ft, In (mp_version_key, ft) fs -> ft = TStr) /\ all tl
         | [] => True
         end) alts
  | _ => True
  end.

Fixpoint mp_wf (t : mp_ty) (v : mp_val) {struct t} : Prop :=
  match t, v with
  | TBool, VBool _ => True
  | TInt b, VInt z => - 2 ^ (b - 1) <= z < 2 ^ (b - 1)
  | TUint b, VInt z => 0 <= z < 2 ^ b
  | TF64, VF64 z => 0 <= z < 2 ^ 64
  | TStr, VStr s => Z.of_nat (length s) < 2 ^ 32
  | TBin, VBin s => Z.of_nat (length s) < 2 ^ 32
  | TArr e, VArr l => Z.of_nat (length l) < 2 ^ 32 /\ Forall (mp_wf e) l
  | TMap e, VMap l =>
      Z.of_nat (length l) < 2 ^ 32 /\ mp_sorted l /\
      Forall (fun kv => Z.of_nat (length (fst kv)) < 2 ^ 32 /\ mp_wf e (snd kv)) l
  | TPtr e, VPtr None => True
  | TPtr e, VPtr (Some x) => mp_wf e x
  | TStruct fs, VStruct vs =>
      (fix all (l : list (list Z * mp_ty)) (vs : list mp_val) : Prop :=
         match l, vs with
         | (_, ft) :: tl, x :: vs' => mp_wf ft x /\ all tl vs'
         | [], [] => True
         | _, _ => False
         end) fs vs
  | TVer alts, VVer tag x =>
      (fix find (l : list (list Z * mp_ty)) : Prop :=
         match l with
         | (k, at_) :: tl =>
             if mp_key_eqb k tag
             then mp_wf at_ x /\
                  match at_, x with
                  | TStruct fs, VStruct vs =>
                      (match mp_version_of fs vs with [] => mp_v1 | s => s end) = tag
                  | _, _ => False
                  end
             else find tl
         | [] => False
         end) alts
  | _, _ => False
  end.

Fixpoint mp_wf_fields (fs : list (list Z * mp_ty)) (vs : list mp_val) : Prop :=
  match fs, vs with
  | (_, ft) :: tl, x :: vs' => mp_wf ft x /\ mp_wf_fields tl vs'
  | [], [] => True
  | _, _ => False
  end.

Lemma mp_wf_struct_eq fs vs : mp_wf (TStruct fs) (VStruct vs) = mp_wf_fields fs vs.
Proof.
  reflexivity.
Qed.

Fixpoint mp_wf_ty_fields (fs : list (list Z * mp_ty)) : Prop :=
  match fs with (_, ft) :: tl => mp_wf_ty ft /\ mp_wf_ty_fields tl | [] => True end.

Lemma mp_wf_ty_struct_eq fs :
  mp_wf_ty (TStruct fs) =
  (Z.of_nat (length fs) < 2 ^ 32 /\ NoDup (map fst fs) /\
   Forall (fun kt => Z.of_nat (length (fst kt)) < 2 ^ 32) fs /\ mp_wf_ty_fields fs).
Proof.
  reflexivity.
Qed.

(* ---------- bytes.Compare facts ---------- *)

Lemma mp_cmp_refl a : mp_cmp a a = Eq.
Proof. induction a as [|x a IH]; cbn; [reflexivity|]. rewrite Z.compare_refl. exact IH. Qed.

Lemma mp_cmp_eq a : forall b, mp_cmp a b = Eq -> a = b.
Proof.
  induction a as [|x a IH]; intros [|y b] H; cbn in H; try discriminate; [reflexivity|].
  destruct (Z.compare x y) eqn:E; try discriminate.
  apply Z.compare_eq in E. subst. f_equal. apply IH. exact H.
Qed.

Lemma mp_cmp_antisym a : forall b, mp_cmp b a = CompOpp (mp_cmp a b).
Proof.
  induction a as [|x a IH]; intros [|y b]; cbn; try reflexivity.
  rewrite (Z.compare_antisym x y). destruct (Z.compare x y); cbn; auto.
Qed.

Lemma mp_key_eqb_refl k : mp_key_eqb k k = true.
Proof. unfold mp_key_eqb. rewrite mp_cmp_refl. reflexivity. Qed.

Lemma mp_key_eqb_eq a b : mp_key_eqb a b = true -> a = b.
Proof. unfold mp_key_eqb. destruct (mp_cmp a b) eqn:E; try discriminate. intros _. apply mp_cmp_eq. exact E. Qed.

Lemma mp_key_eqb_neq a b : a <> b -> mp_key_eqb a b = false.
Proof. intros H. destruct (mp_key_eqb a b) eqn:E; [|reflexivity]. apply mp_key_eqb_eq in E. contradiction. Qed.

(* ---------- every encoding starts with a byte, and only a nil pointer starts with 0xc0 ---------- *)

Definition mp_head_ok (t : mp_ty) (b : list Z) : Prop :=
  exists lead tl, b = lead :: tl /\ (mp_is_ptr t = false -> lead <> 192).

Lemma mp_head_int i : exists lead tl, mp_wr_int i = lead :: tl /\ lead <> 192.
Proof.
  unfold mp_wr_int.
  repeat match goal with |- context [if ?a <=? ?b then _ else _] => destruct (Z.leb_spec a b) end;
  eexists; eexists; (split; [reflexivity|lia]).
Qed.

Lemma mp_head_uint u : 0 <= u -> exists lead tl, mp_wr_uint u = lead :: tl /\ lead <> 192.
Proof.
  intros H. unfold mp_wr_uint.
  repeat match goal with |- context [if ?a <=? ?b then _ else _] => destruct (Z.leb_spec a b) end;
  eexists; eexists; (split; [reflexivity|lia]).
Qed.

Lemma mp_head_str s : exists lead tl, mp_wr_str s = lead :: tl /\ lead <> 192.
Proof.
  unfold mp_wr_str.
  repeat match goal with |- context [if ?a <=? ?b then _ else _] => destruct (Z.leb_spec a b) end;
  eexists; eexists; (split; [reflexivity|lia]).
Qed.

Lemma mp_head_bin s : exists lead tl, mp_wr_bin s = lead :: tl /\ lead <> 192.
Proof.
  unfold mp_wr_bin.
  repeat match goal with |- context [if ?a <=? ?b then _ else _] => destruct (Z.leb_spec a b) end;
  eexists; eexists; (split; [reflexivity|lia]).
Qed.

Lemma mp_head_arrhdr n x : 0 <= n -> exists lead tl, mp_wr_arrhdr n ++ x = lead :: tl /\ lead <> 192.
Proof.
  intros H. unfold mp_wr_arrhdr.
  repeat match goal with |- context [if ?a <=? ?b then _ else _] => destruct (Z.leb_spec a b) end;
  eexists; eexists; (split; [reflexivity|lia]).
Qed.

Lemma mp_head_maphdr n x : 0 <= n -> exists lead tl, mp_wr_maphdr n ++ x = lead :: tl /\ lead <> 192.
Proof.
  intros H. unfold mp_wr_maphdr.
  repeat match goal with |- context [if ?a <=? ?b then _ else _] => destruct (Z.leb_spec a b) end;
  eexists; eexists; (split; [reflexivity|lia]).
Qed.

Lemma mp_wf_ty_alts_In alts k at_ :
  mp_wf_ty (TVer alts) -> In (k, at_) alts ->
  mp_wf_ty at_ /\ exists fs, at_ = TStruct fs /\ forall ft, In (mp_version_key, ft) fs -> ft = TStr.
Proof.
  cbn [mp_wf_ty]. induction alts as [|[k' a'] tl IH]; intros H Hin; [destruct Hin|].
  destruct H as [Hh Ht]. destruct Hin as [E|Hin]; [inversion E; subst; exact Hh|apply IH; assumption].
Qed.

Lemma mp_enc_head t : mp_wf_ty t -> forall v, mp_wf t v -> mp_head_ok t (mp_enc t v).
Proof.
  induction t using mp_ty_ind'; intros Ht v Hv; unfold mp_head_ok;
    destruct v; cbn [mp_wf] in Hv; try contradiction.
  - destruct b; eexists; eexists; (split; [reflexivity|]); intros _; discriminate.
  - destruct (mp_head_int z) as (l & tl & E & Hn). cbn [mp_enc]. eauto.
  - destruct (mp_head_uint z ltac:(lia)) as (l & tl & E & Hn). cbn [mp_enc]. eauto.
  - eexists; eexists; (split; [reflexivity|]); intros _; discriminate.
  - destruct (mp_head_str s) as (l & tl & E & Hn). cbn [mp_enc]. eauto.
  - destruct (mp_head_bin s) as (l & tl & E & Hn). cbn [mp_enc]. eauto.
  - cbn [mp_enc]. destruct (mp_head_arrhdr (Z.of_nat (length l)) (flat_map (mp_enc t) l) ltac:(lia)) as (a & tl & E & Hn). eauto.
  - cbn [mp_enc]. destruct (mp_head_maphdr (Z.of_nat (length l))
      (flat_map (fun kv => mp_wr_str (fst kv) ++ mp_enc t (snd kv)) l) ltac:(lia)) as (a & tl & E & Hn). eauto.
  - destruct Ht as [Ht _]. destruct o as [x|].
    + destruct (IHt Ht x Hv) as (a & tl & E & _). cbn [mp_enc]. exists a, tl. split; [exact E|]. cbn. discriminate.
    + eexists; eexists; (split; [reflexivity|]). cbn. discriminate.
  - rewrite mp_enc_struct_eq.
    destruct (mp_head_maphdr (Z.of_nat (length fs)) (mp_enc_fields fs l) ltac:(lia)) as (a & tl & E & Hn). eauto.
  - rewrite mp_enc_ver_eq. revert Hv. pose proof (fun k a => mp_wf_ty_alts_In alts k a Ht) as Hin.
    induction alts as [|[k at_] tl IH]; [intros []|].
    cbn [mp_enc_alt]. destruct (mp_key_eqb k tag).
    + intros [Hw Hver]. destruct (Hin k at_ ltac:(left; reflexivity)) as (Hta & fs & -> & _).
      inversion H as [|? ? Hhd Htl]; subst. cbn [snd] in Hhd.
      destruct (Hhd Hta v Hw) as (a & tl' & E & Hn). exists a, tl'. split; [exact E|]. intros _. apply Hn. reflexivity.
    + inversion H as [|? ? Hhd Htl]; subst. apply IH; [exact Htl| |].
      * cbn [mp_wf_ty] in Ht. destruct Ht as [_ Ht]. exact Ht.
      * intros k' a' Hi. apply (Hin k' a'). right. exact Hi.
Qed.

Lemma mp_enc_length t v : mp_wf_ty t -> mp_wf t v -> (1 <= length (mp_enc t v))%nat.
Proof.
  intros Ht Hv. destruct (mp_enc_head t Ht v Hv) as (a & tl & E & _). rewrite E. cbn. lia.
Qed.
