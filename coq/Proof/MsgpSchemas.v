(* C08: the schemas regenerated from the source tree are all inside the domain of the codec
   theorem (checked by computation on every run). *)
From ZC Require Import Model.Msgp Proof.Msgp Gen.MsgpSchema.
Open Scope Z_scope.

Lemma msgp_schemas_wfb : forallb (fun nt => mp_wf_tyb (snd nt)) msgp_schemas = true.
Proof. vm_compute. reflexivity. Qed.

Lemma msgp_schemas_wf name t : In (name, t) msgp_schemas -> mp_wf_ty t.
Proof.
  intros Hin. apply mp_wf_tyb_sound. pose proof msgp_schemas_wfb as H. rewrite forallb_forall in H.
  apply (H (name, t) Hin).
Qed.

Lemma msgp_schema_dec_enc name t : In (name, t) msgp_schemas ->
  forall v rest, mp_wf t v -> mp_dec t (mp_enc t v ++ rest) = Some (v, rest).
Proof. intros Hin v rest Hv. apply mp_dec_enc; [eapply msgp_schemas_wf; eauto|exact Hv]. Qed.

Lemma msgp_schema_canonical name t : In (name, t) msgp_schemas ->
  forall v, mp_wf t v -> exists v', mp_dec t (mp_enc t v) = Some (v', []) /\ mp_enc t v' = mp_enc t v.
Proof. intros Hin v Hv. apply mp_enc_dec_enc; [eapply msgp_schemas_wf; eauto|exact Hv]. Qed.

Lemma msgp_schema_inj name t : In (name, t) msgp_schemas ->
  forall v1 v2, mp_wf t v1 -> mp_wf t v2 -> mp_enc t v1 = mp_enc t v2 -> v1 = v2.
Proof. intros Hin v1 v2 H1 H2. apply mp_enc_inj; auto. eapply msgp_schemas_wf; eauto. Qed.
