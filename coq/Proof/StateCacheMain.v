(* C07: the statements used by Prop/C07.v, over reachable states. *)
From ZC Require Import Model.StateCache Proof.StateCache.
Open Scope Z_scope.

Lemma sc_reach_inv m ops :
  md_clone_deep m = true ->
  sc_inv (fst (sc_run (sc_init m) ops)) /\ md_clone_deep (ss_mode (fst (sc_run (sc_init m) ops))) = true.
Proof.
  intros Hd. destruct (sc_run_inv ops (sc_init m) Hd (sc_inv_init m)) as [Hi Hm].
  split; [exact Hi|]. rewrite Hm. exact Hd.
Qed.

Lemma sc_reachable_get_eq_trie :
  forall m ops k, md_clone_deep m = true ->
  let st := fst (sc_run (sc_init m) ops) in
  snd (sc_step st (SGet k)) = SOData (sc_trie_view st k).
Proof. intros m ops k Hd. cbv zeta. apply sc_get_eq_trie. apply (sc_reach_inv m ops Hd). Qed.

Lemma sc_mutate_no_effect_lemma :
  forall m ops i t k, md_clone_deep m = true ->
  let st := fst (sc_run (sc_init m) ops) in
  snd (sc_step (fst (sc_step st (SMutate i t))) (SGet k)) = snd (sc_step st (SGet k)) /\
  sc_cache_view (fst (sc_step st (SMutate i t))) k = sc_cache_view st k.
Proof.
  intros m ops i t k Hd. cbv zeta. destruct (sc_reach_inv m ops Hd) as [Hinv Hd'].
  set (st := fst (sc_run (sc_init m) ops)) in *.
  pose proof (sc_step_inv st (SMutate i t) Hd' Hinv) as Hinv'.
  split.
  - rewrite (sc_get_eq_trie _ k Hinv'), (sc_get_eq_trie _ k Hinv). f_equal.
    unfold sc_trie_view. cbn [sc_step]. destruct (nth_error (ss_handles st) i); reflexivity.
  - unfold sc_cache_view, sc_layers. cbn [sc_step]. destruct (nth_error (ss_handles st) i) as [v|] eqn:Ev; [|reflexivity].
    cbn [fst sc_upd ss_tc ss_bc ss_sc ss_heap].
    apply sc_lookup_deref_ext. intros o Ho. apply sc_deref_set_ne.
    destruct (iv_sep _ Hinv o Ho) as [_ Hne]. intros Heq. apply (Hne v (nth_error_In _ _ Ev)). auto.
Qed.

Lemma sc_reachable_discard_no_trace :
  forall m ops txn_ops, md_clone_deep m = true -> forallb sc_is_txn_op txn_ops = true ->
  let st := fst (sc_run (sc_init m) ops) in
  let st0 := fst (sc_step st SDiscardTxn) in
  let st1 := fst (sc_step (fst (sc_run st0 txn_ops)) SDiscardTxn) in
  forall k, sc_cache_view st1 k = sc_cache_view st0 k /\ sc_trie_view st1 k = sc_trie_view st0 k /\
            snd (sc_step st1 (SGet k)) = snd (sc_step st0 (SGet k)).
Proof.
  intros m ops txn_ops Hd Hops. destruct (sc_reach_inv m ops Hd) as [Hinv Hd'].
  apply sc_discard_no_trace_lemma; assumption.
Qed.

Lemma sc_shallow_clone_witness :
  let m := {| md_clone_deep := false; md_copy_deep := true |} in
  let st := fst (sc_run (sc_init m) [SInsert 1 5; SMutate 0%nat 9]) in
  snd (sc_step st (SGet 1)) = SOData (Some (5, 9)) /\ sc_trie_view st 1 = Some (5, 5).
Proof. vm_compute. split; reflexivity. Qed.
