(* Correspondence for engine E-chain (C01-C05): a case is a history of transactions run through
   the real Chain.UpdateState (in-memory MPT, script contract) with, per transaction, what the
   contract really did (the oracle result) and the observables afterwards; [cs_check] re-runs
   the model and compares outcome class, status, output token, canonical events and the full
   sorted leaf listing (client leaves and contract nodes). *)
From ZC Require Import Base.Corr Model.ChainState.
Open Scope Z_scope.

Definition cs_A := Build_cs_acct.
Definition cs_T := Build_cs_transfer.
Definition cs_X := Build_cs_txn.

Inductive cs_obs :=
| ObsApplied (status : Z) (out : option Z) (evs : list cs_event)
| ObsRejected (cls : Z)     (* 0 = wrong nonce, 4 = any other reason (the properties do not
                               distinguish the other reasons, so neither does the comparison) *)
| ObsPanic.

(* per transaction: observation, the client leaves that differ from the listing before the
   transaction (the full sorted listing is compared: previous listing + these), the full sorted
   listing of contract nodes afterwards, every node write the contract performed while it ran
   (also when it then failed), and every node read it performed through StateContext.GetTrieNode
   (i.e. through transaction cache / block cache / state cache): (number of own writes before the
   read, key, value seen) *)
Record cs_step_obs := {
  so_obs : cs_obs;
  so_changed : list (Z * cs_acct);
  so_nodes : list (Z * Z);
  so_attempted : list (Z * option Z);
  so_reads : list (nat * Z * option Z) }.
Definition cs_SO := Build_cs_step_obs.

Record cs_case := {
  csc_cfg : cs_cfg;
  csc_init : cs_state;
  csc_items : list cs_item;
  csc_obs : list cs_step_obs
}.

(* what a contract reads: the committed nodes before its transaction, overlaid with the writes it
   has made itself so far - never anything an earlier failed or rejected call wrote *)
Definition cs_reads_ok (nodes : list (Z * Z)) (attempted : list (Z * option Z))
           (reads : list (nat * Z * option Z)) : bool :=
  forallb (fun rd => match rd with
                     | (pos, k, seen) =>
                         option_eqb Z.eqb (cs_get k (cs_apply_writes (firstn pos attempted) nodes)) seen
                     end) reads.

Definition cs_err_class (e : cs_err) : Z :=
  match e with ErrNonce => 0 | _ => 4 end.

Definition cs_acct_eqb (a b : cs_acct) : bool :=
  (ac_bal a =? ac_bal b) && (ac_nonce a =? ac_nonce b) && (ac_txn a =? ac_txn b) && (ac_round a =? ac_round b).

Definition cs_state_eqb (a b : cs_state) : bool :=
  list_eqb (pair_eqb Z.eqb cs_acct_eqb) (st_accts a) (st_accts b) &&
  list_eqb zz_eqb (st_nodes a) (st_nodes b).

Definition cs_event_eqb (a b : cs_event) : bool :=
  match a, b with
  | EvScript x, EvScript y => x =? y
  | EvError x, EvError y => x =? y
  | EvUnique, EvUnique => true
  | EvUser i b1 n1, EvUser j b2 n2 => (i =? j) && (b1 =? b2) && (n1 =? n2)
  | _, _ => false
  end.

Definition cs_obs_matches (o : cs_outcome) (ob : cs_obs) : bool :=
  match o, ob with
  | Applied _ s out evs, ObsApplied s' out' evs' =>
      (s =? s') && option_eqb Z.eqb out out' && list_eqb cs_event_eqb evs evs'
  | Rejected e, ObsRejected c => cs_err_class e =? c
  | Panicked, ObsPanic => true
  | _, _ => false
  end.

Fixpoint cs_check_from (cfg : cs_cfg) (st : cs_state) (items : list cs_item)
         (obs : list cs_step_obs) : bool :=
  match items, obs with
  | [], [] => true
  | (round, tx, r) :: tl, so :: otl =>
      let ob := so_obs so in
      let changed := so_changed so in
      let nodes := so_nodes so in
      let o := cs_update_state cfg st round tx r in
      let st' := cs_post st o in
      (* [st] equals the implementation's listing before this transaction (checked at the
         previous step; the initial listing is given in full) *)
      let after := {| st_accts := fold_left (fun m p => cs_put (fst p) (snd p) m) changed (st_accts st);
                      st_nodes := nodes |} in
      cs_obs_matches o ob && cs_state_eqb st' after &&
      cs_reads_ok (st_nodes st) (so_attempted so) (so_reads so) && cs_check_from cfg st' tl otl
  | _, _ => false
  end.

Definition cs_check (c : cs_case) : bool :=
  cs_check_from (csc_cfg c) (csc_init c) (csc_items c) (csc_obs c).

(* genesis cases: the distribution handed to mustInitGBState and the leaves it produced
   (None = the code panicked) *)
Record cs_gen_case := { csg_groups : list cs_init_group; csg_leaves : option (list (Z * cs_acct)) }.

Definition cs_gen_check (c : cs_gen_case) : bool :=
  option_eqb (list_eqb (pair_eqb Z.eqb cs_acct_eqb)) (cs_genesis (csg_groups c)) (csg_leaves c).

(* miner.validateTransaction cases *)
Record cs_cls_case := { csv_state : option Z; csv_txn : Z; csv_cls : Z }.  (* 0 current 1 future 2 past *)
Definition cs_cls_check (c : cs_cls_case) : bool :=
  (match cs_classify (csv_state c) (csv_txn c) with ClsCurrent => 0 | ClsFuture => 1 | ClsPast => 2 end)
  =? csv_cls c.

(* one case type for the engine's single cases file *)
Inductive cs_any_case := CaseHist (c : cs_case) | CaseGen (c : cs_gen_case) | CaseCls (c : cs_cls_case).
Definition cs_any_check (c : cs_any_case) : bool :=
  match c with CaseHist c => cs_check c | CaseGen c => cs_gen_check c | CaseCls c => cs_cls_check c end.
