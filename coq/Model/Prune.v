(* Model of state pruning (property C27): the ChangeCollector of a block's trie
   (github.com/0chain/common core/util mpt_node_change.go), the dead-node recording of
   chain.finalizeBlock, chain.pruneClientState's choice of the version and
   PNodeDB.PruneBelowVersion.  Definitions only.

   A node hash is a pair (origin, id): every trie node hashes its origin, the round of the
   block that created it (insertNode sets it to the trie version), together with its content. *)
From Coq Require Export List ZArith Bool Arith Lia.
Export ListNotations.
Open Scope Z_scope.

Definition pr_hash : Type := (Z * Z)%type.
Definition pr_heqb (a b : pr_hash) : bool := Z.eqb (fst a) (fst b) && Z.eqb (snd a) (snd b).
Definition pr_mem (h : pr_hash) (l : list pr_hash) : bool := existsb (pr_heqb h) l.
Definition pr_remove (h : pr_hash) (l : list pr_hash) : list pr_hash := filter (fun x => negb (pr_heqb h x)) l.
Definition pr_diff (l r : list pr_hash) : list pr_hash := filter (fun x => negb (pr_mem x r)) l.
Definition pr_subset (l r : list pr_hash) : bool := forallb (fun x => pr_mem x r) l.
Definition pr_disjoint (l r : list pr_hash) : bool := forallb (fun x => negb (pr_mem x r)) l.

(* ---------- ChangeCollector ---------- *)

(* Changes: new hash -> old (None when the node had no predecessor); Deletes: set of hashes *)
Record pr_cc := { cc_changes : list (pr_hash * option pr_hash); cc_deletes : list pr_hash }.
Definition cc_empty : pr_cc := {| cc_changes := []; cc_deletes := [] |}.

Fixpoint cc_find (h : pr_hash) (l : list (pr_hash * option pr_hash)) : option (option pr_hash) :=
  match l with
  | [] => None
  | (k, o) :: tl => if pr_heqb k h then Some o else cc_find h tl
  end.
Definition cc_drop (h : pr_hash) (l : list (pr_hash * option pr_hash)) : list (pr_hash * option pr_hash) :=
  filter (fun ko => negb (pr_heqb (fst ko) h)) l.

(* AddChange(oldNode, newNode) *)
Definition cc_add (c : pr_cc) (old : option pr_hash) (new : pr_hash) : pr_cc :=
  let dels := pr_remove new (cc_deletes c) in           (* delete(cc.Deletes, nhash) *)
  match old with
  | None => {| cc_changes := (new, None) :: cc_drop new (cc_changes c); cc_deletes := dels |}
  | Some o =>
      match cc_find o (cc_changes c) with
      | Some prev_old =>                                  (* the old node was created in this block *)
          let ch := cc_drop o (cc_changes c) in
          match prev_old with
          | Some po => if pr_heqb new po then {| cc_changes := ch; cc_deletes := dels |}   (* back to the original *)
                       else {| cc_changes := (new, prev_old) :: cc_drop new ch; cc_deletes := dels |}
          | None => {| cc_changes := (new, prev_old) :: cc_drop new ch; cc_deletes := dels |}
          end
      | None =>
          {| cc_changes := (new, Some o) :: cc_drop new (cc_changes c);
             cc_deletes := o :: pr_remove o dels |}
      end
  end.

(* DeleteChange(oldNode) *)
Definition cc_del (c : pr_cc) (old : pr_hash) : pr_cc :=
  match cc_find old (cc_changes c) with
  | Some _ => {| cc_changes := cc_drop old (cc_changes c); cc_deletes := cc_deletes c |}
  | None => {| cc_changes := cc_changes c; cc_deletes := old :: pr_remove old (cc_deletes c) |}
  end.

Inductive pr_micro := McAdd (old : option pr_hash) (new : pr_hash) | McDel (old : pr_hash).

Definition cc_step (c : pr_cc) (m : pr_micro) : pr_cc :=
  match m with McAdd o n => cc_add c o n | McDel o => cc_del c o end.
Definition cc_run (ms : list pr_micro) : pr_cc := fold_left cc_step ms cc_empty.

(* the trie's live node set under the same calls: insertNode(old, new) / deleteNode(old) *)
Definition pr_live_step (live : list pr_hash) (m : pr_micro) : list pr_hash :=
  match m with
  | McAdd (Some o) n => n :: pr_remove n (pr_remove o live)
  | McAdd None n => n :: pr_remove n live
  | McDel o => pr_remove o live
  end.
Definition pr_live_run (live : list pr_hash) (ms : list pr_micro) : list pr_hash := fold_left pr_live_step ms live.

(* a call is meaningful when it replaces/deletes a node that is live, by a different node *)
Definition pr_micro_ok (live : list pr_hash) (m : pr_micro) : bool :=
  match m with
  | McAdd (Some o) n => pr_mem o live && negb (pr_heqb o n)
  | McAdd None _ => true
  | McDel o => pr_mem o live
  end.
Fixpoint pr_micros_ok (live : list pr_hash) (ms : list pr_micro) : bool :=
  match ms with
  | [] => true
  | m :: tl => pr_micro_ok live m && pr_micros_ok (pr_live_step live m) tl
  end.

(* ---------- the chain: finalize and prune ---------- *)

Record pr_block := { pb_round : Z; pb_nodes : list pr_hash }.   (* a finalized block and its state's node set *)

Record pr_state := {
  ps_db : list pr_hash;                 (* persistent node DB *)
  ps_dead : list (Z * list pr_hash);    (* dead-node records: round -> hashes *)
  ps_ring : list Z;                     (* rounds of the finalized block summaries, latest first (c.BlockChain) *)
  ps_lfb : Z;                           (* round of the latest finalized block *)
  ps_blocks : list pr_block;            (* the finalized chain, latest first (bookkeeping of the model) *)
  ps_pruned : Z                         (* highest version PruneBelowVersion was called with (bookkeeping) *)
}.

Definition pr_init (lfb : Z) : pr_state :=
  {| ps_db := []; ps_dead := []; ps_ring := []; ps_lfb := lfb; ps_blocks := []; ps_pruned := lfb |}.

(* finalizeBlock: SaveChanges writes the new nodes, RecordDeadNodes(deletes, fb.Round) REPLACES
   the record of that round (also when the round is finalized a second time after a roll back),
   the summary enters the ring, the block becomes the LFB *)
Definition pr_finalize (s : pr_state) (r : Z) (adds dels nodes : list pr_hash) : pr_state :=
  {| ps_db := adds ++ ps_db s;
     ps_dead := (r, dels) :: filter (fun rd => negb (Z.eqb (fst rd) r)) (ps_dead s);
     ps_ring := r :: ps_ring s;
     ps_lfb := r;
     ps_blocks := {| pb_round := r; pb_nodes := nodes |} :: ps_blocks s;
     ps_pruned := ps_pruned s |}.

(* finalizeRound recovering from an incorrectly finalized fork: the LFB goes back to the common
   ancestor (round r0); node DB, dead-node records and the summary ring stay as they are *)
Definition pr_rollback (s : pr_state) (r0 : Z) : pr_state :=
  {| ps_db := ps_db s; ps_dead := ps_dead s; ps_ring := ps_ring s; ps_lfb := r0;
     ps_blocks := filter (fun b => pb_round b <=? r0) (ps_blocks s);
     ps_pruned := ps_pruned s |}.

(* pruneClientState's choice: start count-1 summaries behind the LFB, walk back to a round
   that is a multiple of 100 (or the oldest summary there is); abandon when that is within
   count rounds of the LFB.  None = nothing is pruned. *)
Fixpoint pr_walk (ring : list Z) (cur : Z) : Z :=
  if Z.eqb (cur mod 100) 0 then cur
  else match ring with
       | [] => cur
       | r :: tl => pr_walk tl r
       end.

Definition pr_version (s : pr_state) (count : Z) : option Z :=
  if ps_lfb s <=? count then None
  else match skipn (Z.to_nat (count - 1)) (ps_ring s) with
       | [] => None                                   (* no summary there: version = LFB round, abandoned *)
       | r :: tl =>
           let v := pr_walk tl r in
           if ps_lfb s - count <? v then None else Some v
       end.

(* PNodeDB.PruneBelowVersion *)
Definition pr_prune_below (s : pr_state) (v : Z) : pr_state :=
  let gone := flat_map (fun rd => if fst rd <? v then snd rd else []) (ps_dead s) in
  {| ps_db := pr_diff (ps_db s) gone;
     ps_dead := filter (fun rd => negb (fst rd <? v)) (ps_dead s);
     ps_ring := ps_ring s; ps_lfb := ps_lfb s; ps_blocks := ps_blocks s;
     ps_pruned := Z.max (ps_pruned s) v |}.

Definition pr_prune (s : pr_state) (count : Z) : pr_state :=
  match pr_version s count with Some v => pr_prune_below s v | None => s end.

(* the observable: full iteration of a block's state succeeds *)
Definition pr_readable (s : pr_state) (b : pr_block) : bool := pr_subset (pb_nodes b) (ps_db s).

(* ---------- histories ---------- *)

Inductive pr_op :=
| OpBlock (r : Z) (add_ids : list Z) (dels nodes : list pr_hash)   (* new nodes get origin r *)
| OpPrune
| OpRollback (r0 : Z).

Definition pr_adds (r : Z) (ids : list Z) : list pr_hash := map (fun i => (r, i)) ids.

Definition pr_apply (count : Z) (s : pr_state) (o : pr_op) : pr_state :=
  match o with
  | OpBlock r ids dels nodes => pr_finalize s r (pr_adds r ids) dels nodes
  | OpPrune => pr_prune s count
  | OpRollback r0 => pr_rollback s r0
  end.
Definition pr_run (count : Z) (s : pr_state) (ops : list pr_op) : pr_state := fold_left (pr_apply count) ops s.

(* what the trie and the round protocol guarantee (checked on the real code by the engine):
   rounds grow and no round that still has a dead-node record of an abandoned fork is skipped;
   every node of the new state was in the previous state or is new, nothing recorded dead is part
   of the new state or younger than the block; a roll back goes to a block of the chain that is
   not below what was pruned *)
Definition pr_prev_nodes (s : pr_state) : list pr_hash :=
  match ps_blocks s with b :: _ => pb_nodes b | [] => [] end.

Definition pr_op_ok (s : pr_state) (o : pr_op) : bool :=
  match o with
  | OpBlock r ids dels nodes =>
      (ps_lfb s <? r) &&
      forallb (fun rd => (fst rd <=? ps_lfb s) || (r <=? fst rd)) (ps_dead s) &&
      forallb (fun h => pr_mem h (pr_prev_nodes s) || pr_mem h (pr_adds r ids)) nodes &&
      pr_disjoint dels nodes &&
      forallb (fun h => fst h <=? r) dels
  | OpPrune => true
  | OpRollback r0 =>
      (ps_pruned s <=? r0) && (r0 <=? ps_lfb s) &&
      match filter (fun b => pb_round b <=? r0) (ps_blocks s) with
      | b :: _ => pb_round b =? r0
      | [] => true
      end
  end.
Fixpoint pr_ops_ok (count : Z) (s : pr_state) (ops : list pr_op) : bool :=
  match ops with
  | [] => true
  | o :: tl => pr_op_ok s o && pr_ops_ok count (pr_apply count s o) tl
  end.
