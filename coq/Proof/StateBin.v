(* Proofs about the client state binary layout (property C08). *)
From ZC Require Import Model.StateBin.
From Coq Require Import ZifyBool ZifyNat.
Open Scope Z_scope.

Lemma sb_le_length n : forall z, length (sb_le n z) = n.
Proof. induction n as [|n IH]; intros z; cbn; [reflexivity|]. rewrite IH. reflexivity. Qed.

Lemma sb_unle_le n : forall z, sb_unle (sb_le n z) = z mod 2 ^ (8 * Z.of_nat n).
Proof.
  induction n as [|n IH]; intros z.
  - cbn. rewrite Z.mod_1_r. reflexivity.
  - cbn [sb_le sb_unle]. rewrite IH.
    replace (8 * Z.of_nat (S n)) with (8 + 8 * Z.of_nat n) by lia.
    rewrite Z.pow_add_r by lia. change (2 ^ 8) with 256.
    rewrite Z.rem_mul_r by (try lia; apply Z.pow_pos_nonneg; lia). reflexivity.
Qed.

Lemma sb_u64 z : 0 <= z < 2 ^ 64 -> sb_unle (sb_le 8 z) = z.
Proof. intros H. rewrite sb_unle_le. change (8 * Z.of_nat 8) with 64. apply Z.mod_small. exact H. Qed.

Lemma sb_i64 z : - 2 ^ 63 <= z < 2 ^ 63 -> sb_signed64 (sb_unle (sb_le 8 z)) = z.
Proof.
  intros H. rewrite sb_unle_le. change (8 * Z.of_nat 8) with 64. unfold sb_signed64.
  change (2 ^ 63) with 9223372036854775808 in *. change (2 ^ 64) with 18446744073709551616.
  destruct (Z.lt_ge_cases z 0).
  - replace (z mod 18446744073709551616) with (z + 18446744073709551616).
    + destruct (Z.ltb_spec (z + 18446744073709551616) 9223372036854775808); lia.
    + symmetry. rewrite <- (Z.mod_add z 1) by lia. rewrite Z.mul_1_l. apply Z.mod_small. lia.
  - rewrite Z.mod_small by lia. destruct (Z.ltb_spec z 9223372036854775808); lia.
Qed.

Lemma sb_firstn_app {A} (l l' : list A) n : n = length l -> firstn n (l ++ l') = l.
Proof. intros ->. induction l; cbn; [reflexivity|]. f_equal. assumption. Qed.
Lemma sb_skipn_app {A} (l l' : list A) n : n = length l -> skipn n (l ++ l') = l'.
Proof. intros ->. induction l; cbn; auto. Qed.

Definition sb_wf (s : sb_state) : Prop :=
  (exists h, sb_hash s = Some h /\ length h = 32%nat) /\
  - 2 ^ 63 <= sb_round s < 2 ^ 63 /\ 0 <= sb_balance s < 2 ^ 64 /\ - 2 ^ 63 <= sb_nonce s < 2 ^ 63.

(* with the guard (a 32-byte transaction hash) the inner decoder inverts Encode, also with trailing bytes *)
Lemma sb_decode_lax_encode s extra : sb_wf s ->
  exists b, sb_encode s = SbBytes b /\ sb_decode_lax (b ++ extra) = Some s.
Proof.
  intros ((h & Hh & Hl) & Hr & Hb & Hn). destruct s as [hash r bal n]. cbn [sb_hash sb_round sb_balance sb_nonce] in *.
  subst hash. unfold sb_encode. cbn [sb_hash sb_round sb_balance sb_nonce]. eexists. split; [reflexivity|].
  unfold sb_decode_lax. rewrite <- !app_assoc.
  destruct (Nat.ltb_spec (length (h ++ sb_le 8 r ++ sb_le 8 bal ++ sb_le 8 n ++ extra)) 32) as [Hlt|_];
    [rewrite app_length in Hlt; lia|].
  rewrite sb_firstn_app, sb_skipn_app by (symmetry; exact Hl).
  destruct (Nat.ltb_spec (length (sb_le 8 r ++ sb_le 8 bal ++ sb_le 8 n ++ extra)) 24) as [Hlt|_];
    [rewrite !app_length, !sb_le_length in Hlt; lia|].
  rewrite sb_firstn_app by (rewrite sb_le_length; reflexivity).
  replace (skipn 8 (sb_le 8 r ++ sb_le 8 bal ++ sb_le 8 n ++ extra)) with (sb_le 8 bal ++ sb_le 8 n ++ extra)
    by (symmetry; apply sb_skipn_app; rewrite sb_le_length; reflexivity).
  replace (skipn 16 (sb_le 8 r ++ sb_le 8 bal ++ sb_le 8 n ++ extra)) with (sb_le 8 n ++ extra).
  2:{ symmetry. rewrite app_assoc. apply sb_skipn_app. rewrite app_length, !sb_le_length. reflexivity. }
  rewrite !sb_firstn_app by (rewrite sb_le_length; reflexivity).
  rewrite sb_i64 by exact Hr. rewrite sb_u64 by exact Hb. rewrite sb_i64 by exact Hn. reflexivity.
Qed.

(* the bytes of a guarded state are exactly 56 *)
Lemma sb_encode_length s b : sb_wf s -> sb_encode s = SbBytes b -> length b = 56%nat.
Proof.
  intros ((h & Hh & Hl) & _) E. unfold sb_encode in E. rewrite Hh in E. injection E as <-.
  rewrite !app_length, Hl. reflexivity.
Qed.

(* Decode (exact size) inverts Encode on guarded states *)
Lemma sb_decode_encode s : sb_wf s ->
  exists b, sb_encode s = SbBytes b /\ sb_decode b = Some s.
Proof.
  intros H. destruct (sb_decode_lax_encode s [] H) as (b & E & D). exists b. split; [exact E|].
  rewrite app_nil_r in D. unfold sb_decode. rewrite (sb_encode_length s b H E). cbn. exact D.
Qed.

(* and nothing of another size is a client state (fix 8b489e6: a contract node read at an account path is refused) *)
Lemma sb_decode_exact_size b : length b <> 56%nat -> sb_decode b = None.
Proof. intros H. unfold sb_decode. destruct (Nat.eqb_spec (length b) 56); [contradiction|reflexivity]. Qed.

(* Encode is injective on guarded states: equal leaves have equal bytes only if equal *)
Lemma sb_encode_inj s1 s2 : sb_wf s1 -> sb_wf s2 -> sb_encode s1 = sb_encode s2 -> s1 = s2.
Proof.
  intros H1 H2 E. destruct (sb_decode_encode s1 H1) as (b1 & E1 & D1).
  destruct (sb_decode_encode s2 H2) as (b2 & E2 & D2).
  rewrite E, E2 in E1. inversion E1. subst. rewrite D1 in D2. inversion D2. reflexivity.
Qed.
