(* C26: Stored blocks and block databases read back exactly.
   Only statements; each is closed by [exact] of a lemma in Proof/BlockDB.v.
   [ws] is the sequence of WriteData calls (key, encoded record); [comp]/[decomp] stand for the
   compression library (assumed to round trip), [c] is the compress flag, [sh] the stored
   dbHeader bytes.  [bd_ws_ok]: keys have the configured length, every stored record is shorter
   than 2^31 bytes, the index fits an int32 and the data file is shorter than 2^63 bytes. *)
From ZC Require Import Model.BlockDB Proof.BlockDB Gen.BlockDBLoop Proof.BlockDBSrc.
Open Scope Z_scope.

(* After Create; WriteData*; Save; Open: the header reads back and every key that was written
   returns the record most recently written under it (the lookup loop ends within bd_fuel). *)
Theorem C26_read_after_save_open :
  forall comp decomp, (forall x, decomp (comp x) = Some x) ->
  forall klen c ws sh,
    let sws := bd_stored_ws comp c ws in
    let db := bd_write_all bd_create sws in
    bd_ws_ok klen sws ->
    bd_open klen (bd_header_file db sh) = BdOpened (bd_index_body (bd_idx db)) sh /\
    forall key p fuel, bd_last_written ws key = Some p ->
      (bd_fuel (bd_index_body (bd_idx db)) klen <= fuel)%nat ->
      bd_read fuel klen (bd_index_body (bd_idx db)) (bd_data db) key = BdRec (bd_store comp c p) /\
      bd_read_rec decomp c (bd_read fuel klen (bd_index_body (bd_idx db)) (bd_data db) key) = Some p.
Proof. exact bd_read_after_save_open. Qed.
Print Assumptions C26_read_after_save_open.

(* A key that was never written is reported not-found (never a hang, never another record),
   within numKeys + 2 iterations, by the loop that the source tree contains ([bd_read_src]
   follows Gen/BlockDBLoop.v, regenerated from sharder/blockdb/index.go on every run). *)
Theorem C26_absent_key_not_found :
  forall comp klen c ws,
    let sws := bd_stored_ws comp c ws in
    let db := bd_write_all bd_create sws in
    let buf := bd_index_body (bd_idx db) in
    bd_ws_ok klen sws -> forall key, bd_last_written ws key = None ->
    forall fuel, (bd_fuel buf klen <= fuel)%nat -> bd_read_src fuel klen buf (bd_data db) key = BdReadNotFound.
Proof. exact bd_src_absent_full. Qed.
Print Assumptions C26_absent_key_not_found.

(* ---- History (F-26, fixed in the source tree by d8db4fe).  The following four theorems are
   about [bd_get_go]/[bd_read], the loop as it was before the fix (`break` inside the `switch`);
   they document why the fix was needed and are not statements about the current source. ---- *)

(* The full statement for keys that were never written, for the loop before the fix. *)
Definition C26_break_in_switch_absent_key_statement : Prop :=
  forall klen sws key, bd_ws_ok klen sws -> bd_last_written sws key = None ->
    let db := bd_write_all bd_create sws in
    exists fuel, bd_read fuel klen (bd_index_body (bd_idx db)) (bd_data db) key = BdReadNotFound.

(* It was false of that loop: with one stored key, looking up a different key never
   returns (the `break` inside the `switch` leaves the loop state unchanged): no fuel suffices. *)
Theorem C26_break_in_switch_loop_fails_statement : ~ C26_break_in_switch_absent_key_statement.
Proof. exact bd_absent_statement_refuted. Qed.
Print Assumptions C26_break_in_switch_loop_fails_statement.

Theorem C26_break_in_switch_loop_diverges :
  forall fuel, bd_get_offset fuel (bd_index_body [([5], 0)]) 1 [7] = BdOutOfFuel.
Proof. exact bd_w_diverges. Qed.
Print Assumptions C26_break_in_switch_loop_diverges.

(* Running out of fuel at bd_fuel = numKeys + 2 means that no fuel suffices, i.e. the Go loop
   does not return (what the engine observes as a timeout). *)
Theorem C26_out_of_fuel_is_divergence :
  forall buf klen key, bd_get_offset (bd_fuel buf klen) buf klen key = BdOutOfFuel ->
    forall fuel, bd_get_offset fuel buf klen key = BdOutOfFuel.
Proof. exact bd_timeout_is_divergence. Qed.
Print Assumptions C26_out_of_fuel_is_divergence.

(* What held of that loop for a key that was never written: it never returns another
   record, and it returns not-found unless the loop is stuck. *)
Theorem C26_break_in_switch_loop_never_a_record :
  forall comp klen c ws key,
    let sws := bd_stored_ws comp c ws in
    let db := bd_write_all bd_create sws in
    let buf := bd_index_body (bd_idx db) in
    bd_ws_ok klen sws -> bd_last_written ws key = None ->
    (forall fuel, bd_read fuel klen buf (bd_data db) key = BdReadNotFound \/
                  bd_read fuel klen buf (bd_data db) key = BdReadFuel) /\
    (bd_get_offset (bd_fuel buf klen) buf klen key <> BdOutOfFuel ->
     forall fuel, (bd_fuel buf klen <= fuel)%nat -> bd_read fuel klen buf (bd_data db) key = BdReadNotFound).
Proof. exact bd_absent_partial. Qed.
Print Assumptions C26_break_in_switch_loop_never_a_record.

(* With the repair (the `break`s leave the loop) the full statement holds, and present keys
   read exactly as before. *)
Theorem C26_absent_key_not_found_repaired :
  forall comp klen c ws,
    let sws := bd_stored_ws comp c ws in
    let db := bd_write_all bd_create sws in
    let buf := bd_index_body (bd_idx db) in
    bd_ws_ok klen sws -> forall key fuel, bd_last_written ws key = None ->
    (bd_fuel buf klen <= fuel)%nat -> bd_read_fix fuel klen buf (bd_data db) key = BdReadNotFound.
Proof. exact bd_absent_not_found_repaired. Qed.
Print Assumptions C26_absent_key_not_found_repaired.

Theorem C26_present_key_repaired :
  forall comp decomp, (forall x, decomp (comp x) = Some x) ->
  forall klen c ws (sh : list Z),
    let sws := bd_stored_ws comp c ws in
    let db := bd_write_all bd_create sws in
    bd_ws_ok klen sws ->
    forall key p fuel, bd_last_written ws key = Some p ->
      (bd_fuel (bd_index_body (bd_idx db)) klen <= fuel)%nat ->
      bd_read_fix fuel klen (bd_index_body (bd_idx db)) (bd_data db) key = BdRec (bd_store comp c p).
Proof. exact bd_present_repaired. Qed.
Print Assumptions C26_present_key_repaired.

(* The two results above for the loop that the source tree contains (bd_loop_repaired is
   regenerated from sharder/blockdb/index.go by the translator on every run): written keys read
   back; never-written keys are reported not-found if the breaks leave the loop, and otherwise
   are at least never answered with a record. *)
Theorem C26_source_loop_present :
  forall comp decomp, (forall x, decomp (comp x) = Some x) ->
  forall klen c ws (sh : list Z),
    let sws := bd_stored_ws comp c ws in
    let db := bd_write_all bd_create sws in
    bd_ws_ok klen sws ->
    forall key p fuel, bd_last_written ws key = Some p ->
      (bd_fuel (bd_index_body (bd_idx db)) klen <= fuel)%nat ->
      bd_read_src fuel klen (bd_index_body (bd_idx db)) (bd_data db) key = BdRec (bd_store comp c p).
Proof. exact bd_src_present. Qed.
Print Assumptions C26_source_loop_present.

Theorem C26_source_loop_absent :
  forall comp klen c ws,
    let sws := bd_stored_ws comp c ws in
    let db := bd_write_all bd_create sws in
    let buf := bd_index_body (bd_idx db) in
    bd_ws_ok klen sws -> forall key, bd_last_written ws key = None ->
    if bd_loop_repaired
    then forall fuel, (bd_fuel buf klen <= fuel)%nat -> bd_read_src fuel klen buf (bd_data db) key = BdReadNotFound
    else forall fuel, bd_read_src fuel klen buf (bd_data db) key = BdReadNotFound \/
                      bd_read_src fuel klen buf (bd_data db) key = BdReadFuel.
Proof. exact bd_src_absent. Qed.
Print Assumptions C26_source_loop_absent.

(* A crash at any point of the write sequence leaves a prefix of the data file and a prefix of
   the header file (the header is written by Save after all data; the statement allows any
   pair of prefixes).  Open never panics; it fails, or it yields the saved index, and then every
   Read that succeeds returns the record most recently written under that key. *)
Theorem C26_crash_prefix_safe :
  forall comp decomp, (forall x, decomp (comp x) = Some x) ->
  forall klen c ws sh,
    let sws := bd_stored_ws comp c ws in
    let db := bd_write_all bd_create sws in
    bd_ws_ok klen sws ->
    forall d' h', bd_prefix d' (bd_data db) -> bd_prefix h' (bd_header_file db sh) ->
    match bd_open klen h' with
    | BdOpenPanic => False
    | BdOpenErr => True
    | BdOpened buf rest =>
        buf = bd_index_body (bd_idx db) /\ bd_prefix rest sh /\
        forall fuel key s, bd_read fuel klen buf d' key = BdRec s ->
          exists p, bd_last_written ws key = Some p /\ s = bd_store comp c p /\
                    bd_read_rec decomp c (BdRec s) = Some p
    end.
Proof. exact bd_crash_prefix_safe. Qed.
Print Assumptions C26_crash_prefix_safe.

(* The same for the loop that the source tree contains. *)
Theorem C26_crash_prefix_safe_source_loop :
  forall comp decomp, (forall x, decomp (comp x) = Some x) ->
  forall klen c ws sh,
    let sws := bd_stored_ws comp c ws in
    let db := bd_write_all bd_create sws in
    bd_ws_ok klen sws ->
    forall d' h', bd_prefix d' (bd_data db) -> bd_prefix h' (bd_header_file db sh) ->
    match bd_open klen h' with
    | BdOpenPanic => False
    | BdOpenErr => True
    | BdOpened buf rest =>
        buf = bd_index_body (bd_idx db) /\ bd_prefix rest sh /\
        forall fuel key s, bd_read_src fuel klen buf d' key = BdRec s ->
          exists p, bd_last_written ws key = Some p /\ s = bd_store comp c p /\
                    bd_read_rec decomp c (BdRec s) = Some p
    end.
Proof. exact bd_src_crash_prefix_safe. Qed.
Print Assumptions C26_crash_prefix_safe_source_loop.

(* Create does not truncate.  When the path holds a data file [old] left by a writer that died
   before Save (and no header file), the second attempt still reads back exactly: the new bytes
   replace the beginning of [old], offsets are taken from the file position. *)
Theorem C26_recreate_read_after_save_open :
  forall comp decomp, (forall x, decomp (comp x) = Some x) ->
  forall klen c ws (sh : list Z) old,
    let sws := bd_stored_ws comp c ws in
    let db := bd_write_all bd_create sws in
    bd_ws_ok klen sws ->
    forall key p fuel, bd_last_written ws key = Some p ->
      (bd_fuel (bd_index_body (bd_idx db)) klen <= fuel)%nat ->
      bd_read_src fuel klen (bd_index_body (bd_idx db)) (bd_data_over old (bd_data db)) key
      = BdRec (bd_store comp c p).
Proof. exact bd_src_recreate_present. Qed.
Print Assumptions C26_recreate_read_after_save_open.

(* ... and a crash of the second attempt is safe as well: the header is written after all the
   data, so either there is no header yet (Open fails) or the new data is complete. *)
Theorem C26_recreate_crash_prefix_safe :
  forall comp decomp, (forall x, decomp (comp x) = Some x) ->
  forall klen c ws sh old,
    let sws := bd_stored_ws comp c ws in
    let db := bd_write_all bd_create sws in
    bd_ws_ok klen sws ->
    forall d' h', bd_prefix d' (bd_data db) -> bd_prefix h' (bd_header_file db sh) ->
    (h' <> [] -> d' = bd_data db) ->
    match bd_open klen h' with
    | BdOpenPanic => False
    | BdOpenErr => True
    | BdOpened buf rest =>
        buf = bd_index_body (bd_idx db) /\ bd_prefix rest sh /\
        forall fuel key s, bd_read_src fuel klen buf (bd_data_over old d') key = BdRec s ->
          exists p, bd_last_written ws key = Some p /\ s = bd_store comp c p /\
                    bd_read_rec decomp c (BdRec s) = Some p
    end.
Proof. exact bd_src_recreate_crash_prefix_safe. Qed.
Print Assumptions C26_recreate_crash_prefix_safe.

(* Block store (one compressed msgpack file per block hash): a block read by hash is the block
   most recently written under that hash (its own or, for a magic-block starting round, the
   magic block's), for every sequence of writes; [blk_enc]/[blk_dec] stand for the msgpack
   codec of block.Block, assumed to round trip like the compression. *)
Theorem C26_block_store_read_after_write :
  forall comp decomp, (forall x, decomp (comp x) = Some x) ->
  forall (blk : Type) (blk_hash : blk -> list Z) (blk_mb_hash : blk -> option (list Z))
         (blk_enc : blk -> list Z) (blk_dec : list Z -> option blk),
    (forall b, blk_dec (blk_enc b) = Some b) ->
    forall bs h,
      bs_read decomp blk blk_dec (fold_left (bs_write comp blk blk_hash blk_mb_hash blk_enc) bs []) h
      = bs_last blk blk_hash blk_mb_hash bs h.
Proof. exact bs_read_after_writes. Qed.
Print Assumptions C26_block_store_read_after_write.

(* Non-vacuity: three records (one key written twice) with key length 2; the saved files, the
   reopened index, a present key, an absent key that is reported and one that spins. *)
Example C26_example :
  let ws := [([2; 9], [1; 2; 3]); ([1; 7], []); ([2; 9], [4; 4])] in
  let db := bd_write_all bd_create ws in
  let buf := bd_index_body (bd_idx db) in
  bd_ws_ok 2 ws /\
  bd_data db = [3;0;0;0; 1;2;3;  0;0;0;0;  2;0;0;0; 4;4] /\
  bd_header_file db [] = [2;0;0;0;  2; 1;7; 7;0;0;0;0;0;0;0;  2; 2;9; 11;0;0;0;0;0;0;0] /\
  bd_open 2 (bd_header_file db []) = BdOpened buf [] /\
  bd_read 4 2 buf (bd_data db) [2; 9] = BdRec [4; 4] /\
  bd_read 4 2 buf (bd_data db) [1; 7] = BdRec [] /\
  bd_read 4 2 buf (bd_data db) [0; 0] = BdReadNotFound /\
  bd_read 4 2 buf (bd_data db) [3; 0] = BdReadFuel /\
  bd_read_fix 4 2 buf (bd_data db) [3; 0] = BdReadNotFound.
Proof.
  cbv zeta. split; [|vm_compute; repeat split; reflexivity].
  unfold bd_ws_ok. split; [|split; [|split]].
  - intros w [<-|[<-|[<-|[]]]]; reflexivity.
  - intros w [<-|[<-|[<-|[]]]]; vm_compute; reflexivity.
  - vm_compute. reflexivity.
  - vm_compute. reflexivity.
Qed.
