// Engine for C07: for every type in /repo that implements statecache.Value (Clone/CopyFrom) runs
// histories of reads, inserts, deletes, deep in-place mutations of the objects handed out /
// handed in, transaction commits/discards and block commits/discards on the real
// StateContext.GetTrieNode/InsertTrieNode/DeleteTrieNode over real TransactionCache / BlockCache /
// StateCache and MPT (transaction tries layered with chain.CreateTxnMPT as the chain does).
// Oracle (the property itself): every read through the caches equals an uncached read of the same
// trie and the reference content; emits Gallina cases for Corr/StateCache.v.
package main

import (
	"encoding/hex"
	"fmt"
	"os"
	"path/filepath"
	"reflect"
	"regexp"
	"sort"
	"strings"
	"unsafe"

	"0chain.net/chaincore/chain"
	"0chain.net/core/encryption"
	"0chain.net/smartcontract/minersc"
	"0chain.net/smartcontract/partitions"
	"0chain.net/smartcontract/storagesc"
	"github.com/0chain/common/core/statecache"
	"github.com/0chain/common/core/util"
	"verifharness/sc"
	"verifharness/vh"
)

type value interface {
	statecache.Value
	util.MPTSerializable
}

// ---------- the cacheable types (cross-checked against a scan of the source tree) ----------

type vtype struct {
	name     string                    // "<package dir>.<receiver type>" as found by the scan
	zero     func() value              // the object a caller passes to GetTrieNode
	fillRoot func(v value) interface{} // the struct to fill by reflection (the entity for wrappers)
	copyDeep bool                      // CopyFrom makes its own copy (false: `*p = *cp`)
}

func self(v value) interface{} { return v }

var vtypes = []vtype{
	{"partitions.Partitions", func() value { return partitions.VerifPartsNewPartitions() }, self, false},
	{"partitions.partition", func() value { return partitions.VerifPartsNewPartition() }, self, true},
	{"partitions.location", func() value { return partitions.VerifPartsNewLocation() }, self, true},
	{"minersc.GlobalNode", func() value { return &minersc.GlobalNode{} }, self, true},
	{"minersc.MinerNode", func() value { return minersc.NewMinerNode() }, self, true},
	{"storagesc.StorageAllocation", func() value { sa, _ := storagesc.VerifPartsNewAllocationV1(); return sa },
		func(v value) interface{} { return v.(*storagesc.StorageAllocation).Entity() }, true},
	{"storagesc.StorageAllocation/v2", func() value { sa, _ := storagesc.VerifPartsNewAllocationV2(); return sa },
		func(v value) interface{} { return v.(*storagesc.StorageAllocation).Entity() }, true},
	{"storagesc.Config", func() value { return storagesc.VerifPartsNewConfig() }, self, true},
}

var copyFromRe = regexp.MustCompile(`(?m)^func \(\w+ \*?(\w+)\) CopyFrom\(`)

// scanValueTypes lists "<dir>.<type>" for every CopyFrom method in non-test Go files of the tree.
func scanValueTypes(root string) ([]string, error) {
	var out []string
	err := filepath.Walk(root, func(p string, info os.FileInfo, err error) error {
		if err != nil {
			return err
		}
		if info.IsDir() || !strings.HasSuffix(p, ".go") || strings.HasSuffix(p, "_test.go") {
			return nil
		}
		b, err := os.ReadFile(p)
		if err != nil {
			return err
		}
		for _, m := range copyFromRe.FindAllStringSubmatch(string(b), -1) {
			out = append(out, filepath.Base(filepath.Dir(p))+"."+m[1])
		}
		return nil
	})
	sort.Strings(out)
	return out, err
}

// ---------- reflection: fill, deep mutate, canonical dump ----------

func ours(t reflect.Type) bool {
	pp := t.PkgPath()
	return pp == "" || strings.HasPrefix(pp, "0chain.net/") || strings.HasPrefix(pp, "github.com/0chain/")
}

func settable(f reflect.Value) reflect.Value {
	if f.CanSet() {
		return f
	}
	if f.CanAddr() {
		return reflect.NewAt(f.Type(), unsafe.Pointer(f.UnsafeAddr())).Elem()
	}
	return f
}

// fill sets exported fields to small random values (depth-limited).
func fill(v reflect.Value, r *vh.Rand, depth int) {
	switch v.Kind() {
	case reflect.Bool:
		v.SetBool(r.Bool())
	case reflect.Int, reflect.Int8, reflect.Int16, reflect.Int32, reflect.Int64:
		v.SetInt(int64(r.Range(0, 100)))
	case reflect.Uint, reflect.Uint8, reflect.Uint16, reflect.Uint32, reflect.Uint64:
		v.SetUint(uint64(r.Range(0, 100)))
	case reflect.Float32, reflect.Float64:
		v.SetFloat(float64(r.Range(0, 40)) / 4)
	case reflect.String:
		v.SetString(fmt.Sprintf("s%d", r.Intn(50)))
	case reflect.Ptr:
		if depth <= 0 || !ours(v.Type().Elem()) || r.Chance(1, 4) {
			return
		}
		n := reflect.New(v.Type().Elem())
		fill(n.Elem(), r, depth-1)
		v.Set(n)
	case reflect.Struct:
		if !ours(v.Type()) {
			return
		}
		for i := 0; i < v.NumField(); i++ {
			if f := v.Field(i); f.CanSet() {
				fill(f, r, depth-1)
			}
		}
	case reflect.Slice:
		if depth <= 0 {
			return
		}
		n := r.Range(0, 3)
		s := reflect.MakeSlice(v.Type(), n, n)
		for i := 0; i < n; i++ {
			fill(s.Index(i), r, depth-1)
		}
		v.Set(s)
	case reflect.Map:
		if depth <= 0 {
			return
		}
		m := reflect.MakeMap(v.Type())
		for i, n := 0, r.Range(0, 3); i < n; i++ {
			k := reflect.New(v.Type().Key()).Elem()
			fill(k, r, 1)
			e := reflect.New(v.Type().Elem()).Elem()
			fill(e, r, depth-1)
			m.SetMapIndex(k, e)
		}
		v.Set(m)
	}
}

// mutate overwrites in place everything reachable from v: struct fields (also unexported), slice
// and array elements, map values (plus one new key), pointer targets.
func mutate(v reflect.Value, depth int, n *int) {
	if depth <= 0 {
		return
	}
	switch v.Kind() {
	case reflect.Bool:
		if v.CanSet() {
			v.SetBool(!v.Bool())
			*n++
		}
	case reflect.Int, reflect.Int8, reflect.Int16, reflect.Int32, reflect.Int64:
		if v.CanSet() {
			v.SetInt(v.Int() + 1)
			*n++
		}
	case reflect.Uint, reflect.Uint8, reflect.Uint16, reflect.Uint32, reflect.Uint64:
		if v.CanSet() {
			v.SetUint(v.Uint() + 1)
			*n++
		}
	case reflect.Float32, reflect.Float64:
		if v.CanSet() {
			v.SetFloat(v.Float() + 1.5)
			*n++
		}
	case reflect.String:
		if v.CanSet() {
			v.SetString(v.String() + "~")
			*n++
		}
	case reflect.Ptr:
		if !v.IsNil() && ours(v.Type().Elem()) {
			mutate(v.Elem(), depth-1, n)
		}
	case reflect.Interface:
		if !v.IsNil() && v.Elem().Kind() == reflect.Ptr && !v.Elem().IsNil() && ours(v.Elem().Type().Elem()) {
			mutate(v.Elem().Elem(), depth-1, n)
		}
	case reflect.Struct:
		if !ours(v.Type()) {
			return
		}
		for i := 0; i < v.NumField(); i++ {
			mutate(settable(v.Field(i)), depth-1, n)
		}
	case reflect.Slice, reflect.Array:
		for i := 0; i < v.Len(); i++ {
			mutate(v.Index(i), depth-1, n)
		}
	case reflect.Map:
		if v.IsNil() {
			return
		}
		for _, k := range v.MapKeys() {
			e := v.MapIndex(k)
			if e.Kind() == reflect.Ptr {
				mutate(e, depth-1, n)
				continue
			}
			ne := reflect.New(e.Type()).Elem()
			ne.Set(e)
			mutate(ne, depth-1, n)
			v.SetMapIndex(k, ne)
		}
		if v.Type().Key().Kind() == reflect.String {
			k := reflect.New(v.Type().Key()).Elem()
			k.SetString(fmt.Sprintf("verif-added-%d", v.Len()))
			e := reflect.New(v.Type().Elem()).Elem()
			if e.Kind() != reflect.Ptr && e.Kind() != reflect.Interface {
				v.SetMapIndex(k, e)
				*n++
			}
		}
	}
}

// dump prints the object graph canonically (nil and empty containers alike, map keys sorted).
func dump(v reflect.Value, b *strings.Builder, depth int) {
	if depth <= 0 {
		b.WriteString("...")
		return
	}
	switch v.Kind() {
	case reflect.Ptr, reflect.Interface:
		if v.IsNil() {
			b.WriteString("nil")
			return
		}
		b.WriteString("&")
		dump(v.Elem(), b, depth-1)
	case reflect.Struct:
		if !ours(v.Type()) {
			b.WriteString("<" + v.Type().String() + ">")
			return
		}
		b.WriteString(v.Type().Name() + "{")
		for i := 0; i < v.NumField(); i++ {
			b.WriteString(v.Type().Field(i).Name + ":")
			dump(settable(v.Field(i)), b, depth-1)
			b.WriteString(",")
		}
		b.WriteString("}")
	case reflect.Slice, reflect.Array:
		if v.Type().Elem().Kind() == reflect.Uint8 && v.Kind() == reflect.Slice {
			b.WriteString("x" + hex.EncodeToString(v.Bytes()))
			return
		}
		b.WriteString("[")
		for i := 0; i < v.Len(); i++ {
			dump(v.Index(i), b, depth-1)
			b.WriteString(",")
		}
		b.WriteString("]")
	case reflect.Map:
		type kv struct{ k, v string }
		var kvs []kv
		for _, k := range v.MapKeys() {
			var kb, eb strings.Builder
			dump(k, &kb, depth-1)
			dump(v.MapIndex(k), &eb, depth-1)
			kvs = append(kvs, kv{kb.String(), eb.String()})
		}
		sort.Slice(kvs, func(i, j int) bool { return kvs[i].k < kvs[j].k })
		b.WriteString("map[")
		for _, e := range kvs {
			b.WriteString(e.k + "=" + e.v + ",")
		}
		b.WriteString("]")
	case reflect.String:
		fmt.Fprintf(b, "%q", v.String())
	case reflect.Bool:
		fmt.Fprintf(b, "%v", v.Bool())
	case reflect.Int, reflect.Int8, reflect.Int16, reflect.Int32, reflect.Int64:
		fmt.Fprintf(b, "%d", v.Int())
	case reflect.Uint, reflect.Uint8, reflect.Uint16, reflect.Uint32, reflect.Uint64, reflect.Uintptr:
		fmt.Fprintf(b, "%d", v.Uint())
	case reflect.Float32, reflect.Float64:
		fmt.Fprintf(b, "%v", v.Float())
	default:
		b.WriteString("<" + v.Kind().String() + ">")
	}
}

func dumpOf(x interface{}) string {
	var b strings.Builder
	dump(reflect.ValueOf(x), &b, 14)
	return b.String()
}

// canon: the value a reader of the trie would decode from x's serialization
func canon(t vtype, x value) (v value, err error) {
	defer func() {
		if r := recover(); r != nil {
			err = fmt.Errorf("panic: %v", r)
		}
	}()
	b, err := x.MarshalMsg(nil)
	if err != nil {
		return nil, err
	}
	v = t.zero()
	if _, err = v.UnmarshalMsg(b); err != nil {
		return nil, err
	}
	return v, nil
}

// gen makes a canonical random instance: filled as deep as the type's codec accepts.
func gen(t vtype, r *vh.Rand) (value, int) {
	for depth := 5; depth >= 0; depth-- {
		x := t.zero()
		root := reflect.ValueOf(t.fillRoot(x))
		if root.Kind() == reflect.Ptr && !root.IsNil() {
			func() {
				defer func() { _ = recover() }()
				fill(root.Elem(), r.Fork(), depth)
			}()
		}
		if v, err := canon(t, x); err == nil {
			if v2, err2 := canon(t, v); err2 == nil && dumpOf(v2) == dumpOf(v) {
				return v, depth
			}
		}
	}
	panic("cannot build an instance of " + t.name)
}

// ---------- histories ----------

type op struct {
	K    string `json:"k"` // get ins insh del mut ctxn dtxn cblk dblk
	Key  int    `json:"key,omitempty"`
	I    int    `json:"i,omitempty"`    // handle index for insh / mut
	Seed uint64 `json:"seed,omitempty"` // instance generator seed for ins
}

type hist struct {
	Type string `json:"type"`
	Ops  []op   `json:"ops"`
}

type env struct {
	scache   *statecache.StateCache
	base     util.MerklePatriciaTrieI // state as of the last committed block
	blk      util.MerklePatriciaTrieI // state of the block being built
	txn      util.MerklePatriciaTrieI
	bc       *statecache.BlockCache
	tc       *statecache.TransactionCache
	prevHash string
	nblk     int
}

func newEnv() *env {
	e := &env{scache: statecache.NewStateCache(), prevHash: "b0"}
	e.base = sc.NewMPT()
	e.beginBlock()
	return e
}

func (e *env) beginBlock() {
	e.nblk++
	e.bc = statecache.NewBlockCache(e.scache, statecache.Block{Round: int64(e.nblk), Hash: fmt.Sprintf("b%d", e.nblk), PrevHash: e.prevHash})
	e.blk = chain.CreateTxnMPT(e.base, statecache.NewEmpty())
	e.beginTxn()
}

func (e *env) beginTxn() {
	e.tc = statecache.NewTransactionCache(e.bc)
	e.txn = chain.CreateTxnMPT(e.blk, e.tc)
}

func keyName(k int) string { return fmt.Sprintf("verif_c07_key_%d", k) }

type result struct {
	outs     []string // Coq outputs
	coqOps   []string
	fail     string
	kinds    map[string]int
	mutated  int
	hitsSeen int
}

func run(t vtype, h hist) (res result) {
	res.kinds = map[string]int{}
	fail := func(k string) {
		if res.fail == "" {
			res.fail = k
		}
	}
	defer func() {
		if r := recover(); r != nil {
			fail("panic")
			res.kinds["panic"]++
			for len(res.outs) < len(h.Ops) {
				res.outs = append(res.outs, "SOErr")
				res.coqOps = append(res.coqOps, "SCommitTxn")
			}
		}
	}()
	e := newEnv()
	tokens := map[string]int64{}
	tok := func(s string) int64 {
		if v, ok := tokens[s]; ok {
			return v
		}
		tokens[s] = int64(len(tokens) + 1)
		return tokens[s]
	}
	var handles []value
	// the reference: content token per key at the three levels
	refTxn, refBlk, refBase := map[int]int64{}, map[int]int64{}, map[int]int64{}
	cp := func(m map[int]int64) map[int]int64 {
		n := map[int]int64{}
		for k, v := range m {
			n[k] = v
		}
		return n
	}
	for _, o := range h.Ops {
		ctx := sc.NewCtx(e.txn, int64(e.nblk), nil)
		out, cop := "SOOk", ""
		switch o.K {
		case "get":
			cop = fmt.Sprintf("SGet %d", o.Key)
			v := t.zero()
			err := ctx.GetTrieNode(keyName(o.Key), v)
			// the same key read from the same trie without any cache
			u := t.zero()
			plain := util.NewMerklePatriciaTrie(e.txn.GetNodeDB(), e.txn.GetVersion(), e.txn.GetRoot(), statecache.NewEmpty())
			uerr := plain.GetNodeValue(util.Path(encryption.Hash(keyName(o.Key))), u)
			want, has := refTxn[o.Key]
			switch {
			case err == nil:
				d := dumpOf(v)
				tk := tok(d)
				out = fmt.Sprintf("(SOData (Some (%d, %d)))", tk, tk)
				handles = append(handles, v)
				res.kinds["get-present"]++
				if uerr != nil || dumpOf(u) != d {
					fail("cached-read-differs-from-trie")
				} else if !has || want != tk {
					fail("read-differs-from-written")
				}
			case err == util.ErrValueNotPresent:
				out = "(SOData None)"
				res.kinds["get-absent"]++
				if uerr == nil {
					fail("cached-read-misses-trie-value")
				} else if has {
					fail("read-differs-from-written")
				}
			default:
				out = "SOErr"
				fail("read-error")
			}
		case "ins":
			v, _ := gen(t, vh.NewRand(o.Seed))
			tk := tok(dumpOf(v))
			cop = fmt.Sprintf("SInsert %d %d", o.Key, tk)
			if _, err := ctx.InsertTrieNode(keyName(o.Key), v); err != nil {
				out = "SOErr"
				fail("insert-error")
			} else {
				handles = append(handles, v)
				refTxn[o.Key] = tk
			}
			res.kinds["insert"]++
		case "insbig":
			// a value whose encoding exceeds util.MPTMaxAllowableNodeSize: the trie rejects it
			cop = fmt.Sprintf("SInsertRej %d", o.Key)
			v := bigInstance(t)
			if v == nil {
				panic("cannot build an oversized " + t.name)
			}
			if _, err := ctx.InsertTrieNode(keyName(o.Key), v); err != nil {
				out = "SOErr"
				res.kinds["insert-rejected"]++
			} else {
				res.kinds["insert-oversized-accepted"]++
				c, err := canon(t, v)
				if err != nil {
					panic(err)
				}
				handles = append(handles, v)
				refTxn[o.Key] = tok(dumpOf(c))
			}
		case "insh":
			cop = fmt.Sprintf("SInsertH %d %s", o.Key, vh.Nat(o.I))
			if o.I >= len(handles) {
				out = "SOErr"
				break
			}
			c, err := canon(t, handles[o.I])
			if err != nil {
				panic(err)
			}
			if _, err := ctx.InsertTrieNode(keyName(o.Key), handles[o.I]); err != nil {
				out = "SOErr"
				fail("insert-error")
			} else {
				refTxn[o.Key] = tok(dumpOf(c))
			}
			res.kinds["insert-held"]++
		case "del":
			cop = fmt.Sprintf("SDelete %d", o.Key)
			_, err := ctx.DeleteTrieNode(keyName(o.Key))
			_, has := refTxn[o.Key]
			if err != nil {
				out = "SOErr"
				res.kinds["delete-absent"]++
				if has {
					fail("delete-error")
				}
			} else {
				res.kinds["delete"]++
				if !has {
					fail("delete-of-absent-accepted")
				}
				delete(refTxn, o.Key)
			}
		case "mut":
			if o.I >= len(handles) {
				cop = fmt.Sprintf("SMutate %s 0", vh.Nat(o.I))
				out = "SOErr"
				break
			}
			n := 0
			mutate(reflect.ValueOf(handles[o.I]).Elem(), 14, &n)
			res.mutated += n
			c, err := canon(t, handles[o.I])
			if err != nil {
				panic(err)
			}
			cop = fmt.Sprintf("SMutate %s %d", vh.Nat(o.I), tok(dumpOf(c)))
			res.kinds["mutate"]++
		case "ctxn":
			cop = "SCommitTxn"
			if err := e.blk.MergeMPTChanges(e.txn); err != nil {
				panic(err)
			}
			e.tc.Commit()
			e.beginTxn()
			refBlk = cp(refTxn)
			res.kinds["commit-txn"]++
		case "dtxn":
			cop = "SDiscardTxn"
			e.beginTxn()
			refTxn = cp(refBlk)
			res.kinds["discard-txn"]++
		case "cblk":
			cop = "SCommitBlock"
			// as the chain does: the block is committed once its transactions are (the generator
			// always closes the transaction right before)
			if err := e.base.MergeMPTChanges(e.blk); err != nil {
				panic(err)
			}
			e.bc.Commit()
			e.prevHash = fmt.Sprintf("b%d", e.nblk)
			refBase = cp(refBlk)
			e.nblk++
			e.bc = statecache.NewBlockCache(e.scache, statecache.Block{Round: int64(e.nblk), Hash: fmt.Sprintf("b%d", e.nblk), PrevHash: e.prevHash})
			e.blk = chain.CreateTxnMPT(e.base, statecache.NewEmpty())
			// the generator only commits a block right after a transaction boundary
			e.beginTxn()
			refTxn = cp(refBlk)
			res.kinds["commit-block"]++
		case "dblk":
			cop = "SDiscardBlock"
			e.nblk++
			e.bc = statecache.NewBlockCache(e.scache, statecache.Block{Round: int64(e.nblk), Hash: fmt.Sprintf("b%dx", e.nblk), PrevHash: e.prevHash})
			e.blk = chain.CreateTxnMPT(e.base, statecache.NewEmpty())
			e.beginTxn()
			refBlk = cp(refBase)
			refTxn = cp(refBase)
			res.kinds["discard-block"]++
		default:
			panic("unknown op " + o.K)
		}
		res.outs = append(res.outs, out)
		res.coqOps = append(res.coqOps, cop)
	}
	return res
}

func coqCase(t vtype, r result) string {
	return fmt.Sprintf("{| scc_mode := {| md_clone_deep := true; md_copy_deep := %s |}; scc_ops := %s; scc_obs := %s |}",
		vh.Bool(t.copyDeep), vh.List(r.coqOps), vh.List(r.outs))
}

// ---------- generator ----------

func genHistOld(t vtype, r *vh.Rand, n int) hist {
	h := hist{Type: t.name}
	keys := r.Range(1, 3)
	nh := 0 // handles so far (reads of absent keys add none: an over-estimate only yields SOErr ops)
	allGets := func() {
		for k := 0; k < keys; k++ {
			h.Ops = append(h.Ops, op{K: "get", Key: k})
			nh++
		}
	}
	inTxn := false
	_ = inTxn
	for len(h.Ops) < n {
		k := r.Intn(keys)
		switch x := r.Intn(20); {
		case x < 4:
			h.Ops = append(h.Ops, op{K: "ins", Key: k, Seed: r.U64()%1000 + 1})
			nh++
			inTxn = true
		case x < 8:
			h.Ops = append(h.Ops, op{K: "get", Key: k})
			nh++
		case x < 12 && nh > 0:
			// mutate a held object (mostly the latest one) and look again
			i := nh - 1 - r.Intn(min(nh, 3))
			h.Ops = append(h.Ops, op{K: "mut", I: i})
			if r.Chance(2, 3) {
				allGets()
			}
		case x < 13 && nh > 0:
			h.Ops = append(h.Ops, op{K: "insh", Key: k, I: nh - 1 - r.Intn(min(nh, 3))})
			inTxn = true
		case x < 14:
			h.Ops = append(h.Ops, op{K: "del", Key: k})
			inTxn = true
		case x < 16:
			h.Ops = append(h.Ops, op{K: "ctxn"})
			inTxn = false
			if r.Bool() {
				allGets()
			}
		case x < 18:
			h.Ops = append(h.Ops, op{K: "dtxn"})
			inTxn = false
			allGets()
		case x < 19:
			h.Ops = append(h.Ops, op{K: []string{"ctxn", "dtxn"}[r.Intn(2)]})
			inTxn = false
			h.Ops = append(h.Ops, op{K: "cblk"})
			allGets()
		default:
			h.Ops = append(h.Ops, op{K: "dblk"})
			inTxn = false
			allGets()
		}
	}
	if r.Bool() {
		h.Ops = append(h.Ops, op{K: "dtxn"})
	}
	allGets()
	return h
}

// the pattern behind most cache bugs: write, commit, read, mutate the returned object deeply
// (in-place element updates of full slices included), discard the transaction, read again
func genAlias(t vtype, r *vh.Rand) hist {
	h := hist{Type: t.name}
	h.Ops = append(h.Ops, op{K: "ins", Key: 0, Seed: r.U64()%1000 + 1}, op{K: "mut", I: 0}, op{K: "get", Key: 0})       // handles 0,1
	h.Ops = append(h.Ops, op{K: "ctxn"}, op{K: "get", Key: 0}, op{K: "mut", I: 2}, op{K: "get", Key: 0})                // 2,3
	h.Ops = append(h.Ops, op{K: "mut", I: 3}, op{K: "dtxn"}, op{K: "get", Key: 0}, op{K: "mut", I: 4})                  // 4
	h.Ops = append(h.Ops, op{K: "ctxn"}, op{K: "cblk"}, op{K: "get", Key: 0}, op{K: "mut", I: 5}, op{K: "get", Key: 0}) // 5,6
	h.Ops = append(h.Ops, op{K: "insh", Key: 1, I: 5}, op{K: "mut", I: 5}, op{K: "get", Key: 1}, op{K: "dtxn"}, op{K: "get", Key: 1}, op{K: "get", Key: 0})
	if inflatable[t.name] {
		// an insert the trie rejects must leave no value behind, neither in this transaction's
		// cache nor (after a commit of the transaction cache) in the block cache
		h.Ops = append(h.Ops, op{K: "insbig", Key: 0, Seed: 7}, op{K: "get", Key: 0}, op{K: "insbig", Key: 2, Seed: 8}, op{K: "get", Key: 2},
			op{K: "ctxn"}, op{K: "get", Key: 0}, op{K: "get", Key: 2})
	}
	h.Ops = append(h.Ops, op{K: "del", Key: 0}, op{K: "get", Key: 0}, op{K: "dtxn"}, op{K: "get", Key: 0}, op{K: "del", Key: 0}, op{K: "ctxn"}, op{K: "get", Key: 0}, op{K: "dblk"}, op{K: "get", Key: 0})
	return h
}

func min(a, b int) int {
	if a < b {
		return a
	}
	return b
}

func key(h hist) string {
	var b strings.Builder
	b.WriteString(h.Type)
	for _, o := range h.Ops {
		fmt.Fprintf(&b, "|%s,%d,%d,%d", o.K, o.Key, o.I, o.Seed)
	}
	return b.String()
}

func main() {
	o := vh.ParseFlags()
	sc.Init()
	rep := vh.NewReport("statecache", "C07", o)
	rep.Rule = "per cacheable type (every type with a CopyFrom method in the tree): histories of get/insert/insert-held/delete/deep in-place " +
		"mutation of held objects/inserts the trie rejects (encoding > MPTMaxAllowableNodeSize)/commit and discard of transactions and blocks over real caches and tries, plus a fixed aliasing pattern; " +
		"non-trivial = at least one read served a present value, one held object was mutated (>= 1 field/element overwritten), one transaction was " +
		"discarded and one committed; distinct by type and full op list"
	cf := &vh.CasesFile{Imports: []string{"Base.Corr", "Model.StateCache", "Corr.StateCache"}, CaseType: "sc_case", CheckFn: "sc_check", Shard: 150}
	byName := map[string]vtype{}
	for _, t := range vtypes {
		byName[t.name] = t
	}

	handle := func(h hist) {
		t, ok := byName[h.Type]
		if !ok {
			panic("unknown type " + h.Type)
		}
		r := run(t, h)
		for k, n := range r.kinds {
			rep.CountN(k, n)
		}
		rep.Count("type:" + t.name)
		rep.CountN("fields-overwritten", r.mutated)
		nontriv := r.kinds["get-present"] > 0 && r.mutated > 0 && r.kinds["discard-txn"] > 0 && r.kinds["commit-txn"] > 0
		rep.Case(key(h), nontriv, h)
		cf.Add(coqCase(t, r))
		rep.CaseInputs = append(rep.CaseInputs, h)
		if r.fail != "" {
			keep := vh.ShrinkIdx(len(h.Ops), func(keep []int) bool {
				h2 := hist{Type: h.Type}
				for _, i := range keep {
					h2.Ops = append(h2.Ops, h.Ops[i])
				}
				return run(t, h2).fail == r.fail
			})
			h2 := hist{Type: h.Type}
			for _, i := range keep {
				h2.Ops = append(h2.Ops, h.Ops[i])
			}
			rep.Violate("C07:"+r.fail+"/"+t.name, "state cache and trie disagree for "+t.name+": "+r.fail, h2)
		}
	}
	finish := func() {
		files, err := cf.Write(o.Out, "C07")
		if err != nil {
			panic(err)
		}
		rep.CaseFiles = files
		rep.ShardSize = 150
		rep.Write(o.Out)
	}

	var rh hist
	if o.LoadReplay(&rh) {
		if rh.Type == "" { // the unlisted-type finding has no history
			rh.Type = vtypes[0].name
		}
		handle(rh)
		finish()
		return
	}

	// fail closed on a cacheable type this engine does not know
	repo := os.Getenv("VERIF_REPO")
	if repo == "" {
		repo = "/repo"
	}
	found, err := scanValueTypes(filepath.Join(repo, "code/go/0chain.net"))
	if err != nil {
		panic(err)
	}
	listed := map[string]bool{}
	for _, t := range vtypes {
		listed[strings.SplitN(t.name, "/", 2)[0]] = true
	}
	for _, f := range found {
		if !listed[f] {
			rep.Violate("C07:unlisted-value-type/"+f, "a type with a CopyFrom method is not covered by the state cache engine: "+f, hist{Type: ""})
		}
	}
	rep.Note("value types found by scanning for CopyFrom methods: %s", strings.Join(found, ", "))

	rnd := vh.NewRand(o.Seed)
	for _, t := range vtypes {
		// how rich are the generated instances
		_, depth := gen(t, vh.NewRand(1))
		inflatable[t.name] = bigInstance(t) != nil
		rep.Note("%s: instances filled to depth %d; oversized (trie-rejected) instances: %v", t.name, depth, inflatable[t.name])
		for i := 0; i < o.N(3, 20); i++ {
			handle(genAlias(t, rnd))
		}
		for i := 0; i < o.N(40, 400); i++ {
			handle(genHist2(t, rnd, rnd.Range(8, 60)))
		}
	}
	finish()
}
