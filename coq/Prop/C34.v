(* C34: Threshold key generation and signing are correct.
   Only statements; each is closed by [exact] of a lemma in Proof/DKG.v.
   Scalars: any field F; G1 (signatures), G2 (public keys), GT: any F-modules; g2 the public-key
   generator; H the hash to G1; e any map G1 -> G2 -> GT that is linear in both arguments
   (idealised pairing).  These are explicit premises of the statements, not axioms. *)
From Coq Require Import ZArith List.
From mathcomp Require Import all_ssreflect ssralg poly zmodp.
From ZC Require Import Model.DKG Model.DKGZ Proof.DKG Proof.DKGLink Proof.ThresholdSig.
Set Implicit Arguments.
Unset Strict Implicit.
Unset Printing Implicit Defensive.
Import GRing.Theory.
Local Open Scope ring_scope.

(* Every share a dealer derives for an id validates against the dealer's public polynomial;
   when g2 is not the neutral element no other value does. *)
Theorem C34_share_validates :
  forall (F : fieldType) (G2 : lmodType F) (g2 : G2) (cs : seq F) (i : F),
    dkg_validate g2 (dkg_mpk g2 cs) i (dkg_share cs i).
Proof. exact dkg_share_validates. Qed.
Print Assumptions C34_share_validates.

Theorem C34_only_the_share_validates :
  forall (F : fieldType) (G2 : lmodType F) (g2 : G2) (cs : seq F) (i s : F),
    g2 != 0 -> dkg_validate g2 (dkg_mpk g2 cs) i s = (s == dkg_share cs i).
Proof. exact dkg_validate_iff. Qed.
Print Assumptions C34_only_the_share_validates.

(* The aggregated key of the party with id i (sum of the shares of the dealers css) signs
   messages that verify under the public key any party derives for i from the published
   polynomials (AggregatePublicKeyShares). *)
Theorem C34_agg_key_signs_and_verifies :
  forall (F : fieldType) (G1 G2 GT : lmodType F) (g2 : G2) (M : Type) (H : M -> G1)
         (e : G1 -> G2 -> GT),
    (forall a x y, e (a *: x) y = a *: e x y) -> (forall a x y, e x (a *: y) = a *: e x y) ->
  forall (css : seq (seq F)) (i : F) (m : M),
    dkg_verify g2 H e (dkg_gpk_at [seq dkg_mpk g2 cs | cs <- css] i) m
               (dkg_sign H (dkg_sk css i) m).
Proof. exact dkg_agg_key_signs_and_verifies. Qed.
Print Assumptions C34_agg_key_signs_and_verifies.

(* Aggregation is a function of the set of received shares: repeating AggregateSecretKeyShares,
   whatever Si held before, or adding again a share that is already held, changes nothing; on the
   dealers' honest shares for id i it yields dkg_sk css i (the key of the theorem above). *)
Theorem C34_aggregation_idempotent :
  forall (F : fieldType) (recv : seq (F * F)) (x y j s : F),
    dkg_aggregate (dkg_aggregate (recv, x)) = dkg_aggregate (recv, x) /\
    dkg_aggregate (recv, x) = dkg_aggregate (recv, y) /\
    (uniq (unzip1 recv) -> (j, s) \in recv -> dkg_recv_add recv j s = recv).
Proof. exact dkg_aggregation_idempotent. Qed.
Print Assumptions C34_aggregation_idempotent.

Theorem C34_aggregation_of_honest_shares :
  forall (F : fieldType) (css : seq (seq F)) (dealers : seq F) (i x : F),
    size dealers = size css ->
    (dkg_aggregate ([seq (p.1, dkg_share p.2 i) | p <- zip dealers css], x)).2 = dkg_sk css i.
Proof. exact dkg_aggregate_honest. Qed.
Print Assumptions C34_aggregation_of_honest_shares.

(* Any list of at least t distinct non-zero ids (t = number of coefficients of every dealer)
   recovers the same value: the signature of the group secret, which verifies under the group
   public key. *)
Theorem C34_recover_any_t_subset :
  forall (F : fieldType) (G1 G2 GT : lmodType F) (g2 : G2) (M : Type) (H : M -> G1)
         (e : G1 -> G2 -> GT),
    (forall a x y, e (a *: x) y = a *: e x y) -> (forall a x y, e x (a *: y) = a *: e x y) ->
  forall (css : seq (seq F)) (ids : seq F) (m : M) (sig : G1),
    (0 < size ids)%N -> uniq ids -> 0 \notin ids ->
    all (fun cs => size cs <= size ids)%N css ->
    dkg_recover (dkg_sig_shares H css ids m) = Some sig ->
    sig = dkg_sign H (dkg_gsk css) m /\
    dkg_verify g2 H e (dkg_gpk [seq dkg_mpk g2 cs | cs <- css]) m sig.
Proof. exact dkg_recovered_verifies. Qed.
Print Assumptions C34_recover_any_t_subset.

Theorem C34_recover_succeeds :
  forall (F : fieldType) (G1 : lmodType F) (M : Type) (H : M -> G1)
         (css : seq (seq F)) (ids : seq F) (m : M),
    (0 < size ids)%N -> uniq ids -> 0 \notin ids ->
    all (fun cs => size cs <= size ids)%N css ->
    dkg_recover (dkg_sig_shares H css ids m) = Some (dkg_sign H (dkg_gsk css) m).
Proof. exact dkg_recover_any_t_subset. Qed.
Print Assumptions C34_recover_succeeds.

(* Recovery does not depend on the order of the (id, share) pairs, whatever the shares are. *)
Theorem C34_recover_order_independent :
  forall (F : fieldType) (G1 : lmodType F) (prs prs' : seq (F * G1)),
    perm_eq prs prs' -> dkg_recover prs = dkg_recover prs'.
Proof. exact dkg_recover_order_independent. Qed.
Print Assumptions C34_recover_order_independent.

(* Client threshold keys (BLS0GenerateThresholdKeyShares): shares of one polynomial whose
   constant coefficient is the original key; any t of them reconstruct the original key's
   signature, which verifies under the original public key.  The ids 1..n the code uses are
   distinct and non-zero as soon as no k in 1..n vanishes in F. *)
Theorem C34_reconstruct_verifies :
  forall (F : fieldType) (G1 G2 GT : lmodType F) (g2 : G2) (M : Type) (H : M -> G1)
         (e : G1 -> G2 -> GT),
    (forall a x y, e (a *: x) y = a *: e x y) -> (forall a x y, e x (a *: y) = a *: e x y) ->
  forall (sk : F) (cs : seq F) (ids : seq F) (m : M),
    (0 < size ids)%N -> uniq ids -> 0 \notin ids -> (size (sk :: cs) <= size ids)%N ->
    let sigs := [seq (i, dkg_sign H (dkg_share (sk :: cs) i) m) | i <- ids] in
    dkg_recover sigs = Some (dkg_sign H sk m) /\
    dkg_verify g2 H e (dkg_pub g2 sk) m (dkg_sign H sk m).
Proof. exact dkg_reconstruct_verifies. Qed.
Print Assumptions C34_reconstruct_verifies.

(* The reusable form for users of client threshold keys (C21), proved in Proof/ThresholdSig.v:
   C34_threshold_signature_of_T_valid_shares_verifies -- any T distinct shares among 1..n
   reconstruct the original key's signature, which verifies under the original public key; what
   fewer (or any) distinct shares reconstruct verifies exactly when it is that signature. *)
Definition C34_threshold_signature_export := C34_threshold_signature_of_T_valid_shares_verifies.

Theorem C34_client_ids_distinct_nonzero :
  forall (F : fieldType) (n : nat),
    (forall k, (0 < k <= n)%N -> k%:R != 0 :> F) ->
    let ids := [seq k%:R : F | k <- iota 1 n] in uniq ids /\ 0 \notin ids.
Proof. exact dkg_nat_ids_ok. Qed.
Print Assumptions C34_client_ids_distinct_nonzero.

(* Split keys (GenerateSplitKeys): the aggregate of the split signatures is the primary key's
   signature and verifies under the primary public key. *)
Theorem C34_split_reconstruct_verifies :
  forall (F : fieldType) (G1 G2 GT : lmodType F) (g2 : G2) (M : Type) (H : M -> G1)
         (e : G1 -> G2 -> GT),
    (forall a x y, e (a *: x) y = a *: e x y) -> (forall a x y, e x (a *: y) = a *: e x y) ->
  forall (sk : F) (ks : seq F) (m : M),
    let sig := dkg_agg_sigs [seq dkg_sign H k m | k <- dkg_split sk ks] in
    sig = dkg_sign H sk m /\ dkg_verify g2 H e (dkg_pub g2 sk) m sig.
Proof. exact dkg_split_reconstruct_verifies. Qed.
Print Assumptions C34_split_reconstruct_verifies.

(* The executable instance over Z mod p compared with the Go code (Model/DKGZ.v) computes the
   images of the algebraic model in every field of characteristic p (for the code: p = dz_r, the
   order of the BN254 groups; its primality is this premise): shares, aggregated keys and the
   accepted outcome of a recovery. *)
Theorem C34_instance_shares_sound :
  forall (F : fieldType) (p : Z), (1 < p)%Z -> Z.to_nat p \in [char F] ->
  forall (css : list (list Z)) (cs : list Z) (i : Z),
    (forall cs', List.In cs' css -> dzl_cans p cs') -> dzl_cans p cs -> dzl_can p i ->
    dzl_phi F (dz_share p cs i) = dkg_share (map (dzl_phi F) cs) (dzl_phi F i) /\
    dzl_phi F (dz_sk p css i) = dkg_sk (map (map (dzl_phi F)) css) (dzl_phi F i).
Proof. exact dzl_shares_sound. Qed.
Print Assumptions C34_instance_shares_sound.

Theorem C34_instance_recover_sound :
  forall (F : fieldType) (p : Z), (1 < p)%Z -> Z.to_nat p \in [char F] ->
  forall (prs : list (Z * Z)) (hints : list Z) (oc : option Z),
    dzl_cans p (List.map fst prs) -> dzl_cans p (List.map snd prs) ->
    dz_recover_ok p prs hints oc = true ->
    dkg_recover (map (dzl_phi2 F) prs) = omap (fun c => dzl_phi F c : [lmodType F of F^o]) oc.
Proof. exact dzl_recover_ok_correct. Qed.
Print Assumptions C34_instance_recover_sound.

(* Split keys in the executable instance: the scalars read from the split keys' private key
   bytes (what the correspondence compares) are the images of the model's split keys, so a split
   key's serialized secret is its scalar and the key can be reloaded, shared or split again. *)
Theorem C34_instance_split_keys_sound :
  forall (F : fieldType) (p : Z), (1 < p)%Z -> Z.to_nat p \in [char F] ->
  forall (sk : Z) (ks : list Z), dzl_can p sk -> dzl_cans p ks ->
    map (dzl_phi F) (dz_split p sk ks) = dkg_split (dzl_phi F sk) (map (dzl_phi F) ks).
Proof. exact dzl_split_correct. Qed.
Print Assumptions C34_instance_split_keys_sound.

(* Non-vacuity: a (2,3) instance over the prime field of 7 elements with G1 = G2 = GT = the
   field, e = multiplication; two dealers, ids 1 2 3; the premises hold and ids 1 and 3 recover
   the signature of the group secret 3 + 2 = 5. *)
Example C34_example :
  let F := [fieldType of 'F_7] in
  let V := [lmodType F of F^o] in
  let H := (fun _ : unit => 1 : V) in
  let css : seq (seq F) := [:: [:: 3; 1]; [:: 2; 5]] in
  let ids : seq F := [:: 1; 3] in
  [/\ uniq ids, 0 \notin ids, all (fun cs => size cs <= size ids)%N css &
      dkg_recover (dkg_sig_shares H css ids tt) = Some (dkg_sign H (5 : F) tt)].
Proof.
move=> F V H css ids.
have u : uniq ids by vm_compute.
have z : 0 \notin ids by vm_compute.
split=> //.
rewrite (@C34_recover_succeeds F V unit H css ids tt) //.
by congr (Some (dkg_sign H _ tt)); rewrite /dkg_gsk /css !big_cons big_nil /=; apply/eqP; vm_compute.
Qed.
