(* Model of synced block state changes (property C28): chaincore/block/entity.go
   ApplyBlockStateChange, block_state_change_entity.go NewBlockStateChange and
   chaincore/state/partial_state.go ComputeProperties, over an abstract content-addressed node
   store.  Definitions only.

   [node] is the content of a trie node, [H n] its hash (the key it is stored under),
   [children n] the hashes it refers to.  A node db is the list of nodes it holds. *)
From Coq Require Export List ZArith Bool Arith Lia.
Export ListNotations.

Section StateChange.
  Variables (node hash bhash : Type).
  Variable heqb : hash -> hash -> bool.
  Variable bheqb : bhash -> bhash -> bool.
  Variable H : node -> hash.
  Variable children : node -> list hash.

  Definition sc_db := list node.

  Fixpoint sc_get (db : sc_db) (h : hash) : option node :=
    match db with
    | [] => None
    | n :: tl => if heqb (H n) h then Some n else sc_get tl h
    end.

  Definition sc_has (db : sc_db) (h : hash) : bool :=
    match sc_get db h with Some _ => true | None => false end.

  Definition sc_mem (h : hash) (l : list hash) : bool := existsb (heqb h) l.

  Fixpoint sc_nodupb (l : list hash) : bool :=
    match l with [] => true | h :: tl => negb (sc_mem h tl) && sc_nodupb tl end.

  (* one more level: the children (present in db) of the nodes whose hash is already in S *)
  Definition sc_step (db : sc_db) (S : list hash) : list hash :=
    S ++ flat_map (fun p => if sc_mem (H p) S then filter (sc_has db) (children p) else []) db.

  Fixpoint sc_iter (k : nat) (db : sc_db) (S : list hash) : list hash :=
    match k with O => S | Datatypes.S k' => sc_iter k' db (sc_step db S) end.

  (* hashes of db reachable from root through nodes of db, within length db levels *)
  Definition sc_reachable (db : sc_db) (root : hash) : list hash :=
    if sc_has db root then sc_iter (length db) db [root] else [].

  (* PartialState.ComputeProperties: nodes not empty, no node twice (db size = number of
     nodes), a root from which every node of the set is reachable inside the set, and that root
     hashes to the declared state hash *)
  Definition sc_valid (root : hash) (nodes : sc_db) : bool :=
    match nodes with [] => false | _ => true end &&
    sc_nodupb (map H nodes) && sc_has nodes root &&
    forallb (fun n => sc_mem (H n) (sc_reachable nodes root)) nodes.

  Record sc_block := {
    sb_hash : bhash;
    sb_state : hash;              (* ClientStateHash declared by the block *)
    sb_count : nat;               (* StateChangesCount declared by the block *)
    sb_prev_state : option hash   (* ClientStateHash of the previous block, if linked *)
  }.

  Record sc_change := {
    sc_blk : bhash;               (* StateChange.Block *)
    sc_root : hash;               (* PartialState.Hash *)
    sc_nodes : sc_db              (* PartialState.Nodes *)
  }.

  Inductive sc_err := EBlockHash | EStateHash | EStateRoot | EMalformed | EInvalid.

  Inductive sc_res :=
  | ScOk (db : sc_db) (root : hash)   (* block state set: node db and root *)
  | ScNoChange                        (* returns nil without setting a state *)
  | ScErr (e : sc_err).               (* rejected; nothing set *)

  (* ApplyBlockStateChange.  [computed]: ComputeProperties ran successfully on the change set
     (GetRoot() is non-nil); the sync path decodes a change set only through it. *)
  Definition sc_apply (local : sc_db) (b : sc_block) (cs : sc_change) (computed : bool) : sc_res :=
    if negb (bheqb (sb_hash b) (sc_blk cs)) then ScErr EBlockHash
    else if negb (heqb (sb_state b) (sc_root cs)) then ScErr EStateHash
    else if negb computed then
      match sb_prev_state b with
      | Some s => if heqb s (sb_state b) then ScNoChange else ScErr EStateRoot
      | None => ScErr EStateRoot
      end
    else if negb (Nat.eqb (length (sc_nodes cs)) (sb_count b)) then ScErr EMalformed
    else ScOk (sc_nodes cs ++ local) (sc_root cs).   (* MergeDB into a fresh layer over the local db *)

  (* receiving a change set from a peer: decode runs ComputeProperties, then apply *)
  Definition sc_sync (local : sc_db) (b : sc_block) (cs : sc_change) : sc_res :=
    if sc_valid (sc_root cs) (sc_nodes cs) then sc_apply local b cs true else ScErr EInvalid.

  (* ---- the proposed repair: after MergeDB, every node a new node refers to must be available
     (in the change set or in the local db), otherwise the set is malformed ---- *)
  Definition sc_refs_ok (db nodes : sc_db) : bool :=
    forallb (fun n => forallb (sc_has db) (children n)) nodes.

  Definition sc_apply_fix (local : sc_db) (b : sc_block) (cs : sc_change) (computed : bool) : sc_res :=
    match sc_apply local b cs computed with
    | ScOk db r => if sc_refs_ok db (sc_nodes cs) then ScOk db r else ScErr EMalformed
    | x => x
    end.

  Definition sc_sync_fix (local : sc_db) (b : sc_block) (cs : sc_change) : sc_res :=
    if sc_valid (sc_root cs) (sc_nodes cs) then sc_apply_fix local b cs true else ScErr EInvalid.

  (* a db that holds whole states: whatever a stored node refers to is stored *)
  Definition sc_closed (db : sc_db) : Prop :=
    forall n, In n db -> forall h, In h (children n) -> exists m, sc_get db h = Some m.

  (* NewBlockStateChange: the new nodes of the executed block and its root *)
  Definition sc_new_change (bh : bhash) (root : hash) (new_nodes : sc_db) : sc_change :=
    {| sc_blk := bh; sc_root := root; sc_nodes := new_nodes |}.

  (* a chain of blocks all obtained by sync: each change set is applied over the db the previous
     apply produced (nothing persisted in between); None as soon as one is not accepted *)
  Fixpoint sc_sync_chain (local : sc_db) (l : list (sc_block * sc_change)) : option sc_db :=
    match l with
    | [] => Some local
    | (b, cs) :: tl =>
        match sc_sync local b cs with
        | ScOk db _ => sc_sync_chain db tl
        | _ => None
        end
    end.

  (* ---- what a state is: the nodes reachable from its root (Prop level, any depth) ---- *)
  Inductive sc_reach (db : sc_db) (root : hash) : node -> Prop :=
  | sc_reach_root n : sc_get db root = Some n -> sc_reach db root n
  | sc_reach_child p h n : sc_reach db root p -> In h (children p) -> sc_get db h = Some n -> sc_reach db root n.

  (* every node the state refers to is there *)
  Definition sc_complete (db : sc_db) (root : hash) : Prop :=
    (exists n, sc_get db root = Some n) /\
    forall p, sc_reach db root p -> forall h, In h (children p) -> exists n, sc_get db h = Some n.

  (* reachable through at most d levels, inside db *)
  Inductive sc_reach_d (db : sc_db) (root : hash) : nat -> node -> Prop :=
  | sc_reach_d_root d n : sc_get db root = Some n -> sc_reach_d db root d n
  | sc_reach_d_child d p h n : sc_reach_d db root d p -> In h (children p) -> sc_get db h = Some n ->
      sc_reach_d db root (Datatypes.S d) n.
End StateChange.

Arguments sb_hash {hash bhash} _.
Arguments sb_state {hash bhash} _.
Arguments sb_count {hash bhash} _.
Arguments sb_prev_state {hash bhash} _.
Arguments sc_blk {node hash bhash} _.
Arguments sc_root {node hash bhash} _.
Arguments sc_nodes {node hash bhash} _.
Arguments ScOk {node hash} _ _.
Arguments ScNoChange {node hash}.
Arguments ScErr {node hash} _.
