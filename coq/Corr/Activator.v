(* Correspondence for C43: a case is a history run on a real StateContext over an in-memory MPT
   (InsertTrieNode of HardFork values as minersc add_hardfork does, non-HardFork values, deletes,
   a trie with an unresolvable root) with WithActivation / GetRoundByName called on it; [ac_check]
   re-runs the model and compares which callback ran, the returned error token and the round /
   error kind of GetRoundByName. *)
From ZC Require Import Base.Corr Model.Activator.
Open Scope Z_scope.

Record ac_case := { acc_ops : list ac_op; acc_outs : list ac_out }.

Definition ac_branch_eqb (a b : ac_branch) : bool :=
  match a, b with AcBefore, AcBefore | AcAfter, AcAfter | AcNone, AcNone => true | _, _ => false end.
Definition ac_errkind_eqb (a b : ac_errkind) : bool :=
  match a, b with
  | AcOk, AcOk | AcErrValueNotPresent, AcErrValueNotPresent | AcErrNodeNotFound, AcErrNodeNotFound
  | AcErrOther, AcErrOther => true
  | _, _ => false
  end.
Definition ac_out_eqb (a b : ac_out) : bool :=
  match a, b with
  | AcDone, AcDone => true
  | AcRan x r, AcRan y s => ac_branch_eqb x y && Z.eqb r s
  | AcRound r e, AcRound s f => Z.eqb r s && ac_errkind_eqb e f
  | _, _ => false
  end.

Definition ac_check (c : ac_case) : bool :=
  list_eqb ac_out_eqb (snd (ac_run ac_init (acc_ops c))) (acc_outs c).
