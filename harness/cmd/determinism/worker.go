package main

// Worker: executes one scenario on a fresh state through the real chain.Chain.UpdateState with the real
// contracts and reports everything the property compares.

import (
	"context"
	"crypto/sha256"
	"encoding/hex"
	"encoding/json"
	"fmt"
	"os"
	"runtime"
	"sort"
	"strings"
	"time"

	"0chain.net/chaincore/block"
	"0chain.net/chaincore/chain"
	cstate "0chain.net/chaincore/chain/state"
	"0chain.net/chaincore/node"
	"0chain.net/chaincore/smartcontract"
	"0chain.net/chaincore/state"
	"0chain.net/chaincore/transaction"
	"0chain.net/core/common"
	"0chain.net/core/config"
	"0chain.net/core/encryption"
	"0chain.net/core/viper"
	"0chain.net/smartcontract/dbs/event"
	"0chain.net/smartcontract/faucetsc"
	"0chain.net/smartcontract/minersc"
	"0chain.net/smartcontract/storagesc"
	"0chain.net/smartcontract/vestingsc"
	"0chain.net/smartcontract/zcnsc"
	"github.com/0chain/common/core/currency"
	"github.com/0chain/common/core/statecache"
	"github.com/0chain/common/core/util"
	"verifharness/sc"
)

// ---- scenario ----

type stxn struct {
	From       string    `json:"from"`                  // "owner" | account name ("a1".."a9") | "m1".. (registered miner i)
	SC         string    `json:"sc"`                    // faucet | miner | storage | vesting | zcn
	Fn         string    `json:"fn"`                    // contract function
	Input      string    `json:"input"`                 // raw JSON input
	Value      uint64    `json:"value,omitempty"`       // tokens sent with the call
	TimeOffset int64     `json:"time_offset,omitempty"` // creation date = scenario base time + offset (seconds)
	Mint       *mintSpec `json:"mint,omitempty"`        // zcnsc mint: the payload is built and signed by the worker
	Probe      bool      `json:"probe,omitempty"`       // fan-in scenarios: a request naming one failing item twice (what that item gives on its own)
}

// zcnsc mint of Amount to the sender with the given nonce, signed by the listed authorizers (1-based).
// BadSig: the signatures are made over another nonce, so the call fails - after it has recorded the nonce.
type mintSpec struct {
	Nonce   int64  `json:"nonce"`
	Amount  uint64 `json:"amount"`
	Signers []int  `json:"signers"`
	BadSig  bool   `json:"bad_sig,omitempty"`
}

type sblock struct {
	Txns []stxn `json:"txns"`
}

type scenario struct {
	Name        string   `json:"name"`
	Miners      int      `json:"miners,omitempty"` // miners/sharders registered before block 1
	Sharders    int      `json:"sharders,omitempty"`
	Authorizers int      `json:"authorizers,omitempty"` // zcnsc authorizers registered (by the owner) before block 1
	BaseTime    int64    `json:"base_time,omitempty"`   // 0: 1700000000
	Cold        bool     `json:"cold,omitempty"`        // fresh state cache for every block
	Repeat      int      `json:"repeat,omitempty"`      // >0: every transaction of the last block is first executed Repeat times on forks of the same state (GOMAXPROCS 16)
	Blocks      []sblock `json:"blocks"`
}

// ---- result ----

type txnResult struct {
	Applied bool     `json:"applied"` // UpdateState returned nil (the transaction is in the block)
	Status  int      `json:"status"`
	Output  string   `json:"output"` // transaction output (for failed contract calls: the error text)
	OutHash string   `json:"out_hash"`
	Err     string   `json:"err,omitempty"` // UpdateState error class
	Events  []string `json:"events"`        // in emission order
	Panic   string   `json:"panic,omitempty"`
}

type result struct {
	Txns    [][]txnResult `json:"txns"`
	Roots   []string      `json:"roots"`   // state root after each block
	Changes []int         `json:"changes"` // change count of the block trie after each block
	// Repeat > 0: per transaction of the last block the distinct (status, output, events) outcomes of the
	// repeated executions on the same state, with their counts
	Variants []map[string]int `json:"variants,omitempty"`
	Outputs  []map[string]int `json:"outputs,omitempty"` // the same by transaction output only
}

var scAddr = map[string]string{"faucet": faucetsc.ADDRESS, "miner": minersc.ADDRESS, "storage": storagesc.ADDRESS,
	"vesting": vestingsc.ADDRESS, "zcn": zcnsc.ADDRESS}

const ownerID = "1746b06bb09f55ee01b33b5e2e055d6cc7a900cb57c0a3a5eaabb8a0e7745802"

func acct(name string) string {
	if name == "owner" {
		return ownerID
	}
	return encryption.Hash("verif-account-" + name)
}

func evString(e event.Event) string {
	s := fmt.Sprintf("%d/%d/%s", e.Type, e.Tag, e.Index)
	if u, ok := e.Data.(*event.User); ok && u != nil {
		s += fmt.Sprintf("/user:%s:%d:%d", u.UserID[:8], u.Balance, u.Nonce)
	}
	return s
}

func runWorker(scn scenario) result {
	sc.Init()
	repo := "/repo"
	if r := os.Getenv("VERIF_REPO"); r != "" {
		repo = r
	}
	must(viper.ReadConfigFile(repo + "/docker.local/config/0chain.yaml"))
	must(config.SmartContractConfig.ReadConfigFile(repo + "/docker.local/config/sc.yaml"))
	smartcontract.ContractMap[faucetsc.ADDRESS] = faucetsc.NewFaucetSmartContract()
	smartcontract.ContractMap[minersc.ADDRESS] = minersc.NewMinerSmartContract()
	smartcontract.ContractMap[storagesc.ADDRESS] = storagesc.NewStorageSmartContract()
	smartcontract.ContractMap[vestingsc.ADDRESS] = vestingsc.NewVestingSmartContract()
	smartcontract.ContractMap[zcnsc.ADDRESS] = zcnsc.NewZCNSmartContract()
	c := chain.Provider().(*chain.Chain)
	cfg := chain.NewConfigImpl(&chain.ConfigData{IsFeeEnabled: false, SmartContractTimeout: time.Minute, ClientSignatureScheme: "bls0chain"})
	c.ChainConfig = cfg
	config.Configuration().ChainConfig = cfg
	c.EventDb = &event.EventDb{}

	base := scn.BaseTime
	if base == 0 {
		base = 1700000000
	}
	// registered nodes (all of them in the current magic block)
	var miners, sharders []*nd
	for i := 0; i < scn.Miners; i++ {
		miners = append(miners, mkNode(i+1, i))
	}
	for j := 0; j < scn.Sharders; j++ {
		sharders = append(sharders, mkNode(51+j, 9+j))
	}
	var auths []*nd
	for a := 0; a < scn.Authorizers; a++ {
		auths = append(auths, mkNode(71+a, 5+a))
	}
	mb := block.NewMagicBlock()
	mb.Miners, mb.Sharders = pool(node.NodeTypeMiner, miners), pool(node.NodeTypeSharder, sharders)
	mb.Hash = mb.GetHash()
	common.SetupRootContext(context.Background())
	go c.StartLFMBWorker(context.Background())
	c.SetMagicBlock(mb)
	lfb := &block.Block{}
	lfb.MagicBlock = mb
	c.SetLatestFinalizedMagicBlock(lfb)

	mpt := sc.NewMPT()
	{
		ctx := sc.NewCtx(mpt, 1, nil)
		must(minersc.InitConfig(ctx))
		must(storagesc.InitConfig(ctx))
		must(faucetsc.InitConfig(ctx))
		must(vestingsc.InitConfig(ctx))
		must(zcnsc.InitConfig(ctx))
		for _, name := range []string{"owner", "a1", "a2", "a3", "a4", "a5", "a6", "a7", "a8", "a9"} {
			setBalance(ctx, acct(name), 1000_0000000000)
		}
		for _, m := range append(append([]*nd{}, miners...), sharders...) {
			setBalance(ctx, m.id, 1000_0000000000)
		}
		setBalance(ctx, faucetsc.ADDRESS, 1000000_0000000000)
		setBalance(ctx, zcnsc.ADDRESS, 1000000_0000000000) // mint pays out of the contract address
	}
	nonce := map[string]int64{}
	scache := statecache.NewStateCache()
	var cur util.MerklePatriciaTrieI = mpt // the block state exec works on
	var subst []string                     // $m1 $s1 $auth1 $a1 ... in inputs -> ids
	for i, m := range miners {
		subst = append(subst, fmt.Sprintf("$m%d", i+1), m.id)
	}
	for i, m := range sharders {
		subst = append(subst, fmt.Sprintf("$s%d", i+1), m.id)
	}
	for i, m := range auths {
		subst = append(subst, fmt.Sprintf("$auth%d", i+1), m.id)
	}
	for i := 1; i <= 9; i++ {
		subst = append(subst, fmt.Sprintf("$a%d", i), acct(fmt.Sprintf("a%d", i)))
	}
	idSubst := strings.NewReplacer(subst...)
	var res result
	seq := 0
	prevHash := "verif genesis"
	exec := func(b *block.Block, bc *statecache.BlockCache, t stxn) (tr txnResult) {
		seq++
		from := acct(t.From)
		if strings.HasPrefix(t.From, "m") || strings.HasPrefix(t.From, "s") {
			var i int
			if _, err := fmt.Sscanf(t.From[1:], "%d", &i); err == nil {
				if t.From[0] == 'm' && i >= 1 && i <= len(miners) {
					from = miners[i-1].id
				} else if t.From[0] == 's' && i >= 1 && i <= len(sharders) {
					from = sharders[i-1].id
				}
			}
		}
		txn := &transaction.Transaction{}
		txn.Hash = encryption.Hash(fmt.Sprintf("verif determinism txn %d", seq))
		txn.ClientID = from
		txn.ToClientID = scAddr[t.SC]
		txn.Value = currency.Coin(t.Value)
		txn.Nonce = nonce[from] + 1
		txn.TransactionType = transaction.TxnTypeSmartContract
		txn.SmartContractData = &transaction.SmartContractData{}
		txn.CreationDate = common.Timestamp(base + t.TimeOffset)
		in := strings.ReplaceAll(idSubst.Replace(t.Input), "$round", fmt.Sprint(b.Round))
		if t.Mint != nil {
			p := &zcnsc.MintPayload{EthereumTxnID: fmt.Sprintf("0xeth%d", t.Mint.Nonce), Amount: currency.Coin(t.Mint.Amount), Nonce: t.Mint.Nonce, ReceivingClientID: from}
			toSign := p.GetStringToSign()
			if t.Mint.BadSig {
				q := *p
				q.Nonce = p.Nonce + 1000000
				toSign = q.GetStringToSign()
			}
			for _, a := range t.Mint.Signers {
				if a >= 1 && a <= len(auths) {
					sg, err := auths[a-1].sign(toSign)
					must(err)
					p.Signatures = append(p.Signatures, &zcnsc.AuthorizerSignature{ID: auths[a-1].id, Signature: sg})
				}
			}
			in = string(p.Encode())
		}
		if in == "" {
			in = "null"
		}
		txn.TransactionData = fmt.Sprintf(`{"name":%q,"input":%s}`, t.Fn, in)
		txn.FunctionName = t.Fn
		txn.InputData = []byte(in)
		defer func() {
			if r := recover(); r != nil {
				tr.Panic = fmt.Sprint(r)
			}
		}()
		evs, err := c.UpdateState(context.Background(), b, cur, txn, bc)
		if err != nil {
			tr.Err = err.Error()
			return tr
		}
		nonce[from]++
		tr.Applied, tr.Status, tr.Output = true, txn.Status, txn.TransactionOutput
		h := sha256.Sum256([]byte(txn.TransactionOutput))
		tr.OutHash = hex.EncodeToString(h[:8])
		for _, e := range evs {
			tr.Events = append(tr.Events, evString(e))
		}
		return tr
	}
	// register the nodes through the real contract (block 0)
	regBlock := func() {
		b := &block.Block{}
		b.Round = 1
		b.Hash = encryption.Hash("verif block reg")
		b.PrevBlock = &block.Block{}
		bc := statecache.NewBlockCache(scache, statecache.Block{Round: 1, Hash: b.Hash, PrevHash: prevHash})
		for _, m := range miners {
			if r := exec(b, bc, stxn{From: fmt.Sprintf("m%d", m.tok), SC: "miner", Fn: "add_miner", Input: string(nodeJSON(m, "m"))}); !r.Applied || r.Status != transaction.TxnSuccess {
				panic("add_miner: " + r.Err + r.Output)
			}
		}
		for _, s := range sharders {
			if r := exec(b, bc, stxn{From: fmt.Sprintf("s%d", s.tok-50), SC: "miner", Fn: "add_sharder", Input: string(nodeJSON(s, "s"))}); !r.Applied || r.Status != transaction.TxnSuccess {
				panic("add_sharder: " + r.Err + r.Output)
			}
		}
		for _, a := range auths {
			input, _ := json.Marshal(map[string]interface{}{"public_key": a.pub, "url": fmt.Sprintf("http://auth%d", a.tok),
				"stake_pool_settings": map[string]interface{}{"delegate_wallet": encryption.Hash("dw" + a.id), "num_delegates": 5, "service_charge": 0.1}})
			if r := exec(b, bc, stxn{From: "owner", SC: "zcn", Fn: "add-authorizer", Input: string(input)}); !r.Applied || r.Status != transaction.TxnSuccess {
				panic("add-authorizer: " + r.Err + r.Output)
			}
		}
		bc.Commit()
		prevHash = b.Hash
	}
	if len(miners)+len(sharders)+len(auths) > 0 {
		regBlock()
	}
	for bi, sb := range scn.Blocks {
		if scn.Cold {
			scache = statecache.NewStateCache()
		}
		b := &block.Block{}
		b.Round = int64(bi + 2)
		b.Hash = encryption.Hash(fmt.Sprintf("verif block %d", bi+2))
		b.PrevBlock = &block.Block{}
		if len(miners) > 0 {
			b.MinerID = miners[0].id
		}
		bc := statecache.NewBlockCache(scache, statecache.Block{Round: b.Round, Hash: b.Hash, PrevHash: prevHash})
		var trs []txnResult
		for _, t := range sb.Txns {
			if scn.Repeat > 0 && bi == len(scn.Blocks)-1 {
				// the same transaction on the same state, many times: every outcome must be the same
				runtime.GOMAXPROCS(16)
				vs, outs := map[string]int{}, map[string]int{}
				for k := 0; k < scn.Repeat; k++ {
					seq0, n0 := seq, map[string]int64{}
					for a, v := range nonce {
						n0[a] = v
					}
					cur = util.NewMerklePatriciaTrie(util.NewLevelNodeDB(util.NewMemoryNodeDB(), mpt.GetNodeDB(), false), 1, mpt.GetRoot(), statecache.NewEmpty())
					fbc := statecache.NewBlockCache(statecache.NewStateCache(), statecache.Block{Round: b.Round, Hash: b.Hash, PrevHash: prevHash})
					r := exec(b, fbc, t)
					cur, seq, nonce = mpt, seq0, n0
					vs[fmt.Sprintf("%v/%d/%s/%s/%s|%s", r.Applied, r.Status, r.Err, r.Panic, r.Output, strings.Join(r.Events, ","))]++
					outs[r.Output]++
				}
				res.Variants = append(res.Variants, vs)
				res.Outputs = append(res.Outputs, outs)
			}
			trs = append(trs, exec(b, bc, t))
		}
		bc.Commit()
		prevHash = b.Hash
		res.Txns = append(res.Txns, trs)
		res.Roots = append(res.Roots, hex.EncodeToString(mpt.GetRoot()))
		res.Changes = append(res.Changes, mpt.GetChangeCount())
	}
	return res
}

func setBalance(ctx *cstate.StateContext, id string, bal uint64) {
	s := state.State{}
	_ = s.SetTxnHash("0000000000000000000000000000000000000000000000000000000000000000")
	s.Balance = currency.Coin(bal)
	if _, err := ctx.SetClientState(id, &s); err != nil {
		panic(err)
	}
}

func sortedCopy(xs []string) []string {
	c := append([]string{}, xs...)
	sort.Strings(c)
	return c
}

func workerMain(scnFile, outFile string) {
	b, err := os.ReadFile(scnFile)
	must(err)
	var scn scenario
	must(json.Unmarshal(b, &scn))
	res := runWorker(scn)
	out, _ := json.Marshal(res)
	must(os.WriteFile(outFile, out, 0o644))
}

var _ = util.Path("")
