// Engine for C08: for every schema emitted by translators/msgpschema it builds random values of
// the real Go type (reflection guided by the schema), runs the generated MarshalMsg /
// UnmarshalMsg, checks losslessness and canonical re-encoding on the implementation (oracle),
// and emits cases for the Coq codec model: value + bytes, mutated inputs + decode outcome,
// entitywrapper migrations, and the fixed binary layout of state.State.
package main

import (
	"bytes"
	"encoding/hex"
	"encoding/json"
	"fmt"
	"math"
	"os"
	"reflect"
	"sort"
	"strings"
	"unsafe"

	"0chain.net/chaincore/block"
	"0chain.net/chaincore/node"
	"0chain.net/chaincore/state"
	"0chain.net/core/encryption"
	"0chain.net/core/util/entitywrapper"
	"github.com/0chain/common/core/currency"
	"github.com/0chain/common/core/logging"
	"github.com/tinylib/msgp/msgp"
	"verifharness/msgpreg"
	"verifharness/vh"
)

// ---------- schema (written by the translator) ----------

type Field struct {
	Key string  `json:"key"`
	Go  string  `json:"go"`
	T   *Schema `json:"t"`
}
type Alt struct {
	Tag string  `json:"tag"`
	Go  string  `json:"go"`
	T   *Schema `json:"t"`
}
type Schema struct {
	K      string  `json:"k"`
	Bits   int     `json:"bits"`
	Elem   *Schema `json:"elem"`
	Fields []Field `json:"fields"`
	Alts   []Alt   `json:"alts"`
	Wrap   string  `json:"wrap"`
	Go     string  `json:"gotype"`
}

// dropOf returns the Go type of a component whose UnmarshalMsg copies nothing back ("" if none).
func dropOf(s *Schema) string {
	if s == nil {
		return ""
	}
	if s.K == "drop" {
		return s.Go
	}
	if d := dropOf(s.Elem); d != "" {
		return d
	}
	for _, f := range s.Fields {
		if d := dropOf(f.T); d != "" {
			return d
		}
	}
	for _, a := range s.Alts {
		if d := dropOf(a.T); d != "" {
			return d
		}
	}
	return ""
}
type Entry struct {
	Name   string  `json:"name"`
	Pkg    string  `json:"pkg"`
	Type   string  `json:"type"`
	Schema *Schema `json:"schema"`
	Unsup  string  `json:"unsupported"`
}

type codec interface {
	MarshalMsg([]byte) ([]byte, error)
	UnmarshalMsg([]byte) ([]byte, error)
}

var validPK string

// ---------- random values ----------

func settable(v reflect.Value) reflect.Value {
	if v.CanSet() {
		return v
	}
	return reflect.NewAt(v.Type(), unsafe.Pointer(v.UnsafeAddr())).Elem()
}

// lean: values bound for the Coq side keep long strings and 15..17-element containers rare
// (every byte is a Gallina list element); the oracle-only runs use them freely.
var lean bool

// forced states of optional values (0 = random): pointers nil / pointer to the zero value /
// pointer to a filled value; slices, maps and byte slices nil / empty / non-empty
var ptrMode, contMode int

func randStr(r *vh.Rand) string {
	n := 0
	k := r.Intn(12)
	if lean && k >= 3 && k <= 5 && !r.Chance(1, 12) {
		k = 6
	}
	switch k {
	case 0:
		n = 0
	case 1:
		n = 31
	case 2:
		n = 32
	case 3:
		n = 255
	case 4:
		n = 256
	case 5:
		n = r.Range(257, 400)
	default:
		n = r.Range(1, 12)
	}
	b := make([]byte, n)
	alpha := []byte("abcxyz019_-:/ \"\\\x00\x7f\x80\xff")
	for i := range b {
		if r.Chance(1, 6) {
			b[i] = byte(r.Intn(256))
		} else {
			b[i] = alpha[r.Intn(len(alpha))]
		}
	}
	return string(b)
}

func randLen(r *vh.Rand, depth int) int {
	if depth > 3 {
		return r.Intn(2)
	}
	k := r.Intn(14)
	if lean && k <= 2 && (depth > 1 || !r.Chance(1, 6)) {
		k = 6
	}
	switch k {
	case 0:
		return 15
	case 1:
		return 16
	case 2:
		return 17
	case 3, 4, 5:
		return 0
	}
	return r.Range(1, 3)
}

func randInt(r *vh.Rand, bits int) int64 {
	edges := []int64{0, 1, -1, 127, 128, -32, -33, -128, -129, 255, 256, 32767, 32768, -32768, -32769, 65535, 65536,
		2147483647, 2147483648, -2147483648, -2147483649, 4294967295, 4294967296, 1 << 53, 1<<53 + 1, math.MaxInt64, math.MinInt64}
	x := edges[r.Intn(len(edges))]
	if r.Chance(1, 4) {
		x = int64(r.U64())
	}
	if bits < 64 {
		lo, hi := -(int64(1) << (bits - 1)), int64(1)<<(bits-1)-1
		if x < lo || x > hi {
			x = lo + int64(r.U64()%uint64(hi-lo+1))
			if r.Chance(1, 3) {
				x = hi
			} else if r.Chance(1, 3) {
				x = lo
			}
		}
	}
	return x
}

func randUint(r *vh.Rand, bits int) uint64 {
	edges := []uint64{0, 1, 127, 128, 255, 256, 65535, 65536, 4294967295, 4294967296, 1 << 53, 1 << 63, 1<<63 - 1, math.MaxUint64, 3 * 10000000000}
	x := edges[r.Intn(len(edges))]
	if r.Chance(1, 4) {
		x = r.U64()
	}
	if bits < 64 {
		m := uint64(1)<<bits - 1
		if x > m {
			x = x & m
			if r.Chance(1, 3) {
				x = m
			}
		}
	}
	return x
}

func randF64(r *vh.Rand) float64 {
	switch r.Intn(8) {
	case 0:
		return 0
	case 1:
		return math.Copysign(0, -1)
	case 2:
		return math.Inf(1)
	case 3:
		return math.Float64frombits(0x7ff8000000000001) // NaN
	case 4:
		return 0.1
	case 5:
		return math.SmallestNonzeroFloat64
	}
	return math.Float64frombits(r.U64())
}

func fill(v reflect.Value, s *Schema, r *vh.Rand, depth int, goName string) {
	v = settable(v)
	switch s.K {
	case "drop":
		fill(v, s.Elem, r, depth, goName)
	case "bool":
		v.SetBool(r.Bool())
	case "int":
		v.SetInt(randInt(r, s.Bits))
	case "uint":
		v.SetUint(randUint(r, s.Bits))
	case "f64":
		v.SetFloat(randF64(r))
	case "str":
		if goName == "PublicKey" {
			v.SetString(validPK)
		} else {
			v.SetString(randStr(r))
		}
	case "bin":
		switch {
		case contMode == 1 || (contMode == 0 && r.Chance(1, 5)):
			v.Set(reflect.Zero(v.Type()))
		case contMode == 2:
			v.SetBytes([]byte{})
		default:
			b := []byte(randStr(r))
			if contMode == 3 && len(b) == 0 {
				b = []byte{1}
			}
			v.SetBytes(b)
		}
	case "arr":
		n := randLen(r, depth)
		switch contMode {
		case 1:
			v.Set(reflect.Zero(v.Type()))
			return
		case 2:
			n = 0
		case 3:
			if n == 0 {
				n = 1
			}
		}
		if n == 0 && contMode == 0 && r.Bool() {
			v.Set(reflect.Zero(v.Type()))
			return
		}
		sl := reflect.MakeSlice(v.Type(), n, n)
		for i := 0; i < n; i++ {
			fill(sl.Index(i), s.Elem, r, depth+1, "elem") // stored lists and maps hold no nil entries
		}
		v.Set(sl)
	case "map":
		n := randLen(r, depth)
		switch contMode {
		case 1:
			v.Set(reflect.Zero(v.Type()))
			return
		case 2:
			n = 0
		case 3:
			if n == 0 {
				n = 1
			}
		}
		if n == 0 && contMode == 0 && r.Bool() {
			v.Set(reflect.Zero(v.Type()))
			return
		}
		m := reflect.MakeMap(v.Type())
		for i := 0; i < n; i++ {
			k := reflect.New(v.Type().Key()).Elem()
			k.SetString(randStr(r))
			e := reflect.New(v.Type().Elem()).Elem()
			fill(e, s.Elem, r, depth+1, "elem") // stored lists and maps hold no nil entries
			m.SetMapIndex(k, e)
		}
		v.Set(m)
	case "ptr":
		if goName != "elem" {
			switch {
			case ptrMode == 1, ptrMode == 0 && (r.Chance(1, 4) || depth > 6), depth > 8:
				v.Set(reflect.Zero(v.Type()))
				return
			case ptrMode == 2:
				if s.Elem.K != "ver" { // a wrapper needs an entity
					v.Set(reflect.New(v.Type().Elem())) // pointer to the zero value
					return
				}
			}
		}
		p := reflect.New(v.Type().Elem())
		if goName == "elem" {
			goName = ""
		}
		fill(p.Elem(), s.Elem, r, depth+1, goName)
		v.Set(p)
	case "struct":
		for _, f := range s.Fields {
			fv := v.FieldByName(f.Go)
			if !fv.IsValid() {
				panic(fmt.Sprintf("no field %s in %s", f.Go, v.Type()))
			}
			fill(fv, f.T, r, depth+1, f.Go)
		}
		if v.Type().Name() == "Pool" && strings.HasSuffix(v.Type().PkgPath(), "chaincore/node") {
			poolInvariant(v)
		}
		// a node/client identity is derived from its public key (SetPublicKey recomputes it)
		if pk := safeField(v, "PublicKey"); pk.IsValid() && pk.Kind() == reflect.String && pk.String() == validPK {
			if id := safeField(v, "ID"); id.IsValid() && id.Kind() == reflect.String {
				b, _ := hex.DecodeString(validPK)
				settable(id).SetString(encryption.Hash(b))
			}
		}
	case "ver":
		alt := s.Alts[r.Intn(len(s.Alts))]
		fillVer(v, s, alt, r, depth)
	default:
		panic("kind " + s.K)
	}
}

// poolInvariant makes a generated node.Pool a value a pool can hold: distinct valid public keys,
// node id = hash of the key, SetIndex = position in id order (Pool.UnmarshalMsg recomputes
// both through SetPublicKey and computeNodePositions).
func poolInvariant(v reflect.Value) {
	m := v.FieldByName("NodesMap")
	if !m.IsValid() || m.Kind() != reflect.Map {
		return
	}
	var keys []string
	for _, k := range m.MapKeys() {
		keys = append(keys, k.String())
	}
	sort.Strings(keys)
	type ent struct {
		id string
		n  reflect.Value
	}
	var es []ent
	for i, k := range keys {
		n := m.MapIndex(reflect.ValueOf(k).Convert(m.Type().Key()))
		if n.IsNil() {
			continue
		}
		pk := validPKs[i%len(validPKs)]
		b, _ := hex.DecodeString(pk)
		id := encryption.Hash(b)
		settable(safeField(n.Elem(), "PublicKey")).SetString(pk)
		settable(safeField(n.Elem(), "ID")).SetString(id)
		es = append(es, ent{id, n})
	}
	sort.SliceStable(es, func(i, j int) bool { return es[i].id < es[j].id })
	for i, e := range es {
		settable(e.n.Elem().FieldByName("SetIndex")).SetInt(int64(i))
	}
}

var validPKs []string

// safeField is FieldByName without the panic on a nil embedded pointer.
func safeField(v reflect.Value, name string) (f reflect.Value) {
	defer func() {
		if recover() != nil {
			f = reflect.Value{}
		}
	}()
	return v.FieldByName(name)
}

func newVersion(s *Schema, tag string) entitywrapper.EntityI {
	fs, ok := entitywrapper.GetEntityVersionFuncs(s.Wrap)
	if !ok {
		panic("wrapper not registered: " + s.Wrap)
	}
	f, ok := fs[tag]
	if !ok {
		panic("version not registered: " + s.Wrap + " " + tag)
	}
	return f()
}

func fillEntity(e entitywrapper.EntityI, alt Alt, r *vh.Rand, depth int) {
	ev := reflect.ValueOf(e).Elem()
	fill(ev, alt.T, r, depth+1, "")
	for _, f := range alt.T.Fields { // the version field is maintained by InitVersion
		if f.Key == "version" {
			settable(ev.FieldByName(f.Go)).SetString("")
		}
	}
}

func fillVer(v reflect.Value, s *Schema, alt Alt, r *vh.Rand, depth int) {
	e := newVersion(s, alt.Tag)
	fillEntity(e, alt, r, depth)
	e.InitVersion()
	v.Addr().MethodByName("SetEntity").Call([]reflect.Value{reflect.ValueOf(e)})
}

// ---------- rendering as a Coq value (also the canonical form compared by the oracle) ----------

func coqBytes(b []byte) string {
	printable := len(b) > 0
	for _, c := range b {
		if c < 0x20 || c > 0x7e || c == '"' {
			printable = false
		}
	}
	if printable {
		return "(mk \"" + string(b) + "\"%string)"
	}
	return vh.Bytes(b)
}

func zOfUint(u uint64) string { return fmt.Sprintf("%d", u) }

func render(v reflect.Value, s *Schema) string {
	switch s.K {
	case "drop":
		return render(v, s.Elem)
	case "bool":
		return "(VBool " + vh.Bool(v.Bool()) + ")"
	case "int":
		return "(VInt " + vh.Z(v.Int()) + ")"
	case "uint":
		return "(VInt " + zOfUint(v.Uint()) + ")"
	case "f64":
		return "(VF64 " + zOfUint(math.Float64bits(v.Float())) + ")"
	case "str":
		return "(VStr " + coqBytes([]byte(v.String())) + ")"
	case "bin":
		return "(VBin " + coqBytes(v.Bytes()) + ")"
	case "arr":
		xs := make([]string, v.Len())
		for i := range xs {
			xs[i] = render(v.Index(i), s.Elem)
		}
		return "(VArr " + vh.List(xs) + ")"
	case "map":
		keys := v.MapKeys()
		ks := make([]string, len(keys))
		for i, k := range keys {
			ks[i] = k.String()
		}
		sort.Strings(ks)
		xs := make([]string, len(ks))
		for i, k := range ks {
			kv := reflect.New(v.Type().Key()).Elem()
			kv.SetString(k)
			xs[i] = vh.Pair(coqBytes([]byte(k)), render(v.MapIndex(kv), s.Elem))
		}
		return "(VMap " + vh.List(xs) + ")"
	case "ptr":
		if v.IsNil() {
			return "(VPtr None)"
		}
		return "(VPtr (Some " + render(v.Elem(), s.Elem) + "))"
	case "struct":
		xs := make([]string, len(s.Fields))
		for i, f := range s.Fields {
			xs[i] = render(v.FieldByName(f.Go), f.T)
		}
		return "(VStruct " + vh.List(xs) + ")"
	case "ver":
		if !v.CanAddr() {
			c := reflect.New(v.Type()).Elem()
			c.Set(v)
			v = c
		}
		out := v.Addr().MethodByName("Entity").Call(nil)
		if out[0].IsNil() {
			return "(VVer [] (VStruct []))"
		}
		e := out[0].Interface().(entitywrapper.EntityI)
		tag := e.GetVersion()
		for _, a := range s.Alts {
			if a.Tag == tag {
				return "(VVer " + coqBytes([]byte(tag)) + " " + render(reflect.ValueOf(e).Elem(), a.T) + ")"
			}
		}
		return "(VVer " + coqBytes([]byte(tag)) + " (VStruct []))"
	}
	panic("kind " + s.K)
}

// ---------- mutation of encoded structs (decoder tie) ----------

type kvRaw struct{ k, v []byte }

// splitMap splits a top-level msgpack map into raw (key, value) byte ranges.
func splitMap(b []byte) ([]kvRaw, bool) {
	n, rest, err := msgp.ReadMapHeaderBytes(b)
	if err != nil {
		return nil, false
	}
	var out []kvRaw
	for i := uint32(0); i < n; i++ {
		a, err := msgp.Skip(rest)
		if err != nil {
			return nil, false
		}
		k := rest[:len(rest)-len(a)]
		c, err := msgp.Skip(a)
		if err != nil {
			return nil, false
		}
		v := a[:len(a)-len(c)]
		out = append(out, kvRaw{k, v})
		rest = c
	}
	return out, len(rest) == 0
}

func joinMap(kvs []kvRaw) []byte {
	b := msgp.AppendMapHeader(nil, uint32(len(kvs)))
	for _, kv := range kvs {
		b = append(b, kv.k...)
		b = append(b, kv.v...)
	}
	return b
}

func randObj(r *vh.Rand, depth int) []byte {
	switch r.Intn(9) {
	case 0:
		return msgp.AppendInt64(nil, randInt(r, 64))
	case 1:
		return msgp.AppendString(nil, randStr(r))
	case 2:
		return msgp.AppendBytes(nil, []byte(randStr(r)))
	case 3:
		return msgp.AppendNil(nil)
	case 4:
		return msgp.AppendFloat64(nil, 1.5)
	case 5:
		return msgp.AppendUint64(nil, randUint(r, 64))
	case 6:
		if depth < 3 {
			n := r.Range(0, 17)
			b := msgp.AppendArrayHeader(nil, uint32(n))
			for i := 0; i < n; i++ {
				b = append(b, randObj(r, depth+1)...)
			}
			return b
		}
	case 7:
		if depth < 3 {
			n := r.Range(0, 3)
			b := msgp.AppendMapHeader(nil, uint32(n))
			for i := 0; i < n; i++ {
				b = msgp.AppendString(b, randStr(r))
				b = append(b, randObj(r, depth+1)...)
			}
			return b
		}
	}
	return msgp.AppendBool(nil, r.Bool())
}

// mutate returns a variant of the canonical bytes and the name of the mutation.
func mutate(b []byte, r *vh.Rand) ([]byte, string) {
	kvs, ok := splitMap(b)
	x := r.Intn(8)
	if !ok || len(kvs) == 0 {
		x = r.Intn(2)
	}
	switch x {
	case 0:
		if len(b) > 0 {
			return append([]byte{}, b[:r.Intn(len(b))]...), "truncated"
		}
		return []byte{}, "truncated"
	case 1:
		return append(append([]byte{}, b...), randObj(r, 0)...), "trailing-bytes"
	case 2:
		p := r.Perm(len(kvs))
		out := make([]kvRaw, len(kvs))
		for i, j := range p {
			out[i] = kvs[j]
		}
		return joinMap(out), "keys-permuted"
	case 3:
		i := r.Intn(len(kvs))
		out := append(append([]kvRaw{}, kvs[:i]...), kvs[i+1:]...)
		return joinMap(out), "key-dropped"
	case 4:
		i := r.Intn(len(kvs))
		out := append(append([]kvRaw{}, kvs...), kvs[i])
		return joinMap(out), "key-repeated"
	case 5:
		out := append([]kvRaw{}, kvs...)
		i := r.Intn(len(out) + 1)
		nk := kvRaw{msgp.AppendString(nil, "zz_unknown_"+randStr(r)), randObj(r, 0)}
		out = append(out[:i], append([]kvRaw{nk}, out[i:]...)...)
		return joinMap(out), "unknown-key"
	case 6:
		// a key written as bin instead of str
		i := r.Intn(len(kvs))
		s, _, err := msgp.ReadStringBytes(kvs[i].k)
		if err == nil {
			out := append([]kvRaw{}, kvs...)
			out[i] = kvRaw{msgp.AppendBytes(nil, []byte(s)), kvs[i].v}
			return joinMap(out), "key-as-bin"
		}
	}
	// a value replaced by another object (type confusion)
	i := r.Intn(len(kvs))
	out := append([]kvRaw{}, kvs...)
	out[i] = kvRaw{kvs[i].k, randObj(r, 0)}
	return joinMap(out), "value-replaced"
}

// ---------- one value of one schema ----------

func newObj(e *Entry) (codec, reflect.Value) {
	ctor, ok := msgpreg.New[e.Name]
	if !ok || ctor == nil {
		panic("no constructor for " + e.Name)
	}
	o := ctor()
	c, ok := o.(codec)
	if !ok {
		panic(e.Name + " does not implement MarshalMsg/UnmarshalMsg")
	}
	return c, reflect.ValueOf(o).Elem()
}

func safeMarshal(c codec) (b []byte, err error) {
	defer func() {
		if r := recover(); r != nil {
			err = fmt.Errorf("panic: %v", r)
		}
	}()
	return c.MarshalMsg(nil)
}

func safeUnmarshal(c codec, b []byte) (rest []byte, err error) {
	defer func() {
		if r := recover(); r != nil {
			err = fmt.Errorf("panic: %v", r)
		}
	}()
	return c.UnmarshalMsg(b)
}

type input struct {
	Kind  string `json:"kind"` // enc | dec | mig | state | statedec
	Name  string `json:"name,omitempty"`
	Seed  uint64 `json:"seed,omitempty"`
	Bytes string `json:"bytes,omitempty"`
	Mut   string `json:"mutation,omitempty"`
	Old   string `json:"old,omitempty"`
	New   string `json:"new,omitempty"`
	Hash  *string `json:"hash,omitempty"`
	Round int64   `json:"round,omitempty"`
	Bal   uint64  `json:"balance,omitempty"`
	Nonce int64   `json:"nonce,omitempty"`
	PtrMode   int  `json:"ptr_mode,omitempty"`
	ContMode  int  `json:"cont_mode,omitempty"`
	ViaUpdate bool `json:"via_update,omitempty"`
	Lean      bool `json:"lean,omitempty"`
}

var entries map[string]*Entry

func main() {
	o := vh.ParseFlags()
	rep := vh.NewReport("msgpcodec", "C08", o)
	rep.CaseInputs = []interface{}{}
	rep.Rule = "for every schema of Gen/MsgpSchema.v: random values of the real Go type (ints/uints at every msgpack size-class boundary, strings of length 0/31/32/255/256/..., " +
		"slices and maps of length 0/15/16/17, nil and non-nil pointers, nil and empty containers, every registered entitywrapper version), marshalled, unmarshalled and marshalled again; " +
		"node pools and magic blocks with overlapping membership decoded in sequence against a warm node registry whose entries for the same ids and keys differ in every other field, then all re-encoded; mutated inputs (truncation, trailing bytes, permuted/dropped/repeated/unknown keys, bin keys, replaced values) decoded; migrations v(n)->v(n+1) of every wrapper; " +
		"State Encode/Decode with 0/31/32/33-byte and nil hashes and edge numbers. non-trivial = a value with at least one non-zero field whose bytes are longer than 8, or a mutated input, or a migration; distinct by bytes"
	cf := &vh.CasesFile{Imports: []string{"Base.Corr", "Model.Msgp", "Model.StateBin", "Gen.MsgpSchema", "Corr.Msgp"}, CaseType: "mpc_case", CheckFn: "mpc_check", Shard: 45}
	logging.InitLogging("development", "")

	raw, err := os.ReadFile("../build/gen/msgpschema.json")
	if err != nil {
		raw, err = os.ReadFile("/verif/build/gen/msgpschema.json")
	}
	if err != nil {
		panic(err)
	}
	var file struct {
		Entries []*Entry `json:"entries"`
	}
	if err := json.Unmarshal(raw, &file); err != nil {
		panic(err)
	}
	list := file.Entries
	entries = map[string]*Entry{}
	var names []string
	for _, e := range list {
		if e.Schema == nil {
			rep.Count("schema-unsupported")
			continue
		}
		entries[e.Name] = e
		names = append(names, e.Name)
	}
	sort.Strings(names)
	sch := encryption.NewBLS0ChainScheme()
	if err := sch.GenerateKeys(); err != nil {
		panic(err)
	}
	validPK = sch.GetPublicKey()
	for i := 0; i < 20; i++ {
		k := encryption.NewBLS0ChainScheme()
		if err := k.GenerateKeys(); err != nil {
			panic(err)
		}
		validPKs = append(validPKs, k.GetPublicKey())
	}

	// the smallest failing value per signature is reported
	type candT struct {
		size int
		desc string
		in   input
	}
	cand := map[string]candT{}
	viol := func(sig, desc string, in input, size int) {
		if c, ok := cand[sig]; !ok || size < c.size {
			cand[sig] = candT{size, desc, in}
		}
	}
	flush = func() {
		var sigs []string
		for s := range cand {
			sigs = append(sigs, s)
		}
		sort.Strings(sigs)
		for _, s := range sigs {
			rep.Violate(s, cand[s].desc, cand[s].in)
		}
	}
	addCase := func(term string, in input) {
		cf.Add(term)
		rep.CaseInputs = append(rep.CaseInputs, in)
	}

	// ---- enc: value -> bytes -> value -> bytes ----
	replayLean := -1
	doEnc := func(name string, seed uint64, toCoq bool) {
		lean = toCoq
		if replayLean >= 0 {
			lean = replayLean == 1
		}
		e := entries[name]
		r := vh.NewRand(seed)
		c, v := newObj(e)
		fill(v, e.Schema, r, 0, "")
		in := input{Kind: "enc", Name: name, Seed: seed, PtrMode: ptrMode, ContMode: contMode, Lean: lean}
		b1, err := safeMarshal(c)
		if err != nil {
			rep.Violate("C08:marshal-fails", name+": MarshalMsg of a generated value failed: "+err.Error(), in)
			rep.Case(name+fmt.Sprint(seed), false, in)
			return
		}
		r1 := render(v, e.Schema)
		b1b, _ := safeMarshal(c)
		if !bytes.Equal(b1, b1b) {
			rep.Violate("C08:marshal-not-deterministic", name+": two MarshalMsg calls on the same value differ", in)
		}
		c2, v2 := newObj(e)
		rest, err := safeUnmarshal(c2, b1)
		again := "None"
		sfx := ""
		if d := dropOf(e.Schema); d != "" {
			sfx = ":" + d // the component known to read back as its zero value
		}
		switch {
		case err != nil:
			rep.Violate("C08:unmarshal-of-own-bytes-fails", name+": "+err.Error(), in)
		case len(rest) != 0:
			rep.Violate("C08:unmarshal-leaves-bytes", name, in)
		default:
			r2 := render(v2, e.Schema)
			if r1 != r2 {
				if os.Getenv("VERIF_DEBUG") != "" {
					i := 0
					for i < len(r1) && i < len(r2) && r1[i] == r2[i] {
						i++
					}
					lo := i - 200
					if lo < 0 {
						lo = 0
					}
					fmt.Fprintf(os.Stderr, "DIFF %s at %d:\n A: %s\n B: %s\n", name, i, r1[lo:min(i+200, len(r1))], r2[lo:min(i+200, len(r2))])
				}
				viol("C08:round-trip-loses-data"+sfx, name+": decoded value differs from the encoded one", in, len(b1))
				rep.Count("round-trip-loses-data" + sfx)
			}
			b2, err := safeMarshal(c2)
			if (err != nil || !bytes.Equal(b1, b2)) && r1 == r2 {
				viol("C08:re-encoding-differs"+sfx, name+": bytes of the decoded value differ from the original bytes", in, len(b1))
			}
			if err == nil {
				again = vh.Some(vh.Bytes(b2))
			}
		}
		rep.Count("enc-" + e.Schema.K)
		rep.Case(hex.EncodeToString(b1), len(b1) > 8, in)
		if toCoq {
			addCase(fmt.Sprintf("McEnc %s %s %s %s", vh.Str(name), r1, vh.Bytes(b1), again), in)
		}
	}

	// ---- dec: mutated bytes ----
	doDec := func(name string, seed uint64, toCoq bool) {
		lean = toCoq
		e := entries[name]
		r := vh.NewRand(seed)
		c, v := newObj(e)
		fill(v, e.Schema, r, 0, "")
		b1, err := safeMarshal(c)
		if err != nil {
			return
		}
		mb, mname := mutate(b1, r)
		in := input{Kind: "dec", Name: name, Seed: seed, Mut: mname, Bytes: hex.EncodeToString(mb)}
		runDec(rep, e, mb, in, toCoq, addCase)
	}

	// ---- migrations ----
	type wrapperI interface {
		SetEntity(entitywrapper.EntityI)
		Entity() entitywrapper.EntityI
		Update(entitywrapper.EntityI, func(entitywrapper.EntityI) error) error
	}
	// rawFields: key -> encoded bytes of the value, from the entity's own MarshalMsg
	rawFields := func(e entitywrapper.EntityI) map[string][]byte {
		b, err := e.MarshalMsg(nil)
		if err != nil {
			return nil
		}
		kvs, ok := splitMap(b)
		if !ok {
			return nil
		}
		m := map[string][]byte{}
		for _, kv := range kvs {
			k, _, err := msgp.ReadStringBytes(kv.k)
			if err == nil {
				m[k] = kv.v
			}
		}
		return m
	}
	doMig := func(name string, seed uint64, pm, cm int, viaUpdate bool) {
		lean = true
		e := entries[name]
		s := e.Schema
		if s.K != "ver" {
			return
		}
		for i := 0; i+1 < len(s.Alts); i++ {
			r := vh.NewRand(seed + uint64(i))
			oa, na := s.Alts[i], s.Alts[i+1]
			old := newVersion(s, oa.Tag)
			ptrMode, contMode = pm, cm
			fillEntity(old, oa, r, 0)
			ptrMode, contMode = 0, 0
			old.InitVersion()
			in := input{Kind: "mig", Name: name, Seed: seed, Old: oa.Tag, New: na.Tag, PtrMode: pm, ContMode: cm, ViaUpdate: viaUpdate}
			oldRaw := rawFields(old)
			oldRender := render(reflect.ValueOf(old).Elem(), oa.T)
			var nw entitywrapper.EntityI
			if viaUpdate {
				// the path the contracts use: Wrapper.Update(&newVersion{}, f) migrates when versions differ
				c, _ := newObj(e)
				w, ok := c.(wrapperI)
				if !ok {
					continue
				}
				w.SetEntity(old)
				if err := w.Update(newVersion(s, na.Tag), func(entitywrapper.EntityI) error { return nil }); err != nil {
					viol("C08:migration-fails", name+" "+oa.Tag+"->"+na.Tag+" (Wrapper.Update): "+err.Error(), in, 0)
					continue
				}
				nw = w.Entity()
				if nw.GetVersion() != na.Tag {
					viol("C08:migration-version-not-set", name+" "+oa.Tag+"->"+na.Tag+" (Wrapper.Update)", in, 0)
					continue
				}
			} else {
				nw = newVersion(s, na.Tag)
				if err := nw.MigrateFrom(old); err != nil {
					viol("C08:migration-fails", name+" "+oa.Tag+"->"+na.Tag+": "+err.Error(), in, 0)
					continue
				}
			}
			nv := reflect.ValueOf(nw).Elem()
			newRaw := rawFields(nw)
			// oracle: every field present in both versions under the same key and schema keeps its
			// value, compared as encoded bytes (nil and pointer-to-zero are different values)
			for _, nf := range na.T.Fields {
				if nf.Key == "version" {
					if nv.FieldByName(nf.Go).String() != na.Tag {
						viol("C08:migration-version-not-set", name+" "+oa.Tag+"->"+na.Tag, in, 0)
					}
					continue
				}
				for _, of := range oa.T.Fields {
					if of.Key == nf.Key && reflect.DeepEqual(of.T, nf.T) {
						if !bytes.Equal(oldRaw[of.Key], newRaw[nf.Key]) {
							viol("C08:migration-loses-field", name+" "+oa.Tag+"->"+na.Tag+" field "+nf.Key+
								fmt.Sprintf(" (%x -> %x)", oldRaw[of.Key], newRaw[nf.Key]), in, len(oldRaw[of.Key]))
						}
					}
				}
			}
			rep.Count("migration-" + oa.Tag + "-" + na.Tag)
			if viaUpdate {
				rep.Count("migration-via-wrapper-update")
			}
			rep.Case(name+oa.Tag+fmt.Sprint(seed, pm, cm, viaUpdate), true, in)
			addCase(fmt.Sprintf("McMig %s %s %s %s %s", vh.Str(name), coqBytes([]byte(oa.Tag)), coqBytes([]byte(na.Tag)),
				oldRender, render(nv, na.T)), in)
		}
	}

	// ---- node pools / magic blocks against a warm, conflicting node registry ----
	// Stored pools with overlapping membership (map key = node id) are decoded one after the other
	// while the process-global node registry holds, for the same ids and keys, nodes whose other
	// fields differ; then ALL are re-encoded: every decoded value must still give its own bytes.
	doPools := func(seed uint64) {
		r := vh.NewRand(seed)
		in := input{Kind: "pools", Seed: seed}
		n := r.Range(3, 6)
		ids := make([]string, n)
		mkNode := func(i int, variant int) *node.Node {
			nd := node.Provider()
			pk := validPKs[i%len(validPKs)]
			b, _ := hex.DecodeString(pk)
			nd.ID = encryption.Hash(b)
			nd.PublicKey = pk
			nd.Type = node.NodeTypeMiner
			nd.N2NHost = fmt.Sprintf("n2n-%d-%d", i, variant)
			nd.Host = fmt.Sprintf("host-%d-%d", i, variant)
			nd.Port = 7000 + i + 100*variant
			nd.Path = fmt.Sprintf("p%d", i)
			nd.Description = fmt.Sprintf("node %d as of %d", i, variant)
			nd.Status = variant % 2
			nd.InPrevMB = variant%2 == 0
			nd.SetIndex = (i + variant) % n
			ids[i] = nd.ID
			return nd
		}
		// the registry: same ids and keys, everything else different, signature scheme set
		for i := 0; i < n; i++ {
			if r.Chance(4, 5) {
				rn := mkNode(i, 7+r.Intn(3))
				if err := rn.SetPublicKey(rn.PublicKey); err == nil {
					node.RegisterNode(rn)
					rep.Count("pools-registry-node-warm")
				}
			} else {
				mkNode(i, 0)
			}
		}
		// stored pools: overlapping, different membership
		var members [][]int
		all := r.Perm(n)
		members = append(members, all)
		members = append(members, all[1:])
		members = append(members, all[:n-1])
		if r.Bool() {
			members = append(members, []int{all[0], all[n-1]})
		}
		type stored struct {
			name  string
			obj   codec
			val   reflect.Value
			bytes []byte
			rend  string
		}
		var st []stored
		for mi, ms := range members {
			p := node.NewPool(node.NodeTypeMiner)
			for _, i := range ms {
				nd := mkNode(i, 1+mi%2)
				p.NodesMap[nd.ID] = nd
			}
			// SetIndex = position in id order, as the pool computes it
			var ks []string
			for k := range p.NodesMap {
				ks = append(ks, k)
			}
			sort.Strings(ks)
			for idx, k := range ks {
				p.NodesMap[k].SetIndex = idx
			}
			name := "node.Pool"
			var c codec = p
			val := reflect.ValueOf(p).Elem()
			if mi%2 == 1 { // every other one wrapped in a magic block
				mb := block.NewMagicBlock()
				mb.Hash = encryption.Hash(fmt.Sprintf("mb-%d-%d", seed, mi))
				mb.MagicBlockNumber = int64(mi + 1)
				mb.StartingRound = int64(100 * mi)
				mb.Miners = p
				mb.Sharders = node.NewPool(node.NodeTypeSharder)
				mb.T, mb.K, mb.N = 2, 3, len(ms)
				name, c, val = "block.MagicBlock", mb, reflect.ValueOf(mb).Elem()
			}
			b, err := safeMarshal(c)
			if err != nil {
				viol("C08:marshal-fails", name+": "+err.Error(), in, 0)
				return
			}
			st = append(st, stored{name, c, val, b, render(val, entries[name].Schema)})
		}
		// decode all, in sequence; then re-encode all
		type decoded struct {
			c   codec
			val reflect.Value
		}
		var ds []decoded
		for _, x := range st {
			c2, v2 := newObj(entries[x.name])
			if rest, err := safeUnmarshal(c2, x.bytes); err != nil || len(rest) != 0 {
				viol("C08:unmarshal-of-own-bytes-fails", x.name+" (warm node registry): "+fmt.Sprint(err), in, len(x.bytes))
				return
			}
			ds = append(ds, decoded{c2, v2})
		}
		for i, x := range st {
			again := "None"
			b2, err := safeMarshal(ds[i].c)
			if err == nil {
				again = vh.Some(vh.Bytes(b2))
			}
			if render(ds[i].val, entries[x.name].Schema) != x.rend {
				viol("C08:decode-depends-on-process-registry", x.name+": the decoded value differs from the stored one with a warm, conflicting node registry or after later decodes", in, len(x.bytes))
			} else if err != nil || !bytes.Equal(b2, x.bytes) {
				viol("C08:re-encoding-differs", x.name+": bytes of the decoded value differ from the stored bytes (warm node registry / later decodes)", in, len(x.bytes))
			}
			rep.Count("pools-decoded-and-re-encoded")
			rep.Case(hex.EncodeToString(x.bytes)+fmt.Sprint(seed, i), true, in)
			addCase(fmt.Sprintf("McEnc %s %s %s %s", vh.Str(x.name), x.rend, vh.Bytes(x.bytes), again), in)
		}
	}

	var rin input
	if o.LoadReplay(&rin) {
		switch rin.Kind {
		case "enc":
			ptrMode, contMode = rin.PtrMode, rin.ContMode
			replayLean = 0
			if rin.Lean {
				replayLean = 1
			}
			doEnc(rin.Name, rin.Seed, true)
			ptrMode, contMode = 0, 0
		case "dec":
			b, _ := hex.DecodeString(rin.Bytes)
			runDec(rep, entries[rin.Name], b, rin, true, addCase)
		case "pools":
			lean = true
			doPools(rin.Seed)
		case "mig":
			doMig(rin.Name, rin.Seed, rin.PtrMode, rin.ContMode, rin.ViaUpdate)
		case "state":
			doState(rep, rin, addCase)
		case "statedec":
			doStateDec(rep, rin, addCase)
		}
		finish(rep, cf, o)
		return
	}

	rnd := vh.NewRand(o.Seed)
	for _, name := range names {
		for k := 0; k < o.N(1, 4); k++ {
			doEnc(name, rnd.U64(), true)
		}
		for k := 0; k < o.N(6, 60); k++ {
			doEnc(name, rnd.U64(), false)
		}
		for m := 1; m <= 3; m++ { // every optional value nil / zero / filled
			ptrMode, contMode = m, m
			doEnc(name, rnd.U64(), false)
			ptrMode, contMode = 0, 0
		}
		for k := 0; k < o.N(1, 4); k++ {
			doDec(name, rnd.U64(), true)
		}
		for k := 0; k < o.N(4, 40); k++ {
			doDec(name, rnd.U64(), false)
		}
		if entries[name].Schema.K == "ver" {
			// every optional value in each of its states, both migration paths
			for _, via := range []bool{false, true} {
				for pm := 1; pm <= 3; pm++ {
					for cm := 1; cm <= 3; cm++ {
						doMig(name, rnd.U64(), pm, cm, via)
					}
				}
				for k := 0; k < o.N(3, 12); k++ {
					doMig(name, rnd.U64(), 0, 0, via)
				}
			}
		}
	}
	lean = true
	for k := 0; k < o.N(6, 60); k++ {
		doPools(rnd.U64())
	}
	// ---- State ----
	for k := 0; k < o.N(40, 400); k++ {
		in := input{Kind: "state", Round: randInt(rnd, 64), Bal: randUint(rnd, 64), Nonce: randInt(rnd, 64)}
		hl := []int{32, 32, 32, 32, 0, 31, 33, 64, -1}[rnd.Intn(9)]
		if hl >= 0 {
			h := make([]byte, hl)
			for i := range h {
				h[i] = byte(rnd.Intn(256))
			}
			hs := hex.EncodeToString(h)
			in.Hash = &hs
		}
		doState(rep, in, addCase)
	}
	for k := 0; k < o.N(20, 200); k++ {
		n := []int{0, 1, 31, 32, 39, 40, 55, 56, 57, 80}[rnd.Intn(10)]
		b := make([]byte, n)
		for i := range b {
			b[i] = byte(rnd.Intn(256))
		}
		doStateDec(rep, input{Kind: "statedec", Bytes: hex.EncodeToString(b)}, addCase)
	}
	rep.Note("%d schemas exercised", len(names))
	finish(rep, cf, o)
}

func runDec(rep *vh.Report, e *Entry, mb []byte, in input, toCoq bool, addCase func(string, input)) {
	c, _ := newObj(e)
	rest, err := safeUnmarshal(c, mb)
	out := "None"
	if err != nil && strings.HasPrefix(err.Error(), "panic:") {
		// a malformed input, not a stored value: recorded, outside the property
		rep.Count("dec-" + in.Mut + "-panics")
		rep.Case(in.Bytes, true, in)
		return
	}
	if err == nil {
		again, err2 := safeMarshal(c)
		if err2 != nil {
			// decoded into something that cannot be marshalled (e.g. a wrapper without entity)
			rep.Count("dec-ok-but-not-marshallable")
			rep.Case(in.Bytes, true, in)
			return
		}
		out = vh.Some(vh.Pair(vh.Bytes(again), vh.Bytes(rest)))
		rep.Count("dec-" + in.Mut + "-accepted")
		// oracle: what was accepted re-encodes canonically (decode of the re-encoding gives the same bytes)
		c3, _ := newObj(e)
		if r3, err := safeUnmarshal(c3, again); err != nil || len(r3) != 0 {
			rep.Violate("C08:accepted-input-not-stable", e.Name+": the re-encoding of an accepted input does not decode", in)
		} else if b3, err := safeMarshal(c3); err != nil || !bytes.Equal(b3, again) {
			rep.Violate("C08:accepted-input-not-stable", e.Name+": the re-encoding of an accepted input is not a fixed point", in)
		}
	} else {
		rep.Count("dec-" + in.Mut + "-rejected")
	}
	rep.Case(in.Bytes, true, in)
	if toCoq {
		addCase(fmt.Sprintf("McDec %s %s %s", vh.Str(e.Name), vh.Bytes(mb), out), in)
	}
}

func stateTerm(h []byte, hasHash bool, round int64, bal uint64, nonce int64) string {
	hs := "None"
	if hasHash {
		hs = vh.Some(vh.Bytes(h))
	}
	return fmt.Sprintf("{| sb_hash := %s; sb_round := %s; sb_balance := %d; sb_nonce := %s |}", hs, vh.Z(round), bal, vh.Z(nonce))
}

func doState(rep *vh.Report, in input, addCase func(string, input)) {
	s := &state.State{Round: in.Round, Balance: currency.Coin(in.Bal), Nonce: in.Nonce}
	var h []byte
	if in.Hash != nil {
		h, _ = hex.DecodeString(*in.Hash)
		if h == nil {
			h = []byte{}
		}
		s.TxnHashBytes = h
	}
	var enc []byte
	panicked := false
	func() {
		defer func() {
			if r := recover(); r != nil {
				panicked = true
			}
		}()
		enc = s.Encode()
	}()
	encT, decT := "None", "None"
	if !panicked {
		encT = vh.Some(vh.Bytes(enc))
		d := &state.State{}
		if err := d.Decode(enc); err == nil {
			decT = vh.Some(stateTerm(d.TxnHashBytes, true, d.Round, uint64(d.Balance), d.Nonce))
			same := bytes.Equal(d.TxnHashBytes, h) && d.Round == s.Round && d.Balance == s.Balance && d.Nonce == s.Nonce
			if len(h) == 32 && !same {
				rep.Violate("C08:state-round-trip-differs", "State.Decode(Encode(s)) != s with a 32-byte hash", in)
			}
			if len(h) == 32 {
				rep.Count("state-round-trip")
			} else if same {
				rep.Count("state-unguarded-still-equal")
			} else {
				rep.Count("state-unguarded-differs")
			}
		} else {
			if len(h) == 32 {
				rep.Violate("C08:state-round-trip-differs", "State.Decode(Encode(s)) fails with a 32-byte hash", in)
			}
			rep.Count("state-unguarded-decode-error")
		}
		// MarshalMsg/UnmarshalMsg are Encode/Decode
		if m, _ := s.MarshalMsg(nil); !bytes.Equal(m, enc) {
			rep.Violate("C08:state-marshal-is-not-encode", "State.MarshalMsg differs from Encode", in)
		}
	} else {
		if in.Hash != nil {
			rep.Violate("C08:state-encode-panics", "State.Encode panics with a non-nil hash", in)
		}
		rep.Count("state-nil-hash-panics")
	}
	rep.Case(fmt.Sprintf("state%v%d%d%d", in.Hash, in.Round, in.Bal, in.Nonce), true, in)
	addCase(fmt.Sprintf("McState %s %s %s", stateTerm(h, in.Hash != nil, in.Round, in.Bal, in.Nonce), encT, decT), in)
}

func doStateDec(rep *vh.Report, in input, addCase func(string, input)) {
	b, _ := hex.DecodeString(in.Bytes)
	d := &state.State{}
	decT := "None"
	if err := d.Decode(b); err == nil {
		decT = vh.Some(stateTerm(d.TxnHashBytes, true, d.Round, uint64(d.Balance), d.Nonce))
		rep.Count("state-decode-ok")
	} else {
		rep.Count("state-decode-error")
	}
	rep.Case("sd"+in.Bytes, true, in)
	addCase(fmt.Sprintf("McStateDec %s %s", vh.Bytes(b), decT), in)
}

var flush = func() {}

func finish(rep *vh.Report, cf *vh.CasesFile, o vh.Opts) {
	flush()
	files, err := cf.Write(o.Out, "C08")
	if err != nil {
		panic(err)
	}
	rep.CaseFiles = files
	rep.ShardSize = 45
	rep.Write(o.Out)
}
