(* Correspondence for C39: a case is one call of the real SimpleNodes.reduce (through the
   verif hook) with the selected id set and the returned size; [rd_check] re-runs the model.
   Candidates are listed in generation order: the iteration order of the Go map is not observable,
   and irrelevant by C39_deterministic. rdc_perms = rand.New(rand.NewSource(seed)).Perm(n) for
   n = 0..#candidates, computed by Go's math/rand (recorded input). *)
From ZC Require Import Base.Corr Model.Reduce.
Open Scope Z_scope.

(* the code in /repo has the F-39 scan; set to true when the repair is committed *)
Definition rd_code_is_fixed : bool := true.

Record rd_case := { rdc_nodes : list (Z * Z); rdc_prev : option (list Z); rdc_limit : Z; rdc_xc : Z;
                    rdc_perms : list (list nat); rdc_sel : option (list Z); rdc_ret : Z }.

Fixpoint rd_zins (x : Z) (l : list Z) : list Z :=
  match l with [] => [x] | y :: t => if Z.ltb y x then y :: rd_zins x t else x :: y :: t end.
Definition rd_zsort (l : list Z) : list Z := fold_right rd_zins [] l.

Definition rd_check (c : rd_case) : bool :=
  match rd_reduce rd_code_is_fixed (rdc_nodes c) (rdc_prev c) (rdc_limit c) (rdc_xc c)
                  (fun n => nth n (rdc_perms c) []), rdc_sel c with
  | Some (sel, m), Some ids => list_eqb Z.eqb (rd_zsort (map rd_id sel)) ids && Z.eqb m (rdc_ret c)
  | None, None => true
  | _, _ => false
  end.
