(* Correspondence for C18: settings and a request list run on the real zcnsc contract
   (signature bits and the fee receiver recorded from the run) with the outcome of every request. *)
From ZC Require Import Base.Corr Model.ZcnMint.
Open Scope Z_scope.

Record zm_case := { zmc_pbits : Z; zmc_min_mint : Z; zmc_max_fee : Z; zmc_min_stake : Z;
                    zmc_ops : list zm_op; zmc_outs : list zm_out }.

Definition zm_tr_eqb (x y : Z * Z * Z) : bool := zz_eqb (fst x) (fst y) && (snd x =? snd y).

Definition zm_out_eqb (a b : zm_out) : bool :=
  match a, b with
  | ZmOk, ZmOk => true
  | ZmFail, ZmFail => true
  | ZmMinted t1 p1 c1, ZmMinted t2 p2 c2 => list_eqb zm_tr_eqb t1 t2 && (p1 =? p2) && (c1 =? c2)
  | _, _ => false
  end.

Definition zm_check (c : zm_case) : bool :=
  list_eqb zm_out_eqb
    (snd (zm_run (zm_init (zmc_pbits c) (zmc_min_mint c) (zmc_max_fee c) (zmc_min_stake c)) (zmc_ops c)))
    (zmc_outs c).
