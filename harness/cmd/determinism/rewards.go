// Stake-pool rewards stream (C06): one provider with 2-12 delegates, a reward that does not split exactly, N
// (number of rewarded delegates) below / equal to / above the delegate count; the same reward is applied many times
// to fresh copies of the same committed state through the real StakePool.DistributeRewardsRandN (the minersc fee and
// block reward path). Every copy decodes the stake pool anew, so the Go map of delegate pools iterates from another
// random position each time. State root and emitted events must be the same in every execution.
package main

import (
	"encoding/hex"
	"encoding/json"
	"fmt"
	"sort"

	"0chain.net/smartcontract/stakepool"
	"0chain.net/smartcontract/stakepool/spenum"
	"github.com/0chain/common/core/currency"
	"github.com/0chain/common/core/statecache"
	"github.com/0chain/common/core/util"
	"verifharness/sc"
	"verifharness/vh"
)

type rewardCase struct {
	Balances []uint64 `json:"balances"` // stake of delegate i (id d<i>)
	Value    uint64   `json:"value"`
	N        int      `json:"n"` // delegates rewarded (num_miner_delegates_rewarded)
	Seed     int64    `json:"seed"`
	Charge   float64  `json:"service_charge"`
	Reps     int      `json:"reps"`
}

func genReward(r *vh.Rand, reps int) rewardCase {
	k := r.Range(2, 12)
	rc := rewardCase{Seed: int64(r.Intn(1 << 30)), Reps: reps, Charge: []float64{0, 0.1, 0.25}[r.Intn(3)]}
	equal := r.Bool()
	for i := 0; i < k; i++ {
		b := uint64(10_0000000000)
		if !equal {
			b = uint64(r.Range(1, 50)) * 1_0000000000
		}
		rc.Balances = append(rc.Balances, b)
	}
	rc.N = []int{k - 1, k, k, k + 3, 10, 1}[r.Intn(6)]
	if rc.N < 1 {
		rc.N = 1
	}
	// a value whose delegate part leaves a remainder for most delegate counts
	rc.Value = uint64(r.Range(1, 1000))*uint64(k) + uint64(r.Range(1, k-1)) + 7*uint64(r.Intn(2))
	return rc
}

// distinct outcomes (state root, per-delegate rewards, events) with their counts
func runReward(rc rewardCase) (map[string]int, string) {
	base := sc.NewMPT()
	{
		ctx := sc.NewCtx(base, 100, nil)
		sp := stakepool.NewStakePool()
		sp.Settings.ServiceChargeRatio = rc.Charge
		sp.Settings.DelegateWallet = "wallet"
		sp.Settings.MaxNumDelegates = 20
		for i, b := range rc.Balances {
			id := fmt.Sprintf("d%02d", i)
			sp.Pools[id] = &stakepool.DelegatePool{Balance: currency.Coin(b), Status: spenum.Active, DelegateID: id, RoundCreated: 1}
		}
		must(sp.Save(spenum.Miner, "prov", ctx))
	}
	out := map[string]int{}
	first := ""
	for k := 0; k < rc.Reps; k++ {
		fork := util.NewMerklePatriciaTrie(util.NewLevelNodeDB(util.NewMemoryNodeDB(), base.GetNodeDB(), false), 1, base.GetRoot(), statecache.NewEmpty())
		ctx := sc.NewCtx(fork, 100, nil)
		sp := stakepool.NewStakePool()
		must(sp.Get(spenum.Miner, "prov", ctx))
		res := ""
		if err := sp.DistributeRewardsRandN(currency.Coin(rc.Value), "prov", spenum.Miner, rc.Seed, rc.N, spenum.BlockRewardMiner, ctx); err != nil {
			res = "error: " + err.Error()
		}
		must(sp.Save(spenum.Miner, "prov", ctx))
		var ids []string
		for id := range sp.Pools {
			ids = append(ids, id)
		}
		sort.Strings(ids)
		for _, id := range ids {
			res += fmt.Sprintf(" %s=%d", id, sp.Pools[id].Reward)
		}
		for _, e := range ctx.GetEvents() {
			d, _ := json.Marshal(e.Data)
			res += fmt.Sprintf(" | event %d/%s %s", e.Tag, e.Index, d)
		}
		res = "root " + hex.EncodeToString(fork.GetRoot())[:12] + " provider=" + fmt.Sprint(sp.Reward) + res
		out[res]++
		if first == "" {
			first = res
		}
	}
	return out, first
}
