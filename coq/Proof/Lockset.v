(* Proofs for C44: a lockset discipline implies the absence of data races. *)
From ZC Require Import Model.Lockset.
Open Scope string_scope.

Lemma ls_event_eq_dec (x y : ls_event) : {x = y} + {x <> y}.
Proof.
  decide equality; try apply Nat.eq_dec; try apply Bool.bool_dec; try apply string_dec.
  decide equality; try apply Bool.bool_dec; try apply string_dec.
  apply list_eq_dec. decide equality; try apply Bool.bool_dec; try apply string_dec.
Qed.

(* is there a given event strictly between lo and hi? (decidable: bounded search) *)
Lemma ls_find_between (tr : ls_trace) (e : ls_event) (lo hi : nat) :
  (exists k, lo < k /\ k < hi /\ nth_error tr k = Some e) \/
  (forall k, lo < k -> k < hi -> nth_error tr k <> Some e).
Proof.
  induction hi as [|h IH].
  - right. intros k _ H. lia.
  - destruct IH as [[k [H1 [H2 H3]]]|IH].
    + left. exists k. repeat split; auto.
    + destruct (lt_dec lo h) as [Hl|Hl].
      * destruct (nth_error tr h) as [e'|] eqn:En.
        -- destruct (ls_event_eq_dec e' e) as [->|Hne].
           ++ left. exists h. repeat split; auto.
           ++ right. intros k Hk1 Hk2. destruct (Nat.eq_dec k h) as [->|].
              ** rewrite En. congruence.
              ** apply IH; lia.
        -- right. intros k Hk1 Hk2. destruct (Nat.eq_dec k h) as [->|].
           ++ rewrite En. discriminate.
           ++ apply IH; lia.
      * right. intros k Hk1 Hk2. lia.
Qed.

(* two accesses made under a common mutex, one of them holding it exclusively, are ordered *)
Lemma ls_common_lock_ordered (tr : ls_trace) i j t1 t2 o a b m ea eb :
  ls_wf_mutex tr -> ls_respects tr ->
  i < j -> nth_error tr i = Some (EAcc t1 o a) -> nth_error tr j = Some (EAcc t2 o b) -> t1 <> t2 ->
  In (m, ea) (la_locks a) -> In (m, eb) (la_locks b) -> ea = true \/ eb = true ->
  ls_hb tr i j.
Proof.
  intros Hwf Hres Hij Hi Hj Hne Hla Hlb Hex.
  pose proof (Hres _ _ _ _ Hi _ _ Hla) as Ha.
  pose proof (Hres _ _ _ _ Hj _ _ Hlb) as Hb.
  destruct Hb as [k2 [Hk2 [Hacq2 Hnr2]]].
  destruct (lt_eq_lt_dec k2 i) as [[Hlt|Heq]|Hgt].
  - (* t2 already held the mutex at i: both hold it at i *)
    assert (Hb' : ls_holds tr i t2 o m eb).
    { exists k2. repeat split; auto. intros k' H1 H2. apply Hnr2; lia. }
    destruct (Hwf _ _ _ _ _ _ _ Hne Ha Hb') as [E1 E2]. destruct Hex; congruence.
  - subst k2. rewrite Hi in Hacq2. discriminate.
  - (* t2 acquired after i: t1 must have released in between *)
    destruct (ls_find_between tr (ERel t1 o m ea) i k2) as [[k1 [H1 [H2 H3]]]|Hnone].
    + apply hb_trans with (j := k1).
      * eapply hb_po; eauto.
      * apply hb_trans with (j := k2).
        -- eapply hb_sw; eauto.
        -- eapply hb_po; eauto.
    + exfalso.
      destruct Ha as [k1 [Hk1 [Hacq1 Hnr1]]].
      assert (Ha' : ls_holds tr (S k2) t1 o m ea).
      { exists k1. repeat split; auto; try lia. intros k' H1 H2.
        destruct (lt_eq_lt_dec k' i) as [[Hl|He]|Hg].
        - apply Hnr1; auto.
        - subst k'. rewrite Hi. discriminate.
        - destruct (Nat.eq_dec k' k2) as [->|Hn2].
          + rewrite Hacq2. discriminate.
          + apply Hnone; lia. }
      assert (Hb' : ls_holds tr (S k2) t2 o m eb).
      { exists k2. repeat split; auto. intros k' H1 H2. lia. }
      destruct (Hwf _ _ _ _ _ _ _ Hne Ha' Hb') as [E1 E2]. destruct Hex; congruence.
Qed.

(* generic theorem: if every pair of conflicting accesses that can meet holds a common mutex (one
   side exclusively), no well-formed trace has a data race *)
Theorem ls_lockset_discipline_race_free (tr : ls_trace) :
  ls_wf_mutex tr -> ls_respects tr ->
  (forall i j t1 t2 o a b, nth_error tr i = Some (EAcc t1 o a) -> nth_error tr j = Some (EAcc t2 o b) ->
     t1 <> t2 -> ls_conflict a b ->
     exists m ea eb, In (m, ea) (la_locks a) /\ In (m, eb) (la_locks b) /\ (ea = true \/ eb = true)) ->
  forall i j a b, ~ ls_race tr i j a b.
Proof.
  intros Hwf Hres Hd i j a b [t1 [t2 [o [Hij [Hi [Hj [Hne [Hc Hnhb]]]]]]]].
  destruct (Hd _ _ _ _ _ _ _ Hi Hj Hne Hc) as [m [ea [eb [Hla [Hlb Hex]]]]].
  apply Hnhb. eapply ls_common_lock_ordered; eauto.
Qed.

(* ---------- boolean check <-> propositions ---------- *)
Lemma lt_common_spec a b :
  lt_common a b = true ->
  exists m ea eb, In (m, ea) (la_locks a) /\ In (m, eb) (la_locks b) /\ (ea = true \/ eb = true).
Proof.
  unfold lt_common. rewrite existsb_exists. intros [[ma ea] [Ha Hb]].
  rewrite existsb_exists in Hb. destruct Hb as [[mb eb] [Hb He]].
  apply andb_true_iff in He. destruct He as [Hn Hx]. simpl in *.
  apply String.eqb_eq in Hn. subst mb.
  exists ma, ea, eb. repeat split; auto. apply orb_true_iff in Hx. auto.
Qed.

Lemma lt_conflict_of_prop a b :
  ls_conflict a b -> (la_method a <> la_method b \/ (la_multi a = true /\ la_multi b = true)) -> lt_conflict a b = true.
Proof.
  intros [Ht [Hf [Hw Hat]]] Hm. unfold lt_conflict, lt_same_loc.
  rewrite Ht, Hf, !String.eqb_refl. simpl.
  assert (Hw' : la_write a || la_write b = true) by (apply orb_true_iff; auto).
  rewrite Hw'. simpl.
  assert (Ha' : negb (la_atomic a && la_atomic b) = true).
  { apply negb_true_iff. destruct (la_atomic a) eqn:E1, (la_atomic b) eqn:E2; auto. exfalso. apply Hat. auto. }
  rewrite Ha'. simpl.
  destruct Hm as [Hm|Hm].
  - apply orb_true_iff. left. apply negb_true_iff. apply String.eqb_neq. auto.
  - destruct Hm as [M1 M2]. rewrite M1, M2. apply orb_true_r.
Qed.

Lemma lt_disciplined_spec ex tbl a b :
  lt_disciplined ex tbl = true -> In a tbl -> In b tbl -> lt_ok ex a b = true.
Proof.
  unfold lt_disciplined. intros H Ha Hb.
  rewrite forallb_forall in H. specialize (H a Ha). rewrite forallb_forall in H. auto.
Qed.

(* table theorem: when the generated table passes the check, any race of any well-formed trace
   over the table is between a pair of rows that the exclusion list names *)
Theorem ls_no_race_for_table ex tbl :
  lt_disciplined ex tbl = true ->
  forall tr, ls_wf_mutex tr -> ls_respects tr -> ls_from_table tbl tr -> ls_threads_ok tr ->
  forall i j a b, ls_race tr i j a b -> lt_excluded ex a b = true.
Proof.
  intros Hd tr Hwf Hres Hft Hth i j a b Hr.
  pose proof Hr as [t1 [t2 [o [Hij [Hi [Hj [Hne [Hc Hnhb]]]]]]]].
  pose proof (lt_disciplined_spec _ _ _ _ Hd (Hft _ _ _ _ Hi) (Hft _ _ _ _ Hj)) as Hok.
  unfold lt_ok in Hok.
  assert (Hcf : lt_conflict a b = true).
  { apply lt_conflict_of_prop; auto.
    destruct (string_dec (la_method a) (la_method b)) as [E|E]; auto.
    right. split; [eapply (Hth i j); eauto|eapply (Hth j i); eauto]. }
  rewrite Hcf in Hok. simpl in Hok.
  destruct (lt_common a b) eqn:Ecm; simpl in Hok; auto.
  exfalso. destruct (lt_common_spec _ _ Ecm) as [m [ea [eb [Hla [Hlb Hex]]]]].
  apply Hnhb. eapply ls_common_lock_ordered; eauto.
Qed.

(* with an empty exclusion list: no race at all *)
Corollary ls_no_race_when_fully_disciplined tbl :
  lt_disciplined [] tbl = true ->
  forall tr, ls_wf_mutex tr -> ls_respects tr -> ls_from_table tbl tr -> ls_threads_ok tr ->
  forall i j a b, ~ ls_race tr i j a b.
Proof.
  intros Hd tr H1 H2 H3 H4 i j a b Hr.
  pose proof (ls_no_race_for_table [] tbl Hd tr H1 H2 H3 H4 i j a b Hr) as He. discriminate.
Qed.

(* ---------- an undisciplined pair really races: a witness trace ---------- *)
(* goroutine 1 takes a's locks and accesses, then goroutine 2 takes b's locks and accesses; nobody
   releases, so there is no synchronisation edge *)
Definition ls_acqs (t o : nat) (ls : list (string * bool)) : ls_trace :=
  map (fun l => EAcq t o (fst l) (snd l)) ls.

Definition ls_witness (a b : lt_access) : ls_trace :=
  (ls_acqs 1 0 (la_locks a) ++ [EAcc 1 0 a] ++ ls_acqs 2 0 (la_locks b) ++ [EAcc 2 0 b])%list.

Lemma ls_hb_same_thread_or_rel tr i j :
  ls_hb tr i j ->
  (forall k t o m e, nth_error tr k <> Some (ERel t o m e)) ->
  exists e1 e2, nth_error tr i = Some e1 /\ nth_error tr j = Some e2 /\ ls_thread e1 = ls_thread e2.
Proof.
  intros H Hnr. induction H.
  - eauto.
  - exfalso. eapply Hnr; eauto.
  - destruct IHls_hb1 as [e1 [e2 [H1 [H2 H3]]]]. destruct IHls_hb2 as [e2' [e3 [H4 [H5 H6]]]].
    rewrite H2 in H4. inversion H4; subst. exists e1, e3. repeat split; auto. congruence.
Qed.

Lemma ls_witness_no_rel a b k t o m e : nth_error (ls_witness a b) k <> Some (ERel t o m e).
Proof.
  intro H. apply nth_error_In in H. unfold ls_witness, ls_acqs in H.
  apply in_app_or in H. destruct H as [H|H].
  { apply in_map_iff in H. destruct H as [x [Hx _]]. discriminate. }
  apply in_app_or in H. destruct H as [H|H].
  { destruct H as [H|[]]. discriminate. }
  apply in_app_or in H. destruct H as [H|H].
  { apply in_map_iff in H. destruct H as [x [Hx _]]. discriminate. }
  destruct H as [H|[]]. discriminate.
Qed.

Lemma ls_witness_positions a b :
  nth_error (ls_witness a b) (List.length (la_locks a)) = Some (EAcc 1 0 a) /\
  nth_error (ls_witness a b) (List.length (la_locks a) + 1 + List.length (la_locks b)) = Some (EAcc 2 0 b).
Proof.
  unfold ls_witness, ls_acqs. split.
  - rewrite nth_error_app2 by (rewrite map_length; lia). rewrite map_length, Nat.sub_diag. reflexivity.
  - rewrite nth_error_app2 by (rewrite map_length; lia). rewrite map_length.
    replace (List.length (la_locks a) + 1 + List.length (la_locks b) - List.length (la_locks a)) with (S (List.length (la_locks b))) by lia.
    simpl. rewrite nth_error_app2 by (rewrite map_length; lia). rewrite map_length, Nat.sub_diag. reflexivity.
Qed.

Theorem ls_witness_races a b :
  ls_conflict a b ->
  ls_race (ls_witness a b) (List.length (la_locks a)) (List.length (la_locks a) + 1 + List.length (la_locks b)) a b.
Proof.
  intros Hc. destruct (ls_witness_positions a b) as [H1 H2].
  exists 1, 2, 0. repeat split; auto; try lia; try apply Hc.
  intro Hhb.
  destruct (ls_hb_same_thread_or_rel _ _ _ Hhb (ls_witness_no_rel a b)) as [e1 [e2 [E1 [E2 E3]]]].
  rewrite H1 in E1. rewrite H2 in E2. inversion E1; inversion E2; subst. simpl in E3. discriminate.
Qed.

(* the witness is a legal execution when the two rows share no mutex with an exclusive side *)
Lemma lt_common_false a b m e1 e2 :
  lt_common a b = false -> In (m, e1) (la_locks a) -> In (m, e2) (la_locks b) -> e1 = false /\ e2 = false.
Proof.
  intros Hc Ha Hb. destruct e1, e2; auto; exfalso;
    (assert (lt_common a b = true);
     [unfold lt_common; apply existsb_exists; eexists; split; [apply Ha|];
      apply existsb_exists; eexists; split; [apply Hb|]; simpl; rewrite String.eqb_refl; reflexivity
     | congruence]).
Qed.

Lemma ls_witness_acq_in a b k t o m e :
  nth_error (ls_witness a b) k = Some (EAcq t o m e) ->
  (t = 1 /\ In (m, e) (la_locks a)) \/ (t = 2 /\ In (m, e) (la_locks b)).
Proof.
  intro H. apply nth_error_In in H. unfold ls_witness, ls_acqs in H.
  apply in_app_or in H. destruct H as [H|H].
  { apply in_map_iff in H. destruct H as [[x y] [Hx Hin]]. inversion Hx; subst. left; auto. }
  apply in_app_or in H. destruct H as [H|H].
  { destruct H as [H|[]]. discriminate. }
  apply in_app_or in H. destruct H as [H|H].
  { apply in_map_iff in H. destruct H as [[x y] [Hx Hin]]. inversion Hx; subst. right; auto. }
  destruct H as [H|[]]. discriminate.
Qed.

Lemma ls_witness_wf a b : lt_common a b = false -> ls_wf_mutex (ls_witness a b).
Proof.
  intros Hc i t1 t2 o m e1 e2 Hne [k1 [_ [H1 _]]] [k2 [_ [H2 _]]].
  destruct (ls_witness_acq_in _ _ _ _ _ _ _ H1) as [[T1 I1]|[T1 I1]];
  destruct (ls_witness_acq_in _ _ _ _ _ _ _ H2) as [[T2 I2]|[T2 I2]]; subst; try congruence.
  - eapply lt_common_false; eauto.
  - destruct (lt_common_false a b m e2 e1 Hc I2 I1). auto.
Qed.

Lemma ls_acqs_nth t o ls m e : In (m, e) ls -> exists k, k < List.length ls /\ nth_error (ls_acqs t o ls) k = Some (EAcq t o m e).
Proof.
  intros H. destruct (In_nth_error _ _ H) as [k Hk]. exists k. split.
  - apply nth_error_Some. congruence.
  - unfold ls_acqs. rewrite (map_nth_error _ _ _ Hk). reflexivity.
Qed.

Lemma ls_acqs_length t o ls : List.length (ls_acqs t o ls) = List.length ls.
Proof. unfold ls_acqs. apply map_length. Qed.

Lemma ls_witness_respects a b : ls_respects (ls_witness a b).
Proof.
  intros i t o x Hi m ex Hin.
  set (la := List.length (la_locks a)) in *. set (lb := List.length (la_locks b)) in *.
  assert (Hcase : (i = la /\ t = 1 /\ x = a) \/ (i = la + 1 + lb /\ t = 2 /\ x = b)).
  { unfold ls_witness in Hi.
    destruct (lt_dec i la) as [Hl|Hl].
    - rewrite nth_error_app1 in Hi by (rewrite ls_acqs_length; auto).
      apply nth_error_In in Hi. apply in_map_iff in Hi. destruct Hi as [y [Hy _]]. discriminate.
    - rewrite nth_error_app2 in Hi by (rewrite ls_acqs_length; fold la; lia).
      rewrite ls_acqs_length in Hi. fold la in Hi.
      destruct (i - la) as [|d] eqn:Ed.
      + simpl in Hi. inversion Hi; subst. left. repeat split; auto. lia.
      + simpl in Hi. destruct (lt_dec d lb) as [Hd|Hd].
        * rewrite nth_error_app1 in Hi by (rewrite ls_acqs_length; auto).
          apply nth_error_In in Hi. apply in_map_iff in Hi. destruct Hi as [y [Hy _]]. discriminate.
        * rewrite nth_error_app2 in Hi by (rewrite ls_acqs_length; fold lb; lia).
          rewrite ls_acqs_length in Hi. fold lb in Hi.
          destruct (d - lb) as [|d2] eqn:Ed2.
          -- simpl in Hi. inversion Hi; subst. right. repeat split; auto. lia.
          -- simpl in Hi. destruct d2; discriminate. }
  destruct Hcase as [[Ei [Et Ex]]|[Ei [Et Ex]]]; subst.
  - destruct (ls_acqs_nth 1 0 _ _ _ Hin) as [k [Hk Hn]].
    exists k. split; [fold la in Hk; lia|]. split.
    + unfold ls_witness. rewrite nth_error_app1 by (rewrite ls_acqs_length; auto).
      assert (o = 0).
      { pose proof (ls_witness_positions a b) as [P1 _]. fold la in P1. rewrite P1 in Hi. inversion Hi; auto. }
      subst o. exact Hn.
    + intros k' _ _. apply ls_witness_no_rel.
  - destruct (ls_acqs_nth 2 0 _ _ _ Hin) as [k [Hk Hn]].
    exists (la + 1 + k). split; [fold lb in Hk; lia|]. split.
    + unfold ls_witness. rewrite nth_error_app2 by (rewrite ls_acqs_length; fold la; lia).
      rewrite ls_acqs_length. fold la.
      replace (la + 1 + k - la) with (S k) by lia. simpl.
      rewrite nth_error_app1 by (rewrite ls_acqs_length; auto).
      assert (o = 0).
      { pose proof (ls_witness_positions a b) as [_ P2]. fold la lb in P2. rewrite P2 in Hi. inversion Hi; auto. }
      subst o. exact Hn.
    + intros k' _ _. apply ls_witness_no_rel.
Qed.

(* completeness of the check for one pair: a conflicting pair without a protecting common mutex has
   a legal execution with a data race *)
Theorem ls_undisciplined_pair_races a b :
  ls_conflict a b -> lt_common a b = false ->
  exists tr i j, ls_wf_mutex tr /\ ls_respects tr /\ ls_race tr i j a b.
Proof.
  intros Hc Hn. exists (ls_witness a b), (List.length (la_locks a)), (List.length (la_locks a) + 1 + List.length (la_locks b)).
  split; [apply ls_witness_wf; auto|]. split; [apply ls_witness_respects|apply ls_witness_races; auto].
Qed.

(* ---------- the verdict of the check decides the full statement ---------- *)
Definition lt_first_offender (ex : list lt_exclusion) (tbl : list lt_access) : option (lt_access * lt_access) :=
  find (fun p => negb (lt_ok ex (fst p) (snd p))) (list_prod tbl tbl).

(* "no data race except between pairs the list ex names" over every legal execution of the table *)
Definition ls_race_free_modulo (ex : list lt_exclusion) (tbl : list lt_access) : Prop :=
  forall tr, ls_wf_mutex tr -> ls_respects tr -> ls_from_table tbl tr -> ls_threads_ok tr ->
  forall i j a b, ls_race tr i j a b -> lt_excluded ex a b = true.

Lemma lt_conflict_to_prop a b :
  lt_conflict a b = true ->
  ls_conflict a b /\ (la_method a <> la_method b \/ (la_multi a = true /\ la_multi b = true)).
Proof.
  unfold lt_conflict, lt_same_loc. intros H.
  apply andb_true_iff in H. destruct H as [H Hm].
  apply andb_true_iff in H. destruct H as [H Hat].
  apply andb_true_iff in H. destruct H as [Hloc Hw].
  apply andb_true_iff in Hloc. destruct Hloc as [Ht Hf].
  apply String.eqb_eq in Ht. apply String.eqb_eq in Hf.
  apply orb_true_iff in Hw. apply negb_true_iff in Hat.
  split.
  - repeat split; auto. intros [A B]. rewrite A, B in Hat. discriminate.
  - apply orb_true_iff in Hm. destruct Hm as [Hm|Hm].
    + left. apply negb_true_iff in Hm. apply String.eqb_neq. auto.
    + right. apply andb_true_iff in Hm. auto.
Qed.

Lemma ls_witness_acc a b i t o x :
  nth_error (ls_witness a b) i = Some (EAcc t o x) -> (t = 1 /\ x = a) \/ (t = 2 /\ x = b).
Proof.
  intro H. apply nth_error_In in H. unfold ls_witness, ls_acqs in H.
  apply in_app_or in H. destruct H as [H|H].
  { apply in_map_iff in H. destruct H as [y [Hy _]]. discriminate. }
  apply in_app_or in H. destruct H as [H|H].
  { destruct H as [H|[]]. inversion H; auto. }
  apply in_app_or in H. destruct H as [H|H].
  { apply in_map_iff in H. destruct H as [y [Hy _]]. discriminate. }
  destruct H as [H|[]]. inversion H; auto.
Qed.

Theorem ls_offender_refutes ex tbl a b :
  In a tbl -> In b tbl -> lt_ok ex a b = false -> ~ ls_race_free_modulo ex tbl.
Proof.
  intros Ha Hb Hok Hfree. unfold lt_ok in Hok.
  apply orb_false_iff in Hok. destruct Hok as [Hok Hex].
  apply orb_false_iff in Hok. destruct Hok as [Hcf Hcm].
  apply negb_false_iff in Hcf.
  destruct (lt_conflict_to_prop _ _ Hcf) as [Hc Hm].
  assert (Hr := ls_witness_races a b Hc).
  assert (He : lt_excluded ex a b = true).
  { eapply (Hfree (ls_witness a b)); [apply ls_witness_wf; auto|apply ls_witness_respects| | |exact Hr].
    - intros i t o x Hi. destruct (ls_witness_acc _ _ _ _ _ _ Hi) as [[_ ->]|[_ ->]]; auto.
    - intros i j t1 t2 o x y Hi Hj Hne Hme.
      destruct (ls_witness_acc _ _ _ _ _ _ Hi) as [[T1 X1]|[T1 X1]];
      destruct (ls_witness_acc _ _ _ _ _ _ Hj) as [[T2 X2]|[T2 X2]]; subst; try congruence.
      + destruct Hm as [Hm|[M1 M2]]; auto; congruence.
      + destruct Hm as [Hm|[M1 M2]]; auto; congruence. }
  congruence.
Qed.

Theorem ls_verdict ex tbl :
  match lt_first_offender ex tbl with
  | Some _ => ~ ls_race_free_modulo ex tbl
  | None => ls_race_free_modulo ex tbl
  end.
Proof.
  unfold lt_first_offender.
  destruct (find _ _) as [[a b]|] eqn:Ef.
  - apply find_some in Ef. destruct Ef as [Hin Hno]. simpl in Hno.
    apply in_prod_iff in Hin. destruct Hin as [Ha Hb].
    apply negb_true_iff in Hno. exact (ls_offender_refutes ex tbl a b Ha Hb Hno).
  - assert (Hd : lt_disciplined ex tbl = true).
    { unfold lt_disciplined. apply forallb_forall. intros a Ha. apply forallb_forall. intros b Hb.
      pose proof (find_none _ _ Ef (a, b)) as Hn. simpl in Hn.
      rewrite in_prod_iff in Hn. specialize (Hn (conj Ha Hb)).
      apply negb_false_iff in Hn. auto. }
    intros tr H1 H2 H3 H4. apply (ls_no_race_for_table ex tbl Hd tr H1 H2 H3 H4).
Qed.
