// C18 part of the zcn engine: authorizer registration and mint histories on the real zcnsc
// contract with real BLS keys and signatures.
package main

import (
	"encoding/hex"
	"encoding/json"
	"fmt"
	"math"
	"os"
	"strings"

	"0chain.net/core/encryption"
	"0chain.net/smartcontract/stakepool"
	"0chain.net/smartcontract/stakepool/spenum"
	"0chain.net/smartcontract/storagesc"
	"0chain.net/smartcontract/zcnsc"
	"github.com/0chain/common/core/currency"
	"github.com/0chain/common/core/util"
	"github.com/herumi/bls-go-binary/bls"
	"verifharness/ct"
	"verifharness/sc"
	"verifharness/vh"
)

type sigEntry struct {
	Who  int    `json:"who"`  // 1..6 authorizers, 7..8 key holders that are never registered, 0 = empty id
	Kind string `json:"kind"` // ok|otheramount|othernonce|otherreceiver|othertxn|wrongkey|garbage
}

type mintOp struct {
	K      string     `json:"k"`               // reg|del|stake|mint|foreign
	PType  string     `json:"ptype,omitempty"` // foreign: blobber|validator|miner|sharder record stored under provider:<id of key A>
	A      int        `json:"a,omitempty"`
	By     string     `json:"by,omitempty"` // owner|delegate|stranger
	Amount uint64     `json:"amount,omitempty"`
	C      int        `json:"c,omitempty"`    // mint: sender
	Recv   int        `json:"recv,omitempty"` // mint: receiving client in the payload
	Nonce  int64      `json:"nonce,omitempty"`
	Txn    int        `json:"txn,omitempty"` // ethereum txn id number
	Sigs   []sigEntry `json:"sigs,omitempty"`
	Bad    string     `json:"bad,omitempty"` // malformed payload: json|nosigs|nil
	Seed   int64      `json:"seed,omitempty"`
}

type mintHist struct {
	Percent  float64  `json:"percent"`
	MinMint  uint64   `json:"min_mint"`
	MaxFee   uint64   `json:"max_fee"`
	MinStake uint64   `json:"min_stake"`
	Ops      []mintOp `json:"ops"`
}

const nKeys = 8

// probeEvery: re-submission probes after every n-th successful mint of a history
var probeEvery = 3

type keyPair struct {
	scheme *encryption.BLS0ChainScheme
	pk     string
	id     string
}

var keys [nKeys + 1]*keyPair

func initKeys() {
	for i := 1; i <= nKeys; i++ {
		seed := encryption.RawHash(fmt.Sprintf("verif zcn authorizer key %d", i))
		seed[31] &= 0x0f
		var sk bls.SecretKey
		if err := sk.SetLittleEndian(seed); err != nil {
			panic(err)
		}
		pk := hex.EncodeToString(sk.GetPublicKey().Serialize())
		s := encryption.NewBLS0ChainScheme()
		if err := s.ReadKeys(strings.NewReader(pk + "\n" + hex.EncodeToString(sk.GetLittleEndian()))); err != nil {
			panic(err)
		}
		id, err := encryption.GetClientIDFromPublicKey(pk)
		if err != nil {
			panic(err)
		}
		keys[i] = &keyPair{s, pk, id}
	}
}

func mclient(i int) string  { return ct.ID("zcn mint client", i) }
func delegate(i int) string { return ct.ID("zcn delegate", i) }

// tok: the model's token of an authorizer id = its rank among the eight ids as strings (the contract
// walks the unique signatures in id order), 0 for the empty id
func tok(id string) string {
	if id == "" {
		return "0"
	}
	rank := 1
	found := false
	for i := 1; i <= nKeys; i++ {
		if keys[i].id == id {
			found = true
		} else if keys[i].id < id {
			rank++
		}
	}
	if !found {
		return "99"
	}
	return fmt.Sprint(rank)
}

func tokOf(a int) string { return tok(keys[a].id) }

func mwho(id string) string {
	if id == zcnsc.ADDRESS {
		return "zm_wallet"
	}
	for i := 0; i < 8; i++ {
		if id == mclient(i) {
			return fmt.Sprint(100 + i)
		}
	}
	return "(-2)"
}

type mintRes struct {
	outs  []string
	ops   []string // model ops (signature bits and fee receiver are recorded from the run)
	fails []string // distinct violated statements, in order of appearance (the known one must not hide others)
	kinds map[string]int
}

func (r *mintRes) has(k string) bool {
	for _, f := range r.fails {
		if f == k {
			return true
		}
	}
	return false
}

func poolTotal(m util.MerklePatriciaTrieI, id string) (exists bool, stake, credited uint64) {
	ctx := sc.NewCtx(m, 1, nil)
	sp := zcnsc.NewStakePool()
	if err := ctx.GetTrieNode(stakepool.StakePoolKey(spenum.Authorizer, id), sp); err != nil {
		if err == util.ErrValueNotPresent {
			return false, 0, 0
		}
		panic(err)
	}
	credited = uint64(sp.Reward)
	for _, dp := range sp.Pools {
		credited += uint64(dp.Reward)
		stake += uint64(dp.Balance)
	}
	return true, stake, credited
}

func registered(m util.MerklePatriciaTrieI, id string) bool {
	_, err := zcnsc.GetAuthorizerNode(id, sc.NewCtx(m, 1, nil))
	return err == nil
}

func authCount(m util.MerklePatriciaTrieI) int {
	ac := &zcnsc.AuthCount{}
	err := sc.NewCtx(m, 1, nil).GetTrieNode(storagesc.AUTHORIZERS_COUNT_KEY, ac)
	if err == util.ErrValueNotPresent {
		return 0
	}
	if err != nil {
		panic(err)
	}
	return ac.Count
}

type builtPayload struct {
	input []byte
	ids   []string
	ok    []bool   // Verify(entry signature, string to sign) under the key of the entry's id returned (true, nil)
	res   []string // the same as the model's verdict: ZsValid | ZsInvalid (false, nil) | ZsError (_, err)
}

func payloadFor(o mintOp, txnID string, amount uint64, nonce int64, recv string) *zcnsc.MintPayload {
	return &zcnsc.MintPayload{EthereumTxnID: txnID, Amount: currency.Coin(amount), Nonce: nonce, ReceivingClientID: recv}
}

func buildMint(o mintOp) builtPayload {
	var b builtPayload
	txnID := fmt.Sprintf("0xeth%04d", o.Txn)
	recv := mclient(o.Recv)
	p := payloadFor(o, txnID, o.Amount, o.Nonce, recv)
	toSign := p.GetStringToSign()
	for _, e := range o.Sigs {
		var id, sig string
		if e.Who >= 1 && e.Who <= nKeys {
			id = keys[e.Who].id
			msg := toSign
			signer := keys[e.Who].scheme
			switch e.Kind {
			case "otheramount":
				msg = payloadFor(o, txnID, o.Amount+1, o.Nonce, recv).GetStringToSign()
			case "othernonce":
				msg = payloadFor(o, txnID, o.Amount, o.Nonce+1, recv).GetStringToSign()
			case "otherreceiver":
				msg = payloadFor(o, txnID, o.Amount, o.Nonce, mclient(o.Recv+1)).GetStringToSign()
			case "othertxn":
				msg = payloadFor(o, txnID+"x", o.Amount, o.Nonce, recv).GetStringToSign()
			case "wrongkey":
				signer = keys[e.Who%nKeys+1].scheme
			}
			s, err := signer.Sign(msg)
			if err != nil {
				panic(err)
			}
			sig = s
			if e.Kind == "garbage" {
				sig = "zz" + s[2:]
			}
		} else {
			s, _ := keys[1].scheme.Sign(toSign)
			sig = s
		}
		p.Signatures = append(p.Signatures, &zcnsc.AuthorizerSignature{ID: id, Signature: sig})
		b.ids = append(b.ids, id)
		ok := false
		verdict := "ZsError"
		if id != "" {
			v := encryption.NewBLS0ChainScheme()
			if err := v.SetPublicKey(keys[e.Who].pk); err != nil {
				panic(err)
			}
			r, err := v.Verify(sig, toSign)
			ok = r && err == nil
			switch {
			case ok:
				verdict = "ZsValid"
			case err == nil:
				verdict = "ZsInvalid"
			}
		}
		b.ok = append(b.ok, ok)
		b.res = append(b.res, verdict)
	}
	switch o.Bad {
	case "json":
		b.input = []byte(`{"ethereum_txn_id":`)
	case "nil":
		b.input = nil
	default:
		b.input = p.Encode()
	}
	return b
}

func runMint(h mintHist) mintRes {
	res := mintRes{kinds: map[string]int{}}
	base := sc.NewMPT()
	setup := sc.NewCtx(base, 1, sc.Txn(encryption.Hash("setup"), zcnOwner, zcnsc.ADDRESS, 0, 0))
	gn := newGlobal(1)
	gn.PercentAuthorizers = h.Percent
	gn.MinMintAmount = currency.Coin(h.MinMint)
	gn.MaxFee = currency.Coin(h.MaxFee)
	gn.MinStakePerDelegate = currency.Coin(h.MinStake)
	if err := gn.Save(setup); err != nil {
		panic(err)
	}
	minted := map[int64]bool{}
	setFail := func(k string) {
		if !res.has(k) {
			res.fails = append(res.fails, k)
		}
	}
	exec := func(m util.MerklePatriciaTrieI, i int, sender, fn string, input []byte, seed int64) (string, error, [][3]string) {
		txn := sc.Txn(encryption.Hash(fmt.Sprintf("mint txn %d", i)), sender, zcnsc.ADDRESS, 0, int64(1000+i))
		ctx := sc.NewCtx(m, int64(i+2), txn)
		ctx.GetBlock().SetRoundRandomSeed(seed)
		resp, err := contract.Execute(txn, fn, input, ctx)
		if os.Getenv("CONTRACTS_DEBUG") != "" {
			fmt.Println("DEBUG", fn, err, resp)
		}
		var tr [][3]string
		for _, t := range ctx.GetTransfers() {
			tr = append(tr, [3]string{t.ClientID, t.ToClientID, fmt.Sprint(uint64(t.Amount))})
		}
		return resp, err, tr
	}
	for i, o := range h.Ops {
		switch o.K {
		case "reg", "del":
			k := keys[o.A]
			sender := mclient(7)
			switch o.By {
			case "owner":
				sender = zcnOwner
			case "delegate":
				sender = delegate(o.A)
			}
			tm := ct.Begin(base)
			var err error
			if o.K == "reg" {
				input, _ := json.Marshal(map[string]interface{}{"public_key": k.pk, "url": fmt.Sprintf("http://a%d", o.A),
					"stake_pool_settings": map[string]interface{}{"delegate_wallet": delegate(o.A), "num_delegates": 5, "service_charge": 0.1}})
				_, err, _ = exec(tm, i, sender, zcnsc.AddAuthorizerFunc, input, 0)
				res.ops = append(res.ops, fmt.Sprintf("ZmRegister %s %s", vh.Bool(o.By == "owner"), tokOf(o.A)))
			} else {
				input, _ := json.Marshal(map[string]string{"id": k.id})
				_, err, _ = exec(tm, i, sender, zcnsc.DeleteAuthorizerFunc, input, 0)
				res.ops = append(res.ops, fmt.Sprintf("ZmDelete %s %s", vh.Bool(o.By != "stranger"), tokOf(o.A)))
			}
			if err != nil {
				res.outs = append(res.outs, "ZmFail")
				res.kinds[o.K+"-refused"]++
			} else {
				ct.Commit(base, tm)
				res.outs = append(res.outs, "ZmOk")
				res.kinds[o.K+"-ok"]++
			}
		case "foreign":
			// test set-up, not a contract call and not part of the model: another contract's provider record (with a
			// public key its owner controls) sits in the shared provider:<id> key space under the id of key A
			ctx := sc.NewCtx(base, int64(i+2), sc.Txn(encryption.Hash(fmt.Sprintf("mint txn %d", i)), zcnOwner, zcnsc.ADDRESS, 0, 0))
			n := zcnsc.NewAuthorizer(keys[o.A].id, keys[o.A].pk, fmt.Sprintf("http://p%d", o.A))
			n.ProviderType = map[string]spenum.Provider{"blobber": spenum.Blobber, "validator": spenum.Validator, "miner": spenum.Miner, "sharder": spenum.Sharder}[o.PType]
			if err := n.Save(ctx); err != nil {
				panic(err)
			}
			res.kinds["foreign-provider-record-stored"]++
		case "stake":
			// test set-up, not a contract call: a delegate pool with this balance appears in the stake pool
			ctx := sc.NewCtx(base, int64(i+2), sc.Txn(encryption.Hash(fmt.Sprintf("mint txn %d", i)), zcnOwner, zcnsc.ADDRESS, 0, 0))
			sp := zcnsc.NewStakePool()
			key := stakepool.StakePoolKey(spenum.Authorizer, keys[o.A].id)
			res.ops = append(res.ops, fmt.Sprintf("ZmStake %s %d", tokOf(o.A), o.Amount))
			if err := ctx.GetTrieNode(key, sp); err != nil {
				res.outs = append(res.outs, "ZmFail")
				continue
			}
			did := ct.ID("zcn staker", i)
			sp.Pools[did] = &stakepool.DelegatePool{Balance: currency.Coin(o.Amount), DelegateID: did, Status: spenum.Active}
			if _, err := ctx.InsertTrieNode(key, sp); err != nil {
				panic(err)
			}
			res.outs = append(res.outs, "ZmOk")
		case "mint":
			b := buildMint(o)
			client := mclient(o.C)
			type snap struct {
				exists          bool
				stake, credited uint64
			}
			before := map[int]snap{}
			for a := 1; a <= nKeys; a++ {
				e, s, c := poolTotal(base, keys[a].id)
				before[a] = snap{e, s, c}
			}
			n := authCount(base)
			threshold := int(math.RoundToEven(h.Percent * float64(n)))
			tm := ct.Begin(base)
			_, err, tr := exec(tm, i, client, zcnsc.MintFunc, b.input, o.Seed)
			// ---- what the payload really contains (for the oracle): distinct registered signers with a valid entry
			validDistinct := map[string]bool{}
			flawless := o.Bad == "" && len(o.Sigs) > 0
			for j, id := range b.ids {
				reg := id != "" && registered(base, id)
				if reg && b.ok[j] {
					validDistinct[id] = true
				} else {
					flawless = false
				}
			}
			for id := range validDistinct {
				if e, _, _ := poolTotal(base, id); !e {
					flawless = false
				}
			}
			legit := flawless && o.Recv == o.C && o.Amount >= h.MinMint && o.Amount >= h.MaxFee && !minted[o.Nonce] &&
				n > 0 && len(validDistinct) >= threshold && len(o.Sigs) >= threshold
			// model op
			sg := make([]string, len(b.ids))
			for j, id := range b.ids {
				sg[j] = fmt.Sprintf("{| zs_id := %s; zs_res := %s |}", tok(id), b.res[j])
			}
			pl := "None"
			if o.Bad == "" {
				pl = fmt.Sprintf("(Some {| zp_receiver := %d; zp_amount := %d; zp_nonce := %s; zp_sigs := %s |})", 100+o.Recv, o.Amount, vh.Z(o.Nonce), vh.List(sg))
			}
			if err != nil {
				res.ops = append(res.ops, fmt.Sprintf("ZmMint %d %s 0", 100+o.C, pl))
				res.outs = append(res.outs, "ZmFail")
				res.kinds["mint-refused"]++
				if legit {
					setFail("valid-mint-refused")
				}
				continue
			}
			ct.Commit(base, tm)
			res.kinds["mint-ok"]++
			// ---- oracle on a successful mint ----
			// the one known cause: an entry whose signature deserializes but does not verify ((false, nil)
			// from Verify) was let through by verifySignatures
			invalidAccepted := false
			lastVerdict := map[string]string{} // per id, the verdict of its last entry among those looked at
			for j, id := range b.ids {
				if j < n {
					lastVerdict[id] = b.res[j]
				}
			}
			for _, vd := range lastVerdict {
				if vd == "ZsInvalid" {
					invalidAccepted = true
				}
			}
			if invalidAccepted {
				res.kinds["mint-ok-with-invalid-signature"]++
			}
			setFail := func(k string) {
				if invalidAccepted {
					setFail("invalid-signature-accepted")
				} else {
					setFail(k)
				}
			}
			if o.Bad != "" {
				setFail("mint-with-malformed-payload")
			}
			if o.Recv != o.C {
				setFail("submitter-is-not-the-receiver")
			}
			if minted[o.Nonce] {
				setFail("nonce-minted-twice")
			}
			minted[o.Nonce] = true
			if len(validDistinct) < threshold || n == 0 {
				setFail("minted-without-quorum-of-distinct-registered-valid-signers")
			}
			if o.Amount < h.MinMint {
				setFail("minted-below-minimum")
			}
			received := uint64(0)
			okTr := len(tr) == 1 && tr[0][0] == zcnsc.ADDRESS && tr[0][1] == client
			if okTr {
				fmt.Sscan(tr[0][2], &received)
			}
			if !okTr || received > o.Amount || o.Amount-received > h.MaxFee {
				setFail("receiver-does-not-get-amount-minus-fee")
			}
			fee := o.Amount - received
			paidTo, credited := 0, uint64(0)
			changed := 0
			for a := 1; a <= nKeys; a++ {
				e, s, c := poolTotal(base, keys[a].id)
				if e != before[a].exists || s != before[a].stake {
					setFail("mint-changed-a-stake")
				}
				if c != before[a].credited {
					changed++
					paidTo, credited = a, c-before[a].credited
				}
			}
			ineligible := false // some signer's pool cannot take rewards (stake below min_stake): the fee may stay uncredited
			for id := range validDistinct {
				_, s, _ := poolTotal(base, id)
				if s < h.MinStake {
					ineligible = true
				}
			}
			switch {
			case changed > 1:
				setFail("fee-credited-to-several-authorizers")
			case changed == 1 && (credited != fee || !validDistinct[keys[paidTo].id]):
				setFail("fee-not-credited-to-a-signing-authorizer")
			case changed == 0 && fee > 0 && !ineligible:
				setFail("fee-not-credited")
			case changed == 0 && fee > 0:
				res.kinds["mint-ok-fee-uncredited-pool-below-min-stake"]++
			}
			if changed == 1 {
				res.kinds["mint-ok-fee-credited"]++
			}
			// the model needs to know which signer the seeded draw picked; when nothing was credited it
			// cannot be observed, any signer with the same effect is equivalent: take the first eligible-free one
			pick := "0"
			if paidTo != 0 {
				pick = tokOf(paidTo)
			} else {
				for j, id := range b.ids {
					if j >= n {
						break
					}
					if id == "" {
						continue
					}
					if e, s, _ := poolTotal(base, id); e && (fee == 0 || s < h.MinStake) {
						pick = tok(id)
						break
					}
				}
			}
			trs := make([]string, len(tr))
			for j, t := range tr {
				trs[j] = fmt.Sprintf("(%s, %s, %s)", mwho(t[0]), mwho(t[1]), t[2])
			}
			res.ops = append(res.ops, fmt.Sprintf("ZmMint %d %s %s", 100+o.C, pl, pick))
			res.outs = append(res.outs, fmt.Sprintf("(ZmMinted %s %s %d)", vh.List(trs), pick, credited))
			// ---- the signatures bind txn id, amount, nonce and receiver: the same signatures with any of
			// them changed must not mint (fresh nonce everywhere so that only the signatures can refuse)
			for _, f := range []string{"txn", "amount", "nonce", "receiver"} {
				if probeEvery > 1 && res.kinds["mint-ok"]%probeEvery != 1 {
					break
				}
				v := o
				p2 := payloadFor(o, fmt.Sprintf("0xeth%04d", o.Txn), o.Amount, o.Nonce+1000003, mclient(o.Recv))
				sender := client
				switch f {
				case "txn":
					p2.EthereumTxnID += "b"
				case "amount":
					p2.Amount++
				case "nonce":
				case "receiver":
					p2.ReceivingClientID = mclient(o.Recv + 1)
					sender = mclient(o.Recv + 1)
				}
				// signatures made for the original payload, except that the nonce differs in every variant:
				// re-sign for the variant's nonce unless the nonce itself is the field under test
				for j, e := range v.Sigs {
					id := b.ids[j]
					sig := ""
					if e.Who >= 1 && e.Who <= nKeys {
						orig := payloadFor(o, fmt.Sprintf("0xeth%04d", o.Txn), o.Amount, o.Nonce+1000003, mclient(o.Recv))
						if f == "nonce" {
							orig.Nonce = o.Nonce
						}
						sig, _ = keys[e.Who].scheme.Sign(orig.GetStringToSign())
					}
					p2.Signatures = append(p2.Signatures, &zcnsc.AuthorizerSignature{ID: id, Signature: sig})
				}
				pm := ct.Begin(base)
				_, perr, _ := exec(pm, 200000+i, sender, zcnsc.MintFunc, p2.Encode(), o.Seed)
				res.kinds["binding-probe"]++
				if perr == nil {
					// did the real library say (false, nil) for the re-used signatures over the changed payload?
					rejected := false
					for j, e := range v.Sigs {
						if e.Who < 1 || e.Who > nKeys {
							continue
						}
						vs := encryption.NewBLS0ChainScheme()
						_ = vs.SetPublicKey(keys[e.Who].pk)
						if r, err := vs.Verify(p2.Signatures[j].Signature, p2.GetStringToSign()); err == nil && !r {
							rejected = true
						}
					}
					if rejected {
						res.kinds["binding-probe-minted-with-invalid-signature"]++
						if !res.has("invalid-signature-accepted") {
							res.fails = append(res.fails, "invalid-signature-accepted")
						}
					} else {
						setFail("signature-does-not-bind-" + f)
					}
				}
			}
		}
	}
	return res
}

func mintCase(h mintHist, r mintRes) string {
	return fmt.Sprintf("{| zmc_pbits := %d; zmc_min_mint := %d; zmc_max_fee := %d; zmc_min_stake := %d; zmc_ops := %s; zmc_outs := %s |}",
		math.Float64bits(h.Percent), h.MinMint, h.MaxFee, h.MinStake, vh.List(r.ops), vh.List(r.outs))
}

func genMint(r *vh.Rand) mintHist {
	h := mintHist{Percent: []float64{0.7, 0.7, 0.5, 0.51, 1, 0.34, 0, 0.66, 0.25, 1.5}[r.Intn(10)],
		MinMint: uint64(r.Range(1, 30)), MaxFee: uint64(r.Range(1, 40)), MinStake: uint64(r.Intn(3))}
	if r.Chance(1, 8) {
		h.MaxFee = r.PickU64([]uint64{1, 1000000, 1 << 40})
	}
	for a := 7; a <= 8; a++ { // key holders 7 and 8 are providers of other contracts in most histories
		if r.Chance(2, 3) {
			h.Ops = append(h.Ops, mintOp{K: "foreign", A: a, PType: []string{"blobber", "blobber", "validator", "miner", "sharder"}[r.Intn(5)]})
		}
	}
	na := r.Range(1, 6)
	reg := map[int]bool{}
	for a := 1; a <= na; a++ {
		by := "owner"
		if r.Chance(1, 12) {
			by = "stranger"
		}
		h.Ops = append(h.Ops, mintOp{K: "reg", A: a, By: by})
		if by == "owner" {
			reg[a] = true
			if r.Chance(2, 3) {
				h.Ops = append(h.Ops, mintOp{K: "stake", A: a, Amount: uint64(r.Range(1, 3)) * uint64(r.Range(1, 50))})
			}
		}
	}
	nonce := int64(r.Range(0, 5))
	usedNonces := []int64{}
	n := r.Range(2, 12)
	for i := 0; i < n; i++ {
		switch x := r.Intn(14); {
		case x == 0:
			a := r.Range(1, 6)
			by := []string{"owner", "owner", "delegate", "stranger"}[r.Intn(4)]
			h.Ops = append(h.Ops, mintOp{K: "del", A: a, By: by})
			if reg[a] && by != "stranger" {
				delete(reg, a)
			}
			continue
		case x == 1:
			a := r.Range(1, 6)
			h.Ops = append(h.Ops, mintOp{K: "reg", A: a, By: "owner"})
			continue
		case x == 2:
			h.Ops = append(h.Ops, mintOp{K: "stake", A: r.Range(1, 6), Amount: uint64(r.Range(1, 60))})
			continue
		}
		o := mintOp{K: "mint", C: r.Intn(3), Txn: r.Intn(50), Seed: int64(r.U64() >> 1)}
		o.Recv = o.C
		nonce++
		o.Nonce = nonce
		floor := h.MinMint
		if h.MaxFee > floor {
			floor = h.MaxFee
		}
		o.Amount = floor + uint64(r.Range(0, 100))
		regs := []int{}
		for a := 1; a <= 6; a++ {
			if reg[a] {
				regs = append(regs, a)
			}
		}
		th := int(math.RoundToEven(h.Percent * float64(len(regs))))
		// start from a payload that mints, then maybe break exactly one thing
		perm := r.Perm(len(regs))
		k := th + r.Range(0, 2)
		if k > len(regs) {
			k = len(regs)
		}
		if k == 0 && len(regs) > 0 {
			k = 1
		}
		for j := 0; j < k; j++ {
			o.Sigs = append(o.Sigs, sigEntry{regs[perm[j]], "ok"})
		}
		switch d := r.Intn(22); d {
		case 0:
			o.Recv = (o.C + 1) % 3
		case 1:
			o.Amount = h.MinMint - 1
		case 2:
			if len(usedNonces) > 0 {
				o.Nonce = usedNonces[r.Intn(len(usedNonces))]
			}
		case 3: // one signature short, padded with a duplicate
			if len(o.Sigs) > 0 && len(o.Sigs) == th {
				o.Sigs[len(o.Sigs)-1] = o.Sigs[0]
			}
		case 4: // one signature short
			if len(o.Sigs) > 0 {
				o.Sigs = o.Sigs[:len(o.Sigs)-1]
			}
		case 5, 6, 7: // one forged entry
			if len(o.Sigs) > 0 {
				o.Sigs[r.Intn(len(o.Sigs))].Kind = []string{"otheramount", "othernonce", "otherreceiver", "othertxn", "wrongkey", "garbage"}[r.Intn(6)]
			}
		case 8: // a stranger's valid-looking signature added
			o.Sigs = append(o.Sigs, sigEntry{7 + r.Intn(2), "ok"})
		case 18, 19: // a real signer replaced by a provider of another contract signing with its own key
			if len(o.Sigs) > 0 {
				o.Sigs[r.Intn(len(o.Sigs))] = sigEntry{7 + r.Intn(2), "ok"}
			}
		case 9:
			o.Sigs = append(o.Sigs, sigEntry{0, "ok"})
		case 10: // forged duplicate first, valid one last (the last entry per id is the one verified)
			if len(o.Sigs) > 0 {
				e := o.Sigs[r.Intn(len(o.Sigs))]
				o.Sigs = append([]sigEntry{{e.Who, "garbage"}}, o.Sigs...)
			}
		case 11: // valid first, forged duplicate last
			if len(o.Sigs) > 0 {
				e := o.Sigs[r.Intn(len(o.Sigs))]
				o.Sigs = append(o.Sigs, sigEntry{e.Who, "wrongkey"})
			}
		case 12:
			o.Bad = []string{"json", "nil", "nosigs"}[r.Intn(3)]
			if o.Bad == "nosigs" {
				o.Bad = ""
				o.Sigs = nil
			}
		case 13: // more entries than authorizers: only the first numAuth are looked at
			for len(o.Sigs) <= len(regs) && len(o.Sigs) > 0 {
				o.Sigs = append(o.Sigs, o.Sigs[r.Intn(len(o.Sigs))])
			}
		case 14: // a deleted / never registered authorizer signs
			a := r.Range(1, 6)
			if !reg[a] {
				o.Sigs = append(o.Sigs, sigEntry{a, "ok"})
			}
		case 15:
			o.Amount = h.MaxFee - 1
		case 16, 17: // interleaved repeat: a signer replaced by a copy of a non-adjacent one ([A, B, A])
			if len(o.Sigs) >= 3 {
				j := r.Intn(len(o.Sigs) - 2)
				o.Sigs[j+2] = o.Sigs[j]
			} else if len(o.Sigs) == 2 && len(regs) >= 3 {
				o.Sigs = append(o.Sigs, o.Sigs[0])
			}
		}
		h.Ops = append(h.Ops, o)
		usedNonces = append(usedNonces, o.Nonce)
	}
	return h
}

func subMint(h mintHist, keep []int) mintHist {
	h2 := h
	h2.Ops = nil
	for _, i := range keep {
		h2.Ops = append(h2.Ops, h.Ops[i])
	}
	return h2
}

func mainMint(o vh.Opts) {
	initKeys()
	rep := vh.NewReport("zcn", "C18", o)
	rep.Rule = "histories on the real zcnsc Execute with real BLS0Chain keys: 1-6 authorizers registered through add-authorizer (owner or stranger), stake pools with 0-2 delegate pools, " +
		"then 2-12 of mint / delete-authorizer / re-register / stake. Each mint starts from a payload that mints (threshold..threshold+2 distinct registered signers over " +
		"GetStringToSign) key holders 7/8 mostly hold a blobber/validator/miner/sharder record under provider:<id>; each mint in 20 of 22 cases carries exactly one flaw: a signer replaced by such a foreign provider, interleaved repeat of a signer ([A, B, A]), other receiver, amount below min_mint or max_fee, used nonce, duplicate instead of a signer, one signer short, " +
		"entry signed for another amount/nonce/receiver/txn id, signed with another key, garbage signature, unregistered key holder, empty id, forged duplicate before/after the valid entry, " +
		"malformed/empty payload, more entries than authorizers, deleted authorizer; percent_authorizers in {0, .25, .34, .5, .51, .66, .7, 1, 1.5}. After every successful mint four probes re-submit " +
		"the signatures with the txn id / amount / nonce / receiver changed. non-trivial = a mint succeeded, a mint was refused and a fee was credited; distinct by full history"
	cf := &vh.CasesFile{Imports: []string{"Base.Corr", "Model.ZcnMint", "Corr.ZcnMint"}, CaseType: "zm_case", CheckFn: "zm_check"}
	reported := map[string]bool{}
	handle := func(h mintHist) {
		res := runMint(h)
		for k, n := range res.kinds {
			rep.CountN(k, n)
		}
		b, _ := json.Marshal(h)
		rep.Case(string(b), res.kinds["mint-ok"] > 0 && res.kinds["mint-refused"] > 0 && res.kinds["mint-ok-fee-credited"] > 0, h)
		cf.Add(mintCase(h, res))
		rep.CaseInputs = append(rep.CaseInputs, h)
		for _, f := range res.fails {
			if reported[f] {
				continue
			}
			reported[f] = true
			f := f
			keep := vh.ShrinkIdx(len(h.Ops), func(keep []int) bool { r2 := runMint(subMint(h, keep)); return r2.has(f) })
			desc := "bridge mint: " + f
			if f == "invalid-signature-accepted" {
				desc = "a mint succeeded although an entry's signature does not verify: verifySignatures returns errors.Wrap(err, ...) with err == nil " +
					"when Verify answers (false, nil), which is nil, and stops checking the remaining entries"
			}
			rep.Violate("C18:"+f, desc, subMint(h, keep))
		}
	}
	finish := func() {
		files, err := cf.Write(o.Out, "C18")
		if err != nil {
			panic(err)
		}
		rep.CaseFiles = files
		rep.ShardSize = 400
		rep.Write(o.Out)
	}
	var rh mintHist
	if o.LoadReplay(&rh) {
		rep.Note("replay of one history")
		handle(rh)
		finish()
		return
	}
	// directed: 3 authorizers at 0.7 (threshold 2): two signers mint, one signer + its duplicate does not,
	// same nonce again does not, 6th use of the partition (size 5) still remembers the first nonce
	// the forged-quorum witness: three registered authorizers, nobody signs; the submitter lists their ids with
	// signatures made with other keys
	handle(mintHist{Percent: 0.7, MinMint: 10, MaxFee: 6, MinStake: 0, Ops: []mintOp{{K: "reg", A: 1, By: "owner"}, {K: "reg", A: 2, By: "owner"}, {K: "reg", A: 3, By: "owner"},
		{K: "mint", C: 0, Recv: 0, Amount: 1000000, Nonce: 77, Txn: 9, Sigs: []sigEntry{{1, "wrongkey"}, {2, "wrongkey"}, {3, "wrongkey"}}, Seed: 3}}})
	// a blobber record under the id of key 7: [authorizer 1, blobber 7] must never make the quorum of 2, whatever the round seed
	fh := mintHist{Percent: 0.7, MinMint: 10, MaxFee: 6, MinStake: 0, Ops: []mintOp{{K: "foreign", A: 7, PType: "blobber"}, {K: "foreign", A: 8, PType: "miner"},
		{K: "reg", A: 1, By: "owner"}, {K: "reg", A: 2, By: "owner"}, {K: "reg", A: 3, By: "owner"}}}
	for k := 0; k < 8; k++ {
		fh.Ops = append(fh.Ops, mintOp{K: "mint", C: 0, Recv: 0, Amount: 100, Nonce: int64(500 + k), Txn: 60 + k, Sigs: []sigEntry{{1, "ok"}, {7 + k%2, "ok"}}, Seed: int64(11 + 7*k)})
	}
	handle(fh)
	// interleaved repeats: 4 authorizers at 0.7 (threshold 3); [A, B, A] and [A, B, A, B] carry two distinct signers
	handle(mintHist{Percent: 0.7, MinMint: 10, MaxFee: 6, MinStake: 0, Ops: []mintOp{{K: "reg", A: 1, By: "owner"}, {K: "reg", A: 2, By: "owner"}, {K: "reg", A: 3, By: "owner"}, {K: "reg", A: 4, By: "owner"},
		{K: "mint", C: 0, Recv: 0, Amount: 100, Nonce: 1, Txn: 1, Sigs: []sigEntry{{1, "ok"}, {2, "ok"}, {1, "ok"}}, Seed: 3},
		{K: "mint", C: 0, Recv: 0, Amount: 100, Nonce: 2, Txn: 2, Sigs: []sigEntry{{3, "ok"}, {4, "ok"}, {3, "ok"}, {4, "ok"}}, Seed: 4},
		{K: "mint", C: 0, Recv: 0, Amount: 100, Nonce: 3, Txn: 3, Sigs: []sigEntry{{2, "ok"}, {4, "ok"}, {2, "ok"}, {1, "ok"}}, Seed: 5}}})
	ok2 := []sigEntry{{1, "ok"}, {2, "ok"}}
	d := mintHist{Percent: 0.7, MinMint: 10, MaxFee: 6, MinStake: 0, Ops: []mintOp{{K: "reg", A: 1, By: "owner"}, {K: "reg", A: 2, By: "owner"}, {K: "reg", A: 3, By: "owner"},
		{K: "mint", C: 0, Recv: 0, Amount: 100, Nonce: 1, Txn: 1, Sigs: ok2, Seed: 5},
		{K: "mint", C: 0, Recv: 0, Amount: 100, Nonce: 2, Txn: 2, Sigs: []sigEntry{{1, "ok"}, {1, "ok"}}, Seed: 5},
		{K: "mint", C: 0, Recv: 0, Amount: 100, Nonce: 1, Txn: 1, Sigs: ok2, Seed: 5}}}
	for nn := int64(2); nn <= 8; nn++ {
		d.Ops = append(d.Ops, mintOp{K: "mint", C: 1, Recv: 1, Amount: 50, Nonce: nn, Txn: int(nn), Sigs: []sigEntry{{3, "ok"}, {2, "ok"}, {1, "ok"}}, Seed: nn})
	}
	d.Ops = append(d.Ops, mintOp{K: "mint", C: 0, Recv: 0, Amount: 100, Nonce: 1, Txn: 1, Sigs: ok2, Seed: 9}, mintOp{K: "mint", C: 0, Recv: 0, Amount: 100, Nonce: 4, Txn: 4, Sigs: ok2, Seed: 9})
	handle(d)
	rnd := vh.NewRand(o.Seed).Fork() // Fork: NewRand(k) is NewRand(1) shifted by k-1 draws
	for i := 0; i < o.N(150, 3000); i++ {
		handle(genMint(rnd))
	}
	rep.Note("directed: threshold 2 of 3, duplicate signer, nonce reuse across more than one partition (size 5) of minted nonces")
	finish()
}
