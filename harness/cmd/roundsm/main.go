// Engine for C37: op histories on a real round.Round (phase, VRF shares, timeout count,
// finalizing state, Restart). Every operation runs in its own goroutine; an operation that does
// not come back is recognised by its goroutine being parked on the round mutex while nobody
// alive holds it (the harness is sequential), so "did not return" is observed without hanging.
package main

import (
	"context"
	"encoding/hex"
	"encoding/json"
	"fmt"
	"math"
	"os"
	"os/exec"
	"regexp"
	"runtime"
	"sort"
	"strconv"
	"strings"
	"sync"
	"sync/atomic"
	"time"

	"0chain.net/chaincore/block"
	"0chain.net/chaincore/client"
	"0chain.net/chaincore/node"
	"0chain.net/chaincore/round"
	"0chain.net/core/memorystore"
	"0chain.net/core/viper"
	"github.com/0chain/common/core/logging"
	"go.uber.org/zap"
	"verifharness/vh"
)

type op struct {
	K   string `json:"k"`
	P   int64  `json:"p,omitempty"`   // phase / timeout count / vote number / prrs
	Who int    `json:"who,omitempty"` // party index (share, vote), self index (inc)
	Thr int    `json:"thr,omitempty"` // threshold
	Cap int    `json:"cap,omitempty"` // timeout cap for inc
}

type hist struct {
	Kind    string   `json:"kind,omitempty"`   // "" = op history, "stress" = concurrent stress
	Stress  []string `json:"stress,omitempty"` // stress: the operations released together
	Number  int64    `json:"number"`
	Parties int      `json:"parties"`
	Ops     []op     `json:"ops"`
}

var (
	parties []*node.Node // a fixed table of miners; histories use the first h.Parties
	pools   = map[int]*node.Pool{}
	blockNo int
)

func setup() {
	logging.Logger = zap.NewNop()
	logging.N2n = zap.NewNop()
	client.SetClientSignatureScheme("ed25519")
	round.SetupEntity(memorystore.GetStorageProvider())
	block.SetupEntity(memorystore.GetStorageProvider())
	for i := 0; i < 32; i++ {
		pk := make([]byte, 32)
		pk[0], pk[1] = byte(i+1), 0x37
		n := node.Provider()
		n.Type = node.NodeTypeMiner
		if err := n.SetPublicKey(hex.EncodeToString(pk)); err != nil {
			panic(err)
		}
		parties = append(parties, n)
	}
	for k := 1; k <= 8; k++ {
		p := node.NewPool(node.NodeTypeMiner)
		for _, n := range parties[:k] {
			if err := p.AddNode(n); err != nil {
				panic(err)
			}
		}
		pools[k] = p
	}
}

func partyIdx(id string) int {
	for i, n := range parties {
		if n.ID == id {
			return i + 1
		}
	}
	return 0
}

// ------------------------------------------------------------------ running one op with a watchdog

var gidRe = regexp.MustCompile(`^goroutine (\d+) \[`)

func curGID() int64 {
	buf := make([]byte, 64)
	buf = buf[:runtime.Stack(buf, false)]
	m := gidRe.FindSubmatch(buf)
	if m == nil {
		return -1
	}
	g, _ := strconv.ParseInt(string(m[1]), 10, 64)
	return g
}

func allStacks() string {
	buf := make([]byte, 1<<20)
	for {
		n := runtime.Stack(buf, true)
		if n < len(buf) {
			return string(buf[:n])
		}
		buf = make([]byte, 2*len(buf))
	}
}

// parkedIn: in the stack dump, is goroutine gid waiting in sync.(RW)Mutex.Lock/RLock?
func parkedIn(dump string, gid int64) bool {
	key := fmt.Sprintf("goroutine %d [", gid)
	i := strings.Index(dump, key)
	if i < 0 {
		return false
	}
	rest := dump[i+len(key):]
	j := strings.Index(rest, "]")
	if j < 0 {
		return false
	}
	st := rest[:j]
	return strings.Contains(st, "Mutex") || strings.Contains(st, "semacquire")
}

func parkedOnMutex(gid int64) bool { return parkedIn(allStacks(), gid) }

type pend struct {
	done chan string
	gid  int64
}

// runOp runs f in a goroutine. blocked = f did not return and its goroutine is parked on a mutex.
func runOp(f func() string) (res string, blocked bool, pd pend) {
	done := make(chan string, 1)
	gidc := make(chan int64, 1)
	go func() {
		gidc <- curGID()
		done <- f()
	}()
	gid := <-gidc
	pd = pend{done, gid}
	deadline := time.Now().Add(20 * time.Second)
	wait := 200 * time.Microsecond
	for {
		select {
		case r := <-done:
			return r, false, pd
		case <-time.After(wait):
		}
		if parkedOnMutex(gid) {
			// confirm: still parked and still not done a moment later
			select {
			case r := <-done:
				return r, false, pd
			case <-time.After(500 * time.Microsecond):
			}
			if parkedOnMutex(gid) {
				return "", true, pd
			}
		}
		if wait < 20*time.Millisecond {
			wait *= 2
		}
		if time.Now().After(deadline) {
			panic("operation neither returned nor parked on a mutex within 20 s")
		}
	}
}

// ------------------------------------------------------------------ one history on the real code

type obs struct {
	res     string // Coq sm_res
	phase   int64
	fin     int64
	tcount  int64
	held    bool
	shares  []int
	blocked bool
}

func run(h hist) (obsList []obs, opsCoq []string, fail string, kinds map[string]int) {
	kinds = map[string]int{}
	r := round.NewRound(h.Number)
	pool := pools[h.Parties]
	set := func(f string) {
		if fail == "" {
			fail = f
		}
	}
	peek := func() (int64, int64, int64, bool, []int) {
		var sh []int
		for _, k := range r.VerifShareKeys() {
			sh = append(sh, partyIdx(k))
		}
		sort.Ints(sh)
		return int64(r.GetPhase()), int64(r.VerifFinalizingState()), int64(r.GetTimeoutCount()), !r.VerifMutexFree(), sh
	}
	culprit := "" // the operation that returned leaving the mutex locked
	for _, o := range h.Ops {
		prePhase, preFin, preT, preHeld, preShares := peek()
		preFinalized := preFin == 2 || h.Number == 0
		var coq string
		var f func() string
		switch o.K {
		case "setphase":
			coq = "SmSetPhase " + vh.Z(o.P)
			f = func() string { r.SetPhase(round.Phase(o.P)); return "VUnit" }
		case "resetphase":
			coq = "SmResetPhase " + vh.Z(o.P)
			f = func() string { r.ResetPhase(round.Phase(o.P)); return "VUnit" }
		case "getphase":
			coq = "SmGetPhase"
			f = func() string { return "(VInt " + vh.Z(int64(r.GetPhase())) + ")" }
		case "restart":
			coq = "SmRestart"
			f = func() string {
				if err := r.Restart(); err != nil {
					if err == round.CompleteRoundRestartError {
						return "VRestartRejected"
					}
					return "(VInt 999)"
				}
				return "VUnit"
			}
		case "share":
			coq = fmt.Sprintf("SmAddShare %d %s", o.Who+1, vh.Z(int64(o.Thr)))
			f = func() string {
				s := &round.VRFShare{}
				s.SetParty(parties[o.Who])
				return "(VBool " + vh.Bool(r.AddVRFShare(s, o.Thr)) + ")"
			}
		case "shares":
			coq = "SmGetShares"
			f = func() string {
				var ks []int
				for k := range r.GetVRFShares() {
					ks = append(ks, partyIdx(k))
				}
				sort.Ints(ks)
				return "(VSet " + intList(ks) + ")"
			}
		case "notarized":
			coq = "SmAddNotarized"
			f = func() string {
				blockNo++
				b := block.NewBlock("", h.Number)
				b.Hash = fmt.Sprintf("%064x", blockNo)
				b.RoundRank = blockNo % 50
				r.AddNotarizedBlock(b)
				return "VUnit"
			}
		case "settimeout":
			coq = "SmSetTimeout " + vh.Z(o.P) + " " + vh.Z(int64(o.Cap))
			f = func() string {
				viper.Set("server_chain.round_timeouts.timeout_cap", o.Cap)
				return "(VBool " + vh.Bool(r.SetTimeoutCount(int(o.P))) + ")"
			}
		case "inc":
			// perm is recorded after the call (the stored order); the model uses it only when it has none yet
			f = func() string {
				viper.Set("server_chain.round_timeouts.timeout_cap", o.Cap)
				node.Self.Node = parties[o.Who]
				r.IncrementTimeoutCount(o.P, pool)
				return "VUnit"
			}
		case "vote":
			coq = fmt.Sprintf("SmVote %s %d", vh.Z(o.P), o.Who+1)
			f = func() string { r.AddTimeoutVote(int(o.P), parties[o.Who].ID); return "VUnit" }
		case "gettimeout":
			coq = "SmGetTimeout"
			f = func() string { return "(VInt " + vh.Z(int64(r.GetTimeoutCount())) + ")" }
		case "setfinalizing":
			coq = "SmSetFinalizing"
			f = func() string { return "(VBool " + vh.Bool(r.SetFinalizing()) + ")" }
		case "setfinalized":
			coq = "SmSetFinalized"
			f = func() string { r.SetFinalized(); return "VUnit" }
		case "finalize":
			coq = "SmFinalize"
			f = func() string {
				b := block.NewBlock("", h.Number)
				b.Hash = "finalized"
				r.Finalize(b)
				return "VUnit"
			}
		case "resetfinifnot":
			coq = "SmResetFinIfNot"
			f = func() string { r.ResetFinalizingStateIfNotFinalized(); return "VUnit" }
		case "resetfin":
			coq = "SmResetFin"
			f = func() string { r.ResetFinalizingState(); return "VUnit" }
		case "isfinalized":
			coq = "SmIsFinalized"
			f = func() string { return "(VBool " + vh.Bool(r.IsFinalized()) + ")" }
		case "isfinalizing":
			coq = "SmIsFinalizing"
			f = func() string { return "(VBool " + vh.Bool(r.IsFinalizing()) + ")" }
		default:
			panic("unknown op " + o.K)
		}
		res, blocked, pd := runOp(f)
		if o.K == "inc" {
			var perm []int
			for _, id := range r.VerifTimeoutPerm() {
				perm = append(perm, partyIdx(id))
			}
			coq = fmt.Sprintf("SmIncTimeout %s %s %d %s", vh.Z(o.P), intList(perm), o.Who+1, vh.Z(int64(o.Cap)))
		}
		opsCoq = append(opsCoq, coq)
		phase, fin, tc, held, shares := peek()
		ob := obs{phase: phase, fin: fin, tcount: tc, held: held, shares: shares, blocked: blocked}
		if blocked {
			ob.res = "Blocked"
			_ = pd // the goroutine stays parked for good; the round object is abandoned with it
			kinds["blocked"]++
		} else {
			ob.res = "(Ret " + res + ")"
			kinds[o.K]++
		}
		obsList = append(obsList, ob)

		// ---- the property, on what was observed ----
		// every operation returns
		if blocked {
			if culprit == "restart-rejected" {
				set("rejected-restart-leaks-lock")
			} else {
				set("operation-does-not-return")
			}
		}
		if !blocked && held && !preHeld {
			culprit = o.K
			if res == "VRestartRejected" {
				culprit = "restart-rejected"
				kinds["restart-rejected-leak"]++
			}
		}
		if !blocked && res == "VRestartRejected" {
			kinds["restart-rejected"]++
		}
		// phase moves forward except by ResetPhase or an accepted Restart before sharing
		if phase < prePhase {
			ok := o.K == "resetphase" || (o.K == "restart" && res == "VUnit" && prePhase < int64(round.Share))
			if !ok {
				set("phase-moved-backwards")
			}
		}
		// timeout count never decreases
		if tc < preT {
			switch {
			case o.K == "inc" && o.Cap > 0 && preT > int64(o.Cap):
				set("timeout-count-lowered-by-cap")
			case o.K == "inc" && preT == math.MaxInt64:
				set("timeout-count-overflow")
			default:
				set("timeout-count-decreased")
			}
		}
		// at most threshold shares, one per miner
		if o.K == "share" && res == "(VBool true)" {
			if len(shares) > o.Thr {
				set("more-shares-than-threshold")
			}
			for _, p := range preShares {
				if p == o.Who+1 {
					set("second-share-from-same-miner")
				}
			}
			kinds["share-accepted"]++
		}
		if o.K == "share" && res == "(VBool false)" {
			kinds["share-refused"]++
		}
		// a finalized round stays finalized (only the unconditional reset may undo it)
		postFinalized := fin == 2 || h.Number == 0
		if preFinalized && !postFinalized && o.K != "resetfin" {
			if o.K == "resetfinifnot" {
				set("conditional-reset-unfinalized-round")
			} else {
				set("finalized-round-unfinalized")
			}
		}
		if o.K == "resetfinifnot" && preFinalized {
			kinds["conditional-reset-on-finalized"]++
		}
		if blocked {
			break // a history ends at its first operation that does not return (later ops are not run)
		}
	}
	return
}

func intList(xs []int) string {
	out := make([]string, len(xs))
	for i, x := range xs {
		out[i] = strconv.Itoa(x)
	}
	return vh.List(out)
}

func coqCase(h hist, obsList []obs, ops []string) string {
	os := make([]string, len(obsList))
	for i, o := range obsList {
		os[i] = fmt.Sprintf("{| so_res := %s; so_phase := %s; so_fin := %d; so_tcount := %s; so_held := %s; so_shares := %s |}",
			o.res, vh.Z(o.phase), o.fin, vh.Z(o.tcount), vh.Bool(o.held), intList(o.shares))
	}
	return fmt.Sprintf("SmCase %s %s %s", vh.Z(h.Number), vh.List(ops), vh.List(os))
}

// ------------------------------------------------------------------ generator

func genHist(r *vh.Rand) hist {
	h := hist{Number: int64(r.Range(1, 50)), Parties: r.Range(3, 6)}
	if r.Chance(1, 8) {
		h.Number = 0
	}
	thr := r.Range(1, 4)
	cap := []int{0, 0, 1, 3, 4}[r.Intn(5)]
	n := r.Range(3, 22)
	phases := []int64{0, 1, 2, 3, 4}
	if r.Chance(1, 6) {
		phases = []int64{-1, 0, 3, 4, 5, 7, math.MaxInt32, math.MinInt32}
	}
	counts := []int64{0, 1, 2, 3, 4, 5}
	if r.Chance(1, 6) {
		counts = []int64{-1, 0, 1, int64(cap) + 1, math.MaxInt64, math.MaxInt64 - 1, math.MinInt64, 1 << 53}
	}
	blocked := 0
	for i := 0; i < n && blocked < 3; i++ {
		var o op
		switch x := r.Intn(100); {
		case x < 10:
			o = op{K: "setphase", P: r.Pick64(phases)}
		case x < 13:
			o = op{K: "resetphase", P: r.Pick64(phases)}
		case x < 17:
			o = op{K: "getphase"}
		case x < 25:
			o = op{K: "restart"}
		case x < 40:
			t := thr
			if r.Chance(1, 6) {
				t = r.Range(-1, 5)
			}
			o = op{K: "share", Who: r.Intn(h.Parties), Thr: t}
		case x < 44:
			o = op{K: "shares"}
		case x < 52:
			o = op{K: "notarized"}
		case x < 58:
			o = op{K: "settimeout", P: r.Pick64(counts), Cap: cap}
		case x < 66:
			// the cap is a chain-wide setting: constant within a history
			o = op{K: "inc", P: []int64{0, 7, 7, 11, -5}[r.Intn(5)], Who: r.Intn(h.Parties), Cap: cap}
		case x < 72:
			o = op{K: "vote", P: r.Pick64(counts), Who: r.Intn(h.Parties)}
		case x < 75:
			o = op{K: "gettimeout"}
		case x < 79:
			o = op{K: "setfinalizing"}
		case x < 82:
			o = op{K: "setfinalized"}
		case x < 85:
			o = op{K: "finalize"}
		case x < 91:
			o = op{K: "resetfinifnot"}
		case x < 93:
			o = op{K: "resetfin"}
		case x < 97:
			o = op{K: "isfinalized"}
		default:
			o = op{K: "isfinalizing"}
		}
		h.Ops = append(h.Ops, o)
	}
	return h
}

func key(h hist) string { return fmt.Sprintf("%d|%d|%v", h.Number, h.Parties, h.Ops) }

// ------------------------------------------------------------------ concurrent stress (child process)

// The stress runs in a child process: an operation that never returns (a spinning or blocked
// goroutine cannot be stopped from inside) is observed by the child's watchdog, reported, and
// the process exits; the parent also kills the child when it overruns.

var stressMixes = [][]string{
	{"setphase:3", "setphase:1"},
	{"notarized", "setphase:1"},
	{"notarized", "setphase:2", "setphase:1"},
	{"setphase:3", "setphase:2", "setphase:1"},
	{"notarized", "setphase:4", "setphase:2"},
}

type stressResult struct {
	Trials  int      `json:"trials"`
	Lost    int      `json:"lost"`               // trials that ended below the greatest requested phase
	LostOps []string `json:"lost_ops,omitempty"` // the op set of the first such trial
	Held    int      `json:"held"`               // trials after which the round mutex was left locked
	HeldOps []string `json:"held_ops,omitempty"`
	Over    int      `json:"over"` // share bursts that ended with more than threshold shares stored or accepted
	OverMsg string   `json:"over_msg,omitempty"`
	Wiped   int      `json:"wiped"` // restart-loop trials: the round fell below Share / lost its block / accepted a Restart after AddNotarizedBlock returned
	Hang    bool     `json:"hang"`  // an operation did not return within the watchdog time
	HangOps []string `json:"hang_ops,omitempty"`
	HangAt  int      `json:"hang_at,omitempty"`
}

func phaseOf(op string) round.Phase {
	if op == "notarized" {
		return round.Share
	}
	var p int
	fmt.Sscanf(op, "setphase:%d", &p)
	return round.Phase(p)
}

// stressChild runs in the child process and prints one JSON line.
func stressChild(d time.Duration, mixes [][]string) {
	var (
		res      stressResult
		progress atomic.Int64
		curMix   atomic.Pointer[[]string]
		out      sync.Mutex
	)
	emit := func() {
		out.Lock()
		b, _ := json.Marshal(res)
		fmt.Println(string(b))
		os.Exit(0)
	}
	// watchdog: no finished trial for 3 s = some operation of the current trial does not return
	go func() {
		last, since := int64(-1), time.Now()
		for {
			time.Sleep(50 * time.Millisecond)
			if p := progress.Load(); p != last {
				last, since = p, time.Now()
				continue
			}
			if time.Since(since) > 3*time.Second {
				res.Hang = true
				if m := curMix.Load(); m != nil {
					res.HangOps = *m
				}
				res.HangAt = int(last)
				emit()
			}
		}
	}()
	per := d / time.Duration(len(mixes)+2)
	for mi := range mixes {
		mix := mixes[mi]
		curMix.Store(&mix)
		want := round.Phase(0)
		for _, op := range mix {
			if p := phaseOf(op); p > want {
				want = p
			}
		}
		var (
			cur   atomic.Pointer[round.Round]
			blk   atomic.Pointer[block.Block]
			gen   atomic.Int64
			ready atomic.Int64
			fin   atomic.Int64
			stop  atomic.Bool
		)
		n := int64(len(mix))
		for _, op := range mix {
			op := op
			go func() {
				runtime.LockOSThread()
				seen := int64(0)
				for {
					for gen.Load() == seen {
						if stop.Load() {
							return
						}
					}
					seen = gen.Load()
					r := cur.Load()
					b := blk.Load()
					ready.Add(1)
					for ready.Load() < n { // all start together
					}
					if op == "notarized" {
						r.AddNotarizedBlock(b)
					} else {
						r.SetPhase(phaseOf(op))
					}
					fin.Add(1)
				}
			}()
		}
		end := time.Now().Add(per)
		for time.Now().Before(end) {
			for k := 0; k < 500; k++ {
				r := round.NewRound(3)
				b := block.NewBlock("", 3)
				b.Hash = fmt.Sprintf("%064x", res.Trials+1)
				cur.Store(r)
				blk.Store(b)
				ready.Store(0)
				fin.Store(0)
				gen.Add(1)
				for fin.Load() < n {
				}
				res.Trials++
				progress.Add(1)
				if r.GetPhase() != want {
					if res.Lost == 0 {
						res.LostOps = mix
					}
					res.Lost++
				}
				if !r.VerifMutexFree() {
					if res.Held == 0 {
						res.HeldOps = mix
					}
					res.Held++
				}
			}
		}
		stop.Store(true)
	}
	// G goroutines each add the share of a distinct miner to one round at the same moment, while
	// readers hold the read lock (GetVRFShares, GetMinersByRank)
	if len(mixes) == 0 || len(mixes) == len(stressMixes) {
		mix := []string{"share-burst"}
		curMix.Store(&mix)
		end := time.Now().Add(per)
		for trial := 0; time.Now().Before(end); trial++ {
			g := []int{8, 16, 32}[trial%3]
			thr := trial%5 + 1
			r := round.NewRound(3)
			r.SetRandomSeedForNotarizedBlock(7, g)
			var ready, fin, accepted atomic.Int64
			var stopReaders atomic.Bool
			nodes := append([]*node.Node{}, parties[:g]...)
			for k := 0; k < 2; k++ {
				go func(k int) {
					for !stopReaders.Load() {
						if k == 0 {
							_ = r.GetMinersByRank(append([]*node.Node{}, nodes...))
						} else {
							_ = r.GetVRFShares()
						}
					}
					fin.Add(1)
				}(k)
			}
			for i := 0; i < g; i++ {
				go func(i int) {
					sh := &round.VRFShare{}
					sh.SetParty(parties[i])
					ready.Add(1)
					for ready.Load() < int64(g) {
						runtime.Gosched()
					}
					if r.AddVRFShare(sh, thr) {
						accepted.Add(1)
					}
					fin.Add(1)
				}(i)
			}
			for fin.Load() < int64(g) {
				runtime.Gosched()
			}
			stopReaders.Store(true)
			for fin.Load() < int64(g+2) {
				runtime.Gosched()
			}
			res.Trials++
			progress.Add(1)
			stored := len(r.GetVRFShares())
			if stored > thr || int(accepted.Load()) > thr {
				if res.Over == 0 {
					res.OverMsg = fmt.Sprintf("%d goroutines, threshold %d: round holds %d VRF shares, %d calls returned true", g, thr, stored, accepted.Load())
				}
				res.Over++
			}
		}
	}
	// one goroutine loops Restart, another calls AddNotarizedBlock once
	{
		mix := []string{"restart-loop", "notarized"}
		curMix.Store(&mix)
		end := time.Now().Add(per)
		for time.Now().Before(end) {
			for k := 0; k < 200; k++ {
				r := round.NewRound(3)
				b := block.NewBlock("", 3)
				b.Hash = fmt.Sprintf("%064x", res.Trials+1)
				var ready, anbDone, fin, lateAccepted atomic.Int64
				go func() {
					ready.Add(1)
					for ready.Load() < 2 {
					}
					for anbDone.Load() == 0 {
						_ = r.Restart()
					}
					for i := 0; i < 3; i++ { // these start after AddNotarizedBlock returned
						if r.Restart() == nil {
							lateAccepted.Add(1)
						}
					}
					fin.Add(1)
				}()
				go func() {
					ready.Add(1)
					for ready.Load() < 2 {
					}
					for i := 0; i < k%64; i++ { // vary the moment of the call
						_ = r.GetPhase()
					}
					r.AddNotarizedBlock(b)
					anbDone.Store(1)
					fin.Add(1)
				}()
				for fin.Load() < 2 {
					runtime.Gosched()
				}
				res.Trials++
				progress.Add(1)
				if lateAccepted.Load() > 0 || r.GetPhase() < round.Share || len(r.GetNotarizedBlocks()) != 1 {
					res.Wiped++
				}
			}
		}
	}
	emit()
}

// stress starts the child and reads its result; a child that overruns is killed.
func stress(d time.Duration, only []string) stressResult {
	ctx, cancel := context.WithTimeout(context.Background(), d+10*time.Second)
	defer cancel()
	cmd := exec.CommandContext(ctx, os.Args[0])
	cmd.Env = append(os.Environ(), fmt.Sprintf("VERIF_ROUNDSM_STRESS=%d", d.Milliseconds()))
	if len(only) > 0 {
		cmd.Env = append(cmd.Env, "VERIF_ROUNDSM_STRESS_OPS="+strings.Join(only, ","))
	}
	outb, err := cmd.Output()
	var res stressResult
	lines := strings.Split(strings.TrimSpace(string(outb)), "\n")
	if jerr := json.Unmarshal([]byte(lines[len(lines)-1]), &res); jerr != nil || (err != nil && !res.Hang && res.Trials == 0) {
		// no usable result: the child was killed or died; that is an operation that did not return
		return stressResult{Hang: true, HangOps: only}
	}
	return res
}

func reportStress(rep *vh.Report, res stressResult) {
	rep.Note("concurrent stress in a child process (SetPhase calls and AddNotarizedBlock released together on fresh rounds, bursts of 8-32 concurrent AddVRFShare calls of distinct miners with readers holding the read lock, and Restart looping against one AddNotarizedBlock): %d trials, %d ended below the greatest requested phase, %d left the mutex locked, %d share bursts over the threshold, %d restart-after-sharing, hang=%v", res.Trials, res.Lost, res.Held, res.Over, res.Wiped, res.Hang)
	rep.CountN("stress-trials", res.Trials)
	if res.Hang {
		rep.Violate("C37:operation-does-not-return",
			fmt.Sprintf("concurrent %v on a fresh round: an operation did not return within 3 s (after %d finished trials)", res.HangOps, res.HangAt),
			hist{Kind: "stress", Stress: res.HangOps})
	}
	if res.Lost > 0 {
		rep.Violate("C37:phase-lost-update",
			fmt.Sprintf("concurrent %v all returned and the phase is below the greatest requested phase in %d of %d trials", res.LostOps, res.Lost, res.Trials),
			hist{Kind: "stress", Stress: res.LostOps})
	}
	if res.Over > 0 {
		rep.Violate("C37:more-shares-than-threshold",
			fmt.Sprintf("concurrent AddVRFShare of distinct miners on one round: %s (%d bursts over the threshold)", res.OverMsg, res.Over),
			hist{Kind: "stress", Stress: []string{"share-burst"}})
	}
	if res.Wiped > 0 {
		rep.Violate("C37:restart-after-sharing-accepted",
			fmt.Sprintf("Restart looping against one AddNotarizedBlock: after AddNotarizedBlock returned a Restart was accepted, or the round fell below Share, or lost its notarized block, in %d trials", res.Wiped),
			hist{Kind: "stress", Stress: []string{"restart-loop", "notarized"}})
	}
	if res.Held > 0 {
		rep.Violate("C37:lock-left-held-after-concurrent-ops",
			fmt.Sprintf("concurrent %v returned leaving the round mutex locked in %d of %d trials", res.HeldOps, res.Held, res.Trials),
			hist{Kind: "stress", Stress: res.HeldOps})
	}
}

func main() {
	if ms := os.Getenv("VERIF_ROUNDSM_STRESS"); ms != "" {
		n, _ := strconv.Atoi(ms)
		setup()
		mixes := stressMixes
		if ops := os.Getenv("VERIF_ROUNDSM_STRESS_OPS"); ops != "" {
			mixes = [][]string{strings.Split(ops, ",")}
			if strings.HasPrefix(ops, "restart-loop") || strings.HasPrefix(ops, "share-burst") {
				mixes = nil // only the share burst and the Restart loop
			}
		}
		stressChild(time.Duration(n)*time.Millisecond, mixes)
		return
	}
	o := vh.ParseFlags()
	setup()
	rep := vh.NewReport("roundsm", "C37", o)
	rep.Rule = "random histories of 3-22 round operations (set/reset/get phase, restart, add/get VRF shares over 3-6 miners with " +
		"threshold 1-4, add notarized block, set/increment/get timeout count with votes and cap 0/1/3, finalizing-state ops; " +
		"1 in 6 with out-of-range phases or extreme counts, 1 in 8 on round 0) + all sequences over a 12-op alphabet up to a bound; " +
		"each op runs under a watchdog. Non-trivial = a share was accepted, a share was refused or a restart rejected, and a phase " +
		"or timeout operation ran; distinct by full op list"
	cf := &vh.CasesFile{Imports: []string{"Base.Corr", "Model.RoundSM", "Corr.RoundSM"}, CaseType: "sm_case", CheckFn: "sm_check"}

	handle := func(h hist, toCoq bool) {
		obsList, ops, fail, kinds := run(h)
		for k, n := range kinds {
			rep.CountN(k, n)
		}
		nontriv := kinds["share-accepted"] > 0 && (kinds["share-refused"]+kinds["restart-rejected"] > 0) &&
			(kinds["setphase"]+kinds["notarized"]+kinds["inc"]+kinds["settimeout"] > 0)
		rep.Case(key(h), nontriv, h)
		if toCoq {
			cf.Add(coqCase(h, obsList, ops))
			rep.CaseInputs = append(rep.CaseInputs, h)
		}
		if fail != "" {
			keep := vh.ShrinkIdx(len(h.Ops), func(keep []int) bool {
				h2 := hist{Number: h.Number, Parties: h.Parties}
				for _, i := range keep {
					h2.Ops = append(h2.Ops, h.Ops[i])
				}
				_, _, f2, _ := run(h2)
				return f2 == fail
			})
			h2 := hist{Number: h.Number, Parties: h.Parties}
			for _, i := range keep {
				h2.Ops = append(h2.Ops, h.Ops[i])
			}
			rep.Violate("C37:"+fail, "round state machine: "+fail, h2)
		}
	}
	finish := func() {
		files, err := cf.Write(o.Out, "C37")
		if err != nil {
			panic(err)
		}
		rep.CaseFiles = files
		rep.ShardSize = 400
		rep.Write(o.Out)
	}

	var rh hist
	if o.LoadReplay(&rh) {
		if rh.Kind == "stress" {
			rep.Case("stress", true, rh)
			rep.CaseInputs = []interface{}{} // no model cases in a stress replay
			reportStress(rep, stress(10*time.Second, rh.Stress))
			finish()
			return
		}
		if rh.Parties == 0 {
			rh.Parties = 3
		}
		handle(rh, true)
		finish()
		return
	}
	// directed histories: the edges of every clause, always run
	maxI := int64(math.MaxInt64)
	for _, h := range []hist{
		{Number: 4, Parties: 3, Ops: []op{{K: "notarized"}, {K: "restart"}, {K: "shares"}}},
		{Number: 4, Parties: 3, Ops: []op{{K: "setphase", P: 4}, {K: "restart"}, {K: "setphase", P: 2}, {K: "getphase"}, {K: "gettimeout"}, {K: "isfinalized"}}},
		{Number: 4, Parties: 3, Ops: []op{{K: "setphase", P: 2}, {K: "restart"}, {K: "restart"}, {K: "shares"}}},
		{Number: 4, Parties: 3, Ops: []op{{K: "settimeout", P: 3, Cap: 1}, {K: "inc", P: 7, Who: 0, Cap: 1}, {K: "gettimeout"}}},
		{Number: 4, Parties: 3, Ops: []op{{K: "settimeout", P: 1, Cap: 1}, {K: "inc", P: 7, Who: 0, Cap: 1}, {K: "inc", P: 7, Who: 0, Cap: 1}}},
		{Number: 4, Parties: 3, Ops: []op{{K: "settimeout", P: maxI}, {K: "inc", P: 7, Who: 0}, {K: "gettimeout"}}},
		{Number: 4, Parties: 3, Ops: []op{{K: "vote", P: maxI, Who: 1}, {K: "inc", P: 7, Who: 0}, {K: "inc", P: 7, Who: 0}, {K: "gettimeout"}}},
		{Number: 4, Parties: 3, Ops: []op{{K: "vote", P: 5, Who: 1}, {K: "vote", P: 9, Who: 2}, {K: "vote", P: 8, Who: 0}, {K: "inc", P: 7, Who: 0, Cap: 6}, {K: "inc", P: 0, Who: 0, Cap: 6}, {K: "settimeout", P: 2, Cap: 6}}},
		{Number: 4, Parties: 4, Ops: []op{{K: "share", Who: 0, Thr: 2}, {K: "share", Who: 0, Thr: 2}, {K: "share", Who: 1, Thr: 2}, {K: "share", Who: 2, Thr: 2}, {K: "share", Who: 2, Thr: 3}, {K: "share", Who: 3, Thr: 0}, {K: "shares"}, {K: "restart"}, {K: "shares"}}},
		{Number: 4, Parties: 3, Ops: []op{{K: "setfinalizing"}, {K: "setfinalizing"}, {K: "resetfinifnot"}, {K: "finalize"}, {K: "resetfinifnot"}, {K: "isfinalized"}, {K: "setfinalizing"}, {K: "resetfin"}, {K: "isfinalized"}}},
		{Number: 0, Parties: 3, Ops: []op{{K: "isfinalized"}, {K: "setfinalizing"}, {K: "resetfinifnot"}, {K: "resetfin"}, {K: "isfinalized"}}},
		{Number: 4, Parties: 3, Ops: []op{{K: "resetphase", P: -1}, {K: "share", Who: 0, Thr: 1}, {K: "getphase"}, {K: "setphase", P: math.MinInt32}, {K: "setphase", P: math.MaxInt32}, {K: "restart"}}},
	} {
		handle(h, true)
	}
	rnd := vh.NewRand(o.Seed)
	for i := 0; i < o.N(350, 3500); i++ {
		handle(genHist(rnd), true)
	}
	// exhaustive short sequences
	alpha := []op{{K: "setphase", P: 1}, {K: "setphase", P: 3}, {K: "resetphase", P: 0}, {K: "restart"},
		{K: "share", Who: 0, Thr: 1}, {K: "share", Who: 1, Thr: 1}, {K: "notarized"}, {K: "settimeout", P: 2, Cap: 1},
		{K: "inc", P: 7, Who: 0, Cap: 1}, {K: "setfinalized"}, {K: "resetfinifnot"}, {K: "isfinalized"}}
	maxLen, coqLen := o.N(3, 4), o.N(2, 2)
	var rec func(cur []op)
	rec = func(cur []op) {
		if len(cur) > 0 {
			handle(hist{Number: 4, Parties: 3, Ops: append([]op{}, cur...)}, len(cur) <= coqLen)
		}
		if len(cur) == maxLen {
			return
		}
		// a history is not extended past its second blocked operation
		for _, a := range alpha {
			rec(append(cur, a))
		}
	}
	rec(nil)
	rep.Note("exhaustive: all sequences over %d ops up to length %d on the implementation oracle; up to length %d also compared with the model", len(alpha), maxLen, coqLen)
	reportStress(rep, stress(time.Duration(o.N(3, 25))*time.Second, nil))
	finish()
}
