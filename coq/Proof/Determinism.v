(* Lemmas for C06: the three independence lemmas behind the classes of Gen/NdSites.v, the finite check of
   the site table, and the witnesses of the order/clock dependent sites. *)
From ZC Require Import Model.Determinism.
Open Scope Z_scope.

(* ---------- OrderFree: fold of a commuting body over any permutation ---------- *)

Lemma nd_loop_perm : forall (S E : Type) (body : S -> E -> S), nd_commutes S E body ->
  forall es es', Permutation es es' -> forall s, nd_loop S E body s es = nd_loop S E body s es'.
Proof.
  intros S E body C es es' P. unfold nd_loop.
  induction P as [|x l l' P IH|x y l|l l' l'' P1 IH1 P2 IH2]; intro s; cbn [fold_left].
  - reflexivity.
  - apply IH.
  - rewrite C. reflexivity.
  - rewrite IH1. apply IH2.
Qed.

(* integer accumulation `x += f(e)` (Go wraps at 2^64) is such a body *)
Lemma nd_add_commutes : forall (E : Type) (f : E -> Z), nd_commutes Z E (fun s e => (s + f e) mod 2 ^ 64).
Proof.
  intros E f s a b. cbn beta. rewrite !Zplus_mod_idemp_l. f_equal. lia.
Qed.

(* ---------- ExistsCheck ---------- *)

Lemma nd_exists_perm : forall (E : Type) (p : E -> bool) es es', Permutation es es' -> nd_exists E p es = nd_exists E p es'.
Proof.
  intros E p es es' P. unfold nd_exists.
  destruct (existsb p es) eqn:A; symmetry.
  - apply existsb_exists in A as [x [I H]]. apply existsb_exists. exists x. split; [eapply Permutation_in; eauto|exact H].
  - destruct (existsb p es') eqn:B; [|reflexivity].
    apply existsb_exists in B as [x [I H]]. rewrite <- A. symmetry. apply existsb_exists. exists x.
    split; [eapply Permutation_in; [apply Permutation_sym; exact P|exact I] | exact H].
Qed.

(* ---------- CollectSort ---------- *)

Lemma nd_insert_perm : forall x l, Permutation (x :: l) (nd_insert x l).
Proof.
  induction l as [|y tl IH]; cbn [nd_insert]; [apply Permutation_refl|].
  destruct (Z.leb x y); [apply Permutation_refl|].
  eapply perm_trans; [apply perm_swap|]. apply perm_skip. exact IH.
Qed.

Lemma nd_sort_perm : forall l, Permutation l (nd_sort l).
Proof.
  induction l as [|x tl IH]; cbn [nd_sort]; [constructor|].
  eapply perm_trans; [apply perm_skip; exact IH | apply nd_insert_perm].
Qed.

Inductive nd_sorted : list Z -> Prop :=
  | SNil : nd_sorted []
  | SOne : forall x, nd_sorted [x]
  | SCons : forall x y l, x <= y -> nd_sorted (y :: l) -> nd_sorted (x :: y :: l).

Lemma nd_insert_sorted : forall x l, nd_sorted l -> nd_sorted (nd_insert x l).
Proof.
  intros x l H. induction H as [|y|y z l L H IH]; cbn [nd_insert].
  - constructor.
  - destruct (Z.leb_spec x y); constructor; try lia; constructor.
  - destruct (Z.leb_spec x y).
    + constructor; [lia|]. constructor; assumption.
    + cbn [nd_insert] in IH. destruct (Z.leb_spec x z).
      * constructor; [lia|]. constructor; [lia|assumption].
      * constructor; [lia|exact IH].
Qed.

Lemma nd_sort_sorted : forall l, nd_sorted (nd_sort l).
Proof. induction l as [|x tl IH]; cbn [nd_sort]; [constructor | apply nd_insert_sorted; exact IH]. Qed.

Lemma nd_sorted_head_min : forall x l, nd_sorted (x :: l) -> forall y, In y l -> x <= y.
Proof.
  intros x l. revert x. induction l as [|z tl IH]; intros x H y I; [destruct I|].
  inversion H; subst. destruct I as [I|I]; [subst; assumption|].
  assert (z <= y) by (apply IH; assumption). lia.
Qed.

Lemma nd_sorted_tail : forall x l, nd_sorted (x :: l) -> nd_sorted l.
Proof. intros x l H. inversion H; subst; [constructor|assumption]. Qed.

(* two sorted lists with the same elements are equal *)
Lemma nd_sorted_perm_eq : forall l l', nd_sorted l -> nd_sorted l' -> Permutation l l' -> l = l'.
Proof.
  induction l as [|x tl IH]; intros l' S S' P.
  - apply Permutation_nil in P. subst. reflexivity.
  - destruct l' as [|y tl']; [apply Permutation_sym, Permutation_nil in P; discriminate|].
    assert (x = y).
    { assert (Ix : In x (y :: tl')) by (eapply Permutation_in; [exact P|left; reflexivity]).
      assert (Iy : In y (x :: tl)) by (eapply Permutation_in; [apply Permutation_sym; exact P|left; reflexivity]).
      destruct Ix as [Ix|Ix]; [congruence|]. destruct Iy as [Iy|Iy]; [congruence|].
      pose proof (nd_sorted_head_min _ _ S y Iy). pose proof (nd_sorted_head_min _ _ S' x Ix). lia. }
    subst y. f_equal. apply IH.
    + eapply nd_sorted_tail; eauto.
    + eapply nd_sorted_tail; eauto.
    + eapply Permutation_cons_inv; eauto.
Qed.

Lemma nd_collect_sort_perm : forall (E : Type) (key : E -> Z) es es',
  Permutation es es' -> nd_collect_sort key es = nd_collect_sort key es'.
Proof.
  intros E key es es' P. unfold nd_collect_sort. apply nd_sorted_perm_eq; try apply nd_sort_sorted.
  eapply perm_trans; [apply Permutation_sym, nd_sort_perm|].
  eapply perm_trans; [apply Permutation_map; exact P | apply nd_sort_perm].
Qed.

(* ---------- a block made of order-free steps does not depend on the runtime's choices ---------- *)

Lemma nd_run_independent : forall (S : Type) (steps : list (nd_step S * list Z)),
  Forall (fun p => nd_order_free (fst p)) steps ->
  forall o1 o2, Forall2 (fun a b => Permutation a b) o1 o2 ->
  Forall2 (fun p o => Permutation (snd p) o) steps o1 ->
  forall s, nd_run steps o1 s = nd_run steps o2 s.
Proof.
  intros S steps F. induction F as [|[st d] tl H F IH]; intros o1 o2 P Q s.
  - destruct o1, o2; reflexivity.
  - inversion Q as [|a b c d' Qa Qb]; subst. inversion P as [|a2 b2 c2 d2 Pa Pb]; subst.
    cbn [nd_run]. cbn [fst] in H. rewrite (H s b b2 Pa). apply IH; assumption.
Qed.

(* ---------- cache warmth ---------- *)

(* with a coherent cache every read returns the committed value, whatever the node holds in its cache *)
Lemma nd_read_warmth_independent : forall warm1 warm2 cache1 cache2 trie,
  nd_cache_coherent warm1 cache1 trie -> nd_cache_coherent warm2 cache2 trie ->
  forall k, nd_read warm1 cache1 trie k = nd_read warm2 cache2 trie k.
Proof.
  intros warm1 warm2 cache1 cache2 trie C1 C2 k. unfold nd_read.
  destruct (warm1 k) eqn:W1; destruct (warm2 k) eqn:W2;
    try rewrite (C1 k W1); try rewrite (C2 k W2); reflexivity.
Qed.

(* hence a step that only reads through the cache does not depend on the warmth oracle *)
Lemma nd_step_warmth_independent : forall (S : Type) (step : S -> (Z -> option Z) -> S) warm1 warm2 cache1 cache2 trie,
  nd_cache_coherent warm1 cache1 trie -> nd_cache_coherent warm2 cache2 trie ->
  (forall s r r', (forall k, r k = r' k) -> step s r = step s r') ->
  forall s, step s (nd_read warm1 cache1 trie) = step s (nd_read warm2 cache2 trie).
Proof.
  intros S step warm1 warm2 cache1 cache2 trie C1 C2 E s. apply E. intro k.
  apply nd_read_warmth_independent; assumption.
Qed.

(* what the coherence rules out: a cache that kept the write of a failed call (nonce 7 recorded by a mint that was
   rolled back) answers differently from the trie *)
Lemma nd_incoherent_cache_example :
  let trie := fun k : Z => None in
  let cache := fun k : Z => if Z.eqb k 7 then Some 1 else None in
  nd_read (fun _ => true) cache trie 7 <> nd_read (fun _ => false) cache trie 7.
Proof. vm_compute. discriminate. Qed.

(* ---------- the generated site table ---------- *)

Lemma nd_all_sites_ok : forallb nd_site_ok gen_nd_sites = true.
Proof. vm_compute. reflexivity. Qed.

Lemma nd_all_sites_classified : forall x, In x gen_nd_sites ->
  nd_class_independent (nd_site_class x) = true \/ exists a, In a gen_nd_allow /\ fst (fst a) = nd_site_key x.
Proof.
  intros x I. pose proof nd_all_sites_ok as A. rewrite forallb_forall in A. specialize (A x I).
  unfold nd_site_ok in A. apply orb_prop in A as [A|A]; [left; exact A|right].
  apply andb_prop in A as [A _]. unfold nd_allowed in A. apply existsb_exists in A as [a [Ia E]]. exists a. split; [exact Ia|].
  apply String.eqb_eq. exact E.
Qed.

(* ---------- the repaired loops ---------- *)

(* `for _, key := range config.SortedKeys(fields)`: the first error no longer depends on the map order *)
Lemma nd_first_error_sorted_perm : forall (err : Z -> option Z) ks ks',
  Permutation ks ks' -> nd_first_error_sorted err ks = nd_first_error_sorted err ks'.
Proof.
  intros err ks ks' P. unfold nd_first_error_sorted.
  pose proof (nd_collect_sort_perm Z (fun x => x) ks ks' P) as E. unfold nd_collect_sort in E. rewrite !map_id in E.
  rewrite E. reflexivity.
Qed.

(* user events emitted in sorted user-id order: the event list no longer depends on the map order *)
Lemma nd_emit_sorted_perm : forall events ks ks', Permutation ks ks' -> nd_emit_sorted events ks = nd_emit_sorted events ks'.
Proof.
  intros events ks ks' P. unfold nd_emit_sorted.
  pose proof (nd_collect_sort_perm Z (fun x => x) ks ks' P) as E. unfold nd_collect_sort in E. rewrite !map_id in E.
  rewrite E. reflexivity.
Qed.

(* why the sort matters: in plain map order both depend on the order *)
Definition nd_err_demo (e : Z) : option Z := if Z.eqb e 0 then None else Some e.
Lemma nd_first_error_order_dependent :
  Permutation [1; 0; 2] [2; 0; 1] /\ nd_first_error Z nd_err_demo [1; 0; 2] <> nd_first_error Z nd_err_demo [2; 0; 1] /\
  nd_first_error_sorted nd_err_demo [1; 0; 2] = nd_first_error_sorted nd_err_demo [2; 0; 1].
Proof.
  split; [|split; [vm_compute; discriminate | vm_compute; reflexivity]].
  apply (perm_trans (l' := [1; 2; 0])); [apply perm_skip, perm_swap|].
  apply (perm_trans (l' := [2; 1; 0])); [apply perm_swap|]. apply perm_skip, perm_swap.
Qed.

Lemma nd_emit_order_dependent :
  nd_emit_all Z [] [1; 2] <> nd_emit_all Z [] [2; 1] /\ nd_emit_sorted [] [1; 2] = nd_emit_sorted [] [2; 1].
Proof. split; [vm_compute; discriminate | vm_compute; reflexivity]. Qed.

(* whether a request fails never depended on the order *)
Lemma nd_first_error_some_perm : forall (E : Type) (err : E -> option Z) es es', Permutation es es' ->
  (nd_first_error E err es = None <-> nd_first_error E err es' = None).
Proof.
  intros E err.
  assert (H : forall es, nd_first_error E err es = None <-> forall e, In e es -> err e = None).
  { induction es as [|e tl IH]; cbn [nd_first_error]; [split; [intros _ e []|reflexivity]|].
    destruct (err e) eqn:X.
    - split; [discriminate|]. intro A. specialize (A e (or_introl eq_refl)). congruence.
    - rewrite IH. split; [intros A x [I|I]; [subst; exact X|auto] | intros A x I; apply A; right; exact I]. }
  intros es es' P. rewrite !H. split; intros A e I; apply A.
  - eapply Permutation_in; [apply Permutation_sym; exact P | exact I].
  - eapply Permutation_in; [exact P | exact I].
Qed.

(* no allow-list entry is a confirmed divergence *)
Lemma nd_no_findings : nd_findings = [].
Proof. vm_compute. reflexivity. Qed.

(* every site is independent, justified harmless, or a documented limitation that no execution has shown to diverge *)
Lemma nd_all_sites_no_finding : forall x, In x gen_nd_sites ->
  nd_class_independent (nd_site_class x) = true \/
  exists a, In a gen_nd_allow /\ fst (fst a) = nd_site_key x /\ snd (fst a) <> AlFinding.
Proof.
  intros x I.
  assert (G : forallb (fun x => (nd_class_independent (nd_site_class x) ||
              existsb (fun a => (String.eqb (fst (fst a)) (nd_site_key x) &&
                                 match snd (fst a) with AlFinding => false | _ => true end)%bool) gen_nd_allow)%bool) gen_nd_sites = true)
    by (vm_compute; reflexivity).
  rewrite forallb_forall in G. specialize (G x I). apply orb_prop in G as [G|G]; [left; exact G|right].
  apply existsb_exists in G as [a [Ia E]]. apply andb_prop in E as [E1 E2]. exists a. split; [exact Ia|]. split.
  - apply String.eqb_eq. exact E1.
  - intro K. rewrite K in E2. discriminate.
Qed.

(* a non-trivial block: an integer sum, a membership test and a sorted key list, executed in two orders *)
Definition nd_demo_steps : list (nd_step (Z * bool * list Z) * list Z) :=
  [ (fun s l => (nd_loop Z Z (fun a e => (a + e) mod 2 ^ 64) (fst (fst s)) l, snd (fst s), snd s), [3; 1; 2]);
    (fun s l => (fst (fst s), nd_exists Z (Z.eqb 2) l, snd s), [3; 1; 2]);
    (fun s l => (fst (fst s), snd (fst s), nd_collect_sort (fun x => x) l), [3; 1; 2]) ].
Lemma nd_demo :
  nd_run nd_demo_steps [[1; 2; 3]; [2; 3; 1]; [3; 2; 1]] (0, false, []) = (6, true, [1; 2; 3]) /\
  nd_run nd_demo_steps [[3; 2; 1]; [1; 3; 2]; [2; 1; 3]] (0, false, []) = (6, true, [1; 2; 3]).
Proof. vm_compute. split; reflexivity. Qed.

(* ---------- fan-in ---------- *)

Lemma nd_first_error_const : forall (E : Type) (err : E -> option Z) c es,
  (forall e x, err e = Some x -> x = c) -> nd_first_error E err es = None \/ nd_first_error E err es = Some c.
Proof.
  intros E err c es A. induction es as [|e tl IH]; [left; reflexivity|]. cbn [nd_first_error].
  destruct (err e) as [x|] eqn:X; [right; f_equal; exact (A e x X)|exact IH].
Qed.

(* when every error is the same whatever item produced it, the order in which the goroutines finish is not observable *)
Lemma nd_fanin_const_independent : forall (E : Type) (err : E -> option Z) c arrival arrival',
  (forall e x, err e = Some x -> x = c) -> Permutation arrival arrival' ->
  nd_fanin_first E err arrival = nd_fanin_first E err arrival'.
Proof.
  intros E err c a a' A P. unfold nd_fanin_first.
  pose proof (nd_first_error_some_perm E err a a' P) as [H1 H2].
  destruct (nd_first_error_const E err c a A) as [X|X], (nd_first_error_const E err c a' A) as [Y|Y]; rewrite X, Y; try reflexivity.
  - rewrite (H1 X) in Y. discriminate.
  - rewrite (H2 Y) in X. discriminate.
Qed.

(* an error text that mentions the item: two failing items, two finishing orders, two outputs *)
Lemma nd_fanin_item_example :
  nd_fanin_first Z (fun i => Some i) [1; 2] = Some 1 /\ nd_fanin_first Z (fun i => Some i) [2; 1] = Some 2 /\ Permutation [1; 2] [2; 1].
Proof. repeat split. apply perm_swap. Qed.

(* no fan-in call of the scope surfaces an error that mentions the item *)
Lemma nd_no_fan_in_item_error :
  forallb (fun x => match nd_site_class x with ClFanInItem => false | _ => true end) gen_nd_sites = true.
Proof. vm_compute. reflexivity. Qed.

(* every fan-in call whose error text depends on loaded data is listed with the side condition *)
Lemma nd_fan_in_value_conditions : forall x, In x gen_nd_sites -> nd_site_class x = ClFanInValue ->
  nd_cond_of gen_nd_allow_cond (nd_site_key x) = nd_fan_in_no_item_id.
Proof.
  intros x I C. pose proof nd_all_sites_ok as A. rewrite forallb_forall in A. specialize (A x I).
  unfold nd_site_ok in A. rewrite C in A. cbn [nd_class_independent orb] in A. apply andb_prop in A as [_ A].
  unfold nd_entry_fits in A. rewrite C in A. apply String.eqb_eq. exact A.
Qed.
