(* C35: Generator ranking and per-round notarized blocks are consistent.
   Only statements; each is closed by [exact] of a lemma in Proof/Round.v. *)
From ZC Require Import Model.Round Proof.Round.
From Coq Require Import Sorting.Permutation Sorting.Sorted.
Open Scope Z_scope.

(* The position (SetIndex) of every miner depends only on the set of miners added, not on the
   order or repetition of AddNode calls; it is the number of members with a smaller id. *)
Theorem C35_positions_order_independent :
  forall ids1 ids2, (forall x, In x ids1 <-> In x ids2) -> rk_build ids1 = rk_build ids2.
Proof. exact rk_positions_order_independent. Qed.
Print Assumptions C35_positions_order_independent.

Theorem C35_position_counts_smaller_ids :
  forall ids id k, rk_index id (rk_build ids) = Some k ->
    k = length (filter (fun y => Z.ltb y id) (rk_build ids)).
Proof. exact rk_build_index_counts_smaller. Qed.
Print Assumptions C35_position_counts_smaller_ids.

(* computeMinerRanks yields a permutation of 0..n-1 for every stream of generator draws. *)
Theorem C35_ranks_is_permutation :
  forall draws, rk_draws_ok draws = true -> Permutation (rk_perm draws) (seq 0 (length draws)).
Proof. exact rk_perm_is_permutation. Qed.
Print Assumptions C35_ranks_is_permutation.

(* Same seed (hence same draws) and same miner set, added in any order: every miner gets the
   same rank on every node. *)
Theorem C35_same_seed_same_ranks :
  forall ids1 ids2 draws id, (forall x, In x ids1 <-> In x ids2) ->
    rk_rank (rk_build ids1) (rk_perm draws) id = rk_rank (rk_build ids2) (rk_perm draws) id.
Proof. exact rk_same_seed_same_ranks. Qed.
Print Assumptions C35_same_seed_same_ranks.

(* The ranking is a bijection between the miner set and 0..n-1. *)
Theorem C35_ranks_bijective :
  forall ids draws, let pool := rk_build ids in
  rk_draws_ok draws = true -> length draws = length pool ->
  (forall id, In id ids -> exists r, rk_rank pool (rk_perm draws) id = Some (Z.of_nat r) /\ (r < length pool)%nat) /\
  (forall id1 id2, In id1 ids -> In id2 ids ->
     rk_rank pool (rk_perm draws) id1 = rk_rank pool (rk_perm draws) id2 -> id1 = id2) /\
  (forall r, (r < length pool)%nat -> exists id, In id ids /\ rk_rank pool (rk_perm draws) id = Some (Z.of_nat r)).
Proof. exact rk_ranks_bijective. Qed.
Print Assumptions C35_ranks_bijective.

(* GetMinersByRank returns the same list whatever the order of the slice handed in (all miners
   of the pool, strictly ordered by the permutation value). *)
Theorem C35_miners_by_rank_order_independent :
  forall ids draws nodes1 nodes2, let pool := rk_build ids in
  rk_draws_ok draws = true -> length draws = length pool ->
  Permutation nodes1 pool -> Permutation nodes2 pool ->
  rk_by_rank pool (rk_perm draws) nodes1 = rk_by_rank pool (rk_perm draws) nodes2 /\
  Permutation (rk_by_rank pool (rk_perm draws) nodes1) pool /\
  StronglySorted (fun a b => rk_sortkey pool (rk_perm draws) a > rk_sortkey pool (rk_perm draws) b)
                 (rk_by_rank pool (rk_perm draws) nodes1).
Proof. exact rk_by_rank_order_independent. Qed.
Print Assumptions C35_miners_by_rank_order_independent.

(* Whenever the round has a seed, the stored permutation was computed from that seed (and the
   miner count of some call); after SetRandomSeedForNotarizedBlock(seed, n) it is the permutation
   of exactly (seed, n), also when only n differs from what was stored; SetRandomSeed(seed, n)
   does the same on a round without a seed and is ignored otherwise. *)
Theorem C35_stored_ranks_belong_to_seed :
  forall ops, rs_seed (rs_run ops) <> 0 ->
    exists n, rs_permkey (rs_run ops) = Some (rs_seed (rs_run ops), n).
Proof. exact rs_perm_matches_seed. Qed.
Print Assumptions C35_stored_ranks_belong_to_seed.

Theorem C35_stored_ranks_belong_to_last_seed_and_count :
  forall ops seed n,
    rs_permkey (rs_run (ops ++ [RsSetNotarized seed n])) = Some (seed, n) /\
    rs_seed (rs_run (ops ++ [RsSetNotarized seed n])) = seed.
Proof. exact rs_notarized_call_recomputes. Qed.
Print Assumptions C35_stored_ranks_belong_to_last_seed_and_count.

Theorem C35_plain_seed_call_first_wins :
  forall ops seed n,
    (rs_seed (rs_run ops) = 0 -> rs_permkey (rs_run (ops ++ [RsSet seed n])) = Some (seed, n) /\
                                rs_seed (rs_run (ops ++ [RsSet seed n])) = seed) /\
    (rs_seed (rs_run ops) <> 0 -> rs_run (ops ++ [RsSet seed n]) = rs_run ops).
Proof. exact rs_plain_call. Qed.
Print Assumptions C35_plain_seed_call_first_wins.

(* After any history of additions, proposals, updates and reads the round holds at most one
   notarized block per rank (and per hash), heaviest first. *)
Theorem C35_one_block_per_rank_heaviest_first :
  forall ops, let l := nb_notarized (fst (nb_run false nb_init ops)) in
    NoDup (map nb_rank l) /\ NoDup (map nb_hash l) /\ nb_heaviest_first l.
Proof. exact nb_reachable_one_per_rank_heaviest_first. Qed.
Print Assumptions C35_one_block_per_rank_heaviest_first.

(* AddNotarizedBlock of a block with a new hash stores that very object, evicts exactly the
   block of the same rank and keeps all others; a known hash changes nothing. *)
Theorem C35_add_stores_given_block :
  forall r b, nb_inv (nb_notarized r) -> ~ In (nb_hash b) (map nb_hash (nb_notarized r)) ->
  forall x, In x (nb_notarized (nb_add_notarized r b)) <->
            x = b \/ (In x (nb_notarized r) /\ nb_rank x <> nb_rank b).
Proof. exact nb_add_stores_given_block. Qed.
Print Assumptions C35_add_stores_given_block.

Theorem C35_add_known_hash_ignored :
  forall r b, nb_inv (nb_notarized r) -> In (nb_hash b) (map nb_hash (nb_notarized r)) ->
  nb_notarized (nb_add_notarized r b) = nb_notarized r.
Proof. exact nb_add_known_hash_ignored. Qed.
Print Assumptions C35_add_known_hash_ignored.

(* "Updating a notarized block replaces it with the given block": after UpdateNotarizedBlock(b)
   every stored notarized block with b's hash is the object b. *)
Definition C35_full_statement : Prop := nb_update_replaces false.

(* False of the code as written (r.notarizedBlocks[i] = nb stores the old object back). *)
Theorem C35_update_replaces_refuted : ~ C35_full_statement.
Proof. exact nb_update_replaces_refuted. Qed.
Print Assumptions C35_update_replaces_refuted.

(* Outside that trigger (no other object with b's hash is stored as notarized) the statement
   holds; the notarized list is never changed by the call; the proposed list is replaced. *)
Theorem C35_update_replaces_partial :
  forall r b,
  nb_notarized (nb_update false r b) = nb_notarized r /\
  ((forall x, In x (nb_notarized r) -> nb_hash x = nb_hash b -> x = b) ->
   forall x, In x (nb_notarized (nb_update false r b)) -> nb_hash x = nb_hash b -> x = b) /\
  (forall x, In x (nb_proposed (nb_update false r b)) -> nb_hash x = nb_hash b -> x = b) /\
  map nb_hash (nb_proposed (nb_update false r b)) = map nb_hash (nb_proposed r).
Proof. exact nb_update_partial. Qed.
Print Assumptions C35_update_replaces_partial.

(* With the one-word repair ([= b]) the statement holds and the list invariants survive, given
   that objects with the same hash carry the same rank. *)
Theorem C35_update_replaces_after_repair : nb_update_replaces true.
Proof. exact nb_update_replaces_repaired. Qed.
Print Assumptions C35_update_replaces_after_repair.

Theorem C35_invariants_after_repair :
  forall rankof ops, Forall (nb_op_wf rankof) ops ->
    let l := nb_notarized (fst (nb_run true nb_init ops)) in
    NoDup (map nb_rank l) /\ NoDup (map nb_hash l) /\ nb_heaviest_first l.
Proof. exact nb_reachable_repaired. Qed.
Print Assumptions C35_invariants_after_repair.

(* Non-vacuity: a concrete pool, permutation and block history. *)
Example C35_example_ranks :
  rk_build [30; 10; 20; 10] = [10; 20; 30] /\
  rk_draws_ok [0; 1; 0]%nat = true /\ rk_perm [0; 1; 0]%nat = [2; 1; 0]%nat /\
  map (rk_rank (rk_build [30; 10; 20]) (rk_perm [0; 1; 0]%nat)) [10; 20; 30; 40] = [Some 2; Some 1; Some 0; None] /\
  rk_by_rank [10; 20; 30] [2; 1; 0]%nat [20; 30; 10] = [10; 20; 30].
Proof. vm_compute. repeat split. Qed.

Example C35_example_blocks :
  let B h r t := {| nb_hash := h; nb_rank := r; nb_tok := t |} in
  nb_run false nb_init [NbAdd (B 1 2 1); NbAdd (B 2 0 2); NbAdd (B 3 2 3); NbAdd (B 2 0 4);
                        NbUpdate (B 3 2 5); NbPropose (B 9 1 6); NbBest; NbHeaviest]
  = ({| nb_proposed := [B 2 0 4; B 9 1 6; B 1 2 1; B 3 2 5]; nb_notarized := [B 2 0 2; B 3 2 3] |},
     [NbNone; NbNone; NbNone; NbNone; NbNone; NbNone; NbBlock (Some (B 2 0 2)); NbBlock (Some (B 2 0 2))]).
Proof. vm_compute. reflexivity. Qed.
